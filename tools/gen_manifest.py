#!/usr/bin/env python3
"""Regenerate /verif/MANIFEST.json from harness/registry.py and properties.jsonl."""
import json
import os
import sys

HERE = os.path.dirname(os.path.dirname(os.path.abspath(__file__)))
sys.path.insert(0, HERE)
from harness import registry  # noqa: E402

props = [json.loads(l)["id"] for l in open(os.path.join(HERE, "properties.jsonl")) if l.strip()]
checks = []
for pid in props:
    c = registry.CHECKS.get(pid)
    if not c:
        continue
    checks.append({
        "property_id": pid,
        "quick_cmd": "./check %s --tier quick" % pid,
        "thorough_cmd": "./check %s --tier thorough" % pid,
        "evidence_file": "/verif/evidence/%s.json" % pid,
        "replay_cmd_template": "./check %s --replay {path}" % pid,
        "engine": "coq-model+correspondence",
        "level_claimed": {"category": "proof", "text": c["text"],
                          "design_ref": c.get("design_ref", "DESIGN.md section 3")},
        "level_note": c["note"],
        "technique": c.get("technique", registry.TECHNIQUE),
    })
na = [{"property_id": pid, "reason": registry.NOT_APPLICABLE.get(
          pid, "not yet claimed: the model, theorems and correspondence check for this property are "
               "still under construction (machine-checked proof applies; see DESIGN.md section 5)")}
      for pid in props if pid not in registry.CHECKS]
manifest = {
    "version": 1,
    "setup_cmd": "cd /verif && ./setup.sh",
    "hooks": {
        "guard": "CRUNCH_CUBE_VERIF",
        "enable": "no source hooks are needed: the checks import the library from /repo/src in-process "
                  "(the variable is exported by ./check for completeness)",
        "baseline_off_cmd": "cd /repo && /venv/bin/python -m pytest -ra -q -p no:cacheprovider --timeout=900 --continue-on-collection-errors",
        "source_commits": [],
        "add_only": True,
    },
    "engines": [{
        "name": "coq-model+correspondence",
        "path": "/verif/check",
        "serves_properties": [c["property_id"] for c in checks],
        "kind_free_text": "Coq 8.16.1 development under /verif/coq (Base, Spec, Model, Gen, Proofs, Props) built with "
                          "coq_makefile; Python harness under /verif/harness runs the real library and the Gallina "
                          "model on the same generated cases and the relational oracles on the library alone",
    }],
    "checks": checks,
    "not_applicable": na,
    "notes": "See DESIGN.md. known_findings.json lists genuine defects (open => KNOWN-FINDING lines, fixed => history).",
}
with open(os.path.join(HERE, "MANIFEST.json"), "w") as f:
    json.dump(manifest, f, indent=1)
print("MANIFEST.json: %d checks, %d not_applicable" % (len(checks), len(na)))
