#!/usr/bin/env python3
"""Regenerate the `Section GenAgreeCollator_Cxx` appendices of coq/Props/C07.v, C08.v, C09.v from the
lemma statements of coq/Proofs/GenAgreeCollator{Anchored,Sbv}.v (the obligations of the collator
translator harness/translate/x_collator.py).

    python3 tools/gen_collator_appendix.py [/verif]

Every `Lemma gen_<name> : <statement> Proof.` becomes
    Theorem Cxx_gen_<name> : <statement> Proof. exact gen_<name>. Qed.  Print Assumptions Cxx_gen_<name>.
C09 gets the `_hidden_idxs` members and the public orders that apply the filter (visibility), C08 the SortByValueCollator members, C07 the rest
(anchored collators).  The block between the markers (*BEGIN GenAgreeCollator_Cxx*) / (*END GenAgreeCollator_Cxx*) is replaced (appended
when absent); nothing else in the file is touched.
"""
import os
import re
import sys

ROOT = sys.argv[1] if len(sys.argv) > 1 else os.path.dirname(os.path.dirname(os.path.abspath(__file__)))
COQ = os.path.join(ROOT, "coq")

LEMMA = re.compile(r"^Lemma (gen_\w+) :\n(.*?)\nProof\.", re.S | re.M)

IMPORTS = ("Import Coq.Lists.List Coq.ZArith.ZArith CC.Base.SortX CC.Base.PyList CC.Spec.OrderSpec CC.Model.Collator\n"
           "       CC.Model.PyCollator CC.Gen.CollatorSrc CC.Proofs.GenAgreeCollatorLib CC.Proofs.GenAgreeCollatorAnchored\n"
           "       CC.Proofs.GenAgreeCollatorSbv.\n"
           "Import Coq.Lists.List.ListNotations.\n"
           "Local Open Scope Z_scope.\n")

INTRO = {
    "C07": """(* ------------------------------------------------------------------------------------ *)
(* SOURCE TEXT of the anchored collators.  Gen/CollatorSrc.v is regenerated on every check from
   src/cr/cube/collator.py by harness/translate/x_collator.py (shallow translation: every member of
   PayloadOrderCollator / ExplicitOrderCollator, inheritance flattened, as a Gallina function over the
   Python-semantics combinators of Base/PyList.v + Model/PyCollator.v; `self.<member>` = the generated
   function of that member).  For ALL dimensions, order specs, empty sets and both order formats each
   generated function IS the definition of Model/Collator.v the theorems above are about
   ([pyself_of d ..] = the collator object over the Python view of the model dimension; [zdesc],
   [pbi_dict], [ins_pos], [ins_keys], [danchor_pos], [display_result]: Proofs/GenAgreeCollator*.v).
   [None] = the member is outside the translator's whitelist (tied by the correspondence only). *)
""",
    "C08": """(* ------------------------------------------------------------------------------------ *)
(* SOURCE TEXT of SortByValueCollator (harness/translate/x_collator.py -> Gen/CollatorSrc.v, see the
   appendix of Props/C07.v): for ALL dimensions, value vectors (numbers incl. NaN, labels), fixed lists,
   directions, empty sets and both order formats each generated member IS the definition of
   Model/Collator.v the theorems above are about ([sort_of spec] = the order transform as the model's
   sort spec). *)
""",
    "C09": """(* ------------------------------------------------------------------------------------ *)
(* SOURCE TEXT of _BaseCollator._hidden_idxs, for each concrete collator class
   (harness/translate/x_collator.py -> Gen/CollatorSrc.v, see the appendix of Props/C07.v): the set the
   three `_display_order` / `payload_order` filters read is the model's [collator_hidden] - the empty
   vectors if the dimension prunes, plus the dimension's hidden elements - and the public orders, where
   the `if idx not in hidden_idxs` filter sits, are the model's display orders (whose visibility
   theorems are above). *)
""",
}


def lemmas(path):
    with open(path, encoding="utf-8") as f:
        text = f.read()
    out = []
    for m in LEMMA.finditer(text):
        stmt = m.group(2).replace("(EX spec)", "(OExplicit (po_element_ids spec))")
        out.append((m.group(1), stmt))
    return out


def section(pid, items):
    name = "GenAgreeCollator_%s" % pid
    L = [INTRO[pid] + "From CC Require Proofs.GenAgreeCollatorAnchored Proofs.GenAgreeCollatorSbv.",
         "Section %s.   (* scopes and imports below end with the section *)" % name, IMPORTS]
    for lem, stmt in items:
        thm = "%s_%s" % (pid, lem)
        L.append("Theorem %s :\n%s\nProof. exact %s. Qed.\nPrint Assumptions %s.\n" % (thm, stmt, lem, thm))
    L.append("End %s." % name)
    return "\n".join(L) + "\n"


def apply(pid, items):
    path = os.path.join(COQ, "Props", "%s.v" % pid)
    with open(path, encoding="utf-8") as f:
        text = f.read()
    name = "GenAgreeCollator_%s" % pid
    begin, end = "(*BEGIN %s*)\n" % name, "(*END %s*)\n" % name
    new = begin + section(pid, items) + end
    if begin in text and end in text:
        text = text[:text.index(begin)] + new + text[text.index(end) + len(end):]
    elif begin in text or end in text or ("Section %s." % name) in text:
        raise SystemExit("%s: markers of %s are damaged; repair by hand" % (path, name))
    else:
        if not text.endswith("\n"):
            text += "\n"
        text += "\n" + new
    with open(path, "w", encoding="utf-8") as f:
        f.write(text)
    print("%s: %d theorems" % (pid, len(items)))


def main():
    anchored = lemmas(os.path.join(COQ, "Proofs", "GenAgreeCollatorAnchored.v"))
    sbv = lemmas(os.path.join(COQ, "Proofs", "GenAgreeCollatorSbv.v"))
    c09 = [x for x in anchored + sbv
           if x[0].endswith("_hidden_idxs") or x[0].endswith("_display_order") or x[0].endswith("payload_order")]
    c07 = [x for x in anchored if not x[0].endswith("_hidden_idxs")]
    c08 = [x for x in sbv if not x[0].endswith("_hidden_idxs")]
    apply("C07", c07)
    apply("C08", c08)
    apply("C09", c09)


if __name__ == "__main__":
    main()
