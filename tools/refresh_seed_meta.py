#!/usr/bin/env python3
"""refresh_seed_meta.py <eval_outdir> <commit> [prefix]: write the result of an ISOLATED evaluation
(tools/eval_many.py, one private built copy of /verif per worker, DESIGN 8.8) of every stored seed into its
seeded/<name>/meta.json: `final_evaluation` (commit, own-property result, with / without failing input) and
`caught_by` / `missed_by`.  Whatever was recorded before (`first_evaluation`, `checks_run` of earlier
evaluations, `round`, `inert_since`) is kept."""
import glob, json, os, sys
VERIF = os.path.dirname(os.path.dirname(os.path.abspath(__file__)))
out, commit = sys.argv[1], sys.argv[2]
prefix = sys.argv[3] if len(sys.argv) > 3 else "all_"
n = caught = noinput = missed = inert = 0
for f in sorted(glob.glob(os.path.join(out, prefix + "*.json"))):
    name = os.path.basename(f)[len(prefix):-5]
    mp = os.path.join(VERIF, "seeded", name, "meta.json")
    if not os.path.exists(mp):
        continue
    txt = open(f).read()
    try:
        ev = json.loads(txt[txt.index("{"):])
    except Exception:
        print("EVAL-ERROR", name)
        continue
    meta = json.load(open(mp))
    res = {}
    for k, v in ev.get("checks", {}).items():
        line = (v["violation"] or [""])[0]
        res[k] = {"violation": bool(v["violation"]),
                  "with_failing_input": bool(v["violation"]) and "no-failing-input-found" not in line,
                  "summary": v["summary"]}
    meta["final_evaluation"] = {"commit": commit, "isolated_copy": True, "checks": res}
    if meta.get("inert_since"):
        inert += 1
    else:
        meta["caught_by"] = sorted(set(k for k, v in res.items() if v["violation"]) |
                                   set(k for k in meta.get("caught_by", []) if k not in res))
        meta["missed_by"] = sorted(k for k, v in res.items() if not v["violation"])
        own = res.get(meta.get("breaks_property") or meta.get("property"))
        n += 1
        if own and own["violation"]:
            caught += 1
            noinput += not own["with_failing_input"]
        else:
            missed += 1
            print("MISSED", name)
        if own and own["violation"] and not own["with_failing_input"]:
            print("NOINPUT", name)
    json.dump(meta, open(mp, "w"), indent=1)
print("seeds %d (+%d inert): own check catches %d (%d without failing input), misses %d" % (n, inert, caught, noinput, missed))
