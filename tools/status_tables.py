#!/usr/bin/env python3
"""Print the markdown status tables used in DESIGN.md section 7 (theorem counts, findings, seeded changes)."""
import glob, json, os, re, subprocess
V = os.path.dirname(os.path.dirname(os.path.abspath(__file__)))
props = [json.loads(l) for l in open(V + "/properties.jsonl") if l.strip()]
print("### Obligations per property (counted from coq/Props)\n")
print("| id | theorems | examples | refuted / former-witness | axioms other than none |")
print("|---|---|---|---|---|")
for p in props:
    f = V + "/coq/Props/%s.v" % p["id"]
    if not os.path.exists(f):
        print("| %s | - | - | - | - |" % p["id"]); continue
    s = open(f).read()
    th = re.findall(r"^\s*Theorem\s+(\S+)", s, re.M); ex = re.findall(r"^\s*Example\s+(\S+)", s, re.M)
    ref = [t for t in th if "refuted" in t or "former" in t]
    ev = V + "/evidence/%s.json" % p["id"]
    ax = ""
    if os.path.exists(ev):
        ax = ", ".join(json.load(open(ev))["coverage"].get("axioms_reported_by_Print_Assumptions", []))
    print("| %s | %d | %d | %s | %s |" % (p["id"], len(th), len(ex), ", ".join(ref) or "-", ax or "closed under the global context"))
print("\n### Findings\n")
fs = json.load(open(V + "/known_findings.json"))["findings"]
for f in sorted(glob.glob(V + "/known_findings.d/*.json")):
    x = json.load(open(f)); fs.extend(x if isinstance(x, list) else x.get("findings", [x]))
print("| id | properties | status | what |")
print("|---|---|---|---|")
for x in fs:
    st = x.get("status")
    if st == "fixed":
        m = re.search(r"property=\S+\s+(\w+)", x.get("fixed", "")); st = "fixed " + (m.group(1) if m else "")
    print("| %s | %s | %s | %s |" % (x["id"], ",".join(x.get("properties", [])), st, x.get("what", "")[:170].replace("|", "/")))
print("\n### Seeded changes\n")
print("| seed | breaks | caught by | missed by (at the time of the last evaluation) | needs |")
print("|---|---|---|---|---|")
for f in sorted(glob.glob(V + "/seeded/*/meta.json")):
    m = json.load(open(f))
    fe = (m.get("final_evaluation") or {}).get("checks", {})
    cb = [k + (" (obligation only)" if k in fe and fe[k]["violation"] and not fe[k]["with_failing_input"] else "")
          for k in m.get("caught_by", [])]
    if m.get("inert_since"):
        cb = ["inert since repair " + m["inert_since"]["repo_commit"]]
    print("| %s | %s | %s | %s | %s |" % (os.path.basename(os.path.dirname(f)), m.get("breaks_property"), ", ".join(cb) or "-",
                                       ("-" if m.get("inert_since") else ", ".join(m.get("missed_by", [])) or "-"), (m.get("needs_to_manifest") or "")[:150].replace("|", "/").replace("\n", " ")))
