"""pytest plugin (-p wtpath, with PYTHONPATH=/verif/tools): make `cr.cube` import from
$CC_SRC (a scratch worktree's src/) instead of the editable install of /repo."""
import os
import sys

_src = os.environ.get("CC_SRC")
if _src:
    import cr

    cr.__path__[:] = [os.path.join(_src, "cr")]
    for _m in [m for m in sys.modules if m.startswith("cr.")]:
        del sys.modules[_m]
    sys.path.insert(0, _src)
