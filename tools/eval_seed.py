#!/usr/bin/env python3
"""Evaluate one seeded change against the checks.

usage: eval_seed.py <seed_dir> [--props C01,C02 | --all] [--keep NAME] [--skip-confirm]

<seed_dir> holds patch.diff, demo.py (exit 0 = property holds) and meta.json ("property").
 1. confirm: the patch applies to /repo HEAD in a scratch worktree, the repository's own suite still
    gives the baseline (2163 passed, only the pre-existing failure), the demo fails with the change
    and passes without it;
 2. run the registered quick checks (the seeded property's, or --props / --all) against the
    worktree (VERIF_REPO) and record which print a VIOLATION line;
 3. remove the worktree.
Prints one JSON object.  Never touches /repo's working tree.
"""
import json
import os
import re
import shutil
import subprocess
import sys
import tempfile

VERIF = os.path.dirname(os.path.dirname(os.path.abspath(__file__)))
KNOWN_FAIL = "test_profiles_percentages_add_up_to_100"


def sh(cmd, **kw):
    p = subprocess.run(cmd, shell=True, stdout=subprocess.PIPE, stderr=subprocess.STDOUT, **kw)
    return p.returncode, p.stdout.decode("utf-8", "replace")


def main():
    args = sys.argv[1:]
    seed = os.path.abspath(args[0])
    props = None
    confirm = "--skip-confirm" not in args
    if "--props" in args:
        props = args[args.index("--props") + 1].split(",")
    meta = json.load(open(os.path.join(seed, "meta.json")))
    pid = meta["property"]
    if "--all" in args:
        m = json.load(open(os.path.join(VERIF, "MANIFEST.json")))
        props = [c["property_id"] for c in m["checks"]]
    if "--no-checks" in args:
        props = []
    if props is None:
        props = [pid]
    name = re.sub(r"[^A-Za-z0-9_]", "_", os.path.basename(os.path.dirname(seed)) + "_" + os.path.basename(seed))
    wt = "/tmp/ev_%s_%d" % (name, os.getpid())
    tools = wt + "_tools"
    out = {"seed": seed, "property": pid, "worktree": wt}
    rc, o = sh("git -C /repo worktree add -q %s HEAD" % wt)
    if rc:
        out["error"] = "worktree: " + o
        print(json.dumps(out, indent=1))
        return 2
    try:
        rc, o = sh("git -C %s apply %s" % (wt, os.path.join(seed, "patch.diff")))
        if rc:
            rc, o = sh("git -C %s apply -3 %s" % (wt, os.path.join(seed, "patch.diff")))
        out["applies"] = rc == 0
        if rc:
            out["error"] = "patch does not apply to /repo HEAD: " + o[-800:]
            print(json.dumps(out, indent=1))
            return 2
        os.makedirs(tools, exist_ok=True)
        with open(os.path.join(tools, "sitecustomize.py"), "w") as f:
            f.write(
                "import os, sys\n_src = os.environ.get('CC_SRC')\n"
                "if _src:\n    try:\n        import cr\n        cr.__path__[:] = [os.path.join(_src, 'cr')]\n"
                "        for _m in [m for m in sys.modules if m.startswith('cr.')]:\n            del sys.modules[_m]\n"
                "    except ImportError:\n        pass\n    sys.path.insert(0, _src)\n")
        env = dict(os.environ, PYTHONPATH=tools, PYTHONDONTWRITEBYTECODE="1")
        if confirm:
            rc, o = sh("cd %s && /venv/bin/python -m pytest -q -p no:cacheprovider -n 8 2>&1 | tail -5" % wt,
                       env=dict(env, CC_SRC=wt + "/src"), timeout=1800)
            last = [l for l in o.strip().splitlines() if "passed" in l or "failed" in l or "error" in l][-1:]
            out["suite_last_line"] = last[0] if last else o[-300:]
            fails = re.findall(r"^FAILED (\S+)", o, re.M)
            out["suite_ok"] = bool(last) and "2163 passed" in last[0] and all(KNOWN_FAIL in f for f in fails) \
                and not re.search(r"\b[2-9] failed|\d\d+ failed|error", last[0])
            demo = os.path.join(seed, "demo.py")
            rc1, o1 = sh("/venv/bin/python %s" % demo, env=dict(env, CC_SRC=wt + "/src"), cwd=wt, timeout=900)
            rc0, o0 = sh("/venv/bin/python %s" % demo, env=dict(env, CC_SRC="/repo/src"), cwd="/repo", timeout=900)
            out["demo_with_change"] = {"rc": rc1, "tail": o1.strip().splitlines()[-1:] }
            out["demo_clean"] = {"rc": rc0, "tail": o0.strip().splitlines()[-1:]}
            out["confirmed"] = bool(out["suite_ok"] and rc1 != 0 and rc0 == 0)
        res = {}
        for p in props:
            rc, o = sh("cd %s && VERIF_REPO=%s ./check %s --tier quick" % (VERIF, wt, p), timeout=3600)
            viol = [l for l in o.splitlines() if l.startswith("VIOLATION")]
            res[p] = {"rc": rc, "violation": viol[:1], "summary": o.strip().splitlines()[-1:][0][:300] if o.strip() else ""}
            if viol:
                m = re.search(r"replay=(\S+)", viol[0])
                if m and os.path.exists(m.group(1)) and "--keep" in args:
                    keep = os.path.join(seed, "replay-%s.json" % p)
                    shutil.copy(m.group(1), keep)
                    res[p]["replay_kept"] = keep
        out["checks"] = res
        out["caught_by"] = [p for p in props if res[p]["violation"]]
    finally:
        sh("git -C /repo worktree remove --force %s" % wt)
        shutil.rmtree(tools, ignore_errors=True)
    print(json.dumps(out, indent=1))
    return 0


if __name__ == "__main__":
    sys.exit(main())
