#!/bin/bash
# usage: mkseed.sh <name>   -- scratch worktree of /repo HEAD for an independent seeding agent:
#   /tmp/seed_<name>/wt      the worktree (edit here)
#   /tmp/seed_<name>/py      python running against the worktree's src (not /repo's)
#   /tmp/seed_<name>/run_tests   the repository's own test-suite against the worktree
set -e
N="$1"; D=/tmp/seed_$N
rm -rf "$D/tools"; mkdir -p "$D/tools"
[ -d "$D/wt" ] || git -C /repo worktree add -q "$D/wt" HEAD
cat > "$D/tools/sitecustomize.py" <<'PY'
import os, sys
_src = os.environ.get("CC_SRC")
if _src:
    try:
        import cr
        cr.__path__[:] = [os.path.join(_src, "cr")]
        for _m in [m for m in sys.modules if m.startswith("cr.")]:
            del sys.modules[_m]
    except ImportError:
        pass
    sys.path.insert(0, _src)
PY
cat > "$D/py" <<SH
#!/bin/bash
CC_SRC=$D/wt/src PYTHONPATH=$D/tools PYTHONDONTWRITEBYTECODE=1 exec /venv/bin/python "\$@"
SH
cat > "$D/run_tests" <<SH
#!/bin/bash
cd $D/wt && exec $D/py -m pytest -q -p no:cacheprovider -n 8 "\$@"
SH
chmod +x "$D/py" "$D/run_tests"
echo "$D"
