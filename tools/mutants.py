#!/usr/bin/env python3
"""Systematic single-edit mutants of crunch-cube: which survive the repository's own suite, and which of
those do the /verif checks catch?

  mutants.py gen  <out.jsonl> [--n 600] [--seed 1]        enumerate candidate mutants (file, span, replacement)
  mutants.py run  <in.jsonl> <results.jsonl> --worker k --of n   evaluate every n-th mutant starting at k

A worker owns a private copy of /repo's tree (/tmp/mut_<k>/repo) and a private copy of /verif
(/tmp/mut_<k>/verif, because coq/Gen follows the checked tree).  For a mutant: write the mutated file,
run the repository suite (a mutant the suite kills is of no interest: `killed_by_suite`), otherwise run
the quick checks of every property whose anchors name the mutated file and record which print a
VIOLATION line.  The tree is restored after each mutant.  Nothing under /repo or /verif is touched.
"""
import ast
import json
import os
import random
import re
import shutil
import subprocess
import sys

VERIF = os.path.dirname(os.path.dirname(os.path.abspath(__file__)))
SRC = "src/cr/cube"
FILES = ["cube.py", "cubepart.py", "dimension.py", "collator.py", "smoothing.py", "min_base_size_mask.py",
         "matrix/assembler.py", "matrix/cubemeasure.py", "matrix/measure.py", "matrix/subtotals.py",
         "stripe/assembler.py", "stripe/cubemeasure.py", "stripe/insertion.py", "stripe/measure.py",
         "measures/pairwise_significance.py", "util.py"]
KNOWN_FAIL = "test_profiles_percentages_add_up_to_100"

CMP = {ast.Lt: "<=", ast.LtE: "<", ast.Gt: ">=", ast.GtE: ">", ast.Eq: "!=", ast.NotEq: "=="}
CMP_TXT = {ast.Lt: "<", ast.LtE: "<=", ast.Gt: ">", ast.GtE: ">=", ast.Eq: "==", ast.NotEq: "!="}
BIN = {ast.Add: ("+", "-"), ast.Sub: ("-", "+"), ast.Mult: ("*", "/"), ast.Div: ("/", "*")}
NAME_SWAPS = [("nansum", "sum"), ("any", "all"), ("all", "any"), ("_rows_dimension", "_columns_dimension"),
              ("_columns_dimension", "_rows_dimension"), ("row_idx", "column_idx"),
              ("unweighted_counts", "weighted_counts"), ("weighted_counts", "unweighted_counts"),
              ("row_weighted_bases", "column_weighted_bases"), ("column_weighted_bases", "row_weighted_bases"),
              ("row_unweighted_bases", "column_unweighted_bases"), ("column_unweighted_bases", "row_unweighted_bases"),
              ("table_weighted_bases", "row_weighted_bases"), ("addend_idxs", "subtrahend_idxs"),
              ("subtrahend_idxs", "addend_idxs"), ("row_proportions", "column_proportions"),
              ("column_proportions", "row_proportions"), ("table_proportions", "column_proportions"),
              ("valid_elements", "all_elements"), ("maximum", "minimum"), ("min", "max"), ("max", "min")]


def offsets(text):
    out, o = [0], 0
    for line in text.splitlines(True):
        o += len(line.encode("utf-8"))
        out.append(o)
    return out


def gen_file(rel, text):
    tree = ast.parse(text)
    b = text.encode("utf-8")
    offs = offsets(text)

    def span(n):
        return offs[n.lineno - 1] + n.col_offset, offs[n.end_lineno - 1] + n.end_col_offset

    muts = []
    docstrings = set()
    for n in ast.walk(tree):
        if isinstance(n, (ast.FunctionDef, ast.ClassDef, ast.Module)) and n.body and isinstance(n.body[0], ast.Expr) \
                and isinstance(getattr(n.body[0], "value", None), ast.Constant) and isinstance(n.body[0].value.value, str):
            docstrings.add(id(n.body[0].value))
    for n in ast.walk(tree):
        if isinstance(n, ast.Compare) and len(n.ops) == 1 and type(n.ops[0]) in CMP:
            a, _ = span(n.left)
            _, l_end = span(n.left)
            r_start, _ = span(n.comparators[0])
            mid = b[l_end:r_start].decode()
            old = CMP_TXT[type(n.ops[0])]
            if mid.count(old) == 1:
                muts.append((l_end, r_start, mid.replace(old, CMP[type(n.ops[0])]), "cmp"))
        elif isinstance(n, ast.BinOp) and type(n.op) in BIN:
            _, l_end = span(n.left)
            r_start, _ = span(n.right)
            mid = b[l_end:r_start].decode()
            old, new = BIN[type(n.op)]
            if mid.count(old) == 1 and "**" not in mid and "//" not in mid:
                muts.append((l_end, r_start, mid.replace(old, new), "binop"))
        elif isinstance(n, ast.BoolOp):
            for x, y in zip(n.values, n.values[1:]):
                _, l_end = span(x)
                r_start, _ = span(y)
                mid = b[l_end:r_start].decode()
                old, new = ("and", "or") if isinstance(n.op, ast.And) else ("or", "and")
                if len(re.findall(r"\b%s\b" % old, mid)) == 1:
                    muts.append((l_end, r_start, re.sub(r"\b%s\b" % old, new, mid), "boolop"))
        elif isinstance(n, ast.UnaryOp) and isinstance(n.op, ast.Not):
            s0, e0 = span(n)
            s1, e1 = span(n.operand)
            muts.append((s0, e0, b[s1:e1].decode(), "not"))
        elif isinstance(n, ast.Constant) and isinstance(n.value, int) and not isinstance(n.value, bool) \
                and 0 <= n.value <= 3 and id(n) not in docstrings:
            s0, e0 = span(n)
            for new in ({0: [1], 1: [0, 2], 2: [1, 3], 3: [2]}[n.value]):
                muts.append((s0, e0, str(new), "int"))
        elif isinstance(n, ast.Attribute):
            for old, new in NAME_SWAPS:
                if n.attr == old:
                    s0, e0 = span(n)
                    s1 = e0 - len(old.encode())
                    muts.append((s1, e0, new, "attr"))
        elif isinstance(n, ast.Constant) and n.value in (True, False) and isinstance(n.value, bool):
            s0, e0 = span(n)
            muts.append((s0, e0, "False" if n.value else "True", "bool"))
    out = []
    for (s0, e0, new, kind) in muts:
        if b[s0:e0].decode() == new:
            continue
        line = text.encode()[:s0].count(b"\n") + 1
        out.append({"file": rel, "start": s0, "end": e0, "new": new, "kind": kind, "line": line,
                    "old": b[s0:e0].decode()})
    return out


def cmd_gen(out, n, seed):
    rng = random.Random(seed)
    allm = []
    for f in FILES:
        p = os.path.join("/repo", SRC, f)
        allm.extend(gen_file(f, open(p).read()))
    rng.shuffle(allm)
    # stratify: cap per (file, kind)
    seen, pick = {}, []
    for m in allm:
        k = (m["file"], m["kind"])
        if seen.get(k, 0) < max(3, n // 40):
            seen[k] = seen.get(k, 0) + 1
            pick.append(m)
        if len(pick) >= n:
            break
    with open(out, "w") as fh:
        for i, m in enumerate(pick):
            m["id"] = i
            fh.write(json.dumps(m) + "\n")
    print("candidates", len(allm), "picked", len(pick))


def sh(cmd, **kw):
    p = subprocess.run(cmd, shell=True, stdout=subprocess.PIPE, stderr=subprocess.STDOUT, **kw)
    return p.returncode, p.stdout.decode("utf-8", "replace")


def props_for(rel):
    out = []
    for l in open(os.path.join(VERIF, "properties.jsonl")):
        if l.strip():
            p = json.loads(l)
            if any(a.endswith("cr/cube/" + rel) for a in p["anchors"]["files"]):
                out.append(p["id"])
    return out


def cmd_run(inp, res, k, n):
    base = "/tmp/mut_%d" % k
    repo, verif = base + "/repo", base + "/verif"
    if not os.path.isdir(repo):
        os.makedirs(base, exist_ok=True)
        sh("rsync -a --exclude .git /repo/ %s/" % repo)
    sh("rsync -a --delete --exclude work --exclude replays --exclude .git %s/ %s/" % (VERIF, verif))
    tools = base + "/tools"
    os.makedirs(tools, exist_ok=True)
    with open(tools + "/sitecustomize.py", "w") as f:
        f.write("import os, sys\n_src = os.environ.get('CC_SRC')\nif _src:\n    try:\n        import cr\n"
                "        cr.__path__[:] = [os.path.join(_src, 'cr')]\n"
                "        for _m in [m for m in sys.modules if m.startswith('cr.')]:\n            del sys.modules[_m]\n"
                "    except ImportError:\n        pass\n    sys.path.insert(0, _src)\n")
    done = set()
    if os.path.exists(res):
        done = {json.loads(l)["id"] for l in open(res) if l.strip()}
    muts = [json.loads(l) for l in open(inp) if l.strip()]
    env = dict(os.environ, PYTHONPATH=tools, PYTHONDONTWRITEBYTECODE="1", CC_SRC=repo + "/src")
    for m in muts:
        if m["id"] % n != k or m["id"] in done:
            continue
        path = os.path.join(repo, SRC, m["file"])
        orig = open(path, "rb").read()   # the worker's pristine snapshot of /repo
        mutated = orig[:m["start"]] + m["new"].encode() + orig[m["end"]:]
        r = dict(m)
        try:
            ast.parse(mutated.decode())
        except SyntaxError:
            r["status"] = "syntax"
            open(res, "a").write(json.dumps(r) + "\n")
            continue
        open(path, "wb").write(mutated)
        try:
            rc, o = sh("cd %s && timeout 900 /venv/bin/python -m pytest -q -x -p no:cacheprovider -n 4 "
                       "--deselect tests/integration/test_cubepart.py::Test_LegacySlice::%s 2>&1 | tail -3"
                       % (repo, KNOWN_FAIL), env=env)
            last = o.strip().splitlines()[-1] if o.strip() else ""
            if "passed" in last and "failed" not in last and "error" not in last:
                r["status"] = "survived_suite"
                caught, res_checks = [], {}
                for p in props_for(m["file"]):
                    rc2, o2 = sh("cd %s && VERIF_REPO=%s timeout 1500 ./check %s --tier quick" % (verif, repo, p))
                    v = [l for l in o2.splitlines() if l.startswith("VIOLATION")]
                    res_checks[p] = bool(v)
                    if v:
                        caught.append(p)
                r["checks"] = res_checks
                r["caught_by"] = caught
            else:
                r["status"] = "killed_by_suite"
                r["suite"] = last[:120]
        finally:
            open(path, "wb").write(orig)
        open(res, "a").write(json.dumps(r) + "\n")
    # leave Gen in the private verif as it is; nothing shared was touched


if __name__ == "__main__":
    a = sys.argv[1:]
    if a[0] == "gen":
        n = int(a[a.index("--n") + 1]) if "--n" in a else 600
        seed = int(a[a.index("--seed") + 1]) if "--seed" in a else 1
        cmd_gen(a[1], n, seed)
    elif a[0] == "run":
        cmd_run(a[1], a[2], int(a[a.index("--worker") + 1]), int(a[a.index("--of") + 1]))
