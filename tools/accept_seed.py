#!/usr/bin/env python3
"""accept_seed.py <seed_dir> <name> [eval_seed args]: evaluate a seeded change (tools/eval_seed.py) and, when it is
confirmed (suite at baseline, demo fails with it and passes without), keep it as /verif/seeded/<name>/
(patch.diff, demo.py, meta.json extended with what was run and which checks caught it)."""
import json, os, shutil, subprocess, sys
VERIF = os.path.dirname(os.path.dirname(os.path.abspath(__file__)))
seed, name = os.path.abspath(sys.argv[1]), sys.argv[2]
p = subprocess.run([sys.executable, os.path.join(VERIF, "tools", "eval_seed.py"), seed] + sys.argv[3:],
                   stdout=subprocess.PIPE, stderr=subprocess.STDOUT)
txt = p.stdout.decode("utf-8", "replace")
try:
    ev = json.loads(txt[txt.index("{"):])
except Exception:
    print("EVAL-ERROR", name, txt[-1500:]); sys.exit(2)
meta = json.load(open(os.path.join(seed, "meta.json")))
dst = os.path.join(VERIF, "seeded", name)
old = {}
if os.path.exists(os.path.join(dst, "meta.json")):
    old = json.load(open(os.path.join(dst, "meta.json")))
if not ev.get("confirmed") and "--skip-confirm" not in sys.argv:
    print("NOT-CONFIRMED", name, json.dumps({k: ev.get(k) for k in ("applies", "suite_last_line", "suite_ok", "demo_with_change", "demo_clean", "error")}))
    sys.exit(1)
os.makedirs(dst, exist_ok=True)
for f in ("patch.diff", "demo.py"):
    shutil.copy(os.path.join(seed, f), os.path.join(dst, f))
checks = dict(old.get("checks_run", {}))
for k, v in ev.get("checks", {}).items():
    checks[k] = {"violation": bool(v["violation"]), "line": (v["violation"] or [""])[0], "summary": v["summary"]}
meta.update({
    "breaks_property": meta.get("property"),
    "needs_to_manifest": meta.get("needs"),
    "confirmed_by_lead": {
        "how": "tools/eval_seed.py: patch applied to a scratch worktree of /repo HEAD; repository suite; demo with and without the change",
        "suite_last_line": ev.get("suite_last_line", old.get("confirmed_by_lead", {}).get("suite_last_line")),
        "demo_with_change_rc": ev.get("demo_with_change", {}).get("rc", old.get("confirmed_by_lead", {}).get("demo_with_change_rc")),
        "demo_clean_rc": ev.get("demo_clean", {}).get("rc", old.get("confirmed_by_lead", {}).get("demo_clean_rc")),
    },
    "checks_run": checks,
    "caught_by": sorted(k for k, v in checks.items() if v["violation"]),
    "missed_by": sorted(k for k, v in checks.items() if not v["violation"]),
})
json.dump(meta, open(os.path.join(dst, "meta.json"), "w"), indent=1)
print("KEPT", name, "caught_by", meta["caught_by"], "missed_by", meta["missed_by"])
