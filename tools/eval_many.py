#!/usr/bin/env python3
"""Evaluate many seeded changes, each worker in its OWN private copy of /verif (coq/Gen follows the checked
tree, so two trees must never share one copy - running evaluation chains of different properties in one
copy at the same time lets one chain's regenerated Gen files leak into the other's obligations).

usage: eval_many.py <jobs.txt> <outdir> <copy1,copy2,...> [--confirm]
jobs.txt lines:  <seed_dir> <props,comma,separated> <name>
Each copy must be a built copy of /verif at the commit to evaluate (git archive HEAD | tar -x; ./setup.sh)."""
import os, subprocess, sys, threading, queue, json
jobs = [l.split() for l in open(sys.argv[1]) if l.strip() and not l.startswith("#")]
out = sys.argv[2]
copies = sys.argv[3].split(",")
confirm = "--confirm" in sys.argv
os.makedirs(out, exist_ok=True)
q = queue.Queue()
for j in jobs:
    q.put(j)
def worker(copy):
    while True:
        try:
            seed, props, name = q.get_nowait()
        except queue.Empty:
            return
        cmd = ["/venv/bin/python", os.path.join(copy, "tools", "eval_seed.py"), seed, "--props", props]
        if not confirm:
            cmd.append("--skip-confirm")
        p = subprocess.run(cmd, stdout=subprocess.PIPE, stderr=subprocess.STDOUT, cwd=copy)
        open(os.path.join(out, name + ".json"), "wb").write(p.stdout)
        try:
            t = p.stdout.decode("utf-8", "replace"); d = json.loads(t[t.index("{"):])
            print(name, "caught_by", d.get("caught_by"), {k: (v["summary"][-60:], "NOINPUT" if any("no-failing-input-found" in x for x in v["violation"]) else "") for k, v in d.get("checks", {}).items()}, flush=True)
        except Exception as e:
            print(name, "EVAL-ERROR", repr(e), flush=True)
ts = [threading.Thread(target=worker, args=(c,)) for c in copies]
[t.start() for t in ts]
[t.join() for t in ts]
print("DONE")
