#!/usr/bin/env python3
"""Regenerate the `Section GenAgreeCube_Cxx` appendices of coq/Props/C01.v, C06.v, C17.v, C18.v from the lemma
statements of coq/Proofs/GenAgreeCube*.v (the obligations of the cube translator harness/translate/x_cube.py).

    python3 tools/gen_cube_appendix.py [/verif]

Every

    (*@ C17 C18 *)
    Lemma gen_cube_<name> :
      <statement>
    Proof.

becomes, in each property file named by the marker,
    Theorem Cxx_gen_cube_<name> : <statement> Proof. exact gen_cube_<name>. Qed.  Print Assumptions Cxx_gen_cube_<name>.
The block between the markers (*BEGIN GenAgreeCube_Cxx*) / (*END GenAgreeCube_Cxx*) is replaced (appended when
absent); nothing else in the file is touched (the file is re-read right before it is written).
"""
import glob
import os
import re
import sys

ROOT = sys.argv[1] if len(sys.argv) > 1 else os.path.dirname(os.path.dirname(os.path.abspath(__file__)))
COQ = os.path.join(ROOT, "coq")
PIDS = ("C01", "C06", "C17", "C18")

LEMMA = re.compile(r"^\(\*@ ([C0-9 ]+)\*\)\nLemma ((?:gen_)?cube_\w+) :\n(.*?)\nProof\.", re.S | re.M)

INTRO = """(* ------------------------------------------------------------------------------------ *)
(* SOURCE TEXT of src/cr/cube/cube.py.  Gen/CubeSrc.v is regenerated on every check by
   harness/translate/x_cube.py (shallow translation: every member of CubeSet / Cube / _Measures / the
   _BaseMeasure family, inheritance flattened, as a Gallina function over the Python-semantics combinators
   of Base/PyList.v + Base/PyJson.v + Model/PyCube.v; [X] = what cube.py calls in other modules -
   Dimensions.from_dicts, json.loads - as parameters; `self.<member>` = the generated function of that
   member).  For ALL inputs each generated function IS the model definition the theorems above are about;
   a statement `match src_f, src_g with Some f, Some g => forall .., g X c = POk v -> ..` reads: whenever
   the member g of the same object evaluates to v.  [None] = the member is outside the translator's
   whitelist (then only the correspondence ties it). *)
"""


def modules():
    files = sorted(glob.glob(os.path.join(COQ, "Proofs", "GenAgreeCube*.v")))
    return [os.path.splitext(os.path.basename(f))[0] for f in files], files


def lemmas():
    out = {p: [] for p in PIDS}
    for f in modules()[1]:
        mod = os.path.splitext(os.path.basename(f))[0]
        with open(f, encoding="utf-8") as fh:
            text = fh.read()
        for m in LEMMA.finditer(text):
            for pid in m.group(1).split():
                if pid not in out:
                    raise SystemExit("%s: unknown property %s" % (f, pid))
                out[pid].append((m.group(2), m.group(3), mod))
    return out


def section(pid, items):
    name = "GenAgreeCube_%s" % pid
    mods = []

    def add(mod):
        """the module and, first, the GenAgreeCube modules it requires (their definitions appear in statements)"""
        if mod in mods:
            return
        with open(os.path.join(COQ, "Proofs", mod + ".v"), encoding="utf-8") as fh:
            head = fh.read().split("Import ListNotations.")[0]
        for dep in re.findall(r"Proofs\.(GenAgreeCube\w+)", head):
            if dep != mod:
                add(dep)
        mods.append(mod)

    for _, _, mod in items:
        add(mod)
    L = [INTRO + "From CC Require %s." % " ".join("Proofs.%s" % m for m in mods),
         "Section %s.   (* scopes and imports below end with the section *)" % name,
         "Import Coq.Lists.List Coq.ZArith.ZArith Coq.QArith.QArith Coq.Strings.String Coq.Bool.Bool CC.Base.XQ\n"
         "       CC.Base.PyList CC.Base.PyJson CC.Spec.Survey CC.Model.CubeCounts CC.Model.DimType CC.Model.Population\n"
         "       CC.Model.Partition CC.Model.PyCube CC.Gen.CubeSrc %s.\n"
         "Import Coq.Lists.List.ListNotations.\n"
         "Local Close Scope Q_scope.\nLocal Open Scope Z_scope.\nLocal Open Scope string_scope.\n"
         % " ".join("CC.Proofs.%s" % m for m in mods)]
    for lem, stmt, _ in items:
        thm = "%s_%s" % (pid, lem)
        L.append("Theorem %s :\n%s\nProof. exact %s. Qed.\nPrint Assumptions %s.\n" % (thm, stmt, lem, thm))
    L.append("End %s." % name)
    return "\n".join(L) + "\n"


def apply(pid, items):
    path = os.path.join(COQ, "Props", "%s.v" % pid)
    with open(path, encoding="utf-8") as f:
        text = f.read()
    name = "GenAgreeCube_%s" % pid
    begin, end = "(*BEGIN %s*)\n" % name, "(*END %s*)\n" % name
    new = begin + section(pid, items) + end
    if begin in text and end in text:
        text = text[:text.index(begin)] + new + text[text.index(end) + len(end):]
    elif begin in text or end in text or ("Section %s." % name) in text:
        raise SystemExit("%s: markers of %s are damaged; repair by hand" % (path, name))
    elif not items:
        return
    else:
        if not text.endswith("\n"):
            text += "\n"
        text += "\n" + new
    with open(path, "w", encoding="utf-8") as f:
        f.write(text)
    print("%s: %d theorems" % (pid, len(items)))


def main():
    out = lemmas()
    only = [a for a in sys.argv[2:]]
    for pid in PIDS:
        if only and pid not in only:
            continue
        apply(pid, out[pid])


if __name__ == "__main__":
    main()
