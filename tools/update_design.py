#!/usr/bin/env python3
"""Replace the region between the STATUS-TABLES markers of DESIGN.md by tools/status_tables.py's output."""
import os, subprocess, sys
V = os.path.dirname(os.path.dirname(os.path.abspath(__file__)))
out = subprocess.check_output([sys.executable, os.path.join(V, "tools", "status_tables.py")]).decode()
p = os.path.join(V, "DESIGN.md"); s = open(p).read()
a, b = "<!-- STATUS-TABLES:BEGIN -->", "<!-- STATUS-TABLES:END -->"
i, j = s.index(a) + len(a), s.index(b)
open(p, "w").write(s[:i] + "\n" + out + "\n" + s[j:])
print("DESIGN.md tables updated")
