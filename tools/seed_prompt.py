#!/usr/bin/env python3
"""print the prompt for an independent seeding agent: seed_prompt.py Cxx"""
import json, sys
pid = sys.argv[1]
import glob, os
prior = []
for f in sorted(glob.glob('/verif/seeded/%s-*/meta.json' % pid)):
    m = json.load(open(f))
    prior.append("- %s (files: %s)" % (m.get("summary", "")[:300], ", ".join(m.get("files", []))))
PRIOR = ("\n\nChanges of this kind were ALREADY produced in an earlier round - do not repeat them or close variants; pick other "
         "mechanisms, other functions, other input shapes:\n" + "\n".join(prior) + "\n") if prior and ("--round2" in sys.argv or "--round3" in sys.argv or "--round4" in sys.argv or "--round5" in sys.argv or "--round6" in sys.argv) else ""
OUT = "out6" if "--round6" in sys.argv else "out5" if "--round5" in sys.argv else "out4" if "--round4" in sys.argv else ("out3" if "--round3" in sys.argv else ("out2" if "--round2" in sys.argv else "out"))
EXTRA = (" At least ONE of your two changes must be of a kind the earlier ones rarely were: two cooperating edits in different "
         "functions or files that each look fine alone; a fault at a particular point (an exception newly swallowed, or newly "
         "raised, at one step of a multi-step computation); state that leaks between two uses of one object or between two "
         "objects (a cache, a shared default, an argument that is mutated); or a code path only reached through an unusual but "
         "public entry point (CubeSet, 3-D cubes, numeric arrays, strands, the legacy accessors).") if "--round4" in sys.argv else ""
if "--round5" in sys.argv or "--round6" in sys.argv:
    EXTRA = (" Make the changes look like what really gets merged: a vectorisation or caching 'optimisation', an early exit, "
             "a defensive guard or fallback added for robustness, a de-duplication refactor that folds two almost-equal code "
             "paths into one helper, a numpy-idiom swap (np.where / np.take / broadcasting instead of a loop, in-place ops), a "
             "compatibility shim for an input shape the API also accepts (JSON text, envelopes, nulls, strings for numbers). "
             "The bug must live in what the rewrite silently changes for a minority of inputs or access patterns - different "
             "dimension-type pairings, empty / single-element / all-missing dimensions, weighted vs unweighted, 3-D vs 2-D vs "
             "1-D, subtotals at unusual anchors, objects that are read twice or shared. Avoid the functions the earlier changes "
             "touched wherever the property's anchors leave you a choice.")
if "--round6" in sys.argv:
    EXTRA += (" You have about 25 minutes in all: keep each change small, and stop exploring once both demos behave as "
              "required.")
prop = [json.loads(l) for l in open('/verif/properties.jsonl') if l.strip() and json.loads(l)['id'] == pid][0]
D = "/tmp/seed_%s" % pid
print(f"""You are testing how well a semantic property of a Python library is protected. The library is Crunch-io/crunch-cube (a pure-Python library that turns Crunch.io cube JSON responses into crosstab measures). You have your own scratch git worktree of it at {D}/wt (source under {D}/wt/src/cr/cube, tests under {D}/wt/tests). Work ONLY inside {D} - never touch /repo or /verif, do not read anything under /verif.

Helpers: `{D}/py <args>` runs Python against YOUR worktree's source (plain `python` would import the original); `{D}/run_tests [pytest args]` runs the repository's own test-suite against your worktree (about 30 s; the baseline is "2163 passed, 1 failed" where the one failure, tests/integration/test_cubepart.py::Test_LegacySlice::test_profiles_percentages_add_up_to_100, is pre-existing and unrelated).

The property (the only specification you get):
{json.dumps(prop, indent=1)}

Task: produce TWO different, realistic changes to the library source (each a small patch a hurried maintainer could plausibly make: a refactoring slip, a wrong axis/plane/index, an off-by-one, a dropped special case, a swapped argument, an optimisation that is wrong in a corner, two edits that each look fine alone) such that for EACH change:
 1. the library still imports, and the repository's own test-suite still gives exactly the baseline result (2163 passed, same single pre-existing failure) - so the existing tests do not notice it;
 2. the property above is violated on some input: write a small demonstration script `{D}/{OUT}/<k>/demo.py` (k = 1, 2) that builds a cube response + transforms in memory (no fixture files needed, though you may load fixtures from the worktree's tests/fixtures), exercises the public API, checks the property on it with an assertion taken directly from the property text, exits 0 when the property holds and non-zero (assertion error) when it is violated. It must PASS (exit 0) on the unmodified worktree and FAIL with your change applied;
 3. the violation needs something specific to manifest - a particular shape of data (e.g. square tables, a missing category in the middle, zero weights, an unusual dimension-type pairing), a multi-step sequence of operations, an unusual but legal transform, or two cooperating sites - NOT something ordinary use would expose at once (a change that breaks every table is useless).
The two changes must touch different mechanisms of the property (different functions/classes, ideally different files among the property's anchors).{EXTRA}{PRIOR}

Procedure for each change k: edit the worktree; run `{D}/run_tests` and confirm the baseline result; run `{D}/py {D}/{OUT}/k/demo.py` and confirm it fails; save the patch with `git -C {D}/wt diff > {D}/{OUT}/k/patch.diff`; then `git -C {D}/wt checkout -- .` and confirm the demo passes on the clean tree. Also write `{D}/{OUT}/k/meta.json` = {{"property": "{pid}", "summary": "<one line: what the change does>", "needs": "<what specific input / sequence / configuration is needed for the violation to manifest>", "files": [...], "tests_result": "<the exact last line of run_tests with the change applied>", "demo_result_with_change": "<exit code + last line>", "demo_result_clean": "<exit code>"}}.
Leave the worktree clean at the end. Final message: for each change one paragraph (what, where, why the tests miss it, what it needs to manifest) and the paths of the files you wrote.""")
