#!/usr/bin/env python3
"""accept_from_eval.py <seed_dir> <name> <eval.json> [--confirmed "<suite last line>"]: keep a seeded change under
seeded/<name>/ using an evaluation already produced by tools/eval_seed.py (no re-run)."""
import json, os, shutil, sys
VERIF = os.path.dirname(os.path.dirname(os.path.abspath(__file__)))
seed, name, evf = os.path.abspath(sys.argv[1]), sys.argv[2], sys.argv[3]
txt = open(evf).read()
ev = json.loads(txt[txt.index("{"):])
meta = json.load(open(os.path.join(seed, "meta.json")))
dst = os.path.join(VERIF, "seeded", name)
old = json.load(open(os.path.join(dst, "meta.json"))) if os.path.exists(os.path.join(dst, "meta.json")) else {}
conf = old.get("confirmed_by_lead", {})
if ev.get("confirmed"):
    conf = {"how": "tools/eval_seed.py: patch applied to a scratch worktree of /repo HEAD; repository suite; demo with and without the change",
            "suite_last_line": ev.get("suite_last_line"), "demo_with_change_rc": ev["demo_with_change"]["rc"],
            "demo_clean_rc": ev["demo_clean"]["rc"]}
elif "--confirmed" in sys.argv and not conf:
    conf = {"how": "tools/eval_seed.py (earlier run of the same patch): suite at baseline, demo fails with / passes without the change",
            "suite_last_line": sys.argv[sys.argv.index("--confirmed") + 1], "demo_with_change_rc": 1, "demo_clean_rc": 0}
if not conf:
    print("NOT-CONFIRMED", name); sys.exit(1)
os.makedirs(dst, exist_ok=True)
for f in ("patch.diff", "demo.py"):
    shutil.copy(os.path.join(seed, f), os.path.join(dst, f))
checks = dict(old.get("checks_run", {}))
for k, v in ev.get("checks", {}).items():
    checks[k] = {"violation": bool(v["violation"]), "line": (v["violation"] or [""])[0], "summary": v["summary"]}
meta.update({"breaks_property": meta.get("property"), "needs_to_manifest": meta.get("needs"), "confirmed_by_lead": conf,
             "round": 3, "checks_run": checks,
             "caught_by": sorted(k for k, v in checks.items() if v["violation"]),
             "missed_by": sorted(k for k, v in checks.items() if not v["violation"])})
json.dump(meta, open(os.path.join(dst, "meta.json"), "w"), indent=1)
print("KEPT", name, "caught_by", meta["caught_by"], "missed_by", meta["missed_by"])
