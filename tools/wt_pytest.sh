#!/bin/bash
# usage: wt_pytest.sh <worktree> [pytest args...]   -- run the repo test-suite against a worktree
WT="$1"; shift
cd "$WT" && CC_SRC="$WT/src" PYTHONPATH=/verif/tools /venv/bin/python -m pytest -p wtpath -q -p no:cacheprovider "$@"
