#!/usr/bin/env python3
"""Which members of /repo/src/cr/cube are read by at least one source translator?
usage: translator_coverage.py [--uncovered]   (prints per-file counts; --uncovered lists the members not read)"""
import ast, os, re, sys, collections
VERIF = os.path.dirname(os.path.dirname(os.path.abspath(__file__)))
sys.path.insert(0, VERIF)
REPO_SRC = os.path.join(os.environ.get("VERIF_REPO", "/repo"), "src")
from harness.translate import translate  # noqa: E402
import tempfile
gen = tempfile.mkdtemp()
rep = translate.regenerate(REPO_SRC, gen, quiet=True)
covered = collections.defaultdict(set)   # class name -> member names
for m in rep["methods_translated"] + rep.get("helpers_inlined", []):
    what = m.split(":", 1)[1] if ":" in m else m
    what = re.sub(r"\[.*$", "", what)            # blocks[0][0], factory[dispatch]
    if "." in what:
        c, mem = what.split(".", 1)
        covered[c.strip()].add(mem.strip().split(" ")[0])
# translators that flatten inheritance list the concrete class: credit the defining base class too
total = cov = 0
rows = []
unc = []
for root, _d, files in os.walk(os.path.join(REPO_SRC, "cr", "cube")):
    for f in sorted(files):
        if not f.endswith(".py"):
            continue
        p = os.path.join(root, f)
        rel = os.path.relpath(p, os.path.join(REPO_SRC, "cr", "cube"))
        tree = ast.parse(open(p).read())
        classes = {n.name: n for n in tree.body if isinstance(n, ast.ClassDef)}
        # members of subclasses count for the base class that defines them
        def family(cname):
            out = {cname}
            for k, n in classes.items():
                bases = [b.id for b in n.bases if isinstance(b, ast.Name)]
                if cname in bases:
                    out |= family(k)
            return out
        n_tot = n_cov = 0
        for cname, node in classes.items():
            fam = family(cname)
            for fn in node.body:
                if not isinstance(fn, ast.FunctionDef) or (fn.name.startswith("__") and fn.name.endswith("__") and fn.name != "__init__"):
                    continue
                body = [s for s in fn.body if not (isinstance(s, ast.Expr) and isinstance(getattr(s, "value", None), ast.Constant))]
                if len(body) == 1 and isinstance(body[0], ast.Raise):
                    continue      # abstract
                n_tot += 1
                if any(fn.name in covered.get(c, ()) for c in fam):
                    n_cov += 1
                else:
                    unc.append("%s:%s.%s" % (rel, cname, fn.name))
        for fn in tree.body:
            if isinstance(fn, ast.FunctionDef):
                n_tot += 1
                unc.append("%s:%s" % (rel, fn.name))
        rows.append((rel, n_cov, n_tot))
        total += n_tot
        cov += n_cov
for rel, a, b in rows:
    if b:
        print("%-34s %4d / %4d" % (rel, a, b))
print("%-34s %4d / %4d  (%.0f%%)" % ("TOTAL", cov, total, 100.0 * cov / max(total, 1)))
if "--uncovered" in sys.argv:
    print("\n".join(unc))
