#!/bin/bash
# usage: tools/seed_sweep.sh "<seeds>" [tier] [jobs]   e.g. tools/seed_sweep.sh "1 2 3 4" quick 4
# Runs every registered check with each VERIF_SEED on the tree it is started in (used with `vp run`
# from a snapshot: builds the Coq development first).  Prints one line per run; any VIOLATION line on
# the unchanged tree is an alarm to classify (DESIGN 7.5).
cd "$(dirname "$0")/.."
SEEDS="${1:-1 2 3}"; TIER="${2:-quick}"; JOBS="${3:-4}"
./setup.sh > sweep_setup.log 2>&1 || { echo "SETUP FAILED"; tail -30 sweep_setup.log; exit 2; }
mkdir -p sweep_logs
for s in $SEEDS; do
  for p in C01 C02 C03 C04 C05 C06 C07 C08 C09 C10 C11 C12 C13 C14 C15 C16 C17 C18 C19 C20; do
    echo "$s $p"
  done
done | xargs -P "$JOBS" -L 1 bash -c 'VERIF_SEED=$0 ./check $1 --tier '"$TIER"' > sweep_logs/$1-$0.log 2>&1; rc=$?; echo "seed=$0 $1 rc=$rc $(grep -c "^VIOLATION" sweep_logs/$1-$0.log) violations $(grep -c "^KNOWN-FINDING" sweep_logs/$1-$0.log) known"; grep "^VIOLATION" sweep_logs/$1-$0.log | head -3'
echo SWEEP-DONE
