#!/usr/bin/env python3
"""Regenerate the `Section GenAgreeDimension_Cxx` appendices of coq/Props/C04.v, C07.v, C08.v, C09.v, C19.v from
the lemma statements of coq/Proofs/GenAgreeDimension*.v (the obligations of the dimension translator
harness/translate/x_dimension.py).

    python3 tools/gen_dimension_appendix.py [/verif]

Every `Lemma gen_<name> : <statement> Proof.` becomes
    Theorem Cxx_gen_dim_<name> : <statement> Proof. exact gen_<name>. Qed.  Print Assumptions Cxx_gen_dim_<name>.
The block between the markers (*BEGIN GenAgreeDimension_Cxx*) / (*END GenAgreeDimension_Cxx*) is replaced (appended
when absent); nothing else in the file is touched (other builders' sections live in the same files: the file is
re-read right before it is written).
"""
import os
import re
import sys

ROOT = sys.argv[1] if len(sys.argv) > 1 else os.path.dirname(os.path.dirname(os.path.abspath(__file__)))
COQ = os.path.join(ROOT, "coq")

LEMMA = re.compile(r"^Lemma (gen_\w+) :\n(.*?)\nProof\.", re.S | re.M)

# property -> (proof files whose gen_* lemmas are re-exported, imports of the section, intro comment)
BASE_IMPORTS = ("Import Coq.Lists.List Coq.ZArith.ZArith Coq.Strings.String Coq.Bool.Bool CC.Base.XQ CC.Base.Ident CC.Base.PyList\n"
                "       CC.Base.PyDict CC.Model.DimType CC.Model.PyDimension CC.Gen.DimensionSrc CC.Proofs.GenAgreeDimensionLib\n"
                "       CC.Proofs.GenAgreeDimensionSubtotal")
ORDER_IMPORTS = ("Import Coq.Lists.List Coq.ZArith.ZArith Coq.Strings.String Coq.Bool.Bool CC.Base.XQ CC.Base.PyList CC.Base.PyDict\n"
                 "       CC.Model.DimType CC.Model.Subtotals CC.Model.SubtotalIds CC.Model.PyDimension CC.Gen.DimensionSrc\n"
                 "       CC.Proofs.GenAgreeDimensionLib CC.Proofs.GenAgreeDimensionSubtotal")
TAIL = "Import Coq.Lists.List.ListNotations.\nLocal Close Scope Q_scope.\nLocal Open Scope Z_scope.\n"

SPEC = {
    "C04": {
        "files": ["GenAgreeDimensionLib", "GenAgreeDimensionSubtotal"],
        "require": "From CC Require Proofs.GenAgreeDimensionLib Proofs.GenAgreeDimensionSubtotal.",
        "imports": BASE_IMPORTS + " CC.Model.Subtotals CC.Model.SubtotalIds.\n" + TAIL,
        "intro": """(* ------------------------------------------------------------------------------------ *)
(* SOURCE TEXT of the id resolution of dimension.py.  Gen/DimensionSrc.v is regenerated on every check from
   src/cr/cube/dimension.py (+ enums.py) by harness/translate/x_dimension.py (shallow translation: every member
   as a Gallina function over the Python-semantics combinators of Base/PyList.v + Base/PyDict.v (JSON values) +
   Model/PyDimension.v; `self.<member>` = the generated function of that member).  For ALL insertion dicts whose
   term lists are lists of identifiers ([positive_abs] / [negative_abs] / [insdict_of]: Proofs/GenAgreeDimensionSubtotal.v)
   and all Elements objects whose element ids are identifiers ([wf_elems]: Proofs/GenAgreeDimensionLib.v),
   _build_element_id / Element.element_id / Elements.element_ids, _Subtotal.addend_ids / addend_idxs /
   subtrahend_ids / subtrahend_idxs / is_difference and _Subtotals._element_ids / _iter_valid_subtotal_dicts ARE
   [kept_ids] / [resolve] / [is_difference] / [valid_subtotal] of Model/SubtotalIds.v the theorems above are
   about.  [None] = the member is outside the translator's whitelist (tied by the correspondence only). *)
""",
    },
    "C07": {
        "files": ["GenAgreeDimensionAnchors", "GenAgreeDimensionCompose"],
        "require": "From CC Require Proofs.GenAgreeDimensionAnchors Proofs.GenAgreeDimensionCompose Base.Ident.",
        "imports": ORDER_IMPORTS + " CC.Spec.OrderSpec CC.Model.Collator\n       CC.Proofs.OrderCrosswalk CC.Proofs.GenAgreeDimensionAnchors CC.Proofs.GenAgreeDimensionVisibility\n       CC.Proofs.GenAgreeDimensionCompose.\n" + TAIL,
        "intro": """(* ------------------------------------------------------------------------------------ *)
(* SOURCE TEXT of the dimension side of the anchored order (harness/translate/x_dimension.py -> Gen/DimensionSrc.v,
   see the appendix of Props/C04.v): _Subtotal.anchor / insertion_id and _Subtotals._iter_valid_subtotal_dicts /
   _position_crosswalk / _valid_subtotal_dicts_with_ids / _subtotals / bogus_ids / insertion_ids ARE [norm_anchor],
   [valid_dicts], [crosswalk_order] (as the {position: rank} dict the code builds), [with_ids] of Model/Collator.v -
   for ALL lists of insertion dicts that read as the model's [insertion] records ([ins_of]: ids are ints, anchors and
   terms identifiers) and all Elements objects whose ids are identifiers.  [oid] reads an identifier of Base/Ident.v
   as one of Spec/OrderSpec.v; [jv_of_nanchor] is what _Subtotal.anchor returns; [sub_view] = the (insertion_id,
   anchor) pair the collators read (Model/PyCollator.v [pysub], [pysubs_of]) - these are the parameters the collator
   translator takes through [pydim_of].  A view insertion without an id gets the LAST rank of its position in the
   crosswalk dict; the model reads the first: the two agree when no position is listed twice ([NoDup
   (crosswalk_order ..)], which holds for distinct element ids).
   Dimension._view_insertion_dicts / subtotals / subtotals_in_payload_order / insertion_ids / order_spec
   (Proofs/GenAgreeDimensionCompose.v): for every Dimension object that reads as the model dimension d ([dim_abs]:
   element definitions with identifier ids and no "order" key, a dimension type other than MR_SUBVAR / DATETIME,
   insertion dicts that read as [insertion] records) the _Subtotal objects of Dimension.subtotals /
   subtotals_in_payload_order ARE [subtotals d] / [subtotals_in_payload_order d] - so the two translators compose. *)
""",
    },
    "C08": {
        "files": ["GenAgreeDimensionOrderSpec"],
        "require": "From CC Require Proofs.GenAgreeDimensionOrderSpec Model.SortKeys.",
        "imports": BASE_IMPORTS + " CC.Proofs.GenAgreeDimensionOrderSpec.\n" + TAIL,
        "intro": """(* ------------------------------------------------------------------------------------ *)
(* SOURCE TEXT of _OrderSpec (harness/translate/x_dimension.py -> Gen/DimensionSrc.v, see the appendix of
   Props/C04.v): for ALL dimension-transforms dicts every member reads the "order" dict the way the models assume -
   direction != "ascending", element_ids / fixed.top / fixed.bottom as sequences ([] when absent), element_id /
   insertion_id / measure / marginal with KeyError when the field is absent, MEASURE(..) / MARGINAL(..) = the
   keyword when it is in [SortKeys.measure_enum] / [SortKeys.marginal_enum] (read from enums.py) and ValueError
   otherwise, the collation method = the "type" keyword when it is a COLLATION_METHOD value and payload order
   otherwise ([order_of], [seq_field], [fixed_field], [enum_of], [collation_of]: Proofs/GenAgreeDimensionOrderSpec.v). *)
""",
    },
    "C09": {
        "files": ["GenAgreeDimensionVisibility"],
        "require": "From CC Require Proofs.GenAgreeDimensionVisibility Base.Ident.",
        "imports": ORDER_IMPORTS + " CC.Spec.OrderSpec CC.Model.Collator\n       CC.Proofs.GenAgreeDimensionAnchors CC.Proofs.GenAgreeDimensionVisibility.\n" + TAIL,
        "intro": """(* ------------------------------------------------------------------------------------ *)
(* SOURCE TEXT of the dimension side of visibility (harness/translate/x_dimension.py -> Gen/DimensionSrc.v, see the
   appendix of Props/C04.v): _ElementTransforms.hide, Element.is_hidden, Element.missing, Dimension.prune read the
   transforms the way Model/Collator.v does - "hide" is one of True / False / anything else ([hideval_of]), an element
   is hidden exactly when it is True, the dimension prunes exactly when "prune" is True; Elements.from_typedef builds
   one Element per definition with the transforms `all_xforms.get(id, all_xforms.get(str(id), {}))` ([xform_of]; no
   "order" key, dimension type other than MR_SUBVAR / DATETIME), Elements.valid_elements drops the missing ones, and
   Dimension.hidden_idxs IS [hidden_idxs d] for every dimension d whose [d_hides] reads the "elements" transforms
   ([ax_abs]) and whose ids are the valid element ids. *)
""",
    },
    "C19": {
        "files": ["GenAgreeDimensionShim", "GenAgreeDimensionShimDict", "GenAgreeDimensionShimDt"],
        "require": "From CC Require Proofs.GenAgreeDimensionShim Proofs.GenAgreeDimensionShimDict Proofs.GenAgreeDimensionShimDt Model.Shim.",
        "imports": BASE_IMPORTS + " CC.Proofs.GenAgreeDimensionShim CC.Proofs.GenAgreeDimensionShimDict\n       CC.Proofs.GenAgreeDimensionShimDt.\n" + TAIL,
        "intro": """(* ------------------------------------------------------------------------------------ *)
(* SOURCE TEXT of _ElementIdShim.  Gen/DimensionSrc.v is regenerated on every check from src/cr/cube/dimension.py
   by harness/translate/x_dimension.py (shallow translation over the Python-semantics combinators of Base/PyList.v +
   Base/PyDict.v + Model/PyDimension.v; the embedding is by VALUE: an in-place change of an object the function did
   not create is the outcome MutatesCaller, which equals no model result).  For ALL dimension dicts whose
   type.elements reads as the model's [adim] ([adim_of] / [item_of]: Proofs/GenAgreeDimensionShim.v) and all
   identifiers on which the model's restricted int(str) agrees with Python's ([int_agrees]), _subvar_aliases /
   _raw_element_ids / _subvar_ids / _has_mr_insertion / translate_element_id / _replaced_order_element_ids ARE
   [aliases] / [raw_ids] / [subvar_ids] / [d_mr_ins] / [translate] / [replaced_ids] of Model/Shim.v; [conv] reads a
   result of the model in the exception monad of the generated text. *)
""",
    },
}


def lemmas(name):
    with open(os.path.join(COQ, "Proofs", name + ".v"), encoding="utf-8") as f:
        text = f.read()
    return [(m.group(1), m.group(2)) for m in LEMMA.finditer(text)]


def section(pid):
    spec = SPEC[pid]
    name = "GenAgreeDimension_%s" % pid
    L = [spec["intro"] + spec["require"],
         "Section %s.   (* scopes and imports below end with the section *)" % name, spec["imports"]]
    n = 0
    for fname in spec["files"]:
        for lem, stmt in lemmas(fname):
            thm = "%s_gen_dim%s" % (pid, lem[3:] if lem.startswith("gen__") else "_" + lem[4:])
            L.append("Theorem %s :\n%s\nProof. exact %s. Qed.\nPrint Assumptions %s.\n" % (thm, stmt, lem, thm))
            n += 1
    L.append("End %s." % name)
    return "\n".join(L) + "\n", n


def apply(pid):
    path = os.path.join(COQ, "Props", "%s.v" % pid)
    name = "GenAgreeDimension_%s" % pid
    begin, end = "(*BEGIN %s*)\n" % name, "(*END %s*)\n" % name
    body, n = section(pid)
    new = begin + body + end
    with open(path, encoding="utf-8") as f:   # re-read right before writing
        text = f.read()
    if begin in text and end in text:
        text = text[:text.index(begin)] + new + text[text.index(end) + len(end):]
    elif begin in text or end in text or ("Section %s." % name) in text:
        raise SystemExit("%s: markers of %s are damaged; repair by hand" % (path, name))
    else:
        if not text.endswith("\n"):
            text += "\n"
        text += "\n" + new
    with open(path, "w", encoding="utf-8") as f:
        f.write(text)
    print("%s: %d theorems" % (pid, n))


def main():
    only = [a for a in sys.argv[2:]] or sorted(SPEC)
    for pid in only:
        apply(pid)


if __name__ == "__main__":
    main()
