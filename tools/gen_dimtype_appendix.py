#!/usr/bin/env python3
"""Regenerate the `Section GenAgreeDimType_Cxx` appendices of coq/Props/C01.v, C14.v, C20.v, C05.v from the lemma
statements of coq/Proofs/GenAgreeDimType*.v (the obligations of harness/translate/x_dimtype.py) and the meaning
theorems of coq/Proofs/DimValuesProofs.v (about Model/DimValues.v).

    python3 tools/gen_dimtype_appendix.py [/verif] [C01 C14 ..]

A marker `(*@ Cxx *)` in front of `Lemma gen_dimtype_<name> :` / `Theorem <name> ..` names the property the statement
is exported to:
    Theorem Cxx_gen_dimtype_<name> : <statement> Proof. exact gen_dimtype_<name>. Qed.  Print Assumptions ..
    Theorem Cxx_dimvalues_<name> <binders> : <statement> Proof. exact (<name> <binders>). Qed.  Print Assumptions ..
The block between (*BEGIN GenAgreeDimType_Cxx*) / (*END GenAgreeDimType_Cxx*) is replaced (appended when absent);
nothing else in the file is touched - the file is re-read right before it is written.
"""
import os
import re
import sys

ROOT = sys.argv[1] if len(sys.argv) > 1 and sys.argv[1].startswith("/") else \
    os.path.dirname(os.path.dirname(os.path.abspath(__file__)))
COQ = os.path.join(ROOT, "coq")

# property -> the proof files whose marked lemmas are re-exported (a property's section imports only these and what
# they rest on, so that an unreadable member of ANOTHER property's code is not reported against it)
GEN_FILES = {
    "C01": ("GenAgreeDimTypeLib", "GenAgreeDimTypeKind", "GenAgreeDimTypeElems", "GenAgreeDimTypeOrder",
            "GenAgreeDimTypeDims", "GenAgreeDimTypeFromDicts"),
    "C14": ("GenAgreeDimTypeNumeric", "GenAgreeDimTypeComposeNumeric"),
    "C20": ("GenAgreeDimTypeSmoothing",),
    "C05": ("GenAgreeDimTypeLib", "GenAgreeDimTypeLabels", "GenAgreeDimTypeOrder", "GenAgreeDimTypeHidden",
            "GenAgreeDimTypeComposeLabels"),
}
EXTRA_IMPORTS = {
    "C01": (),
    "C14": ("GenAgreeDimTypeLib", "GenAgreeDimTypeElems", "GenAgreeDimTypeOrder"),
    "C20": ("GenAgreeDimTypeLib",),
    "C05": ("GenAgreeDimTypeElems",),
}
MEANING_FILE = "DimValuesProofs"

GEN = re.compile(r"^\(\*@ ([A-Z0-9 ]+?) \*\)\nLemma (gen_dimtype_\w+) :\n(.*?)\nProof\.", re.S | re.M)
MEAN = re.compile(r"^\(\*@ ([A-Z0-9 ]+?) \*\)\n(?:Theorem|Corollary) (\w+)((?: [\w']+| \([^()]*\))*) :\s*\n?(.*?)\nProof\.",
                  re.S | re.M)

INTRO = {
    "C01": """(* ------------------------------------------------------------------------------------ *)
(* SOURCE TEXT of the dimension typing of src/cr/cube/dimension.py.  Gen/DimTypeSrc.v (and Gen/DimensionSrc.v, which
   it imports) is regenerated on every check by harness/translate/x_dimtype.py (x_dimension.py's shallow technique:
   every member as a Gallina function over the Python-semantics combinators of Base/PyList.v + Base/PyDict.v +
   Model/PyDimension.v + Model/PyDimType.v; [X] = what the lazyproperties _dimension_dict / _dimension_transforms_dict
   of a Dimension object evaluate to).  For ALL dimension dicts that read as the model's [rdim] ([rdim_abs],
   Proofs/GenAgreeDimTypeKind.v) Dimensions.dimension_type IS [dimension_type] and Dimensions.from_dicts IS [resolve]
   of Model/DimType.v; apparent_dimensions / dimension_order / shape ARE [apparent_types] / [dimension_order] /
   [raw_shape] (Model/DimType.v, Model/CubeCounts.v, named in Model/NumArray.v); Elements.from_typedef - with a
   typedef "order" list, for MR_SUBVAR and DATETIME - builds the elements of the RE-ARRANGED definitions ([reorder]),
   which are [elements_of] of Model/TypedefOrder.v ([gen_dimtype_from_typedef_model]).  [None] = the member is outside
   the translator's whitelist. *)
""",
    "C14": """(* ------------------------------------------------------------------------------------ *)
(* SOURCE TEXT of the numeric values (harness/translate/x_dimtype.py, see the appendix of Props/C01.v):
   Element.numeric_value IS [numeric_value_of] and Dimension.numeric_values IS [numeric_values_jv] of
   Model/DimValues.v - one value per VALID element of the (re-arranged) type definition, NaN for an absent or null
   entry, 0 for 0 - which is the vector [vals] the theorems above take ([numeric_values] = its numbers).  The
   C14_dimvalues_* theorems say what the model definitions mean. *)
""",
    "C20": """(* ------------------------------------------------------------------------------------ *)
(* SOURCE TEXT of Dimension.smoothing_dict (harness/translate/x_dimtype.py, see the appendix of Props/C01.v): it IS
   [smoother_of] of Model/DimValues.v, and what the smoother reads out of it - smoothing_dict.get("window") - is the
   "window" entry of the analyst's "smoother" dict, a window of 0 included ([transforms_window]); [jv_of_raw] is the
   value the smoothing translator's environment gives to [window_of] (C20_gen_window above). *)
""",
    "C05": """(* ------------------------------------------------------------------------------------ *)
(* SOURCE TEXT of the labels, aliases and names of dimension.py (harness/translate/x_dimtype.py, see the appendix of
   Props/C01.v): Element.label / alias, Dimension.element_labels / element_aliases / subtotal_labels /
   subtotal_aliases / name / description / alias / selected_categories ARE [element_label] .. [dimension_alias] of
   Model/DimValues.v whenever the label formatter is not involved (numeric / datetime / text element values and
   ranges are the outcome Unmodelled); Elements._hidden_transforms IS [hidden_transforms]; the DATETIME_FORMATS
   table IS [datetime_formats].  The C05_dimvalues_* theorems say what the model definitions mean. *)
""",
}

def require_line(pid):
    return "From CC Require " + " ".join("Proofs." + f for f in GEN_FILES[pid] + (MEANING_FILE,)) + "."


def imports(pid):
    mods = []
    for f in EXTRA_IMPORTS[pid] + GEN_FILES[pid] + (MEANING_FILE,):
        if f not in mods:
            mods.append(f)
    return ("Import Coq.Lists.List Coq.ZArith.ZArith Coq.Strings.String Coq.Bool.Bool CC.Base.XQ CC.Base.PyList CC.Base.PyDict\n"
            "       CC.Model.DimType CC.Model.PyDimension CC.Model.PyDimType CC.Model.DimValues CC.Model.Smoothing\n"
            "       CC.Gen.DimensionSrc CC.Gen.DimTypeSrc CC.Proofs.GenAgreeDimensionLib\n       "
            + " ".join("CC.Proofs." + f for f in mods) + ".\n"
            "Import Coq.Lists.List.ListNotations.\nLocal Close Scope Q_scope.\nLocal Open Scope Z_scope.\n"
            "Local Open Scope string_scope.\n")


def read(name):
    with open(os.path.join(COQ, "Proofs", name + ".v"), encoding="utf-8") as f:
        return f.read()


def binder_names(binders):
    out = []
    for tok in re.findall(r"\([^()]*\)|[\w']+", binders):
        if tok.startswith("("):
            out += tok[1:-1].split(":")[0].split()
        else:
            out.append(tok)
    return out


def section(pid):
    name = "GenAgreeDimType_%s" % pid
    L = [INTRO[pid] + require_line(pid), "Section %s.   (* scopes and imports below end with the section *)" % name,
         imports(pid)]
    n = 0
    for fname in GEN_FILES[pid]:
        for m in GEN.finditer(read(fname)):
            if pid not in m.group(1).split():
                continue
            lem, stmt = m.group(2), m.group(3)
            thm = "%s_%s" % (pid, lem)
            L.append("Theorem %s :\n%s\nProof. exact %s. Qed.\nPrint Assumptions %s.\n" % (thm, stmt, lem, thm))
            n += 1
    for m in MEAN.finditer(read(MEANING_FILE)):
        if pid not in m.group(1).split():
            continue
        lem, binders, stmt = m.group(2), m.group(3), m.group(4)
        thm = "%s_dimvalues_%s" % (pid, lem)
        args = " ".join(binder_names(binders))
        L.append("Theorem %s%s :\n%s\nProof. exact (%s %s). Qed.\nPrint Assumptions %s.\n" % (
            thm, binders, stmt, lem, args, thm))
        n += 1
    L.append("End %s." % name)
    return "\n".join(L) + "\n", n


def apply(pid):
    path = os.path.join(COQ, "Props", "%s.v" % pid)
    name = "GenAgreeDimType_%s" % pid
    begin, end = "(*BEGIN %s*)\n" % name, "(*END %s*)\n" % name
    body, n = section(pid)
    new = begin + body + end
    with open(path, encoding="utf-8") as f:   # re-read right before writing
        text = f.read()
    if begin in text and end in text:
        text = text[:text.index(begin)] + new + text[text.index(end) + len(end):]
    elif begin in text or end in text or ("Section %s." % name) in text:
        raise SystemExit("%s: markers of %s are damaged; repair by hand" % (path, name))
    else:
        if not text.endswith("\n"):
            text += "\n"
        text += "\n" + new
    with open(path, "w", encoding="utf-8") as f:
        f.write(text)
    print("%s: %d theorems" % (pid, n))


def main():
    only = [a for a in sys.argv[1:] if not a.startswith("/")] or sorted(INTRO)
    for pid in only:
        apply(pid)


if __name__ == "__main__":
    main()
