#!/usr/bin/env python3
"""Regenerates the appendix `GenAgree (pairwise translator)` at the END of coq/Props/C13.v from the
lemma statements of coq/Proofs/GenAgreePairwise{,Means,Overlap,Legacy,Ctl}.v (the block from its marker line to its END
marker is replaced; the text above and below it is not touched).  Usage: gen_c13_pairwise_appendix.py [/verif]"""
import os
import re
import sys

ROOT = sys.argv[1] if len(sys.argv) > 1 else "/verif"
COQ = os.path.join(ROOT, "coq")
MARK = "(* ==== GenAgree (pairwise translator): what measure.py, pairwise_significance.py, cubepart.py SAY NOW ==== *)"
ENDMARK = "(* ==== GenAgree (pairwise translator): END ==== *)"
OTHER_BEGIN = "(* ---- WIRING-APPENDIX:BEGIN"
FILES = ("GenAgreePairwise", "GenAgreePairwiseMeans", "GenAgreePairwiseOverlap", "GenAgreePairwiseLegacy",
         "GenAgreePairwiseLegacy2", "GenAgreePairwiseCtl", "GenAgreeOverlapBases")

HEAD = MARK + """
(* Gen/PairwiseSrc.v is REWRITTEN FROM THE SOURCE on every check by harness/translate/x_pairwise.py (an
   `ast` whitelist, fail-closed): one [option pexp] per (class, member) -- per block for a `blocks`-shaped
   member -- read through the wiring SecondOrderMeasures.pairwise_*(column_idx); [option bmexp] for the
   index sets, [option jexp] / [olexp] / [wexp] (Base/PairCtlExp.v) for the alpha parsing, the only_larger flag and
   the arguments the public index-set members hand to the static method.  The theorems below say that what the source SAYS NOW ([pev false]: the value; [pev true]:
   the signed square t*|t| of a term with np.sqrt in it; Base/PairExp.v), for ALL sizes, input blocks,
   selected columns in range, flags and for EVERY function standing for scipy's t.cdf, IS the definition of
   Model.Pairwise / Model.PairwiseP the theorems above are about -- tagged shape and every in-range cell.
   [None] on the left = the translator could not read the member (then only the correspondence ties it).
   A change of meaning in the source breaks these obligations (Proofs/GenAgreePairwise*.v fail). *)
From Coq Require String.
From CC Require Base.MeasureExp Base.PairExp Base.PairCtlExp Model.PairwiseP Gen.PairwiseSrc Proofs.PairwisePProofs
     Proofs.GenAgreePairTac Proofs.GenAgreePairwise Proofs.GenAgreePairwiseMeans
     Proofs.GenAgreePairwiseOverlap Proofs.GenAgreePairwiseLegacy Proofs.GenAgreePairwiseCtl
     Model.PairwiseLegacy Proofs.GenAgreePairwiseLegacy2.
Section GenAgreePairwise_C13.   (* scopes and imports below end with the section *)
Import Coq.Strings.String CC.Base.MeasureExp CC.Base.PairExp CC.Base.PairCtlExp CC.Model.PairwiseP CC.Gen.PairwiseSrc
       CC.Proofs.PairwisePProofs CC.Proofs.GenAgreePairTac CC.Proofs.GenAgreePairwise
       CC.Proofs.GenAgreePairwiseMeans CC.Proofs.GenAgreePairwiseOverlap CC.Proofs.GenAgreePairwiseLegacy
       CC.Proofs.GenAgreePairwiseCtl CC.Model.PairwiseLegacy CC.Proofs.GenAgreePairwiseLegacy2.
Import Coq.Lists.List.ListNotations CC.Base.XQ.
Local Close Scope Q_scope.
Local Open Scope string_scope.
Local Open Scope nat_scope.

"""

MEANING = """(* ---- what the p-value definitions of Model/PairwiseP.v MEAN (for every function cdf) ---- *)
Theorem C13_p_model_range (cdf : xq -> xq -> xq) (tt df : xq) (c : Q) :
  cdf (xabs tt) df = Fin c -> (1 # 2 <= c)%Q -> (c <= 1)%Q ->
  exists p : Q, pval_x cdf tt df = Fin p /\\ (p == 2 * (1 - c))%Q /\\ (0 <= p)%Q /\\ (p <= 1)%Q.
Proof. exact (pval_x_range cdf tt df c). Qed.
Print Assumptions C13_p_model_range.

Theorem C13_p_model_of_square (cdf : xq -> xq -> xq) (tt tt' df : xq) :
  xabs tt = xabs tt' -> pval_x cdf tt df = pval_x cdf tt' df.
Proof. exact (pval_x_of_square cdf tt tt' df). Qed.
Print Assumptions C13_p_model_of_square.

Theorem C13_p_model_two_sided (cdf : xq -> xq -> xq) (tt df : xq) :
  (forall x y d, x =x= y -> cdf x d = cdf y d) ->
  pval_x cdf (xneg tt) df = pval_x cdf tt df.
Proof. exact (pval_x_even cdf tt df). Qed.
Print Assumptions C13_p_model_two_sided.

Theorem C13_p_model_cell cdf TT N rn i j : i < nrows TT -> j < ncols TT ->
  mnth (pw_pblock cdf TT N rn) i j = pval_x cdf (mnth TT i j) (t_df (mnth N i j) (vnth rn i)).
Proof. exact (pw_pblock_cell cdf TT N rn i j). Qed.
Print Assumptions C13_p_model_cell.

Theorem C13_p_model_means_subtotal_nan cdf sel M S N i j : (sel < 0)%Z -> i < nrows M -> j < ncols M ->
  mnth (welch_pblock cdf sel M S N) i j = NaN.
Proof. exact (welch_pblock_subtotal_nan cdf sel M S N i j). Qed.
Print Assumptions C13_p_model_means_subtotal_nan.

Theorem C13_p_model_means_cell cdf sel M S N i j : (0 <= sel)%Z -> i < nrows M -> j < ncols M ->
  mnth (welch_pblock cdf sel M S N) i j =
  pval_x cdf (mnth (welch_tblock sel M S N) i j) (mnth (welch_dfblock sel S N) i j).
Proof. exact (welch_pblock_cell cdf sel M S N i j). Qed.
Print Assumptions C13_p_model_means_cell.

Theorem C13_p_model_overlap_self cdf a CP S N i : i < nrows CP -> a < ncols CP ->
  mnth (ov_pblock cdf a CP S N) i a = ov_p_self.
Proof. exact (ov_pblock_self cdf a CP S N i). Qed.
Print Assumptions C13_p_model_overlap_self.

Theorem C13_p_model_overlap_cell cdf a b CP S N i : i < nrows CP -> b < ncols CP -> b <> a ->
  mnth (ov_pblock cdf a CP S N) i b =
  pval_x cdf (mnth (ov_tblock a CP S N) i b)
         (xsub (ov_df (mnth (nth i N []) a a) (mnth (nth i N []) b b) (mnth (nth i N []) a b)) (Fin 2)).
Proof. exact (ov_pblock_offdiag cdf a b CP S N i). Qed.
Print Assumptions C13_p_model_overlap_cell.

"""

EXAMPLE = r"""(* ---- non-vacuity: the shape / range hypotheses of the theorems above are inhabited by a table without
   subtotal rows (those blocks are []), one subtotal column selected (-1) or a base column (1); the model
   blocks they speak about are not trivial there ---- *)
Example C13_gen_example_hypotheses :
  let B := fun (m : string) (bi bj : nat) =>
    if String.eqb m "column_proportions"
    then match bi, bj with
         | 0, 0 => [[Fin (1#2)%Q; Fin (1#4)%Q]; [Fin (1#2)%Q; Fin (3#4)%Q]]
         | 0, _ => [[Fin (3#8)%Q]; [Fin (5#8)%Q]]
         | _, _ => []
         end
    else match bi, bj with
         | 0, 0 => [[Fin 8%Q; Fin 8%Q]; [Fin 8%Q; Fin 8%Q]]
         | 0, _ => [[Fin 16%Q]; [Fin 16%Q]]
         | _, _ => []
         end in
  let c3 := fun (_ _ : string) =>
    [[[Fin 6%Q; Fin 2%Q]; [Fin 2%Q; Fin 4%Q]]; [[Fin 6%Q; Fin 2%Q]; [Fin 2%Q; Fin 4%Q]]] in
  pw_shaped B 2 2 0 1 /\ sel_ok (-1) 2 1 /\ sel_ok 1 2 1 /\ ov_shaped B c3 2 2 /\
  mnth (nth 0 (pw_model (-1) (fun _ => false) B) []) 0 1 =x= Fin ((-16) # 39)%Q /\
  mnth (nth 5 (pw_model (-1) (fun _ => false) B) []) 0 0 =x= Fin 30%Q /\
  mnth (nth 0 (pw_model 1 (fun _ => true) B) []) 1 0 =x= Fin ((-8) # 7)%Q /\
  aval_wf (Av_float (1#10)%Q) /\ aval_wf (Av_list [It_float (1#10)%Q; It_other]).
Proof.
  cbv zeta. unfold pw_shaped, blk_shaped, ov_shaped, sq3, shaped, sel_ok, aval_wf.
  repeat split; try reflexivity; try lia; try (intros; cbn; lia); try (vm_compute; reflexivity);
    try (intro H; discriminate H);
    try (destruct i as [|[|i]]; [reflexivity|reflexivity|lia]);
    try (intros j Hj; destruct i as [|[|i]]; [| |lia]; (destruct j as [|[|j]]; [reflexivity|reflexivity|lia])).
Qed.

"""

# (theorem name, [lemma names])
GROUPS = (
    ("C13_gen_pairwise_t_stats", ["gen_PairwiseSigTstats_blocks_%d%d" % ij for ij in ((0, 0), (0, 1), (1, 0), (1, 1))]),
    ("C13_gen_pairwise_column_bases", ["gen_PairwiseSigTstats__column_bases_%d%d" % ij for ij in ((0, 0), (0, 1), (1, 0), (1, 1))]),
    ("C13_gen_pairwise_p_vals", ["gen_PairwiseSigPvals_blocks_%d%d" % ij for ij in ((0, 0), (0, 1), (1, 0), (1, 1))]),
    ("C13_gen_means_t_stats", ["gen_PairwiseMeansSigTStats_t_stats"]),
    ("C13_gen_means_t_stats_blocks", ["gen_PairwiseMeansSigTStats_blocks_%d%d" % ij for ij in ((0, 0), (0, 1), (1, 0), (1, 1))]),
    ("C13_gen_means_df", ["gen_PairwiseMeansSigPVals__df"]),
    ("C13_gen_means_p_vals", ["gen_PairwiseMeansSigPVals_p_vals"]),
    ("C13_gen_means_p_vals_blocks", ["gen_PairwiseMeansSigPVals_blocks_%d%d" % ij for ij in ((0, 0), (0, 1), (1, 0), (1, 1))]),
    ("C13_gen_overlap_helper_t_stats", ["gen_OverlapHelper_t_stats"]),
    ("C13_gen_overlap_helper_df", ["gen_OverlapHelper__df"]),
    ("C13_gen_overlap_helper_p_vals", ["gen_OverlapHelper_p_vals"]),
    ("C13_gen_overlap_t_stats_for_subvar", ["gen_PairwiseSigTStatsForSubvar_t_stats"]),
    ("C13_gen_overlap_p_vals_for_subvar", ["gen_PairwiseSigPValsForSubvar_p_vals"]),
    ("C13_gen_overlap_inserted_rows_for_subvar", ["gen_PairwiseSigTStatsForSubvar__hs_t_stats",
                                                   "gen_PairwiseSigPValsForSubvar__hs_p_vals"]),
    ("C13_gen_legacy_t_stats", ["gen_Legacy_t_stats"]),
    ("C13_gen_legacy_summary_t_stats", ["gen_Legacy_summary_t_stats"]),
    ("C13_gen_legacy_df", ["gen_Legacy__df", "gen_Legacy__df_mat"]),
    ("C13_gen_legacy_summary_p_vals", ["gen_Legacy_summary_p_vals"]),
    ("C13_gen_legacy_summary_pairwise_indices", ["gen_Legacy_summary_pairwise_indices"]),
    ("C13_gen_legacy_t_stats_scale_means", ["gen_Legacy_t_stats_scale_means"]),
    ("C13_gen_legacy_two_sample_df", ["gen_Legacy__two_sample_df"]),
    ("C13_gen_legacy_p_vals_scale_means", ["gen_Legacy_p_vals_scale_means"]),
    ("C13_gen_legacy_scale_mean_pairwise_indices", ["gen_Legacy_scale_mean_pairwise_indices"]),
    ("C13_gen_legacy_per_column", ["gen_PairwiseSignificance__scale_mean_pairwise_indices",
                                   "gen_PairwiseSignificance_summary_pairwise_indices",
                                   "gen_PairwiseSignificance_scale_mean_pairwise_indices"]),
    ("C13_gen_pairwise_indices", ["gen_Slice__pairwise_indices"]),
    ("C13_gen_alpha_values", ["gen_CubePartition__alpha_values"]),
    ("C13_gen_alpha_projections", ["gen_CubePartition__alpha_projections"]),
    ("C13_gen_only_larger", ["gen_CubePartition__only_larger"]),
    ("C13_gen_cube_has_overlaps", ["gen_Slice__cube_has_overlaps"]),
    ("C13_gen_selected_column_routing", ["gen_Slice__pairwise_significance_t_stats", "gen_Slice__pairwise_significance_p_vals",
                                         "gen_Slice__pairwise_significance_means_t_stats",
                                         "gen_Slice__pairwise_significance_means_p_vals"]),
    ("C13_gen_pairwise_indices_args", ["gen_Slice_pairwise_indices", "gen_Slice_pairwise_indices_alt"]),
    ("C13_gen_pairwise_means_indices_args", ["gen_Slice_pairwise_means_indices", "gen_Slice_pairwise_means_indices_alt"]),
)


HEAD2 = """
(* ==== GenAgree (overlap bases): which planes of cube.overlaps / cube.valid_overlaps feed the overlap test ==== *)
(* Gen/CubeCountsSrc.v (first translator) holds what matrix/cubemeasure.py says for _CatXMrOverlaps / _MrXMrOverlaps
   .selected_bases / .valid_bases; Gen/PairwiseSrc.v what _BaseCubeOverlaps.factory says (class dispatch, what
   each constructor field is bound to, the `is None` guards).  The theorems say it denotes Model/OverlapBases.v;
   the cut [FSliced] is cls._slice_idx_expr, whose reading is C01_gen_slice_idx_expr ([slice_at]); meaning theorems
   about the model (legacy tests and overlap bases) follow. *)
From CC Require Base.Tensor Base.TensorTile Model.CubeCounts Model.OverlapBases Gen.CubeCountsSrc Gen.StripeCountsSrc Gen.Tables
     Proofs.GenAgreeTac Proofs.GenAgreeOverlapBases Proofs.PairwiseLegacyProofs.
Section GenAgreeOverlapBases_C13.   (* scopes and imports below end with the section *)
Import Coq.Strings.String CC.Base.Tensor CC.Base.TensorTile CC.Model.CubeCounts CC.Model.OverlapBases CC.Model.PairwiseLegacy
       CC.Gen.CubeCountsSrc CC.Gen.StripeCountsSrc CC.Gen.Tables CC.Gen.PairwiseSrc CC.Proofs.GenAgreeTac
       CC.Proofs.GenAgreeOverlapBases CC.Proofs.PairwiseLegacyProofs.
Import Coq.Lists.List.ListNotations CC.Base.XQ.
Local Close Scope Q_scope.
Local Open Scope string_scope.
Local Open Scope nat_scope.

"""

GROUPS2 = (
    ("C13_gen_overlap_bases_classes", ["gen_CatXMrOverlaps_selected_bases", "gen_CatXMrOverlaps_valid_bases",
                                       "gen_MrXMrOverlaps_selected_bases", "gen_MrXMrOverlaps_valid_bases"]),
    ("C13_gen_overlaps_factory_binds", ["gen_overlaps_factory_binds"]),
    ("C13_gen_overlaps_factory_dispatch", ["gen_dispatch_overlaps_selected", "gen_dispatch_overlaps_valid"]),
)

MEANING2 = r"""(* ---- what Model/PairwiseLegacy.v and Model/OverlapBases.v MEAN ---- *)
Theorem C13_legacy_summary_formula (cb cb0 N : Q) :
  (0 < N)%Q ->
  let p := (cb / N)%Q in let p0 := (cb0 / N)%Q in
  (0 < p * (1 - p) / N + p0 * (1 - p0) / N)%Q ->
  summary_tabs (Fin cb) (Fin N) (Fin cb0) (Fin N) =x=
  Fin ((p - p0) * Qabs.Qabs (p - p0) / (p * (1 - p) / N + p0 * (1 - p0) / N))%Q.
Proof. exact (summary_tabs_formula cb cb0 N). Qed.
Print Assumptions C13_legacy_summary_formula.

Theorem C13_legacy_scale_formula (m v n m0 v0 n0 : Q) :
  ~ (n == 0)%Q -> ~ (n0 == 0)%Q -> ~ (n0 + n - 2 == 0)%Q ->
  (0 < qpool n v n0 v0)%Q -> (0 < 1 / n0 + 1 / n)%Q ->
  scale_tabs (Fin m) (Fin v) (Fin n) (Fin m0) (Fin v0) (Fin n0) =x=
  Fin ((m - m0) * Qabs.Qabs (m - m0) / (qpool n v n0 v0 * (1 / n0 + 1 / n)))%Q.
Proof. exact (scale_tabs_formula m v n m0 v0 n0). Qed.
Print Assumptions C13_legacy_scale_formula.

Theorem C13_legacy_scale_df (n n0 : Q) : scale_df (Fin n) (Fin n0) =x= Fin (n0 + n - 2)%Q.
Proof. exact (scale_df_fin n n0). Qed.
Print Assumptions C13_legacy_scale_df.

Theorem C13_legacy_scale_df_sym n n0 : scale_df n0 n =x= scale_df n n0.
Proof. exact (scale_df_sym n n0). Qed.
Print Assumptions C13_legacy_scale_df_sym.

Theorem C13_legacy_valid_counts_all_valid nv M nr j :
  (forall i, i < nr -> is_nan (vnth nv i) = false) ->
  valid_counts nv M nr j = xsum (map (fun i => mnth M i j) (seq 0 nr)).
Proof. exact (valid_counts_all_valid nv M nr j). Qed.
Print Assumptions C13_legacy_valid_counts_all_valid.

Theorem C13_legacy_where_def alpha ol pv tv n j :
  In j (legacy_where alpha ol pv tv n) <->
  j < n /\ xltb (pv j) alpha = true /\ (ol = true -> xltb (tv j) (Fin 0%Q) = true).
Proof. exact (legacy_where_spec alpha ol pv tv n j). Qed.
Print Assumptions C13_legacy_where_def.

Theorem C13_legacy_where_self_excluded alpha pv tv n c :
  tv c = Fin 0%Q \/ tv c = NaN -> ~ In c (legacy_where alpha true pv tv n).
Proof. exact (legacy_where_self_excluded_t alpha pv tv n c). Qed.
Print Assumptions C13_legacy_where_self_excluded.

(* the witness of the open finding C05-scale-mean-pairwise-hidden, as the model (= the code) computes it:
   CAT(values 1, 2, 3) x CAT, counts [[4,1],[1,1],[1,4]], column scale means 3/2, 5/2 *)
Example C13_legacy_example :
  let M := [[Fin 4%Q; Fin 1%Q]; [Fin 1%Q; Fin 1%Q]; [Fin 1%Q; Fin 4%Q]] in
  let nv := [Fin 1%Q; Fin 2%Q; Fin 3%Q] in
  let means := [Fin (3#2)%Q; Fin (5#2)%Q] in
  (* all three rows displayed: n = 6, 6; variances 7/12; t^2 = 36/7 (t = 2.2678), df = 10 *)
  valid_counts nv M 3 0 =x= Fin 6%Q /\
  vnth (scale_t means [Fin (7#12)%Q; Fin (7#12)%Q] (valid_counts nv M 3) 0) 1 =x= Fin (36#7)%Q /\
  vnth (scale_dfs 2 (valid_counts nv M 3) 0) 1 =x= Fin 10%Q /\
  (* row 2 hidden: the displayed counts give n = 5, 5, variances 13/20: t^2 = 50/13 (t = 1.9612), df = 8 *)
  (let M' := [[Fin 4%Q; Fin 1%Q]; [Fin 1%Q; Fin 4%Q]] in
   let nv' := [Fin 1%Q; Fin 3%Q] in
   vnth (scale_t means [Fin (13#20)%Q; Fin (13#20)%Q] (valid_counts nv' M' 2) 0) 1 =x= Fin (50#13)%Q /\
   vnth (scale_dfs 2 (valid_counts nv' M' 2) 0) 1 =x= Fin 8%Q) /\
  (* a row without a numeric value does not count *)
  valid_counts [Fin 1%Q; NaN; Fin 3%Q] M 3 0 =x= Fin 5%Q /\
  (* the summary test: shares 30/100 against 50/100 *)
  vnth (summary_t [Fin 50%Q; Fin 30%Q] (fun _ => Fin 100%Q) 0) 1 =x= Fin ((-200) # 23)%Q /\
  vnth (summary_df [Fin 50%Q; Fin 30%Q] 0) 1 =x= Fin 78%Q /\
  legacy_where (Fin (5#100)%Q) true (vnth [Fin 1%Q; Fin (1#100)%Q; Fin (1#100)%Q]) (vnth [Fin 0%Q; Fin (-4)%Q; Fin 9%Q]) 3 = [1].
Proof. vm_compute. repeat split; reflexivity. Qed.

Theorem C13_overlap_slice_mr_table ndim k T idx : 3 <= ndim ->
  overlap_slice ndim true k T idx = T (k :: 0 :: idx).
Proof. exact (overlap_slice_mr_table ndim k T idx). Qed.
Print Assumptions C13_overlap_slice_mr_table.

Theorem C13_overlap_slice_cat_table ndim k T idx : 3 <= ndim ->
  overlap_slice ndim false k T idx = T (k :: idx).
Proof. exact (overlap_slice_cat_table ndim k T idx). Qed.
Print Assumptions C13_overlap_slice_cat_table.

Theorem C13_overlap_slice_2d ndim tmr k T : ndim < 3 -> overlap_slice ndim tmr k T = T.
Proof. exact (overlap_slice_2d ndim tmr k T). Qed.
Print Assumptions C13_overlap_slice_2d.

Theorem C13_overlap_valid_excludes_missing V ncat r a b :
  cm_valid V ncat 3 r a b =
  xsumn ncat (fun c => xadd (V [c; a; 0; b]) (xadd (V [c; a; 1; b]) (Fin 0%Q))).
Proof. exact (cm_valid_excludes_missing V ncat r a b). Qed.
Print Assumptions C13_overlap_valid_excludes_missing.

Theorem C13_overlap_mr_selected_planes O r a b :
  mm_selected O 3 r a b = xadd (O [r; 0; a; 0; b]) (xadd (O [r; 1; a; 0; b]) (Fin 0%Q)).
Proof. exact (mm_selected_planes O r a b). Qed.
Print Assumptions C13_overlap_mr_selected_planes.

"""


def statements():
    out = {}
    for f in FILES:
        text = open(os.path.join(COQ, "Proofs", f + ".v")).read()
        for m in re.finditer(r"^Lemma (gen_[A-Za-z0-9_]+) :\n(.*?)\nProof\.", text, re.S | re.M):
            stmt = m.group(2).rstrip()
            assert stmt.endswith("."), m.group(1)
            out[m.group(1)] = stmt[:-1]
    return out


def conj(names):
    if len(names) == 1:
        return names[0]
    return "(conj %s %s)" % (names[0], conj(names[1:]))


def main():
    st = statements()
    L = [HEAD, MEANING]
    for thm, lemmas in GROUPS:
        parts = ["(%s)" % st[n].strip() if len(lemmas) > 1 else st[n].strip() for n in lemmas]
        body = " /\\\n  ".join(parts)
        L.append("Theorem %s :\n  %s.\nProof. exact %s. Qed.\nPrint Assumptions %s.\n\n" % (thm, body, conj(lemmas), thm))
    L.append(EXAMPLE)
    L.append("End GenAgreePairwise_C13.\n")
    L.append(HEAD2)
    for thm, lemmas in GROUPS2:
        parts = ["(%s)" % st[n].strip() if len(lemmas) > 1 else st[n].strip() for n in lemmas]
        body = " /\\\n  ".join(parts)
        L.append("Theorem %s :\n  %s.\nProof. exact %s. Qed.\nPrint Assumptions %s.\n\n" % (thm, body, conj(lemmas), thm))
    L.append(MEANING2)
    L.append("End GenAgreeOverlapBases_C13.\n")
    path = os.path.join(COQ, "Props", "C13.v")
    src = open(path).read()
    block = "".join(L).rstrip("\n") + "\n" + ENDMARK + "\n"
    if MARK in src:
        i = src.index(MARK)
        rest = src[i:]
        # our block ends at our END marker, else (older file) where another generated appendix begins, else at EOF
        if ENDMARK in rest:
            j = i + rest.index(ENDMARK) + len(ENDMARK)
            tail = src[j:].lstrip("\n")
        elif OTHER_BEGIN in rest:
            j = i + rest.index(OTHER_BEGIN)
            tail = src[j:]
        else:
            tail = ""
        src = src[:i] + block + ("\n" + tail if tail else "")
    else:
        src = src.rstrip("\n") + "\n\n" + block
    open(path, "w").write(src)
    missing = [n for n in st if not any(n in g[1] for g in GROUPS + GROUPS2)]
    if missing:
        print("lemmas not re-exported:", missing)


if __name__ == "__main__":
    main()
