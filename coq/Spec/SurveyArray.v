(* Spec/SurveyArray.v -- categorical-array variables in the respondent-level survey.

   ADDITIVE extension of Spec/Survey.v (nothing there is changed).  Survey.v already lets a
   respondent answer an array variable ([AArr cs]: per item the payload position of the
   chosen category, missing categories included; an item without entry = no data) and already
   tabulates it on the two axes (item, category) ([contributes KArr]).  What was missing is
   the MEANING of the elements of the two dimensions an array contributes to a cube
   (CA_SUBVAR = its items, CA_CAT = its categories) and the tensor in the axis order the
   payload has.  This file adds:

     item_ans a k         the answer on item k seen as the answer to a CATEGORICAL variable:
                          an array with n items is n categorical variables sharing one
                          category list
     in_arr mi mc a i c   the respondent gave the c-th VALID category on the i-th VALID item
                          (= in_cat of that item)
     ok_arr mi mc a i     the respondent is valid on THAT item: gave it a non-missing category
                          (= ok_cat of that item).  Eligibility is per item.
     ca_layout            the eight axis orders of a cube over one array (S = items,
                          C = categories) and at most one other variable X (categorical or MR)
     ca_tabulate l ..     the response tensor in exactly that axis order
     ca_tabulate_cell     what a cell means: the weighted number of respondents who answered
                          payload category c on payload item i (and contribute the X part)

   Like Survey.v the file does not depend on the model. *)
From Coq Require Import QArith ZArith List Bool Lia Arith Btauto Setoid Morphisms.
From CC Require Import Base.XQ Base.ListX Spec.Survey.
Import ListNotations.
Local Close Scope Q_scope.
Local Open Scope nat_scope.

(* ------------------------------------------------------------------------------------ *)
(** * One item of an array is a categorical variable *)

Definition item_ans (a : answer) (k : nat) : answer :=
  match aarr a k with Some c => ACat c | None => AMr [] end.

Lemma acat_item_ans a k : acat (item_ans a k) = aarr a k.
Proof. unfold item_ans. destruct (aarr a k); reflexivity. Qed.

(* the respondent answered payload category c on payload item i *)
Definition gave (a : answer) (i c : nat) : bool := oeqb (aarr a i) c.

Lemma gave_item_ans a i c : gave a i c = oeqb (acat (item_ans a i)) c.
Proof. unfold gave. rewrite acat_item_ans. reflexivity. Qed.

(* [mi] = missing flag per item (normally all false), [mc] = missing flag per category *)
Definition in_arr (mi mc : list bool) (a : answer) (i c : nat) : bool :=
  (i <? length (valid_idxs mi)) && in_cat mc (item_ans a (nth i (valid_idxs mi) O)) c.
Definition ok_arr (mi mc : list bool) (a : answer) (i : nat) : bool :=
  (i <? length (valid_idxs mi)) && ok_cat mc (item_ans a (nth i (valid_idxs mi) O)).

Lemma in_arr_gave mi mc a i c :
  i < length (valid_idxs mi) -> c < length (valid_idxs mc) ->
  in_arr mi mc a i c = gave a (nth i (valid_idxs mi) O) (nth c (valid_idxs mc) O).
Proof.
  intros Hi Hc. unfold in_arr, in_cat. rewrite gave_item_ans.
  apply Nat.ltb_lt in Hi. apply Nat.ltb_lt in Hc. rewrite Hi, Hc. reflexivity.
Qed.

Lemma ok_arr_eq mi mc a i :
  i < length (valid_idxs mi) ->
  ok_arr mi mc a i = ok_catb mc (aarr a (nth i (valid_idxs mi) O)).
Proof.
  intros Hi. unfold ok_arr, ok_cat. rewrite acat_item_ans.
  apply Nat.ltb_lt in Hi. rewrite Hi. reflexivity.
Qed.

(* a respondent counted in (item i, category c) is valid on item i *)
Lemma in_arr_ok mi mc a i c : in_arr mi mc a i c = true -> ok_arr mi mc a i = true.
Proof.
  unfold in_arr, ok_arr, in_cat, ok_cat. intros H.
  apply andb_true_iff in H. destruct H as [Hi H]. rewrite Hi. simpl.
  apply andb_true_iff in H. destruct H as [Hc H]. apply Nat.ltb_lt in Hc.
  destruct (acat (item_ans a (nth i (valid_idxs mi) O))) as [x|]; [|discriminate].
  simpl in H. apply Nat.eqb_eq in H. subst x.
  apply ok_catb_In. eexists. split; [reflexivity|]. apply nth_In. exact Hc.
Qed.

(* what a counted respondent answered: a non-missing category, on a non-missing item *)
Lemma in_arr_true mi mc a i c :
  in_arr mi mc a i c = true ->
  exists pi pc, aarr a pi = Some pc /\
    pi = nth i (valid_idxs mi) O /\ pi < length mi /\ nth pi mi true = false /\
    pc = nth c (valid_idxs mc) O /\ pc < length mc /\ nth pc mc true = false.
Proof.
  unfold in_arr, in_cat. intros H.
  apply andb_true_iff in H. destruct H as [Hi H]. apply Nat.ltb_lt in Hi.
  apply andb_true_iff in H. destruct H as [Hc H]. apply Nat.ltb_lt in Hc.
  rewrite acat_item_ans in H.
  destruct (aarr a (nth i (valid_idxs mi) O)) as [x|] eqn:E; [|discriminate].
  simpl in H. apply Nat.eqb_eq in H. subst x.
  exists (nth i (valid_idxs mi) O), (nth c (valid_idxs mc) O).
  assert (Ii : In (nth i (valid_idxs mi) O) (valid_idxs mi)) by (apply nth_In; exact Hi).
  assert (Ic : In (nth c (valid_idxs mc) O) (valid_idxs mc)) by (apply nth_In; exact Hc).
  apply valid_idxs_In in Ii. apply valid_idxs_In in Ic.
  repeat split; try reflexivity; try tauto.
Qed.

(* an answer that is a category flagged missing -- wherever it sits in the payload -- puts the
   respondent in no cell of that item and makes him not valid on that item (only on that one) *)
Lemma arr_missing_category_excluded mi mc a i pc :
  aarr a (nth i (valid_idxs mi) O) = Some pc -> nth pc mc true = true ->
  (forall c, in_arr mi mc a i c = false) /\ ok_arr mi mc a i = false.
Proof.
  intros Ha Hm. split.
  - intros c. destruct (in_arr mi mc a i c) eqn:E; [|reflexivity].
    apply in_arr_true in E. destruct E as [pi [pc' [E1 [E2 [_ [_ [_ [_ E3]]]]]]]].
    subst pi. rewrite Ha in E1. inversion E1; subst. congruence.
  - unfold ok_arr, ok_cat. rewrite acat_item_ans, Ha. simpl. rewrite Hm.
    rewrite andb_false_r. apply andb_false_r.
Qed.

(* no answer on the item: the same *)
Lemma arr_no_answer_excluded mi mc a i :
  aarr a (nth i (valid_idxs mi) O) = None ->
  (forall c, in_arr mi mc a i c = false) /\ ok_arr mi mc a i = false.
Proof.
  intros Ha. unfold in_arr, ok_arr, in_cat, ok_cat. rewrite acat_item_ans, Ha. simpl.
  split; [intros c|]; rewrite ?andb_false_r; reflexivity.
Qed.

(* on one item a respondent is in at most one category *)
Lemma in_arr_unique mi mc a i c c' :
  in_arr mi mc a i c = true -> in_arr mi mc a i c' = true -> c = c'.
Proof.
  intros H H'.
  assert (L : c < length (valid_idxs mc)).
  { unfold in_arr, in_cat in H. apply andb_true_iff in H. destruct H as [_ H].
    apply andb_true_iff in H. destruct H as [H _]. apply Nat.ltb_lt in H. exact H. }
  assert (L' : c' < length (valid_idxs mc)).
  { unfold in_arr, in_cat in H'. apply andb_true_iff in H'. destruct H' as [_ H'].
    apply andb_true_iff in H'. destruct H' as [H' _]. apply Nat.ltb_lt in H'. exact H'. }
  apply in_arr_true in H. apply in_arr_true in H'.
  destruct H as [pi [pc [E1 [E2 [_ [_ [E3 _]]]]]]]. destruct H' as [pi' [pc' [E1' [E2' [_ [_ [E3' _]]]]]]].
  subst pi pi'. rewrite E1 in E1'. inversion E1'; subst.
  apply (proj1 (NoDup_nth (valid_idxs mc) O) (valid_idxs_NoDup mc)); assumption.
Qed.

(* summing the cells of one item over the valid categories gives "valid on that item" *)
Lemma in_arr_sum mi mc a i (g : bool) :
  i < length (valid_idxs mi) ->
  (qsumn (length (valid_idxs mc))
         (fun c => ind (g && gave a (nth i (valid_idxs mi) O) (nth c (valid_idxs mc) O)))
   == ind (g && ok_arr mi mc a i))%Q.
Proof.
  intros Hi. rewrite (ok_arr_eq mi mc a i Hi).
  apply (qsumn_ind_onehot mc (aarr a (nth i (valid_idxs mi) O)) g). intros c. reflexivity.
Qed.

(* ------------------------------------------------------------------------------------ *)
(** * The response tensor of a cube with an array, in the payload's axis order *)

(* S = the items (CA_SUBVAR dimension), C = the categories (CA_CAT dimension) of the array,
   X = one other variable, categorical or MR (an MR owns two adjacent axes: item, selection).
   The name lists the dimensions in the order of the response. *)
Inductive ca_layout :=
| L_SC | L_CS                 (* the array alone: 2-D *)
| L_XSC | L_XCS               (* X is the table dimension *)
| L_CSX | L_CXS               (* the array's categories are the table dimension *)
| L_SCX | L_SXC.              (* the array's items are the table dimension *)

Definition lay_has_x (l : ca_layout) : bool :=
  match l with L_SC | L_CS => false | _ => true end.

(* variables in the order Survey.tabulate lists their axes *)
Definition lay_vars (l : ca_layout) (v w : nat) (kw : kind) : cubevars :=
  match l with
  | L_SC | L_CS => [(v, KArr)]
  | L_XSC | L_XCS => [(w, kw); (v, KArr)]
  | _ => [(v, KArr); (w, kw)]
  end.

(* payload index -> index of Survey.tabulate; an index of the wrong length is no cell ([]) *)
Definition lay_natural (l : ca_layout) (kw : kind) (idx : list nat) : list nat :=
  match l with
  | L_SC => match idx with [i; c] => [i; c] | _ => [] end
  | L_CS => match idx with [c; i] => [i; c] | _ => [] end
  | L_XSC => idx
  | L_XCS => match kw, idx with
             | KCat, [x; c; i] => [x; i; c]
             | KMr, [x; s; c; i] => [x; s; i; c]
             | _, _ => []
             end
  | L_CSX => match idx with c :: i :: xs => i :: c :: xs | _ => [] end
  | L_CXS => match kw, idx with
             | KCat, [c; x; i] => [i; c; x]
             | KMr, [c; x; s; i] => [i; c; x; s]
             | _, _ => []
             end
  | L_SCX => idx
  | L_SXC => match kw, idx with
             | KCat, [i; x; c] => [i; c; x]
             | KMr, [i; x; s; c] => [i; c; x; s]
             | _, _ => []
             end
  end.

(* T[idx] for the cube of array variable v (and variable w of kind kw) laid out as l *)
Definition ca_tabulate (l : ca_layout) (v w : nat) (kw : kind) (S : survey) (idx : list nat) : Q :=
  tabulate (lay_vars l v w kw) S (lay_natural l kw idx).

(* the payload index of (item i, category c, X part xs) *)
Definition lay_index (l : ca_layout) (i c : nat) (xs : list nat) : list nat :=
  match l with
  | L_SC => [i; c]
  | L_CS => [c; i]
  | L_XSC => xs ++ [i; c]
  | L_XCS => xs ++ [c; i]
  | L_CSX => c :: i :: xs
  | L_CXS => c :: xs ++ [i]
  | L_SCX => i :: c :: xs
  | L_SXC => i :: xs ++ [c]
  end.

Definition x_part (l : ca_layout) (kw : kind) (a : answer) (xs : list nat) : bool :=
  if lay_has_x l then contributes kw a xs else true.

(* WHAT A CELL MEANS.  Whatever the axis order: the cell at (item i, category c, X part xs)
   is the weighted number of respondents who answered category c on item i and whose answer
   to X falls in xs (xs = [category] for a categorical X, [item; state] for an MR X). *)
Theorem ca_tabulate_cell l v w kw S i c xs :
  kw <> KArr -> length xs = (if lay_has_x l then arity kw else 0) ->
  (ca_tabulate l v w kw S (lay_index l i c xs)
   == wsum S (fun r => gave (ans r v) i c && x_part l kw (ans r w) xs))%Q.
Proof.
  intros Hk Hx. unfold ca_tabulate, tabulate, x_part.
  destruct kw; try congruence;
    destruct l; simpl in Hx;
    repeat (destruct xs as [|? xs]; simpl in Hx; try discriminate);
    apply wsum_ext; intros r _; unfold gave; simpl; btauto.
Qed.

(* with unit weights a cell is the NUMBER of such respondents *)
Theorem ca_tabulate_cell_headcount l v w kw S i c xs :
  kw <> KArr -> length xs = (if lay_has_x l then arity kw else 0) ->
  (ca_tabulate l v w kw (unit_weights S) (lay_index l i c xs)
   == inject_Z (Z.of_nat (length (filter
        (fun r => gave (ans r v) i c && x_part l kw (ans r w) xs) S))))%Q.
Proof.
  intros Hk Hx. rewrite (ca_tabulate_cell l v w kw (unit_weights S) i c xs Hk Hx).
  apply (wsum_unit_count S (fun an => gave (nth v an (AMr [])) i c
                                      && x_part l kw (nth w an (AMr [])) xs)).
Qed.

(* the sum over ALL payload categories of an item counts every respondent who answered it *)
Lemma ca_tabulate_nonneg l v w kw S idx : wf_survey S -> (0 <= ca_tabulate l v w kw S idx)%Q.
Proof. apply wsum_nonneg. Qed.
