(* Spec/Stats.v - respondent-level statistics the user relies on (property C14).

   A vector (one row or one column of a crosstab, or a whole strand) counts a set of
   respondents.  Each respondent sits in one category of the opposing dimension (index
   [fst r]) and has a weight ([snd r]).  The categories may carry a numeric value
   ([vals : list (option Q)], [None] = no value).  The statistics below are the textbook
   ones over the individual respondents that have a value; nothing here knows about count
   vectors, proportions or cumulative rules. *)
From Coq Require Import QArith ZArith List Bool Lia Arith Sorted Permutation.
From CC Require Import Base.XQ.
Import ListNotations.
Local Close Scope Q_scope.
Local Open Scope nat_scope.

(* ---- weighted observations (value, weight) ------------------------------------------- *)
Definition wtotal (l : list (Q * Q)) : Q := qsum (map snd l).
Definition wsumv (l : list (Q * Q)) : Q := qsum (map (fun o => fst o * snd o)%Q l).
(* weighted mean  sum w x / sum w *)
Definition wmean_spec (l : list (Q * Q)) : Q := (wsumv l / wtotal l)%Q.
(* population (not sample) variance  sum w (x - mean)^2 / sum w *)
Definition wsqdev (m : Q) (l : list (Q * Q)) : Q :=
  qsum (map (fun o => snd o * ((fst o - m) * (fst o - m)))%Q l).
Definition wvar_spec (l : list (Q * Q)) : Q := (wsqdev (wmean_spec l) l / wtotal l)%Q.

(* the observations of the respondents [rs] = (category, weight): those whose category
   has a numeric value *)
Definition observations (vals : list (option Q)) (rs : list (nat * Q)) : list (Q * Q) :=
  flat_map (fun r => match nth (fst r) vals None with
                     | Some v => [(v, snd r)]
                     | None => []
                     end) rs.

(* the count vector those respondents tabulate to: entry k = total weight in category k *)
Fixpoint add_at (k : nat) (w : Q) (l : list Q) : list Q :=
  match l, k with
  | [], _ => []
  | c :: t, O => (c + w)%Q :: t
  | c :: t, S k' => c :: add_at k' w t
  end.
Definition tally (n : nat) (rs : list (nat * Q)) : list Q :=
  fold_right (fun r acc => add_at (fst r) (snd r) acc) (repeat 0%Q n) rs.
(* total weight of all respondents of the vector, valued or not (the "margin") *)
Definition weight_all (rs : list (nat * Q)) : Q := qsum (map snd rs).

(* ---- median (unit weights: one entry per respondent) ---------------------------------- *)
(* middle of a sorted list: the central element, or the mean of the two central ones *)
Definition middle (s : list Q) : Q :=
  let n := length s in
  if Nat.even n then ((nth (n / 2 - 1) s 0 + nth (n / 2) s 0) / 2)%Q else nth (n / 2) s 0%Q.

(* m is the median of l: the middle of (any) ascending arrangement of l *)
Definition is_median_of (l : list Q) (m : Q) : Prop :=
  l <> [] /\ exists s, Permutation s l /\ Sorted Qle s /\ (m == middle s)%Q.

(* numeric values of unit-weight respondents given by their category *)
Definition values_of (vals : list (option Q)) (rs : list nat) : list Q :=
  flat_map (fun c => match nth c vals None with Some v => [v] | None => [] end) rs.
Fixpoint incr_at (k : nat) (l : list nat) : list nat :=
  match l, k with
  | [], _ => []
  | c :: t, O => S c :: t
  | c :: t, S k' => c :: incr_at k' t
  end.
Definition tally_nat (n : nat) (rs : list nat) : list nat :=
  fold_right incr_at (repeat 0 n) rs.
