(* Spec/Merge.v -- merging categories IN THE DATA (respondent level), on top of Spec/Survey.v.

   [recode v A m S] is the survey in which every respondent whose answer to the categorical
   variable number [v] is one of the category positions [A] has been re-labelled to the
   category position [m]; everybody else, every other variable and every weight is untouched.

   With [ms] the missing flags of the variable's categories, the MERGED variable has the
   categories of the old one plus one fresh valid category at the end:
        flags   [merged_flags ms]  = ms ++ [false]
        position [merged_pos ms]   = length ms            (the fresh category)
        row      [n_valid ms]       = its offset among the valid elements (the LAST row)
   The addend categories stay in the variable (now empty), so every other row keeps its place.

   This is what "one category obtained by merging the addends in the data" means in
   property C04.  The file has no dependency on the model. *)
From Coq Require Import QArith ZArith List Bool Lia Arith Setoid Morphisms.
From CC Require Import Base.XQ Base.ListX Spec.Survey.
Import ListNotations.
Local Close Scope Q_scope.
Local Open Scope nat_scope.

(* ------------------------------------------------------------------------------------ *)
(** * recode *)

Fixpoint set_nth {A} (n : nat) (x : A) (l : list A) : list A :=
  match l, n with
  | [], _ => []
  | _ :: t, O => x :: t
  | a :: t, S n' => a :: set_nth n' x t
  end.

Definition memb (c : nat) (A : list nat) : bool := existsb (Nat.eqb c) A.

Definition recode_answer (A : list nat) (m : nat) (a : answer) : answer :=
  match a with
  | ACat c => if memb c A then ACat m else a
  | _ => a
  end.

Definition recode_resp (v : nat) (A : list nat) (m : nat) (r : resp) : resp :=
  mkResp (set_nth v (recode_answer A m (ans r v)) (answers r)) (weight r).

Definition recode (v : nat) (A : list nat) (m : nat) (S : survey) : survey :=
  map (recode_resp v A m) S.

Definition merged_flags (ms : list bool) : list bool := ms ++ [false].
Definition merged_pos (ms : list bool) : nat := length ms.
Definition n_valid (ms : list bool) : nat := length (valid_idxs ms).

(* the payload positions of the valid-element offsets [offs] (a subtotal's addend_idxs) *)
Definition positions (ms : list bool) (offs : list nat) : list nat :=
  map (fun i => nth i (valid_idxs ms) 0) offs.

(* r's category on variable v is one of the valid elements with offsets [offs] *)
Definition in_any (ms : list bool) (offs : list nat) (a : answer) : bool :=
  existsb (in_cat ms a) offs.

(* nobody answers the position the fresh category is going to take *)
Definition fresh_for (v : nat) (ms : list bool) (S : survey) : Prop :=
  forall r, In r S -> acat (ans r v) <> Some (merged_pos ms).

(* ------------------------------------------------------------------------------------ *)
(** * basic facts *)

Lemma set_nth_same {A} (l : list A) n x d : n < length l -> nth n (set_nth n x l) d = x.
Proof.
  revert n. induction l as [|a t IH]; intros n H; simpl in H; [lia|].
  destruct n; simpl; [reflexivity|]. apply IH. lia.
Qed.

Lemma set_nth_beyond {A} (l : list A) n x : length l <= n -> set_nth n x l = l.
Proof.
  revert n. induction l as [|a t IH]; intros n H; simpl in *; [destruct n; reflexivity|].
  destruct n; [lia|]. simpl. f_equal. apply IH. lia.
Qed.

Lemma set_nth_other {A} (l : list A) n k x d : n <> k -> nth k (set_nth n x l) d = nth k l d.
Proof.
  revert n k. induction l as [|a t IH]; intros n k H; simpl.
  - destruct n; reflexivity.
  - destruct n, k; simpl; try reflexivity; try lia. apply IH. lia.
Qed.

Lemma recode_weight v A m r : weight (recode_resp v A m r) = weight r.
Proof. reflexivity. Qed.

(* the recoded variable *)
Lemma recode_ans_same v A m r : ans (recode_resp v A m r) v = recode_answer A m (ans r v).
Proof.
  unfold ans at 1, recode_resp. simpl.
  destruct (Nat.lt_ge_cases v (length (answers r))) as [H|H].
  - apply set_nth_same. exact H.
  - rewrite set_nth_beyond by exact H.
    unfold ans. rewrite (nth_overflow _ _ H). reflexivity.
Qed.

(* every other variable *)
Lemma recode_ans_other v A m r u : u <> v -> ans (recode_resp v A m r) u = ans r u.
Proof. intros H. unfold ans, recode_resp. simpl. apply set_nth_other. lia. Qed.

(* sums over the recoded survey are sums over the original one *)
Lemma gsum_recode v A m S F :
  (gsum (recode v A m S) F == gsum S (fun r => F (recode_resp v A m r)))%Q.
Proof. induction S as [|r S IH]; simpl; [reflexivity|]. rewrite IH. reflexivity. Qed.

Lemma wsum_recode v A m S P :
  (wsum (recode v A m S) P == wsum S (fun r => P (recode_resp v A m r)))%Q.
Proof. apply gsum_recode. Qed.

Lemma wf_recode v A m S : wf_survey S -> wf_survey (recode v A m S).
Proof.
  unfold wf_survey, recode. intros H. apply Forall_forall. intros r Hr.
  apply in_map_iff in Hr. destruct Hr as [r' [<- Hr']]. simpl.
  rewrite Forall_forall in H. apply H. exact Hr'.
Qed.

(* ------------------------------------------------------------------------------------ *)
(** * the merged variable's elements *)

Lemma valid_idxs_merged ms : valid_idxs (merged_flags ms) = valid_idxs ms ++ [length ms].
Proof.
  unfold valid_idxs, merged_flags. rewrite app_length. simpl length.
  rewrite Nat.add_1_r, seq_S, filter_app. simpl.
  rewrite app_nth2 by lia. rewrite Nat.sub_diag. simpl. f_equal.
  apply filter_ext_in. intros k Hk. apply in_seq in Hk. rewrite app_nth1 by lia. reflexivity.
Qed.

Lemma n_valid_merged ms : n_valid (merged_flags ms) = S (n_valid ms).
Proof. unfold n_valid. rewrite valid_idxs_merged, app_length. simpl. lia. Qed.

(* the fresh category is the last valid element *)
Lemma merged_row_position ms : nth (n_valid ms) (valid_idxs (merged_flags ms)) 0 = merged_pos ms.
Proof.
  rewrite valid_idxs_merged. unfold n_valid. rewrite app_nth2 by lia.
  rewrite Nat.sub_diag. reflexivity.
Qed.

(* every old valid element keeps its offset *)
Lemma merged_old_position ms i :
  i < n_valid ms -> nth i (valid_idxs (merged_flags ms)) 0 = nth i (valid_idxs ms) 0.
Proof. intros H. rewrite valid_idxs_merged. apply app_nth1. exact H. Qed.

Lemma valid_idx_lt ms i : i < n_valid ms -> nth i (valid_idxs ms) 0 < length ms.
Proof.
  intros H. assert (In (nth i (valid_idxs ms) 0) (valid_idxs ms)) as Hin by (apply nth_In; exact H).
  apply valid_idxs_In in Hin. tauto.
Qed.

Lemma memb_In c A : memb c A = true <-> In c A.
Proof.
  unfold memb. rewrite existsb_exists. split.
  - intros [x [Hx E]]. apply Nat.eqb_eq in E. subst. exact Hx.
  - intros H. exists c. split; [exact H| apply Nat.eqb_refl].
Qed.

(* membership of the merged category == membership of one of the addends *)
Lemma memb_positions ms offs c :
  Forall (fun i => i < n_valid ms) offs ->
  memb c (positions ms offs) = existsb (fun i => (i <? n_valid ms) && (c =? nth i (valid_idxs ms) 0)) offs.
Proof.
  intros H. unfold memb, positions. induction offs as [|i t IH]; simpl; [reflexivity|].
  inversion H as [|? ? Hi Ht]; subst. rewrite IH by exact Ht.
  apply Nat.ltb_lt in Hi. rewrite Hi. reflexivity.
Qed.

Lemma in_any_memb ms offs a :
  Forall (fun i => i < n_valid ms) offs ->
  in_any ms offs a = match acat a with Some c => memb c (positions ms offs) | None => false end.
Proof.
  intros H. unfold in_any, in_cat. destruct (acat a) as [c|] eqn:E; simpl.
  - rewrite (memb_positions ms offs c H). unfold n_valid. reflexivity.
  - induction offs as [|i t IH]; simpl; [reflexivity|].
    inversion H; subst. rewrite IH by assumption. rewrite andb_false_r. reflexivity.
Qed.

(* [the merged row] : r is in the fresh category after recoding iff it was in an addend *)
Lemma in_cat_merged_row ms offs a :
  Forall (fun i => i < n_valid ms) offs ->
  acat a <> Some (merged_pos ms) ->
  in_cat (merged_flags ms) (recode_answer (positions ms offs) (merged_pos ms) a) (n_valid ms)
  = in_any ms offs a.
Proof.
  intros H Hf. rewrite (in_any_memb ms offs a H). unfold in_cat.
  fold (n_valid (merged_flags ms)). rewrite n_valid_merged, merged_row_position.
  assert ((n_valid ms <? S (n_valid ms)) = true) as -> by (apply Nat.ltb_lt; lia). simpl andb.
  destruct a as [c| |]; simpl; try reflexivity.
  destruct (memb c (positions ms offs)) eqn:E; simpl.
  - apply Nat.eqb_refl.
  - apply Nat.eqb_neq. intros Ec. apply Hf. simpl. congruence.
Qed.

(* [the other rows] : an old element keeps exactly the respondents that were not moved *)
Lemma in_cat_merged_old ms offs a i :
  Forall (fun i => i < n_valid ms) offs -> i < n_valid ms ->
  in_cat (merged_flags ms) (recode_answer (positions ms offs) (merged_pos ms) a) i
  = in_cat ms a i && negb (in_any ms offs a).
Proof.
  intros H Hi. rewrite (in_any_memb ms offs a H). unfold in_cat.
  fold (n_valid (merged_flags ms)) (n_valid ms). rewrite n_valid_merged, (merged_old_position ms i Hi).
  assert ((i <? S (n_valid ms)) = true) as -> by (apply Nat.ltb_lt; lia).
  assert ((i <? n_valid ms) = true) as -> by (apply Nat.ltb_lt; lia). simpl andb.
  pose proof (valid_idx_lt ms i Hi) as Hlt.
  destruct a as [c| |]; simpl; try reflexivity.
  destruct (memb c (positions ms offs)) eqn:E; simpl.
  - rewrite andb_false_r. apply Nat.eqb_neq. unfold merged_pos. lia.
  - rewrite andb_true_r. reflexivity.
Qed.

(* eligibility ("has any valid category") is not changed by merging valid categories *)
Lemma ok_cat_merged ms offs a :
  Forall (fun i => i < n_valid ms) offs ->
  acat a <> Some (merged_pos ms) ->
  ok_cat (merged_flags ms) (recode_answer (positions ms offs) (merged_pos ms) a) = ok_cat ms a.
Proof.
  intros H Hf. unfold ok_cat.
  destruct a as [c| |]; simpl; try reflexivity.
  destruct (memb c (positions ms offs)) eqn:E; simpl.
  - (* moved: was a valid addend, is the fresh valid category *)
    unfold merged_flags, merged_pos. rewrite app_length. simpl.
    assert ((length ms <? length ms + 1) = true) as -> by (apply Nat.ltb_lt; lia).
    rewrite app_nth2 by lia. rewrite Nat.sub_diag. simpl.
    apply memb_In in E. unfold positions in E. apply in_map_iff in E. destruct E as [i [<- Hi]].
    rewrite Forall_forall in H. specialize (H i Hi).
    assert (In (nth i (valid_idxs ms) 0) (valid_idxs ms)) as Hin by (apply nth_In; exact H).
    apply valid_idxs_In in Hin. destruct Hin as [H1 H2].
    apply Nat.ltb_lt in H1. rewrite H1, H2. reflexivity.
  - (* not moved *)
    unfold merged_flags. rewrite app_length. simpl.
    destruct (Nat.lt_ge_cases c (length ms)) as [Hc|Hc].
    + assert ((c <? length ms + 1) = true) as -> by (apply Nat.ltb_lt; lia).
      assert ((c <? length ms) = true) as -> by (apply Nat.ltb_lt; lia).
      rewrite app_nth1 by lia. reflexivity.
    + assert ((c <? length ms) = false) as -> by (apply Nat.ltb_ge; lia).
      assert (c <> length ms) by (intros Ec; apply Hf; simpl; unfold merged_pos; congruence).
      assert ((c <? length ms + 1) = false) as -> by (apply Nat.ltb_ge; lia).
      reflexivity.
Qed.

(* ------------------------------------------------------------------------------------ *)
(** * tab_recode: the tabulation of the merged survey

   For any condition [C] on the other variables:
     merged category  = sum of the addends' cells,
     addend category  = empty, other categories unchanged,
     "any valid category" totals unchanged. *)

Lemma in_cat_disjoint ms a i j : i <> j -> i < n_valid ms -> j < n_valid ms ->
  in_cat ms a i && in_cat ms a j = false.
Proof.
  intros Hij Hi Hj. unfold in_cat. fold (n_valid ms).
  destruct (acat a) as [c|]; simpl; [|rewrite !andb_false_r; reflexivity].
  destruct (c =? nth i (valid_idxs ms) 0) eqn:E1, (c =? nth j (valid_idxs ms) 0) eqn:E2;
    rewrite ?andb_false_r, ?andb_false_l; try reflexivity.
  apply Nat.eqb_eq in E1, E2. exfalso. apply Hij.
  pose proof (valid_idxs_NoDup ms) as Hnd.
  rewrite (NoDup_nth _ 0) in Hnd. apply (Hnd i j Hi Hj). congruence.
Qed.

(* a sum over duplicate-free addends is the weight of their union *)
Lemma qsum_in_any S ms offs (C : resp -> bool) (v : nat) :
  NoDup offs -> Forall (fun i => i < n_valid ms) offs ->
  (qsum (map (fun i => wsum S (fun r => C r && in_cat ms (ans r v) i)) offs)
   == wsum S (fun r => C r && in_any ms offs (ans r v)))%Q.
Proof.
  intros Hnd Hf. induction offs as [|i t IH]; simpl.
  - symmetry. rewrite (wsum_ext S _ (fun _ => false)); [apply wsum_false|].
    intros r _. apply andb_false_r.
  - inversion Hnd as [|? ? Hni Hnd']; subst. inversion Hf as [|? ? Hi Hf']; subst.
    rewrite IH by assumption.
    rewrite <- wsum_or_disj.
    + apply wsum_ext. intros r _. unfold in_any. simpl.
      destruct (C r), (in_cat ms (ans r v) i), (existsb (in_cat ms (ans r v)) t); reflexivity.
    + intros r _.
      destruct (in_cat ms (ans r v) i) eqn:E1; [|rewrite andb_false_r; reflexivity].
      assert (in_any ms t (ans r v) = false) as ->; [|rewrite !andb_false_r; reflexivity].
      unfold in_any. destruct (existsb (in_cat ms (ans r v)) t) eqn:E2; [|reflexivity].
      apply existsb_exists in E2. destruct E2 as [j [Hj E2]].
      rewrite Forall_forall in Hf'.
      assert (i <> j) by (intros ->; tauto).
      pose proof (in_cat_disjoint ms (ans r v) i j H Hi (Hf' j Hj)) as D.
      rewrite E1, E2 in D. discriminate.
Qed.

Section TabRecode.
  Variable S : survey.
  Variable v : nat.                 (* the variable whose categories are merged *)
  Variable ms : list bool.          (* its missing flags *)
  Variable offs : list nat.         (* valid-element offsets of the addends *)
  Variable C : resp -> bool.        (* a condition that does not look at variable v *)
  Hypothesis Hoffs : Forall (fun i => i < n_valid ms) offs.
  Hypothesis Hnd : NoDup offs.
  Hypothesis Hfresh : fresh_for v ms S.
  Hypothesis HC : forall r, C (recode_resp v (positions ms offs) (merged_pos ms) r) = C r.

  Let S' := recode v (positions ms offs) (merged_pos ms) S.
  Let ms' := merged_flags ms.

  Theorem tab_recode_merged :
    (wsum S' (fun r => C r && in_cat ms' (ans r v) (n_valid ms))
     == qsum (map (fun i => wsum S (fun r => C r && in_cat ms (ans r v) i)) offs))%Q.
  Proof.
    unfold S'. rewrite wsum_recode. rewrite (qsum_in_any S ms offs C v Hnd Hoffs).
    apply wsum_ext. intros r Hr. rewrite HC, recode_ans_same.
    unfold ms'. rewrite (in_cat_merged_row ms offs (ans r v) Hoffs (Hfresh r Hr)). reflexivity.
  Qed.

  Theorem tab_recode_other i : i < n_valid ms ->
    (wsum S' (fun r => C r && in_cat ms' (ans r v) i)
     == wsum S (fun r => C r && (in_cat ms (ans r v) i && negb (in_any ms offs (ans r v)))))%Q.
  Proof.
    intros Hi. unfold S'. rewrite wsum_recode. apply wsum_ext. intros r Hr.
    rewrite HC, recode_ans_same. unfold ms'.
    rewrite (in_cat_merged_old ms offs (ans r v) i Hoffs Hi). reflexivity.
  Qed.

  (* an addend row is emptied, a row that is not an addend is unchanged *)
  Corollary tab_recode_addend_emptied i : i < n_valid ms -> In i offs ->
    (wsum S' (fun r => C r && in_cat ms' (ans r v) i) == 0)%Q.
  Proof.
    intros Hi Hin. rewrite (tab_recode_other i Hi).
    rewrite (wsum_ext S _ (fun _ => false)); [apply wsum_false|].
    intros r _. destruct (in_cat ms (ans r v) i) eqn:E; [|rewrite andb_false_r; reflexivity].
    assert (in_any ms offs (ans r v) = true) as ->; [|rewrite !andb_false_r; reflexivity].
    unfold in_any. apply existsb_exists. exists i. split; assumption.
  Qed.

  Corollary tab_recode_unchanged i : i < n_valid ms -> ~ In i offs ->
    (wsum S' (fun r => C r && in_cat ms' (ans r v) i)
     == wsum S (fun r => C r && in_cat ms (ans r v) i))%Q.
  Proof.
    intros Hi Hnin. rewrite (tab_recode_other i Hi). apply wsum_ext. intros r _.
    destruct (in_cat ms (ans r v) i) eqn:E; [|rewrite !andb_false_r; reflexivity].
    assert (in_any ms offs (ans r v) = false) as ->; [|reflexivity].
    unfold in_any. destruct (existsb (in_cat ms (ans r v)) offs) eqn:E2; [|reflexivity].
    apply existsb_exists in E2. destruct E2 as [j [Hj E2]].
    rewrite Forall_forall in Hoffs.
    assert (i <> j) by (intros ->; tauto).
    pose proof (in_cat_disjoint ms (ans r v) i j H Hi (Hoffs j Hj)) as D.
    rewrite E, E2 in D. discriminate.
  Qed.

  (* totals over "any valid category" (column / table bases, margins) do not move *)
  Theorem tab_recode_total :
    (wsum S' (fun r => C r && ok_cat ms' (ans r v)) == wsum S (fun r => C r && ok_cat ms (ans r v)))%Q.
  Proof.
    unfold S'. rewrite wsum_recode. apply wsum_ext. intros r Hr.
    rewrite HC, recode_ans_same. unfold ms'.
    rewrite (ok_cat_merged ms offs (ans r v) Hoffs (Hfresh r Hr)). reflexivity.
  Qed.
End TabRecode.
