(* Spec/Survey.v -- the respondent-level survey behind a cube response.

   This is the ENVIRONMENT MODEL the data properties (C01 cell values, C02 bases, C16
   column index, and later merge / restrict / transposition theorems) quantify over:

     survey      = list of respondents
     respondent  = one answer per variable + a rational weight (wf: 0 <= weight)
     answer      = categorical  (ACat c)   : position c of the chosen category in the
                                            payload (missing categories included)
                 | multiple response (AMr st) : per item a state Sel | Oth | Mis
                 | categorical array (AArr cs): per item a category position

   [tabulate vars S] is the response tensor of the cube query over the variables [vars]:
        T[idx] = Sum_r  w_r * [ r contributes idx ]
   where a categorical variable owns one index (the category), and an MR / array variable
   owns two indices (item, state) / (item, category) and contributes one pair PER ITEM.
   Enum dimensions (datetime / text / binned numeric) behave exactly like categoricals.

   Weighted sums:  [gsum S F] = Sum_r w_r * F r      (F : resp -> Q)
                   [wsum S P] = Sum_r w_r * [P r]    (P : resp -> bool)
   with linearity, extensionality, exchange with finite sums, monotonicity.

   The file is deliberately small and has no dependency on the model.  Keep it stable:
   other property families import it. *)
From Coq Require Import QArith ZArith List Bool Lia Arith Setoid Morphisms Sorted.
From CC Require Import Base.XQ Base.ListX.
Import ListNotations.
Local Close Scope Q_scope.
Local Open Scope nat_scope.

(* ------------------------------------------------------------------------------------ *)
(** * Answers, respondents, surveys *)

Inductive kind := KCat | KMr | KArr.
Inductive mrstate := Sel | Oth | Mis.
(* position of a state on the MR "selection" axis of a cube: [selected, other, missing] *)
Definition code (s : mrstate) : nat := match s with Sel => 0 | Oth => 1 | Mis => 2 end.

Inductive answer :=
| ACat (c : nat)
| AMr (st : list mrstate)
| AArr (cs : list nat).

Record resp := mkResp { answers : list answer; weight : Q }.
Definition survey := list resp.

(* answer of respondent r to variable number v; a variable the respondent has no answer
   for behaves as "no data" for every kind (see the accessors below) *)
Definition ans (r : resp) (v : nat) : answer := nth v (answers r) (AMr []).

(* total accessors: an answer of the wrong kind is "no data" *)
Definition acat (a : answer) : option nat :=
  match a with ACat c => Some c | _ => None end.
Definition mstate (a : answer) (k : nat) : mrstate :=
  match a with AMr st => nth k st Mis | _ => Mis end.
Definition aarr (a : answer) (k : nat) : option nat :=
  match a with AArr cs => nth_error cs k | _ => None end.

Definition oeqb (o : option nat) (n : nat) : bool :=
  match o with Some m => m =? n | None => false end.

(* well-formedness of a survey: weights are non-negative *)
Definition wf_survey (S : survey) : Prop := Forall (fun r => (0 <= weight r)%Q) S.

(* the same respondents counted once each (unweighted counts) *)
Definition unit_weights (S : survey) : survey :=
  map (fun r => mkResp (answers r) 1%Q) S.

(* ------------------------------------------------------------------------------------ *)
(** * Weighted sums *)

Definition ind (b : bool) : Q := if b then 1%Q else 0%Q.

Definition gsum (S : survey) (F : resp -> Q) : Q :=
  fold_right (fun r acc => (weight r * F r + acc)%Q) 0%Q S.
Definition wsum (S : survey) (P : resp -> bool) : Q := gsum S (fun r => ind (P r)).

(* finite sums over an index range *)
Definition qsumn (n : nat) (f : nat -> Q) : Q := qsum (tab n f).

(* ------------------------------------------------------------------------------------ *)
(** * The response tensor *)

(* number of tensor axes a variable of each kind owns *)
Definition arity (k : kind) : nat := match k with KCat => 1 | KMr => 2 | KArr => 2 end.

(* does answer [a] (to a variable of kind k) fall in the cell part [part]? *)
Definition contributes (k : kind) (a : answer) (part : list nat) : bool :=
  match k, part with
  | KCat, [c] => oeqb (acat a) c
  | KMr, [i; s] => code (mstate a i) =? s
  | KArr, [i; c] => oeqb (aarr a i) c
  | _, _ => false
  end.

(* a cube query: the variables (number, kind) in dimension order *)
Definition cubevars := list (nat * kind).

Fixpoint contributes_all (vs : cubevars) (r : resp) (idx : list nat) : bool :=
  match vs with
  | [] => match idx with [] => true | _ => false end
  | (v, k) :: vs' =>
      contributes k (ans r v) (firstn (arity k) idx)
      && contributes_all vs' r (skipn (arity k) idx)
  end.

Definition tabulate (vs : cubevars) (S : survey) (idx : list nat) : Q :=
  wsum S (fun r => contributes_all vs r idx).

Fixpoint arities (vs : cubevars) : nat :=
  match vs with [] => 0 | (_, k) :: t => arity k + arities t end.

(* ------------------------------------------------------------------------------------ *)
(** * Elements of a dimension: valid (non-missing) elements, membership, eligibility *)

(* [ms] = the "missing" flag of every element of a dimension in payload order.
   [valid_idxs ms] = payload positions of the non-missing elements, in payload order:
   the i-th row/column of every output is element [nth i (valid_idxs ms) _]. *)
Definition valid_idxs (ms : list bool) : list nat :=
  filter (fun k => negb (nth k ms true)) (seq 0 (length ms)).

(* categorical dimension: r belongs to the i-th valid category / has any valid category *)
Definition in_cat (ms : list bool) (a : answer) (i : nat) : bool :=
  (i <? length (valid_idxs ms)) && oeqb (acat a) (nth i (valid_idxs ms) O).
Definition ok_catb (ms : list bool) (o : option nat) : bool :=
  match o with Some c => (c <? length ms) && negb (nth c ms true) | None => false end.
Definition ok_cat (ms : list bool) (a : answer) : bool := ok_catb ms (acat a).

(* multiple-response dimension ([ms] = missing flag per item, normally all false):
   r belongs to the i-th valid item iff r SELECTED it; r is eligible for it iff r's
   state on that particular item is not missing *)
Definition in_mr (ms : list bool) (a : answer) (i : nat) : bool :=
  match mstate a (nth i (valid_idxs ms) O) with Sel => true | _ => false end.
Definition ok_mr (ms : list bool) (a : answer) (i : nat) : bool :=
  match mstate a (nth i (valid_idxs ms) O) with Mis => false | _ => true end.

(* uniform spelling used by the theorems about categorical / MR dimensions *)
Definition in_el (k : kind) (ms : list bool) (a : answer) (i : nat) : bool :=
  match k with KCat => in_cat ms a i | KMr => in_mr ms a i | KArr => false end.
Definition ok_el (k : kind) (ms : list bool) (a : answer) (i : nat) : bool :=
  match k with KCat => ok_cat ms a | KMr => ok_mr ms a i | KArr => false end.

(* ------------------------------------------------------------------------------------ *)
(** * Lemmas: gsum / wsum *)

Lemma gsum_nil F : gsum [] F = 0%Q.
Proof. reflexivity. Qed.

Lemma gsum_cons r S F : gsum (r :: S) F = (weight r * F r + gsum S F)%Q.
Proof. reflexivity. Qed.

(* extensionality (only respondents of the survey matter) *)
Lemma gsum_ext S F G :
  (forall r, In r S -> (F r == G r)%Q) -> (gsum S F == gsum S G)%Q.
Proof.
  induction S as [|r S IH]; intros H; simpl.
  - reflexivity.
  - rewrite (H r (or_introl eq_refl)). rewrite IH; [reflexivity|].
    intros r' Hr'. apply H. right. exact Hr'.
Qed.

Lemma wsum_ext S P Q :
  (forall r, In r S -> P r = Q r) -> (wsum S P == wsum S Q)%Q.
Proof. intros H. apply gsum_ext. intros r Hr. rewrite (H r Hr). reflexivity. Qed.

(* linearity *)
Lemma gsum_add S F G : (gsum S (fun r => F r + G r) == gsum S F + gsum S G)%Q.
Proof. induction S as [|r S IH]; simpl; [ring|]. rewrite IH. ring. Qed.

Lemma gsum_scale S c F : (gsum S (fun r => c * F r) == c * gsum S F)%Q.
Proof. induction S as [|r S IH]; simpl; [ring|]. rewrite IH. ring. Qed.

Lemma gsum_zero S : (gsum S (fun _ => 0) == 0)%Q.
Proof. induction S as [|r S IH]; simpl; [reflexivity|]. rewrite IH. ring. Qed.

Lemma gsum_app S1 S2 F : (gsum (S1 ++ S2) F == gsum S1 F + gsum S2 F)%Q.
Proof. induction S1 as [|r S IH]; simpl; [ring|]. rewrite IH. ring. Qed.

Lemma wsum_app S1 S2 P : (wsum (S1 ++ S2) P == wsum S1 P + wsum S2 P)%Q.
Proof. apply gsum_app. Qed.

Lemma wsum_false S : (wsum S (fun _ => false) == 0)%Q.
Proof. apply gsum_zero. Qed.

(* finite sums *)
Lemma qsumn_0 f : qsumn 0 f = 0%Q.
Proof. reflexivity. Qed.

Lemma tab_S {A} n (f : nat -> A) : tab (S n) f = tab n f ++ [f n].
Proof. unfold tab. rewrite seq_S, map_app. reflexivity. Qed.

Lemma qsum_app l1 l2 : (qsum (l1 ++ l2) == qsum l1 + qsum l2)%Q.
Proof. induction l1 as [|a t IH]; simpl; [ring|]. rewrite IH. ring. Qed.

Lemma qsumn_S n f : (qsumn (S n) f == qsumn n f + f n)%Q.
Proof. unfold qsumn. rewrite tab_S, qsum_app. simpl. ring. Qed.

Lemma qsumn_ext n f g : (forall k, k < n -> (f k == g k)%Q) -> (qsumn n f == qsumn n g)%Q.
Proof.
  induction n as [|n IH]; intros H; [reflexivity|].
  rewrite !qsumn_S. rewrite IH by (intros; apply H; lia). rewrite (H n) by lia. reflexivity.
Qed.

Lemma qsumn_scale n c f : (qsumn n (fun k => c * f k) == c * qsumn n f)%Q.
Proof.
  induction n as [|n IH]; [unfold qsumn; simpl; ring|]. rewrite !qsumn_S, IH. ring.
Qed.

Lemma qsumn_zero n : (qsumn n (fun _ => 0) == 0)%Q.
Proof. induction n as [|n IH]; [reflexivity|]. rewrite qsumn_S, IH. ring. Qed.

(* exchange of a finite sum with the sum over respondents *)
Lemma gsum_qsumn S n (F : nat -> resp -> Q) :
  (qsumn n (fun k => gsum S (F k)) == gsum S (fun r => qsumn n (fun k => F k r)))%Q.
Proof.
  induction n as [|n IH].
  - unfold qsumn; simpl. symmetry. apply gsum_zero.
  - rewrite qsumn_S, IH, <- gsum_add. apply gsum_ext. intros r _.
    rewrite qsumn_S. reflexivity.
Qed.

(* indicators *)
Lemma ind_andb a b : (ind (a && b) == ind a * ind b)%Q.
Proof. destruct a, b; simpl; ring. Qed.

Lemma ind_nonneg b : (0 <= ind b)%Q.
Proof. destruct b; simpl; discriminate. Qed.

Lemma ind_le a b : (a = true -> b = true) -> (ind a <= ind b)%Q.
Proof. destruct a, b; simpl; intros H; try discriminate; try apply Qle_refl. discriminate (H eq_refl). Qed.

(* non-negativity and monotonicity (need non-negative weights) *)
Lemma gsum_nonneg S F :
  wf_survey S -> (forall r, In r S -> (0 <= F r)%Q) -> (0 <= gsum S F)%Q.
Proof.
  induction S as [|r S IH]; intros Hw HF; simpl; [apply Qle_refl|].
  inversion Hw; subst.
  assert (0 <= weight r * F r)%Q by (apply Qmult_le_0_compat; [assumption| apply HF; left; reflexivity]).
  assert (0 <= gsum S F)%Q by (apply IH; [assumption| intros; apply HF; right; assumption]).
  replace 0%Q with (0 + 0)%Q by reflexivity. apply Qplus_le_compat; assumption.
Qed.

Lemma gsum_mono S F G :
  wf_survey S -> (forall r, In r S -> (F r <= G r)%Q) -> (gsum S F <= gsum S G)%Q.
Proof.
  induction S as [|r S IH]; intros Hw HF; simpl; [apply Qle_refl|].
  inversion Hw; subst. apply Qplus_le_compat.
  - rewrite (Qmult_comm (weight r) (F r)), (Qmult_comm (weight r) (G r)).
    apply Qmult_le_compat_r; [apply HF; left; reflexivity| assumption].
  - apply IH; [assumption| intros; apply HF; right; assumption].
Qed.

Lemma wsum_nonneg S P : wf_survey S -> (0 <= wsum S P)%Q.
Proof. intros Hw. apply gsum_nonneg; [exact Hw| intros; apply ind_nonneg]. Qed.

Lemma wsum_mono S P Q :
  wf_survey S -> (forall r, In r S -> P r = true -> Q r = true) -> (wsum S P <= wsum S Q)%Q.
Proof. intros Hw H. apply gsum_mono; [exact Hw| intros r Hr; apply ind_le; apply H; exact Hr]. Qed.

(* disjoint union *)
Lemma wsum_or_disj S P Q :
  (forall r, In r S -> P r && Q r = false) ->
  (wsum S (fun r => P r || Q r) == wsum S P + wsum S Q)%Q.
Proof.
  intros H. unfold wsum. rewrite <- gsum_add. apply gsum_ext. intros r Hr.
  specialize (H r Hr). destruct (P r), (Q r); simpl in *; try discriminate; ring.
Qed.

(* splitting on a condition *)
Lemma wsum_split S P C :
  (wsum S P == wsum S (fun r => P r && C r) + wsum S (fun r => P r && negb (C r)))%Q.
Proof.
  unfold wsum. rewrite <- gsum_add. apply gsum_ext. intros r _.
  destruct (P r), (C r); simpl; ring.
Qed.

Lemma wf_unit_weights S : wf_survey (unit_weights S).
Proof. unfold wf_survey, unit_weights. apply Forall_forall. intros r Hr.
  apply in_map_iff in Hr. destruct Hr as [r' [<- _]]. simpl. discriminate. Qed.

(* with unit weights the weighted sum is the NUMBER of respondents with the property *)
Lemma wsum_unit_count S P :
  (wsum (unit_weights S) (fun r => P (answers r)) ==
   inject_Z (Z.of_nat (length (filter (fun r => P (answers r)) S))))%Q.
Proof.
  induction S as [|r S IH]; [reflexivity|].
  unfold wsum in *. simpl. rewrite IH. destruct (P (answers r)); simpl.
  - rewrite Zpos_P_of_succ_nat. unfold Z.succ. rewrite inject_Z_plus. ring.
  - ring.
Qed.

(* ------------------------------------------------------------------------------------ *)
(** * Lemmas: valid elements *)

Lemma valid_idxs_In ms c :
  In c (valid_idxs ms) <-> c < length ms /\ nth c ms true = false.
Proof.
  unfold valid_idxs. rewrite filter_In, in_seq. split.
  - intros [[_ H] Hn]. split; [lia|]. destruct (nth c ms true); simpl in *; congruence.
  - intros [H Hn]. split; [lia|]. rewrite Hn. reflexivity.
Qed.

Lemma valid_idxs_NoDup ms : NoDup (valid_idxs ms).
Proof. unfold valid_idxs. apply NoDup_filter. apply seq_NoDup. Qed.

Lemma filter_seq_sorted f s n : StronglySorted lt (filter f (seq s n)).
Proof.
  revert s. induction n as [|n IH]; intros s; simpl; [constructor|].
  destruct (f s).
  - constructor; [apply IH|]. apply Forall_forall. intros x Hx.
    apply filter_In in Hx. destruct Hx as [Hx _]. apply in_seq in Hx. lia.
  - apply IH.
Qed.

(* the valid elements are listed in payload order *)
Lemma valid_idxs_sorted ms : StronglySorted lt (valid_idxs ms).
Proof. apply filter_seq_sorted. Qed.

Lemma ok_catb_In ms o :
  ok_catb ms o = true <-> exists c, o = Some c /\ In c (valid_idxs ms).
Proof.
  unfold ok_catb. destruct o as [c|].
  - rewrite andb_true_iff, Nat.ltb_lt, negb_true_iff. split.
    + intros H. exists c. split; [reflexivity|]. apply valid_idxs_In. exact H.
    + intros [c' [E H]]. inversion E; subst. apply valid_idxs_In. exact H.
  - split; [discriminate|]. intros [c [E _]]. discriminate.
Qed.

(* no missing element: every position is valid, in order *)
Lemma filter_true_all {A} (f : A -> bool) l : (forall x, In x l -> f x = true) -> filter f l = l.
Proof.
  induction l as [|a t IH]; intros H; simpl; [reflexivity|].
  rewrite (H a (or_introl eq_refl)). f_equal. apply IH. intros x Hx. apply H. right. exact Hx.
Qed.

Lemma valid_idxs_none_missing n : valid_idxs (repeat false n) = seq 0 n.
Proof.
  unfold valid_idxs. rewrite repeat_length. apply filter_true_all.
  intros k Hk. apply in_seq in Hk.
  rewrite (nth_indep _ true false) by (rewrite repeat_length; lia).
  rewrite nth_repeat. reflexivity.
Qed.

(* one-hot sums: summing the indicator of "answer = k-th element of l" over a
   duplicate-free list gives the indicator of membership *)
Lemma tab_nth_map {A B} (f : A -> B) (l : list A) d :
  tab (length l) (fun j => f (nth j l d)) = map f l.
Proof.
  induction l as [|a t IH] using rev_ind; [reflexivity|].
  rewrite app_length. simpl. rewrite Nat.add_1_r, tab_S, map_app. simpl.
  rewrite app_nth2 by lia. rewrite Nat.sub_diag. simpl. f_equal.
  rewrite <- IH. unfold tab. apply map_ext_in. intros j Hj. apply in_seq in Hj.
  rewrite app_nth1 by lia. reflexivity.
Qed.

Lemma qsum_onehot (c : nat) (l : list nat) :
  NoDup l -> (qsum (map (fun v => ind (Nat.eqb c v)) l) == ind (existsb (Nat.eqb c) l))%Q.
Proof.
  induction l as [|a t IH]; intros Hnd; simpl; [reflexivity|].
  inversion Hnd as [|? ? Hnot Hnd']; subst. rewrite IH by exact Hnd'.
  destruct (c =? a) eqn:E; simpl; [|ring].
  apply Nat.eqb_eq in E. subst a.
  assert (existsb (Nat.eqb c) t = false) as ->.
  { destruct (existsb (Nat.eqb c) t) eqn:Ex; [|reflexivity].
    apply existsb_exists in Ex. destruct Ex as [x [Hx Hc]]. apply Nat.eqb_eq in Hc. subst x. tauto. }
  simpl. ring.
Qed.

Lemma existsb_valid ms c :
  existsb (Nat.eqb c) (valid_idxs ms) = ok_catb ms (Some c).
Proof.
  simpl. destruct ((c <? length ms) && negb (nth c ms true)) eqn:E.
  - apply andb_true_iff in E. destruct E as [E1 E2]. apply Nat.ltb_lt in E1. apply negb_true_iff in E2.
    apply existsb_exists. exists c. split; [apply valid_idxs_In; tauto| apply Nat.eqb_refl].
  - destruct (existsb (Nat.eqb c) (valid_idxs ms)) eqn:Ex; [|reflexivity].
    apply existsb_exists in Ex. destruct Ex as [x [Hx Hc]]. apply Nat.eqb_eq in Hc. subst x.
    apply valid_idxs_In in Hx. destruct Hx as [H1 H2]. apply Nat.ltb_lt in H1.
    rewrite H1, H2 in E. discriminate.
Qed.

(* Sum over the valid categories of [answer = that category] = [answer is a valid category] *)
Lemma qsumn_onehot_valid ms (o : option nat) :
  (qsumn (length (valid_idxs ms)) (fun j => ind (oeqb o (nth j (valid_idxs ms) O)))
   == ind (ok_catb ms o))%Q.
Proof.
  unfold qsumn. rewrite (tab_nth_map (fun v => ind (oeqb o v)) (valid_idxs ms) O).
  destruct o as [c|].
  - simpl oeqb. rewrite (qsum_onehot c _ (valid_idxs_NoDup ms)). rewrite existsb_valid. reflexivity.
  - simpl. induction (valid_idxs ms) as [|a t IH]; simpl; [reflexivity|]. rewrite IH. ring.
Qed.

(* the same with a common factor [c] and an arbitrary boolean function that is pointwise
   [c && (answer = j-th valid category)] : the form in which the sums arise *)
Lemma qsumn_ind_onehot ms (o : option nat) (c : bool) (f : nat -> bool) :
  (forall j, f j = c && oeqb o (nth j (valid_idxs ms) O)) ->
  (qsumn (length (valid_idxs ms)) (fun j => ind (f j)) == ind (c && ok_catb ms o))%Q.
Proof.
  intros H.
  rewrite (qsumn_ext _ _ (fun j => ind c * ind (oeqb o (nth j (valid_idxs ms) O)))%Q).
  - rewrite qsumn_scale, qsumn_onehot_valid, ind_andb. reflexivity.
  - intros j _. rewrite H. apply ind_andb.
Qed.

(* Sum over ALL n payload positions of a dimension *)
Lemma qsumn_onehot_all n (o : option nat) :
  (qsumn n (fun j => ind (oeqb o j))
   == ind (match o with Some c => Nat.ltb c n | None => false end))%Q.
Proof.
  pose proof (qsumn_onehot_valid (repeat false n) o) as H.
  rewrite valid_idxs_none_missing, seq_length in H.
  rewrite (qsumn_ext _ _ (fun j => ind (oeqb o (nth j (seq 0 n) 0)))).
  - rewrite H. unfold ok_catb. destruct o as [c|]; [|reflexivity].
    rewrite repeat_length. destruct (c <? n) eqn:E; simpl; [|reflexivity].
    apply Nat.ltb_lt in E. rewrite (nth_indep _ true false) by (rewrite repeat_length; lia).
    rewrite nth_repeat. reflexivity.
  - intros j Hj. rewrite seq_nth by lia. reflexivity.
Qed.

Lemma qsumn_ind_onehot_all n (o : option nat) (c : bool) (f : nat -> bool) :
  (forall j, f j = c && oeqb o j) ->
  (qsumn n (fun j => ind (f j))
   == ind (c && match o with Some x => Nat.ltb x n | None => false end))%Q.
Proof.
  intros H.
  rewrite (qsumn_ext _ _ (fun j => ind c * ind (oeqb o j))%Q).
  - rewrite qsumn_scale, qsumn_onehot_all, ind_andb. reflexivity.
  - intros j _. rewrite H. apply ind_andb.
Qed.

(* the three MR states partition the respondents; the two valid ones are "not missing" *)
Lemma mr_states_3 (m : mrstate) (c : bool) :
  (ind (c && Nat.eqb (code m) 0) + (ind (c && Nat.eqb (code m) 1)
     + (ind (c && Nat.eqb (code m) 2) + 0))
   == ind c)%Q.
Proof. destruct m, c; simpl; ring. Qed.

Lemma mr_states_2 (m : mrstate) (c : bool) :
  (ind (c && Nat.eqb (code m) 0) + (ind (c && Nat.eqb (code m) 1) + 0)
   == ind (c && match m with Mis => false | _ => true end))%Q.
Proof. destruct m, c; simpl; ring. Qed.

(* ------------------------------------------------------------------------------------ *)
(** * Lemmas: tabulate *)

Lemma firstn_app_exact {A} (l1 l2 : list A) : firstn (length l1) (l1 ++ l2) = l1.
Proof. rewrite firstn_app, Nat.sub_diag, firstn_all. simpl. apply app_nil_r. Qed.
Lemma skipn_app_exact {A} (l1 l2 : list A) : skipn (length l1) (l1 ++ l2) = l2.
Proof. rewrite skipn_app, Nat.sub_diag, skipn_all. reflexivity. Qed.

(* a cube over vs1 ++ vs2: the index splits, the contributions multiply (this is what
   makes a 3-D cube a stack of 2-D cubes, one per table element) *)
Lemma contributes_all_app vs1 vs2 r idx1 idx2 :
  length idx1 = arities vs1 ->
  contributes_all (vs1 ++ vs2) r (idx1 ++ idx2)
  = contributes_all vs1 r idx1 && contributes_all vs2 r idx2.
Proof.
  revert idx1. induction vs1 as [|[v k] t IH]; intros idx1 H; simpl in *.
  - destruct idx1; [reflexivity| discriminate].
  - assert (Hk : arity k <= length idx1) by lia.
    rewrite firstn_app, skipn_app.
    replace (arity k - length idx1) with 0 by lia. simpl firstn at 2. simpl skipn at 2.
    rewrite app_nil_r.
    rewrite IH by (rewrite skipn_length; lia).
    rewrite andb_assoc. reflexivity.
Qed.

Lemma tabulate_nonneg vs S idx : wf_survey S -> (0 <= tabulate vs S idx)%Q.
Proof. apply wsum_nonneg. Qed.

(* merging two surveys adds their tensors cell by cell *)
Lemma tabulate_app vs S1 S2 idx :
  (tabulate vs (S1 ++ S2) idx == tabulate vs S1 idx + tabulate vs S2 idx)%Q.
Proof. apply wsum_app. Qed.

(* an MR / array variable contributes exactly one state per item: summing the state axis
   gives the tensor of the cube without that information *)
Lemma contributes_unit_answers r : answers (mkResp (answers r) 1) = answers r.
Proof. reflexivity. Qed.

Lemma contributes_all_unit vs r idx :
  contributes_all vs (mkResp (answers r) 1) idx = contributes_all vs r idx.
Proof. revert idx. induction vs as [|[v k] t IH]; intros idx; simpl; [reflexivity|]. rewrite IH. reflexivity. Qed.
