(* Spec/Restrict.v -- what "partition k of a 3-D cube" MEANS at the level of respondents.

   A 3-D cube  table x rows x columns  is a stack of 2-D cubes  rows x columns, one per valid
   element of the table dimension.  The user reads table k as "the rows x columns analysis of
   the respondents who belong to table element k":

     categorical table variable   : respondents whose answer is the k-th valid category
     multiple-response table var. : respondents who SELECTED the k-th valid item
     categorical-array table var. : (table = item k, rows = its categories) every respondent,
                                    analysed by his answer to sub-variable k

   [restrict S v kd ms k]  keeps exactly those respondents (same answers, same weights, same
   order), [subvar S v k] replaces the array answer to variable v by the (categorical) answer
   to its k-th sub-variable.  A measure of a cell is ANY function of the list of respondents
   who fall in the cell ([cell_resp]); the weighted count ([tabulate] of Spec/Survey.v) is
   the sum of their weights.

   Small and model-free on purpose (only Spec/Survey.v is imported). *)
From Coq Require Import QArith ZArith List Bool Lia Arith.
From CC Require Import Base.XQ Base.ListX Spec.Survey.
Import ListNotations.
Local Close Scope Q_scope.
Local Open Scope nat_scope.

(* r belongs to the k-th valid element of table variable v (kind kd, missing flags ms) *)
Definition member (v : nat) (kd : kind) (ms : list bool) (k : nat) (r : resp) : bool :=
  in_el kd ms (ans r v) k.

(* the survey restricted to the members of table element k *)
Definition restrict (S : survey) (v : nat) (kd : kind) (ms : list bool) (k : nat) : survey :=
  filter (member v kd ms k) S.

(* replace the answer to variable v (padding with "no data" if the respondent has fewer
   answers); every other answer and the weight are untouched *)
Definition set_answer (v : nat) (a : answer) (r : resp) : resp :=
  mkResp (tab (Nat.max (length (answers r)) (v + 1)) (fun n => if n =? v then a else ans r n))
         (weight r).

(* the answer to sub-variable [item] of an array answer, as a categorical answer *)
Definition item_answer (a : answer) (item : nat) : answer :=
  match aarr a item with Some c => ACat c | None => AMr [] end.

(* the survey in which array variable v is replaced by its sub-variable at payload
   position [item] *)
Definition subvar (S : survey) (v item : nat) : survey :=
  map (fun r => set_answer v (item_answer (ans r v) item) r) S.

(* the respondents who fall in cell idx of the cube over the variables vs *)
Definition cell_resp (vs : cubevars) (S : survey) (idx : list nat) : list resp :=
  filter (fun r => contributes_all vs r idx) S.

(* a cell statistic: any function of the respondents in the cell (weighted count, sum or mean
   or median of a numeric answer, head count, ...) *)
Definition stat_tensor (stat : list resp -> xq) (vs : cubevars) (S : survey) (idx : list nat) : xq :=
  stat (cell_resp vs S idx).

(* the weighted count as a cell statistic *)
Definition wcount (l : list resp) : xq := Fin (gsum l (fun _ => 1%Q)).
