(* OrderSpec: the readable meaning of "anchored order" (C07), of the visibility filter
   (C09) and of a value-sorted order (C08), as plain list functions.

   Identifiers.  Element ids, anchors and the ids listed in order transforms are JSON
   scalars: [IInt z], [IStr s] or [INone] (null), compared like Python compares them
   (an int never equals a string).  [py_int] is Python's int(str) on ASCII strings: blanks
   (space, \t \n \v \f \r) around are ignored, then an optional sign, then ASCII digits
   (leading zeros allowed) with single underscores allowed between two digits; not
   modelled: non-ASCII digits / blanks ('\u0663', '\xa0') and the 4300 digit limit.
   [py_str] is str(int); [lower] is str.lower() on ASCII.

   Anchored order.  [base] is the list of base elements in the order they are to appear
   (payload order, or the explicit order), each as (payload index, element id).
   [floats] are the things that are positioned relative to base elements - subtotals
   (negative index) and, under an explicit order, derived multiple-response items - each
   as (signed index, place) in DEFINITION order.  The order is

       tops ++ flat_map (fun e => before e ++ [e] ++ after e) base ++ bottoms

   where each group keeps definition order and a float whose anchor element is not among
   the base elements goes to the bottom.  What is finally displayed is this list with
   the hidden / pruned base elements filtered out. *)
From Coq Require Import List ZArith String Ascii Bool Lia Arith Decimal DecimalString.
Import ListNotations.
Local Open Scope nat_scope.

(* --- identifiers --------------------------------------------------------------------- *)
Inductive ident : Type := IInt (z : Z) | IStr (s : string) | INone.

Definition ident_eqb (a b : ident) : bool :=
  match a, b with
  | IInt x, IInt y => Z.eqb x y
  | IStr s, IStr t => String.eqb s t
  | INone, INone => true
  | _, _ => false
  end.

Lemma ident_eqb_eq a b : ident_eqb a b = true <-> a = b.
Proof.
  destruct a, b; simpl; split; intros H; try discriminate; try reflexivity.
  - apply Z.eqb_eq in H. congruence.
  - inversion H. apply Z.eqb_refl.
  - apply String.eqb_eq in H. congruence.
  - inversion H. apply String.eqb_refl.
Qed.

Lemma ident_eqb_refl a : ident_eqb a a = true.
Proof. apply ident_eqb_eq. reflexivity. Qed.

Lemma ident_eqb_neq a b : ident_eqb a b = false <-> a <> b.
Proof.
  split.
  - intros H E. apply ident_eqb_eq in E. congruence.
  - intros H. destruct (ident_eqb a b) eqn:E; auto. apply ident_eqb_eq in E. contradiction.
Qed.

Lemma ident_eqb_sym a b : ident_eqb a b = ident_eqb b a.
Proof.
  destruct (ident_eqb a b) eqn:E.
  - apply ident_eqb_eq in E. subst. symmetry. apply ident_eqb_refl.
  - symmetry. apply ident_eqb_neq. apply ident_eqb_neq in E. congruence.
Qed.

(* Python's `x in seq` *)
Definition imem (a : ident) (l : list ident) : bool := existsb (ident_eqb a) l.

Lemma imem_In a l : imem a l = true <-> In a l.
Proof.
  unfold imem. rewrite existsb_exists. split.
  - intros (x & Hx & E). apply ident_eqb_eq in E. subst. exact Hx.
  - intros H. exists a. split; auto. apply ident_eqb_refl.
Qed.

Lemma imem_false a l : imem a l = false <-> ~ In a l.
Proof.
  split.
  - intros H I. apply imem_In in I. congruence.
  - intros H. destruct (imem a l) eqn:E; auto. apply imem_In in E. contradiction.
Qed.

(* str(int) *)
Definition py_str_Z (z : Z) : string := NilZero.string_of_int (Z.to_int z).
Definition py_str (a : ident) : string :=
  match a with IInt z => py_str_Z z | IStr s => s | INone => "None" end.

(* int(str) on ASCII strings: blanks around are dropped (Py_ISSPACE: 9..13 and 32), then an
   optional sign, then one or more ASCII digits (leading zeros allowed); a single "_" may
   separate two digits ("1_0" = 10; "_1", "1_", "1__0", "+_1" are errors); nothing may
   stand between the sign and the first digit ("+ 3" is an error) *)
Definition digit_of (c : ascii) : option Z :=
  let n := Z.of_nat (nat_of_ascii c) in
  if ((48 <=? n) && (n <=? 57))%Z then Some (n - 48)%Z else None.
(* [after_digit]: the previous character was a digit (so "_" or the end may follow) *)
Fixpoint digits (s : string) (acc : Z) (after_digit : bool) : option Z :=
  match s with
  | EmptyString => if after_digit then Some acc else None
  | String c r =>
      match digit_of c with
      | Some d => digits r (10 * acc + d)%Z true
      | None => if Ascii.eqb c "_"%char && after_digit then digits r acc false else None
      end
  end.
Definition unsigned_int (s : string) : option Z := digits s 0%Z false.
Definition signed_int (s : string) : option Z :=
  match s with
  | String c r =>
      if Ascii.eqb c "-"%char then option_map Z.opp (unsigned_int r)
      else if Ascii.eqb c "+"%char then unsigned_int r
      else unsigned_int s
  | EmptyString => None
  end.
Definition is_blank (c : ascii) : bool :=
  let n := nat_of_ascii c in ((9 <=? n) && (n <=? 13)) || (n =? 32).
Fixpoint lstrip (s : string) : string :=
  match s with
  | String c r => if is_blank c then lstrip r else s
  | EmptyString => EmptyString
  end.
Fixpoint rstrip (s : string) : string :=
  match s with
  | String c r =>
      match rstrip r with
      | EmptyString => if is_blank c then EmptyString else String c EmptyString
      | r' => String c r'
      end
  | EmptyString => EmptyString
  end.
Definition py_int (s : string) : option Z := signed_int (rstrip (lstrip s)).

(* str.lower() on ASCII *)
Definition lower_ascii (c : ascii) : ascii :=
  let n := nat_of_ascii c in
  if (65 <=? n) && (n <=? 90) then ascii_of_nat (n + 32) else c.
Fixpoint lower (s : string) : string :=
  match s with EmptyString => EmptyString | String c r => String (lower_ascii c) (lower r) end.

(* --- places and the anchored order ---------------------------------------------------- *)
Inductive place : Type := PTop | PBottom | PBefore (i : ident) | PAfter (i : ident).

Definition place_eqb (a b : place) : bool :=
  match a, b with
  | PTop, PTop | PBottom, PBottom => true
  | PBefore i, PBefore j | PAfter i, PAfter j => ident_eqb i j
  | _, _ => false
  end.

Lemma place_eqb_eq a b : place_eqb a b = true <-> a = b.
Proof.
  destruct a, b; simpl; split; intros H; try discriminate; try reflexivity;
    try (apply ident_eqb_eq in H; congruence);
    try (inversion H; apply ident_eqb_refl).
Qed.

(* a float anchored to an element that is not among the base elements sits at the bottom *)
Definition effective (ids : list ident) (p : place) : place :=
  match p with
  | PBefore i | PAfter i => if imem i ids then p else PBottom
  | _ => p
  end.

Definition bel : Type := (nat * ident)%type.      (* base element: payload index, id *)
Definition flt : Type := (Z * place)%type.        (* float: signed index, place *)

Definition at_place (ids : list ident) (p : place) (f : flt) : bool :=
  place_eqb (effective ids (snd f)) p.

(* the floats at place p, in definition order *)
Definition group (ids : list ident) (floats : list flt) (p : place) : list Z :=
  map fst (filter (at_place ids p) floats).

Definition anchored_order (base : list bel) (floats : list flt) : list Z :=
  let ids := map snd base in
  group ids floats PTop
  ++ flat_map (fun e => group ids floats (PBefore (snd e))
                        ++ [Z.of_nat (fst e)]
                        ++ group ids floats (PAfter (snd e))) base
  ++ group ids floats PBottom.

(* --- base orders ---------------------------------------------------------------------- *)
Definition enumerate {A} (l : list A) : list (nat * A) := combine (seq 0 (List.length l)) l.

(* payload order: every valid element, as it comes *)
Definition payload_base (ids : list ident) : list bel := enumerate ids.

(* first mention wins *)
Fixpoint dedup_first (l : list ident) : list ident :=
  match l with
  | [] => []
  | i :: r => i :: filter (fun j => negb (ident_eqb j i)) (dedup_first r)
  end.

(* explicit order over the known (non-derived) elements: the listed ids in listed order
   (first mention wins, unknown ids dropped), then the unlisted ones in payload order *)
Definition explicit_base (known : list bel) (listed : list ident) : list bel :=
  flat_map (fun i => filter (fun e => ident_eqb (snd e) i) known) (dedup_first listed)
  ++ filter (fun e => negb (imem (snd e) listed)) known.

(* --- visibility ------------------------------------------------------------------------ *)
(* [hidden]: payload indexes of the base elements that are not to be shown *)
Definition visible (hidden : list nat) (z : Z) : bool :=
  negb (existsb (fun h => Z.eqb (Z.of_nat h) z) hidden).
Definition displayed (hidden : list nat) (l : list Z) : list Z := filter (visible hidden) l.

(* hidden set = explicit hides + (empty vectors if pruning is on) *)
Definition hidden_set (prune : bool) (empties hides : list nat) : list nat :=
  (if prune then empties else []) ++ hides.

(* subtotals: signed indexes -n .. -1 for n subtotals in definition order *)
Definition neg_idxs (n : nat) : list Z := map (fun i => (Z.of_nat i - Z.of_nat n)%Z) (seq 0 n).

(* --- the anchor a subtotal definition means ------------------------------------------- *)
(* top / bottom in any letter case; the id of a valid element as int or numeric string;
   null, or an id that is not (any more) a valid element: bottom.  Any other string has
   no meaning ([None]). *)
Definition spec_place (valid_ids : list ident) (raw : ident) : option place :=
  match raw with
  | INone => Some PBottom
  | IInt z => Some (if imem (IInt z) valid_ids then PAfter (IInt z) else PBottom)
  | IStr s =>
      match py_int s with
      | Some z => Some (if imem (IInt z) valid_ids then PAfter (IInt z) else PBottom)
      | None =>
          if String.eqb (lower s) "top" then Some PTop
          else if String.eqb (lower s) "bottom" then Some PBottom
          else None
      end
  end.

(* --- ids of insertions that come without one ------------------------------------------ *)
(* 1-based rank of subtotal k (0-based definition position, n subtotals in all) among the
   subtotals of a display order *)
Fixpoint index_of (z : Z) (l : list Z) : option nat :=
  match l with
  | [] => None
  | x :: t => if Z.eqb x z then Some 0 else option_map S (index_of z t)
  end.
Definition rank_in_order (n k : nat) (order : list Z) : option Z :=
  option_map (fun r => Z.of_nat (S r))
    (index_of (Z.of_nat k - Z.of_nat n)%Z (filter (fun z => Z.ltb z 0) order)).
