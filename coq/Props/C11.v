(* C11 – Variance, standard error and margin of error of proportions.
   Statements only; proofs in Proofs/VarianceProofs.v; executable model in
   Model/Variance.v, tied to matrix/measure.py, matrix/subtotals.py, stripe/measure.py and
   cubepart.py by the correspondence check harness/props/c11.py.
   Square roots are not modelled: std-dev, std-err and MoE are compared through their
   squares (they are non-negative by construction of np.sqrt). *)
From Coq Require Import QArith ZArith List Bool Lia Arith.
From CC Require Import Base.XQ Base.ListX Model.Subtotals Model.Proportions Model.Variance
  Proofs.VarianceProofs.
Import ListNotations.
Open Scope Q_scope.

(* For EVERY finite population of respondents in a proportion's base, each with a weight
   and the indicator +1 (addend member) / -1 (subtrahend member) / 0, the code's three-term
   formula applied to the weighted counts (total, positive, negative; ignored = the rest)
   and the proportion (mean of the indicator) is the weighted variance of that indicator. *)
Theorem C11_variance_is_indicator_variance (l : list resp) : ~ w_tot l == 0 ->
  var_cell (Fin (spec_mean l)) (Fin (w_tot l)) (Fin (w_pos l)) (Fin (w_neg l))
  =x= Fin (spec_var l).
Proof. exact (var_is_indicator_variance l). Qed.
Print Assumptions C11_variance_is_indicator_variance.

Theorem C11_proportion_is_indicator_mean l : spec_mean l == (w_pos l - w_neg l) / w_tot l.
Proof. exact (spec_mean_counts l). Qed.
Print Assumptions C11_proportion_is_indicator_mean.

(* ordinary cells and subtotals without subtrahends: p (1 - p) *)
Theorem C11_variance_p_one_minus_p (p Nt Np : Q) : ~ Nt == 0 -> p == Np / Nt ->
  var_cell (Fin p) (Fin Nt) (Fin Np) (Fin 0) =x= Fin (p * (1 - p)).
Proof. exact (var_no_negatives p Nt Np). Qed.
Print Assumptions C11_variance_p_one_minus_p.

Theorem C11_variance_second_moment (p Nt Np Nn : Q) : ~ Nt == 0 -> p == (Np - Nn) / Nt ->
  var_cell (Fin p) (Fin Nt) (Fin Np) (Fin Nn) =x= Fin ((Np + Nn) / Nt - p * p).
Proof. exact (var_second_moment p Nt Np Nn). Qed.
Print Assumptions C11_variance_second_moment.

(* non-negative for non-negative weights; NaN where base or proportion is undefined *)
Theorem C11_variance_nonneg l : (forall w m, In (w, m) l -> 0 <= w) -> ~ w_tot l == 0 ->
  0 <= spec_var l.
Proof. exact (spec_var_nonneg l). Qed.
Print Assumptions C11_variance_nonneg.

Theorem C11_variance_nan :
  (forall p, var_cell p (Fin 0) (Fin 0) (Fin 0) = NaN) /\
  (forall Nt Np Nn, var_cell NaN Nt Np Nn = NaN).
Proof. exact (conj var_nan_zero_base var_nan_prop). Qed.
Print Assumptions C11_variance_nan.

(* every cell of every block uses its own proportion, base, positive and negative counts *)
Theorem C11_variance_blocks_pointwise counts nr nc rsubs csubs P T :
  let V := variance_blocks counts nr nc rsubs csubs P T in
  let A := pos_blocks counts nr nc rsubs csubs in
  let N := neg_blocks counts nr nc rsubs csubs in
  (forall i j, (i < nr)%nat -> (j < nc)%nat -> mnth (b_base V) i j =
     var_cell (mnth (b_base P) i j) (mnth (b_base T) i j) (mnth (b_base A) i j) (mnth (b_base N) i j)) /\
  (forall i l, (i < nr)%nat -> (l < length csubs)%nat -> mnth (b_cols V) i l =
     var_cell (mnth (b_cols P) i l) (mnth (b_cols T) i l) (mnth (b_cols A) i l) (mnth (b_cols N) i l)) /\
  (forall k j, (k < length rsubs)%nat -> (j < nc)%nat -> mnth (b_rows V) k j =
     var_cell (mnth (b_rows P) k j) (mnth (b_rows T) k j) (mnth (b_rows A) k j) (mnth (b_rows N) k j)) /\
  (forall k l, (k < length rsubs)%nat -> (l < length csubs)%nat -> mnth (b_inter V) k l =
     var_cell (mnth (b_inter P) k l) (mnth (b_inter T) k l) (mnth (b_inter A) k l) (mnth (b_inter N) k l)).
Proof. exact (var_blocks_pointwise counts nr nc rsubs csubs P T). Qed.
Print Assumptions C11_variance_blocks_pointwise.

Theorem C11_positive_negative_terms counts nr nc rsubs csubs :
  let A := pos_blocks counts nr nc rsubs csubs in
  let N := neg_blocks counts nr nc rsubs csubs in
  (forall i j, (i < nr)%nat -> (j < nc)%nat ->
     mnth (b_base A) i j = mnth counts i j /\ mnth (b_base N) i j = Fin 0) /\
  (forall k j, (k < length rsubs)%nat -> (j < nc)%nat ->
     mnth (b_rows A) k j = sum_rows counts (s_add (nth k rsubs nosub)) j /\
     mnth (b_rows N) k j = sum_rows counts (s_sub (nth k rsubs nosub)) j) /\
  (forall i l, (i < nr)%nat -> (l < length csubs)%nat ->
     mnth (b_cols A) i l = sum_cols counts i (s_add (nth l csubs nosub)) /\
     mnth (b_cols N) i l = sum_cols counts i (s_sub (nth l csubs nosub))).
Proof.
  exact (conj (pos_neg_base counts nr nc rsubs csubs)
        (conj (pos_neg_rows counts nr nc rsubs csubs) (pos_neg_cols counts nr nc rsubs csubs))).
Qed.
Print Assumptions C11_positive_negative_terms.

(* standard error^2 = variance / weighted base (non-negative); MoE^2 = 1.959964^2 * SE^2 *)
Theorem C11_stderr_moe :
  (forall var base, stderr_sq var base = xdiv var base) /\
  (forall v b, 0 <= v -> 0 < b ->
     match stderr_sq (Fin v) (Fin b) with Fin s => 0 <= s | _ => False end) /\
  (forall s, moe_sq (Fin s) = Fin ((1959964 # 1000000) * (1959964 # 1000000) * s)) /\
  moe_sq NaN = NaN.
Proof. exact (conj stderr_sq_def (conj stderr_sq_nonneg (conj moe_sq_fin moe_sq_nan))). Qed.
Print Assumptions C11_stderr_moe.

(* non-vacuity: weights 2,1,1,4 with indicators +1,+1,-1,0: Nt=8, Np=3, Nn=1, p=1/4,
   variance = (3+1)/8 - 1/16 = 7/16 *)
Example C11_example :
  let l := [(2, Pos); (1, Pos); (1, Neg); (4, Zero)] in
  ~ w_tot l == 0 /\ spec_mean l == 1 # 4 /\ spec_var l == 7 # 16 /\
  var_cell (Fin (1 # 4)) (Fin 8) (Fin 3) (Fin 1) =x= Fin (7 # 16).
Proof. vm_compute. repeat split; try reflexivity. intros H; discriminate H. Qed.
