(* C11 – Variance, standard error and margin of error of proportions.
   Statements only; proofs in Proofs/VarianceProofs.v; executable model in
   Model/Variance.v, tied to matrix/measure.py, matrix/subtotals.py, stripe/measure.py and
   cubepart.py by the correspondence check harness/props/c11.py.
   Square roots are not modelled: std-dev, std-err and MoE are compared through their
   squares (they are non-negative by construction of np.sqrt). *)
From Coq Require Import QArith ZArith List Bool Lia Arith.
From CC Require Import Base.XQ Base.ListX Model.Subtotals Model.Proportions Model.Variance
  Proofs.VarianceProofs.
Import ListNotations.
Open Scope Q_scope.

(* For EVERY finite population of respondents in a proportion's base, each with a weight
   and the indicator +1 (addend member) / -1 (subtrahend member) / 0, the code's three-term
   formula applied to the weighted counts (total, positive, negative; ignored = the rest)
   and the proportion (mean of the indicator) is the weighted variance of that indicator. *)
Theorem C11_variance_is_indicator_variance (l : list resp) : ~ w_tot l == 0 ->
  var_cell (Fin (spec_mean l)) (Fin (w_tot l)) (Fin (w_pos l)) (Fin (w_neg l))
  =x= Fin (spec_var l).
Proof. exact (var_is_indicator_variance l). Qed.
Print Assumptions C11_variance_is_indicator_variance.

Theorem C11_proportion_is_indicator_mean l : spec_mean l == (w_pos l - w_neg l) / w_tot l.
Proof. exact (spec_mean_counts l). Qed.
Print Assumptions C11_proportion_is_indicator_mean.

(* ordinary cells and subtotals without subtrahends: p (1 - p) *)
Theorem C11_variance_p_one_minus_p (p Nt Np : Q) : ~ Nt == 0 -> p == Np / Nt ->
  var_cell (Fin p) (Fin Nt) (Fin Np) (Fin 0) =x= Fin (p * (1 - p)).
Proof. exact (var_no_negatives p Nt Np). Qed.
Print Assumptions C11_variance_p_one_minus_p.

Theorem C11_variance_second_moment (p Nt Np Nn : Q) : ~ Nt == 0 -> p == (Np - Nn) / Nt ->
  var_cell (Fin p) (Fin Nt) (Fin Np) (Fin Nn) =x= Fin ((Np + Nn) / Nt - p * p).
Proof. exact (var_second_moment p Nt Np Nn). Qed.
Print Assumptions C11_variance_second_moment.

(* non-negative for non-negative weights; NaN where base or proportion is undefined *)
Theorem C11_variance_nonneg l : (forall w m, In (w, m) l -> 0 <= w) -> ~ w_tot l == 0 ->
  0 <= spec_var l.
Proof. exact (spec_var_nonneg l). Qed.
Print Assumptions C11_variance_nonneg.

Theorem C11_variance_nan :
  (forall p, var_cell p (Fin 0) (Fin 0) (Fin 0) = NaN) /\
  (forall Nt Np Nn, var_cell NaN Nt Np Nn = NaN).
Proof. exact (conj var_nan_zero_base var_nan_prop). Qed.
Print Assumptions C11_variance_nan.

(* every cell of every block uses its own proportion, base, positive and negative counts *)
Theorem C11_variance_blocks_pointwise counts nr nc rsubs csubs P T :
  let V := variance_blocks counts nr nc rsubs csubs P T in
  let A := pos_blocks counts nr nc rsubs csubs in
  let N := neg_blocks counts nr nc rsubs csubs in
  (forall i j, (i < nr)%nat -> (j < nc)%nat -> mnth (b_base V) i j =
     var_cell (mnth (b_base P) i j) (mnth (b_base T) i j) (mnth (b_base A) i j) (mnth (b_base N) i j)) /\
  (forall i l, (i < nr)%nat -> (l < length csubs)%nat -> mnth (b_cols V) i l =
     var_cell (mnth (b_cols P) i l) (mnth (b_cols T) i l) (mnth (b_cols A) i l) (mnth (b_cols N) i l)) /\
  (forall k j, (k < length rsubs)%nat -> (j < nc)%nat -> mnth (b_rows V) k j =
     var_cell (mnth (b_rows P) k j) (mnth (b_rows T) k j) (mnth (b_rows A) k j) (mnth (b_rows N) k j)) /\
  (forall k l, (k < length rsubs)%nat -> (l < length csubs)%nat -> mnth (b_inter V) k l =
     var_cell (mnth (b_inter P) k l) (mnth (b_inter T) k l) (mnth (b_inter A) k l) (mnth (b_inter N) k l)).
Proof. exact (var_blocks_pointwise counts nr nc rsubs csubs P T). Qed.
Print Assumptions C11_variance_blocks_pointwise.

Theorem C11_positive_negative_terms counts nr nc rsubs csubs :
  let A := pos_blocks counts nr nc rsubs csubs in
  let N := neg_blocks counts nr nc rsubs csubs in
  (forall i j, (i < nr)%nat -> (j < nc)%nat ->
     mnth (b_base A) i j = mnth counts i j /\ mnth (b_base N) i j = Fin 0) /\
  (forall k j, (k < length rsubs)%nat -> (j < nc)%nat ->
     mnth (b_rows A) k j = sum_rows counts (s_add (nth k rsubs nosub)) j /\
     mnth (b_rows N) k j = sum_rows counts (s_sub (nth k rsubs nosub)) j) /\
  (forall i l, (i < nr)%nat -> (l < length csubs)%nat ->
     mnth (b_cols A) i l = sum_cols counts i (s_add (nth l csubs nosub)) /\
     mnth (b_cols N) i l = sum_cols counts i (s_sub (nth l csubs nosub))).
Proof.
  exact (conj (pos_neg_base counts nr nc rsubs csubs)
        (conj (pos_neg_rows counts nr nc rsubs csubs) (pos_neg_cols counts nr nc rsubs csubs))).
Qed.
Print Assumptions C11_positive_negative_terms.

(* standard error^2 = variance / weighted base (non-negative); MoE^2 = 1.959964^2 * SE^2 *)
Theorem C11_stderr_moe :
  (forall var base, stderr_sq var base = xdiv var base) /\
  (forall v b, 0 <= v -> 0 < b ->
     match stderr_sq (Fin v) (Fin b) with Fin s => 0 <= s | _ => False end) /\
  (forall s, moe_sq (Fin s) = Fin ((1959964 # 1000000) * (1959964 # 1000000) * s)) /\
  moe_sq NaN = NaN.
Proof. exact (conj stderr_sq_def (conj stderr_sq_nonneg (conj moe_sq_fin moe_sq_nan))). Qed.
Print Assumptions C11_stderr_moe.

(* non-vacuity: weights 2,1,1,4 with indicators +1,+1,-1,0: Nt=8, Np=3, Nn=1, p=1/4,
   variance = (3+1)/8 - 1/16 = 7/16 *)
Example C11_example :
  let l := [(2, Pos); (1, Pos); (1, Neg); (4, Zero)] in
  ~ w_tot l == 0 /\ spec_mean l == 1 # 4 /\ spec_var l == 7 # 16 /\
  var_cell (Fin (1 # 4)) (Fin 8) (Fin 3) (Fin 1) =x= Fin (7 # 16).
Proof. vm_compute. repeat split; try reflexivity. intros H; discriminate H. Qed.

(* ==================================================================================== *)
(** * END TO END: the variance blocks computed from a tabulated survey
      (Proofs/ComposeBase.v, ComposeProportions.v, ComposeVariance.v)

   The theorems above are about ABSTRACT respondent lists.  Below the whole pipeline runs on one
   survey S (Spec/Survey.v): [s_row_var S tv vr kr mr vc kc mc k rsubs csubs dn rd cd] is
   Model/Variance.v::variance_blocks applied to the count block, the row-proportion blocks and
   the row-base blocks the model computes from [tabulate S] for partition k of a categorical /
   multiple-response x categorical / multiple-response cube (2-D: tv = None), with ANY inserted
   subtotals and flags; likewise the column and table directions.  The respondent list of a cell
   is no longer a free variable: [marks S K A] lists the respondents of the base K with indicator
   +1 when they are in the cell A, else 0 ([C11_survey_respondent_list]).  [w_cell], [w_rowbase],
   [w_colbase], [w_tabbase] are the weighted respondent counts of Props/C03.v::C03_survey_numbers. *)
From CC Require Import Spec.Survey Model.CubeCounts Proofs.CubeCountsProofs
     Proofs.ComposeBase Proofs.ComposeProportions Proofs.ComposeVariance Proofs.VarianceProofs.

Theorem C11_survey_respondent_list S (K A : Survey.resp -> bool) :
  marks S K A = map (fun r => (weight r, if A r then Pos else Zero)) (filter K S) /\
  w_tot (marks S K A) == wsum S K /\
  w_pos (marks S K A) == wsum S (fun r => K r && A r) /\
  w_neg (marks S K A) == 0 /\
  (wf_survey S -> forall w m, In (w, m) (marks S K A) -> 0 <= w).
Proof.
  exact (conj eq_refl (conj (marks_w_tot S K A) (conj (marks_w_pos S K A)
        (conj (marks_w_neg S K A) (marks_weights_nonneg S K A))))).
Qed.
Print Assumptions C11_survey_respondent_list.

(* the proportion the variance is taken around is the mean of that indicator *)
Theorem C11_survey_proportion_is_indicator_mean S (K A : Survey.resp -> bool) p :
  (forall r, In r S -> A r = true -> K r = true) -> ~ wsum S K == 0 ->
  p =x= xdiv (Fin (wsum S A)) (Fin (wsum S K)) -> p =x= Fin (spec_mean (marks S K A)).
Proof. exact (fun Hsub => proportion_is_indicator_mean S K A Hsub p). Qed.
Print Assumptions C11_survey_proportion_is_indicator_mean.

(* VARIANCE of the row proportion of base cell (i, j): the weighted variance of the membership
   indicator over the respondents of the row base; = p (1 - p); non-negative; NaN exactly when
   the base is empty; never infinite *)
Theorem C11_survey_row_variance S tv vr kr mr vc kc mc k rsubs csubs dn rd cd i j :
  t_ok tv -> cat_or_mr kr -> cat_or_mr kc -> (k < t_n tv)%nat -> wf_survey S ->
  (i < nval mr)%nat -> (j < nval mc)%nat ->
  let l := marks S (rowbase_in tv k vr kr mr vc kc mc i j) (cell_in tv k vr kr mr vc kc mc i j) in
  let c := w_cell tv k vr kr mr vc kc mc S i j in
  let b := w_rowbase tv k vr kr mr vc kc mc S i j in
  match mnth (b_base (s_row_var S tv vr kr mr vc kc mc k rsubs csubs dn rd cd)) i j with
  | NaN => b == 0
  | Fin v => ~ b == 0 /\ v == spec_var l /\ v == (c / b) * (1 - c / b) /\ 0 <= v
  | Inf _ => False
  end.
Proof.
  exact (fun Ht Hr Hc Hk Hwf =>
           row_variance_survey S tv vr kr mr vc kc mc k rsubs csubs dn rd cd Ht Hr Hc Hk Hwf i j).
Qed.
Print Assumptions C11_survey_row_variance.

Theorem C11_survey_column_variance S tv vr kr mr vc kc mc k rsubs csubs dn rd cd i j :
  t_ok tv -> cat_or_mr kr -> cat_or_mr kc -> (k < t_n tv)%nat -> wf_survey S ->
  (i < nval mr)%nat -> (j < nval mc)%nat ->
  let l := marks S (colbase_in tv k vr kr mr vc kc mc i j) (cell_in tv k vr kr mr vc kc mc i j) in
  let c := w_cell tv k vr kr mr vc kc mc S i j in
  let b := w_colbase tv k vr kr mr vc kc mc S i j in
  match mnth (b_base (s_col_var S tv vr kr mr vc kc mc k rsubs csubs dn rd cd)) i j with
  | NaN => b == 0
  | Fin v => ~ b == 0 /\ v == spec_var l /\ v == (c / b) * (1 - c / b) /\ 0 <= v
  | Inf _ => False
  end.
Proof.
  exact (fun Ht Hr Hc Hk Hwf =>
           column_variance_survey S tv vr kr mr vc kc mc k rsubs csubs dn rd cd Ht Hr Hc Hk Hwf i j).
Qed.
Print Assumptions C11_survey_column_variance.

Theorem C11_survey_table_variance S tv vr kr mr vc kc mc k rsubs csubs dn i j :
  t_ok tv -> cat_or_mr kr -> cat_or_mr kc -> (k < t_n tv)%nat -> wf_survey S ->
  (i < nval mr)%nat -> (j < nval mc)%nat ->
  let l := marks S (tabbase_in tv k vr kr mr vc kc mc i j) (cell_in tv k vr kr mr vc kc mc i j) in
  let c := w_cell tv k vr kr mr vc kc mc S i j in
  let b := w_tabbase tv k vr kr mr vc kc mc S i j in
  match mnth (b_base (s_tab_var S tv vr kr mr vc kc mc k rsubs csubs dn)) i j with
  | NaN => b == 0
  | Fin v => ~ b == 0 /\ v == spec_var l /\ v == (c / b) * (1 - c / b) /\ 0 <= v
  | Inf _ => False
  end.
Proof.
  exact (fun Ht Hr Hc Hk Hwf =>
           table_variance_survey S tv vr kr mr vc kc mc k rsubs csubs dn Ht Hr Hc Hk Hwf i j).
Qed.
Print Assumptions C11_survey_table_variance.

(* SQUARED STANDARD ERROR = that variance / the weighted base; non-negative; NaN iff empty base *)
Theorem C11_survey_stderr_sq S tv vr kr mr vc kc mc k rsubs csubs dn rd cd i j :
  t_ok tv -> cat_or_mr kr -> cat_or_mr kc -> (k < t_n tv)%nat -> wf_survey S ->
  (i < nval mr)%nat -> (j < nval mc)%nat ->
  let cellp := cell_in tv k vr kr mr vc kc mc i j in
  match stderr_sq (mnth (b_base (s_row_var S tv vr kr mr vc kc mc k rsubs csubs dn rd cd)) i j)
                  (mnth (b_base (s_row_bases S tv vr kr mr vc kc mc k rsubs csubs)) i j) with
  | NaN => w_rowbase tv k vr kr mr vc kc mc S i j == 0
  | Fin s => ~ w_rowbase tv k vr kr mr vc kc mc S i j == 0 /\
             s == spec_var (marks S (rowbase_in tv k vr kr mr vc kc mc i j) cellp)
                  / w_rowbase tv k vr kr mr vc kc mc S i j /\ 0 <= s
  | Inf _ => False
  end /\
  match stderr_sq (mnth (b_base (s_col_var S tv vr kr mr vc kc mc k rsubs csubs dn rd cd)) i j)
                  (mnth (b_base (s_col_bases S tv vr kr mr vc kc mc k rsubs csubs)) i j) with
  | NaN => w_colbase tv k vr kr mr vc kc mc S i j == 0
  | Fin s => ~ w_colbase tv k vr kr mr vc kc mc S i j == 0 /\
             s == spec_var (marks S (colbase_in tv k vr kr mr vc kc mc i j) cellp)
                  / w_colbase tv k vr kr mr vc kc mc S i j /\ 0 <= s
  | Inf _ => False
  end /\
  match stderr_sq (mnth (b_base (s_tab_var S tv vr kr mr vc kc mc k rsubs csubs dn)) i j)
                  (mnth (b_base (s_tab_bases S tv vr kr mr vc kc mc k rsubs csubs)) i j) with
  | NaN => w_tabbase tv k vr kr mr vc kc mc S i j == 0
  | Fin s => ~ w_tabbase tv k vr kr mr vc kc mc S i j == 0 /\
             s == spec_var (marks S (tabbase_in tv k vr kr mr vc kc mc i j) cellp)
                  / w_tabbase tv k vr kr mr vc kc mc S i j /\ 0 <= s
  | Inf _ => False
  end.
Proof.
  exact (fun Ht Hr Hc Hk Hwf Hi Hj =>
    conj (row_stderr_sq_survey S tv vr kr mr vc kc mc k rsubs csubs dn rd cd Ht Hr Hc Hk Hwf i j Hi Hj)
   (conj (column_stderr_sq_survey S tv vr kr mr vc kc mc k rsubs csubs dn rd cd Ht Hr Hc Hk Hwf i j Hi Hj)
         (table_stderr_sq_survey S tv vr kr mr vc kc mc k rsubs csubs dn Ht Hr Hc Hk Hwf i j Hi Hj))).
Qed.
Print Assumptions C11_survey_stderr_sq.

(* SQUARED MARGIN OF ERROR = 1.959964^2 * squared standard error (row direction; the column /
   table twins are column_moe_sq_survey / table_moe_sq_survey of Proofs/ComposeVariance.v) *)
Theorem C11_survey_moe_sq S tv vr kr mr vc kc mc k rsubs csubs dn rd cd i j :
  t_ok tv -> cat_or_mr kr -> cat_or_mr kc -> (k < t_n tv)%nat -> wf_survey S ->
  (i < nval mr)%nat -> (j < nval mc)%nat ->
  match moe_sq (stderr_sq (mnth (b_base (s_row_var S tv vr kr mr vc kc mc k rsubs csubs dn rd cd)) i j)
                          (mnth (b_base (s_row_bases S tv vr kr mr vc kc mc k rsubs csubs)) i j)) with
  | NaN => w_rowbase tv k vr kr mr vc kc mc S i j == 0
  | Fin m => ~ w_rowbase tv k vr kr mr vc kc mc S i j == 0 /\
             m == (1959964 # 1000000) * (1959964 # 1000000)
                  * (spec_var (marks S (rowbase_in tv k vr kr mr vc kc mc i j) (cell_in tv k vr kr mr vc kc mc i j))
                     / w_rowbase tv k vr kr mr vc kc mc S i j) /\ 0 <= m
  | Inf _ => False
  end.
Proof.
  exact (fun Ht Hr Hc Hk Hwf =>
           row_moe_sq_survey S tv vr kr mr vc kc mc k rsubs csubs dn rd cd Ht Hr Hc Hk Hwf i j).
Qed.
Print Assumptions C11_survey_moe_sq.

(* Non-vacuity.  Five respondents with rational weights; rows categorical with a MISSING category
   in the middle of the payload and a valid category nobody chose; columns multiple response with
   per-item missingness.  Cell (row 1 = category 2, item 0): base = respondents 2 and 4
   (weights 2, 1/4), in the cell: respondent 2; p = 8/9, variance 8/81. *)
Example C11_survey_example :
  let S := [ mkResp [ACat 0; AMr [Sel; Oth]] (3 # 2);
             mkResp [ACat 2; AMr [Sel; Mis]] 2;
             mkResp [ACat 1; AMr [Sel; Sel]] 5;
             mkResp [ACat 2; AMr [Oth; Sel]] (1 # 4);
             mkResp [ACat 0; AMr [Oth; Oth]] 1 ] in
  let mr := [false; true; false; false] in
  let mc := [false; false] in
  t_ok None /\ cat_or_mr KCat /\ cat_or_mr KMr /\ (0 < t_n None)%nat /\ wf_survey S /\
  nval mr = 3%nat /\ nval mc = 2%nat /\
  marks S (rowbase_in None 0 0 KCat mr 1 KMr mc 1 0) (cell_in None 0 0 KCat mr 1 KMr mc 1 0)
    = [(2, Pos); (1 # 4, Zero)] /\
  spec_var (marks S (rowbase_in None 0 0 KCat mr 1 KMr mc 1 0) (cell_in None 0 0 KCat mr 1 KMr mc 1 0))
    == 8 # 81 /\
  map (map xred) (b_base (s_row_var S None 0 KCat mr 1 KMr mc 0 [] [] false false false))
    = [[Fin (6 # 25); Fin 0]; [Fin (8 # 81); Fin 0]; [NaN; NaN]] /\
  xred (stderr_sq (mnth (b_base (s_row_var S None 0 KCat mr 1 KMr mc 0 [] [] false false false)) 1 0)
                  (mnth (b_base (s_row_bases S None 0 KCat mr 1 KMr mc 0 [] [])) 1 0)) = Fin (32 # 729) /\
  ~ w_rowbase None 0 0 KCat mr 1 KMr mc S 1 0 == 0 /\
  w_rowbase None 0 0 KCat mr 1 KMr mc S 2 0 == 0.
Proof.
  cbv zeta. repeat split; try (left; reflexivity); try (right; reflexivity); try lia;
    try (repeat constructor; discriminate); try (vm_compute; reflexivity);
    try (vm_compute; discriminate).
Qed.

(* ==================================================================================== *)
(** * END TO END, continued: INSERTED ROWS -- subtotals and differences (Proofs/ComposeVarianceSub.v)

   Row subtotal kk of a slice with categorical rows: addend offsets [s_add], subtrahend offsets
   [s_sub] (valid rows, each once, no row on both sides), computed from the tabulated blocks.
   [rows_in ... offs j r]: r is in partition k, answered one of the row categories [offs], and is in
   column j.  [marks3 S K A B]: the respondents of the base K with indicator +1 on A, -1 on B, 0
   elsewhere.  The three-term formula over the Positive / Negative term blocks is the weighted
   variance of that +1 / 0 / -1 indicator -- the general case of C11_variance_is_indicator_variance,
   now with the respondent list, the proportion and the counts all derived from the survey.
   ([dn && has_subs = false]: no valid counts in the response, else a difference's count is NaN;
   [rd && has_subs = false]: rows not categorical-date, else a difference follows the wave rule.) *)
From CC Require Import Spec.Merge Proofs.ComposeVarianceSub Proofs.VarianceProofs.

Theorem C11_survey_signed_respondent_list S (K A B : Survey.resp -> bool) :
  marks3 S K A B
    = map (fun r => (weight r, if A r then Pos else if B r then Neg else Zero)) (filter K S) /\
  w_tot (marks3 S K A B) == wsum S K /\
  w_pos (marks3 S K A B) == wsum S (fun r => K r && A r) /\
  w_neg (marks3 S K A B) == wsum S (fun r => K r && (negb (A r) && B r)).
Proof.
  exact (conj eq_refl (conj (marks3_w_tot S K A B) (conj (marks3_w_pos S K A B) (marks3_w_neg S K A B)))).
Qed.
Print Assumptions C11_survey_signed_respondent_list.

Theorem C11_survey_rows_in tv vr vc kc ms mc k offs j r :
  rows_in tv vr vc kc ms mc k offs j r
  = pop_of tv k r && existsb (in_cat ms (ans r vr)) offs && in_el kc mc (ans r vc) j.
Proof. exact eq_refl. Qed.
Print Assumptions C11_survey_rows_in.

(* variance of the COLUMN proportion of inserted row kk, column j *)
Theorem C11_survey_inserted_row_column_variance S tv vr vc kc ms mc k rsubs csubs kk dn rd cd j :
  t_ok tv -> cat_or_mr kc -> (k < t_n tv)%nat -> wf_survey S -> (kk < length rsubs)%nat ->
  let s := nth kk rsubs nosub in
  Forall (fun i => (i < n_valid ms)%nat) (s_add s) -> Forall (fun i => (i < n_valid ms)%nat) (s_sub s) ->
  NoDup (s_add s) -> NoDup (s_sub s) -> (forall i, In i (s_add s) -> ~ In i (s_sub s)) ->
  dn && has_subs s = false -> rd && has_subs s = false -> (0 < n_valid ms)%nat -> (j < nval mc)%nat ->
  let A := rows_in tv vr vc kc ms mc k (s_add s) j in
  let B := rows_in tv vr vc kc ms mc k (s_sub s) j in
  let np := wsum S A in let nn := wsum S B in
  let b := w_colbase tv k vr KCat ms vc kc mc S 0 j in
  let C := t_counts S tv vr KCat ms vc kc mc k in
  let CB := t_cb S tv vr KCat ms vc kc mc k in
  match mnth (b_rows (variance_blocks C (nval ms) (nval mc) rsubs csubs
                        (col_proportions (nval ms) (nval mc) rsubs csubs C dn rd cd CB)
                        (col_base_blocks (nval ms) (nval mc) rsubs csubs CB))) kk j with
  | NaN => b == 0
  | Fin v => ~ b == 0 /\
             v == spec_var (marks3 S (colbase_in tv k vr KCat ms vc kc mc 0 j) A B) /\
             v == (np + nn) / b - ((np - nn) / b) * ((np - nn) / b) /\ 0 <= v
  | Inf _ => False
  end.
Proof.
  exact (fun Ht Hc Hk Hwf Hkk Ha Hs Hna Hns Hd Hdn Hrd Hp Hj =>
    column_variance_inserted_row S tv vr vc kc ms mc k rsubs csubs kk dn rd cd
      Ht Hc Hk Hwf Hkk Ha Hs Hna Hns Hd Hdn Hrd Hp j Hj).
Qed.
Print Assumptions C11_survey_inserted_row_column_variance.

(* variance of the TABLE proportion of inserted row kk, column j *)
Theorem C11_survey_inserted_row_table_variance S tv vr vc kc ms mc k rsubs csubs kk dn j :
  t_ok tv -> cat_or_mr kc -> (k < t_n tv)%nat -> wf_survey S -> (kk < length rsubs)%nat ->
  let s := nth kk rsubs nosub in
  Forall (fun i => (i < n_valid ms)%nat) (s_add s) -> Forall (fun i => (i < n_valid ms)%nat) (s_sub s) ->
  NoDup (s_add s) -> NoDup (s_sub s) -> (forall i, In i (s_add s) -> ~ In i (s_sub s)) ->
  dn && has_subs s = false -> (0 < n_valid ms)%nat -> (j < nval mc)%nat ->
  let A := rows_in tv vr vc kc ms mc k (s_add s) j in
  let B := rows_in tv vr vc kc ms mc k (s_sub s) j in
  let np := wsum S A in let nn := wsum S B in
  let b := w_tabbase tv k vr KCat ms vc kc mc S 0 j in
  let C := t_counts S tv vr KCat ms vc kc mc k in
  let TB := t_tb S tv vr KCat ms vc kc mc k in
  match mnth (b_rows (variance_blocks C (nval ms) (nval mc) rsubs csubs
                        (table_proportions (nval ms) (nval mc) rsubs csubs C dn TB)
                        (table_base_blocks (nval ms) (nval mc) rsubs csubs TB))) kk j with
  | NaN => b == 0
  | Fin v => ~ b == 0 /\
             v == spec_var (marks3 S (tabbase_in tv k vr KCat ms vc kc mc 0 j) A B) /\
             v == (np + nn) / b - ((np - nn) / b) * ((np - nn) / b) /\ 0 <= v
  | Inf _ => False
  end.
Proof.
  exact (fun Ht Hc Hk Hwf Hkk Ha Hs Hna Hns Hd Hdn Hp Hj =>
    table_variance_inserted_row S tv vr vc kc ms mc k rsubs csubs kk dn
      Ht Hc Hk Hwf Hkk Ha Hs Hna Hns Hd Hdn Hp j Hj).
Qed.
Print Assumptions C11_survey_inserted_row_table_variance.

(* Non-vacuity: six respondents; rows categorical (4th category missing), columns categorical;
   the DIFFERENCE (rows 0 + 2) - (row 1).  Column 0: base 3 (weights 1, 3/2, 1/2), Np = 3/2, Nn = 3/2:
   p = 0, variance (3/2 + 3/2)/3 - 0 = 1 *)
Example C11_survey_inserted_row_example :
  let S := [ mkResp [ACat 0; ACat 0] 1; mkResp [ACat 1; ACat 0] (3 # 2); mkResp [ACat 2; ACat 1] 2;
             mkResp [ACat 2; ACat 0] (1 # 2); mkResp [ACat 3; ACat 0] 4; mkResp [ACat 0; ACat 1] 1 ] in
  let ms := [false; false; false; true] in
  let mc := [false; false] in
  let rsubs := [mkSub [0%nat; 2%nat] [1%nat]] in
  let s := nth 0 rsubs nosub in
  t_ok None /\ cat_or_mr KCat /\ (0 < t_n None)%nat /\ wf_survey S /\ (0 < length rsubs)%nat /\
  Forall (fun i => (i < n_valid ms)%nat) (s_add s) /\ Forall (fun i => (i < n_valid ms)%nat) (s_sub s) /\
  NoDup (s_add s) /\ NoDup (s_sub s) /\ (forall i, In i (s_add s) -> ~ In i (s_sub s)) /\
  false && has_subs s = false /\ (0 < n_valid ms)%nat /\ nval mc = 2%nat /\
  marks3 S (colbase_in None 0 0 KCat ms 1 KCat mc 0 0)
           (rows_in None 0 1 KCat ms mc 0 (s_add s) 0) (rows_in None 0 1 KCat ms mc 0 (s_sub s) 0)
    = [(1, Pos); (3 # 2, Neg); (1 # 2, Pos)] /\
  map xred (map (fun j => mnth (b_rows (variance_blocks (t_counts S None 0 KCat ms 1 KCat mc 0) 3%nat 2%nat rsubs []
                   (col_proportions 3%nat 2%nat rsubs [] (t_counts S None 0 KCat ms 1 KCat mc 0) false false false
                                    (t_cb S None 0 KCat ms 1 KCat mc 0))
                   (col_base_blocks 3%nat 2%nat rsubs [] (t_cb S None 0 KCat ms 1 KCat mc 0)))) 0%nat j) [0%nat; 1%nat])
    = [Fin 1; Fin 0] /\
  spec_var (marks3 S (colbase_in None 0 0 KCat ms 1 KCat mc 0 0)
              (rows_in None 0 1 KCat ms mc 0 (s_add s) 0) (rows_in None 0 1 KCat ms mc 0 (s_sub s) 0)) == 1.
Proof.
  cbv zeta.
  assert (Hd : forall i, In i [0%nat; 2%nat] -> ~ In i [1%nat]).
  { intros i [<-|[<-|[]]] [H|[]]; discriminate H. }
  repeat split; try (left; reflexivity); try lia; try (repeat constructor; discriminate);
    try (repeat constructor; vm_compute; lia); try exact Hd;
    try (constructor; [simpl; intuition lia| constructor; [simpl; tauto| constructor]]);
    try (constructor; [simpl; tauto| constructor]);
    try (vm_compute; reflexivity); try (vm_compute; discriminate).
Qed.

(* ---- END TO END, strands (Proofs/ComposeStrand.v, ComposeStrandVariance.v) ---------------------
   [st_cat_var S v ms] / [st_mr_var S v ms] = strand_var_base of the strand's table proportions
   computed from the tabulated survey (what strand_counts extracts from the payload:
   Props/C03.v::C03_survey_strand_from_payload).  Base row i: the weighted variance of "is in
   category i" over the respondents with a valid category (MR: of "selected item i" over those for
   whom item i is not missing); non-negative; NaN exactly when that base is empty *)
From CC Require Import Proofs.ComposeStrand Proofs.ComposeStrandVariance Proofs.VarianceProofs.

Theorem C11_survey_strand_variance S v ms i : wf_survey S -> (i < nval ms)%nat ->
  match vnth (st_cat_var S v ms) i with
  | NaN => wsum S (fun r => ok_cat ms (ans r v)) == 0
  | Fin x => ~ wsum S (fun r => ok_cat ms (ans r v)) == 0 /\
             x == spec_var (marks S (fun r => ok_cat ms (ans r v)) (fun r => in_cat ms (ans r v) i)) /\
             0 <= x
  | Inf _ => False
  end /\
  match vnth (st_mr_var S v ms) i with
  | NaN => wsum S (fun r => ok_mr ms (ans r v) i) == 0
  | Fin x => ~ wsum S (fun r => ok_mr ms (ans r v) i) == 0 /\
             x == spec_var (marks S (fun r => ok_mr ms (ans r v) i) (fun r => in_mr ms (ans r v) i)) /\
             0 <= x
  | Inf _ => False
  end.
Proof.
  exact (fun Hwf Hi => conj (strand_cat_variance_survey S v ms Hwf i Hi)
                            (strand_mr_variance_survey S v ms Hwf i Hi)).
Qed.
Print Assumptions C11_survey_strand_variance.

Theorem C11_survey_strand_variance_def S v ms :
  st_cat_var S v ms = strand_var_base (st_cat_props S v ms) /\
  st_mr_var S v ms = strand_var_base (st_mr_props S v ms).
Proof. exact (conj eq_refl eq_refl). Qed.
Print Assumptions C11_survey_strand_variance_def.

Example C11_survey_strand_example :
  let S := [ mkResp [ACat 0; AMr [Sel; Oth]] (3 # 2); mkResp [ACat 2; AMr [Sel; Mis]] 2;
             mkResp [ACat 1; AMr [Sel; Sel]] 5; mkResp [ACat 2; AMr [Oth; Sel]] (1 # 4);
             mkResp [ACat 0; AMr [Oth; Oth]] 1 ] in
  let mr := [false; true; false; false] in
  wf_survey S /\ nval mr = 3%nat /\
  map xred (st_cat_var S 0 mr) = [Fin (90 # 361); Fin (90 # 361); Fin 0] /\
  spec_var (marks S (fun r => ok_cat mr (ans r 0)) (fun r => in_cat mr (ans r 0) 0)) == 90 # 361 /\
  map xred (st_mr_var S 1 [false; false]) = [Fin (170 # 1521); Fin (210 # 961)].
Proof.
  cbv zeta. repeat split; try lia; try (repeat constructor; discriminate); vm_compute; reflexivity.
Qed.

(* ==== GenAgree (measures): what matrix/measure.py, stripe/measure.py, cubepart.py SAY NOW ==== *)
(* Gen/MeasureSrc.v, Gen/StripeMeasureSrc.v, Gen/PartMeasureSrc.v are REWRITTEN FROM THE SOURCE on every
   check by harness/translate/measures.py (an `ast` whitelist, fail-closed): one [option mexp] per
   (class, member) -- per block for a `blocks` member -- read through the wiring of the collection class.
   The theorems below say that what the source SAYS NOW ([meval] / the signed-square reading [meval_sq] of
   the translated term, Base/MeasureExp.v), for ALL input blocks, sizes and subtotal lists, IS the
   definition of Model.Variance the theorems above are about -- tagged shape and every in-range cell.
   [None] on the left = the translator could not read the member (then only the correspondence ties it).
   A change of meaning in the source breaks these obligations (Proofs/GenAgreeVariance.v fails). *)
From Coq Require String.
From CC Require Base.MeasureExp Model.Subtotals Model.Proportions Gen.MeasureSrc Gen.StripeMeasureSrc Gen.PartMeasureSrc Gen.Tables
     Proofs.GenAgreeMeasTac Proofs.GenAgreeVariance.
Section GenAgreeMeasures_C11.   (* scopes and imports below end with the section *)
Import Coq.Strings.String CC.Base.MeasureExp CC.Model.Subtotals CC.Model.Proportions CC.Gen.MeasureSrc CC.Gen.StripeMeasureSrc
       CC.Gen.PartMeasureSrc CC.Gen.Tables CC.Proofs.GenAgreeMeasTac CC.Proofs.GenAgreeVariance.
Import Coq.Lists.List.ListNotations CC.Base.XQ.
Local Close Scope Q_scope.
Local Open Scope string_scope.
Local Open Scope nat_scope.

Theorem C11_gen_row_proportion_variances :
  (match src_RowProportionVariances_blocks_00 with
  | Some e => forall nr nc rsubs csubs rd cd blk cubem cubeflag flag,
      holds_mat (menv_mat nr nc rsubs csubs rd cd blk cubem cubeflag flag) e DR DC
        (mnth (b_base (var_model nr nc rsubs csubs blk cubem "row_proportions" "row_weighted_bases")))
  | None => True
  end) /\
  (match src_RowProportionVariances_blocks_01 with
  | Some e => forall nr nc rsubs csubs rd cd blk cubem cubeflag flag,
      holds_mat (menv_mat nr nc rsubs csubs rd cd blk cubem cubeflag flag) e DR DCS
        (mnth (b_cols (var_model nr nc rsubs csubs blk cubem "row_proportions" "row_weighted_bases")))
  | None => True
  end) /\
  (match src_RowProportionVariances_blocks_10 with
  | Some e => forall nr nc rsubs csubs rd cd blk cubem cubeflag flag,
      holds_mat (menv_mat nr nc rsubs csubs rd cd blk cubem cubeflag flag) e DRS DC
        (mnth (b_rows (var_model nr nc rsubs csubs blk cubem "row_proportions" "row_weighted_bases")))
  | None => True
  end) /\
  (match src_RowProportionVariances_blocks_11 with
  | Some e => forall nr nc rsubs csubs rd cd blk cubem cubeflag flag,
      holds_mat (menv_mat nr nc rsubs csubs rd cd blk cubem cubeflag flag) e DRS DCS
        (mnth (b_inter (var_model nr nc rsubs csubs blk cubem "row_proportions" "row_weighted_bases")))
  | None => True
  end).
Proof. exact (conj gen_RowProportionVariances_blocks_00 (conj gen_RowProportionVariances_blocks_01 (conj gen_RowProportionVariances_blocks_10 gen_RowProportionVariances_blocks_11))). Qed.
Print Assumptions C11_gen_row_proportion_variances.

Theorem C11_gen_column_proportion_variances :
  (match src_ColumnProportionVariances_blocks_00 with
  | Some e => forall nr nc rsubs csubs rd cd blk cubem cubeflag flag,
      holds_mat (menv_mat nr nc rsubs csubs rd cd blk cubem cubeflag flag) e DR DC
        (mnth (b_base (var_model nr nc rsubs csubs blk cubem "column_proportions" "column_weighted_bases")))
  | None => True
  end) /\
  (match src_ColumnProportionVariances_blocks_01 with
  | Some e => forall nr nc rsubs csubs rd cd blk cubem cubeflag flag,
      holds_mat (menv_mat nr nc rsubs csubs rd cd blk cubem cubeflag flag) e DR DCS
        (mnth (b_cols (var_model nr nc rsubs csubs blk cubem "column_proportions" "column_weighted_bases")))
  | None => True
  end) /\
  (match src_ColumnProportionVariances_blocks_10 with
  | Some e => forall nr nc rsubs csubs rd cd blk cubem cubeflag flag,
      holds_mat (menv_mat nr nc rsubs csubs rd cd blk cubem cubeflag flag) e DRS DC
        (mnth (b_rows (var_model nr nc rsubs csubs blk cubem "column_proportions" "column_weighted_bases")))
  | None => True
  end) /\
  (match src_ColumnProportionVariances_blocks_11 with
  | Some e => forall nr nc rsubs csubs rd cd blk cubem cubeflag flag,
      holds_mat (menv_mat nr nc rsubs csubs rd cd blk cubem cubeflag flag) e DRS DCS
        (mnth (b_inter (var_model nr nc rsubs csubs blk cubem "column_proportions" "column_weighted_bases")))
  | None => True
  end).
Proof. exact (conj gen_ColumnProportionVariances_blocks_00 (conj gen_ColumnProportionVariances_blocks_01 (conj gen_ColumnProportionVariances_blocks_10 gen_ColumnProportionVariances_blocks_11))). Qed.
Print Assumptions C11_gen_column_proportion_variances.

Theorem C11_gen_table_proportion_variances :
  (match src_TableProportionVariances_blocks_00 with
  | Some e => forall nr nc rsubs csubs rd cd blk cubem cubeflag flag,
      holds_mat (menv_mat nr nc rsubs csubs rd cd blk cubem cubeflag flag) e DR DC
        (mnth (b_base (var_model nr nc rsubs csubs blk cubem "table_proportions" "table_weighted_bases")))
  | None => True
  end) /\
  (match src_TableProportionVariances_blocks_01 with
  | Some e => forall nr nc rsubs csubs rd cd blk cubem cubeflag flag,
      holds_mat (menv_mat nr nc rsubs csubs rd cd blk cubem cubeflag flag) e DR DCS
        (mnth (b_cols (var_model nr nc rsubs csubs blk cubem "table_proportions" "table_weighted_bases")))
  | None => True
  end) /\
  (match src_TableProportionVariances_blocks_10 with
  | Some e => forall nr nc rsubs csubs rd cd blk cubem cubeflag flag,
      holds_mat (menv_mat nr nc rsubs csubs rd cd blk cubem cubeflag flag) e DRS DC
        (mnth (b_rows (var_model nr nc rsubs csubs blk cubem "table_proportions" "table_weighted_bases")))
  | None => True
  end) /\
  (match src_TableProportionVariances_blocks_11 with
  | Some e => forall nr nc rsubs csubs rd cd blk cubem cubeflag flag,
      holds_mat (menv_mat nr nc rsubs csubs rd cd blk cubem cubeflag flag) e DRS DCS
        (mnth (b_inter (var_model nr nc rsubs csubs blk cubem "table_proportions" "table_weighted_bases")))
  | None => True
  end).
Proof. exact (conj gen_TableProportionVariances_blocks_00 (conj gen_TableProportionVariances_blocks_01 (conj gen_TableProportionVariances_blocks_10 gen_TableProportionVariances_blocks_11))). Qed.
Print Assumptions C11_gen_table_proportion_variances.

Theorem C11_gen_row_std_err :
  (match src_RowStandardError_blocks_00 with
  | Some e => forall nr nc rsubs csubs rd cd blk cubem cubeflag flag,
      holds_mat_sq (menv_mat nr nc rsubs csubs rd cd blk cubem cubeflag flag) e DR DC
        (se_model blk "row_proportion_variances" "row_weighted_bases" 0 0)
  | None => True
  end) /\
  (match src_RowStandardError_blocks_01 with
  | Some e => forall nr nc rsubs csubs rd cd blk cubem cubeflag flag,
      holds_mat_sq (menv_mat nr nc rsubs csubs rd cd blk cubem cubeflag flag) e DR DCS
        (se_model blk "row_proportion_variances" "row_weighted_bases" 0 1)
  | None => True
  end) /\
  (match src_RowStandardError_blocks_10 with
  | Some e => forall nr nc rsubs csubs rd cd blk cubem cubeflag flag,
      holds_mat_sq (menv_mat nr nc rsubs csubs rd cd blk cubem cubeflag flag) e DRS DC
        (se_model blk "row_proportion_variances" "row_weighted_bases" 1 0)
  | None => True
  end) /\
  (match src_RowStandardError_blocks_11 with
  | Some e => forall nr nc rsubs csubs rd cd blk cubem cubeflag flag,
      holds_mat_sq (menv_mat nr nc rsubs csubs rd cd blk cubem cubeflag flag) e DRS DCS
        (se_model blk "row_proportion_variances" "row_weighted_bases" 1 1)
  | None => True
  end).
Proof. exact (conj gen_RowStandardError_blocks_00 (conj gen_RowStandardError_blocks_01 (conj gen_RowStandardError_blocks_10 gen_RowStandardError_blocks_11))). Qed.
Print Assumptions C11_gen_row_std_err.

Theorem C11_gen_column_std_err :
  (match src_ColumnStandardError_blocks_00 with
  | Some e => forall nr nc rsubs csubs rd cd blk cubem cubeflag flag,
      holds_mat_sq (menv_mat nr nc rsubs csubs rd cd blk cubem cubeflag flag) e DR DC
        (se_model blk "column_proportion_variances" "column_weighted_bases" 0 0)
  | None => True
  end) /\
  (match src_ColumnStandardError_blocks_01 with
  | Some e => forall nr nc rsubs csubs rd cd blk cubem cubeflag flag,
      holds_mat_sq (menv_mat nr nc rsubs csubs rd cd blk cubem cubeflag flag) e DR DCS
        (se_model blk "column_proportion_variances" "column_weighted_bases" 0 1)
  | None => True
  end) /\
  (match src_ColumnStandardError_blocks_10 with
  | Some e => forall nr nc rsubs csubs rd cd blk cubem cubeflag flag,
      holds_mat_sq (menv_mat nr nc rsubs csubs rd cd blk cubem cubeflag flag) e DRS DC
        (se_model blk "column_proportion_variances" "column_weighted_bases" 1 0)
  | None => True
  end) /\
  (match src_ColumnStandardError_blocks_11 with
  | Some e => forall nr nc rsubs csubs rd cd blk cubem cubeflag flag,
      holds_mat_sq (menv_mat nr nc rsubs csubs rd cd blk cubem cubeflag flag) e DRS DCS
        (se_model blk "column_proportion_variances" "column_weighted_bases" 1 1)
  | None => True
  end).
Proof. exact (conj gen_ColumnStandardError_blocks_00 (conj gen_ColumnStandardError_blocks_01 (conj gen_ColumnStandardError_blocks_10 gen_ColumnStandardError_blocks_11))). Qed.
Print Assumptions C11_gen_column_std_err.

Theorem C11_gen_table_std_err :
  (match src_TableStandardError_blocks_00 with
  | Some e => forall nr nc rsubs csubs rd cd blk cubem cubeflag flag,
      holds_mat_sq (menv_mat nr nc rsubs csubs rd cd blk cubem cubeflag flag) e DR DC
        (se_model blk "table_proportion_variances" "table_weighted_bases" 0 0)
  | None => True
  end) /\
  (match src_TableStandardError_blocks_01 with
  | Some e => forall nr nc rsubs csubs rd cd blk cubem cubeflag flag,
      holds_mat_sq (menv_mat nr nc rsubs csubs rd cd blk cubem cubeflag flag) e DR DCS
        (se_model blk "table_proportion_variances" "table_weighted_bases" 0 1)
  | None => True
  end) /\
  (match src_TableStandardError_blocks_10 with
  | Some e => forall nr nc rsubs csubs rd cd blk cubem cubeflag flag,
      holds_mat_sq (menv_mat nr nc rsubs csubs rd cd blk cubem cubeflag flag) e DRS DC
        (se_model blk "table_proportion_variances" "table_weighted_bases" 1 0)
  | None => True
  end) /\
  (match src_TableStandardError_blocks_11 with
  | Some e => forall nr nc rsubs csubs rd cd blk cubem cubeflag flag,
      holds_mat_sq (menv_mat nr nc rsubs csubs rd cd blk cubem cubeflag flag) e DRS DCS
        (se_model blk "table_proportion_variances" "table_weighted_bases" 1 1)
  | None => True
  end).
Proof. exact (conj gen_TableStandardError_blocks_00 (conj gen_TableStandardError_blocks_01 (conj gen_TableStandardError_blocks_10 gen_TableStandardError_blocks_11))). Qed.
Print Assumptions C11_gen_table_std_err.

Theorem C11_gen_strand_variances :
  (match ssrc_TableProportionVariances_base_values with
  | Some e => forall subs rd vblk,
      holds_vec (senv_std (List.length (vblk "table_proportions" 0)) subs rd vblk no_cube) e DR
        (vnth (strand_var_base (vblk "table_proportions" 0)))
  | None => True
  end) /\
  (match ssrc_TableProportionVariances_subtotal_values with
  | Some e => forall n subs rd vblk,
      holds_vec (senv_std n subs rd vblk no_cube) e DRS
        (vnth (strand_var_subtotals (vblk "weighted_counts" 0) subs
                 (vblk "table_proportions" 1) (vblk "weighted_bases" 1)))
  | None => True
  end).
Proof. exact (conj gen_stripe_TableProportionVariances_base_values gen_stripe_TableProportionVariances_subtotal_values). Qed.
Print Assumptions C11_gen_strand_variances.

Theorem C11_gen_strand_stddevs :
  (match ssrc_TableProportionStddevs_base_values with
  | Some e => forall n subs rd vblk,
      holds_vec_sq (senv_std n subs rd vblk no_cube) e DR
        (fun i => sqrt_guard (vnth (vblk "table_proportion_variances" 0) i))
  | None => True
  end) /\
  (match ssrc_TableProportionStddevs_subtotal_values with
  | Some e => forall n subs rd vblk,
      holds_vec_sq (senv_std n subs rd vblk no_cube) e DRS
        (fun i => sqrt_guard (vnth (vblk "table_proportion_variances" 1) i))
  | None => True
  end).
Proof. exact (conj gen_stripe_TableProportionStddevs_base_values gen_stripe_TableProportionStddevs_subtotal_values). Qed.
Print Assumptions C11_gen_strand_stddevs.

Theorem C11_gen_strand_stderrs :
  (match ssrc_TableProportionStderrs_base_values with
  | Some e => forall n subs rd vblk,
      holds_vec_sq (senv_std n subs rd vblk no_cube) e DR
        (fun i => sqrt_guard (stderr_sq (vnth (vblk "table_proportion_variances" 0) i)
                                        (vnth (vblk "weighted_bases" 0) i)))
  | None => True
  end) /\
  (match ssrc_TableProportionStderrs_subtotal_values with
  | Some e => forall n subs rd vblk,
      holds_vec_sq (senv_std n subs rd vblk no_cube) e DRS
        (fun i => sqrt_guard (stderr_sq (vnth (vblk "table_proportion_variances" 1) i)
                                        (vnth (vblk "weighted_bases" 1) i)))
  | None => True
  end).
Proof. exact (conj gen_stripe_TableProportionStderrs_base_values gen_stripe_TableProportionStderrs_subtotal_values). Qed.
Print Assumptions C11_gen_strand_stderrs.

Theorem C11_gen_margins_of_error :
  (match psrc_Slice_row_proportions_moe, tbl_Z_975 with
  | Some e, Some z => forall nr nc se,
      holds_mat_sq (penv_std nr nc (part_names z) no_scalar (part_mat "row_std_err" se)) e DR DC
        (fun i j => moe_sq (ssq (mnth se i j)))
  | _, _ => True
  end) /\
  (match psrc_Slice_column_proportions_moe, tbl_Z_975 with
  | Some e, Some z => forall nr nc se,
      holds_mat_sq (penv_std nr nc (part_names z) no_scalar (part_mat "column_std_err" se)) e DR DC
        (fun i j => moe_sq (ssq (mnth se i j)))
  | _, _ => True
  end) /\
  (match psrc_Slice_table_proportions_moe, tbl_Z_975 with
  | Some e, Some z => forall nr nc se,
      holds_mat_sq (penv_std nr nc (part_names z) no_scalar (part_mat "table_std_err" se)) e DR DC
        (fun i j => moe_sq (ssq (mnth se i j)))
  | _, _ => True
  end) /\
  (match psrc_Strand_table_proportion_moes, tbl_Z_975 with
  | Some e, Some z => forall n se,
      holds_vec_sq (penv_std n 0 (part_names z) no_scalar (part_vec "table_proportion_stderrs" se)) e DR
        (fun i => moe_sq (ssq (vnth se i)))
  | _, _ => True
  end).
Proof. exact (conj gen_Slice_row_proportions_moe (conj gen_Slice_column_proportions_moe (conj gen_Slice_table_proportions_moe gen_Strand_table_proportion_moes))). Qed.
Print Assumptions C11_gen_margins_of_error.

(* non-vacuity: variance 3/16 on base 4: the translated row standard error has square 3/64 *)
Example C11_gen_example :
  match src_RowStandardError_blocks_00 with
  | Some e =>
      let blk := fun (m : string) (_ _ : nat) =>
        if String.eqb m "row_proportion_variances" then [[Fin (Qmake 3 16)]] else [[Fin 4%Q]] in
      match meval_sq (menv_mat 1 1 [] [] false false blk (fun _ _ => []) (fun _ _ => false) (fun _ => false)) e with
      | VMat DR DC f => f 0 0 =x= Fin (Qmake 3 64)
      | _ => False
      end
  | None => True
  end.
Proof. vm_compute. first [exact I | reflexivity]. Qed.

End GenAgreeMeasures_C11.

(* ==== GenAgree (subtotal strategies): what matrix/subtotals.py and stripe/insertion.py SAY NOW ==== *)
(* Appended by work/translator3 (statements generated from the lemmas of Proofs/GenAgreeSubtotalsTerms.v by
   work/translator3/gen_lemmas.py).  Gen/SubtotalsSrc.v / Gen/StripeInsertionSrc.v are rewritten from the
   source on every check; [seval] (Base/SubtotalExp.v) is the meaning of a translated member;
   [None] = the translator could not read the member (tied by the correspondence only). *)
From Coq Require String.
From CC Require Base.SubtotalExp Base.MeasureExp Model.Subtotals Model.Proportions Model.Variance
     Gen.SubtotalsSrc Gen.StripeInsertionSrc Proofs.GenAgreeMeasTac Proofs.GenAgreeSubTac Proofs.GenAgreeSubtotalsTerms.
Section GenAgreeSubtotals_C11.   (* scopes and imports below end with the section *)
Import Coq.Strings.String CC.Base.SubtotalExp CC.Base.MeasureExp CC.Model.Subtotals CC.Model.Proportions
       CC.Model.Variance CC.Gen.SubtotalsSrc CC.Gen.StripeInsertionSrc CC.Proofs.GenAgreeMeasTac
       CC.Proofs.GenAgreeSubTac CC.Proofs.GenAgreeSubtotalsTerms.
Import Coq.Lists.List.ListNotations CC.Base.XQ CC.Base.ListX.
Local Close Scope Q_scope.
Local Open Scope string_scope.
Local Open Scope nat_scope.

(* matrix PositiveTermSubtotals = [pos_blocks] (Model/Variance.v) = [strat_std .. 1 ..] *)
Theorem C11_gen_PositiveTermSubtotals :
  (match src_PositiveTermSubtotals__subtotal_column with
  | Some e => forall base nr nc rsubs csubs s,
      sub_in nc s ->
      sagrees_vec (seval (senv_sum base nr nc false false rsubs csubs s s) e) nr (fun i => sum_cols base i (s_add s))
  | None => True
  end) /\
  (match src_PositiveTermSubtotals__subtotal_row with
  | Some e => forall base nr nc rsubs csubs s,
      sub_in nr s ->
      sagrees_vec (seval (senv_sum base nr nc false false rsubs csubs s s) e) nc (pos_row base s)
  | None => True
  end) /\
  (match src_PositiveTermSubtotals__intersection with
  | Some e => forall base nr nc rsubs csubs rs cs,
      sub_in nr rs ->
      sub_in nc cs ->
      sagrees_scal (seval (senv_sum base nr nc false false rsubs csubs rs cs) e) (if has_subs cs && has_subs rs then NaN else xsum (map (pos_row base rs) (s_add cs)))
  | None => True
  end) /\
  (match src_PositiveTermSubtotals__subtotal_columns with
  | Some e => forall base nr nc rsubs csubs,
      subs_in nc csubs ->
      sagrees_mat (seval (senv_sum base nr nc false false rsubs csubs nosub nosub) e) nr (List.length csubs) (mnth (b_cols (pos_blocks base nr nc rsubs csubs)))
  | None => True
  end) /\
  (match src_PositiveTermSubtotals__subtotal_rows with
  | Some e => forall base nr nc rsubs csubs,
      subs_in nr rsubs ->
      sagrees_mat (seval (senv_sum base nr nc false false rsubs csubs nosub nosub) e) (List.length rsubs) nc (mnth (b_rows (pos_blocks base nr nc rsubs csubs)))
  | None => True
  end) /\
  (match src_PositiveTermSubtotals__intersections with
  | Some e => forall base nr nc rsubs csubs,
      subs_in nr rsubs ->
      subs_in nc csubs ->
      sagrees_mat (seval (senv_sum base nr nc false false rsubs csubs nosub nosub) e) (List.length rsubs) (List.length csubs) (mnth (b_inter (pos_blocks base nr nc rsubs csubs)))
  | None => True
  end) /\
  (match src_PositiveTermSubtotals__blocks_00 with
  | Some e => forall base nr nc rsubs csubs,
      sagrees_mat (seval (senv_sum base nr nc false false rsubs csubs nosub nosub) e) nr nc (mnth (b_base (pos_blocks base nr nc rsubs csubs)))
  | None => True
  end) /\
  (match src_PositiveTermSubtotals__blocks_01 with
  | Some e => forall base nr nc rsubs csubs,
      subs_in nc csubs ->
      sagrees_mat (seval (senv_sum base nr nc false false rsubs csubs nosub nosub) e) nr (List.length csubs) (mnth (b_cols (pos_blocks base nr nc rsubs csubs)))
  | None => True
  end) /\
  (match src_PositiveTermSubtotals__blocks_10 with
  | Some e => forall base nr nc rsubs csubs,
      subs_in nr rsubs ->
      sagrees_mat (seval (senv_sum base nr nc false false rsubs csubs nosub nosub) e) (List.length rsubs) nc (mnth (b_rows (pos_blocks base nr nc rsubs csubs)))
  | None => True
  end) /\
  (match src_PositiveTermSubtotals__blocks_11 with
  | Some e => forall base nr nc rsubs csubs,
      subs_in nr rsubs ->
      subs_in nc csubs ->
      sagrees_mat (seval (senv_sum base nr nc false false rsubs csubs nosub nosub) e) (List.length rsubs) (List.length csubs) (mnth (b_inter (pos_blocks base nr nc rsubs csubs)))
  | None => True
  end) /\
  (match src_PositiveTermSubtotals_blocks_00 with
  | Some e => forall cubem nr nc rsubs csubs c a,
      sagrees_mat (seval (senv_sum (cubem c a) nr nc false false rsubs csubs nosub nosub) e) nr nc (strat_std cubem nr nc rsubs csubs 1 false false c a 0 0)
  | None => True
  end) /\
  (match src_PositiveTermSubtotals_blocks_01 with
  | Some e => forall cubem nr nc rsubs csubs c a,
      subs_in nc csubs ->
      sagrees_mat (seval (senv_sum (cubem c a) nr nc false false rsubs csubs nosub nosub) e) nr (List.length csubs) (strat_std cubem nr nc rsubs csubs 1 false false c a 0 1)
  | None => True
  end) /\
  (match src_PositiveTermSubtotals_blocks_10 with
  | Some e => forall cubem nr nc rsubs csubs c a,
      subs_in nr rsubs ->
      sagrees_mat (seval (senv_sum (cubem c a) nr nc false false rsubs csubs nosub nosub) e) (List.length rsubs) nc (strat_std cubem nr nc rsubs csubs 1 false false c a 1 0)
  | None => True
  end) /\
  (match src_PositiveTermSubtotals_blocks_11 with
  | Some e => forall cubem nr nc rsubs csubs c a,
      subs_in nr rsubs ->
      subs_in nc csubs ->
      sagrees_mat (seval (senv_sum (cubem c a) nr nc false false rsubs csubs nosub nosub) e) (List.length rsubs) (List.length csubs) (strat_std cubem nr nc rsubs csubs 1 false false c a 1 1)
  | None => True
  end).
Proof. exact (conj gen_PositiveTermSubtotals__subtotal_column (conj gen_PositiveTermSubtotals__subtotal_row (conj gen_PositiveTermSubtotals__intersection (conj gen_PositiveTermSubtotals__subtotal_columns (conj gen_PositiveTermSubtotals__subtotal_rows (conj gen_PositiveTermSubtotals__intersections (conj gen_PositiveTermSubtotals__blocks_00 (conj gen_PositiveTermSubtotals__blocks_01 (conj gen_PositiveTermSubtotals__blocks_10 (conj gen_PositiveTermSubtotals__blocks_11 (conj gen_PositiveTermSubtotals_blocks_00 (conj gen_PositiveTermSubtotals_blocks_01 (conj gen_PositiveTermSubtotals_blocks_10 (gen_PositiveTermSubtotals_blocks_11)))))))))))))). Qed.
Print Assumptions C11_gen_PositiveTermSubtotals.

(* matrix NegativeTermSubtotals = [neg_blocks] (base block all 0) = [strat_std .. 2 ..] *)
Theorem C11_gen_NegativeTermSubtotals :
  (match src_NegativeTermSubtotals__subtotal_column with
  | Some e => forall base nr nc rsubs csubs s,
      sub_in nc s ->
      sagrees_vec (seval (senv_sum base nr nc false false rsubs csubs s s) e) nr (fun i => sum_cols base i (s_sub s))
  | None => True
  end) /\
  (match src_NegativeTermSubtotals__subtotal_row with
  | Some e => forall base nr nc rsubs csubs s,
      sub_in nr s ->
      sagrees_vec (seval (senv_sum base nr nc false false rsubs csubs s s) e) nc (fun j => sum_rows base (s_sub s) j)
  | None => True
  end) /\
  (match src_NegativeTermSubtotals__intersection with
  | Some e => forall base nr nc rsubs csubs rs cs,
      sub_in nr rs ->
      sub_in nc cs ->
      sagrees_scal (seval (senv_sum base nr nc false false rsubs csubs rs cs) e) (if has_subs cs && has_subs rs then NaN else if has_subs cs then xsum (map (fun c => sum_rows base (s_add rs) c) (s_sub cs)) else if has_subs rs then xsum (map (fun r => sum_cols base r (s_add cs)) (s_sub rs)) else Fin 0)
  | None => True
  end) /\
  (match src_NegativeTermSubtotals__subtotal_columns with
  | Some e => forall base nr nc rsubs csubs,
      subs_in nc csubs ->
      sagrees_mat (seval (senv_sum base nr nc false false rsubs csubs nosub nosub) e) nr (List.length csubs) (mnth (b_cols (neg_blocks base nr nc rsubs csubs)))
  | None => True
  end) /\
  (match src_NegativeTermSubtotals__subtotal_rows with
  | Some e => forall base nr nc rsubs csubs,
      subs_in nr rsubs ->
      sagrees_mat (seval (senv_sum base nr nc false false rsubs csubs nosub nosub) e) (List.length rsubs) nc (mnth (b_rows (neg_blocks base nr nc rsubs csubs)))
  | None => True
  end) /\
  (match src_NegativeTermSubtotals__intersections with
  | Some e => forall base nr nc rsubs csubs,
      subs_in nr rsubs ->
      subs_in nc csubs ->
      sagrees_mat (seval (senv_sum base nr nc false false rsubs csubs nosub nosub) e) (List.length rsubs) (List.length csubs) (mnth (b_inter (neg_blocks base nr nc rsubs csubs)))
  | None => True
  end) /\
  (match src_NegativeTermSubtotals__blocks_00 with
  | Some e => forall base nr nc rsubs csubs,
      sagrees_mat (seval (senv_sum base nr nc false false rsubs csubs nosub nosub) e) nr nc (mnth (b_base (neg_blocks base nr nc rsubs csubs)))
  | None => True
  end) /\
  (match src_NegativeTermSubtotals__blocks_01 with
  | Some e => forall base nr nc rsubs csubs,
      subs_in nc csubs ->
      sagrees_mat (seval (senv_sum base nr nc false false rsubs csubs nosub nosub) e) nr (List.length csubs) (mnth (b_cols (neg_blocks base nr nc rsubs csubs)))
  | None => True
  end) /\
  (match src_NegativeTermSubtotals__blocks_10 with
  | Some e => forall base nr nc rsubs csubs,
      subs_in nr rsubs ->
      sagrees_mat (seval (senv_sum base nr nc false false rsubs csubs nosub nosub) e) (List.length rsubs) nc (mnth (b_rows (neg_blocks base nr nc rsubs csubs)))
  | None => True
  end) /\
  (match src_NegativeTermSubtotals__blocks_11 with
  | Some e => forall base nr nc rsubs csubs,
      subs_in nr rsubs ->
      subs_in nc csubs ->
      sagrees_mat (seval (senv_sum base nr nc false false rsubs csubs nosub nosub) e) (List.length rsubs) (List.length csubs) (mnth (b_inter (neg_blocks base nr nc rsubs csubs)))
  | None => True
  end) /\
  (match src_NegativeTermSubtotals_blocks_00 with
  | Some e => forall cubem nr nc rsubs csubs c a,
      sagrees_mat (seval (senv_sum (cubem c a) nr nc false false rsubs csubs nosub nosub) e) nr nc (strat_std cubem nr nc rsubs csubs 2 false false c a 0 0)
  | None => True
  end) /\
  (match src_NegativeTermSubtotals_blocks_01 with
  | Some e => forall cubem nr nc rsubs csubs c a,
      subs_in nc csubs ->
      sagrees_mat (seval (senv_sum (cubem c a) nr nc false false rsubs csubs nosub nosub) e) nr (List.length csubs) (strat_std cubem nr nc rsubs csubs 2 false false c a 0 1)
  | None => True
  end) /\
  (match src_NegativeTermSubtotals_blocks_10 with
  | Some e => forall cubem nr nc rsubs csubs c a,
      subs_in nr rsubs ->
      sagrees_mat (seval (senv_sum (cubem c a) nr nc false false rsubs csubs nosub nosub) e) (List.length rsubs) nc (strat_std cubem nr nc rsubs csubs 2 false false c a 1 0)
  | None => True
  end) /\
  (match src_NegativeTermSubtotals_blocks_11 with
  | Some e => forall cubem nr nc rsubs csubs c a,
      subs_in nr rsubs ->
      subs_in nc csubs ->
      sagrees_mat (seval (senv_sum (cubem c a) nr nc false false rsubs csubs nosub nosub) e) (List.length rsubs) (List.length csubs) (strat_std cubem nr nc rsubs csubs 2 false false c a 1 1)
  | None => True
  end).
Proof. exact (conj gen_NegativeTermSubtotals__subtotal_column (conj gen_NegativeTermSubtotals__subtotal_row (conj gen_NegativeTermSubtotals__intersection (conj gen_NegativeTermSubtotals__subtotal_columns (conj gen_NegativeTermSubtotals__subtotal_rows (conj gen_NegativeTermSubtotals__intersections (conj gen_NegativeTermSubtotals__blocks_00 (conj gen_NegativeTermSubtotals__blocks_01 (conj gen_NegativeTermSubtotals__blocks_10 (conj gen_NegativeTermSubtotals__blocks_11 (conj gen_NegativeTermSubtotals_blocks_00 (conj gen_NegativeTermSubtotals_blocks_01 (conj gen_NegativeTermSubtotals_blocks_10 (gen_NegativeTermSubtotals_blocks_11)))))))))))))). Qed.
Print Assumptions C11_gen_NegativeTermSubtotals.

(* stripe PositiveTermSubtotals / NegativeTermSubtotals = [vsum_idx] of the addends / subtrahends = [vstrat_std .. 1 / 2] *)
Theorem C11_gen_stripe_TermSubtotals :
  (match ssrc_PositiveTermSubtotals__subtotal_value with
  | Some e => forall base n subs s,
      sub_in n s ->
      sagrees_scal (seval (senv_ssum base n subs s) e) (vsum_idx base (s_add s))
  | None => True
  end) /\
  (match ssrc_PositiveTermSubtotals__subtotal_values with
  | Some e => forall base n subs,
      subs_in n subs ->
      sagrees_vec (seval (senv_ssum base n subs nosub) e) (List.length subs) (fun k => vsum_idx base (s_add (nth k subs nosub)))
  | None => True
  end) /\
  (match ssrc_PositiveTermSubtotals_subtotal_values with
  | Some e => forall base n subs,
      subs_in n subs ->
      sagrees_vec (seval (senv_ssum base n subs nosub) e) (List.length subs) (vstrat_std subs 1 (vnth base))
  | None => True
  end) /\
  (match ssrc_NegativeTermSubtotals__subtotal_value with
  | Some e => forall base n subs s,
      sub_in n s ->
      sagrees_scal (seval (senv_ssum base n subs s) e) (vsum_idx base (s_sub s))
  | None => True
  end) /\
  (match ssrc_NegativeTermSubtotals__subtotal_values with
  | Some e => forall base n subs,
      subs_in n subs ->
      sagrees_vec (seval (senv_ssum base n subs nosub) e) (List.length subs) (fun k => vsum_idx base (s_sub (nth k subs nosub)))
  | None => True
  end) /\
  (match ssrc_NegativeTermSubtotals_subtotal_values with
  | Some e => forall base n subs,
      subs_in n subs ->
      sagrees_vec (seval (senv_ssum base n subs nosub) e) (List.length subs) (vstrat_std subs 2 (vnth base))
  | None => True
  end).
Proof. exact (conj gen_stripe_PositiveTermSubtotals__subtotal_value (conj gen_stripe_PositiveTermSubtotals__subtotal_values (conj gen_stripe_PositiveTermSubtotals_subtotal_values (conj gen_stripe_NegativeTermSubtotals__subtotal_value (conj gen_stripe_NegativeTermSubtotals__subtotal_values (gen_stripe_NegativeTermSubtotals_subtotal_values)))))). Qed.
Print Assumptions C11_gen_stripe_TermSubtotals.

(* non-vacuity: counts [[1 2 3]], one column difference (0 + 2) - 1: the positive terms are 4,
   the negative terms 2 *)
Example C11_gen_sub_example :
  match src_PositiveTermSubtotals_blocks_01, src_NegativeTermSubtotals_blocks_01 with
  | Some p, Some n =>
      let E := senv_sum [[Fin 1%Q; Fin 2%Q; Fin 3%Q]] 1 3 false false [] [mkSub [0; 2] [1]] nosub nosub in
      match seval E p, seval E n with
      | SVM _ _ f, SVM _ _ g => f 0 0 =x= Fin 4%Q /\ g 0 0 =x= Fin 2%Q
      | _, _ => False
      end
  | _, _ => True
  end.
Proof. vm_compute. first [exact I | split; reflexivity]. Qed.

End GenAgreeSubtotals_C11.

(* ---- WIRING-APPENDIX:BEGIN (generated by tools/gen_wiring_props.py; do not edit) ---- *)
From CC Require Proofs.GenAgreeWiring_C11.
Section Wiring_C11.
Import Coq.Lists.List Coq.ZArith.ZArith Coq.Strings.String CC.Base.WiringExp CC.Gen.WiringSrc.
Import ListNotations.
Local Open Scope string_scope.

Theorem C11_wiring_Slice_column_proportions_moe :
  wsrc_Slice_column_proportions_moe = Some (WBin "*" (WGlobal "Z_975") (WSelf "column_std_err")).
Proof. exact Proofs.GenAgreeWiring_C11.gen_wiring_Slice_column_proportions_moe. Qed.
Print Assumptions C11_wiring_Slice_column_proportions_moe.

Theorem C11_wiring_Slice_column_proportion_variances :
  wsrc_Slice_column_proportion_variances = Some (w_matrix_of "column_proportion_variances").
Proof. exact Proofs.GenAgreeWiring_C11.gen_wiring_Slice_column_proportion_variances. Qed.
Print Assumptions C11_wiring_Slice_column_proportion_variances.

Theorem C11_wiring_Slice_column_std_dev :
  wsrc_Slice_column_std_dev = Some (WCall (WAttr (WGlobal "np") "sqrt") [WSelf
      "column_proportion_variances"] []).
Proof. exact Proofs.GenAgreeWiring_C11.gen_wiring_Slice_column_std_dev. Qed.
Print Assumptions C11_wiring_Slice_column_std_dev.

Theorem C11_wiring_Slice_column_std_err :
  wsrc_Slice_column_std_err = Some (w_matrix_of "column_std_err").
Proof. exact Proofs.GenAgreeWiring_C11.gen_wiring_Slice_column_std_err. Qed.
Print Assumptions C11_wiring_Slice_column_std_err.

Theorem C11_wiring_Slice_row_proportions_moe :
  wsrc_Slice_row_proportions_moe = Some (WBin "*" (WGlobal "Z_975") (WSelf "row_std_err")).
Proof. exact Proofs.GenAgreeWiring_C11.gen_wiring_Slice_row_proportions_moe. Qed.
Print Assumptions C11_wiring_Slice_row_proportions_moe.

Theorem C11_wiring_Slice_row_proportion_variances :
  wsrc_Slice_row_proportion_variances = Some (w_matrix_of "row_proportion_variances").
Proof. exact Proofs.GenAgreeWiring_C11.gen_wiring_Slice_row_proportion_variances. Qed.
Print Assumptions C11_wiring_Slice_row_proportion_variances.

Theorem C11_wiring_Slice_row_std_dev :
  wsrc_Slice_row_std_dev = Some (WCall (WAttr (WGlobal "np") "sqrt") [WSelf
      "row_proportion_variances"] []).
Proof. exact Proofs.GenAgreeWiring_C11.gen_wiring_Slice_row_std_dev. Qed.
Print Assumptions C11_wiring_Slice_row_std_dev.

Theorem C11_wiring_Slice_row_std_err :
  wsrc_Slice_row_std_err = Some (w_matrix_of "row_std_err").
Proof. exact Proofs.GenAgreeWiring_C11.gen_wiring_Slice_row_std_err. Qed.
Print Assumptions C11_wiring_Slice_row_std_err.

Theorem C11_wiring_Slice_table_proportions_moe :
  wsrc_Slice_table_proportions_moe = Some (WBin "*" (WGlobal "Z_975") (WSelf "table_std_err")).
Proof. exact Proofs.GenAgreeWiring_C11.gen_wiring_Slice_table_proportions_moe. Qed.
Print Assumptions C11_wiring_Slice_table_proportions_moe.

Theorem C11_wiring_Slice_table_proportion_variances :
  wsrc_Slice_table_proportion_variances = Some (w_matrix_of "table_proportion_variances").
Proof. exact Proofs.GenAgreeWiring_C11.gen_wiring_Slice_table_proportion_variances. Qed.
Print Assumptions C11_wiring_Slice_table_proportion_variances.

Theorem C11_wiring_Slice_table_std_dev :
  wsrc_Slice_table_std_dev = Some (WCall (WAttr (WGlobal "np") "sqrt") [WSelf
      "table_proportion_variances"] []).
Proof. exact Proofs.GenAgreeWiring_C11.gen_wiring_Slice_table_std_dev. Qed.
Print Assumptions C11_wiring_Slice_table_std_dev.

Theorem C11_wiring_Slice_table_std_err :
  wsrc_Slice_table_std_err = Some (w_matrix_of "table_std_err").
Proof. exact Proofs.GenAgreeWiring_C11.gen_wiring_Slice_table_std_err. Qed.
Print Assumptions C11_wiring_Slice_table_std_err.

Theorem C11_wiring_Strand_table_proportion_moes :
  wsrc_Strand_table_proportion_moes = Some (WBin "*" (WGlobal "Z_975") (WSelf
      "table_proportion_stderrs")).
Proof. exact Proofs.GenAgreeWiring_C11.gen_wiring_Strand_table_proportion_moes. Qed.
Print Assumptions C11_wiring_Strand_table_proportion_moes.

Theorem C11_wiring_Strand_table_proportion_stddevs :
  wsrc_Strand_table_proportion_stddevs = Some (w_vector_of "table_proportion_stddevs").
Proof. exact Proofs.GenAgreeWiring_C11.gen_wiring_Strand_table_proportion_stddevs. Qed.
Print Assumptions C11_wiring_Strand_table_proportion_stddevs.

Theorem C11_wiring_Strand_table_proportion_stderrs :
  wsrc_Strand_table_proportion_stderrs = Some (w_vector_of "table_proportion_stderrs").
Proof. exact Proofs.GenAgreeWiring_C11.gen_wiring_Strand_table_proportion_stderrs. Qed.
Print Assumptions C11_wiring_Strand_table_proportion_stderrs.

Theorem C11_wiring_SecondOrderMeasures_column_proportion_variances :
  wsrc_SecondOrderMeasures_column_proportion_variances = Some (WCall (WGlobal "_ProportionVariances")
      [WSelf "_dimensions"; WVar "self"; WSelf "_cube_measures"; WAttr (WSelf "column_proportions")
      "blocks"; WAttr (WSelf "column_weighted_bases") "blocks"] []).
Proof. exact Proofs.GenAgreeWiring_C11.gen_wiring_SecondOrderMeasures_column_proportion_variances. Qed.
Print Assumptions C11_wiring_SecondOrderMeasures_column_proportion_variances.

Theorem C11_wiring_SecondOrderMeasures_column_std_err :
  wsrc_SecondOrderMeasures_column_std_err = Some (WCall (WGlobal "_ColumnStandardError") [WSelf
      "_dimensions"; WVar "self"; WSelf "_cube_measures"] []).
Proof. exact Proofs.GenAgreeWiring_C11.gen_wiring_SecondOrderMeasures_column_std_err. Qed.
Print Assumptions C11_wiring_SecondOrderMeasures_column_std_err.

Theorem C11_wiring_SecondOrderMeasures_row_proportion_variances :
  wsrc_SecondOrderMeasures_row_proportion_variances = Some (WCall (WGlobal "_ProportionVariances")
      [WSelf "_dimensions"; WVar "self"; WSelf "_cube_measures"; WAttr (WSelf "row_proportions")
      "blocks"; WAttr (WSelf "row_weighted_bases") "blocks"] []).
Proof. exact Proofs.GenAgreeWiring_C11.gen_wiring_SecondOrderMeasures_row_proportion_variances. Qed.
Print Assumptions C11_wiring_SecondOrderMeasures_row_proportion_variances.

Theorem C11_wiring_SecondOrderMeasures_row_std_err :
  wsrc_SecondOrderMeasures_row_std_err = Some (WCall (WGlobal "_RowStandardError") [WSelf
      "_dimensions"; WVar "self"; WSelf "_cube_measures"] []).
Proof. exact Proofs.GenAgreeWiring_C11.gen_wiring_SecondOrderMeasures_row_std_err. Qed.
Print Assumptions C11_wiring_SecondOrderMeasures_row_std_err.

Theorem C11_wiring_SecondOrderMeasures_table_proportion_variances :
  wsrc_SecondOrderMeasures_table_proportion_variances = Some (WCall (WGlobal "_ProportionVariances")
      [WSelf "_dimensions"; WVar "self"; WSelf "_cube_measures"; WAttr (WSelf "table_proportions")
      "blocks"; WAttr (WSelf "table_weighted_bases") "blocks"] []).
Proof. exact Proofs.GenAgreeWiring_C11.gen_wiring_SecondOrderMeasures_table_proportion_variances. Qed.
Print Assumptions C11_wiring_SecondOrderMeasures_table_proportion_variances.

Theorem C11_wiring_SecondOrderMeasures_table_std_err :
  wsrc_SecondOrderMeasures_table_std_err = Some (WCall (WGlobal "_TableStandardError") [WSelf
      "_dimensions"; WVar "self"; WSelf "_cube_measures"] []).
Proof. exact Proofs.GenAgreeWiring_C11.gen_wiring_SecondOrderMeasures_table_std_err. Qed.
Print Assumptions C11_wiring_SecondOrderMeasures_table_std_err.

Theorem C11_wiring_StripeMeasures_table_proportion_stddevs :
  wsrc_StripeMeasures_table_proportion_stddevs = Some (WCall (WGlobal "_TableProportionStddevs")
      [WSelf "_rows_dimension"; WVar "self"; WSelf "_cube_measures"] []).
Proof. exact Proofs.GenAgreeWiring_C11.gen_wiring_StripeMeasures_table_proportion_stddevs. Qed.
Print Assumptions C11_wiring_StripeMeasures_table_proportion_stddevs.

Theorem C11_wiring_StripeMeasures_table_proportion_stderrs :
  wsrc_StripeMeasures_table_proportion_stderrs = Some (WCall (WGlobal "_TableProportionStderrs")
      [WSelf "_rows_dimension"; WVar "self"; WSelf "_cube_measures"] []).
Proof. exact Proofs.GenAgreeWiring_C11.gen_wiring_StripeMeasures_table_proportion_stderrs. Qed.
Print Assumptions C11_wiring_StripeMeasures_table_proportion_stderrs.

Theorem C11_wiring_StripeMeasures_table_proportion_variances :
  wsrc_StripeMeasures_table_proportion_variances = Some (WCall (WGlobal "_TableProportionVariances")
      [WSelf "_rows_dimension"; WVar "self"; WSelf "_cube_measures"] []).
Proof. exact Proofs.GenAgreeWiring_C11.gen_wiring_StripeMeasures_table_proportion_variances. Qed.
Print Assumptions C11_wiring_StripeMeasures_table_proportion_variances.

End Wiring_C11.
(* ---- WIRING-APPENDIX:END ---- *)

(*BEGIN ComposePublic_C11*)
(* ==== COMPOSED PUBLIC THEOREMS (DESIGN 8.1: the composition of the translators' links, proved) ==== *)
(* Generated by tools/gen_compose_appendix.py; do not edit between the markers.
   [public_slice C p] (Proofs/ComposePublicSem.v) is the value of the public member p of cubepart._Slice computed
   by the CHAIN OF GENERATED TERMS: the wiring term of p (Gen/WiringSrc.v, x_wiring) over the evaluation ([aeval]) of
   the generated `_assemble_matrix` term (Gen/AssembleSrc.v, x_assemble) over the evaluations ([meval] / [meval_sq] /
   [beval]) of the generated block terms of the measure (Gen/MeasureSrc.v, Gen/BasesSrc.v) -- each in the environment
   in which the blocks of the measures it mentions are again evaluations of generated terms -- on the context
   [Cs ..]: the four first-order arrays Model/CubeCounts.v::slice_counts extracts from the flat payload of
   `tabulate S` ([survey_payload]), any subtotals / flags, any pair of in-range signed display orders.
   [need b P] = P when every generated term named in b is available ([None] => True, like the GenAgree lemmas);
   Cxx_public_terms_available: on this tree they all are.  The proofs use the GenAgree lemmas of the links as they
   are (never unfolding a generated term) and Proofs/Compose*.v / Merge*.v for the last step to the respondents.
   A change of MEANING of any generated term of a chain breaks the composed theorem of every member above it. *)
From Coq Require String.
From CC Require Spec.Merge Model.Subtotals Model.Proportions Proofs.MergeSurvey Proofs.ComposeBase Proofs.ComposePayload
     Proofs.ComposePublicSem Proofs.ComposePublicLinks Proofs.ComposePublicSlice Proofs.ComposePublicCells Proofs.ComposeVariance Proofs.VarianceProofs Proofs.ComposePublicChain2 Proofs.ComposePublicC11.
Section ComposePublic_C11.   (* scopes and imports below end with the section *)
Import Coq.Strings.String Coq.ZArith.ZArith CC.Spec.Merge CC.Model.Subtotals CC.Model.Proportions CC.Proofs.MergeSurvey
       CC.Proofs.ComposeBase CC.Proofs.ComposePayload CC.Proofs.ComposePublicSem CC.Proofs.ComposePublicLinks
       CC.Proofs.ComposePublicSlice CC.Proofs.ComposePublicCells CC.Proofs.ComposeVariance CC.Proofs.VarianceProofs CC.Proofs.ComposePublicChain2 CC.Proofs.ComposePublicC11.
Import Coq.Lists.List.ListNotations.
Local Close Scope Q_scope.
Local Open Scope string_scope.
Local Open Scope nat_scope.


(* the vocabulary of the statements ([survey_display]: C03_public_vocabulary in Props/C03.v) *)
Theorem C11_public_vocabulary :
  (forall P ro co spec,
     base_cells_spec P ro co spec =
     (pshape P = Some (List.length ro, List.length co) /\
      forall i j, i < List.length ro -> j < List.length co -> (0 <= nth i ro 0%Z)%Z -> (0 <= nth j co 0%Z)%Z ->
        spec (Z.to_nat (nth i ro 0%Z)) (Z.to_nat (nth j co 0%Z)) (pcell P i j))) /\
  (forall bp S tv vr kr mr vc kc mc k r c x,
     var_cell_spec bp S tv vr kr mr vc kc mc k r c x =
     let l := marks S (bp tv k vr kr mr vc kc mc r c) (cell_in tv k vr kr mr vc kc mc r c) in
     let cnt := w_cell tv k vr kr mr vc kc mc S r c in
     let b := wsum S (bp tv k vr kr mr vc kc mc r c) in
     match x with
     | NaN => (b == 0)%Q
     | Fin v => ~ (b == 0)%Q /\ (v == spec_var l)%Q /\ (v == (cnt / b) * (1 - cnt / b))%Q /\ (0 <= v)%Q
     | Inf _ => False
     end) /\
  (forall bp S tv vr kr mr vc kc mc k r c x,
     se_cell_spec bp S tv vr kr mr vc kc mc k r c x =
     let l := marks S (bp tv k vr kr mr vc kc mc r c) (cell_in tv k vr kr mr vc kc mc r c) in
     let b := wsum S (bp tv k vr kr mr vc kc mc r c) in
     match x with
     | NaN => (b == 0)%Q
     | Fin s => ~ (b == 0)%Q /\ (s == spec_var l / b)%Q /\ (0 <= s)%Q
     | Inf _ => False
     end).
Proof. exact (conj (fun _ _ _ _ => eq_refl) (conj (fun _ _ _ _ _ _ _ _ _ _ _ _ _ => eq_refl)
                   (fun _ _ _ _ _ _ _ _ _ _ _ _ _ => eq_refl))). Qed.
Print Assumptions C11_public_vocabulary.

(* _Slice.row_proportion_variances at a display cell showing base row r, base column c: the spec variance of the membership indicator over the respondents of the row base; NaN iff that base is empty *)
Theorem C11_public_Slice_row_proportion_variances :
  need terms_public_row_variances
  (forall S tv vr kr mr vc kc mc k rsubs csubs dn rd cd flag ro co so,
     survey_display S tv vr kr mr vc kc mc k rsubs csubs ro co so ->
     base_cells_spec (public_slice (Cs mr mc rsubs csubs dn rd cd flag ro co so) "row_proportion_variances") ro co
       (var_cell_spec rowbase_in S tv vr kr mr vc kc mc k)).
Proof. exact compose_public_Slice_row_proportion_variances. Qed.
Print Assumptions C11_public_Slice_row_proportion_variances.

(* _Slice.column_proportion_variances at a display cell showing base row r, base column c: the spec variance of the membership indicator over the respondents of the column base; NaN iff that base is empty *)
Theorem C11_public_Slice_column_proportion_variances :
  need terms_public_column_variances
  (forall S tv vr kr mr vc kc mc k rsubs csubs dn rd cd flag ro co so,
     survey_display S tv vr kr mr vc kc mc k rsubs csubs ro co so ->
     base_cells_spec (public_slice (Cs mr mc rsubs csubs dn rd cd flag ro co so) "column_proportion_variances") ro co
       (var_cell_spec colbase_in S tv vr kr mr vc kc mc k)).
Proof. exact compose_public_Slice_column_proportion_variances. Qed.
Print Assumptions C11_public_Slice_column_proportion_variances.

(* _Slice.table_proportion_variances at a display cell showing base row r, base column c: the spec variance of the membership indicator over the respondents of the table base; NaN iff that base is empty *)
Theorem C11_public_Slice_table_proportion_variances :
  need terms_public_table_variances
  (forall S tv vr kr mr vc kc mc k rsubs csubs dn rd cd flag ro co so,
     survey_display S tv vr kr mr vc kc mc k rsubs csubs ro co so ->
     base_cells_spec (public_slice (Cs mr mc rsubs csubs dn rd cd flag ro co so) "table_proportion_variances") ro co
       (var_cell_spec tabbase_in S tv vr kr mr vc kc mc k)).
Proof. exact compose_public_Slice_table_proportion_variances. Qed.
Print Assumptions C11_public_Slice_table_proportion_variances.

(* _Slice.row_std_err, carried as its SIGNED SQUARE (np.sqrt is never evaluated): that variance over the weighted base *)
Theorem C11_public_Slice_row_std_err :
  need terms_public_row_std_err
  (forall S tv vr kr mr vc kc mc k rsubs csubs dn rd cd flag ro co so,
     survey_display S tv vr kr mr vc kc mc k rsubs csubs ro co so ->
     base_cells_spec (public_slice (Cs mr mc rsubs csubs dn rd cd flag ro co so) "row_std_err") ro co
       (se_cell_spec rowbase_in S tv vr kr mr vc kc mc k)).
Proof. exact compose_public_Slice_row_std_err. Qed.
Print Assumptions C11_public_Slice_row_std_err.

(* _Slice.column_std_err, carried as its SIGNED SQUARE (np.sqrt is never evaluated): that variance over the weighted base *)
Theorem C11_public_Slice_column_std_err :
  need terms_public_column_std_err
  (forall S tv vr kr mr vc kc mc k rsubs csubs dn rd cd flag ro co so,
     survey_display S tv vr kr mr vc kc mc k rsubs csubs ro co so ->
     base_cells_spec (public_slice (Cs mr mc rsubs csubs dn rd cd flag ro co so) "column_std_err") ro co
       (se_cell_spec colbase_in S tv vr kr mr vc kc mc k)).
Proof. exact compose_public_Slice_column_std_err. Qed.
Print Assumptions C11_public_Slice_column_std_err.

(* _Slice.table_std_err, carried as its SIGNED SQUARE (np.sqrt is never evaluated): that variance over the weighted base *)
Theorem C11_public_Slice_table_std_err :
  need terms_public_table_std_err
  (forall S tv vr kr mr vc kc mc k rsubs csubs dn rd cd flag ro co so,
     survey_display S tv vr kr mr vc kc mc k rsubs csubs ro co so ->
     base_cells_spec (public_slice (Cs mr mc rsubs csubs dn rd cd flag ro co so) "table_std_err") ro co
       (se_cell_spec tabbase_in S tv vr kr mr vc kc mc k)).
Proof. exact compose_public_Slice_table_std_err. Qed.
Print Assumptions C11_public_Slice_table_std_err.

(* NON-VACUITY of the guards: every generated term the chains need is available on this tree *)
Theorem C11_public_terms_available :
  terms_public_row_variances = true /\ terms_public_column_variances = true /\ terms_public_table_variances = true /\ terms_public_row_std_err = true /\ terms_public_column_std_err = true /\ terms_public_table_std_err = true.
Proof. exact (conj eq_refl (conj eq_refl (conj eq_refl (conj eq_refl (conj eq_refl eq_refl))))). Qed.
Print Assumptions C11_public_terms_available.

(* EXAMPLES: the survey, subtotal and display of the C03_public_* examples; display cell (0, 1) shows base row 1, base column 0 *)
Example C11_public_Slice_row_proportion_variances_example :
  let S := [ mkResp [ACat 0; AMr [Sel; Oth]; ACat 0] (3 # 2);
             mkResp [ACat 2; AMr [Sel; Mis]; ACat 1] 2;
             mkResp [ACat 1; AMr [Sel; Sel]; ACat 0] 5;
             mkResp [ACat 2; AMr [Oth; Sel]; ACat 1] (1 # 4);
             mkResp [ACat 0; AMr [Oth; Oth]; ACat 2] 1 ] in
  let mr := [false; true; false; false] in
  let mc := [false; false] in
  let rs := [mkSub [0; 2] []] in
  let ro := [1; -1; 0]%Z in
  let co := [1; 0]%Z in
  match slice_counts (cube_dims None KCat mr KMr mc) (survey_payload None 0 KCat mr 1 KMr mc S) 0 with
  | Some so =>
      let P := public_slice (Cs mr mc rs [] false false false (fun _ => false) ro co so) "row_proportion_variances" in
      survey_display S None 0 KCat mr 1 KMr mc 0 rs [] ro co so /\
      base_cells_spec P ro co (var_cell_spec rowbase_in S None 0 KCat mr 1 KMr mc 0) /\
      pred P = PMat 3 2 [[Fin 0; Fin (8 # 81)]; [Fin 0; Fin (6 # 25)]; [Fin 0; Fin (6 # 25)]] /\
      (spec_var (marks S (rowbase_in None 0 0 KCat mr 1 KMr mc 1 0) (cell_in None 0 0 KCat mr 1 KMr mc 1 0)) == 8 # 81)%Q /\
      (wsum S (rowbase_in None 0 0 KCat mr 1 KMr mc 1 0) == 9 # 4)%Q
  | None => False
  end.
Proof.
  cbv zeta.
  destruct (slice_counts (cube_dims None KCat [false; true; false; false] KMr [false; false])
              (survey_payload None 0 KCat [false; true; false; false] 1 KMr [false; false] _) 0) as [so|] eqn:E;
    [|vm_compute in E; discriminate].
  assert (D : survey_display
                [ mkResp [ACat 0; AMr [Sel; Oth]; ACat 0] (3 # 2); mkResp [ACat 2; AMr [Sel; Mis]; ACat 1] 2;
                  mkResp [ACat 1; AMr [Sel; Sel]; ACat 0] 5; mkResp [ACat 2; AMr [Oth; Sel]; ACat 1] (1 # 4);
                  mkResp [ACat 0; AMr [Oth; Oth]; ACat 2] 1 ]
                None 0 KCat [false; true; false; false] 1 KMr [false; false] 0 [mkSub [0; 2] []] []
                [1; -1; 0]%Z [1; 0]%Z so).
  { split; [exact I|]. split; [left; reflexivity|]. split; [right; reflexivity|]. split; [vm_compute; lia|].
    split; [repeat constructor; discriminate|]. split; [vm_compute; lia|]. split; [vm_compute; lia|].
    split; [exact E|]. split; repeat constructor; vm_compute; discriminate. }
  split; [exact D|].
  split; [exact (need_elim _ _ eq_refl C11_public_Slice_row_proportion_variances _ _ _ _ _ _ _ _ _ _ _ _ _ _ _ _ _ _ D)|].
  vm_compute in E. injection E as <-.
  split; [vm_compute; reflexivity|]. split; [vm_compute; reflexivity|]. vm_compute; reflexivity.
Qed.

Example C11_public_Slice_column_proportion_variances_example :
  let S := [ mkResp [ACat 0; AMr [Sel; Oth]; ACat 0] (3 # 2);
             mkResp [ACat 2; AMr [Sel; Mis]; ACat 1] 2;
             mkResp [ACat 1; AMr [Sel; Sel]; ACat 0] 5;
             mkResp [ACat 2; AMr [Oth; Sel]; ACat 1] (1 # 4);
             mkResp [ACat 0; AMr [Oth; Oth]; ACat 2] 1 ] in
  let mr := [false; true; false; false] in
  let mc := [false; false] in
  let rs := [mkSub [0; 2] []] in
  let ro := [1; -1; 0]%Z in
  let co := [1; 0]%Z in
  match slice_counts (cube_dims None KCat mr KMr mc) (survey_payload None 0 KCat mr 1 KMr mc S) 0 with
  | Some so =>
      let P := public_slice (Cs mr mc rs [] false false false (fun _ => false) ro co so) "column_proportion_variances" in
      survey_display S None 0 KCat mr 1 KMr mc 0 rs [] ro co so /\
      base_cells_spec P ro co (var_cell_spec colbase_in S None 0 KCat mr 1 KMr mc 0) /\
      pred P = PMat 3 2 [[Fin 0; Fin (12 # 49)]; [Fin 0; Fin (12 # 49)]; [Fin 0; Fin (12 # 49)]] /\
      (spec_var (marks S (colbase_in None 0 0 KCat mr 1 KMr mc 1 0) (cell_in None 0 0 KCat mr 1 KMr mc 1 0)) == 12 # 49)%Q /\
      (wsum S (colbase_in None 0 0 KCat mr 1 KMr mc 1 0) == 7 # 2)%Q
  | None => False
  end.
Proof.
  cbv zeta.
  destruct (slice_counts (cube_dims None KCat [false; true; false; false] KMr [false; false])
              (survey_payload None 0 KCat [false; true; false; false] 1 KMr [false; false] _) 0) as [so|] eqn:E;
    [|vm_compute in E; discriminate].
  assert (D : survey_display
                [ mkResp [ACat 0; AMr [Sel; Oth]; ACat 0] (3 # 2); mkResp [ACat 2; AMr [Sel; Mis]; ACat 1] 2;
                  mkResp [ACat 1; AMr [Sel; Sel]; ACat 0] 5; mkResp [ACat 2; AMr [Oth; Sel]; ACat 1] (1 # 4);
                  mkResp [ACat 0; AMr [Oth; Oth]; ACat 2] 1 ]
                None 0 KCat [false; true; false; false] 1 KMr [false; false] 0 [mkSub [0; 2] []] []
                [1; -1; 0]%Z [1; 0]%Z so).
  { split; [exact I|]. split; [left; reflexivity|]. split; [right; reflexivity|]. split; [vm_compute; lia|].
    split; [repeat constructor; discriminate|]. split; [vm_compute; lia|]. split; [vm_compute; lia|].
    split; [exact E|]. split; repeat constructor; vm_compute; discriminate. }
  split; [exact D|].
  split; [exact (need_elim _ _ eq_refl C11_public_Slice_column_proportion_variances _ _ _ _ _ _ _ _ _ _ _ _ _ _ _ _ _ _ D)|].
  vm_compute in E. injection E as <-.
  split; [vm_compute; reflexivity|]. split; [vm_compute; reflexivity|]. vm_compute; reflexivity.
Qed.

Example C11_public_Slice_table_proportion_variances_example :
  let S := [ mkResp [ACat 0; AMr [Sel; Oth]; ACat 0] (3 # 2);
             mkResp [ACat 2; AMr [Sel; Mis]; ACat 1] 2;
             mkResp [ACat 1; AMr [Sel; Sel]; ACat 0] 5;
             mkResp [ACat 2; AMr [Oth; Sel]; ACat 1] (1 # 4);
             mkResp [ACat 0; AMr [Oth; Oth]; ACat 2] 1 ] in
  let mr := [false; true; false; false] in
  let mc := [false; false] in
  let rs := [mkSub [0; 2] []] in
  let ro := [1; -1; 0]%Z in
  let co := [1; 0]%Z in
  match slice_counts (cube_dims None KCat mr KMr mc) (survey_payload None 0 KCat mr 1 KMr mc S) 0 with
  | Some so =>
      let P := public_slice (Cs mr mc rs [] false false false (fun _ => false) ro co so) "table_proportion_variances" in
      survey_display S None 0 KCat mr 1 KMr mc 0 rs [] ro co so /\
      base_cells_spec P ro co (var_cell_spec tabbase_in S None 0 KCat mr 1 KMr mc 0) /\
      pred P = PMat 3 2 [[Fin (10 # 121); Fin (88 # 361)]; [Fin 0; Fin (78 # 361)]; [Fin 0; Fin (78 # 361)]] /\
      (spec_var (marks S (tabbase_in None 0 0 KCat mr 1 KMr mc 1 0) (cell_in None 0 0 KCat mr 1 KMr mc 1 0)) == 88 # 361)%Q /\
      (wsum S (tabbase_in None 0 0 KCat mr 1 KMr mc 1 0) == 19 # 4)%Q
  | None => False
  end.
Proof.
  cbv zeta.
  destruct (slice_counts (cube_dims None KCat [false; true; false; false] KMr [false; false])
              (survey_payload None 0 KCat [false; true; false; false] 1 KMr [false; false] _) 0) as [so|] eqn:E;
    [|vm_compute in E; discriminate].
  assert (D : survey_display
                [ mkResp [ACat 0; AMr [Sel; Oth]; ACat 0] (3 # 2); mkResp [ACat 2; AMr [Sel; Mis]; ACat 1] 2;
                  mkResp [ACat 1; AMr [Sel; Sel]; ACat 0] 5; mkResp [ACat 2; AMr [Oth; Sel]; ACat 1] (1 # 4);
                  mkResp [ACat 0; AMr [Oth; Oth]; ACat 2] 1 ]
                None 0 KCat [false; true; false; false] 1 KMr [false; false] 0 [mkSub [0; 2] []] []
                [1; -1; 0]%Z [1; 0]%Z so).
  { split; [exact I|]. split; [left; reflexivity|]. split; [right; reflexivity|]. split; [vm_compute; lia|].
    split; [repeat constructor; discriminate|]. split; [vm_compute; lia|]. split; [vm_compute; lia|].
    split; [exact E|]. split; repeat constructor; vm_compute; discriminate. }
  split; [exact D|].
  split; [exact (need_elim _ _ eq_refl C11_public_Slice_table_proportion_variances _ _ _ _ _ _ _ _ _ _ _ _ _ _ _ _ _ _ D)|].
  vm_compute in E. injection E as <-.
  split; [vm_compute; reflexivity|]. split; [vm_compute; reflexivity|]. vm_compute; reflexivity.
Qed.

Example C11_public_Slice_row_std_err_example :
  let S := [ mkResp [ACat 0; AMr [Sel; Oth]; ACat 0] (3 # 2);
             mkResp [ACat 2; AMr [Sel; Mis]; ACat 1] 2;
             mkResp [ACat 1; AMr [Sel; Sel]; ACat 0] 5;
             mkResp [ACat 2; AMr [Oth; Sel]; ACat 1] (1 # 4);
             mkResp [ACat 0; AMr [Oth; Oth]; ACat 2] 1 ] in
  let mr := [false; true; false; false] in
  let mc := [false; false] in
  let rs := [mkSub [0; 2] []] in
  let ro := [1; -1; 0]%Z in
  let co := [1; 0]%Z in
  match slice_counts (cube_dims None KCat mr KMr mc) (survey_payload None 0 KCat mr 1 KMr mc S) 0 with
  | Some so =>
      let P := public_slice (Cs mr mc rs [] false false false (fun _ => false) ro co so) "row_std_err" in
      survey_display S None 0 KCat mr 1 KMr mc 0 rs [] ro co so /\
      base_cells_spec P ro co (se_cell_spec rowbase_in S None 0 KCat mr 1 KMr mc 0) /\
      pred P = PMat 3 2 [[Fin 0; Fin (32 # 729)]; [Fin 0; Fin (12 # 125)]; [Fin 0; Fin (12 # 125)]] /\
      (spec_var (marks S (rowbase_in None 0 0 KCat mr 1 KMr mc 1 0) (cell_in None 0 0 KCat mr 1 KMr mc 1 0)) / wsum S (rowbase_in None 0 0 KCat mr 1 KMr mc 1 0) == 32 # 729)%Q
  | None => False
  end.
Proof.
  cbv zeta.
  destruct (slice_counts (cube_dims None KCat [false; true; false; false] KMr [false; false])
              (survey_payload None 0 KCat [false; true; false; false] 1 KMr [false; false] _) 0) as [so|] eqn:E;
    [|vm_compute in E; discriminate].
  assert (D : survey_display
                [ mkResp [ACat 0; AMr [Sel; Oth]; ACat 0] (3 # 2); mkResp [ACat 2; AMr [Sel; Mis]; ACat 1] 2;
                  mkResp [ACat 1; AMr [Sel; Sel]; ACat 0] 5; mkResp [ACat 2; AMr [Oth; Sel]; ACat 1] (1 # 4);
                  mkResp [ACat 0; AMr [Oth; Oth]; ACat 2] 1 ]
                None 0 KCat [false; true; false; false] 1 KMr [false; false] 0 [mkSub [0; 2] []] []
                [1; -1; 0]%Z [1; 0]%Z so).
  { split; [exact I|]. split; [left; reflexivity|]. split; [right; reflexivity|]. split; [vm_compute; lia|].
    split; [repeat constructor; discriminate|]. split; [vm_compute; lia|]. split; [vm_compute; lia|].
    split; [exact E|]. split; repeat constructor; vm_compute; discriminate. }
  split; [exact D|].
  split; [exact (need_elim _ _ eq_refl C11_public_Slice_row_std_err _ _ _ _ _ _ _ _ _ _ _ _ _ _ _ _ _ _ D)|].
  vm_compute in E. injection E as <-.
  split; [vm_compute; reflexivity|]. vm_compute; reflexivity.
Qed.

Example C11_public_Slice_column_std_err_example :
  let S := [ mkResp [ACat 0; AMr [Sel; Oth]; ACat 0] (3 # 2);
             mkResp [ACat 2; AMr [Sel; Mis]; ACat 1] 2;
             mkResp [ACat 1; AMr [Sel; Sel]; ACat 0] 5;
             mkResp [ACat 2; AMr [Oth; Sel]; ACat 1] (1 # 4);
             mkResp [ACat 0; AMr [Oth; Oth]; ACat 2] 1 ] in
  let mr := [false; true; false; false] in
  let mc := [false; false] in
  let rs := [mkSub [0; 2] []] in
  let ro := [1; -1; 0]%Z in
  let co := [1; 0]%Z in
  match slice_counts (cube_dims None KCat mr KMr mc) (survey_payload None 0 KCat mr 1 KMr mc S) 0 with
  | Some so =>
      let P := public_slice (Cs mr mc rs [] false false false (fun _ => false) ro co so) "column_std_err" in
      survey_display S None 0 KCat mr 1 KMr mc 0 rs [] ro co so /\
      base_cells_spec P ro co (se_cell_spec colbase_in S None 0 KCat mr 1 KMr mc 0) /\
      pred P = PMat 3 2 [[Fin 0; Fin (24 # 343)]; [Fin 0; Fin (24 # 343)]; [Fin 0; Fin (24 # 343)]] /\
      (spec_var (marks S (colbase_in None 0 0 KCat mr 1 KMr mc 1 0) (cell_in None 0 0 KCat mr 1 KMr mc 1 0)) / wsum S (colbase_in None 0 0 KCat mr 1 KMr mc 1 0) == 24 # 343)%Q
  | None => False
  end.
Proof.
  cbv zeta.
  destruct (slice_counts (cube_dims None KCat [false; true; false; false] KMr [false; false])
              (survey_payload None 0 KCat [false; true; false; false] 1 KMr [false; false] _) 0) as [so|] eqn:E;
    [|vm_compute in E; discriminate].
  assert (D : survey_display
                [ mkResp [ACat 0; AMr [Sel; Oth]; ACat 0] (3 # 2); mkResp [ACat 2; AMr [Sel; Mis]; ACat 1] 2;
                  mkResp [ACat 1; AMr [Sel; Sel]; ACat 0] 5; mkResp [ACat 2; AMr [Oth; Sel]; ACat 1] (1 # 4);
                  mkResp [ACat 0; AMr [Oth; Oth]; ACat 2] 1 ]
                None 0 KCat [false; true; false; false] 1 KMr [false; false] 0 [mkSub [0; 2] []] []
                [1; -1; 0]%Z [1; 0]%Z so).
  { split; [exact I|]. split; [left; reflexivity|]. split; [right; reflexivity|]. split; [vm_compute; lia|].
    split; [repeat constructor; discriminate|]. split; [vm_compute; lia|]. split; [vm_compute; lia|].
    split; [exact E|]. split; repeat constructor; vm_compute; discriminate. }
  split; [exact D|].
  split; [exact (need_elim _ _ eq_refl C11_public_Slice_column_std_err _ _ _ _ _ _ _ _ _ _ _ _ _ _ _ _ _ _ D)|].
  vm_compute in E. injection E as <-.
  split; [vm_compute; reflexivity|]. vm_compute; reflexivity.
Qed.

Example C11_public_Slice_table_std_err_example :
  let S := [ mkResp [ACat 0; AMr [Sel; Oth]; ACat 0] (3 # 2);
             mkResp [ACat 2; AMr [Sel; Mis]; ACat 1] 2;
             mkResp [ACat 1; AMr [Sel; Sel]; ACat 0] 5;
             mkResp [ACat 2; AMr [Oth; Sel]; ACat 1] (1 # 4);
             mkResp [ACat 0; AMr [Oth; Oth]; ACat 2] 1 ] in
  let mr := [false; true; false; false] in
  let mc := [false; false] in
  let rs := [mkSub [0; 2] []] in
  let ro := [1; -1; 0]%Z in
  let co := [1; 0]%Z in
  match slice_counts (cube_dims None KCat mr KMr mc) (survey_payload None 0 KCat mr 1 KMr mc S) 0 with
  | Some so =>
      let P := public_slice (Cs mr mc rs [] false false false (fun _ => false) ro co so) "table_std_err" in
      survey_display S None 0 KCat mr 1 KMr mc 0 rs [] ro co so /\
      base_cells_spec P ro co (se_cell_spec tabbase_in S None 0 KCat mr 1 KMr mc 0) /\
      pred P = PMat 3 2 [[Fin (40 # 1331); Fin (352 # 6859)]; [Fin 0; Fin (312 # 6859)]; [Fin 0; Fin (312 # 6859)]] /\
      (spec_var (marks S (tabbase_in None 0 0 KCat mr 1 KMr mc 1 0) (cell_in None 0 0 KCat mr 1 KMr mc 1 0)) / wsum S (tabbase_in None 0 0 KCat mr 1 KMr mc 1 0) == 352 # 6859)%Q
  | None => False
  end.
Proof.
  cbv zeta.
  destruct (slice_counts (cube_dims None KCat [false; true; false; false] KMr [false; false])
              (survey_payload None 0 KCat [false; true; false; false] 1 KMr [false; false] _) 0) as [so|] eqn:E;
    [|vm_compute in E; discriminate].
  assert (D : survey_display
                [ mkResp [ACat 0; AMr [Sel; Oth]; ACat 0] (3 # 2); mkResp [ACat 2; AMr [Sel; Mis]; ACat 1] 2;
                  mkResp [ACat 1; AMr [Sel; Sel]; ACat 0] 5; mkResp [ACat 2; AMr [Oth; Sel]; ACat 1] (1 # 4);
                  mkResp [ACat 0; AMr [Oth; Oth]; ACat 2] 1 ]
                None 0 KCat [false; true; false; false] 1 KMr [false; false] 0 [mkSub [0; 2] []] []
                [1; -1; 0]%Z [1; 0]%Z so).
  { split; [exact I|]. split; [left; reflexivity|]. split; [right; reflexivity|]. split; [vm_compute; lia|].
    split; [repeat constructor; discriminate|]. split; [vm_compute; lia|]. split; [vm_compute; lia|].
    split; [exact E|]. split; repeat constructor; vm_compute; discriminate. }
  split; [exact D|].
  split; [exact (need_elim _ _ eq_refl C11_public_Slice_table_std_err _ _ _ _ _ _ _ _ _ _ _ _ _ _ _ _ _ _ D)|].
  vm_compute in E. injection E as <-.
  split; [vm_compute; reflexivity|]. vm_compute; reflexivity.
Qed.

End ComposePublic_C11.
(*END ComposePublic_C11*)
