(* C11 – Variance, standard error and margin of error of proportions.
   Statements only; proofs in Proofs/VarianceProofs.v; executable model in
   Model/Variance.v, tied to matrix/measure.py, matrix/subtotals.py, stripe/measure.py and
   cubepart.py by the correspondence check harness/props/c11.py.
   Square roots are not modelled: std-dev, std-err and MoE are compared through their
   squares (they are non-negative by construction of np.sqrt). *)
From Coq Require Import QArith ZArith List Bool Lia Arith.
From CC Require Import Base.XQ Base.ListX Model.Subtotals Model.Proportions Model.Variance
  Proofs.VarianceProofs.
Import ListNotations.
Open Scope Q_scope.

(* For EVERY finite population of respondents in a proportion's base, each with a weight
   and the indicator +1 (addend member) / -1 (subtrahend member) / 0, the code's three-term
   formula applied to the weighted counts (total, positive, negative; ignored = the rest)
   and the proportion (mean of the indicator) is the weighted variance of that indicator. *)
Theorem C11_variance_is_indicator_variance (l : list resp) : ~ w_tot l == 0 ->
  var_cell (Fin (spec_mean l)) (Fin (w_tot l)) (Fin (w_pos l)) (Fin (w_neg l))
  =x= Fin (spec_var l).
Proof. exact (var_is_indicator_variance l). Qed.
Print Assumptions C11_variance_is_indicator_variance.

Theorem C11_proportion_is_indicator_mean l : spec_mean l == (w_pos l - w_neg l) / w_tot l.
Proof. exact (spec_mean_counts l). Qed.
Print Assumptions C11_proportion_is_indicator_mean.

(* ordinary cells and subtotals without subtrahends: p (1 - p) *)
Theorem C11_variance_p_one_minus_p (p Nt Np : Q) : ~ Nt == 0 -> p == Np / Nt ->
  var_cell (Fin p) (Fin Nt) (Fin Np) (Fin 0) =x= Fin (p * (1 - p)).
Proof. exact (var_no_negatives p Nt Np). Qed.
Print Assumptions C11_variance_p_one_minus_p.

Theorem C11_variance_second_moment (p Nt Np Nn : Q) : ~ Nt == 0 -> p == (Np - Nn) / Nt ->
  var_cell (Fin p) (Fin Nt) (Fin Np) (Fin Nn) =x= Fin ((Np + Nn) / Nt - p * p).
Proof. exact (var_second_moment p Nt Np Nn). Qed.
Print Assumptions C11_variance_second_moment.

(* non-negative for non-negative weights; NaN where base or proportion is undefined *)
Theorem C11_variance_nonneg l : (forall w m, In (w, m) l -> 0 <= w) -> ~ w_tot l == 0 ->
  0 <= spec_var l.
Proof. exact (spec_var_nonneg l). Qed.
Print Assumptions C11_variance_nonneg.

Theorem C11_variance_nan :
  (forall p, var_cell p (Fin 0) (Fin 0) (Fin 0) = NaN) /\
  (forall Nt Np Nn, var_cell NaN Nt Np Nn = NaN).
Proof. exact (conj var_nan_zero_base var_nan_prop). Qed.
Print Assumptions C11_variance_nan.

(* every cell of every block uses its own proportion, base, positive and negative counts *)
Theorem C11_variance_blocks_pointwise counts nr nc rsubs csubs P T :
  let V := variance_blocks counts nr nc rsubs csubs P T in
  let A := pos_blocks counts nr nc rsubs csubs in
  let N := neg_blocks counts nr nc rsubs csubs in
  (forall i j, (i < nr)%nat -> (j < nc)%nat -> mnth (b_base V) i j =
     var_cell (mnth (b_base P) i j) (mnth (b_base T) i j) (mnth (b_base A) i j) (mnth (b_base N) i j)) /\
  (forall i l, (i < nr)%nat -> (l < length csubs)%nat -> mnth (b_cols V) i l =
     var_cell (mnth (b_cols P) i l) (mnth (b_cols T) i l) (mnth (b_cols A) i l) (mnth (b_cols N) i l)) /\
  (forall k j, (k < length rsubs)%nat -> (j < nc)%nat -> mnth (b_rows V) k j =
     var_cell (mnth (b_rows P) k j) (mnth (b_rows T) k j) (mnth (b_rows A) k j) (mnth (b_rows N) k j)) /\
  (forall k l, (k < length rsubs)%nat -> (l < length csubs)%nat -> mnth (b_inter V) k l =
     var_cell (mnth (b_inter P) k l) (mnth (b_inter T) k l) (mnth (b_inter A) k l) (mnth (b_inter N) k l)).
Proof. exact (var_blocks_pointwise counts nr nc rsubs csubs P T). Qed.
Print Assumptions C11_variance_blocks_pointwise.

Theorem C11_positive_negative_terms counts nr nc rsubs csubs :
  let A := pos_blocks counts nr nc rsubs csubs in
  let N := neg_blocks counts nr nc rsubs csubs in
  (forall i j, (i < nr)%nat -> (j < nc)%nat ->
     mnth (b_base A) i j = mnth counts i j /\ mnth (b_base N) i j = Fin 0) /\
  (forall k j, (k < length rsubs)%nat -> (j < nc)%nat ->
     mnth (b_rows A) k j = sum_rows counts (s_add (nth k rsubs nosub)) j /\
     mnth (b_rows N) k j = sum_rows counts (s_sub (nth k rsubs nosub)) j) /\
  (forall i l, (i < nr)%nat -> (l < length csubs)%nat ->
     mnth (b_cols A) i l = sum_cols counts i (s_add (nth l csubs nosub)) /\
     mnth (b_cols N) i l = sum_cols counts i (s_sub (nth l csubs nosub))).
Proof.
  exact (conj (pos_neg_base counts nr nc rsubs csubs)
        (conj (pos_neg_rows counts nr nc rsubs csubs) (pos_neg_cols counts nr nc rsubs csubs))).
Qed.
Print Assumptions C11_positive_negative_terms.

(* standard error^2 = variance / weighted base (non-negative); MoE^2 = 1.959964^2 * SE^2 *)
Theorem C11_stderr_moe :
  (forall var base, stderr_sq var base = xdiv var base) /\
  (forall v b, 0 <= v -> 0 < b ->
     match stderr_sq (Fin v) (Fin b) with Fin s => 0 <= s | _ => False end) /\
  (forall s, moe_sq (Fin s) = Fin ((1959964 # 1000000) * (1959964 # 1000000) * s)) /\
  moe_sq NaN = NaN.
Proof. exact (conj stderr_sq_def (conj stderr_sq_nonneg (conj moe_sq_fin moe_sq_nan))). Qed.
Print Assumptions C11_stderr_moe.

(* non-vacuity: weights 2,1,1,4 with indicators +1,+1,-1,0: Nt=8, Np=3, Nn=1, p=1/4,
   variance = (3+1)/8 - 1/16 = 7/16 *)
Example C11_example :
  let l := [(2, Pos); (1, Pos); (1, Neg); (4, Zero)] in
  ~ w_tot l == 0 /\ spec_mean l == 1 # 4 /\ spec_var l == 7 # 16 /\
  var_cell (Fin (1 # 4)) (Fin 8) (Fin 3) (Fin 1) =x= Fin (7 # 16).
Proof. vm_compute. repeat split; try reflexivity. intros H; discriminate H. Qed.

(* ==================================================================================== *)
(** * END TO END: the variance blocks computed from a tabulated survey
      (Proofs/ComposeBase.v, ComposeProportions.v, ComposeVariance.v)

   The theorems above are about ABSTRACT respondent lists.  Below the whole pipeline runs on one
   survey S (Spec/Survey.v): [s_row_var S tv vr kr mr vc kc mc k rsubs csubs dn rd cd] is
   Model/Variance.v::variance_blocks applied to the count block, the row-proportion blocks and
   the row-base blocks the model computes from [tabulate S] for partition k of a categorical /
   multiple-response x categorical / multiple-response cube (2-D: tv = None), with ANY inserted
   subtotals and flags; likewise the column and table directions.  The respondent list of a cell
   is no longer a free variable: [marks S K A] lists the respondents of the base K with indicator
   +1 when they are in the cell A, else 0 ([C11_survey_respondent_list]).  [w_cell], [w_rowbase],
   [w_colbase], [w_tabbase] are the weighted respondent counts of Props/C03.v::C03_survey_numbers. *)
From CC Require Import Spec.Survey Model.CubeCounts Proofs.CubeCountsProofs
     Proofs.ComposeBase Proofs.ComposeProportions Proofs.ComposeVariance Proofs.VarianceProofs.

Theorem C11_survey_respondent_list S (K A : Survey.resp -> bool) :
  marks S K A = map (fun r => (weight r, if A r then Pos else Zero)) (filter K S) /\
  w_tot (marks S K A) == wsum S K /\
  w_pos (marks S K A) == wsum S (fun r => K r && A r) /\
  w_neg (marks S K A) == 0 /\
  (wf_survey S -> forall w m, In (w, m) (marks S K A) -> 0 <= w).
Proof.
  exact (conj eq_refl (conj (marks_w_tot S K A) (conj (marks_w_pos S K A)
        (conj (marks_w_neg S K A) (marks_weights_nonneg S K A))))).
Qed.
Print Assumptions C11_survey_respondent_list.

(* the proportion the variance is taken around is the mean of that indicator *)
Theorem C11_survey_proportion_is_indicator_mean S (K A : Survey.resp -> bool) p :
  (forall r, In r S -> A r = true -> K r = true) -> ~ wsum S K == 0 ->
  p =x= xdiv (Fin (wsum S A)) (Fin (wsum S K)) -> p =x= Fin (spec_mean (marks S K A)).
Proof. exact (fun Hsub => proportion_is_indicator_mean S K A Hsub p). Qed.
Print Assumptions C11_survey_proportion_is_indicator_mean.

(* VARIANCE of the row proportion of base cell (i, j): the weighted variance of the membership
   indicator over the respondents of the row base; = p (1 - p); non-negative; NaN exactly when
   the base is empty; never infinite *)
Theorem C11_survey_row_variance S tv vr kr mr vc kc mc k rsubs csubs dn rd cd i j :
  t_ok tv -> cat_or_mr kr -> cat_or_mr kc -> (k < t_n tv)%nat -> wf_survey S ->
  (i < nval mr)%nat -> (j < nval mc)%nat ->
  let l := marks S (rowbase_in tv k vr kr mr vc kc mc i j) (cell_in tv k vr kr mr vc kc mc i j) in
  let c := w_cell tv k vr kr mr vc kc mc S i j in
  let b := w_rowbase tv k vr kr mr vc kc mc S i j in
  match mnth (b_base (s_row_var S tv vr kr mr vc kc mc k rsubs csubs dn rd cd)) i j with
  | NaN => b == 0
  | Fin v => ~ b == 0 /\ v == spec_var l /\ v == (c / b) * (1 - c / b) /\ 0 <= v
  | Inf _ => False
  end.
Proof.
  exact (fun Ht Hr Hc Hk Hwf =>
           row_variance_survey S tv vr kr mr vc kc mc k rsubs csubs dn rd cd Ht Hr Hc Hk Hwf i j).
Qed.
Print Assumptions C11_survey_row_variance.

Theorem C11_survey_column_variance S tv vr kr mr vc kc mc k rsubs csubs dn rd cd i j :
  t_ok tv -> cat_or_mr kr -> cat_or_mr kc -> (k < t_n tv)%nat -> wf_survey S ->
  (i < nval mr)%nat -> (j < nval mc)%nat ->
  let l := marks S (colbase_in tv k vr kr mr vc kc mc i j) (cell_in tv k vr kr mr vc kc mc i j) in
  let c := w_cell tv k vr kr mr vc kc mc S i j in
  let b := w_colbase tv k vr kr mr vc kc mc S i j in
  match mnth (b_base (s_col_var S tv vr kr mr vc kc mc k rsubs csubs dn rd cd)) i j with
  | NaN => b == 0
  | Fin v => ~ b == 0 /\ v == spec_var l /\ v == (c / b) * (1 - c / b) /\ 0 <= v
  | Inf _ => False
  end.
Proof.
  exact (fun Ht Hr Hc Hk Hwf =>
           column_variance_survey S tv vr kr mr vc kc mc k rsubs csubs dn rd cd Ht Hr Hc Hk Hwf i j).
Qed.
Print Assumptions C11_survey_column_variance.

Theorem C11_survey_table_variance S tv vr kr mr vc kc mc k rsubs csubs dn i j :
  t_ok tv -> cat_or_mr kr -> cat_or_mr kc -> (k < t_n tv)%nat -> wf_survey S ->
  (i < nval mr)%nat -> (j < nval mc)%nat ->
  let l := marks S (tabbase_in tv k vr kr mr vc kc mc i j) (cell_in tv k vr kr mr vc kc mc i j) in
  let c := w_cell tv k vr kr mr vc kc mc S i j in
  let b := w_tabbase tv k vr kr mr vc kc mc S i j in
  match mnth (b_base (s_tab_var S tv vr kr mr vc kc mc k rsubs csubs dn)) i j with
  | NaN => b == 0
  | Fin v => ~ b == 0 /\ v == spec_var l /\ v == (c / b) * (1 - c / b) /\ 0 <= v
  | Inf _ => False
  end.
Proof.
  exact (fun Ht Hr Hc Hk Hwf =>
           table_variance_survey S tv vr kr mr vc kc mc k rsubs csubs dn Ht Hr Hc Hk Hwf i j).
Qed.
Print Assumptions C11_survey_table_variance.

(* SQUARED STANDARD ERROR = that variance / the weighted base; non-negative; NaN iff empty base *)
Theorem C11_survey_stderr_sq S tv vr kr mr vc kc mc k rsubs csubs dn rd cd i j :
  t_ok tv -> cat_or_mr kr -> cat_or_mr kc -> (k < t_n tv)%nat -> wf_survey S ->
  (i < nval mr)%nat -> (j < nval mc)%nat ->
  let cellp := cell_in tv k vr kr mr vc kc mc i j in
  match stderr_sq (mnth (b_base (s_row_var S tv vr kr mr vc kc mc k rsubs csubs dn rd cd)) i j)
                  (mnth (b_base (s_row_bases S tv vr kr mr vc kc mc k rsubs csubs)) i j) with
  | NaN => w_rowbase tv k vr kr mr vc kc mc S i j == 0
  | Fin s => ~ w_rowbase tv k vr kr mr vc kc mc S i j == 0 /\
             s == spec_var (marks S (rowbase_in tv k vr kr mr vc kc mc i j) cellp)
                  / w_rowbase tv k vr kr mr vc kc mc S i j /\ 0 <= s
  | Inf _ => False
  end /\
  match stderr_sq (mnth (b_base (s_col_var S tv vr kr mr vc kc mc k rsubs csubs dn rd cd)) i j)
                  (mnth (b_base (s_col_bases S tv vr kr mr vc kc mc k rsubs csubs)) i j) with
  | NaN => w_colbase tv k vr kr mr vc kc mc S i j == 0
  | Fin s => ~ w_colbase tv k vr kr mr vc kc mc S i j == 0 /\
             s == spec_var (marks S (colbase_in tv k vr kr mr vc kc mc i j) cellp)
                  / w_colbase tv k vr kr mr vc kc mc S i j /\ 0 <= s
  | Inf _ => False
  end /\
  match stderr_sq (mnth (b_base (s_tab_var S tv vr kr mr vc kc mc k rsubs csubs dn)) i j)
                  (mnth (b_base (s_tab_bases S tv vr kr mr vc kc mc k rsubs csubs)) i j) with
  | NaN => w_tabbase tv k vr kr mr vc kc mc S i j == 0
  | Fin s => ~ w_tabbase tv k vr kr mr vc kc mc S i j == 0 /\
             s == spec_var (marks S (tabbase_in tv k vr kr mr vc kc mc i j) cellp)
                  / w_tabbase tv k vr kr mr vc kc mc S i j /\ 0 <= s
  | Inf _ => False
  end.
Proof.
  exact (fun Ht Hr Hc Hk Hwf Hi Hj =>
    conj (row_stderr_sq_survey S tv vr kr mr vc kc mc k rsubs csubs dn rd cd Ht Hr Hc Hk Hwf i j Hi Hj)
   (conj (column_stderr_sq_survey S tv vr kr mr vc kc mc k rsubs csubs dn rd cd Ht Hr Hc Hk Hwf i j Hi Hj)
         (table_stderr_sq_survey S tv vr kr mr vc kc mc k rsubs csubs dn Ht Hr Hc Hk Hwf i j Hi Hj))).
Qed.
Print Assumptions C11_survey_stderr_sq.

(* SQUARED MARGIN OF ERROR = 1.959964^2 * squared standard error (row direction; the column /
   table twins are column_moe_sq_survey / table_moe_sq_survey of Proofs/ComposeVariance.v) *)
Theorem C11_survey_moe_sq S tv vr kr mr vc kc mc k rsubs csubs dn rd cd i j :
  t_ok tv -> cat_or_mr kr -> cat_or_mr kc -> (k < t_n tv)%nat -> wf_survey S ->
  (i < nval mr)%nat -> (j < nval mc)%nat ->
  match moe_sq (stderr_sq (mnth (b_base (s_row_var S tv vr kr mr vc kc mc k rsubs csubs dn rd cd)) i j)
                          (mnth (b_base (s_row_bases S tv vr kr mr vc kc mc k rsubs csubs)) i j)) with
  | NaN => w_rowbase tv k vr kr mr vc kc mc S i j == 0
  | Fin m => ~ w_rowbase tv k vr kr mr vc kc mc S i j == 0 /\
             m == (1959964 # 1000000) * (1959964 # 1000000)
                  * (spec_var (marks S (rowbase_in tv k vr kr mr vc kc mc i j) (cell_in tv k vr kr mr vc kc mc i j))
                     / w_rowbase tv k vr kr mr vc kc mc S i j) /\ 0 <= m
  | Inf _ => False
  end.
Proof.
  exact (fun Ht Hr Hc Hk Hwf =>
           row_moe_sq_survey S tv vr kr mr vc kc mc k rsubs csubs dn rd cd Ht Hr Hc Hk Hwf i j).
Qed.
Print Assumptions C11_survey_moe_sq.

(* Non-vacuity.  Five respondents with rational weights; rows categorical with a MISSING category
   in the middle of the payload and a valid category nobody chose; columns multiple response with
   per-item missingness.  Cell (row 1 = category 2, item 0): base = respondents 2 and 4
   (weights 2, 1/4), in the cell: respondent 2; p = 8/9, variance 8/81. *)
Example C11_survey_example :
  let S := [ mkResp [ACat 0; AMr [Sel; Oth]] (3 # 2);
             mkResp [ACat 2; AMr [Sel; Mis]] 2;
             mkResp [ACat 1; AMr [Sel; Sel]] 5;
             mkResp [ACat 2; AMr [Oth; Sel]] (1 # 4);
             mkResp [ACat 0; AMr [Oth; Oth]] 1 ] in
  let mr := [false; true; false; false] in
  let mc := [false; false] in
  t_ok None /\ cat_or_mr KCat /\ cat_or_mr KMr /\ (0 < t_n None)%nat /\ wf_survey S /\
  nval mr = 3%nat /\ nval mc = 2%nat /\
  marks S (rowbase_in None 0 0 KCat mr 1 KMr mc 1 0) (cell_in None 0 0 KCat mr 1 KMr mc 1 0)
    = [(2, Pos); (1 # 4, Zero)] /\
  spec_var (marks S (rowbase_in None 0 0 KCat mr 1 KMr mc 1 0) (cell_in None 0 0 KCat mr 1 KMr mc 1 0))
    == 8 # 81 /\
  map (map xred) (b_base (s_row_var S None 0 KCat mr 1 KMr mc 0 [] [] false false false))
    = [[Fin (6 # 25); Fin 0]; [Fin (8 # 81); Fin 0]; [NaN; NaN]] /\
  xred (stderr_sq (mnth (b_base (s_row_var S None 0 KCat mr 1 KMr mc 0 [] [] false false false)) 1 0)
                  (mnth (b_base (s_row_bases S None 0 KCat mr 1 KMr mc 0 [] [])) 1 0)) = Fin (32 # 729) /\
  ~ w_rowbase None 0 0 KCat mr 1 KMr mc S 1 0 == 0 /\
  w_rowbase None 0 0 KCat mr 1 KMr mc S 2 0 == 0.
Proof.
  cbv zeta. repeat split; try (left; reflexivity); try (right; reflexivity); try lia;
    try (repeat constructor; discriminate); try (vm_compute; reflexivity);
    try (vm_compute; discriminate).
Qed.
