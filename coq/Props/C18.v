(* C18 - Results are a pure function of the arguments, whatever the access history.

   Model: Model/History.v (caller-owned dicts edited in place + per-object lazy caches;
   operations = build an object on a dict, read a property; the in-place edit is the explicit
   step [do_shim]), Model/Shim.v (what the edit does).
   Only statements here; each closed by [exact <lemma>] + Print Assumptions.

   The history theorem [C18_reads_pure] is proved by induction over the operation list
   (fold_left step).  The induction FORCES three hypotheses; the real code violates each of them
   on some history, recorded as open findings with the *_refuted witnesses below (replayed on
   the implementation by harness/props/c18.py):

     H1  the shim does not raise on the pristine transforms and leaves no None in a list slot
         (order.element_ids, order.fixed.top/bottom) - i.e. no stale id in those lists.
         Otherwise the stale id is rewritten to None in the caller's dict and the NEXT object
         built on that dict (2nd partition of a 3-D cube, 2nd cube) raises TypeError.
     H2  a transforms dict is only ever used with one array dimension.  Otherwise the second
         cube's references are resolved against the FIRST cube's aliases.
     H3  no numeric-measure CubeSet (>= 2 responses, first one 0-D) shares a response with
         another cube: Cube.inflate inserts a rows dimension into the caller's response.

   PARTIAL (stated, not proved here): CubeSet histories beyond inflation (augment_response of
   single-filter-column cubes, numeric-array measures), and the composition of the transforms
   history with the numeric measures (the theorem speaks about everything a partition reads from
   the shimmed transforms - per-element payloads and the items each id list mentions - which is
   all that flows from the edited dict into the measures). *)
From Coq Require Import ZArith List Bool Lia Arith String.
From CC Require Import Base.Ident Model.Shim Model.History Proofs.ShimSpec Proofs.ShimSlots
  Proofs.HistoryProofs Proofs.HistoryArray.
Import ListNotations.
Local Open Scope nat_scope.
Local Open Scope string_scope.

(* ---- the edits are idempotent -------------------------------------------------------------- *)
(* shim (shim t) = shim t, provided the first shim did not raise and left no None in a list *)
Theorem C18_shim_xf_idem d t t' :
  ~ In key_str (aliases d) -> shim_xf d t = (t', None) -> no_none_lists t' ->
  shim_xf d t' = (t', None).
Proof. exact (shim_xf_idem d t t'). Qed.
Print Assumptions C18_shim_xf_idem.

(* the element-transforms slot is ALWAYS a fixed point (stale keys are dropped, not kept as None) *)
Theorem C18_elements_idem d e e' :
  ~ In key_str (aliases d) -> replaced_elements d e = Ok e' -> replaced_elements d e' = Ok e'.
Proof. exact (replaced_elements_idem d e e'). Qed.
Print Assumptions C18_elements_idem.

(* every consumer reads the same from the dict and from its re-shimmed version *)
Theorem C18_resolve_shim_invariant d t t' :
  ~ In key_str (aliases d) -> shim_xf d t = (t', None) -> no_none_lists t' ->
  consume d (fst (shim_xf d t')) = consume d t'.
Proof. exact (consume_shim_invariant d t t'). Qed.
Print Assumptions C18_resolve_shim_invariant.

(* the response's dimension dict: "subvar_alias" fields *)
Theorem C18_shim_dict_idem els : shim_dim_dict (shim_dim_dict els) = shim_dim_dict els.
Proof. exact (shim_dim_dict_idem els). Qed.
Print Assumptions C18_shim_dict_idem.

Theorem C18_element_ids_history_free els :
  map build_element_id (shim_dim_dict els) = map (fun p => alias_of (fst p)) els.
Proof. exact (element_ids_after_shim els). Qed.
Print Assumptions C18_element_ids_history_free.

(* ---- the history theorem ------------------------------------------------------------------- *)
(* generic in the dimension type D, the dict content X, the properties P and values V, for ANY
   in-place edit [shim] and ANY way [cons] of computing values from the dict *)
Theorem C18_reads_pure_generic
  (D X P V : Type) (shim : D -> X -> X * option exn) (cons : D -> X -> P -> V)
  (P_eqb : P -> P -> bool) (cacheable : V -> bool)
  (P_eqb_sound : forall a b, P_eqb a b = true -> a = b)
  (ts : nat -> X) (used : nat -> Prop) (dimof : nat -> D) :
  (forall i, used i -> snd (shim (dimof i) (ts i)) = None) ->
  (forall i, used i -> shim (dimof i) (fst (shim (dimof i) (ts i))) = (fst (shim (dimof i) (ts i)), None)) ->
  forall ops, Forall (op_ok D P used dimof) ops ->
  run D X P V shim cons P_eqb cacheable ts ops = run_pristine D X P V shim cons ts ops.
Proof. exact (reads_pure D X P V shim cons P_eqb cacheable P_eqb_sound ts used dimof). Qed.
Print Assumptions C18_reads_pure_generic.

(* for array dimensions: every read of every history over shared transforms dicts equals the
   read on pristine copies, under H1 and H2 *)
Theorem C18_reads_pure (ts : nat -> xf) (used : nat -> Prop) (dimof : nat -> adim) ops :
  (forall i, used i -> ~ In key_str (aliases (dimof i))) ->
  (forall i, used i -> snd (shim_xf (dimof i) (ts i)) = None) ->            (* H1 *)
  (forall i, used i -> no_none_lists (fst (shim_xf (dimof i) (ts i)))) ->   (* H1 *)
  Forall (aop_ok used dimof) ops ->                                          (* H2 *)
  arun ts ops = arun_pristine ts ops.
Proof. exact (array_reads_pure ts used dimof ops). Qed.
Print Assumptions C18_reads_pure.

(* ---- the hypotheses are necessary: witnesses (open findings) -------------------------------- *)
Definition dA : adim :=
  mk_adim [ mk_item (IInt 1) (Some (IStr "0001")) (Some (IStr "a1")) false false;
            mk_item (IInt 2) (Some (IStr "0002")) (Some (IStr "a2")) false false ] false.
Definition dB : adim :=
  mk_adim [ mk_item (IInt 1) (Some (IStr "0001")) (Some (IStr "b1")) false false;
            mk_item (IInt 2) (Some (IStr "0002")) (Some (IStr "b2")) false false ] false.

(* H1 violated: explicit order [2, 999] - two partitions (objects) on the same dict; the read of
   the second one raises TypeError, on pristine copies it returns item 1 *)
Theorem C18_reads_pure_H1_refuted :
  exists (t0 : xf) (ops : list (op adim aprop)),
    Forall (aop_ok (fun i => i = 0) (fun _ => dA)) ops /\
    snd (shim_xf dA t0) = None /\
    arun (fun _ => t0) ops <> arun_pristine (fun _ => t0) ops /\
    arun (fun _ => t0) ops = [Ok (VItems [1]); Raise TypeErr] /\
    arun_pristine (fun _ => t0) ops = [Ok (VItems [1]); Ok (VItems [1])].
Proof.
  exists (mk_xf None (Some [IInt 2; IInt 999]) None None).
  exists [New dA 0; New dA 0; Read 0 POrder; Read 1 POrder].
  split; [repeat constructor|]. vm_compute. repeat split; try reflexivity. discriminate.
Qed.
Print Assumptions C18_reads_pure_H1_refuted.

(* H2 violated: one dict, two cubes with different array dimensions: {"1": hide} hides item 0 of
   each cube on pristine copies; after the first cube rewrote the key to ITS alias the second cube
   finds nothing *)
Theorem C18_reads_pure_H2_refuted :
  exists (t0 : xf) (ops : list (op adim aprop)),
    snd (shim_xf dA t0) = None /\ no_none_lists (fst (shim_xf dA t0)) /\
    snd (shim_xf dB t0) = None /\ no_none_lists (fst (shim_xf dB t0)) /\
    arun (fun _ => t0) ops = [Ok (VElems [Some (Payload 0); None]); Ok (VElems [None; None])] /\
    arun_pristine (fun _ => t0) ops =
      [Ok (VElems [Some (Payload 0); None]); Ok (VElems [Some (Payload 0); None])].
Proof.
  exists (mk_xf (Some [(IStr "1", Payload 0)]) None None None).
  exists [New dA 0; New dB 0; Read 0 PElems; Read 1 PElems].
  vm_compute. repeat split; try reflexivity; intros H; exact H.
Qed.
Print Assumptions C18_reads_pure_H2_refuted.

(* ---- responses -------------------------------------------------------------------------------- *)
(* re-using the responses of a CubeSet for the same CubeSet is safe (second inflation is skipped) *)
Theorem C18_inflate_stable r0 l :
  rrun r0 [MkSet l; MkSet l] = rrun_pristine r0 [MkSet l; MkSet l].
Proof. exact (inflate_stable r0 l). Qed.
Print Assumptions C18_inflate_stable.

Theorem C18_response_reads_pure r0 ops :
  Forall (rop_ok r0) ops ->                                                   (* H3 *)
  rrun r0 ops = rrun_pristine r0 ops.
Proof. exact (response_reads_pure r0 ops). Qed.
Print Assumptions C18_response_reads_pure.

(* H3 violated: CubeSet over a 0-D and a 1-D response, then a Cube on the first response alone:
   a strand where pristine copies give a nub *)
Theorem C18_inflate_H3_refuted :
  exists (r0 : nat -> nat) (ops : list rop),
    rrun r0 ops = [[Strand; Slice]; [Strand]] /\
    rrun_pristine r0 ops = [[Strand; Slice]; [Nub]].
Proof.
  exists (fun i => if Nat.eqb i 0 then 0 else 1). exists [MkSet [0; 1]; MkCube 0].
  vm_compute. split; reflexivity.
Qed.
Print Assumptions C18_inflate_H3_refuted.

(* JSON text, dict, and the {"value": ...} envelope give the same response *)
Theorem C18_envelope_agree (R : Type) (r : R) :
  cube_response (ArgDict (JResp r)) = JResp r /\
  cube_response (ArgText (JResp r)) = JResp r /\
  cube_response (ArgDict (JEnvelope (JResp r))) = JResp r /\
  cube_response (ArgText (JEnvelope (JResp r))) = JResp r.
Proof. exact (envelope_agree r). Qed.
Print Assumptions C18_envelope_agree.

(* ---- non-vacuity -------------------------------------------------------------------------------- *)
(* a history satisfying H1 and H2: three objects on two dicts, interleaved and repeated reads *)
Example C18_example :
  let t0 := mk_xf (Some [(IStr "0002", Payload 3); (IStr "zz", Payload 4)])
                  (Some [IInt 2; IStr "a1"]) (Some [IStr "1"]) None in
  let t1 := mk_xf None (Some [IStr "0001"]) None None in
  let ts := fun i => if Nat.eqb i 0 then t0 else t1 in
  let ops := [New dA 0; New dA 1; New dA 0; Read 2 POrder; Read 0 PElems; Read 1 POrder;
              Read 0 POrder; Read 2 PElems; Read 0 POrder; Read 2 PTop] in
  snd (shim_xf dA t0) = None /\ no_none_lists (fst (shim_xf dA t0)) /\
  snd (shim_xf dA t1) = None /\ no_none_lists (fst (shim_xf dA t1)) /\
  arun ts ops = arun_pristine ts ops /\
  arun ts ops = [Ok (VItems [1; 0]); Ok (VElems [None; Some (Payload 3)]); Ok (VItems [0]);
                 Ok (VItems [1; 0]); Ok (VElems [None; Some (Payload 3)]); Ok (VItems [1; 0]);
                 Ok (VItems [0])].
Proof.
  vm_compute. repeat split; try reflexivity; intros H; try exact H;
    repeat (destruct H as [H|H]; try discriminate); try contradiction.
Qed.
