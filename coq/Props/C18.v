(* C18 - Results are a pure function of the arguments, whatever the access history.

   Model: Model/History.v (caller-owned transforms dicts and responses shared by several objects +
   per-object lazy caches; operations = build an object on shared arguments, read a property),
   Model/Shim.v (the translation of a transforms dict, the annotation of the response's dimension
   dicts).  Only statements here; each closed by [exact <lemma>] + Print Assumptions.

   STATUS.  The four defects this property found were REPAIRED in /repo and the model follows the
   repaired code:
     H2  51c19c01  translating a dimension's transforms no longer rewrites the caller's dict
                   (known_findings.d/C18-transforms-dict-shared-across-dimensions.json, fixed)
     H3  3e9f35f8  Cube.inflate no longer edits the caller's response
                   (known_findings.d/C18-inflate-mutates-response.json, fixed)
     H4  502c5e20  Cube.augment_response no longer edits the caller's response
                   (known_findings.d/C18-augment-mutates-response.json, fixed)
     H5  537d2a70  a CubeSet augments filter cubes against the PARSED summary response
                   (known_findings.d/C18-augment-summary-text-or-envelope.json, fixed)
   (H1, translate_element_id(None), was repaired earlier: C18_shim_total.)

   THE THEOREM (C18_history_pure, and its three parts C18_reads_pure / C18_response_reads_pure /
   C18_augment_reads_pure): for EVERY list of operations - build a Cube / CubeSet / partition object
   on shared caller-owned argument objects, read property p of object o - every read equals the read
   on pristine copies, with per-object lazy caches that never cache None, and the caller-owned
   objects are the pristine ones afterwards.  Side conditions: NONE on the history (one transforms
   dict may be used with any number of different dimensions; the responses of a numeric-measure
   CubeSet or of an augmented CubeSet may be used by anything else), none on the transforms dicts
   (stale ids, nulls, malformed ids, translations that raise), none on the dimensions (the former
   conditions "no item is aliased 'key'" and "element / sub-variable ids are not null" are gone:
   they were needed for the re-translation of an already rewritten dict to be a fixed point, and
   nothing is re-translated any more).  The generic theorem C18_reads_pure_generic only asks that
   the equality test on property names is sound.  The former hypotheses H2 / H3 / H4 and the
   no-raise condition of C18_augment_stable are dropped; the former *_refuted theorems are replaced
   by *_former_witness theorems showing the old counter-example histories are now pure.

   What stays edited in place: the response's DIMENSION dicts gain "subvar_alias" /
   "datetime_value" keys.  That annotation is idempotent and the element ids do not depend on
   whether it was made before (C18_shim_dict_idem, C18_element_ids_history_free).

   The idempotence theorems of the translation ITSELF (C18_shim_xf_idem: shim (shim t) = shim t,
   C18_elements_idem, C18_resolve_shim_invariant, C18_shim_fixed, C18_augment_idem) are kept: they
   are still true of shim_xf / augment as FUNCTIONS, and they are what made the former in-place
   design work for the histories it did work for; the purity theorem no longer rests on them.

   PARTIAL (stated, not proved here): the composition of the transforms history with the numeric
   measures (the theorem speaks about everything a partition reads from the translated transforms -
   per-element payloads and the items each id list mentions); datetime dimensions (their translation
   is C19_datetime_*; tied by the relational oracle and the deep-equality leg); numeric-array
   measures in CubeSets (inflate passes the caller's response on unchanged; tied by the relational
   oracle and the deep-equality leg only). *)
From Coq Require Import ZArith List Bool Lia Arith String.
From CC Require Import Base.Ident Model.Shim Model.History Proofs.ShimSpec Proofs.ShimSlots
  Proofs.HistoryProofs Proofs.HistoryArray Proofs.HistorySets Proofs.HistoryTop.
Import ListNotations.
Local Open Scope nat_scope.
Local Open Scope string_scope.

(* ---- the top-level theorem ------------------------------------------------------------------- *)
Theorem C18_history_pure :
  (forall (ts : nat -> xf) (ops : list (op adim aprop)),
     arun ts ops = arun_pristine ts ops /\ forall i, arun_dict ts ops i = ts i) /\
  (forall (r0 : nat -> nat) (ops : list rop),
     rrun r0 ops = rrun_pristine r0 ops /\ rrun_state r0 ops = r0) /\
  (forall (s f0 : aresp) (ops : list aop),
     a_run s f0 ops = a_run_pristine s f0 ops /\ a_run_state s f0 ops = f0).
Proof. exact history_pure. Qed.
Print Assumptions C18_history_pure.

(* ---- transforms dicts ------------------------------------------------------------------------ *)
(* generic in the dimension type D, the dict content X, the properties P and values V, for ANY
   translation [shim] (raising or not, idempotent or not) and ANY way [cons] of computing values
   from the translated dict; by induction over arbitrary operation lists *)
Theorem C18_reads_pure_generic
  (D X P V : Type) (shim : D -> X -> X * option exn) (cons : D -> X -> P -> V)
  (P_eqb : P -> P -> bool) (cacheable : V -> bool)
  (P_eqb_sound : forall a b, P_eqb a b = true -> a = b)
  (ts : nat -> X) :
  forall ops,
  run D X P V shim cons P_eqb cacheable ts ops = run_pristine D X P V shim cons ts ops.
Proof. exact (reads_pure D X P V shim cons P_eqb cacheable P_eqb_sound ts). Qed.
Print Assumptions C18_reads_pure_generic.

Theorem C18_dicts_unchanged_generic
  (D X P V : Type) (shim : D -> X -> X * option exn) (cons : D -> X -> P -> V)
  (P_eqb : P -> P -> bool) (cacheable : V -> bool) (ts : nat -> X) :
  forall ops, s_dicts (final D X P V shim cons P_eqb cacheable ts ops) = ts.
Proof. exact (dicts_unchanged D X P V shim cons P_eqb cacheable ts). Qed.
Print Assumptions C18_dicts_unchanged_generic.

(* for array dimensions: every read of every history over shared transforms dicts equals the read
   on pristine copies - no hypothesis (formerly: H2 + conditions on the dimensions) *)
Theorem C18_reads_pure (ts : nat -> xf) ops : arun ts ops = arun_pristine ts ops.
Proof. exact (array_reads_pure ts ops). Qed.
Print Assumptions C18_reads_pure.

(* the caller's transforms dicts after any history are the pristine ones *)
Theorem C18_dicts_unchanged (ts : nat -> xf) ops i : arun_dict ts ops i = ts i.
Proof. exact (array_dicts_unchanged ts ops i). Qed.
Print Assumptions C18_dicts_unchanged.

(* a translation that raises has produced no dict: all there is is the caller's, untouched (the
   former model returned the half-rewritten dict here) *)
Theorem C18_shim_raise_untouched d t ex : snd (shim_xf d t) = Some ex -> fst (shim_xf d t) = t.
Proof. exact (shim_xf_raise_untouched d t ex). Qed.
Print Assumptions C18_shim_raise_untouched.

(* ---- the translation itself is idempotent (kept; no longer needed for purity) ------------------ *)
(* shim (shim t) = shim t for EVERY transforms dict t (stale ids, nulls and malformed ids
   included), on every dimension whose element / sub-variable ids are not null and that has no
   item aliased "key" *)
Theorem C18_shim_xf_idem d t t' :
  ~ In key_str (aliases d) -> ids_not_none d -> shim_xf d t = (t', None) -> shim_xf d t' = (t', None).
Proof. exact (shim_xf_idem_full d t t'). Qed.
Print Assumptions C18_shim_xf_idem.

(* the element-transforms slot is ALWAYS a fixed point (stale keys are dropped, not kept as None) *)
Theorem C18_elements_idem d e e' :
  ~ In key_str (aliases d) -> replaced_elements d e = Ok e' -> replaced_elements d e' = Ok e'.
Proof. exact (replaced_elements_idem d e e'). Qed.
Print Assumptions C18_elements_idem.

(* every consumer reads the same from the translated dict and from its re-translated version *)
Theorem C18_resolve_shim_invariant d t :
  ~ In key_str (aliases d) -> ids_not_none d ->
  consume d (fst (shim_xf d (fst (shim_xf d t)))) = consume d (fst (shim_xf d t)).
Proof. exact (consume_shim_invariant_full d t). Qed.
Print Assumptions C18_resolve_shim_invariant.

(* Crunch-shaped dimensions (C19's wf) satisfy the condition on ids *)
Theorem C18_wf_ids_not_none d : wf d -> ids_not_none d.
Proof. exact (Proofs.ShimTranslate.wf_ids_not_none d). Qed.
Print Assumptions C18_wf_ids_not_none.

Theorem C18_shim_total d t : ~ In INone (raw_ids d) -> snd (shim_xf d t) = None.
Proof. exact (shim_xf_total d t). Qed.
Print Assumptions C18_shim_total.

Theorem C18_shim_fixed d t :
  ~ In key_str (aliases d) -> ids_not_none d ->
  shim_xf d (fst (shim_xf d t)) = (fst (shim_xf d t), None).
Proof. exact (shim_xf_fixed d t). Qed.
Print Assumptions C18_shim_fixed.

(* ---- the response's dimension dict: the in-place annotation that stays -------------------------- *)
Theorem C18_shim_dict_idem els : shim_dim_dict (shim_dim_dict els) = shim_dim_dict els.
Proof. exact (shim_dim_dict_idem els). Qed.
Print Assumptions C18_shim_dict_idem.

Theorem C18_element_ids_history_free els :
  map build_element_id (shim_dim_dict els) = map (fun p => alias_of (fst p)) els.
Proof. exact (element_ids_after_shim els). Qed.
Print Assumptions C18_element_ids_history_free.

(* ---- former witnesses: transforms ------------------------------------------------------------- *)
Definition dA : adim :=
  mk_adim [ mk_item (IInt 1) (Some (IStr "0001")) (Some (IStr "a1")) false false;
            mk_item (IInt 2) (Some (IStr "0002")) (Some (IStr "a2")) false false ] false.
Definition dB : adim :=
  mk_adim [ mk_item (IInt 1) (Some (IStr "0001")) (Some (IStr "b1")) false false;
            mk_item (IInt 2) (Some (IStr "0002")) (Some (IStr "b2")) false false ] false.

(* the history that refuted H1 before the repair of translate_element_id(None) (explicit order
   [2, 999], two partitions on the same dict): pure, and the caller's dict keeps its stale id *)
Theorem C18_reads_pure_H1_former_witness :
  let t0 := mk_xf None (Some [IInt 2; IInt 999]) None None in
  let ops := [New dA 0; New dA 0; Read 0 POrder; Read 1 POrder] in
  arun (fun _ => t0) ops = [Ok (VItems [1]); Ok (VItems [1])] /\
  arun_pristine (fun _ => t0) ops = [Ok (VItems [1]); Ok (VItems [1])] /\
  arun_dict (fun _ => t0) ops 0 = t0 /\
  arun_shims (fun _ => t0) ops = [Some (mk_xf None (Some [IStr "a2"; INone]) None None);
                                  Some (mk_xf None (Some [IStr "a2"; INone]) None None)].
Proof. vm_compute. repeat split; reflexivity. Qed.
Print Assumptions C18_reads_pure_H1_former_witness.

(* the history that refuted H2 (C18_reads_pure_H2_refuted): one dict, two cubes with different
   array dimensions, {"1": hide}.  Formerly the first cube rewrote the key to ITS alias and the
   second cube found nothing; now each cube translates the caller's pristine dict into a dict of
   its own and item 0 of EACH cube is hidden, as on pristine copies *)
Theorem C18_reads_pure_H2_former_witness :
  let t0 := mk_xf (Some [(IStr "1", Payload 0)]) None None None in
  let ops := [New dA 0; New dB 0; Read 0 PElems; Read 1 PElems] in
  arun (fun _ => t0) ops =
    [Ok (VElems [Some (Payload 0); None]); Ok (VElems [Some (Payload 0); None])] /\
  arun_pristine (fun _ => t0) ops =
    [Ok (VElems [Some (Payload 0); None]); Ok (VElems [Some (Payload 0); None])] /\
  arun_dict (fun _ => t0) ops 0 = t0 /\
  arun_shims (fun _ => t0) ops = [Some (mk_xf (Some [(IStr "a1", Payload 0)]) None None None);
                                  Some (mk_xf (Some [(IStr "b1", Payload 0)]) None None None)].
Proof. vm_compute. repeat split; reflexivity. Qed.
Print Assumptions C18_reads_pure_H2_former_witness.

(* ---- responses: CubeSet inflation ---------------------------------------------------------------- *)
(* THE CubeSet history theorem: every list of MkCube / MkSet operations (formerly under H3: the
   responses of a numeric-measure set are used by that set only) *)
Theorem C18_response_reads_pure r0 ops : rrun r0 ops = rrun_pristine r0 ops.
Proof. exact (response_reads_pure r0 ops). Qed.
Print Assumptions C18_response_reads_pure.

Theorem C18_responses_unchanged r0 ops : rrun_state r0 ops = r0.
Proof. exact (rrun_state_unchanged r0 ops). Qed.
Print Assumptions C18_responses_unchanged.

(* the one history the former design made safe (the second inflation was skipped) *)
Theorem C18_inflate_stable r0 l :
  rrun r0 [MkSet l; MkSet l] = rrun_pristine r0 [MkSet l; MkSet l].
Proof. exact (inflate_stable r0 l). Qed.
Print Assumptions C18_inflate_stable.

(* the history that refuted H3 (C18_inflate_H3_refuted): CubeSet over a 0-D and a 1-D response, a
   Cube on the 0-D response alone, a second CubeSet sharing the 0-D response.  Formerly
   [[Strand; Slice]; [Strand]; [Strand; Strand]]; now a nub and a 1 x N slice as on pristine copies,
   and the 0-D response still has no dimension dict *)
Theorem C18_inflate_H3_former_witness :
  let r0 := fun i => if Nat.eqb i 0 then 0 else 1 in
  let ops := [MkSet [0; 1]; MkCube 0; MkSet [0; 2]] in
  rrun r0 ops = [[Strand; Slice]; [Nub]; [Strand; Slice]] /\
  rrun_pristine r0 ops = [[Strand; Slice]; [Nub]; [Strand; Slice]] /\
  rrun_state r0 ops 0 = 0 /\ rrun_state r0 ops 1 = 1.
Proof. vm_compute. repeat split; reflexivity. Qed.
Print Assumptions C18_inflate_H3_former_witness.

(* ---- responses: augment_response ---------------------------------------------------------------- *)
(* THE augment history theorem: every list of CubeSet([s, f]) / Cube(f) operations (formerly: the
   same CubeSet n times, provided data[pos] = value does not raise) *)
Theorem C18_augment_reads_pure s f0 ops : a_run s f0 ops = a_run_pristine s f0 ops.
Proof. exact (a_reads_pure s f0 ops). Qed.
Print Assumptions C18_augment_reads_pure.

Theorem C18_augment_response_unchanged s f0 ops : a_run_state s f0 ops = f0.
Proof. exact (a_run_state_unchanged s f0 ops). Qed.
Print Assumptions C18_augment_response_unchanged.

(* the padding as a function is still idempotent and length-normalising (kept) *)
Theorem C18_augment_idem f s f' : augment f s = Some f' -> augment f' s = Some f'.
Proof. exact (augment_idem f s f'). Qed.
Print Assumptions C18_augment_idem.

Theorem C18_augment_length f s f' :
  augment f s = Some f' -> List.length (a_counts f') = List.length (a_counts s).
Proof. exact (augment_length f s f'). Qed.
Print Assumptions C18_augment_length.

Theorem C18_augment_stable s f0 n :
  a_run s f0 (repeat ASet n) = a_run_pristine s f0 (repeat ASet n).
Proof. exact (aset_reads_pure s f0 n). Qed.
Print Assumptions C18_augment_stable.

(* the history behind the former no-raise condition (C18_augment_raise_half_edit): summary ids that
   are not positions make the CubeSet raise IndexError.  Formerly the filter response's elements
   had been replaced by then and the second attempt "succeeded" on the half-edited response; now it
   raises again, as on pristine copies, and the filter response is untouched *)
Theorem C18_augment_raise_former_witness :
  let s := mk_aresp [6; 7; 0]%Z [(IInt 0, Some (IStr "A")); (IInt 5, Some (IStr "B")); (IInt (-1), None)] in
  let f0 := mk_aresp [4]%Z [(IInt 0, Some (IStr "B"))] in
  augment f0 s = None /\
  a_run s f0 [ASet; ASet] = [None; None] /\ a_run_pristine s f0 [ASet; ASet] = [None; None] /\
  a_run_state s f0 [ASet; ASet] = f0.
Proof. vm_compute. repeat split; reflexivity. Qed.
Print Assumptions C18_augment_raise_former_witness.

(* the history that refuted H4 (C18_augment_H4_refuted): summary A,B,C,D (+ missing), filter cube
   B,D (+ missing), a CubeSet then a Cube on the filter response alone.  Formerly the Cube reported
   the padded counts [0; 2; 0; 1; 0]; now its own [2; 1; 0] *)
Theorem C18_augment_H4_former_witness :
  let s := mk_aresp [1; 2; 3; 4; 0]%Z
            [(IInt 0, Some (IStr "A")); (IInt 1, Some (IStr "B")); (IInt 2, Some (IStr "C"));
             (IInt 3, Some (IStr "D")); (IInt (-1), None)] in
  let f0 := mk_aresp [2; 1; 0]%Z [(IInt 0, Some (IStr "B")); (IInt 1, Some (IStr "D")); (IInt (-1), None)] in
  a_run s f0 [ASet; ACube] = [Some [0; 2; 0; 1; 0]; Some [2; 1; 0]]%Z /\
  a_run_pristine s f0 [ASet; ACube] = [Some [0; 2; 0; 1; 0]; Some [2; 1; 0]]%Z /\
  a_run_state s f0 [ASet; ACube] = f0.
Proof. vm_compute. repeat split; reflexivity. Qed.
Print Assumptions C18_augment_H4_former_witness.

(* ---- JSON text, dict, and the {"value": ...} envelope give the same response --------------------- *)
Theorem C18_envelope_agree (R : Type) (r : R) :
  cube_response (ArgDict (JResp r)) = JResp r /\
  cube_response (ArgText (JResp r)) = JResp r /\
  cube_response (ArgDict (JEnvelope (JResp r))) = JResp r /\
  cube_response (ArgText (JEnvelope (JResp r))) = JResp r.
Proof. exact (envelope_agree r). Qed.
Print Assumptions C18_envelope_agree.

(* ... also as the summary response a CubeSet augments its filter cubes against (formerly the raw
   first argument: JSON text / envelope raised TypeError / KeyError, finding H5) *)
Theorem C18_summary_forms_agree (R : Type) (r : R) (rest : list (rarg R)) :
  set_summary (ArgDict (JResp r) :: rest) = Some (JResp r) /\
  set_summary (ArgText (JResp r) :: rest) = Some (JResp r) /\
  set_summary (ArgDict (JEnvelope (JResp r)) :: rest) = Some (JResp r) /\
  set_summary (ArgText (JEnvelope (JResp r)) :: rest) = Some (JResp r).
Proof. exact (summary_forms_agree r rest). Qed.
Print Assumptions C18_summary_forms_agree.

(* ---- non-vacuity -------------------------------------------------------------------------------- *)
(* three objects on two dicts, interleaved and repeated reads; stale ids, a null and a stale key *)
Example C18_example :
  let t0 := mk_xf (Some [(IStr "0002", Payload 3); (IStr "zz", Payload 4)])
                  (Some [IInt 2; IStr "stale"; IStr "a1"; INone]) (Some [IStr "1"; IInt 77]) None in
  let t1 := mk_xf None (Some [IStr "0001"]) None None in
  let ts := fun i => if Nat.eqb i 0 then t0 else t1 in
  let ops := [New dA 0; New dA 1; New dB 0; Read 2 POrder; Read 0 PElems; Read 1 POrder;
              Read 0 POrder; Read 2 PElems; Read 0 POrder; Read 2 PTop] in
  arun ts ops = arun_pristine ts ops /\
  arun ts ops = [Ok (VItems [1]); Ok (VElems [None; Some (Payload 3)]); Ok (VItems [0]);
                 Ok (VItems [1; 0]); Ok (VElems [None; Some (Payload 3)]); Ok (VItems [1; 0]);
                 Ok (VItems [0])] /\
  (* the caller's dict 0 afterwards: as given *)
  arun_dict ts ops 0 = t0 /\
  (* what the objects hold: dict 0 translated to the aliases of dA (object 0) and of dB (object 2):
     stale ids and the null are None, the stale key is gone *)
  arun_shims ts ops =
    [Some (mk_xf (Some [(IStr "a2", Payload 3)])
                 (Some [IStr "a2"; INone; IStr "a1"; INone]) (Some [IStr "a1"; INone]) None);
     Some (mk_xf None (Some [IStr "a1"]) None None);
     Some (mk_xf (Some [(IStr "b2", Payload 3)])
                 (Some [IStr "b2"; INone; INone; INone]) (Some [IStr "b1"; INone]) None)].
Proof. vm_compute. repeat split; reflexivity. Qed.

(* a translation that raises (an MR dimension with insertions whose element id is null: the
   reference "None" equals str(id) and int("None") is attempted outside any try): the read raises
   every time, as on pristine copies; nothing is cached, the caller's dict stays as given, and another
   object on the same dict is not affected *)
Example C18_example_raise :
  let dN := mk_adim [ mk_item INone (Some (IStr "0001")) (Some (IStr "n1")) false false ] true in
  let t0 := mk_xf None (Some [IStr "None"]) None None in
  let ops := [New dN 0; Read 0 POrder; New dA 0; Read 0 POrder; Read 1 POrder] in
  arun (fun _ => t0) ops = arun_pristine (fun _ => t0) ops /\
  arun (fun _ => t0) ops = [Raise ValueErr; Raise ValueErr; Ok (VItems [])] /\
  arun_dict (fun _ => t0) ops 0 = t0 /\
  arun_shims (fun _ => t0) ops = [None; Some (mk_xf None (Some [INone]) None None)].
Proof. vm_compute. repeat split; reflexivity. Qed.

(* a CubeSet history: a numeric-measure set run three times, interleaved with cubes and sets that
   SHARE its responses (formerly excluded by H3) *)
Example C18_example_sets :
  let r0 := ndims_of [0; 1; 1; 2; 0; 1] in
  let ops := [MkCube 3; MkSet [0; 1; 2]; MkCube 0; MkSet [0; 5]; MkSet [0; 1; 2]; MkSet [4];
              MkSet [0; 1; 2]; MkCube 1; MkSet [1; 0]] in
  numeric0 r0 (MkSet [0; 1; 2]) = true /\
  rrun r0 ops = rrun_pristine r0 ops /\
  rrun r0 ops = [[Slice]; [Strand; Slice; Slice]; [Nub]; [Strand; Slice]; [Strand; Slice; Slice];
                 [Nub]; [Strand; Slice; Slice]; [Strand]; [Strand; Nub]] /\
  rrun_state r0 ops 0 = 0 /\ rrun_state r0 ops 4 = 0.
Proof. vm_compute. repeat split; reflexivity. Qed.

(*BEGIN GenAgreeCube_C18*)
(* ------------------------------------------------------------------------------------ *)
(* SOURCE TEXT of src/cr/cube/cube.py.  Gen/CubeSrc.v is regenerated on every check by
   harness/translate/x_cube.py (shallow translation: every member of CubeSet / Cube / _Measures / the
   _BaseMeasure family, inheritance flattened, as a Gallina function over the Python-semantics combinators
   of Base/PyList.v + Base/PyJson.v + Model/PyCube.v; [X] = what cube.py calls in other modules -
   Dimensions.from_dicts, json.loads - as parameters; `self.<member>` = the generated function of that
   member).  For ALL inputs each generated function IS the model definition the theorems above are about;
   a statement `match src_f, src_g with Some f, Some g => forall .., g X c = POk v -> ..` reads: whenever
   the member g of the same object evaluates to v.  [None] = the member is outside the translator's
   whitelist (then only the correspondence ties it). *)
From CC Require Proofs.GenAgreeCubeLib Proofs.GenAgreeCubeAugment Proofs.GenAgreeCubeBase Proofs.GenAgreeCubeHistory Proofs.GenAgreeCubeRebuild Proofs.GenAgreeCubeSet.
Section GenAgreeCube_C18.   (* scopes and imports below end with the section *)
Import Coq.Lists.List Coq.ZArith.ZArith Coq.QArith.QArith Coq.Strings.String Coq.Bool.Bool CC.Base.XQ
       CC.Base.PyList CC.Base.PyJson CC.Spec.Survey CC.Model.CubeCounts CC.Model.DimType CC.Model.Population
       CC.Model.Partition CC.Model.PyCube CC.Gen.CubeSrc CC.Proofs.GenAgreeCubeLib CC.Proofs.GenAgreeCubeAugment CC.Proofs.GenAgreeCubeBase CC.Proofs.GenAgreeCubeHistory CC.Proofs.GenAgreeCubeRebuild CC.Proofs.GenAgreeCubeSet.
Import Coq.Lists.List.ListNotations.
Local Close Scope Q_scope.
Local Open Scope Z_scope.
Local Open Scope string_scope.

Theorem C18_cube_inflated_response_spec :
  forall top res dimsj alias name,
  exists top' res',
    inflated_response top res dimsj alias name = JDict top' /\
    dget top' "result" = Some (JDict res') /\
    dget res' "dimensions" = Some (JList (rows_dimension_json alias name :: dimsj)) /\
    (forall k, k <> "result" -> dget top' k = dget top k) /\
    (forall k, k <> "dimensions" -> dget res' k = dget res k).
Proof. exact cube_inflated_response_spec. Qed.
Print Assumptions C18_cube_inflated_response_spec.

Theorem C18_cube_augmented_response_spec :
  forall top res ms cm dim0 ty0 drest data cdata sels,
  exists top' res' ms' cm' dim0' ty0',
    augmented_response top res ms cm dim0 ty0 drest data cdata sels = JDict top' /\
    dget top' "result" = Some (JDict res') /\
    dget res' "counts" = Some (JList data) /\
    dget res' "measures" = Some (JDict ms') /\ dget ms' "count" = Some (JDict cm') /\
    dget cm' "data" = Some (JList cdata) /\
    dget res' "dimensions" = Some (JList (JDict dim0' :: drest)) /\
    dget dim0' "type" = Some (JDict ty0') /\ dget ty0' "elements" = Some (JList sels) /\
    (forall k, k <> "result" -> dget top' k = dget top k) /\
    (forall k, k <> "counts" -> k <> "measures" -> k <> "dimensions" -> dget res' k = dget res k) /\
    (forall k, k <> "count" -> dget ms' k = dget ms k) /\
    (forall k, k <> "data" -> dget cm' k = dget cm k) /\
    (forall k, k <> "type" -> dget dim0' k = dget dim0 k) /\
    (forall k, k <> "elements" -> dget ty0' k = dget ty0 k).
Proof. exact cube_augmented_response_spec. Qed.
Print Assumptions C18_cube_augmented_response_spec.

Theorem C18_gen_cube_Cube___init__ :
  match src_Cube___init__ with
  | Some f => forall resp idx tr pop mask,
      f resp idx tr pop mask
      = mkPyCube resp (if json_is_none tr then JDict [] else tr) idx
                 (if json_is_none pop then JInt 0 else pop) mask
  | None => True end.
Proof. exact gen_cube_Cube___init__. Qed.
Print Assumptions C18_gen_cube_Cube___init__.

Theorem C18_gen_cube_Cube__cube_response :
  match src_Cube__cube_response with
  | Some f => forall X arg tr idx pop mask,
      f X (mkPyCube arg tr idx pop mask) = parsed_response X arg
  | None => True end.
Proof. exact gen_cube_Cube__cube_response. Qed.
Print Assumptions C18_gen_cube_Cube__cube_response.

Theorem C18_cube_parsed_response_dict :
  forall (R : Type) (body : R -> list (string * json)), (forall r, dget (body r) "value" = None) ->
  forall X j, parsed_response X (rjson_json body j)
              = POk (rjson_json body (History.cube_response (History.ArgDict j))).
Proof. exact cube_parsed_response_dict. Qed.
Print Assumptions C18_cube_parsed_response_dict.

Theorem C18_cube_parsed_response_text :
  forall (R : Type) (body : R -> list (string * json)), (forall r, dget (body r) "value" = None) ->
  forall X s j, x_json_loads X s = POk (rjson_json body j) ->
    parsed_response X (JStr s) = POk (rjson_json body (History.cube_response (History.ArgText j))).
Proof. exact cube_parsed_response_text. Qed.
Print Assumptions C18_cube_parsed_response_text.

Theorem C18_gen_cube_Cube_inflate :
  match src_Cube_inflate, src_Cube__cube_response, src_Cube__numeric_array_dimension,
        src_Cube__available_numeric_measures, src_Cube__numeric_measure_references with
  | Some f, Some g1, Some g2, Some g3, Some g4 => forall X c top res dimsj numdim nums refs,
      g1 X c = POk (JDict top) -> dget top "result" = Some (JDict res) ->
      dget res "dimensions" = Some (JList dimsj) ->
      g2 X c = POk numdim -> g3 X c = POk nums -> g4 X c = POk (JDict refs) ->
      f X c = match inflate_name refs nums with
              | Some name =>
                  POk (rebuilt_cube c (if json_truthy numdim then JDict top
                                       else inflated_response top res dimsj (inflate_alias refs nums) name))
              | None => PErr EAttr
              end
  | _, _, _, _, _ => True end.
Proof. exact gen_cube_Cube_inflate. Qed.
Print Assumptions C18_gen_cube_Cube_inflate.

Theorem C18_gen_cube_Cube_augment_response :
  match src_Cube_augment_response, src_Cube__cube_response with
  | Some f, Some g => forall X c top res cs dim0 drest ty0 oels ms cm cd stop sres scs sdim0 sdrest sty0 sels,
      g X c = POk (JDict top) -> dget top "result" = Some (JDict res) ->
      dget res "counts" = Some (JList cs) -> dget res "dimensions" = Some (JList (JDict dim0 :: drest)) ->
      dget dim0 "type" = Some (JDict ty0) -> dget ty0 "elements" = Some (JList oels) ->
      dget res "measures" = Some (JDict ms) -> dget ms "count" = Some (JDict cm) ->
      dget cm "data" = Some (JList cd) ->
      dget stop "result" = Some (JDict sres) -> dget sres "counts" = Some (JList scs) ->
      dget sres "dimensions" = Some (JList (JDict sdim0 :: sdrest)) ->
      dget sdim0 "type" = Some (JDict sty0) -> dget sty0 "elements" = Some (JList sels) ->
      f X c (JDict stop) =
      if Z.eqb (py_len cs) (py_len scs) then POk c else
      pbind (aug_values oels) (fun values => pbind (aug_positions sels values) (fun positions =>
      pbind (aug_fill (py_len scs) positions cs) (fun data =>
      pbind (aug_fill (py_len scs) positions cd) (fun cdata =>
      POk (rebuilt_cube c (augmented_response top res ms cm dim0 ty0 drest data cdata sels))))))
  | _, _ => True end.
Proof. exact gen_cube_Cube_augment_response. Qed.
Print Assumptions C18_gen_cube_Cube_augment_response.

Theorem C18_gen_cube_CubeSet__cubes :
  match src_CubeSet__cubes, src_CubeSet__is_multi_cube, src_CubeSet__is_numeric_measure,
        src_Cube__cube_response, src_Cube_is_single_filter_col_cube, src_Cube_augment_response,
        src_Cube_inflate with
  | Some f, Some gm, Some gn, Some gR, Some gS, Some gA, Some gI => forall X s multi numeric,
      gm X s = POk multi -> gn X s = POk numeric ->
      f X s = cubeset_loop (gR X) (gS X) (gA X) (gI X) multi numeric s None 0 (cs_cube_responses s)
  | _, _, _, _, _, _, _ => True end.
Proof. exact gen_cube_CubeSet__cubes. Qed.
Print Assumptions C18_gen_cube_CubeSet__cubes.

End GenAgreeCube_C18.
(*END GenAgreeCube_C18*)

(* ---- WIRING-APPENDIX:BEGIN (generated by tools/gen_wiring_props.py; do not edit) ---- *)
From CC Require Proofs.GenAgreeWiring_C18.
Section Wiring_C18.
Import Coq.Lists.List Coq.ZArith.ZArith Coq.Strings.String CC.Base.WiringExp CC.Gen.WiringSrc.
Import ListNotations.
Local Open Scope string_scope.

Theorem C18_wiring_lazyproperty_init :
  wsrc_lazyproperty_init = Some (WList [WCall (WGlobal "__assign__") [WAttr (WVar "self") "_fget";
      WVar "fget"] []; WCall (WAttr (WGlobal "functools") "update_wrapper") [WVar "self"; WVar
      "fget"] []]).
Proof. exact Proofs.GenAgreeWiring_C18.gen_wiring_lazyproperty_init. Qed.
Print Assumptions C18_wiring_lazyproperty_init.

Theorem C18_wiring_lazyproperty_get :
  wsrc_lazyproperty_get = Some (WCall (WGlobal "__defaults__") [WList [WIf (WCmp "is" (WVar "obj")
      (WNone)) (WList [WCall (WGlobal "__return__") [WVar "self"] []]) (WList []); WCall (WGlobal
      "__assign__") [WVar "value"; WCall (WAttr (WAttr (WVar "obj") "__dict__") "get") [WAttr (WVar
      "self") "__name__"] []] []; WIf (WCmp "is" (WVar "value") (WNone)) (WList [WCall (WGlobal
      "__assign__") [WVar "value"; WCall (WAttr (WVar "self") "_fget") [WVar "obj"] []] []; WCall
      (WGlobal "__assign__") [WIndex (WAttr (WVar "obj") "__dict__") [WAttr (WVar "self")
      "__name__"]; WVar "value"] []]) (WList []); WCall (WGlobal "__return__") [WVar "value"] []]]
      [("type", WNone)]).
Proof. exact Proofs.GenAgreeWiring_C18.gen_wiring_lazyproperty_get. Qed.
Print Assumptions C18_wiring_lazyproperty_get.

Theorem C18_wiring_lazyproperty_set :
  wsrc_lazyproperty_set = Some (WList [WRaise "AttributeError"]).
Proof. exact Proofs.GenAgreeWiring_C18.gen_wiring_lazyproperty_set. Qed.
Print Assumptions C18_wiring_lazyproperty_set.

End Wiring_C18.
(* ---- WIRING-APPENDIX:END ---- *)
