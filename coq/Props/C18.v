(* C18 - Results are a pure function of the arguments, whatever the access history.

   Model: Model/History.v (caller-owned dicts edited in place + per-object lazy caches;
   operations = build an object on a dict, read a property; the in-place edit is the explicit
   step [do_shim]; CubeSet inflation of responses; augment_response), Model/Shim.v (what the
   edit of a transforms dict does).
   Only statements here; each closed by [exact <lemma>] + Print Assumptions.

   The history theorems are proved by induction over ARBITRARY operation lists (fold_left step).
   The inductions force hypotheses on the HISTORY; the real code violates each of them on some
   history, recorded as open findings with the *_refuted witnesses below (replayed on the
   implementation by harness/props/c18.py):

     H2  a transforms dict is only ever used with one array dimension.  Otherwise the second
         cube's references are resolved against the FIRST cube's aliases
         (known_findings.d/C18-transforms-dict-shared-across-dimensions.json).
     H3  the responses of a numeric-measure CubeSet (>= 2 responses, first one 0-D) are used by
         that CubeSet only: Cube.inflate inserts a rows dimension into the caller's response
         (known_findings.d/C18-inflate-mutates-response.json).
     H4  the response of a single-filter-column cube that augment_response had to pad is used by
         that CubeSet only (known_findings.d/C18-augment-mutates-response.json).
   (H1 of the plan - re-translation of None is total - was a genuine defect, REPAIRED in /repo:
   it is now the theorems C18_shim_total / C18_shim_fixed and no hypothesis.)

   PARTIAL (stated, not proved here): the composition of the transforms history with the numeric
   measures (the theorem speaks about everything a partition reads from the shimmed transforms -
   per-element payloads and the items each id list mentions - which is all that flows from the
   edited dict into the measures); datetime dimensions (their idempotence is C19_datetime_idem);
   numeric-array measures in CubeSets (inflate leaves the caller's response alone there; tied by
   the relational oracle only). *)
From Coq Require Import ZArith List Bool Lia Arith String.
From CC Require Import Base.Ident Model.Shim Model.History Proofs.ShimSpec Proofs.ShimSlots
  Proofs.HistoryProofs Proofs.HistoryArray Proofs.HistorySets.
Import ListNotations.
Local Open Scope nat_scope.
Local Open Scope string_scope.

(* ---- the edits are idempotent -------------------------------------------------------------- *)
(* shim (shim t) = shim t for EVERY transforms dict t (stale ids, nulls and malformed ids
   included), on every dimension whose element / sub-variable ids are not null and that has no
   item aliased "key" *)
Theorem C18_shim_xf_idem d t t' :
  ~ In key_str (aliases d) -> ids_not_none d -> shim_xf d t = (t', None) -> shim_xf d t' = (t', None).
Proof. exact (shim_xf_idem_full d t t'). Qed.
Print Assumptions C18_shim_xf_idem.

(* the element-transforms slot is ALWAYS a fixed point (stale keys are dropped, not kept as None) *)
Theorem C18_elements_idem d e e' :
  ~ In key_str (aliases d) -> replaced_elements d e = Ok e' -> replaced_elements d e' = Ok e'.
Proof. exact (replaced_elements_idem d e e'). Qed.
Print Assumptions C18_elements_idem.

(* every consumer reads the same from the rewritten dict and from its re-shimmed version *)
Theorem C18_resolve_shim_invariant d t :
  ~ In key_str (aliases d) -> ids_not_none d ->
  consume d (fst (shim_xf d (fst (shim_xf d t)))) = consume d (fst (shim_xf d t)).
Proof. exact (consume_shim_invariant_full d t). Qed.
Print Assumptions C18_resolve_shim_invariant.

(* Crunch-shaped dimensions (C19's wf) satisfy the condition on ids *)
Theorem C18_wf_ids_not_none d : wf d -> ids_not_none d.
Proof. exact (Proofs.ShimTranslate.wf_ids_not_none d). Qed.
Print Assumptions C18_wf_ids_not_none.

(* the response's dimension dict: "subvar_alias" fields *)
Theorem C18_shim_dict_idem els : shim_dim_dict (shim_dim_dict els) = shim_dim_dict els.
Proof. exact (shim_dim_dict_idem els). Qed.
Print Assumptions C18_shim_dict_idem.

Theorem C18_element_ids_history_free els :
  map build_element_id (shim_dim_dict els) = map (fun p => alias_of (fst p)) els.
Proof. exact (element_ids_after_shim els). Qed.
Print Assumptions C18_element_ids_history_free.

(* ---- the history theorem ------------------------------------------------------------------- *)
(* generic in the dimension type D, the dict content X, the properties P and values V, for ANY
   in-place edit [shim] and ANY way [cons] of computing values from the dict *)
Theorem C18_reads_pure_generic
  (D X P V : Type) (shim : D -> X -> X * option exn) (cons : D -> X -> P -> V)
  (P_eqb : P -> P -> bool) (cacheable : V -> bool)
  (P_eqb_sound : forall a b, P_eqb a b = true -> a = b)
  (ts : nat -> X) (used : nat -> Prop) (dimof : nat -> D) :
  (forall i, used i -> snd (shim (dimof i) (ts i)) = None) ->
  (forall i, used i -> shim (dimof i) (fst (shim (dimof i) (ts i))) = (fst (shim (dimof i) (ts i)), None)) ->
  forall ops, Forall (op_ok D P used dimof) ops ->
  run D X P V shim cons P_eqb cacheable ts ops = run_pristine D X P V shim cons ts ops.
Proof. exact (reads_pure D X P V shim cons P_eqb cacheable P_eqb_sound ts used dimof). Qed.
Print Assumptions C18_reads_pure_generic.

(* for array dimensions: every read of every history over shared transforms dicts equals the
   read on pristine copies.  The former hypothesis H1 (re-translation is total) is no longer
   needed: since the repair of translate_element_id(None) it is a theorem (C18_shim_total,
   C18_shim_fixed) for every transforms dict whatsoever - stale ids, nulls, malformed ids
   included.  What remains are conditions on the DIMENSIONS (no item is aliased "key"; element ids
   and sub-variable ids are not null) and H2. *)
Theorem C18_shim_total d t : ~ In INone (raw_ids d) -> snd (shim_xf d t) = None.
Proof. exact (shim_xf_total d t). Qed.
Print Assumptions C18_shim_total.

Theorem C18_shim_fixed d t :
  ~ In key_str (aliases d) -> ids_not_none d ->
  shim_xf d (fst (shim_xf d t)) = (fst (shim_xf d t), None).
Proof. exact (shim_xf_fixed d t). Qed.
Print Assumptions C18_shim_fixed.

Theorem C18_reads_pure (ts : nat -> xf) (used : nat -> Prop) (dimof : nat -> adim) ops :
  (forall i, used i -> ~ In key_str (aliases (dimof i))) ->
  (forall i, used i -> ids_not_none (dimof i)) ->
  Forall (aop_ok used dimof) ops ->                                          (* H2 *)
  arun ts ops = arun_pristine ts ops.
Proof. exact (array_reads_pure ts used dimof ops). Qed.
Print Assumptions C18_reads_pure.

(* ---- the remaining hypotheses are necessary: witnesses (open findings) ---------------------- *)
Definition dA : adim :=
  mk_adim [ mk_item (IInt 1) (Some (IStr "0001")) (Some (IStr "a1")) false false;
            mk_item (IInt 2) (Some (IStr "0002")) (Some (IStr "a2")) false false ] false.
Definition dB : adim :=
  mk_adim [ mk_item (IInt 1) (Some (IStr "0001")) (Some (IStr "b1")) false false;
            mk_item (IInt 2) (Some (IStr "0002")) (Some (IStr "b2")) false false ] false.

(* the history that refuted H1 before the repair (explicit order [2, 999], two partitions on the
   same dict) is now pure *)
Example C18_former_H1_witness_pure :
  let t0 := mk_xf None (Some [IInt 2; IInt 999]) None None in
  let ops := [New dA 0; New dA 0; Read 0 POrder; Read 1 POrder] in
  arun (fun _ => t0) ops = [Ok (VItems [1]); Ok (VItems [1])] /\
  arun_pristine (fun _ => t0) ops = [Ok (VItems [1]); Ok (VItems [1])] /\
  arun_dict (fun _ => t0) ops 0 = mk_xf None (Some [IStr "a2"; INone]) None None.
Proof. vm_compute. repeat split; reflexivity. Qed.

(* H2 violated: one dict, two cubes with different array dimensions: {"1": hide} hides item 0 of
   each cube on pristine copies; after the first cube rewrote the key to ITS alias the second cube
   finds nothing *)
Theorem C18_reads_pure_H2_refuted :
  exists (t0 : xf) (ops : list (op adim aprop)),
    ~ In key_str (aliases dA) /\ ids_not_none dA /\ ~ In key_str (aliases dB) /\ ids_not_none dB /\
    arun (fun _ => t0) ops = [Ok (VElems [Some (Payload 0); None]); Ok (VElems [None; None])] /\
    arun_pristine (fun _ => t0) ops =
      [Ok (VElems [Some (Payload 0); None]); Ok (VElems [Some (Payload 0); None])].
Proof.
  exists (mk_xf (Some [(IStr "1", Payload 0)]) None None None).
  exists [New dA 0; New dB 0; Read 0 PElems; Read 1 PElems].
  unfold ids_not_none. vm_compute. repeat split; try reflexivity; intros H; intuition discriminate.
Qed.
Print Assumptions C18_reads_pure_H2_refuted.

(* ---- responses: CubeSet inflation ---------------------------------------------------------------- *)
(* re-using the responses of a CubeSet for the same CubeSet is safe (second inflation is skipped) *)
Theorem C18_inflate_stable r0 l :
  rrun r0 [MkSet l; MkSet l] = rrun_pristine r0 [MkSet l; MkSet l].
Proof. exact (inflate_stable r0 l). Qed.
Print Assumptions C18_inflate_stable.

(* THE CubeSet history theorem, by induction over arbitrary op lists (numeric-measure sets
   included, any number of times, interleaved with anything that shares no response with them) *)
Theorem C18_response_reads_pure r0 ops :
  groups_ok r0 ops ->                                                          (* H3 *)
  rrun r0 ops = rrun_pristine r0 ops.
Proof. exact (response_reads_pure_groups r0 ops). Qed.
Print Assumptions C18_response_reads_pure.

(* histories without any numeric-measure set satisfy H3 *)
Theorem C18_no_numeric_set_ok r0 ops : Forall (rop_ok r0) ops -> groups_ok r0 ops.
Proof. exact (rop_ok_groups r0 ops). Qed.
Print Assumptions C18_no_numeric_set_ok.

(* H3 violated: CubeSet over a 0-D and a 1-D response, then a Cube on the first response alone:
   a strand where pristine copies give a nub; and a second CubeSet sharing the 0-D response with
   another 1-D response: a strand where pristine copies give a 1 x N slice *)
Theorem C18_inflate_H3_refuted :
  exists (r0 : nat -> nat) (ops : list rop),
    rrun r0 ops = [[Strand; Slice]; [Strand]; [Strand; Strand]] /\
    rrun_pristine r0 ops = [[Strand; Slice]; [Nub]; [Strand; Slice]].
Proof.
  exists (fun i => if Nat.eqb i 0 then 0 else 1). exists [MkSet [0; 1]; MkCube 0; MkSet [0; 2]].
  vm_compute. split; reflexivity.
Qed.
Print Assumptions C18_inflate_H3_refuted.

(* ---- responses: augment_response ---------------------------------------------------------------- *)
Theorem C18_augment_idem f s f' : augment f s = Some f' -> augment f' s = Some f'.
Proof. exact (augment_idem f s f'). Qed.
Print Assumptions C18_augment_idem.

Theorem C18_augment_length f s f' :
  augment f s = Some f' -> List.length (a_counts f') = List.length (a_counts s).
Proof. exact (augment_length f s f'). Qed.
Print Assumptions C18_augment_length.

(* the same CubeSet any number of times over the same (summary, filter) responses *)
Theorem C18_augment_stable s f0 n :
  augment f0 s <> None ->                      (* data[pos] = value does not raise *)
  a_run s f0 (repeat ASet n) = a_run_pristine s f0 (repeat ASet n).
Proof. exact (aset_reads_pure s f0 n). Qed.
Print Assumptions C18_augment_stable.

(* no padding needed (as many counts as the summary cube): every history is pure *)
Theorem C18_augment_not_needed_pure s f0 ops :
  List.length (a_counts f0) = List.length (a_counts s) -> a_run s f0 ops = a_run_pristine s f0 ops.
Proof. exact (a_noaug_reads_pure s f0 ops). Qed.
Print Assumptions C18_augment_not_needed_pure.

(* the hypothesis is needed: summary ids that are not positions (malformed: zz9 numbers text
   elements 0..n-1) make the first CubeSet raise IndexError AFTER the filter response's elements
   were replaced; the second attempt then "succeeds" on the half-edited response *)
Example C18_augment_raise_half_edit :
  let s := mk_aresp [6; 7; 0]%Z [(IInt 0, Some (IStr "A")); (IInt 5, Some (IStr "B")); (IInt (-1), None)] in
  let f0 := mk_aresp [4]%Z [(IInt 0, Some (IStr "B"))] in
  augment f0 s = None /\
  a_run s f0 [ASet; ASet] = [None; Some [4; 0; 0]%Z] /\ a_run_pristine s f0 [ASet; ASet] = [None; None].
Proof. vm_compute. repeat split; reflexivity. Qed.

(* H4 violated: summary A,B,C,D (+ missing), filter cube B,D (+ missing): after the CubeSet a Cube
   on the filter response alone reports the padded counts *)
Theorem C18_augment_H4_refuted :
  exists (s f0 : aresp) (ops : list aop),
    a_run s f0 ops = [Some [0; 2; 0; 1; 0]; Some [0; 2; 0; 1; 0]]%Z /\
    a_run_pristine s f0 ops = [Some [0; 2; 0; 1; 0]; Some [2; 1; 0]]%Z.
Proof.
  exists (mk_aresp [1; 2; 3; 4; 0]%Z
            [(IInt 0, Some (IStr "A")); (IInt 1, Some (IStr "B")); (IInt 2, Some (IStr "C"));
             (IInt 3, Some (IStr "D")); (IInt (-1), None)]).
  exists (mk_aresp [2; 1; 0]%Z [(IInt 0, Some (IStr "B")); (IInt 1, Some (IStr "D")); (IInt (-1), None)]).
  exists [ASet; ACube]. vm_compute. split; reflexivity.
Qed.
Print Assumptions C18_augment_H4_refuted.

(* JSON text, dict, and the {"value": ...} envelope give the same response *)
Theorem C18_envelope_agree (R : Type) (r : R) :
  cube_response (ArgDict (JResp r)) = JResp r /\
  cube_response (ArgText (JResp r)) = JResp r /\
  cube_response (ArgDict (JEnvelope (JResp r))) = JResp r /\
  cube_response (ArgText (JEnvelope (JResp r))) = JResp r.
Proof. exact (envelope_agree r). Qed.
Print Assumptions C18_envelope_agree.

(* ---- non-vacuity -------------------------------------------------------------------------------- *)
(* a history satisfying H1 and H2: three objects on two dicts, interleaved and repeated reads *)
Example C18_example :
  let t0 := mk_xf (Some [(IStr "0002", Payload 3); (IStr "zz", Payload 4)])
                  (Some [IInt 2; IStr "stale"; IStr "a1"; INone]) (Some [IStr "1"; IInt 77]) None in
  let t1 := mk_xf None (Some [IStr "0001"]) None None in
  let ts := fun i => if Nat.eqb i 0 then t0 else t1 in
  let ops := [New dA 0; New dA 1; New dA 0; Read 2 POrder; Read 0 PElems; Read 1 POrder;
              Read 0 POrder; Read 2 PElems; Read 0 POrder; Read 2 PTop] in
  ~ In key_str (aliases dA) /\ ids_not_none dA /\
  arun ts ops = arun_pristine ts ops /\
  arun ts ops = [Ok (VItems [1; 0]); Ok (VElems [None; Some (Payload 3)]); Ok (VItems [0]);
                 Ok (VItems [1; 0]); Ok (VElems [None; Some (Payload 3)]); Ok (VItems [1; 0]);
                 Ok (VItems [0])] /\
  (* the caller's dict 0 afterwards: stale ids and the null are None, the stale key is gone *)
  arun_dict ts ops 0 = mk_xf (Some [(IStr "a2", Payload 3)])
                             (Some [IStr "a2"; INone; IStr "a1"; INone]) (Some [IStr "a1"; INone]) None.
Proof.
  unfold ids_not_none. vm_compute. repeat split; try reflexivity; intros H; intuition discriminate.
Qed.

(* a CubeSet history satisfying H3: a numeric-measure set run three times, interleaved with cubes
   and sets over OTHER responses (one of them 0-D as well) *)
Example C18_example_sets :
  let r0 := ndims_of [0; 1; 1; 2; 0; 1] in
  let ops := [MkCube 3; MkSet [0; 1; 2]; MkCube 4; MkSet [3; 5]; MkSet [0; 1; 2]; MkSet [4];
              MkSet [0; 1; 2]; MkCube 5] in
  groups_ok r0 ops /\ numeric0 r0 (MkSet [0; 1; 2]) = true /\
  rrun r0 ops = rrun_pristine r0 ops /\
  rrun r0 ops = [[Slice]; [Strand; Slice; Slice]; [Nub]; [Slice; Strand]; [Strand; Slice; Slice];
                 [Nub]; [Strand; Slice; Slice]; [Strand]] /\
  rrun_state r0 ops 0 = 1 /\ rrun_state r0 ops 4 = 0.
Proof.
  cbv zeta. split; [|vm_compute; repeat split; reflexivity].
  split.
  - intros x Hx N. simpl in Hx.
    repeat (destruct Hx as [<-|Hx]; [try discriminate N; simpl; repeat constructor; simpl; intuition lia|]).
    contradiction.
  - intros x y Hx Hy N. simpl in Hx.
    repeat (destruct Hx as [<-|Hx]; [try discriminate N|]); try contradiction;
      simpl in Hy; repeat (destruct Hy as [<-|Hy]; [try (left; reflexivity); right; simpl; intuition lia|]);
      contradiction.
Qed.
