(* C09 - Visibility: hidden iff asked, pruned iff empty by unweighted counts.
   Statements only; proofs in Proofs/OrderVisible.v, Proofs/OrderPruning.v; executable
   models Model/Collator.v (collators, hidden set, subtotal pruning) and
   Model/OrderPruning.v (pruning bases), tied to the code by harness/props/c09.py. *)
From Coq Require Import List ZArith Bool Lia Arith QArith String.
From CC Require Import Base.SortX Spec.OrderSpec Model.Collator Model.OrderPruning
  Proofs.OrderVisible Proofs.OrderPruning.
Import ListNotations.
Local Close Scope Q_scope.
Local Open Scope nat_scope.

(* A base element occurs in the display order of its dimension - whatever the collation:
   payload order, explicit order, sort by value, fallback - exactly when it is not
   explicitly hidden and not (pruning is on and it is empty).  [empties] is any list of
   empty-vector indexes, [psub] any subtotal-pruning decision. *)
Theorem C09_visible_iff d o empties psub order i :
  NoDup (d_ids d) -> values_fit d o ->
  display_order d o empties psub = Ok order ->
  (In (Z.of_nat i) order <->
   i < List.length (d_elems d)
   /\ ~ In i (hidden_idxs d)
   /\ ~ (d_prune d = true /\ In i empties)).
Proof. exact (display_visible_iff d o empties psub order i). Qed.
Print Assumptions C09_visible_iff.

(* "explicitly hidden": the element transform found under the element's id (or, failing
   that, under str(id)) has "hide": true *)
Theorem C09_hidden_flag d i :
  In i (hidden_idxs d) <->
  i < List.length (d_elems d) /\
  elem_hidden (d_hides d) (e_id (nth i (d_elems d) dflt_elem)) = true.
Proof. exact (hidden_idxs_in d i). Qed.
Print Assumptions C09_hidden_flag.

(* "empty": every unweighted count eligible for the vector is zero.  u[i][s1][j][s2] are
   the unweighted counts over valid elements (s = 0 selected / 1 not selected for a
   multiple-response item, only 0 otherwise).  Rows of a slice: *)
Theorem C09_rows_visible d o mrxmr (u : t4) w psub order i :
  NoDup (d_ids d) -> values_fit d o -> List.length u = List.length (d_elems d) ->
  display_order d o (empty_rows mrxmr u w) psub = Ok order ->
  (In (Z.of_nat i) order <->
   i < List.length (d_elems d)
   /\ ~ In i (hidden_idxs d)
   /\ ~ (d_prune d = true /\
         forall s1 j s2, (mrxmr = false \/ s1 = 0) -> cell4 u i s1 j s2 = 0)).
Proof. exact (rows_visible d o mrxmr u w psub order i). Qed.
Print Assumptions C09_rows_visible.

Theorem C09_columns_visible d o mrxmr (u : t4) w psub order j :
  NoDup (d_ids d) -> values_fit d o ->
  display_order d o (empty_columns mrxmr (List.length (d_elems d)) u w) psub = Ok order ->
  (In (Z.of_nat j) order <->
   j < List.length (d_elems d)
   /\ ~ In j (hidden_idxs d)
   /\ ~ (d_prune d = true /\
         forall i s1 s2, (mrxmr = false \/ s2 = 0) -> cell4 u i s1 j s2 = 0)).
Proof. exact (columns_visible d o mrxmr u w psub order j). Qed.
Print Assumptions C09_columns_visible.

Theorem C09_strand_rows_visible d o (u : list (list nat)) w order i :
  NoDup (d_ids d) -> values_fit d o -> List.length u = List.length (d_elems d) ->
  display_order d o (empty_strand_rows u w) false = Ok order ->
  (In (Z.of_nat i) order <->
   i < List.length (d_elems d)
   /\ ~ In i (hidden_idxs d)
   /\ ~ (d_prune d = true /\ forall s, nth s (nth i u []) 0 = 0)).
Proof. exact (strand_rows_visible d o u w order i). Qed.
Print Assumptions C09_strand_rows_visible.

(* weights play no part *)
Theorem C09_empty_unweighted mrxmr ncols (u : t4) (w w' : t4w) (us : list (list nat)) ws ws' :
  empty_rows mrxmr u w = empty_rows mrxmr u w' /\
  empty_columns mrxmr ncols u w = empty_columns mrxmr ncols u w' /\
  empty_strand_rows us ws = empty_strand_rows us ws'.
Proof. exact (empty_unweighted mrxmr ncols u w w' us ws ws'). Qed.
Print Assumptions C09_empty_unweighted.

(* a positive unweighted count in any (displayed = selected x selected) cell: never pruned *)
Theorem C09_positive_cell_not_pruned mrxmr ncols (u : t4) w i j :
  0 < cell4 u i 0 j 0 ->
  ~ In i (empty_rows mrxmr u w) /\ ~ In j (empty_columns mrxmr ncols u w).
Proof. exact (positive_cell_not_pruned mrxmr ncols u w i j). Qed.
Print Assumptions C09_positive_cell_not_pruned.

(* no respondent eligible (zero unweighted base over the opposing dimension): always empty *)
Theorem C09_no_eligible_pruned mrxmr ncols (u : t4) w :
  (forall i, i < List.length u -> (forall s1 j s2, cell4 u i s1 j s2 = 0) -> In i (empty_rows mrxmr u w)) /\
  (forall j, j < ncols -> (forall i s1 s2, cell4 u i s1 j s2 = 0) -> In j (empty_columns mrxmr ncols u w)).
Proof. exact (no_eligible_pruned mrxmr ncols u w). Qed.
Print Assumptions C09_no_eligible_pruned.

(* a multiple-response item that was answered but never selected is non-empty ... *)
Theorem C09_mr_unselected_nonempty ncols (u : t4) w i j s :
  (0 < cell4 u i 1 j s -> ~ In i (empty_rows false u w)) /\
  (0 < cell4 u i s j 1 -> ~ In j (empty_columns false ncols u w)).
Proof. exact (mr_unselected_nonempty ncols u w i j s). Qed.
Print Assumptions C09_mr_unselected_nonempty.

(* ... except when crossed with another multiple-response dimension: only selections count *)
Theorem C09_mrxmr_selected_only ncols (u : t4) w :
  (forall i, i < List.length u ->
     (In i (empty_rows true u w) <-> forall j s2, cell4 u i 0 j s2 = 0)) /\
  (forall j, j < ncols ->
     (In j (empty_columns true ncols u w) <-> forall i s1, cell4 u i s1 j 0 = 0)).
Proof. exact (mrxmr_selected_only ncols u w). Qed.
Print Assumptions C09_mrxmr_selected_only.

(* Subtotals are never pruned individually: every subtotal of the dimension is in the
   order, unless the OPPOSING dimension prunes and every one of its base vectors is empty -
   then none is. *)
Theorem C09_subtotal_pruning d o empties mrxmr ncols (u : t4) w col_prune order z :
  NoDup (d_ids d) -> values_fit d o -> (z < 0)%Z ->
  display_order d o empties
    (prune_subtotals col_prune (empty_columns mrxmr ncols u w) ncols) = Ok order ->
  (In z order <->
   (- Z.of_nat (List.length (subtotals d)) <= z)%Z
   /\ ~ (col_prune = true /\ forall j, j < ncols -> In j (empty_columns mrxmr ncols u w))).
Proof. exact (row_subtotals_visible d o empties mrxmr ncols u w col_prune order z). Qed.
Print Assumptions C09_subtotal_pruning.

Theorem C09_subtotal_iff d o empties psub order z :
  NoDup (d_ids d) -> values_fit d o -> (z < 0)%Z ->
  display_order d o empties psub = Ok order ->
  (In z order <-> psub = false /\ (- Z.of_nat (List.length (subtotals d)) <= z)%Z).
Proof. exact (display_subtotal_iff d o empties psub order z). Qed.
Print Assumptions C09_subtotal_iff.

(* an insertion flagged hidden is not a subtotal at all *)
Theorem C09_hidden_insertion ids i : i_hide i = true -> ins_valid ids i = false.
Proof. exact (hidden_insertion_not_valid ids i). Qed.
Print Assumptions C09_hidden_insertion.

(* non-vacuity: MR (3 items) x CAT (2 columns); item 1 answered but never selected, item 2
   never answered; rows prune.  Item 2 is pruned, item 1 is not, item 0 is hidden. *)
Example C09_example :
  let el i := mkElem (IStr i) false DNone in
  let d := mkDim [el "a"%string; el "b"%string; el "c"%string] true [] None
                 [(IStr "a"%string, HTrue)] true in
  let u : t4 := [ [[[2]; [0]]; [[1]; [1]]];      (* item a: selected 2, not selected 2 *)
                  [[[0]; [0]]; [[3]; [0]]];      (* item b: never selected, answered 3 *)
                  [[[0]; [0]]; [[0]; [0]]] ] in  (* item c: nobody eligible *)
  NoDup (d_ids d) /\
  display_order d (ByAnchor OPayload) (empty_rows false u []) false = Ok [1%Z] /\
  display_order d (ByAnchor OPayload) (empty_rows true u []) false = Ok [].
Proof.
  cbv zeta. split; [|split]; [|vm_compute; reflexivity|vm_compute; reflexivity].
  repeat constructor; simpl; intuition discriminate.
Qed.

(* ------------------------------------------------------------------------------------ *)
(* THE TIE TO THE SOURCE TEXT (DESIGN 2.4 (a)).  Gen/*.v is rewritten from
   /repo/src/cr/cube/{matrix,stripe}/cubemeasure.py on every check by the ast translator.  The
   theorems below say that what the source SAYS NOW for rows_pruning_mask / columns_pruning_mask
   of the class the factory picks for a (rows, columns) pair (the _BaseCubeCounts definitions
   "np.sum(self.row_bases, axis=1) == 0" / "np.sum(self.column_bases, axis=0) == 0" with the
   class's own bases, and the MR overrides), and for the stripe .pruning_base, has exactly the
   zero set the theorems above are stated with -- for all sizes ([teval]: Base/Tensor.v; [emb] /
   [emb1] lay the canonical u out as the class's own self._counts; [fits]: u has no cell outside
   the slice's shape).  [None] = the translator could not read the method (then only the
   correspondence ties it).  A change of meaning breaks these obligations. *)
From CC Require Import Base.XQ Base.Tensor Model.CubeCounts Gen.CubeCountsSrc Gen.StripeCountsSrc
     Proofs.GenAgreeTac Proofs.GenAgreePruning.
Local Close Scope Q_scope.
Local Open Scope nat_scope.

Theorem C09_gen_rows_pruning_mask :
  match src_CubeCounts_dispatch with
  | Some D => forall rc cc,
      meth src_methods (dict_pick (tag rc, tag cc) (fst D) (snd D)) "rows_pruning_mask"
        (fun e => forall u nr nc sr sc, fits u nr (sel_len rc sr) nc (sel_len cc sc) ->
           match teval (envC (shape_of rc cc nr nc sr sc) (emb rc cc u)) e with
           | TVal shp f =>
               shp = [nr] /\
               forall i, i < nr ->
                 (f [i] = Fin 1 <->
                  forall s1 j s2, (is_mm rc cc = false \/ s1 = 0) -> cell4 u i s1 j s2 = 0)
           | _ => False
           end)
  | None => True
  end.
Proof. exact gen_dispatch_rows_pruning_mask. Qed.
Print Assumptions C09_gen_rows_pruning_mask.

Theorem C09_gen_columns_pruning_mask :
  match src_CubeCounts_dispatch with
  | Some D => forall rc cc,
      meth src_methods (dict_pick (tag rc, tag cc) (fst D) (snd D)) "columns_pruning_mask"
        (fun e => forall u nr nc sr sc, fits u nr (sel_len rc sr) nc (sel_len cc sc) ->
           match teval (envC (shape_of rc cc nr nc sr sc) (emb rc cc u)) e with
           | TVal shp f =>
               shp = [nc] /\
               forall j, j < nc ->
                 (f [j] = Fin 1 <->
                  forall i s1 s2, (is_mm rc cc = false \/ s2 = 0) -> cell4 u i s1 j s2 = 0)
           | _ => False
           end)
  | None => True
  end.
Proof. exact gen_dispatch_columns_pruning_mask. Qed.
Print Assumptions C09_gen_columns_pruning_mask.

Theorem C09_gen_strand_pruning_base :
  match ssrc_CatCubeCounts_pruning_base with
  | Some e => strand_base_agrees CCat e | None => True end /\
  match ssrc_MrCubeCounts_pruning_base with
  | Some e => strand_base_agrees CMr e | None => True end /\
  match ssrc_NumArrCubeCounts_pruning_base with
  | Some e => strand_base_agrees CArr e | None => True end.
Proof.
  exact (conj gen_stripe_CatCubeCounts_pruning_base
        (conj gen_stripe_MrCubeCounts_pruning_base gen_stripe_NumArrCubeCounts_pruning_base)).
Qed.
Print Assumptions C09_gen_strand_pruning_base.

(* ... and that zero set is the model's list of empty vectors (Model/OrderPruning.v) *)
Theorem C09_gen_criterion_is_model mrxmr ncols (u : t4) (w : t4w) (us : list (list nat)) ws :
  (forall i, In i (empty_rows mrxmr u w) <->
     i < List.length u /\ forall s1 j s2, (mrxmr = false \/ s1 = 0) -> cell4 u i s1 j s2 = 0) /\
  (forall j, In j (empty_columns mrxmr ncols u w) <->
     j < ncols /\ forall i s1 s2, (mrxmr = false \/ s2 = 0) -> cell4 u i s1 j s2 = 0) /\
  (forall i, In i (empty_strand_rows us ws) <->
     i < List.length us /\ forall s, cell2 us i s = 0).
Proof.
  exact (conj (empty_rows_iff mrxmr u w)
        (conj (empty_columns_iff mrxmr ncols u w) (empty_strand_rows_iff us ws))).
Qed.
Print Assumptions C09_gen_criterion_is_model.

(* ------------------------------------------------------------------------------------ *)
(* DERIVED multiple-response items ("MR insertions": elements flagged derived, anchored top /
   bottom / before / after another item).  They are base elements: C09_visible_iff above already
   quantifies over them ([d_elems d] contains them, for every ordering).  Restated for them alone,
   because under an EXPLICIT order the collator (and the model) does not list them with the other
   base elements but positions them through a separate list (_derived_element_orderings,
   [derived_floats]) - a filter applied to the base-element orderings only would let them through. *)
From CC Require Import Proofs.OrderDerived.
Local Close Scope Q_scope.
Local Open Scope nat_scope.

Theorem C09_derived_positioned_separately d listed i :
  NoDup (d_ids d) ->
  i < List.length (d_elems d) /\ e_derived (nth i (d_elems d) dflt_elem) = true ->
  ~ In i (map fst (desc_of d (OExplicit listed)))
  /\ In (Z.of_nat i) (map fst (derived_floats d)).
Proof. exact (derived_positioned_separately d listed i). Qed.
Print Assumptions C09_derived_positioned_separately.

Theorem C09_derived_explicit_visible_iff d listed empties psub order i :
  NoDup (d_ids d) ->
  i < List.length (d_elems d) /\ e_derived (nth i (d_elems d) dflt_elem) = true ->
  display_order d (ByAnchor (OExplicit listed)) empties psub = Ok order ->
  (In (Z.of_nat i) order <->
   ~ In i (hidden_idxs d) /\ ~ (d_prune d = true /\ In i empties)).
Proof. exact (derived_explicit_visible_iff d listed empties psub order i). Qed.
Print Assumptions C09_derived_explicit_visible_iff.

Theorem C09_derived_visible_iff d o empties psub order i :
  NoDup (d_ids d) -> values_fit d o ->
  i < List.length (d_elems d) /\ e_derived (nth i (d_elems d) dflt_elem) = true ->
  display_order d o empties psub = Ok order ->
  (In (Z.of_nat i) order <->
   ~ In i (hidden_idxs d) /\ ~ (d_prune d = true /\ In i empties)).
Proof. exact (derived_visible_iff d o empties psub order i). Qed.
Print Assumptions C09_derived_visible_iff.

(* non-vacuity: items "ab" (derived, top), a, b, c, "cd" (derived, after c), explicit order c, a.
   Nothing hidden: ab c cd a b.  "cd" hidden by its flag: ab c a b.  "ab" hidden, c and "cd"
   answered by nobody and rows pruned: a b; without prune: c cd a b. *)
Example C09_derived_example :
  let dd prune hides :=
    Collator.mkDim [mkElem (IStr "ab"%string) true DTop; mkElem (IStr "a"%string) false DNone;
           mkElem (IStr "b"%string) false DNone; mkElem (IStr "c"%string) false DNone;
           mkElem (IStr "cd"%string) true (DRel false (IStr "c"%string))]
          true [] None hides prune in
  let o := ByAnchor (OExplicit [IStr "c"%string; IStr "a"%string]) in
  NoDup (d_ids (dd false [])) /\
  display_order (dd false []) o [] false = Ok [0; 3; 4; 1; 2]%Z /\
  display_order (dd false [(IStr "cd"%string, HTrue)]) o [] false = Ok [0; 3; 1; 2]%Z /\
  display_order (dd true [(IStr "ab"%string, HTrue)]) o [3; 4] false = Ok [1; 2]%Z /\
  display_order (dd false [(IStr "ab"%string, HTrue)]) o [3; 4] false = Ok [3; 4; 1; 2]%Z.
Proof.
  cbv zeta. split; [|repeat split; vm_compute; reflexivity].
  repeat constructor; simpl; intuition discriminate.
Qed.

(* ------------------------------------------------------------------------------------ *)
(* SUBTOTALS FLAGGED HIDDEN, wherever the insertion is defined.  [list_in_force d] is the
   transforms' "insertions" list when the transforms carry that key, else the list of the variable
   VIEW (references.view.transform.insertions).  The subtotals of a dimension are, in definition
   order, exactly the insertions of the list in force that are well-formed, NOT flagged
   "hide": true and have a valid addend: the flag counts on a view insertion as on a transforms
   insertion, and the view's flags play no part once the transforms override the list.  Together
   with C09_subtotal_iff (every subtotal, and nothing else negative, is in the order unless the
   opposing dimension prunes everything) this is "a subtotal is shown iff it is not flagged
   hidden".  Proofs/OrderViewHide.v. *)
From CC Require Import Proofs.OrderViewHide.
Local Close Scope Q_scope.
Local Open Scope nat_scope.

Theorem C09_subtotal_shown_iff_not_flagged d i :
  d_array d = false ->
  (In i (map snd (subtotals d)) <->
   In i (list_in_force d) /\ i_wf i = true /\ i_hide i = false
   /\ existsb (fun t => imem t (d_ids d)) (i_terms i) = true).
Proof. exact (subtotal_iff d i). Qed.
Print Assumptions C09_subtotal_shown_iff_not_flagged.

Theorem C09_subtotals_count d :
  d_array d = false ->
  List.length (subtotals d) = List.length (filter (ins_valid (d_ids d)) (list_in_force d)).
Proof. exact (subtotals_count d). Qed.
Print Assumptions C09_subtotals_count.

Theorem C09_view_insertion_flagged_hidden d i :
  d_array d = false -> d_tins d = None -> In i (d_view d) -> i_hide i = true ->
  ~ In i (map snd (subtotals d)).
Proof. exact (view_hidden_not_subtotal d i). Qed.
Print Assumptions C09_view_insertion_flagged_hidden.

Theorem C09_transforms_insertions_override_view d l :
  d_array d = false -> d_tins d = Some l ->
  map snd (subtotals d) = filter (ins_valid (d_ids d)) l.
Proof. exact (transforms_insertions_override d l). Qed.
Print Assumptions C09_transforms_insertions_override_view.

(* non-vacuity: categories 1 2 3; the VIEW defines three subtotals (top: 1+2, after 2: 2+3
   flagged hidden, bottom: 3).  View in force: the flagged one is gone (order -3 0 1 2 -1 with
   two subtotals).  Transforms list = a copy of the flagged one WITHOUT the flag: only that one is
   shown, after its anchor.  Transforms list empty: no subtotal. *)
Example C09_view_hide_example :
  let el z := mkElem (IInt z) false DNone in
  let ins a h ts := mkIns None a true h (map IInt ts) in
  let view := [ins (IStr "top"%string) false [1; 2]%Z; ins (IInt 2%Z) true [2; 3]%Z;
               ins (IStr "bottom"%string) false [3]%Z] in
  let dd tins := Collator.mkDim [el 1%Z; el 2%Z; el 3%Z] false view tins [] false in
  List.length (subtotals (dd None)) = 2 /\
  display_order (dd None) (ByAnchor OPayload) [] false = Ok [-2; 0; 1; 2; -1]%Z /\
  display_order (dd (Some [ins (IInt 2%Z) false [2; 3]%Z])) (ByAnchor OPayload) [] false
    = Ok [0; 1; -1; 2]%Z /\
  display_order (dd (Some [])) (ByAnchor OPayload) [] false = Ok [0; 1; 2]%Z.
Proof. cbv zeta. repeat split; vm_compute; reflexivity. Qed.

(*BEGIN GenAgreeCollator_C09*)
(* ------------------------------------------------------------------------------------ *)
(* SOURCE TEXT of _BaseCollator._hidden_idxs, for each concrete collator class
   (harness/translate/x_collator.py -> Gen/CollatorSrc.v, see the appendix of Props/C07.v): the set the
   three `_display_order` / `payload_order` filters read is the model's [collator_hidden] - the empty
   vectors if the dimension prunes, plus the dimension's hidden elements - and the public orders, where
   the `if idx not in hidden_idxs` filter sits, are the model's display orders (whose visibility
   theorems are above). *)
From CC Require Proofs.GenAgreeCollatorAnchored Proofs.GenAgreeCollatorSbv.
Section GenAgreeCollator_C09.   (* scopes and imports below end with the section *)
Import Coq.Lists.List Coq.ZArith.ZArith CC.Base.SortX CC.Base.PyList CC.Spec.OrderSpec CC.Model.Collator
       CC.Model.PyCollator CC.Gen.CollatorSrc CC.Proofs.GenAgreeCollatorLib CC.Proofs.GenAgreeCollatorAnchored
       CC.Proofs.GenAgreeCollatorSbv.
Import Coq.Lists.List.ListNotations.
Local Open Scope Z_scope.

Theorem C09_gen_Payload__hidden_idxs :
  match src_PayloadOrderCollator__hidden_idxs with
  | Some f => forall d spec empties fmt vals svals,
      f (pyself_of d spec empties fmt vals svals) = map Z.of_nat (collator_hidden d empties)
  | None => True end.
Proof. exact gen_Payload__hidden_idxs. Qed.
Print Assumptions C09_gen_Payload__hidden_idxs.

Theorem C09_gen_Payload__display_order :
  match src_PayloadOrderCollator__display_order with
  | Some f => forall d spec empties fmt vals svals,
      f (pyself_of d spec empties fmt vals svals)
      = display_result fmt (anchored_display d OPayload empties)
                           (anchored_display_bogus d OPayload empties)
  | None => True end.
Proof. exact gen_Payload__display_order. Qed.
Print Assumptions C09_gen_Payload__display_order.

Theorem C09_gen_Payload_payload_order :
  match src_PayloadOrderCollator_payload_order with
  | Some f => forall d spec empties fmt vals svals,
      f (pyself_of d spec empties fmt vals svals) = payload_order d empties
  | None => True end.
Proof. exact gen_Payload_payload_order. Qed.
Print Assumptions C09_gen_Payload_payload_order.

Theorem C09_gen_Explicit__hidden_idxs :
  match src_ExplicitOrderCollator__hidden_idxs with
  | Some f => forall d spec empties fmt vals svals,
      f (pyself_of d spec empties fmt vals svals) = map Z.of_nat (collator_hidden d empties)
  | None => True end.
Proof. exact gen_Explicit__hidden_idxs. Qed.
Print Assumptions C09_gen_Explicit__hidden_idxs.

Theorem C09_gen_Explicit__display_order :
  match src_ExplicitOrderCollator__display_order with
  | Some f => forall d spec empties fmt vals svals, NoDup (d_ids d) ->
      f (pyself_of d spec empties fmt vals svals)
      = display_result fmt (anchored_display d (OExplicit (po_element_ids spec)) empties)
                           (anchored_display_bogus d (OExplicit (po_element_ids spec)) empties)
  | None => True end.
Proof. exact gen_Explicit__display_order. Qed.
Print Assumptions C09_gen_Explicit__display_order.

Theorem C09_gen_Payload_display_order :
  match src_PayloadOrderCollator_display_order with
  | Some f => forall d spec empties fmt,
      f (pydim_of d spec) (map Z.of_nat empties) fmt
      = display_result fmt (anchored_display d OPayload empties)
                           (anchored_display_bogus d OPayload empties)
  | None => True end.
Proof. exact gen_Payload_display_order. Qed.
Print Assumptions C09_gen_Payload_display_order.

Theorem C09_gen_Explicit_display_order :
  match src_ExplicitOrderCollator_display_order with
  | Some f => forall d spec empties fmt, NoDup (d_ids d) ->
      f (pydim_of d spec) (map Z.of_nat empties) fmt
      = display_result fmt (anchored_display d (OExplicit (po_element_ids spec)) empties)
                           (anchored_display_bogus d (OExplicit (po_element_ids spec)) empties)
  | None => True end.
Proof. exact gen_Explicit_display_order. Qed.
Print Assumptions C09_gen_Explicit_display_order.

Theorem C09_gen_Sbv__hidden_idxs :
  match src_SortByValueCollator__hidden_idxs with
  | Some f => forall d spec empties fmt vals svals,
      f (pyself_of d spec empties fmt vals svals) = map Z.of_nat (collator_hidden d empties)
  | None => True end.
Proof. exact gen_Sbv__hidden_idxs. Qed.
Print Assumptions C09_gen_Sbv__hidden_idxs.

Theorem C09_gen_Sbv__display_order :
  match src_SortByValueCollator__display_order with
  | Some f => forall d spec empties fmt vals svals,
      f (pyself_of d spec empties fmt vals svals)
      = display_result fmt
          (Ok (sbv_display d (sort_of spec) vals svals empties))
          (render_bogus (order_mapping (plain_bogus_ids d))
                        (sbv_display d (sort_of spec) vals svals empties))
  | None => True end.
Proof. exact gen_Sbv__display_order. Qed.
Print Assumptions C09_gen_Sbv__display_order.

Theorem C09_gen_Sbv_display_order :
  match src_SortByValueCollator_display_order with
  | Some f => forall d spec vals svals empties fmt,
      f (pydim_of d spec) vals svals (map Z.of_nat empties) fmt
      = display_result fmt
          (Ok (sbv_display d (sort_of spec) vals svals empties))
          (render_bogus (order_mapping (plain_bogus_ids d))
                        (sbv_display d (sort_of spec) vals svals empties))
  | None => True end.
Proof. exact gen_Sbv_display_order. Qed.
Print Assumptions C09_gen_Sbv_display_order.

End GenAgreeCollator_C09.
(*END GenAgreeCollator_C09*)

(* ---- WIRING-APPENDIX:BEGIN (generated by tools/gen_wiring_props.py; do not edit) ---- *)
From CC Require Proofs.GenAgreeWiring_C09.
Section Wiring_C09.
Import Coq.Lists.List Coq.ZArith.ZArith Coq.Strings.String CC.Base.WiringExp CC.Gen.WiringSrc.
Import ListNotations.
Local Open Scope string_scope.

Theorem C09_wiring_SecondOrderMeasures_columns_pruning_mask :
  wsrc_SecondOrderMeasures_columns_pruning_mask = Some (WAttr (WAttr (WSelf "_cube_measures")
      "unweighted_cube_counts") "columns_pruning_mask").
Proof. exact Proofs.GenAgreeWiring_C09.gen_wiring_SecondOrderMeasures_columns_pruning_mask. Qed.
Print Assumptions C09_wiring_SecondOrderMeasures_columns_pruning_mask.

Theorem C09_wiring_SecondOrderMeasures_rows_pruning_mask :
  wsrc_SecondOrderMeasures_rows_pruning_mask = Some (WAttr (WAttr (WSelf "_cube_measures")
      "unweighted_cube_counts") "rows_pruning_mask").
Proof. exact Proofs.GenAgreeWiring_C09.gen_wiring_SecondOrderMeasures_rows_pruning_mask. Qed.
Print Assumptions C09_wiring_SecondOrderMeasures_rows_pruning_mask.

Theorem C09_wiring_StripeMeasures_pruning_base :
  wsrc_StripeMeasures_pruning_base = Some (WAttr (WAttr (WSelf "_cube_measures")
      "unweighted_cube_counts") "pruning_base").
Proof. exact Proofs.GenAgreeWiring_C09.gen_wiring_StripeMeasures_pruning_base. Qed.
Print Assumptions C09_wiring_StripeMeasures_pruning_base.

End Wiring_C09.
(* ---- WIRING-APPENDIX:END ---- *)

(*BEGIN GenAgreeDimension_C09*)
(* ------------------------------------------------------------------------------------ *)
(* SOURCE TEXT of the dimension side of visibility (harness/translate/x_dimension.py -> Gen/DimensionSrc.v, see the
   appendix of Props/C04.v): _ElementTransforms.hide, Element.is_hidden, Element.missing, Dimension.prune read the
   transforms the way Model/Collator.v does - "hide" is one of True / False / anything else ([hideval_of]), an element
   is hidden exactly when it is True, the dimension prunes exactly when "prune" is True; Elements.from_typedef builds
   one Element per definition with the transforms `all_xforms.get(id, all_xforms.get(str(id), {}))` ([xform_of]; no
   "order" key, dimension type other than MR_SUBVAR / DATETIME), Elements.valid_elements drops the missing ones, and
   Dimension.hidden_idxs IS [hidden_idxs d] for every dimension d whose [d_hides] reads the "elements" transforms
   ([ax_abs]) and whose ids are the valid element ids. *)
From CC Require Proofs.GenAgreeDimensionVisibility Base.Ident.
Section GenAgreeDimension_C09.   (* scopes and imports below end with the section *)
Import Coq.Lists.List Coq.ZArith.ZArith Coq.Strings.String Coq.Bool.Bool CC.Base.XQ CC.Base.PyList CC.Base.PyDict
       CC.Model.DimType CC.Model.Subtotals CC.Model.SubtotalIds CC.Model.PyDimension CC.Gen.DimensionSrc
       CC.Proofs.GenAgreeDimensionLib CC.Proofs.GenAgreeDimensionSubtotal CC.Spec.OrderSpec CC.Model.Collator
       CC.Proofs.GenAgreeDimensionAnchors CC.Proofs.GenAgreeDimensionVisibility.
Import Coq.Lists.List.ListNotations.
Local Close Scope Q_scope.
Local Open Scope Z_scope.

Theorem C09_gen_dim__ElementTransforms_hide :
  match src__ElementTransforms_hide with
  | Some f => forall x, f (mkPyXforms (JDict x))
                        = Ok (jv_of_hideval (hideval_of (jd_get_default x (JStr "hide") JNone)))
  | None => True end.
Proof. exact gen__ElementTransforms_hide. Qed.
Print Assumptions C09_gen_dim__ElementTransforms_hide.

Theorem C09_gen_dim_Element_is_hidden :
  match src_Element_is_hidden with
  | Some f => forall ed idx x t,
      f (mkPyElement ed idx (mkPyXforms (JDict x)) t)
      = Ok (JBool (hidden_of (hideval_of (jd_get_default x (JStr "hide") JNone))))
  | None => True end.
Proof. exact gen_Element_is_hidden. Qed.
Print Assumptions C09_gen_dim_Element_is_hidden.

Theorem C09_gen_dim_Dimension_prune :
  match src_Dimension_prune with
  | Some f => forall t dd tr,
      f (mkPyDimension t dd (JDict tr)) = Ok (jv_is_true (jd_get_default tr (JStr "prune") JNone))
  | None => True end.
Proof. exact gen_Dimension_prune. Qed.
Print Assumptions C09_gen_dim_Dimension_prune.

Theorem C09_gen_dim_Element_missing :
  match src_Element_missing with
  | Some f => forall e idx xf t,
      f (mkPyElement (JDict e) idx xf t) = Ok (jv_truthy (jd_get_default e (JStr "missing") JNone))
  | None => True end.
Proof. exact gen_Element_missing. Qed.
Print Assumptions C09_gen_dim_Element_missing.

Theorem C09_gen_dim_fn__formatter :
  match src_fn__formatter with
  | Some f => forall t ty fmt, dtype_eqb t TDatetime = false -> f t ty fmt = Ok tt
  | None => True end.
Proof. exact gen_fn__formatter. Qed.
Print Assumptions C09_gen_dim_fn__formatter.

Theorem C09_gen_dim_Elements_from_typedef :
  match src_Elements_from_typedef with
  | Some f => forall ty tr t fmt defs ids ax,
      dtype_eqb t TMrSubvar = false -> dtype_eqb t TDatetime = false ->
      typedef_defs ty = Some defs -> jd_get_default ty (JStr "order") JNone = JNone ->
      jd_get_default tr (JStr "elements") (JDict []) = JDict ax ->
      Forall2 (wf_def t) defs ids ->
      f (JDict ty) (JDict tr) t fmt = Ok (elements_from t ax 0 defs ids)
  | None => True end.
Proof. exact gen_Elements_from_typedef. Qed.
Print Assumptions C09_gen_dim_Elements_from_typedef.

Theorem C09_gen_dim_Elements_valid_elements :
  match src_Elements_valid_elements with
  | Some f => forall els, Forall el_is_dict els -> f els = Ok (filter (fun el => negb (el_missing el)) els)
  | None => True end.
Proof. exact gen_Elements_valid_elements. Qed.
Print Assumptions C09_gen_dim_Elements_valid_elements.

Theorem C09_gen_dim_Dimension_all_elements :
  match src_Dimension_all_elements with
  | Some f => forall t dd tr ty defs ids ax, dim_reads t dd tr ty defs ids ax ->
      f (mkPyDimension t (JDict dd) (JDict tr)) = Ok (elements_from t ax 0 defs ids)
  | None => True end.
Proof. exact gen_Dimension_all_elements. Qed.
Print Assumptions C09_gen_dim_Dimension_all_elements.

Theorem C09_gen_dim_Dimension_valid_elements :
  match src_Dimension_valid_elements with
  | Some f => forall t dd tr ty defs ids ax, dim_reads t dd tr ty defs ids ax ->
      f (mkPyDimension t (JDict dd) (JDict tr)) = Ok (valid_elems t ax defs ids)
  | None => True end.
Proof. exact gen_Dimension_valid_elements. Qed.
Print Assumptions C09_gen_dim_Dimension_valid_elements.

Theorem C09_gen_dim_Dimension_element_ids :
  match src_Dimension_element_ids with
  | Some f => forall t dd tr ty defs ids ax, dim_reads t dd tr ty defs ids ax ->
      f (mkPyDimension t (JDict dd) (JDict tr)) = Ok (map jv_of_ident (valid_ids defs ids))
  | None => True end.
Proof. exact gen_Dimension_element_ids. Qed.
Print Assumptions C09_gen_dim_Dimension_element_ids.

Theorem C09_gen_dim_Dimension_hidden_idxs :
  match src_Dimension_hidden_idxs with
  | Some f => forall t dd tr ty defs ids ax d, dim_reads t dd tr ty defs ids ax ->
      ax_abs ax (d_hides d) -> d_ids d = map oid (valid_ids defs ids) ->
      f (mkPyDimension t (JDict dd) (JDict tr)) = Ok (map Z.of_nat (hidden_idxs d))
  | None => True end.
Proof. exact gen_Dimension_hidden_idxs. Qed.
Print Assumptions C09_gen_dim_Dimension_hidden_idxs.

End GenAgreeDimension_C09.
(*END GenAgreeDimension_C09*)
