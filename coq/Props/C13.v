(* C13 - Pairwise column tests: statistic, p-value and index sets.
   Only statements: each closed by [exact <lemma>] and followed by [Print Assumptions].
   Model: Model/Pairwise.v (tied to matrix/measure.py, cubepart.py and
   measures/pairwise_significance.py by the correspondence check harness/props/c13.py).
   Proofs: Proofs/PairwiseProofs.v, PairwiseIndices.v, PairwiseXQ.v, ZscorePval.v.

   The model carries t*|t| (signed square) for every statistic: t^2 = |t*|t||, sign t = sign(t*|t|).
   Cell (row, b) against selected column a: p = proportion of b, n = base of b, p0, n0 those of a. *)
From Coq Require Import QArith Qabs ZArith List Bool Lia Arith Reals Sorted.
From CC Require Import Base.XQ Base.ListX Model.Pairwise
  Proofs.PairwiseXQ Proofs.PairwiseProofs Proofs.PairwiseIndices Proofs.ZscorePval.
Import ListNotations.
Local Close Scope R_scope.
Local Close Scope Q_scope.
Local Open Scope nat_scope.

(* ==== the statistic ============================================================================ *)
(* (1) t = (p - p0) / sqrt(p(1-p)/n + p0(1-p0)/n0), as t|t|; the abs the code takes under the
   square root is a no-op whenever the variance sum is positive *)
Theorem C13_t_formula (p n p0 n0 : Q) :
  (0 < n)%Q -> (0 < n0)%Q -> (0 < p * (1 - p) / n + p0 * (1 - p0) / n0)%Q ->
  t_tabs (Fin p) (Fin n) (Fin p0) (Fin n0) =x=
  Fin ((p - p0) * Qabs (p - p0) / (p * (1 - p) / n + p0 * (1 - p0) / n0))%Q.
Proof. exact (t_formula p n p0 n0). Qed.
Print Assumptions C13_t_formula.

Theorem C13_t_sq_formula (p n p0 n0 : Q) :
  (0 < n)%Q -> (0 < n0)%Q -> (0 < p * (1 - p) / n + p0 * (1 - p0) / n0)%Q ->
  t_sq (Fin p) (Fin n) (Fin p0) (Fin n0) =x=
  Fin ((p - p0) * (p - p0) / (p * (1 - p) / n + p0 * (1 - p0) / n0))%Q.
Proof. exact (t_sq_formula p n p0 n0). Qed.
Print Assumptions C13_t_sq_formula.

(* proportions in [0,1] with positive bases: the variance sum is never negative *)
Theorem C13_variance_nonneg (p n p0 n0 : Q) :
  (0 <= p)%Q -> (p <= 1)%Q -> (0 <= p0)%Q -> (p0 <= 1)%Q -> (0 < n)%Q -> (0 < n0)%Q ->
  (0 <= p * (1 - p) / n + p0 * (1 - p0) / n0)%Q.
Proof. exact (qS_nonneg p n p0 n0). Qed.
Print Assumptions C13_variance_nonneg.

(* (2) sign / only-larger condition: t < 0 iff the compared proportion is the smaller one *)
Theorem C13_t_negative_iff_smaller (p n p0 n0 : Q) :
  (0 < n)%Q -> (0 < n0)%Q -> (0 < p * (1 - p) / n + p0 * (1 - p0) / n0)%Q ->
  (xltb (t_tabs (Fin p) (Fin n) (Fin p0) (Fin n0)) (Fin 0) = true <-> (p < p0)%Q).
Proof. exact (t_only_larger_iff p n p0 n0). Qed.
Print Assumptions C13_t_negative_iff_smaller.

(* (3) antisymmetry - for ALL values, NaN and infinities included *)
Theorem C13_t_antisym (p n p0 n0 : xq) : t_tabs p0 n0 p n =x= xneg (t_tabs p n p0 n0).
Proof. exact (t_antisym p n p0 n0). Qed.
Print Assumptions C13_t_antisym.

Theorem C13_t_sq_sym (p n p0 n0 : xq) : t_sq p0 n0 p n =x= t_sq p n p0 n0.
Proof. exact (t_sq_sym p n p0 n0). Qed.
Print Assumptions C13_t_sq_sym.

(* (4) a column against itself: t = 0, except 0/0 = NaN when its proportion is 0 or 1 *)
Theorem C13_t_self_zero (p n : Q) : ~ (n == 0)%Q -> ~ (p * (1 - p) == 0)%Q ->
  t_tabs (Fin p) (Fin n) (Fin p) (Fin n) =x= Fin 0.
Proof. exact (t_self_zero p n). Qed.
Print Assumptions C13_t_self_zero.

Theorem C13_t_self_nan (p n : Q) : ~ (n == 0)%Q -> (p * (1 - p) == 0)%Q ->
  t_tabs (Fin p) (Fin n) (Fin p) (Fin n) = NaN.
Proof. exact (t_self_nan p n). Qed.
Print Assumptions C13_t_self_nan.

(* (5) degrees of freedom n + n0 - 2, symmetric *)
Theorem C13_df (n n0 : Q) : t_df (Fin n) (Fin n0) =x= Fin (n + n0 - 2)%Q.
Proof. exact (t_df_fin n n0). Qed.
Print Assumptions C13_df.

Theorem C13_df_sym (n n0 : xq) : t_df n0 n =x= t_df n n0.
Proof. exact (t_df_sym n n0). Qed.
Print Assumptions C13_df_sym.

(* (6) blocks: every cell of every block is compared with the selected column of ITS OWN row;
   the reference is column sel of the base block or (sel < 0, a subtotal column) column
   ncols+sel of the inserted-column block *)
Theorem C13_block_cell P N rp rn i j : i < nrows P -> j < ncols P ->
  mnth (pw_tblock P N rp rn) i j = t_tabs (mnth P i j) (mnth N i j) (vnth rp i) (vnth rn i).
Proof. exact (pw_tblock_cell P N rp rn i j). Qed.
Print Assumptions C13_block_cell.

Theorem C13_block_df N rn i j : i < nrows N -> j < ncols N ->
  mnth (pw_dfblock N rn) i j = t_df (mnth N i j) (vnth rn i).
Proof. exact (pw_dfblock_cell N rn i j). Qed.
Print Assumptions C13_block_df.

Theorem C13_reference_base sel base ins i : (0 <= sel)%Z -> i < nrows base ->
  vnth (ref_col sel base ins) i = mnth base i (Z.to_nat sel).
Proof. exact (ref_col_base sel base ins i). Qed.
Print Assumptions C13_reference_base.

Theorem C13_reference_subtotal sel base ins i : (sel < 0)%Z -> i < nrows ins ->
  vnth (ref_col sel base ins) i = mnth ins i (Z.to_nat (Z.of_nat (ncols ins) + sel)).
Proof. exact (ref_col_inserted sel base ins i). Qed.
Print Assumptions C13_reference_subtotal.

(* ==== the base ================================================================================== *)
(* (7) with squared weights n is the effective base (sum w)^2 / sum w^2, cell by cell *)
Theorem C13_effective_base (ws : list Q) : ~ (qsum (map (fun w => w * w) ws) == 0)%Q ->
  eff_base (Fin (qsum ws)) (Fin (qsum (map (fun w => w * w)%Q ws))) =x=
  Fin (qsum ws * qsum ws / qsum (map (fun w => w * w) ws))%Q.
Proof. exact (eff_base_weights ws). Qed.
Print Assumptions C13_effective_base.

Theorem C13_effective_base_cell W SQ i j : i < nrows W -> j < ncols W ->
  mnth (eff_block W SQ) i j = eff_base (mnth W i j) (mnth SQ i j).
Proof. exact (eff_block_cell W SQ i j). Qed.
Print Assumptions C13_effective_base_cell.

(* sanity: n respondents of one common weight have effective base n *)
Theorem C13_effective_base_equal_weights (n : nat) (w : Q) : 0 < n -> ~ (w == 0)%Q ->
  eff_base (Fin (qsum (repeat w n))) (Fin (qsum (map (fun x => x * x)%Q (repeat w n)))) =x=
  Fin (inject_Z (Z.of_nat n)).
Proof. exact (eff_base_equal_weights n w). Qed.
Print Assumptions C13_effective_base_equal_weights.

(* (8) the legacy path computes the same statistic from its bases ... *)
Theorem C13_legacy_same_statistic (p n p0 n0 : xq) (s : Q) :
  xadd (prop_var p n) (prop_var p0 n0) = Fin s -> (0 <= s)%Q ->
  legacy_tabs p n p0 n0 =x= t_tabs p n p0 n0.
Proof. exact (legacy_tabs_eq p n p0 n0 s). Qed.
Print Assumptions C13_legacy_same_statistic.

Theorem C13_legacy_base_without_squared_weights w ub : legacy_base w ub None = ub.
Proof. exact (legacy_base_no_squared w ub). Qed.
Print Assumptions C13_legacy_base_without_squared_weights.

(* ... and with squared weights its base is the effective base (sum w)^2 / sum w^2 of the WEIGHTED
   margin, for every list of respondent weights and whatever the unweighted base (this is the
   statement that C13_legacy_effective_base_refuted contradicted before repair 5cd12b80) *)
Theorem C13_legacy_effective_base (ws : list Q) (ub : xq) :
  ~ (qsum (map (fun x => x * x) ws) == 0)%Q ->
  legacy_base (Fin (qsum ws)) ub (Some (Fin (qsum (map (fun x => x * x)%Q ws)))) =x=
  Fin (qsum ws * qsum ws / qsum (map (fun x => x * x) ws))%Q.
Proof. exact (legacy_effective_base ws ub). Qed.
Print Assumptions C13_legacy_effective_base.

Theorem C13_legacy_base_is_effective_base w ub sq : legacy_base w ub (Some sq) = eff_base w sq.
Proof. exact (legacy_base_squared w ub sq). Qed.
Print Assumptions C13_legacy_base_is_effective_base.

(* legacy statistic == matrix-path statistic with n = W^2 / SQ, cell by cell (display-order
   matrices, selected display column c), in every row i whose per-cell squared bases SQ[i,.] are
   the vector the legacy path is given ... *)
Theorem C13_legacy_matches_matrix_path props W UB SQ sqv c i j (s : Q) :
  i < nrows props -> j < ncols props -> c < ncols props ->
  nrows W = nrows props -> ncols W = ncols props ->
  mnth SQ i j = vnth sqv j -> mnth SQ i c = vnth sqv c ->
  xadd (prop_var (mnth props i j) (mnth (eff_block W SQ) i j))
       (prop_var (mnth props i c) (mnth (eff_block W SQ) i c)) = Fin s -> (0 <= s)%Q ->
  mnth (legacy_t props W UB (Some sqv) c) i j =x=
  mnth (pw_tblock props (eff_block W SQ) (mcol props c) (mcol (eff_block W SQ) c)) i j.
Proof. exact (legacy_matches_matrix_path props W UB SQ sqv c i j s). Qed.
Print Assumptions C13_legacy_matches_matrix_path.

(* ... the vector it is given is the FIRST row of SQ (slice.columns_squared_base): equality in the
   first row, and in every row of a table whose rows share their column bases (categorical rows) *)
Theorem C13_legacy_matches_matrix_path_shared_bases props W UB SQ c i j (s : Q) :
  i < nrows props -> j < ncols props -> c < ncols props ->
  nrows W = nrows props -> ncols W = ncols props ->
  mrow SQ i = mrow SQ 0 ->
  xadd (prop_var (mnth props i j) (mnth (eff_block W SQ) i j))
       (prop_var (mnth props i c) (mnth (eff_block W SQ) i c)) = Fin s -> (0 <= s)%Q ->
  mnth (legacy_t props W UB (Some (mrow SQ 0)) c) i j =x=
  mnth (pw_tblock props (eff_block W SQ) (mcol props c) (mcol (eff_block W SQ) c)) i j.
Proof. exact (legacy_matches_matrix_path_first_row props W UB SQ c i j s). Qed.
Print Assumptions C13_legacy_matches_matrix_path_shared_bases.

(* ... REFUTED without the hypothesis  mrow SQ i = mrow SQ 0  (MR rows: every row item has its
   own bases; open finding C13-legacy-squared-base-first-row-mr): in row i >= 1 the legacy base is
   W[i,j]^2 / SQ[0,j].
   Full statement that fails: the theorem above for all i < nrows props. *)
Theorem C13_legacy_squared_base_first_row_refuted :
  exists (props W UB SQ : mat) (c i j : nat),
    i < nrows props /\ j < ncols props /\ c < ncols props /\
    nrows W = nrows props /\ ncols W = ncols props /\
    ~ (mnth (legacy_t props W UB (Some (mrow SQ 0)) c) i j =x=
       mnth (pw_tblock props (eff_block W SQ) (mcol props c) (mcol (eff_block W SQ) c)) i j).
Proof. exact legacy_squared_base_first_row_refuted. Qed.
Print Assumptions C13_legacy_squared_base_first_row_refuted.

(* ==== means: Welch ================================================================================ *)
Theorem C13_welch_formula (m s n m0 s0 n0 : Q) :
  ~ (n == 0)%Q -> ~ (n0 == 0)%Q -> (0 < s * s / n + s0 * s0 / n0)%Q ->
  welch_tabs (Fin m) (Fin s) (Fin n) (Fin m0) (Fin s0) (Fin n0) =x=
  Fin ((m - m0) * Qabs (m - m0) / (s * s / n + s0 * s0 / n0))%Q.
Proof. exact (welch_formula m s n m0 s0 n0). Qed.
Print Assumptions C13_welch_formula.

Theorem C13_welch_antisym (m s n m0 s0 n0 : xq) :
  welch_tabs m0 s0 n0 m s n =x= xneg (welch_tabs m s n m0 s0 n0).
Proof. exact (welch_antisym m s n m0 s0 n0). Qed.
Print Assumptions C13_welch_antisym.

(* Satterthwaite degrees of freedom, symmetric *)
Theorem C13_welch_df (s n s0 n0 : Q) :
  ~ (n == 0)%Q -> ~ (n0 == 0)%Q -> ~ (n - 1 == 0)%Q -> ~ (n0 - 1 == 0)%Q ->
  let a := (s * s / n)%Q in
  let b := (s0 * s0 / n0)%Q in
  ~ (a * a / (n - 1) + b * b / (n0 - 1) == 0)%Q ->
  welch_df (Fin s) (Fin n) (Fin s0) (Fin n0) =x=
  Fin ((a + b) * (a + b) / (a * a / (n - 1) + b * b / (n0 - 1)))%Q.
Proof. exact (welch_df_formula s n s0 n0). Qed.
Print Assumptions C13_welch_df.

Theorem C13_welch_df_sym (s n s0 n0 : xq) : welch_df s0 n0 s n =x= welch_df s n s0 n0.
Proof. exact (welch_df_sym s n s0 n0). Qed.
Print Assumptions C13_welch_df_sym.

(* ==== overlapping MR columns ======================================================================= *)
Theorem C13_overlap_formula (cpa cpb Sa Sb Sab Na Nb Nab : Q) :
  ~ (Na == 0)%Q -> ~ (Nb == 0)%Q -> ~ (Nab == 0)%Q -> ~ (Na + Nb - Nab == 0)%Q ->
  (0 < qov Sa Sb Sab Na Nb Nab)%Q ->
  ov_tabs (Fin cpa) (Fin cpb) (Fin Sa) (Fin Sb) (Fin Sab) (Fin Na) (Fin Nb) (Fin Nab) =x=
  Fin ((cpb - cpa) * Qabs (cpb - cpa) / qov Sa Sb Sab Na Nb Nab)%Q.
Proof. exact (ov_formula cpa cpb Sa Sb Sab Na Nb Nab). Qed.
Print Assumptions C13_overlap_formula.

Theorem C13_overlap_antisym (cpa cpb Sa Sb Sab Na Nb Nab : Q) :
  ~ (Na == 0)%Q -> ~ (Nb == 0)%Q -> ~ (Nab == 0)%Q -> ~ (Na + Nb - Nab == 0)%Q ->
  ov_tabs (Fin cpb) (Fin cpa) (Fin Sb) (Fin Sa) (Fin Sab) (Fin Nb) (Fin Na) (Fin Nab) =x=
  xneg (ov_tabs (Fin cpa) (Fin cpb) (Fin Sa) (Fin Sb) (Fin Sab) (Fin Na) (Fin Nb) (Fin Nab)).
Proof. exact (ov_antisym cpa cpb Sa Sb Sab Na Nb Nab). Qed.
Print Assumptions C13_overlap_antisym.

Theorem C13_overlap_df_sym (Na Nb Nab : xq) : ov_df Nb Na Nab =x= ov_df Na Nb Nab.
Proof. exact (ov_df_sym Na Nb Nab). Qed.
Print Assumptions C13_overlap_df_sym.

Theorem C13_overlap_self_zero a CP S N i : i < nrows CP -> a < ncols CP ->
  mnth (ov_tblock a CP S N) i a = Fin 0.
Proof. exact (ov_self_zero a CP S N i). Qed.
Print Assumptions C13_overlap_self_zero.

(* ==== p-values: any CDF-shaped family T(df, .) ======================================================== *)
Theorem C13_p_sym (T : R -> R -> R) (df t : R) : pval (T df) (- t) = pval (T df) t.
Proof. exact (pval_even (T df) t). Qed.
Print Assumptions C13_p_sym.

Theorem C13_p_range (T : R -> R -> R) (df : R) :
  (forall x, T df (- x) = 1 - T df x)%R -> (forall x y, x <= y -> T df x <= T df y)%R ->
  (forall x, 0 <= T df x <= 1)%R ->
  forall t, (0 <= pval (T df) t <= 1)%R.
Proof. exact (pval_range (T df)). Qed.
Print Assumptions C13_p_range.

Theorem C13_p_of_square (T : R -> R -> R) (df x y : R) : (x * x = y * y)%R -> pval (T df) x = pval (T df) y.
Proof. exact (pval_of_square (T df) x y). Qed.
Print Assumptions C13_p_of_square.

(* a column against itself (t = 0) has p = 1 *)
Theorem C13_p_self_one (T : R -> R -> R) (df : R) :
  (forall x, T df (- x) = 1 - T df x)%R -> pval (T df) 0 = 1%R.
Proof. exact (pval_zero (T df)). Qed.
Print Assumptions C13_p_self_one.

(* ==== index sets ========================================================================================== *)
(* (9) the set of a row of selected display column [own]: exactly the positions j OTHER THAN own
   with p_j < alpha and, in only-larger mode, t_j < 0; ascending, without repetition *)
Theorem C13_indices_def alpha ol own pv tv j :
  In j (indices_row alpha ol own pv tv) <->
  j < length pv /\ j <> own /\ xltb (vnth pv j) (Fin alpha) = true /\
  (ol = true -> xltb (vnth tv j) (Fin 0) = true).
Proof. exact (indices_row_spec alpha ol own pv tv j). Qed.
Print Assumptions C13_indices_def.

Theorem C13_indices_sorted alpha ol own pv tv : StronglySorted lt (indices_row alpha ol own pv tv).
Proof. exact (indices_row_sorted alpha ol own pv tv). Qed.
Print Assumptions C13_indices_sorted.

Theorem C13_indices_rows alpha ol own P T i : i < nrows P ->
  nth i (indices_col alpha ol own P T) [] = indices_row alpha ol own (mrow P i) (mrow T i).
Proof. exact (indices_col_row alpha ol own P T i). Qed.
Print Assumptions C13_indices_rows.

(* (10) display positions (a display shows every payload column at most once): the set shown at
   (row, display column dc) denotes exactly the shown payload columns b, other than the cell's own
   payload column, significant against the cell's own payload column *)
Theorem C13_indices_display alpha ol Pm Tm ord row dc b :
  NoDup ord -> dc < length ord ->
  (In b (map (fun dj => nth dj ord 0) (display_set alpha ol Pm Tm ord row dc)) <->
   In b ord /\ b <> nth dc ord 0 /\
   sig_cell alpha ol (mnth (Pm (nth dc ord 0)) row b) (mnth (Tm (nth dc ord 0)) row b) = true).
Proof. exact (display_set_payload alpha ol Pm Tm ord row dc b). Qed.
Print Assumptions C13_indices_display.

Theorem C13_indices_display_positions alpha ol Pm Tm ord row dc dj :
  In dj (display_set alpha ol Pm Tm ord row dc) <->
  dj < length ord /\ dj <> dc /\
  sig_cell alpha ol (mnth (Pm (nth dc ord 0)) row (nth dj ord 0))
                    (mnth (Tm (nth dc ord 0)) row (nth dj ord 0)) = true.
Proof. exact (display_set_spec alpha ol Pm Tm ord row dc dj). Qed.
Print Assumptions C13_indices_display_positions.

(* (11) equivariance under ANY two displays (reordering, hiding, insertion of columns); the own
   column of one display corresponds to the own column of the other *)
Theorem C13_indices_equivariant alpha ol Pm Tm ord ord' row dc dc' b :
  NoDup ord -> NoDup ord' -> dc < length ord -> dc' < length ord' ->
  nth dc ord 0 = nth dc' ord' 0 -> In b ord -> In b ord' ->
  (In b (map (fun dj => nth dj ord 0) (display_set alpha ol Pm Tm ord row dc)) <->
   In b (map (fun dj => nth dj ord' 0) (display_set alpha ol Pm Tm ord' row dc'))).
Proof. exact (display_set_equivariant alpha ol Pm Tm ord ord' row dc dc' b). Qed.
Print Assumptions C13_indices_equivariant.

Theorem C13_indices_equivariant_positions alpha ol Pm Tm ord ord' row dc dc' dj dj' :
  NoDup ord -> NoDup ord' -> dc < length ord -> dc' < length ord' ->
  nth dc ord 0 = nth dc' ord' 0 -> nth dj ord 0 = nth dj' ord' 0 ->
  dj < length ord -> dj' < length ord' ->
  (In dj (display_set alpha ol Pm Tm ord row dc) <->
   In dj' (display_set alpha ol Pm Tm ord' row dc')).
Proof. exact (display_set_equivariant_pos alpha ol Pm Tm ord ord' row dc dc' dj dj'). Qed.
Print Assumptions C13_indices_equivariant_positions.

(* (12) the column itself is NEVER reported - for every p, t, alpha and only-larger flag, in every
   row, at display positions and as payload column *)
Theorem C13_self_never_reported alpha ol own pv tv : ~ In own (indices_row alpha ol own pv tv).
Proof. exact (indices_row_self_excluded alpha ol own pv tv). Qed.
Print Assumptions C13_self_never_reported.

Theorem C13_self_never_reported_rows alpha ol own P T i :
  ~ In own (nth i (indices_col alpha ol own P T) []).
Proof. exact (indices_col_self_excluded alpha ol own P T i). Qed.
Print Assumptions C13_self_never_reported_rows.

Theorem C13_self_never_reported_display alpha ol Pm Tm ord row dc :
  ~ In dc (display_set alpha ol Pm Tm ord row dc).
Proof. exact (display_set_self_excluded alpha ol Pm Tm ord row dc). Qed.
Print Assumptions C13_self_never_reported_display.

Theorem C13_self_never_reported_payload alpha ol Pm Tm ord row dc :
  NoDup ord -> dc < length ord ->
  ~ In (nth dc ord 0) (map (fun dj => nth dj ord 0) (display_set alpha ol Pm Tm ord row dc)).
Proof. exact (display_set_payload_self_excluded alpha ol Pm Tm ord row dc). Qed.
Print Assumptions C13_self_never_reported_payload.

(* on the column-proportion and means paths the threshold test alone already rejects the column
   itself: p = 1 or NaN is never below alpha <= 1; in only-larger mode t = 0 or NaN is never
   reported *)
Theorem C13_self_excluded_p_one alpha ol t : (alpha <= 1)%Q -> sig_cell alpha ol (Fin 1) t = false.
Proof. exact (self_excluded_p_one alpha ol t). Qed.
Print Assumptions C13_self_excluded_p_one.

Theorem C13_self_excluded_p_nan alpha ol t : sig_cell alpha ol NaN t = false.
Proof. exact (self_excluded_p_nan alpha ol t). Qed.
Print Assumptions C13_self_excluded_p_nan.

Theorem C13_self_excluded_only_larger alpha p :
  sig_cell alpha true p (Fin 0) = false /\ sig_cell alpha true p NaN = false.
Proof. exact (self_excluded_only_larger alpha p). Qed.
Print Assumptions C13_self_excluded_only_larger.

(* the overlap path still reports p = 0 (t = 0) for a column against itself, which the threshold
   test with only_larger off accepts for EVERY alpha > 0 - and the own position is nevertheless not
   listed (repair 048814c6; replaces C13_overlap_self_reported_refuted) *)
Theorem C13_overlap_self_not_listed (alpha : Q) ol own pv tv :
  (0 < alpha)%Q -> vnth pv own = ov_p_self ->
  sig_cell alpha false (vnth pv own) (Fin 0) = true /\
  ~ In own (indices_row alpha ol own pv tv).
Proof. exact (overlap_self_not_listed alpha ol own pv tv). Qed.
Print Assumptions C13_overlap_self_not_listed.

(* (13) secondary alpha: for EVERY accepted spelling the thresholds are in (0,1) and sorted,
   hence the secondary sets contain the primary ones *)
Theorem C13_alpha_parse_sound v a alt :
  alpha_parse v = A_ok a alt ->
  (0 < a /\ a < 1)%Q /\ (forall b, alt = Some b -> (0 < b /\ b < 1)%Q /\ (a <= b)%Q).
Proof. exact (alpha_parse_sound v a alt). Qed.
Print Assumptions C13_alpha_parse_sound.

Theorem C13_alt_superset v a b ol own pv tv :
  alpha_parse v = A_ok a (Some b) ->
  incl (indices_row a ol own pv tv) (indices_row b ol own pv tv).
Proof. exact (alt_superset v a b ol own pv tv). Qed.
Print Assumptions C13_alt_superset.

Theorem C13_alt_superset_display (a b : Q) ol Pm Tm ord row dc : (a <= b)%Q ->
  incl (display_set a ol Pm Tm ord row dc) (display_set b ol Pm Tm ord row dc).
Proof. exact (display_set_alt_superset a b ol Pm Tm ord row dc). Qed.
Print Assumptions C13_alt_superset_display.

(* (14) alpha decision table *)
Theorem C13_alpha_default : alpha_parse Av_falsy = A_ok (5 # 100) None.
Proof. exact alpha_parse_default. Qed.
Print Assumptions C13_alpha_default.

Theorem C13_alpha_type_error : alpha_parse Av_other = A_type_error.
Proof. exact alpha_parse_type_error. Qed.
Print Assumptions C13_alpha_type_error.

Theorem C13_alpha_float q :
  ((0 < q /\ q < 1)%Q -> alpha_parse (Av_float q) = A_ok q None) /\
  (~ (0 < q /\ q < 1)%Q -> alpha_parse (Av_float q) = A_value_error).
Proof. exact (alpha_parse_float q). Qed.
Print Assumptions C13_alpha_float.

Theorem C13_alpha_single x :
  alpha_parse (Av_list [x]) = if item_ok x then A_ok (item_q x) None else A_value_error.
Proof. exact (alpha_parse_single x). Qed.
Print Assumptions C13_alpha_single.

Theorem C13_alpha_pair a b :
  (0 < a /\ a < 1)%Q -> (0 < b /\ b < 1)%Q ->
  alpha_parse (Av_list [It_float a; It_float b]) =
  if Qlt_le_dec b a then A_ok b (Some a) else A_ok a (Some b).
Proof. exact (alpha_parse_pair a b). Qed.
Print Assumptions C13_alpha_pair.

Theorem C13_alpha_pair_invalid x y :
  item_ok x && item_ok y = false -> alpha_parse (Av_list [x; y]) = A_value_error.
Proof. exact (alpha_parse_pair_invalid x y). Qed.
Print Assumptions C13_alpha_pair_invalid.

Theorem C13_alpha_first_two x y rest :
  alpha_parse (Av_list (x :: y :: rest)) = alpha_parse (Av_list [x; y]).
Proof. exact (alpha_parse_first_two x y rest). Qed.
Print Assumptions C13_alpha_first_two.

Theorem C13_only_larger_table :
  only_larger_parse Ol_absent = true /\ only_larger_parse Ol_true = true /\
  only_larger_parse Ol_other = true /\ only_larger_parse Ol_false = false.
Proof. exact only_larger_parse_table. Qed.
Print Assumptions C13_only_larger_table.

(* ==== non-vacuity =============================================================================================== *)
Local Open Scope Q_scope.
(* p = 1/2 on n = 10 against p0 = 1/5 on n0 = 20:  se^2 = 1/40 + 1/125 = 33/1000,
   t|t| = (3/10)^2 / (33/1000) = 30/11, df = 28; reversed: -30/11 *)
Example C13_example_t :
  (0 < (1#2) * (1 - (1#2)) / 10 + (1#5) * (1 - (1#5)) / 20)%Q /\
  t_tabs (Fin (1#2)) (Fin 10) (Fin (1#5)) (Fin 20) =x= Fin (30 # 11) /\
  t_tabs (Fin (1#5)) (Fin 20) (Fin (1#2)) (Fin 10) =x= Fin (- 30 # 11) /\
  t_df (Fin 10) (Fin 20) =x= Fin 28 /\
  t_tabs (Fin (1#2)) (Fin 10) (Fin (1#2)) (Fin 10) =x= Fin 0 /\
  t_tabs (Fin 1) (Fin 10) (Fin 1) (Fin 10) = NaN.
Proof. vm_compute. repeat split; reflexivity. Qed.

(* a 2-row table with one subtotal column (cols 0+1), selected = the subtotal (sel = -1) and a
   base column (sel = 1); effective bases from weighted / squared bases *)
Example C13_example_blocks :
  let P00 := [[Fin (1#2); Fin (1#4)]; [Fin (1#2); Fin (3#4)]] in
  let P01 := [[Fin (3#8)]; [Fin (5#8)]] in
  let N00 := eff_block [[Fin 8; Fin 8]; [Fin 8; Fin 8]] [[Fin 16; Fin 32]; [Fin 16; Fin 32]] in
  let N01 := eff_block [[Fin 16]; [Fin 16]] [[Fin 48]; [Fin 48]] in
  mnth N00 0%nat 1%nat =x= Fin 2 /\
  vnth (ref_col (-1) P00 P01) 1%nat = Fin (5#8) /\
  vnth (ref_col 1 P00 P01) 0%nat = Fin (1#4) /\
  mnth (nth 0%nat (pw_all 1 P00 P01 [] [] N00 N01 [] []) []) 0%nat 1%nat =x= Fin 0 /\
  mnth (nth 0%nat (pw_all 1 P00 P01 [] [] N00 N01 [] []) []) 0%nat 0%nat =x= Fin (2 # 5) /\
  mnth (nth 4%nat (pw_all 1 P00 P01 [] [] N00 N01 [] []) []) 0%nat 0%nat =x= Fin 4.
Proof. vm_compute. repeat split; reflexivity. Qed.

(* index sets and display: p-values of selected payload column s in row 0.  Position 0 carries
   p = 0 (the overlap path's p of a column against itself): it is reported for another own
   position (own = 3) but never for own = 0 *)
Example C13_example_indices :
  let pv := [Fin 0; Fin (1#100); Fin (4#100); NaN; Fin (1#1000)] in
  let tv := [Fin 0; Fin (-3); Fin 2; NaN; Fin (-5)] in
  vnth pv 0%nat = ov_p_self /\
  indices_row (5#100) true 0%nat pv tv = [1; 4]%nat /\
  indices_row (5#100) false 0%nat pv tv = [1; 2; 4]%nat /\
  indices_row (5#100) false 3%nat pv tv = [0; 1; 2; 4]%nat /\
  indices_row (5#100) false 1%nat pv tv = [0; 2; 4]%nat /\
  indices_row (2#100) false 0%nat pv tv = [1; 4]%nat /\
  alpha_parse (Av_list [It_float (1#10); It_float (5#100); It_other]) = A_ok (5#100) (Some (1#10)) /\
  alpha_parse (Av_list [It_float (1#10); It_other]) = A_value_error /\
  let Pm := fun s : nat => [pv] in
  let Tm := fun s : nat => [tv] in
  NoDup [4; 0; 1]%nat /\ NoDup [1; 2; 3; 0]%nat /\
  display_set (5#100) false Pm Tm [4; 0; 1]%nat 0%nat 1%nat = [0; 2]%nat /\
  display_set (5#100) false Pm Tm [4; 0; 1]%nat 0%nat 0%nat = [1; 2]%nat /\
  display_set (5#100) true Pm Tm [1; 2; 3; 0]%nat 0%nat 3%nat = [0]%nat /\
  display_set (5#100) false Pm Tm [1; 2; 3; 0]%nat 0%nat 3%nat = [0; 1]%nat /\
  display_set (5#100) false Pm Tm [1; 2; 3; 0]%nat 0%nat 2%nat = [0; 1; 3]%nat.
Proof.
  vm_compute. repeat split; try reflexivity;
    repeat (constructor; [simpl; intuition discriminate|]); constructor.
Qed.

(* legacy path: weighted margins 4, unweighted bases 2 (ignored), squared bases 8 -> n = 2 in both
   paths; hypotheses of C13_legacy_matches_matrix_path_shared_bases hold in row 1 (shared bases) *)
Example C13_example_legacy :
  let props := [[Fin (1#2); Fin (1#4)]; [Fin (1#2); Fin (3#4)]] in
  let W := [[Fin 4; Fin 4]; [Fin 4; Fin 4]] in
  let UB := [[Fin 2; Fin 2]; [Fin 2; Fin 2]] in
  let SQ := [[Fin 8; Fin 8]; [Fin 8; Fin 8]] in
  mrow SQ 1%nat = mrow SQ 0%nat /\
  legacy_base (Fin 4) (Fin 2) (Some (Fin 8)) =x= Fin 2 /\
  xadd (prop_var (mnth props 1%nat 1%nat) (mnth (eff_block W SQ) 1%nat 1%nat))
       (prop_var (mnth props 1%nat 0%nat) (mnth (eff_block W SQ) 1%nat 0%nat)) = Fin (3584 # 16384) /\   (* 7/32, as evaluated *)
  (0 <= 3584 # 16384)%Q /\
  mnth (legacy_t props W UB (Some (mrow SQ 0%nat)) 0%nat) 1%nat 1%nat =x= Fin (2 # 7) /\
  mnth (pw_tblock props (eff_block W SQ) (mcol props 0%nat) (mcol (eff_block W SQ) 0%nat)) 1%nat 1%nat
    =x= Fin (2 # 7).
Proof. vm_compute. repeat split; try reflexivity; discriminate. Qed.

Example C13_example_welch_overlap :
  welch_tabs (Fin 5) (Fin 2) (Fin 8) (Fin 3) (Fin 1) (Fin 4) =x= Fin (16 # 3) /\
  welch_df (Fin 2) (Fin 8) (Fin 1) (Fin 4) =x= Fin (189 # 19) /\
  (0 < qov 6 4 2 10 10 8)%Q /\
  ov_tabs (Fin (1#2)) (Fin (1#4)) (Fin 6) (Fin 4) (Fin 2) (Fin 10) (Fin 10) (Fin 8) =x= Fin (- 75 # 46) /\
  ov_df (Fin 10) (Fin 10) (Fin 8) =x= Fin 12.
Proof. vm_compute. repeat split; reflexivity. Qed.

(* ==== GenAgree (pairwise translator): what measure.py, pairwise_significance.py, cubepart.py SAY NOW ==== *)
(* Gen/PairwiseSrc.v is REWRITTEN FROM THE SOURCE on every check by harness/translate/x_pairwise.py (an
   `ast` whitelist, fail-closed): one [option pexp] per (class, member) -- per block for a `blocks`-shaped
   member -- read through the wiring SecondOrderMeasures.pairwise_*(column_idx); [option bmexp] for the
   index sets, [option jexp] / [olexp] / [wexp] (Base/PairCtlExp.v) for the alpha parsing, the only_larger flag and
   the arguments the public index-set members hand to the static method.  The theorems below say that what the source SAYS NOW ([pev false]: the value; [pev true]:
   the signed square t*|t| of a term with np.sqrt in it; Base/PairExp.v), for ALL sizes, input blocks,
   selected columns in range, flags and for EVERY function standing for scipy's t.cdf, IS the definition of
   Model.Pairwise / Model.PairwiseP the theorems above are about -- tagged shape and every in-range cell.
   [None] on the left = the translator could not read the member (then only the correspondence ties it).
   A change of meaning in the source breaks these obligations (Proofs/GenAgreePairwise*.v fail). *)
From Coq Require String.
From CC Require Base.MeasureExp Base.PairExp Base.PairCtlExp Model.PairwiseP Gen.PairwiseSrc Proofs.PairwisePProofs
     Proofs.GenAgreePairTac Proofs.GenAgreePairwise Proofs.GenAgreePairwiseMeans
     Proofs.GenAgreePairwiseOverlap Proofs.GenAgreePairwiseLegacy Proofs.GenAgreePairwiseCtl
     Model.PairwiseLegacy Proofs.GenAgreePairwiseLegacy2.
Section GenAgreePairwise_C13.   (* scopes and imports below end with the section *)
Import Coq.Strings.String CC.Base.MeasureExp CC.Base.PairExp CC.Base.PairCtlExp CC.Model.PairwiseP CC.Gen.PairwiseSrc
       CC.Proofs.PairwisePProofs CC.Proofs.GenAgreePairTac CC.Proofs.GenAgreePairwise
       CC.Proofs.GenAgreePairwiseMeans CC.Proofs.GenAgreePairwiseOverlap CC.Proofs.GenAgreePairwiseLegacy
       CC.Proofs.GenAgreePairwiseCtl CC.Model.PairwiseLegacy CC.Proofs.GenAgreePairwiseLegacy2.
Import Coq.Lists.List.ListNotations CC.Base.XQ.
Local Close Scope Q_scope.
Local Open Scope string_scope.
Local Open Scope nat_scope.

(* ---- what the p-value definitions of Model/PairwiseP.v MEAN (for every function cdf) ---- *)
Theorem C13_p_model_range (cdf : xq -> xq -> xq) (tt df : xq) (c : Q) :
  cdf (xabs tt) df = Fin c -> (1 # 2 <= c)%Q -> (c <= 1)%Q ->
  exists p : Q, pval_x cdf tt df = Fin p /\ (p == 2 * (1 - c))%Q /\ (0 <= p)%Q /\ (p <= 1)%Q.
Proof. exact (pval_x_range cdf tt df c). Qed.
Print Assumptions C13_p_model_range.

Theorem C13_p_model_of_square (cdf : xq -> xq -> xq) (tt tt' df : xq) :
  xabs tt = xabs tt' -> pval_x cdf tt df = pval_x cdf tt' df.
Proof. exact (pval_x_of_square cdf tt tt' df). Qed.
Print Assumptions C13_p_model_of_square.

Theorem C13_p_model_two_sided (cdf : xq -> xq -> xq) (tt df : xq) :
  (forall x y d, x =x= y -> cdf x d = cdf y d) ->
  pval_x cdf (xneg tt) df = pval_x cdf tt df.
Proof. exact (pval_x_even cdf tt df). Qed.
Print Assumptions C13_p_model_two_sided.

Theorem C13_p_model_cell cdf TT N rn i j : i < nrows TT -> j < ncols TT ->
  mnth (pw_pblock cdf TT N rn) i j = pval_x cdf (mnth TT i j) (t_df (mnth N i j) (vnth rn i)).
Proof. exact (pw_pblock_cell cdf TT N rn i j). Qed.
Print Assumptions C13_p_model_cell.

Theorem C13_p_model_means_subtotal_nan cdf sel M S N i j : (sel < 0)%Z -> i < nrows M -> j < ncols M ->
  mnth (welch_pblock cdf sel M S N) i j = NaN.
Proof. exact (welch_pblock_subtotal_nan cdf sel M S N i j). Qed.
Print Assumptions C13_p_model_means_subtotal_nan.

Theorem C13_p_model_means_cell cdf sel M S N i j : (0 <= sel)%Z -> i < nrows M -> j < ncols M ->
  mnth (welch_pblock cdf sel M S N) i j =
  pval_x cdf (mnth (welch_tblock sel M S N) i j) (mnth (welch_dfblock sel S N) i j).
Proof. exact (welch_pblock_cell cdf sel M S N i j). Qed.
Print Assumptions C13_p_model_means_cell.

Theorem C13_p_model_overlap_self cdf a CP S N i : i < nrows CP -> a < ncols CP ->
  mnth (ov_pblock cdf a CP S N) i a = ov_p_self.
Proof. exact (ov_pblock_self cdf a CP S N i). Qed.
Print Assumptions C13_p_model_overlap_self.

Theorem C13_p_model_overlap_cell cdf a b CP S N i : i < nrows CP -> b < ncols CP -> b <> a ->
  mnth (ov_pblock cdf a CP S N) i b =
  pval_x cdf (mnth (ov_tblock a CP S N) i b)
         (xsub (ov_df (mnth (nth i N []) a a) (mnth (nth i N []) b b) (mnth (nth i N []) a b)) (Fin 2)).
Proof. exact (ov_pblock_offdiag cdf a b CP S N i). Qed.
Print Assumptions C13_p_model_overlap_cell.

Theorem C13_gen_pairwise_t_stats :
  (match src_PairwiseSigTstats_blocks_00 with
  | Some e => forall nr nc nrs ncs sel blk pblk cubem flag cdf,
      pw_shaped blk nr nc nrs ncs -> sel_ok sel nc ncs ->
      pagrees_mat (penv_std nr nc nrs ncs sel blk pblk cubem flag cdf)
                  (pev true (penv_std nr nc nrs ncs sel blk pblk cubem flag cdf) e) DR DC
                  (mnth (nth 0 (pw_model sel flag blk) []))
  | None => True
  end) /\
  (match src_PairwiseSigTstats_blocks_01 with
  | Some e => forall nr nc nrs ncs sel blk pblk cubem flag cdf,
      pw_shaped blk nr nc nrs ncs -> sel_ok sel nc ncs ->
      pagrees_mat (penv_std nr nc nrs ncs sel blk pblk cubem flag cdf)
                  (pev true (penv_std nr nc nrs ncs sel blk pblk cubem flag cdf) e) DR DCS
                  (mnth (nth 1 (pw_model sel flag blk) []))
  | None => True
  end) /\
  (match src_PairwiseSigTstats_blocks_10 with
  | Some e => forall nr nc nrs ncs sel blk pblk cubem flag cdf,
      pw_shaped blk nr nc nrs ncs -> sel_ok sel nc ncs ->
      pagrees_mat (penv_std nr nc nrs ncs sel blk pblk cubem flag cdf)
                  (pev true (penv_std nr nc nrs ncs sel blk pblk cubem flag cdf) e) DRS DC
                  (mnth (nth 2 (pw_model sel flag blk) []))
  | None => True
  end) /\
  (match src_PairwiseSigTstats_blocks_11 with
  | Some e => forall nr nc nrs ncs sel blk pblk cubem flag cdf,
      pw_shaped blk nr nc nrs ncs -> sel_ok sel nc ncs ->
      pagrees_mat (penv_std nr nc nrs ncs sel blk pblk cubem flag cdf)
                  (pev true (penv_std nr nc nrs ncs sel blk pblk cubem flag cdf) e) DRS DCS
                  (mnth (nth 3 (pw_model sel flag blk) []))
  | None => True
  end).
Proof. exact (conj gen_PairwiseSigTstats_blocks_00 (conj gen_PairwiseSigTstats_blocks_01 (conj gen_PairwiseSigTstats_blocks_10 gen_PairwiseSigTstats_blocks_11))). Qed.
Print Assumptions C13_gen_pairwise_t_stats.

Theorem C13_gen_pairwise_column_bases :
  (match src_PairwiseSigTstats__column_bases_00 with
  | Some e => forall nr nc nrs ncs sel blk pblk cubem flag cdf,
      pw_shaped blk nr nc nrs ncs ->
      pagrees_mat (penv_std nr nc nrs ncs sel blk pblk cubem flag cdf)
                  (pev false (penv_std nr nc nrs ncs sel blk pblk cubem flag cdf) e) DR DC
                  (mnth (pw_bases flag blk 0 0))
  | None => True
  end) /\
  (match src_PairwiseSigTstats__column_bases_01 with
  | Some e => forall nr nc nrs ncs sel blk pblk cubem flag cdf,
      pw_shaped blk nr nc nrs ncs ->
      pagrees_mat (penv_std nr nc nrs ncs sel blk pblk cubem flag cdf)
                  (pev false (penv_std nr nc nrs ncs sel blk pblk cubem flag cdf) e) DR DCS
                  (mnth (pw_bases flag blk 0 1))
  | None => True
  end) /\
  (match src_PairwiseSigTstats__column_bases_10 with
  | Some e => forall nr nc nrs ncs sel blk pblk cubem flag cdf,
      pw_shaped blk nr nc nrs ncs ->
      pagrees_mat (penv_std nr nc nrs ncs sel blk pblk cubem flag cdf)
                  (pev false (penv_std nr nc nrs ncs sel blk pblk cubem flag cdf) e) DRS DC
                  (mnth (pw_bases flag blk 1 0))
  | None => True
  end) /\
  (match src_PairwiseSigTstats__column_bases_11 with
  | Some e => forall nr nc nrs ncs sel blk pblk cubem flag cdf,
      pw_shaped blk nr nc nrs ncs ->
      pagrees_mat (penv_std nr nc nrs ncs sel blk pblk cubem flag cdf)
                  (pev false (penv_std nr nc nrs ncs sel blk pblk cubem flag cdf) e) DRS DCS
                  (mnth (pw_bases flag blk 1 1))
  | None => True
  end).
Proof. exact (conj gen_PairwiseSigTstats__column_bases_00 (conj gen_PairwiseSigTstats__column_bases_01 (conj gen_PairwiseSigTstats__column_bases_10 gen_PairwiseSigTstats__column_bases_11))). Qed.
Print Assumptions C13_gen_pairwise_column_bases.

Theorem C13_gen_pairwise_p_vals :
  (match src_PairwiseSigPvals_blocks_00 with
  | Some e => forall nr nc nrs ncs sel blk pblk cubem flag cdf,
      pw_shaped blk nr nc nrs ncs -> sel_ok sel nc ncs ->
      pagrees_mat (penv_std nr nc nrs ncs sel blk pblk cubem flag cdf)
                  (pev false (penv_std nr nc nrs ncs sel blk pblk cubem flag cdf) e) DR DC
                  (pw_pcell cdf sel flag blk pblk 0 0)
  | None => True
  end) /\
  (match src_PairwiseSigPvals_blocks_01 with
  | Some e => forall nr nc nrs ncs sel blk pblk cubem flag cdf,
      pw_shaped blk nr nc nrs ncs -> sel_ok sel nc ncs ->
      pagrees_mat (penv_std nr nc nrs ncs sel blk pblk cubem flag cdf)
                  (pev false (penv_std nr nc nrs ncs sel blk pblk cubem flag cdf) e) DR DCS
                  (pw_pcell cdf sel flag blk pblk 0 1)
  | None => True
  end) /\
  (match src_PairwiseSigPvals_blocks_10 with
  | Some e => forall nr nc nrs ncs sel blk pblk cubem flag cdf,
      pw_shaped blk nr nc nrs ncs -> sel_ok sel nc ncs ->
      pagrees_mat (penv_std nr nc nrs ncs sel blk pblk cubem flag cdf)
                  (pev false (penv_std nr nc nrs ncs sel blk pblk cubem flag cdf) e) DRS DC
                  (pw_pcell cdf sel flag blk pblk 1 0)
  | None => True
  end) /\
  (match src_PairwiseSigPvals_blocks_11 with
  | Some e => forall nr nc nrs ncs sel blk pblk cubem flag cdf,
      pw_shaped blk nr nc nrs ncs -> sel_ok sel nc ncs ->
      pagrees_mat (penv_std nr nc nrs ncs sel blk pblk cubem flag cdf)
                  (pev false (penv_std nr nc nrs ncs sel blk pblk cubem flag cdf) e) DRS DCS
                  (pw_pcell cdf sel flag blk pblk 1 1)
  | None => True
  end).
Proof. exact (conj gen_PairwiseSigPvals_blocks_00 (conj gen_PairwiseSigPvals_blocks_01 (conj gen_PairwiseSigPvals_blocks_10 gen_PairwiseSigPvals_blocks_11))). Qed.
Print Assumptions C13_gen_pairwise_p_vals.

Theorem C13_gen_means_t_stats :
  match src_PairwiseMeansSigTStats_t_stats with
  | Some e => forall nr nc nrs ncs sel blk pblk cubem flag cdf,
      shaped (cM cubem) nr nc -> (sel < Z.of_nat nc)%Z ->
      pagrees_mat (penv_std nr nc nrs ncs sel blk pblk cubem flag cdf)
                  (pev true (penv_std nr nc nrs ncs sel blk pblk cubem flag cdf) e) DR DC
                  (mnth (welch_tblock sel (cM cubem) (cS cubem) (cN cubem)))
  | None => True
  end.
Proof. exact gen_PairwiseMeansSigTStats_t_stats. Qed.
Print Assumptions C13_gen_means_t_stats.

Theorem C13_gen_means_t_stats_blocks :
  (match src_PairwiseMeansSigTStats_blocks_00 with
  | Some e => forall nr nc nrs ncs sel blk pblk cubem flag cdf,
      shaped (cM cubem) nr nc -> (sel < Z.of_nat nc)%Z ->
      pagrees_mat (penv_std nr nc nrs ncs sel blk pblk cubem flag cdf)
                  (pev true (penv_std nr nc nrs ncs sel blk pblk cubem flag cdf) e) DR DC
                  (mnth (welch_tblock sel (cM cubem) (cS cubem) (cN cubem)))
  | None => True
  end) /\
  (match src_PairwiseMeansSigTStats_blocks_01 with
  | Some e => forall nr nc nrs ncs sel blk pblk cubem flag cdf,
      (sel < Z.of_nat nc)%Z ->
      pagrees_mat (penv_std nr nc nrs ncs sel blk pblk cubem flag cdf)
                  (pev true (penv_std nr nc nrs ncs sel blk pblk cubem flag cdf) e) DR DCS
                  (fun _ _ => NaN)
  | None => True
  end) /\
  (match src_PairwiseMeansSigTStats_blocks_10 with
  | Some e => forall nr nc nrs ncs sel blk pblk cubem flag cdf,
      (sel < Z.of_nat nc)%Z ->
      pagrees_mat (penv_std nr nc nrs ncs sel blk pblk cubem flag cdf)
                  (pev true (penv_std nr nc nrs ncs sel blk pblk cubem flag cdf) e) DRS DC
                  (fun _ _ => NaN)
  | None => True
  end) /\
  (match src_PairwiseMeansSigTStats_blocks_11 with
  | Some e => forall nr nc nrs ncs sel blk pblk cubem flag cdf,
      (sel < Z.of_nat nc)%Z ->
      pagrees_mat (penv_std nr nc nrs ncs sel blk pblk cubem flag cdf)
                  (pev true (penv_std nr nc nrs ncs sel blk pblk cubem flag cdf) e) DRS DCS
                  (fun _ _ => NaN)
  | None => True
  end).
Proof. exact (conj gen_PairwiseMeansSigTStats_blocks_00 (conj gen_PairwiseMeansSigTStats_blocks_01 (conj gen_PairwiseMeansSigTStats_blocks_10 gen_PairwiseMeansSigTStats_blocks_11))). Qed.
Print Assumptions C13_gen_means_t_stats_blocks.

Theorem C13_gen_means_df :
  match src_PairwiseMeansSigPVals__df with
  | Some e => forall nr nc nrs ncs sel blk pblk cubem flag cdf,
      shaped (cS cubem) nr nc -> (0 <= sel < Z.of_nat nc)%Z ->
      pagrees_mat (penv_std nr nc nrs ncs sel blk pblk cubem flag cdf)
                  (pev false (penv_std nr nc nrs ncs sel blk pblk cubem flag cdf) e) DR DC
                  (mnth (welch_dfblock sel (cS cubem) (cN cubem)))
  | None => True
  end.
Proof. exact gen_PairwiseMeansSigPVals__df. Qed.
Print Assumptions C13_gen_means_df.

Theorem C13_gen_means_p_vals :
  match src_PairwiseMeansSigPVals_p_vals with
  | Some e => forall nr nc nrs ncs sel blk pblk cubem flag cdf,
      shaped (cM cubem) nr nc -> shaped (cS cubem) nr nc -> (sel < Z.of_nat nc)%Z ->
      pagrees_mat (penv_std nr nc nrs ncs sel blk pblk cubem flag cdf)
                  (pev false (penv_std nr nc nrs ncs sel blk pblk cubem flag cdf) e) DR DC
                  (mnth (welch_pblock cdf sel (cM cubem) (cS cubem) (cN cubem)))
  | None => True
  end.
Proof. exact gen_PairwiseMeansSigPVals_p_vals. Qed.
Print Assumptions C13_gen_means_p_vals.

Theorem C13_gen_means_p_vals_blocks :
  (match src_PairwiseMeansSigPVals_blocks_00 with
  | Some e => forall nr nc nrs ncs sel blk pblk cubem flag cdf,
      shaped (cM cubem) nr nc -> shaped (cS cubem) nr nc -> (sel < Z.of_nat nc)%Z ->
      pagrees_mat (penv_std nr nc nrs ncs sel blk pblk cubem flag cdf)
                  (pev false (penv_std nr nc nrs ncs sel blk pblk cubem flag cdf) e) DR DC
                  (mnth (welch_pblock cdf sel (cM cubem) (cS cubem) (cN cubem)))
  | None => True
  end) /\
  (match src_PairwiseMeansSigPVals_blocks_01 with
  | Some e => forall nr nc nrs ncs sel blk pblk cubem flag cdf,
      (sel < Z.of_nat nc)%Z ->
      pagrees_mat (penv_std nr nc nrs ncs sel blk pblk cubem flag cdf)
                  (pev false (penv_std nr nc nrs ncs sel blk pblk cubem flag cdf) e) DR DCS
                  (fun _ _ => NaN)
  | None => True
  end) /\
  (match src_PairwiseMeansSigPVals_blocks_10 with
  | Some e => forall nr nc nrs ncs sel blk pblk cubem flag cdf,
      (sel < Z.of_nat nc)%Z ->
      pagrees_mat (penv_std nr nc nrs ncs sel blk pblk cubem flag cdf)
                  (pev false (penv_std nr nc nrs ncs sel blk pblk cubem flag cdf) e) DRS DC
                  (fun _ _ => NaN)
  | None => True
  end) /\
  (match src_PairwiseMeansSigPVals_blocks_11 with
  | Some e => forall nr nc nrs ncs sel blk pblk cubem flag cdf,
      (sel < Z.of_nat nc)%Z ->
      pagrees_mat (penv_std nr nc nrs ncs sel blk pblk cubem flag cdf)
                  (pev false (penv_std nr nc nrs ncs sel blk pblk cubem flag cdf) e) DRS DCS
                  (fun _ _ => NaN)
  | None => True
  end).
Proof. exact (conj gen_PairwiseMeansSigPVals_blocks_00 (conj gen_PairwiseMeansSigPVals_blocks_01 (conj gen_PairwiseMeansSigPVals_blocks_10 gen_PairwiseMeansSigPVals_blocks_11))). Qed.
Print Assumptions C13_gen_means_p_vals_blocks.

Theorem C13_gen_overlap_helper_t_stats :
  match src_OverlapHelper_t_stats with
  | Some e => forall nr nc i a b CP c3 cdf,
      shaped CP nr nc -> sq3 (c3 "arg" "selected_bases") nr nc -> sq3 (c3 "arg" "valid_bases") nr nc ->
      i < nr -> a < nc -> b < nc ->
      pagrees_scal (pev true (penv_helper nr nc (Z.of_nat i) (Z.of_nat a) (Z.of_nat b) CP c3 cdf) e)
                   (mnth (ov_tblock a CP (c3 "arg" "selected_bases") (c3 "arg" "valid_bases")) i b)
  | None => True
  end.
Proof. exact gen_OverlapHelper_t_stats. Qed.
Print Assumptions C13_gen_overlap_helper_t_stats.

Theorem C13_gen_overlap_helper_df :
  match src_OverlapHelper__df with
  | Some e => forall nr nc i a b CP c3 cdf,
      sq3 (c3 "arg" "valid_bases") nr nc -> i < nr -> a < nc -> b < nc ->
      pagrees_scal (pev false (penv_helper nr nc (Z.of_nat i) (Z.of_nat a) (Z.of_nat b) CP c3 cdf) e)
                   (let n := nth i (c3 "arg" "valid_bases") [] in
                    ov_df (mnth n a a) (mnth n b b) (mnth n a b))
  | None => True
  end.
Proof. exact gen_OverlapHelper__df. Qed.
Print Assumptions C13_gen_overlap_helper_df.

Theorem C13_gen_overlap_helper_p_vals :
  match src_OverlapHelper_p_vals with
  | Some e => forall nr nc i a b CP c3 cdf,
      shaped CP nr nc -> sq3 (c3 "arg" "selected_bases") nr nc -> sq3 (c3 "arg" "valid_bases") nr nc ->
      i < nr -> a < nc -> b < nc ->
      pagrees_scal (pev false (penv_helper nr nc (Z.of_nat i) (Z.of_nat a) (Z.of_nat b) CP c3 cdf) e)
                   (mnth (ov_pblock cdf a CP (c3 "arg" "selected_bases") (c3 "arg" "valid_bases")) i b)
  | None => True
  end.
Proof. exact gen_OverlapHelper_p_vals. Qed.
Print Assumptions C13_gen_overlap_helper_p_vals.

Theorem C13_gen_overlap_t_stats_for_subvar :
  match src_PairwiseSigTStatsForSubvar_t_stats with
  | Some e => forall nr nc nrs ncs a blk c3 ovr cdf,
      ov_shaped blk c3 nr nc -> a < nc ->
      pagrees_mat (penv_ov nr nc nrs ncs (Z.of_nat a) blk c3 ovr cdf)
                  (pev true (penv_ov nr nc nrs ncs (Z.of_nat a) blk c3 ovr cdf) e) DR DC
                  (mnth (ov_tblock a (blk "column_proportions" 0 0)
                                   (c3 "cube_overlaps" "selected_bases") (c3 "cube_overlaps" "valid_bases")))
  | None => True
  end.
Proof. exact gen_PairwiseSigTStatsForSubvar_t_stats. Qed.
Print Assumptions C13_gen_overlap_t_stats_for_subvar.

Theorem C13_gen_overlap_p_vals_for_subvar :
  match src_PairwiseSigPValsForSubvar_p_vals with
  | Some e => forall nr nc nrs ncs a blk c3 ovr cdf,
      ov_shaped blk c3 nr nc -> a < nc ->
      pagrees_mat (penv_ov nr nc nrs ncs (Z.of_nat a) blk c3 ovr cdf)
                  (pev false (penv_ov nr nc nrs ncs (Z.of_nat a) blk c3 ovr cdf) e) DR DC
                  (mnth (ov_pblock cdf a (blk "column_proportions" 0 0)
                                   (c3 "cube_overlaps" "selected_bases") (c3 "cube_overlaps" "valid_bases")))
  | None => True
  end.
Proof. exact gen_PairwiseSigPValsForSubvar_p_vals. Qed.
Print Assumptions C13_gen_overlap_p_vals_for_subvar.

Theorem C13_gen_overlap_inserted_rows_for_subvar :
  (match src_PairwiseSigTStatsForSubvar__hs_t_stats with
  | Some e => forall nr nc nrs ncs a blk c3 ovr cdf,
      ov_shaped blk c3 nr nc -> 0 < nr -> hs_shaped blk ovr nrs nc -> a < nc ->
      pagrees_mat (penv_ov nr nc nrs ncs (Z.of_nat a) blk c3 ovr cdf)
                  (pev true (penv_ov nr nc nrs ncs (Z.of_nat a) blk c3 ovr cdf) e) DRS DC
                  (mnth (ov_tblock a (blk "column_proportions" 1 0)
                                   (ovr "cube_overlaps" "selected_bases") (ovr "cube_overlaps" "valid_bases")))
  | None => True
  end) /\
  (match src_PairwiseSigPValsForSubvar__hs_p_vals with
  | Some e => forall nr nc nrs ncs a blk c3 ovr cdf,
      ov_shaped blk c3 nr nc -> 0 < nr -> hs_shaped blk ovr nrs nc -> a < nc ->
      pagrees_mat (penv_ov nr nc nrs ncs (Z.of_nat a) blk c3 ovr cdf)
                  (pev false (penv_ov nr nc nrs ncs (Z.of_nat a) blk c3 ovr cdf) e) DRS DC
                  (mnth (ov_pblock cdf a (blk "column_proportions" 1 0)
                                   (ovr "cube_overlaps" "selected_bases") (ovr "cube_overlaps" "valid_bases")))
  | None => True
  end).
Proof. exact (conj gen_PairwiseSigTStatsForSubvar__hs_t_stats gen_PairwiseSigPValsForSubvar__hs_p_vals). Qed.
Print Assumptions C13_gen_overlap_inserted_rows_for_subvar.

Theorem C13_gen_legacy_t_stats :
  match src_Legacy_t_stats with
  | Some e => forall nr nc c mr props W UB wv ubv sqv flag cdf,
      shaped props nr nc -> c < nc ->
      pagrees_mat (penv_legacy nr nc c mr props W UB wv ubv sqv flag cdf)
                  (pev true (penv_legacy nr nc c mr props W UB wv ubv sqv flag cdf) e) DR DC
                  (mnth (legacy_t props (lmat mr W wv nr nc) (lmat mr UB ubv nr nc)
                                  (if flag "columns_squared_base is not None" then Some sqv else None) c))
  | None => True
  end.
Proof. exact gen_Legacy_t_stats. Qed.
Print Assumptions C13_gen_legacy_t_stats.

Theorem C13_gen_legacy_summary_t_stats :
  match src_Legacy_summary_t_stats with
  | Some e => forall nr nc c cb per_col tm tmv flag cdf alpha,
      List.length cb = nc -> c < nc ->
      pagrees_vec (penv_leg nr nc c (summ_slice cb per_col tm tmv) flag cdf alpha)
                  (pev true (penv_leg nr nc c (summ_slice cb per_col tm tmv) flag cdf alpha) e) DC
                  (vnth (summary_t cb (tm_fun per_col tm tmv) c))
  | None => True
  end.
Proof. exact gen_Legacy_summary_t_stats. Qed.
Print Assumptions C13_gen_legacy_summary_t_stats.

Theorem C13_gen_legacy_df :
  (match src_Legacy__df with
  | Some e => forall nr nc c cb per_col tm tmv flag cdf alpha,
      List.length cb = nc -> c < nc ->
      pagrees_vec (penv_leg nr nc c (summ_slice cb per_col tm tmv) flag cdf alpha)
                  (pev false (penv_leg nr nc c (summ_slice cb per_col tm tmv) flag cdf alpha) e) DC
                  (vnth (summary_df cb c))
  | None => True
  end) /\
  (match src_Legacy__df with
  | Some e => forall nr nc c CB flag cdf alpha,
      shaped CB nr nc -> c < nc ->
      pagrees_mat (penv_leg nr nc c (summ_slice_mat CB) flag cdf alpha)
                  (pev false (penv_leg nr nc c (summ_slice_mat CB) flag cdf alpha) e) DR DC
                  (mnth (summary_df_mat CB c))
  | None => True
  end).
Proof. exact (conj gen_Legacy__df gen_Legacy__df_mat). Qed.
Print Assumptions C13_gen_legacy_df.

Theorem C13_gen_legacy_summary_p_vals :
  match src_Legacy_summary_p_vals with
  | Some e => forall nr nc c cb per_col tm tmv flag cdf alpha,
      List.length cb = nc -> c < nc ->
      pagrees_vec (penv_leg nr nc c (summ_slice cb per_col tm tmv) flag cdf alpha)
                  (pev false (penv_leg nr nc c (summ_slice cb per_col tm tmv) flag cdf alpha) e) DC
                  (vnth (summary_p cdf cb (tm_fun per_col tm tmv) c))
  | None => True
  end.
Proof. exact gen_Legacy_summary_p_vals. Qed.
Print Assumptions C13_gen_legacy_summary_p_vals.

Theorem C13_gen_legacy_summary_pairwise_indices :
  match src_Legacy_summary_pairwise_indices with
  | Some b => forall nr nc c cb per_col tm tmv flag cdf alpha,
      List.length cb = nc -> c < nc ->
      where1 (penv_leg nr nc c (summ_slice cb per_col tm tmv) flag cdf alpha)
             (bvev (penv_leg nr nc c (summ_slice cb per_col tm tmv) flag cdf alpha) b) =
      Some (legacy_where alpha (flag "only_larger")
                         (vnth (summary_p cdf cb (tm_fun per_col tm tmv) c))
                         (vnth (summary_t cb (tm_fun per_col tm tmv) c)) nc)
  | None => True
  end.
Proof. exact gen_Legacy_summary_pairwise_indices. Qed.
Print Assumptions C13_gen_legacy_summary_pairwise_indices.

Theorem C13_gen_legacy_t_stats_scale_means :
  match src_Legacy_t_stats_scale_means with
  | Some e => forall nr nc c means vars nv M flag cdf alpha,
      List.length means = nc -> c < nc ->
      pagrees_vec (penv_leg nr nc c (scale_slice means vars nv M) flag cdf alpha)
                  (pev true (penv_leg nr nc c (scale_slice means vars nv M) flag cdf alpha) e) DC
                  (vnth (scale_t means vars (valid_counts nv M nr) c))
  | None => True
  end.
Proof. exact gen_Legacy_t_stats_scale_means. Qed.
Print Assumptions C13_gen_legacy_t_stats_scale_means.

Theorem C13_gen_legacy_two_sample_df :
  match src_Legacy__two_sample_df with
  | Some e => forall nr nc c means vars nv M flag cdf alpha,
      c < nc ->
      pagrees_vec (penv_leg nr nc c (scale_slice means vars nv M) flag cdf alpha)
                  (pev false (penv_leg nr nc c (scale_slice means vars nv M) flag cdf alpha) e) DC
                  (vnth (scale_dfs nc (valid_counts nv M nr) c))
  | None => True
  end.
Proof. exact gen_Legacy__two_sample_df. Qed.
Print Assumptions C13_gen_legacy_two_sample_df.

Theorem C13_gen_legacy_p_vals_scale_means :
  match src_Legacy_p_vals_scale_means with
  | Some e => forall nr nc c means vars nv M flag cdf alpha,
      List.length means = nc -> c < nc ->
      pagrees_vec (penv_leg nr nc c (scale_slice means vars nv M) flag cdf alpha)
                  (pev false (penv_leg nr nc c (scale_slice means vars nv M) flag cdf alpha) e) DC
                  (vnth (scale_p cdf means vars (valid_counts nv M nr) c))
  | None => True
  end.
Proof. exact gen_Legacy_p_vals_scale_means. Qed.
Print Assumptions C13_gen_legacy_p_vals_scale_means.

Theorem C13_gen_legacy_scale_mean_pairwise_indices :
  match src_Legacy_scale_mean_pairwise_indices with
  | Some b => forall nr nc c means vars nv M flag cdf alpha,
      List.length means = nc -> c < nc ->
      where1 (penv_leg nr nc c (scale_slice means vars nv M) flag cdf alpha)
             (bvev (penv_leg nr nc c (scale_slice means vars nv M) flag cdf alpha) b) =
      Some (legacy_where alpha (flag "only_larger")
                         (vnth (scale_p cdf means vars (valid_counts nv M nr) c))
                         (vnth (scale_t means vars (valid_counts nv M nr) c)) nc)
  | None => True
  end.
Proof. exact gen_Legacy_scale_mean_pairwise_indices. Qed.
Print Assumptions C13_gen_legacy_scale_mean_pairwise_indices.

Theorem C13_gen_legacy_per_column :
  (match src_PairwiseSignificance__scale_mean_pairwise_indices with
  | Some w => forall A (E : lwenv A),
      lwev E w = Some (per_column (lw_ncols E) (lw_member E "scale_mean_pairwise_indices" col_args))
  | None => True
  end) /\
  (match src_PairwiseSignificance_summary_pairwise_indices with
  | Some w => forall A (E : lwenv A),
      lwev E w = Some (per_column (lw_ncols E) (lw_member E "summary_pairwise_indices" col_args))
  | None => True
  end) /\
  (match src_PairwiseSignificance_scale_mean_pairwise_indices with
  | Some w => forall A (E : lwenv A),
      lwev E w = Some (per_column (lw_ncols E) (lw_member E "scale_mean_pairwise_indices" col_args))
  | None => True
  end).
Proof. exact (conj gen_PairwiseSignificance__scale_mean_pairwise_indices (conj gen_PairwiseSignificance_summary_pairwise_indices gen_PairwiseSignificance_scale_mean_pairwise_indices)). Qed.
Print Assumptions C13_gen_legacy_per_column.

Theorem C13_gen_pairwise_indices :
  match psrc_Slice__pairwise_indices with
  | Some b => forall rows cols P T alpha ol own,
      nrows P = rows -> (forall i, i < rows -> List.length (mrow P i) = cols) -> own < cols ->
      ipev (benv_std rows cols P T alpha ol own) b = Some (indices_col alpha ol own P T)
  | None => True
  end.
Proof. exact gen_Slice__pairwise_indices. Qed.
Print Assumptions C13_gen_pairwise_indices.

Theorem C13_gen_alpha_values :
  match psrc_CubePartition__alpha_values with
  | Some e => forall v, aval_wf v -> res_agrees (jev (j_of_aval v) e) (alpha_parse v)
  | None => True
  end.
Proof. exact gen_CubePartition__alpha_values. Qed.
Print Assumptions C13_gen_alpha_values.

Theorem C13_gen_alpha_projections :
  match psrc_CubePartition__alpha with
  | Some a => a = 0
  | None => True
  end /\
  match psrc_CubePartition__alpha_alt with
  | Some b => b = 1
  | None => True
  end.
Proof. exact gen_CubePartition__alpha_projections. Qed.
Print Assumptions C13_gen_alpha_projections.

Theorem C13_gen_only_larger :
  match psrc_CubePartition__only_larger with
  | Some e => forall v, olev e (j_of_ol v) = only_larger_parse v
  | None => True
  end.
Proof. exact gen_CubePartition__only_larger. Qed.
Print Assumptions C13_gen_only_larger.

Theorem C13_gen_cube_has_overlaps :
  match psrc_Slice__cube_has_overlaps with
  | Some c => forall E,
      rcev E c = d_dimtype E (-1)%Z "MR" && (d_cube_given E "overlaps" && d_cube_given E "valid_overlaps")
  | None => True
  end.
Proof. exact gen_Slice__cube_has_overlaps. Qed.
Print Assumptions C13_gen_cube_has_overlaps.

Theorem C13_gen_selected_column_routing :
  (match psrc_Slice__pairwise_significance_t_stats with
  | Some e => forall E c, dev E e c = routed E "pairwise_t_stats_for_subvar" "pairwise_t_stats" c
  | None => True
  end) /\
  (match psrc_Slice__pairwise_significance_p_vals with
  | Some e => forall E c, dev E e c = routed E "pairwise_p_vals_for_subvar" "pairwise_p_vals" c
  | None => True
  end) /\
  (match psrc_Slice__pairwise_significance_means_t_stats with
  | Some e => forall E c,
      dev E e c = routed E "pairwise_significance_means_t_stats" "pairwise_significance_means_t_stats" c
  | None => True
  end) /\
  (match psrc_Slice__pairwise_significance_means_p_vals with
  | Some e => forall E c,
      dev E e c = routed E "pairwise_significance_means_p_vals" "pairwise_significance_means_p_vals" c
  | None => True
  end).
Proof. exact (conj gen_Slice__pairwise_significance_t_stats (conj gen_Slice__pairwise_significance_p_vals (conj gen_Slice__pairwise_significance_means_t_stats gen_Slice__pairwise_significance_means_p_vals))). Qed.
Print Assumptions C13_gen_selected_column_routing.

Theorem C13_gen_pairwise_indices_args :
  (match psrc_Slice_pairwise_indices with
  | Some e => forall cols mat scal flag a, scal "_alpha" = Some a ->
      wev (wenv_std cols mat scal flag) e =
      WR_cols (idx_cols cols mat flag "_pairwise_significance_p_vals" "_pairwise_significance_t_stats" a)
  | None => True
  end) /\
  (match psrc_Slice_pairwise_indices_alt with
  | Some e => forall cols mat scal flag,
      wev (wenv_std cols mat scal flag) e =
      match scal "_alpha_alt" with
      | None => WR_none
      | Some b => WR_cols (idx_cols cols mat flag "_pairwise_significance_p_vals"
                                    "_pairwise_significance_t_stats" b)
      end
  | None => True
  end).
Proof. exact (conj gen_Slice_pairwise_indices gen_Slice_pairwise_indices_alt). Qed.
Print Assumptions C13_gen_pairwise_indices_args.

Theorem C13_gen_pairwise_means_indices_args :
  (match psrc_Slice_pairwise_means_indices with
  | Some e => forall cols mat scal flag a, scal "_alpha" = Some a ->
      wev (wenv_std cols mat scal flag) e =
      WR_cols (idx_cols cols mat flag "_pairwise_significance_means_p_vals"
                        "_pairwise_significance_means_t_stats" a)
  | None => True
  end) /\
  (match psrc_Slice_pairwise_means_indices_alt with
  | Some e => forall cols mat scal flag,
      wev (wenv_std cols mat scal flag) e =
      match scal "_alpha_alt" with
      | None => WR_none
      | Some b => WR_cols (idx_cols cols mat flag "_pairwise_significance_means_p_vals"
                                    "_pairwise_significance_means_t_stats" b)
      end
  | None => True
  end).
Proof. exact (conj gen_Slice_pairwise_means_indices gen_Slice_pairwise_means_indices_alt). Qed.
Print Assumptions C13_gen_pairwise_means_indices_args.

(* ---- non-vacuity: the shape / range hypotheses of the theorems above are inhabited by a table without
   subtotal rows (those blocks are []), one subtotal column selected (-1) or a base column (1); the model
   blocks they speak about are not trivial there ---- *)
Example C13_gen_example_hypotheses :
  let B := fun (m : string) (bi bj : nat) =>
    if String.eqb m "column_proportions"
    then match bi, bj with
         | 0, 0 => [[Fin (1#2)%Q; Fin (1#4)%Q]; [Fin (1#2)%Q; Fin (3#4)%Q]]
         | 0, _ => [[Fin (3#8)%Q]; [Fin (5#8)%Q]]
         | _, _ => []
         end
    else match bi, bj with
         | 0, 0 => [[Fin 8%Q; Fin 8%Q]; [Fin 8%Q; Fin 8%Q]]
         | 0, _ => [[Fin 16%Q]; [Fin 16%Q]]
         | _, _ => []
         end in
  let c3 := fun (_ _ : string) =>
    [[[Fin 6%Q; Fin 2%Q]; [Fin 2%Q; Fin 4%Q]]; [[Fin 6%Q; Fin 2%Q]; [Fin 2%Q; Fin 4%Q]]] in
  pw_shaped B 2 2 0 1 /\ sel_ok (-1) 2 1 /\ sel_ok 1 2 1 /\ ov_shaped B c3 2 2 /\
  mnth (nth 0 (pw_model (-1) (fun _ => false) B) []) 0 1 =x= Fin ((-16) # 39)%Q /\
  mnth (nth 5 (pw_model (-1) (fun _ => false) B) []) 0 0 =x= Fin 30%Q /\
  mnth (nth 0 (pw_model 1 (fun _ => true) B) []) 1 0 =x= Fin ((-8) # 7)%Q /\
  aval_wf (Av_float (1#10)%Q) /\ aval_wf (Av_list [It_float (1#10)%Q; It_other]).
Proof.
  cbv zeta. unfold pw_shaped, blk_shaped, ov_shaped, sq3, shaped, sel_ok, aval_wf.
  repeat split; try reflexivity; try lia; try (intros; cbn; lia); try (vm_compute; reflexivity);
    try (intro H; discriminate H);
    try (destruct i as [|[|i]]; [reflexivity|reflexivity|lia]);
    try (intros j Hj; destruct i as [|[|i]]; [| |lia]; (destruct j as [|[|j]]; [reflexivity|reflexivity|lia])).
Qed.

End GenAgreePairwise_C13.

(* ==== GenAgree (overlap bases): which planes of cube.overlaps / cube.valid_overlaps feed the overlap test ==== *)
(* Gen/CubeCountsSrc.v (first translator) holds what matrix/cubemeasure.py says for _CatXMrOverlaps / _MrXMrOverlaps
   .selected_bases / .valid_bases; Gen/PairwiseSrc.v what _BaseCubeOverlaps.factory says (class dispatch, what
   each constructor field is bound to, the `is None` guards).  The theorems say it denotes Model/OverlapBases.v;
   the cut [FSliced] is cls._slice_idx_expr, whose reading is C01_gen_slice_idx_expr ([slice_at]); meaning theorems
   about the model (legacy tests and overlap bases) follow. *)
From CC Require Base.Tensor Base.TensorTile Model.CubeCounts Model.OverlapBases Gen.CubeCountsSrc Gen.StripeCountsSrc Gen.Tables
     Proofs.GenAgreeTac Proofs.GenAgreeOverlapBases Proofs.PairwiseLegacyProofs.
Section GenAgreeOverlapBases_C13.   (* scopes and imports below end with the section *)
Import Coq.Strings.String CC.Base.Tensor CC.Base.TensorTile CC.Model.CubeCounts CC.Model.OverlapBases CC.Model.PairwiseLegacy
       CC.Gen.CubeCountsSrc CC.Gen.StripeCountsSrc CC.Gen.Tables CC.Gen.PairwiseSrc CC.Proofs.GenAgreeTac
       CC.Proofs.GenAgreeOverlapBases CC.Proofs.PairwiseLegacyProofs.
Import Coq.Lists.List.ListNotations CC.Base.XQ.
Local Close Scope Q_scope.
Local Open Scope string_scope.
Local Open Scope nat_scope.

Theorem C13_gen_overlap_bases_classes :
  (match src_CatXMrOverlaps_selected_bases with
  | Some e => forall O V nr ns sel,
      agrees3 (teval_tile (env_ov (ov_shape false nr ns sel) O V) e) nr ns ns (selected_of O nr sel false)
  | None => True
  end) /\
  (match src_CatXMrOverlaps_valid_bases with
  | Some e => forall O V nr ns sel,
      agrees3 (teval_tile (env_ov (ov_shape false nr ns sel) O V) e) nr ns ns (valid_of V nr sel false)
  | None => True
  end) /\
  (match src_MrXMrOverlaps_selected_bases with
  | Some e => forall O V nr ns sel,
      agrees3 (teval_tile (env_ov (ov_shape true nr ns sel) O V) e) nr ns ns (selected_of O nr sel true)
  | None => True
  end) /\
  (match src_MrXMrOverlaps_valid_bases with
  | Some e => forall O V nr ns sel,
      agrees3 (teval_tile (env_ov (ov_shape true nr ns sel) O V) e) nr ns ns (valid_of V nr sel true)
  | None => True
  end).
Proof. exact (conj gen_CatXMrOverlaps_selected_bases (conj gen_CatXMrOverlaps_valid_bases (conj gen_MrXMrOverlaps_selected_bases gen_MrXMrOverlaps_valid_bases))). Qed.
Print Assumptions C13_gen_overlap_bases_classes.

Theorem C13_gen_overlaps_factory_binds :
  binds_to src_CubeOverlaps_binds "_overlaps" (FSliced (FCube "overlaps")) /\
  binds_to src_CubeOverlaps_binds "_valid_overlaps" (FSliced (FCube "valid_overlaps")) /\
  match src_CubeOverlaps_guards with
  | Some g => g = ["overlaps"; "valid_overlaps"]
  | None => True
  end.
Proof. exact gen_overlaps_factory_binds. Qed.
Print Assumptions C13_gen_overlaps_factory_binds.

Theorem C13_gen_overlaps_factory_dispatch :
  (match src_CubeOverlaps_dispatch with
  | Some D => forall rmr cmr,
      meth src_methods (cond_pick rmr cmr (fst D) (snd D)) "selected_bases"
        (fun e => forall O V nr ns sel,
           agrees3 (teval_tile (env_ov (ov_shape (rmr && cmr) nr ns sel) O V) e) nr ns ns
                   (selected_of O nr sel (rmr && cmr)))
  | None => True
  end) /\
  (match src_CubeOverlaps_dispatch with
  | Some D => forall rmr cmr,
      meth src_methods (cond_pick rmr cmr (fst D) (snd D)) "valid_bases"
        (fun e => forall O V nr ns sel,
           agrees3 (teval_tile (env_ov (ov_shape (rmr && cmr) nr ns sel) O V) e) nr ns ns
                   (valid_of V nr sel (rmr && cmr)))
  | None => True
  end).
Proof. exact (conj gen_dispatch_overlaps_selected gen_dispatch_overlaps_valid). Qed.
Print Assumptions C13_gen_overlaps_factory_dispatch.

(* ---- what Model/PairwiseLegacy.v and Model/OverlapBases.v MEAN ---- *)
Theorem C13_legacy_summary_formula (cb cb0 N : Q) :
  (0 < N)%Q ->
  let p := (cb / N)%Q in let p0 := (cb0 / N)%Q in
  (0 < p * (1 - p) / N + p0 * (1 - p0) / N)%Q ->
  summary_tabs (Fin cb) (Fin N) (Fin cb0) (Fin N) =x=
  Fin ((p - p0) * Qabs.Qabs (p - p0) / (p * (1 - p) / N + p0 * (1 - p0) / N))%Q.
Proof. exact (summary_tabs_formula cb cb0 N). Qed.
Print Assumptions C13_legacy_summary_formula.

Theorem C13_legacy_scale_formula (m v n m0 v0 n0 : Q) :
  ~ (n == 0)%Q -> ~ (n0 == 0)%Q -> ~ (n0 + n - 2 == 0)%Q ->
  (0 < qpool n v n0 v0)%Q -> (0 < 1 / n0 + 1 / n)%Q ->
  scale_tabs (Fin m) (Fin v) (Fin n) (Fin m0) (Fin v0) (Fin n0) =x=
  Fin ((m - m0) * Qabs.Qabs (m - m0) / (qpool n v n0 v0 * (1 / n0 + 1 / n)))%Q.
Proof. exact (scale_tabs_formula m v n m0 v0 n0). Qed.
Print Assumptions C13_legacy_scale_formula.

Theorem C13_legacy_scale_df (n n0 : Q) : scale_df (Fin n) (Fin n0) =x= Fin (n0 + n - 2)%Q.
Proof. exact (scale_df_fin n n0). Qed.
Print Assumptions C13_legacy_scale_df.

Theorem C13_legacy_scale_df_sym n n0 : scale_df n0 n =x= scale_df n n0.
Proof. exact (scale_df_sym n n0). Qed.
Print Assumptions C13_legacy_scale_df_sym.

Theorem C13_legacy_valid_counts_all_valid nv M nr j :
  (forall i, i < nr -> is_nan (vnth nv i) = false) ->
  valid_counts nv M nr j = xsum (map (fun i => mnth M i j) (seq 0 nr)).
Proof. exact (valid_counts_all_valid nv M nr j). Qed.
Print Assumptions C13_legacy_valid_counts_all_valid.

Theorem C13_legacy_where_def alpha ol pv tv n j :
  In j (legacy_where alpha ol pv tv n) <->
  j < n /\ xltb (pv j) alpha = true /\ (ol = true -> xltb (tv j) (Fin 0%Q) = true).
Proof. exact (legacy_where_spec alpha ol pv tv n j). Qed.
Print Assumptions C13_legacy_where_def.

Theorem C13_legacy_where_self_excluded alpha pv tv n c :
  tv c = Fin 0%Q \/ tv c = NaN -> ~ In c (legacy_where alpha true pv tv n).
Proof. exact (legacy_where_self_excluded_t alpha pv tv n c). Qed.
Print Assumptions C13_legacy_where_self_excluded.

(* the witness of the open finding C05-scale-mean-pairwise-hidden, as the model (= the code) computes it:
   CAT(values 1, 2, 3) x CAT, counts [[4,1],[1,1],[1,4]], column scale means 3/2, 5/2 *)
Example C13_legacy_example :
  let M := [[Fin 4%Q; Fin 1%Q]; [Fin 1%Q; Fin 1%Q]; [Fin 1%Q; Fin 4%Q]] in
  let nv := [Fin 1%Q; Fin 2%Q; Fin 3%Q] in
  let means := [Fin (3#2)%Q; Fin (5#2)%Q] in
  (* all three rows displayed: n = 6, 6; variances 7/12; t^2 = 36/7 (t = 2.2678), df = 10 *)
  valid_counts nv M 3 0 =x= Fin 6%Q /\
  vnth (scale_t means [Fin (7#12)%Q; Fin (7#12)%Q] (valid_counts nv M 3) 0) 1 =x= Fin (36#7)%Q /\
  vnth (scale_dfs 2 (valid_counts nv M 3) 0) 1 =x= Fin 10%Q /\
  (* row 2 hidden: the displayed counts give n = 5, 5, variances 13/20: t^2 = 50/13 (t = 1.9612), df = 8 *)
  (let M' := [[Fin 4%Q; Fin 1%Q]; [Fin 1%Q; Fin 4%Q]] in
   let nv' := [Fin 1%Q; Fin 3%Q] in
   vnth (scale_t means [Fin (13#20)%Q; Fin (13#20)%Q] (valid_counts nv' M' 2) 0) 1 =x= Fin (50#13)%Q /\
   vnth (scale_dfs 2 (valid_counts nv' M' 2) 0) 1 =x= Fin 8%Q) /\
  (* a row without a numeric value does not count *)
  valid_counts [Fin 1%Q; NaN; Fin 3%Q] M 3 0 =x= Fin 5%Q /\
  (* the summary test: shares 30/100 against 50/100 *)
  vnth (summary_t [Fin 50%Q; Fin 30%Q] (fun _ => Fin 100%Q) 0) 1 =x= Fin ((-200) # 23)%Q /\
  vnth (summary_df [Fin 50%Q; Fin 30%Q] 0) 1 =x= Fin 78%Q /\
  legacy_where (Fin (5#100)%Q) true (vnth [Fin 1%Q; Fin (1#100)%Q; Fin (1#100)%Q]) (vnth [Fin 0%Q; Fin (-4)%Q; Fin 9%Q]) 3 = [1].
Proof. vm_compute. repeat split; reflexivity. Qed.

Theorem C13_overlap_slice_mr_table ndim k T idx : 3 <= ndim ->
  overlap_slice ndim true k T idx = T (k :: 0 :: idx).
Proof. exact (overlap_slice_mr_table ndim k T idx). Qed.
Print Assumptions C13_overlap_slice_mr_table.

Theorem C13_overlap_slice_cat_table ndim k T idx : 3 <= ndim ->
  overlap_slice ndim false k T idx = T (k :: idx).
Proof. exact (overlap_slice_cat_table ndim k T idx). Qed.
Print Assumptions C13_overlap_slice_cat_table.

Theorem C13_overlap_slice_2d ndim tmr k T : ndim < 3 -> overlap_slice ndim tmr k T = T.
Proof. exact (overlap_slice_2d ndim tmr k T). Qed.
Print Assumptions C13_overlap_slice_2d.

Theorem C13_overlap_valid_excludes_missing V ncat r a b :
  cm_valid V ncat 3 r a b =
  xsumn ncat (fun c => xadd (V [c; a; 0; b]) (xadd (V [c; a; 1; b]) (Fin 0%Q))).
Proof. exact (cm_valid_excludes_missing V ncat r a b). Qed.
Print Assumptions C13_overlap_valid_excludes_missing.

Theorem C13_overlap_mr_selected_planes O r a b :
  mm_selected O 3 r a b = xadd (O [r; 0; a; 0; b]) (xadd (O [r; 1; a; 0; b]) (Fin 0%Q)).
Proof. exact (mm_selected_planes O r a b). Qed.
Print Assumptions C13_overlap_mr_selected_planes.

End GenAgreeOverlapBases_C13.
(* ==== GenAgree (pairwise translator): END ==== *)

(* ---- WIRING-APPENDIX:BEGIN (generated by tools/gen_wiring_props.py; do not edit) ---- *)
From CC Require Proofs.GenAgreeWiring_C13.
Section Wiring_C13.
Import Coq.Lists.List Coq.ZArith.ZArith Coq.Strings.String CC.Base.WiringExp CC.Gen.WiringSrc.
Import ListNotations.
Local Open Scope string_scope.

Theorem C13_wiring_CubePartition__alpha :
  wsrc_CubePartition__alpha = Some (WIndex (WSelf "_alpha_values") [WInt (0)%Z]).
Proof. exact Proofs.GenAgreeWiring_C13.gen_wiring_CubePartition__alpha. Qed.
Print Assumptions C13_wiring_CubePartition__alpha.

Theorem C13_wiring_CubePartition__alpha_alt :
  wsrc_CubePartition__alpha_alt = Some (WIndex (WSelf "_alpha_values") [WInt (1)%Z]).
Proof. exact Proofs.GenAgreeWiring_C13.gen_wiring_CubePartition__alpha_alt. Qed.
Print Assumptions C13_wiring_CubePartition__alpha_alt.

Theorem C13_wiring_CubePartition__only_larger :
  wsrc_CubePartition__only_larger = Some (WIf (WCmp "is" (WCall (WAttr (WCall (WAttr (WSelf
      "_transforms_dict") "get") [WStr "pairwise_indices"; WDict []] []) "get") [WStr "only_larger";
      WTrue] []) (WFalse)) (WFalse) (WTrue)).
Proof. exact Proofs.GenAgreeWiring_C13.gen_wiring_CubePartition__only_larger. Qed.
Print Assumptions C13_wiring_CubePartition__only_larger.

Theorem C13_wiring_Slice_columns_squared_base :
  wsrc_Slice_columns_squared_base = Some (WIf (WUn "not" (WAttr (WAttr (WSelf "_measures")
      "columns_squared_base") "is_defined")) (WNone) (w_marginal_of "columns_squared_base")).
Proof. exact Proofs.GenAgreeWiring_C13.gen_wiring_Slice_columns_squared_base. Qed.
Print Assumptions C13_wiring_Slice_columns_squared_base.

Theorem C13_wiring_Slice_columns_scale_mean_pairwise_indices :
  wsrc_Slice_columns_scale_mean_pairwise_indices = Some (WCall (WAttr (WGlobal "PairwiseSignificance")
      "scale_mean_pairwise_indices") [WVar "self"; WSelf "_alpha"; WSelf "_only_larger"] []).
Proof. exact Proofs.GenAgreeWiring_C13.gen_wiring_Slice_columns_scale_mean_pairwise_indices. Qed.
Print Assumptions C13_wiring_Slice_columns_scale_mean_pairwise_indices.

Theorem C13_wiring_Slice_columns_scale_mean_pairwise_indices_alt :
  wsrc_Slice_columns_scale_mean_pairwise_indices_alt = Some (WIf (WCmp "is" (WSelf "_alpha_alt")
      (WNone)) (WNone) (WCall (WAttr (WGlobal "PairwiseSignificance") "scale_mean_pairwise_indices")
      [WVar "self"; WSelf "_alpha_alt"; WSelf "_only_larger"] [])).
Proof. exact Proofs.GenAgreeWiring_C13.gen_wiring_Slice_columns_scale_mean_pairwise_indices_alt. Qed.
Print Assumptions C13_wiring_Slice_columns_scale_mean_pairwise_indices_alt.

Theorem C13_wiring_Slice__indices_matrix :
  wsrc_Slice__indices_matrix = Some (WIf (WCmp "==" (WCall (WGlobal "len") [WVar "column_vectors"] [])
      (WInt (0)%Z)) (WCall (WAttr (WGlobal "np") "empty") [WTuple [WCall (WGlobal "len") [WSelf
      "_row_order_signed_indexes"] []; WInt (0)%Z]] [("dtype", WGlobal "object")]) (WAttr (WCall
      (WAttr (WGlobal "np") "array") [WVar "column_vectors"] []) "T")).
Proof. exact Proofs.GenAgreeWiring_C13.gen_wiring_Slice__indices_matrix. Qed.
Print Assumptions C13_wiring_Slice__indices_matrix.

Theorem C13_wiring_Slice__pairwise_means_indices :
  wsrc_Slice__pairwise_means_indices = Some (WCall (WSelf "_indices_matrix") [WComp "list" (WCall
      (WSelf "_pairwise_indices") [WCall (WSelf "_pairwise_significance_means_p_vals") [WVar "col"]
      []; WCall (WSelf "_pairwise_significance_means_t_stats") [WVar "col"] []; WVar "alpha"; WVar
      "only_larger"; WVar "col"] []) [(["col"], WCall (WGlobal "range") [WCall (WGlobal "len")
      [WSelf "_column_order_signed_indexes"] []] [], [])]] []).
Proof. exact Proofs.GenAgreeWiring_C13.gen_wiring_Slice__pairwise_means_indices. Qed.
Print Assumptions C13_wiring_Slice__pairwise_means_indices.

Theorem C13_wiring_Slice__pairwise_significance_p_vals :
  wsrc_Slice__pairwise_significance_p_vals = Some (WIf (WSelf "_cube_has_overlaps") (WCall (WSelf
      "_assemble_matrix") [WAttr (WCall (WAttr (WSelf "_measures") "pairwise_p_vals_for_subvar")
      [WIndex (WSelf "_column_order_signed_indexes") [WVar "column_idx"]] []) "blocks"] []) (WCall
      (WSelf "_assemble_matrix") [WAttr (WCall (WAttr (WSelf "_measures") "pairwise_p_vals") [WIndex
      (WSelf "_column_order_signed_indexes") [WVar "column_idx"]] []) "blocks"] [])).
Proof. exact Proofs.GenAgreeWiring_C13.gen_wiring_Slice__pairwise_significance_p_vals. Qed.
Print Assumptions C13_wiring_Slice__pairwise_significance_p_vals.

Theorem C13_wiring_Slice__pairwise_significance_t_stats :
  wsrc_Slice__pairwise_significance_t_stats = Some (WIf (WSelf "_cube_has_overlaps") (WCall (WSelf
      "_assemble_matrix") [WAttr (WCall (WAttr (WSelf "_measures") "pairwise_t_stats_for_subvar")
      [WIndex (WSelf "_column_order_signed_indexes") [WVar "column_idx"]] []) "blocks"] []) (WCall
      (WSelf "_assemble_matrix") [WAttr (WCall (WAttr (WSelf "_measures") "pairwise_t_stats")
      [WIndex (WSelf "_column_order_signed_indexes") [WVar "column_idx"]] []) "blocks"] [])).
Proof. exact Proofs.GenAgreeWiring_C13.gen_wiring_Slice__pairwise_significance_t_stats. Qed.
Print Assumptions C13_wiring_Slice__pairwise_significance_t_stats.

Theorem C13_wiring_Slice__pairwise_significance_means_p_vals :
  wsrc_Slice__pairwise_significance_means_p_vals = Some (WCall (WSelf "_assemble_matrix") [WAttr
      (WCall (WAttr (WSelf "_measures") "pairwise_significance_means_p_vals") [WIndex (WSelf
      "_column_order_signed_indexes") [WVar "column_idx"]] []) "blocks"] []).
Proof. exact Proofs.GenAgreeWiring_C13.gen_wiring_Slice__pairwise_significance_means_p_vals. Qed.
Print Assumptions C13_wiring_Slice__pairwise_significance_means_p_vals.

Theorem C13_wiring_Slice__pairwise_significance_means_t_stats :
  wsrc_Slice__pairwise_significance_means_t_stats = Some (WCall (WSelf "_assemble_matrix") [WAttr
      (WCall (WAttr (WSelf "_measures") "pairwise_significance_means_t_stats") [WIndex (WSelf
      "_column_order_signed_indexes") [WVar "column_idx"]] []) "blocks"] []).
Proof. exact Proofs.GenAgreeWiring_C13.gen_wiring_Slice__pairwise_significance_means_t_stats. Qed.
Print Assumptions C13_wiring_Slice__pairwise_significance_means_t_stats.

Theorem C13_wiring_Slice_pairwise_indices :
  wsrc_Slice_pairwise_indices = Some (WCall (WSelf "_indices_matrix") [WComp "list" (WCall (WSelf
      "_pairwise_indices") [WCall (WSelf "_pairwise_significance_p_vals") [WVar "col"] []; WCall
      (WSelf "_pairwise_significance_t_stats") [WVar "col"] []; WSelf "_alpha"; WSelf
      "_only_larger"; WVar "col"] []) [(["col"], WCall (WGlobal "range") [WCall (WGlobal "len")
      [WSelf "_column_order_signed_indexes"] []] [], [])]] []).
Proof. exact Proofs.GenAgreeWiring_C13.gen_wiring_Slice_pairwise_indices. Qed.
Print Assumptions C13_wiring_Slice_pairwise_indices.

Theorem C13_wiring_Slice_pairwise_indices_alt :
  wsrc_Slice_pairwise_indices_alt = Some (WIf (WCmp "is" (WSelf "_alpha_alt") (WNone)) (WNone) (WCall
      (WSelf "_indices_matrix") [WComp "list" (WCall (WSelf "_pairwise_indices") [WCall (WSelf
      "_pairwise_significance_p_vals") [WVar "col"] []; WCall (WSelf
      "_pairwise_significance_t_stats") [WVar "col"] []; WSelf "_alpha_alt"; WSelf "_only_larger";
      WVar "col"] []) [(["col"], WCall (WGlobal "range") [WCall (WGlobal "len") [WSelf
      "_column_order_signed_indexes"] []] [], [])]] [])).
Proof. exact Proofs.GenAgreeWiring_C13.gen_wiring_Slice_pairwise_indices_alt. Qed.
Print Assumptions C13_wiring_Slice_pairwise_indices_alt.

Theorem C13_wiring_Slice_pairwise_means_indices :
  wsrc_Slice_pairwise_means_indices = Some (WTryValueError (WCall (WSelf "_pairwise_means_indices")
      [WSelf "_alpha"; WSelf "_only_larger"] []) "").
Proof. exact Proofs.GenAgreeWiring_C13.gen_wiring_Slice_pairwise_means_indices. Qed.
Print Assumptions C13_wiring_Slice_pairwise_means_indices.

Theorem C13_wiring_Slice_pairwise_means_indices_alt :
  wsrc_Slice_pairwise_means_indices_alt = Some (WIf (WCmp "is" (WSelf "_alpha_alt") (WNone)) (WNone)
      (WTryValueError (WCall (WSelf "_pairwise_means_indices") [WSelf "_alpha_alt"; WSelf
      "_only_larger"] []) "")).
Proof. exact Proofs.GenAgreeWiring_C13.gen_wiring_Slice_pairwise_means_indices_alt. Qed.
Print Assumptions C13_wiring_Slice_pairwise_means_indices_alt.

Theorem C13_wiring_Slice_pairwise_significance_p_vals :
  wsrc_Slice_pairwise_significance_p_vals = Some (WCall (WSelf "_pairwise_significance_p_vals") [WVar
      "column_idx"] []).
Proof. exact Proofs.GenAgreeWiring_C13.gen_wiring_Slice_pairwise_significance_p_vals. Qed.
Print Assumptions C13_wiring_Slice_pairwise_significance_p_vals.

Theorem C13_wiring_Slice_pairwise_significance_t_stats :
  wsrc_Slice_pairwise_significance_t_stats = Some (WCall (WSelf "_pairwise_significance_t_stats")
      [WVar "column_idx"] []).
Proof. exact Proofs.GenAgreeWiring_C13.gen_wiring_Slice_pairwise_significance_t_stats. Qed.
Print Assumptions C13_wiring_Slice_pairwise_significance_t_stats.

Theorem C13_wiring_Slice_pairwise_significance_means_p_vals :
  wsrc_Slice_pairwise_significance_means_p_vals = Some (WTryValueError (WCall (WSelf
      "_pairwise_significance_means_p_vals") [WVar "column_idx"] []) "").
Proof. exact Proofs.GenAgreeWiring_C13.gen_wiring_Slice_pairwise_significance_means_p_vals. Qed.
Print Assumptions C13_wiring_Slice_pairwise_significance_means_p_vals.

Theorem C13_wiring_Slice_pairwise_significance_means_t_stats :
  wsrc_Slice_pairwise_significance_means_t_stats = Some (WTryValueError (WCall (WSelf
      "_pairwise_significance_means_t_stats") [WVar "column_idx"] []) "").
Proof. exact Proofs.GenAgreeWiring_C13.gen_wiring_Slice_pairwise_significance_means_t_stats. Qed.
Print Assumptions C13_wiring_Slice_pairwise_significance_means_t_stats.

Theorem C13_wiring_Slice_pairwise_significance_tests :
  wsrc_Slice_pairwise_significance_tests = Some (WCall (WGlobal "tuple") [WComp "gen" (WIndex (WAttr
      (WCall (WGlobal "PairwiseSignificance") [WVar "self"] []) "values") [WVar "column_idx"])
      [(["column_idx"], WCall (WGlobal "range") [WCall (WGlobal "len") [WSelf "column_labels"] []]
      [], [])]] []).
Proof. exact Proofs.GenAgreeWiring_C13.gen_wiring_Slice_pairwise_significance_tests. Qed.
Print Assumptions C13_wiring_Slice_pairwise_significance_tests.

Theorem C13_wiring_Slice_summary_pairwise_indices :
  wsrc_Slice_summary_pairwise_indices = Some (WAttr (WCall (WGlobal "PairwiseSignificance") [WVar
      "self"; WSelf "_alpha"; WSelf "_only_larger"] []) "summary_pairwise_indices").
Proof. exact Proofs.GenAgreeWiring_C13.gen_wiring_Slice_summary_pairwise_indices. Qed.
Print Assumptions C13_wiring_Slice_summary_pairwise_indices.

Theorem C13_wiring_Slice__cube_has_overlaps :
  wsrc_Slice__cube_has_overlaps = Some (WBoolOp "and" [WCmp "==" (WAttr (WIndex (WSelf "_dimensions")
      [WInt (-1)%Z]) "dimension_type") (WAttr (WGlobal "DT") "MR"); WCmp "is not" (WAttr (WSelf
      "_cube") "overlaps") (WNone); WCmp "is not" (WAttr (WSelf "_cube") "valid_overlaps")
      (WNone)]).
Proof. exact Proofs.GenAgreeWiring_C13.gen_wiring_Slice__cube_has_overlaps. Qed.
Print Assumptions C13_wiring_Slice__cube_has_overlaps.

Theorem C13_wiring_SecondOrderMeasures_column_squared_bases :
  wsrc_SecondOrderMeasures_column_squared_bases = Some (WCall (WGlobal "_ColumnSquaredBases") [WSelf
      "_dimensions"; WVar "self"; WSelf "_cube_measures"] []).
Proof. exact Proofs.GenAgreeWiring_C13.gen_wiring_SecondOrderMeasures_column_squared_bases. Qed.
Print Assumptions C13_wiring_SecondOrderMeasures_column_squared_bases.

Theorem C13_wiring_SecondOrderMeasures_columns_squared_base :
  wsrc_SecondOrderMeasures_columns_squared_base = Some (WCall (WGlobal "_MarginSquaredBase") [WSelf
      "_dimensions"; WVar "self"; WSelf "_cube_measures"; WAttr (WGlobal "MO") "COLUMNS"] []).
Proof. exact Proofs.GenAgreeWiring_C13.gen_wiring_SecondOrderMeasures_columns_squared_base. Qed.
Print Assumptions C13_wiring_SecondOrderMeasures_columns_squared_base.

Theorem C13_wiring_SecondOrderMeasures_pairwise_p_vals_for_subvar :
  wsrc_SecondOrderMeasures_pairwise_p_vals_for_subvar = Some (WCall (WGlobal
      "_PairwiseSigPValsForSubvar") [WSelf "_dimensions"; WVar "self"; WSelf "_cube_measures"; WVar
      "subvar_idx"] []).
Proof. exact Proofs.GenAgreeWiring_C13.gen_wiring_SecondOrderMeasures_pairwise_p_vals_for_subvar. Qed.
Print Assumptions C13_wiring_SecondOrderMeasures_pairwise_p_vals_for_subvar.

Theorem C13_wiring_SecondOrderMeasures_pairwise_t_stats_for_subvar :
  wsrc_SecondOrderMeasures_pairwise_t_stats_for_subvar = Some (WCall (WGlobal
      "_PairwiseSigTStatsForSubvar") [WSelf "_dimensions"; WVar "self"; WSelf "_cube_measures"; WVar
      "subvar_idx"] []).
Proof. exact Proofs.GenAgreeWiring_C13.gen_wiring_SecondOrderMeasures_pairwise_t_stats_for_subvar. Qed.
Print Assumptions C13_wiring_SecondOrderMeasures_pairwise_t_stats_for_subvar.

Theorem C13_wiring_SecondOrderMeasures_pairwise_p_vals :
  wsrc_SecondOrderMeasures_pairwise_p_vals = Some (WCall (WGlobal "_PairwiseSigPvals") [WSelf
      "_dimensions"; WVar "self"; WSelf "_cube_measures"; WVar "column_idx"] []).
Proof. exact Proofs.GenAgreeWiring_C13.gen_wiring_SecondOrderMeasures_pairwise_p_vals. Qed.
Print Assumptions C13_wiring_SecondOrderMeasures_pairwise_p_vals.

Theorem C13_wiring_SecondOrderMeasures_pairwise_t_stats :
  wsrc_SecondOrderMeasures_pairwise_t_stats = Some (WCall (WGlobal "_PairwiseSigTstats") [WSelf
      "_dimensions"; WVar "self"; WSelf "_cube_measures"; WVar "column_idx"] []).
Proof. exact Proofs.GenAgreeWiring_C13.gen_wiring_SecondOrderMeasures_pairwise_t_stats. Qed.
Print Assumptions C13_wiring_SecondOrderMeasures_pairwise_t_stats.

Theorem C13_wiring_SecondOrderMeasures_pairwise_significance_means_p_vals :
  wsrc_SecondOrderMeasures_pairwise_significance_means_p_vals = Some (WCall (WGlobal
      "_PairwiseMeansSigPVals") [WSelf "_dimensions"; WVar "self"; WSelf "_cube_measures"; WVar
      "column_idx"] []).
Proof. exact Proofs.GenAgreeWiring_C13.gen_wiring_SecondOrderMeasures_pairwise_significance_means_p_vals. Qed.
Print Assumptions C13_wiring_SecondOrderMeasures_pairwise_significance_means_p_vals.

Theorem C13_wiring_SecondOrderMeasures_pairwise_significance_means_t_stats :
  wsrc_SecondOrderMeasures_pairwise_significance_means_t_stats = Some (WCall (WGlobal
      "_PairwiseMeansSigTStats") [WSelf "_dimensions"; WVar "self"; WSelf "_cube_measures"; WVar
      "column_idx"] []).
Proof. exact Proofs.GenAgreeWiring_C13.gen_wiring_SecondOrderMeasures_pairwise_significance_means_t_stats. Qed.
Print Assumptions C13_wiring_SecondOrderMeasures_pairwise_significance_means_t_stats.

Theorem C13_wiring_BaseSecondOrderMeasure__weighted_squared_cube_counts :
  wsrc_BaseSecondOrderMeasure__weighted_squared_cube_counts = Some (WAttr (WSelf "_cube_measures")
      "weighted_squared_cube_counts").
Proof. exact Proofs.GenAgreeWiring_C13.gen_wiring_BaseSecondOrderMeasure__weighted_squared_cube_counts. Qed.
Print Assumptions C13_wiring_BaseSecondOrderMeasure__weighted_squared_cube_counts.

Theorem C13_wiring_MatrixCubeMeasures_cube_overlaps :
  wsrc_MatrixCubeMeasures_cube_overlaps = Some (WCall (WAttr (WGlobal "_BaseCubeOverlaps") "factory")
      [WSelf "_cube"; WSelf "_dimensions"; WSelf "_slice_idx"] []).
Proof. exact Proofs.GenAgreeWiring_C13.gen_wiring_MatrixCubeMeasures_cube_overlaps. Qed.
Print Assumptions C13_wiring_MatrixCubeMeasures_cube_overlaps.

Theorem C13_wiring_MatrixCubeMeasures_weighted_squared_cube_counts :
  wsrc_MatrixCubeMeasures_weighted_squared_cube_counts = Some (WIf (WCmp "is" (WAttr (WSelf "_cube")
      "weighted_squared_counts") (WNone)) (WNone) (WCall (WAttr (WGlobal "_BaseCubeCounts")
      "factory") [WAttr (WSelf "_cube") "weighted_squared_counts"; WFalse; WSelf "_cube"; WSelf
      "_dimensions"; WSelf "_slice_idx"] [])).
Proof. exact Proofs.GenAgreeWiring_C13.gen_wiring_MatrixCubeMeasures_weighted_squared_cube_counts. Qed.
Print Assumptions C13_wiring_MatrixCubeMeasures_weighted_squared_cube_counts.

End Wiring_C13.
(* ---- WIRING-APPENDIX:END ---- *)
