(* C06 -- Partitioning of 3-D and multi-cube responses restricts to the right respondents.

   Only statements ([exact <lemma>] + [Print Assumptions]).
   Spec:   Spec/Survey.v (survey, tabulate), Spec/Restrict.v (restrict, subvar, cell_resp).
   Model:  Model/Partition.v (Cube._slice_idxs / partitions / inflate / augment_response,
           CubePartition.factory, _slice_idx_expr, the CA-as-0th strand, CubeSet), on top of
           Model/CubeCounts.v (valid tensors, the nine count classes -- owned by C01/C02).
   Proofs: Proofs/PartitionSurvey.v, Proofs/PartitionStructure.v, Proofs/PartitionAugment.v.
   Tie to the code: harness/props/c06.py (model correspondence + relational oracles).

   How the pieces compose: [C06_slice_restrict] says that the valid tensor partition k is
   built from IS (pointwise) the valid tensor of the 2-D cube of the restricted survey, for
   the counts and -- at the level of the respondents of each cell -- for any statistic a
   response may carry; [C06_partition_*_restricted] push this through the count and base
   extractors of all nine row x column class pairs; every further measure (C03-C17) is a
   function of those, so it takes the same value on partition k and on the 2-D analysis of
   the restricted survey.

   Findings: the 3-D column-index baseline (C16-3d-baseline-wrong-table) is repaired in the code
   and in Model/CubeCounts.v, so nothing here is conditional on the position of missing table
   elements.  Open: augment_response overwrites a weighted count measure with the positioned
   unweighted counts -- the model keeps that behaviour, [C06_augment_places] is about the list
   that IS positioned; since the repair the count measure is positioned too ([C06_augment_count_measure_positioned]). *)
From Coq Require Import QArith ZArith List Bool Lia Arith Sorted.
From CC Require Import Base.XQ Base.ListX Spec.Survey Spec.Restrict Model.CubeCounts Model.Partition
     Proofs.CubeCountsProofs Proofs.CubeCountsIndex Proofs.PartitionSurvey Proofs.PartitionStructure
     Proofs.PartitionAugment.
Import ListNotations.
Local Close Scope Q_scope.
Local Open Scope nat_scope.

(* ------------------------------------------------------------------------------------ *)
(** * how many partitions, and for which elements *)

(* one partition per VALID element of dimension 0 when the cube is 3-D or CA-as-0th,
   exactly one otherwise *)
Theorem C06_number_of_partitions ds ca0 :
  length (partitions ds ca0)
  = if sliced ds ca0 then match dim0 ds with Some d => nvalid d | None => 1 end else 1.
Proof. exact (partitions_length ds ca0). Qed.
Print Assumptions C06_number_of_partitions.

(* the elements the partitions stand for are exactly the non-missing elements of dimension 0,
   each once, in payload order -- wherever the missing ones sit *)
Theorem C06_partition_elements ds ca0 d :
  sliced ds ca0 = true -> dim0 ds = Some d ->
  map (fun p => table_element ds (pt_idx p)) (partitions ds ca0) = dvalid d
  /\ (forall c, In c (dvalid d) <-> c < dsize d /\ nth c (dmiss d) true = false)
  /\ NoDup (dvalid d) /\ StronglySorted lt (dvalid d).
Proof. exact (fun Hs Hd => conj (partition_elements ds ca0 d Hs Hd) (dvalid_exact d)). Qed.
Print Assumptions C06_partition_elements.

(* ------------------------------------------------------------------------------------ *)
(** * partition k = the 2-D analysis of the survey restricted to table element k *)

(* cell level, for anything a response may carry per cell: the respondents of cell (k, idx)
   are literally the respondents of cell idx of the restricted survey *)
Theorem C06_cell_restrict v kd ms k rc S idx :
  cat_or_mr kd -> k < nval ms ->
  cell_resp ((v, kd) :: rc) S (table_part kd ms k ++ idx)
  = cell_resp rc (restrict S v kd ms k) idx.
Proof. exact (cell_restrict v kd ms k rc S idx). Qed.
Print Assumptions C06_cell_restrict.

(* tensor level: Cube._valid_idxs then _slice_idx_expr (selected plane of an MR table
   variable), for any cell statistic ... *)
Theorem C06_slice_restrict_any_statistic S v kd ms rc dsrc k stat idx :
  cat_or_mr kd -> k < nval ms -> 2 <= cube_ndim dsrc ->
  let ds3 := dims_of kd ms ++ dsrc in
  slice_idx_expr ds3 k (take_valid ds3 (stat_tensor stat ((v, kd) :: rc) S)) idx
  = take_valid dsrc (stat_tensor stat rc (restrict S v kd ms k)) idx.
Proof. exact (fun Hkd Hk Hn => slice_restrict_stat S v kd ms rc dsrc k Hkd Hk Hn stat idx). Qed.
Print Assumptions C06_slice_restrict_any_statistic.

(* ... and for the weighted counts of Spec/Survey.v (unweighted: take [unit_weights S]) *)
Theorem C06_slice_restrict S v kd ms rc dsrc k :
  cat_or_mr kd -> k < nval ms -> 2 <= cube_ndim dsrc ->
  let ds3 := dims_of kd ms ++ dsrc in
  teq (slice_idx_expr ds3 k (take_valid ds3 (raw_of ((v, kd) :: rc) S)))
      (take_valid dsrc (raw_of rc (restrict S v kd ms k))).
Proof. exact (slice_restrict S v kd ms rc dsrc k). Qed.
Print Assumptions C06_slice_restrict.

Theorem C06_restrict_commutes_with_unit_weights S v kd ms k :
  restrict (unit_weights S) v kd ms k = unit_weights (restrict S v kd ms k).
Proof. exact (restrict_unit_weights S v kd ms k). Qed.
Print Assumptions C06_restrict_commutes_with_unit_weights.

(* the unconditional counts behind the column-index baseline (missing rows / columns kept,
   table addressed by the payload offset of its element) are those of the restricted survey *)
Theorem C06_raw_slice_restrict v kd ms k rc S idx :
  cat_or_mr kd -> k < nval ms ->
  (tabulate ((v, kd) :: rc) S (table_part kd ms k ++ idx)
   == tabulate rc (restrict S v kd ms k) idx)%Q.
Proof. exact (tabulate_restrict v kd ms k rc S idx). Qed.
Print Assumptions C06_raw_slice_restrict.

(* counts and the three bases of partition k, for ALL nine class pairs, equal those of the
   only partition of the 2-D cube of the restricted survey *)
Theorem C06_partition_counts_restricted S v kd ms rc dsrc k rcl ccl i j :
  cat_or_mr kd -> k < nval ms -> cube_ndim dsrc = 2 ->
  let ds3 := dims_of kd ms ++ dsrc in
  counts_of (slice_idx_expr ds3 k (take_valid ds3 (raw_of ((v, kd) :: rc) S))) rcl ccl i j
  =x= counts_of (slice_idx_expr dsrc 0 (take_valid dsrc (raw_of rc (restrict S v kd ms k)))) rcl ccl i j.
Proof.
  exact (fun Hkd Hk Hn => partition_counts_restricted S v kd ms rc dsrc k Hkd Hk Hn rcl ccl i j).
Qed.
Print Assumptions C06_partition_counts_restricted.

Theorem C06_partition_bases_restricted S v kd ms rc dsrc k nr nc sr sc rcl ccl i j :
  cat_or_mr kd -> k < nval ms -> cube_ndim dsrc = 2 ->
  let ds3 := dims_of kd ms ++ dsrc in
  let V3 := slice_idx_expr ds3 k (take_valid ds3 (raw_of ((v, kd) :: rc) S)) in
  let V2 := slice_idx_expr dsrc 0 (take_valid dsrc (raw_of rc (restrict S v kd ms k))) in
  row_bases_of V3 nc sc rcl ccl i j =x= row_bases_of V2 nc sc rcl ccl i j
  /\ column_bases_of V3 nr sr rcl ccl i j =x= column_bases_of V2 nr sr rcl ccl i j
  /\ table_bases_of V3 nr nc sr sc rcl ccl i j =x= table_bases_of V2 nr nc sr sc rcl ccl i j.
Proof.
  exact (fun Hkd Hk Hn =>
    conj (partition_row_bases_restricted S v kd ms rc dsrc k Hkd Hk Hn nc sc rcl ccl i j)
   (conj (partition_column_bases_restricted S v kd ms rc dsrc k Hkd Hk Hn nr sr rcl ccl i j)
         (partition_table_bases_restricted S v kd ms rc dsrc k Hkd Hk Hn nr nc sr sc rcl ccl i j))).
Qed.
Print Assumptions C06_partition_bases_restricted.

(* in words of the restricted survey R (composition with C01/C02, categorical / MR rows and
   columns): cell (i, j) of partition k is the weighted number of respondents OF R in row
   element i and column element j; the bases count the respondents of R eligible for the
   denominators *)
Theorem C06_partition_counts_meaning S v kd ms vr vc kr kc mr mc k i j :
  cat_or_mr kd -> cat_or_mr kr -> cat_or_mr kc -> k < nval ms -> i < nval mr -> j < nval mc ->
  let rc := [(vr, kr); (vc, kc)] in
  let ds3 := dims_of kd ms ++ dims_of kr mr ++ dims_of kc mc in
  let V3 := slice_idx_expr ds3 k (take_valid ds3 (raw_of ((v, kd) :: rc) S)) in
  let R := restrict S v kd ms k in
  counts_of V3 (kcls kr) (kcls kc) i j =x=
    Fin (wsum R (fun r => in_el kr mr (ans r vr) i && in_el kc mc (ans r vc) j))
  /\ row_bases_of V3 (nval mc) (length mrv) (kcls kr) (kcls kc) i j =x=
    Fin (wsum R (fun r => in_el kr mr (ans r vr) i && ok_el kc mc (ans r vc) j))
  /\ column_bases_of V3 (nval mr) (length mrv) (kcls kr) (kcls kc) i j =x=
    Fin (wsum R (fun r => ok_el kr mr (ans r vr) i && in_el kc mc (ans r vc) j))
  /\ table_bases_of V3 (nval mr) (nval mc) (length mrv) (length mrv) (kcls kr) (kcls kc) i j =x=
    Fin (wsum R (fun r => ok_el kr mr (ans r vr) i && ok_el kc mc (ans r vc) j)).
Proof.
  exact (fun Hkd Hr Hc Hk Hi Hj =>
    conj (partition_counts_meaning S v kd ms vr vc kr kc mr mc k Hkd Hr Hc Hk i j Hi Hj)
         (partition_bases_meaning S v kd ms vr vc kr kc mr mc k Hkd Hr Hc Hk i j Hi Hj)).
Qed.
Print Assumptions C06_partition_counts_meaning.

(* numeric (pass-through) measures: whatever statistic of the respondents of a cell the
   response carries (mean, sum, stddev, median of a numeric answer ...), partition k shows in
   cell (i, j) what the 2-D cube of the restricted survey shows there -- MR rows / columns
   read the selected plane in both *)
Theorem C06_partition_passthrough_restricted S v kd ms rc dsrc k stat rmr cmr i j :
  cat_or_mr kd -> k < nval ms -> 2 <= cube_ndim dsrc ->
  let ds3 := dims_of kd ms ++ dsrc in
  passthrough_of (slice_idx_expr ds3 k (take_valid ds3 (stat_tensor stat ((v, kd) :: rc) S))) rmr cmr i j
  = passthrough_of (take_valid dsrc (stat_tensor stat rc (restrict S v kd ms k))) rmr cmr i j.
Proof. exact (partition_passthrough_restricted S v kd ms rc dsrc k stat rmr cmr i j). Qed.
Print Assumptions C06_partition_passthrough_restricted.

(* the weighted count of Spec/Survey.v is one such statistic *)
Theorem C06_tabulate_is_a_cell_statistic vs S idx :
  Fin (tabulate vs S idx) =x= stat_tensor wcount vs S idx.
Proof. exact (tabulate_is_wcount vs S idx). Qed.
Print Assumptions C06_tabulate_is_a_cell_statistic.

(* restriction invents nobody: same respondents, same weights *)
Theorem C06_restrict_is_a_subsurvey S v kd ms k r :
  In r (restrict S v kd ms k) <-> In r S /\ member v kd ms k r = true.
Proof. exact (restrict_incl S v kd ms k r). Qed.
Print Assumptions C06_restrict_is_a_subsurvey.

(* categorical-array table variable: table k = sub-variable k (as a categorical variable)
   crossed with the columns variable *)
Theorem C06_slice_restrict_array S v ms mcat rc dsc k i idx :
  ~ In v (map fst rc) -> 1 <= cube_ndim dsc ->
  let ds3 := ca_dims ms mcat ++ dsc in
  slice_idx_expr ds3 k (take_valid ds3 (raw_of ((v, KArr) :: rc) S)) (i :: idx)
  =x= take_valid (mkDim DCat mcat :: dsc)
                 (raw_of ((v, KCat) :: rc) (subvar S v (nth k (valid_idxs ms) 0))) (i :: idx).
Proof. exact (fun Hv Hn => slice_restrict_array S v ms mcat rc dsc k Hv Hn i idx). Qed.
Print Assumptions C06_slice_restrict_array.

(* ------------------------------------------------------------------------------------ *)
(** * CA-as-0th: strand k is the univariate analysis of sub-variable k *)

Theorem C06_ca_as_0th_strand S v ms mcat k i :
  i < nval mcat ->
  let item := nth k (valid_idxs ms) 0 in
  let V := strand_idx_expr true k (take_valid (ca_dims ms mcat) (raw_of [(v, KArr)] S)) in
  let U := take_valid (dims_of KCat mcat) (raw_of [(v, KCat)] (subvar S v item)) in
  sc_counts V i =x= sc_counts U i
  /\ sc_table_base V (nval mcat) =x= sc_table_base U (nval mcat)
  /\ sc_counts V i =x= Fin (wsum S (fun r => in_cat mcat (item_answer (ans r v) item) i))
  /\ sc_table_base V (nval mcat) =x= Fin (wsum S (fun r => ok_cat mcat (item_answer (ans r v) item))).
Proof. exact (ca0_strand S v ms mcat k i). Qed.
Print Assumptions C06_ca_as_0th_strand.

Theorem C06_ca_as_0th_condition cube_idx single ds :
  ca_as_0th cube_idx single ds = true <->
  (cube_idx = Some 0 \/ single = true) /\ exists d, dim0 ds = Some d /\ is_ca_subvar d = true.
Proof. exact (ca_as_0th_iff cube_idx single ds). Qed.
Print Assumptions C06_ca_as_0th_condition.

(* ------------------------------------------------------------------------------------ *)
(** * factory decision list *)

Theorem C06_factory ndim ca0 :
  (factory ndim ca0 = PNub <-> ndim = 0)
  /\ (factory ndim ca0 = PStrand <-> ndim <> 0 /\ (ndim = 1 \/ ca0 = true))
  /\ (factory ndim ca0 = PSlice <-> 2 <= ndim /\ ca0 = false).
Proof. exact (conj (factory_nub ndim ca0) (conj (factory_strand ndim ca0) (factory_slice ndim ca0))). Qed.
Print Assumptions C06_factory.

Theorem C06_partitions_kind ds ca0 :
  Forall (fun p => pt_kind p = factory (cube_ndim ds) ca0) (partitions ds ca0).
Proof. exact (partitions_kind ds ca0). Qed.
Print Assumptions C06_partitions_kind.

(* the outputs computed per partition follow the partitions (count and kind), and a partition
   is named after the element of dimension 0 it stands for *)
Theorem C06_cube_parts_follow ds p ca0 :
  length (cube_parts ds p ca0) = length (partitions ds ca0)
  /\ map po_kind (cube_parts ds p ca0) = map pt_kind (partitions ds ca0).
Proof. exact (cube_parts_follow ds p ca0). Qed.
Print Assumptions C06_cube_parts_follow.

Theorem C06_partition_name ds ca0 d k :
  dim0 ds = Some d -> k < nvalid d ->
  match factory (cube_ndim ds) ca0 with
  | PSlice => name_element ds PSlice k = if cube_ndim ds <? 3 then None else Some (table_element ds k)
  | PStrand => name_element ds PStrand k = Some (table_element ds k)
  | PNub => name_element ds PNub k = None
  end.
Proof. exact (name_element_spec ds ca0 d k). Qed.
Print Assumptions C06_partition_name.

(* ------------------------------------------------------------------------------------ *)
(** * partition sets = zip *)

Theorem C06_partition_sets_zip {A} (cubes : list (list A)) k j d :
  k < min_len cubes -> j < length cubes ->
  length (zipn cubes) = min_len cubes
  /\ nth j (nth k (zipn cubes) []) d = nth k (nth j cubes []) d
  /\ length (nth k (zipn cubes) []) = length cubes.
Proof.
  exact (fun Hk Hj => conj (zipn_length cubes)
                           (zipn_cell cubes k j d Hk Hj)).
Qed.
Print Assumptions C06_partition_sets_zip.

Theorem C06_partition_sets_aligned {A} (cubes : list (list A)) n :
  cubes <> [] -> (forall c, In c cubes -> length c = n) -> length (zipn cubes) = n.
Proof. exact (fun Hne H => eq_trans (zipn_length cubes) (min_len_all cubes n Hne H)). Qed.
Print Assumptions C06_partition_sets_aligned.

(* CubeSet._cubes: a lone response is taken as it is; in a multi-cube set every ordinary cube
   keeps its response and gets its position as cube index (CA-as-0th only at position 0);
   when the first response is 0-D every cube is inflated *)
Theorem C06_cubeset_solo c :
  cubeset_cubes [c] = Some [(c, ca_as_0th None (cd_single_col c) (cd_dims c))].
Proof. exact (cubeset_solo c). Qed.
Print Assumptions C06_cubeset_solo.

Theorem C06_cubeset_cube_plain cs idx c :
  2 <= length cs -> cube_ndim (cd_dims (nth 0 cs c)) <> 0 -> cd_single_col c = false ->
  cubeset_cube cs idx c = Some (c, ca_as_0th (Some idx) false (cd_dims c)).
Proof. exact (cubeset_cube_plain cs idx c). Qed.
Print Assumptions C06_cubeset_cube_plain.

Theorem C06_cubeset_cube_numeric cs idx c :
  2 <= length cs -> cube_ndim (cd_dims (nth 0 cs c)) = 0 -> cd_single_col c = false ->
  cubeset_cube cs idx c
  = Some (inflate_cube c, ca_as_0th (Some idx) false (inflate_dims (cd_dims c))).
Proof. exact (cubeset_cube_numeric cs idx c). Qed.
Print Assumptions C06_cubeset_cube_numeric.

(* ------------------------------------------------------------------------------------ *)
(** * inflation: one more one-row dimension, no value moves *)

Theorem C06_inflate_id ds data idx :
  existsb is_numarr ds = false -> length idx = length ds ->
  inflate_data data = data
  /\ take_valid_ord (inflate_dims ds) (of_flat (raw_shape (inflate_dims ds)) (inflate_data data)) (0 :: idx)
     = take_valid_ord ds (of_flat (raw_shape ds) data) idx
  /\ cube_ndim (inflate_dims ds) = 1 + cube_ndim ds.
Proof.
  exact (fun Hn Hl => conj (inflate_data_id data)
                           (conj (inflate_tensor ds data idx Hn Hl) (inflate_ndim ds Hn))).
Qed.
Print Assumptions C06_inflate_id.

Theorem C06_inflate_partitions ds ca0 :
  existsb is_numarr ds = false -> cube_ndim ds <= 1 -> ca0 = false ->
  map pt_kind (partitions (inflate_dims ds) ca0)
  = [if cube_ndim ds =? 0 then PStrand else PSlice].
Proof. exact (inflate_partitions ds ca0). Qed.
Print Assumptions C06_inflate_partitions.

Theorem C06_inflate_counts_1d ms data j :
  let d := mkDim DCat ms in
  j < nvalid d ->
  match slice_counts (inflate_dims [d]) (inflate_data data) 0, strand_counts [d] data false 0 with
  | Some so, Some st =>
      mnth (so_counts so) 0 j = vnth (st_counts st) j /\ nrows (so_counts so) = 1
  | _, _ => False
  end.
Proof. exact (inflate_counts_1d ms data j). Qed.
Print Assumptions C06_inflate_counts_1d.

Theorem C06_inflate_counts_1d_mr ms data j :
  let ds := [mkDim DMrSubvar ms; mkDim DMrCat mr_cat_missing] in
  j < nvalid (mkDim DMrSubvar ms) ->
  match slice_counts (inflate_dims ds) (inflate_data data) 0, strand_counts ds data false 0 with
  | Some so, Some st =>
      mnth (so_counts so) 0 j = vnth (st_counts st) j /\ nrows (so_counts so) = 1
  | _, _ => False
  end.
Proof. exact (inflate_counts_1d_mr ms data j). Qed.
Print Assumptions C06_inflate_counts_1d_mr.

Theorem C06_inflate_numeric_array_unchanged ds : existsb is_numarr ds = true -> inflate_dims ds = ds.
Proof. exact (inflate_numarr ds). Qed.
Print Assumptions C06_inflate_numeric_array_unchanged.

(* ------------------------------------------------------------------------------------ *)
(** * augmentation of a single-column filter cube *)

(* when the summary's element ids are their payload positions and the filter cube lists its
   (valued) elements in the summary's order, the count of the filter cube's m-th element lands
   at the position of the summary element with the same value; every other position is 0 *)
Theorem C06_augment_places summary own n counts :
  ids_are_positions summary -> length summary <= n ->
  keys_of own = keys_of (filter (key_in (keys_of own)) summary) ->
  exists data,
    augment_counts summary own n counts = Some data /\ length data = n
    /\ (forall m, m < length (keys_of own) -> m < length counts ->
          exists p, p < length summary
                    /\ e_key (nth p summary dflt_elem) = Some (nth m (keys_of own) 0)
                    /\ nth p data NaN = nth m counts NaN)
    /\ (forall p, p < n ->
          (forall m, m < length (keys_of own) -> m < length counts ->
                     e_key (nth p summary dflt_elem) <> Some (nth m (keys_of own) 0)) ->
          nth p data NaN = Fin 0).
Proof. exact (augment_places summary own n counts). Qed.
Print Assumptions C06_augment_places.

(* result.counts and the count measure (the weighted counts) are positioned each from its own data:
   whenever the augmentation applies and succeeds, the augmented count measure is the filter cube's
   own count measure at the positions of its elements (repaired defect
   C06-augment-overwrites-weighted-count: it used to be overwritten with the unweighted counts) *)
Theorem C06_augment_count_measure_positioned summary c c' cnt :
  length (p_counts (cd_payload c)) <> length (p_counts (cd_payload summary)) ->
  p_count (cd_payload c) = Some cnt ->
  augment_cube summary c = Some c' ->
  Some (p_counts (cd_payload c'))
    = augment_counts (cd_elems0 summary) (cd_elems0 c) (length (p_counts (cd_payload summary)))
                     (p_counts (cd_payload c))
  /\ option_map Some (p_count (cd_payload c'))
     = Some (augment_counts (cd_elems0 summary) (cd_elems0 c) (length (p_counts (cd_payload summary))) cnt).
Proof. exact (augment_cube_count_positioned summary c c' cnt). Qed.
Print Assumptions C06_augment_count_measure_positioned.

Theorem C06_augment_weighted_former_witness :
  exists c',
    augment_cube aug_witness_summary aug_witness_filter = Some c'
    /\ weighted_counts_payload (cd_payload aug_witness_filter) = [Fin 5; Fin 0]
    /\ weighted_counts_payload (cd_payload c') = [Fin 0; Fin 5; Fin 0]
    /\ unweighted_counts_payload (cd_payload c') = [Fin 0; Fin 2; Fin 0].
Proof. exact augment_weighted_former_witness. Qed.
Print Assumptions C06_augment_weighted_former_witness.

(* ------------------------------------------------------------------------------------ *)
(** * examples: the hypotheses are inhabited *)

(* MR table variable (3 items), CAT x CAT body, square 3 x 3 x 3; partition 1 = who selected
   item 1; the restricted survey has exactly those two respondents *)
Example C06_example_mr_table :
  let S := [ mkResp [AMr [Sel; Oth; Mis]; ACat 0; ACat 1] 2;
             mkResp [AMr [Oth; Sel; Sel]; ACat 1; ACat 2] 1;
             mkResp [AMr [Sel; Sel; Oth]; ACat 2; ACat 0] (1 # 2);
             mkResp [AMr [Mis; Oth; Sel]; ACat 1; ACat 1] 4 ] in
  let ms := [false; false; false] in
  let dsrc := [mkDim DCat [false; true; false; false]; mkDim DCat [false; false; false]] in
  let rc := [(1, KCat); (2, KCat)] in
  let ds3 := dims_of KMr ms ++ dsrc in
  cat_or_mr KMr /\ 1 < nval ms /\ cube_ndim dsrc = 2 /\
  length (restrict S 0 KMr ms 1) = 2 /\
  length (partitions ds3 false) = 3 /\
  map xred (map (fun ij => counts_of (slice_idx_expr ds3 1 (take_valid ds3 (raw_of ((0, KMr) :: rc) S)))
                                     CCat CCat (fst ij) (snd ij)) [(0, 0); (0, 2); (1, 0); (2, 0)])
  = [Fin 0; Fin 0; Fin (1 # 2); Fin 0] /\
  map xred (map (fun ij => counts_of (take_valid dsrc (raw_of rc (restrict S 0 KMr ms 1)))
                                     CCat CCat (fst ij) (snd ij)) [(0, 0); (0, 2); (1, 0); (2, 0)])
  = [Fin 0; Fin 0; Fin (1 # 2); Fin 0].
Proof.
  cbv zeta. split; [right; reflexivity|]. split; [vm_compute; lia|].
  repeat split; vm_compute; reflexivity.
Qed.

(* categorical table variable whose FIRST category is missing: two partitions, for payload
   positions 1 and 3 *)
Example C06_example_missing_first :
  let ds := [mkDim DCat [true; false; true; false]; mkDim DCat [false; false]; mkDim DCat [false; false]] in
  sliced ds false = true /\
  map (fun p => table_element ds (pt_idx p)) (partitions ds false) = [1; 3] /\
  map pt_kind (partitions ds false) = [PSlice; PSlice].
Proof. repeat split; vm_compute; reflexivity. Qed.

(* CA-as-0th: a 2-D categorical array as leading cube gives one strand per sub-variable *)
Example C06_example_ca0 :
  let ds := ca_dims [false; false; false] [false; false; true] in
  ca_as_0th (Some 0) false ds = true /\ ca_as_0th None false ds = false /\
  map pt_kind (partitions ds true) = [PStrand; PStrand; PStrand] /\
  map pt_kind (partitions ds false) = [PSlice].
Proof. repeat split; vm_compute; reflexivity. Qed.

(* the unit test of the library for augment_response: summary A B C (+ missing), filter cube
   A C (+ missing) with counts 1 1 0  ->  1 0 1 0 *)
Example C06_example_augment :
  let summary := [mkElem 0 false (Some 0); mkElem 1 false (Some 1); mkElem 2 false (Some 2);
                  mkElem (-1) true None] in
  let own := [mkElem 0 false (Some 0); mkElem 1 false (Some 2); mkElem (-1) true None] in
  keys_of own = keys_of (filter (key_in (keys_of own)) summary) /\
  augment_counts summary own 4 [Fin 1; Fin 1; Fin 0] = Some [Fin 1; Fin 0; Fin 1; Fin 0].
Proof. split; vm_compute; reflexivity. Qed.

(* partition sets of a CA-as-0th tabbook: 3 sets of (strand, slice) *)
Example C06_example_zip :
  zipn [[(0, 0); (0, 1); (0, 2)]; [(1, 0); (1, 1); (1, 2)]]
  = [[(0, 0); (1, 0)]; [(0, 1); (1, 1)]; [(0, 2); (1, 2)]].
Proof. vm_compute. reflexivity. Qed.

(* through the flat payload (what the check evaluates): the 3-D response of a survey, cut by
   [cube_parts], gives for partition 1 (table category at payload position 2: position 0 is
   missing) the counts of the 2-D response of the restricted survey *)
Example C06_example_payload :
  let S := [ mkResp [ACat 0; ACat 0; ACat 1] 3;
             mkResp [ACat 1; ACat 1; ACat 0] 1;
             mkResp [ACat 2; ACat 0; ACat 0] 2;
             mkResp [ACat 2; ACat 1; ACat 1] (3 # 4);
             mkResp [ACat 1; ACat 0; ACat 1] 5 ] in
  let mt := [true; false; false] in
  let m2 := [false; false] in
  let ds3 := dims_of KCat mt ++ dims_of KCat m2 ++ dims_of KCat m2 in
  let ds2 := dims_of KCat m2 ++ dims_of KCat m2 in
  let p3 := flatten (raw_shape ds3) (raw_of [(0, KCat); (1, KCat); (2, KCat)] S) in
  let p2 := flatten (raw_shape ds2) (raw_of [(1, KCat); (2, KCat)] (restrict S 0 KCat mt 1)) in
  length (restrict S 0 KCat mt 1) = 2 /\
  map po_kind (cube_parts ds3 (mkPayload p3 None None None) false) = [PSlice; PSlice] /\
  map po_name (cube_parts ds3 (mkPayload p3 None None None) false) = [Some 1; Some 2] /\
  option_map (fun so => map (map xred) (so_counts so))
             (po_slice_w (nth 1 (cube_parts ds3 (mkPayload p3 None None None) false)
                              (part_out_of ds3 (mkPayload p3 None None None) false 0)))
  = Some [[Fin 2; Fin 0]; [Fin 0; Fin (3 # 4)]] /\
  option_map (fun so => map (map xred) (so_counts so))
             (po_slice_w (nth 0 (cube_parts ds2 (mkPayload p2 None None None) false)
                              (part_out_of ds2 (mkPayload p2 None None None) false 0)))
  = Some [[Fin 2; Fin 0]; [Fin 0; Fin (3 # 4)]].
Proof. cbv zeta. repeat split; vm_compute; reflexivity. Qed.

(* a 0-D numeric-measure response heading a two-cube set: both cubes are inflated; the set is
   (one-row strand, one-row slice) *)
Example C06_example_numeric_set :
  let c0 := mkCube [] [] false (mkPayload [Fin 7] None None None) in
  let c1 := mkCube [mkDim DCat [false; false; true]] [] false
                   (mkPayload [Fin 3; Fin 4; Fin 0] None None None) in
  option_map (map (map po_kind)) (partition_sets [c0; c1]) = Some [[PStrand; PSlice]] /\
  option_map (map (map (fun po => option_map (fun so => map (map xred) (so_counts so)) (po_slice_w po))))
             (partition_sets [c0; c1]) = Some [[None; Some [[Fin 3; Fin 4]]]].
Proof. cbv zeta. split; vm_compute; reflexivity. Qed.

(* ------------------------------------------------------------------------------------ *)
(* THE TIE TO THE SOURCE TEXT (DESIGN 2.4 (a)).  Gen/CubeCountsSrc.v and Gen/StripeCountsSrc.v
   are rewritten from /repo/src/cr/cube/{matrix,stripe}/cubemeasure.py on every check by the ast
   translator (harness/translate).  What the source of _slice_idx_expr SAYS NOW is the
   [slice_idx_expr] of the theorems above (2-D: everything; MR first dimension: np.s_[k, 0], the
   SELECTED plane; else np.s_[k]); every matrix factory hands the measure's array cut by it to
   the class; the stripe factory takes [counts[slice_idx]] with the categorical class exactly
   when ca_as_0th.  [None] = the translator could not read the method (then only the
   correspondence and the relational oracle tie it).  A change of meaning in the source breaks
   these obligations. *)
From Coq Require Import String.
From CC Require Import Base.Tensor Gen.CubeCountsSrc Gen.StripeCountsSrc Gen.Tables
     Proofs.GenAgreeTac Proofs.GenAgreeCounts Proofs.PartitionGen.

Theorem C06_gen_slice_idx_expr :
  match src_slice_idx_expr with
  | Some R => forall ds k (T : tensor) idx, idx <> [] ->
      slice_rule_apply R (cube_ndim ds) (table_is_mr ds) k T idx = slice_idx_expr ds k T idx
  | None => True
  end.
Proof. exact gen_slice_idx_expr_partition. Qed.
Print Assumptions C06_gen_slice_idx_expr.

Theorem C06_gen_factory_arguments :
  binds_to src_CubeCounts_binds "_counts" (FSliced (FParam "counts")) /\
  binds_to src_CubeMeans_binds "_means" (FSliced (FCube "means")) /\
  binds_to src_CubeMedians_binds "_medians" (FSliced (FCube "medians")) /\
  binds_to src_CubeStdDev_binds "_stddev" (FSliced (FCube "stddev")) /\
  binds_to src_CubeSums_binds "_sums" (FSliced (FCube "sums")) /\
  binds_to src_UnconditionalCubeCounts_binds "_counts_with_missings"
           (FSliced (FCube "counts_with_missings")).
Proof. exact gen_factory_binds. Qed.
Print Assumptions C06_gen_factory_arguments.

(* stripe factory: ca_as_0th => _CatCubeCounts on counts[slice_idx] (second component true =
   the tensor is cut), whatever the rows dimension; otherwise the class of the rows dimension
   on the whole tensor *)
Theorem C06_gen_stripe_factory :
  match ssrc_CubeCounts_dispatch, tbl_DT_members with
  | Some D, Some _ =>
      (forall k, stripe_pick true k (fst D) (snd D) = (stripe_class_name CCat, true)) /\
      (forall k, k = DCat \/ k = DMrSubvar \/ k = DNumArr ->
         stripe_pick false k (fst D) (snd D) = (stripe_class_name (cls_of (mkDim k [])), false))
  | _, _ => True
  end.
Proof. exact gen_stripe_dispatch. Qed.
Print Assumptions C06_gen_stripe_factory.

(* ---- WIRING-APPENDIX:BEGIN (generated by tools/gen_wiring_props.py; do not edit) ---- *)
From CC Require Proofs.GenAgreeWiring_C06.
Section Wiring_C06.
Import Coq.Lists.List Coq.ZArith.ZArith Coq.Strings.String CC.Base.WiringExp CC.Gen.WiringSrc.
Import ListNotations.
Local Open Scope string_scope.

Theorem C06_wiring_CubePartition_factory :
  wsrc_CubePartition_factory = Some (WCall (WGlobal "__defaults__") [WIf (WCmp "==" (WAttr (WVar
      "cube") "ndim") (WInt (0)%Z)) (WCall (WGlobal "_Nub") [WVar "cube"] []) (WIf (WBoolOp "or"
      [WCmp "==" (WAttr (WVar "cube") "ndim") (WInt (1)%Z); WVar "ca_as_0th"]) (WCall (WGlobal
      "_Strand") [WVar "cube"; WVar "transforms"; WVar "population"; WVar "ca_as_0th"; WVar
      "slice_idx"; WVar "mask_size"] []) (WCall (WGlobal "_Slice") [WVar "cube"; WVar "slice_idx";
      WVar "transforms"; WVar "population"; WVar "mask_size"] []))] [("slice_idx", WInt (0)%Z);
      ("transforms", WNone); ("population", WNone); ("ca_as_0th", WNone); ("mask_size", WInt
      (0)%Z)]).
Proof. exact Proofs.GenAgreeWiring_C06.gen_wiring_CubePartition_factory. Qed.
Print Assumptions C06_wiring_CubePartition_factory.

Theorem C06_wiring_CubePartition_cube_index :
  wsrc_CubePartition_cube_index = Some (WAttr (WSelf "_cube") "cube_index").
Proof. exact Proofs.GenAgreeWiring_C06.gen_wiring_CubePartition_cube_index. Qed.
Print Assumptions C06_wiring_CubePartition_cube_index.

Theorem C06_wiring_Slice_tab_label :
  wsrc_Slice_tab_label = Some (WIf (WCmp "==" (WAttr (WIndex (WAttr (WSelf "_cube") "dimensions")
      [WInt (0)%Z]) "dimension_type") (WAttr (WGlobal "DT") "CA_SUBVAR")) (WAttr (WIndex (WAttr
      (WIndex (WAttr (WSelf "_cube") "dimensions") [WInt (0)%Z]) "valid_elements") [WSelf
      "_slice_idx"]) "label") (WStr "")).
Proof. exact Proofs.GenAgreeWiring_C06.gen_wiring_Slice_tab_label. Qed.
Print Assumptions C06_wiring_Slice_tab_label.

Theorem C06_wiring_Slice_tab_alias :
  wsrc_Slice_tab_alias = Some (WIf (WCmp "==" (WAttr (WIndex (WAttr (WSelf "_cube") "dimensions")
      [WInt (0)%Z]) "dimension_type") (WAttr (WGlobal "DT") "CA_SUBVAR")) (WAttr (WIndex (WAttr
      (WIndex (WAttr (WSelf "_cube") "dimensions") [WInt (0)%Z]) "valid_elements") [WSelf
      "_slice_idx"]) "alias") (WStr "")).
Proof. exact Proofs.GenAgreeWiring_C06.gen_wiring_Slice_tab_alias. Qed.
Print Assumptions C06_wiring_Slice_tab_alias.

Theorem C06_wiring_Slice__measures :
  wsrc_Slice__measures = Some (WCall (WGlobal "SecondOrderMeasures") [WSelf "_cube"; WSelf
      "_dimensions"; WSelf "_slice_idx"] []).
Proof. exact Proofs.GenAgreeWiring_C06.gen_wiring_Slice__measures. Qed.
Print Assumptions C06_wiring_Slice__measures.

Theorem C06_wiring_Strand_tab_label :
  wsrc_Strand_tab_label = Some (WIf (WCmp "==" (WAttr (WIndex (WAttr (WSelf "_cube") "dimensions")
      [WInt (0)%Z]) "dimension_type") (WAttr (WGlobal "DT") "CA_SUBVAR")) (WAttr (WIndex (WAttr
      (WIndex (WAttr (WSelf "_cube") "dimensions") [WInt (0)%Z]) "valid_elements") [WSelf
      "_slice_idx"]) "label") (WStr "")).
Proof. exact Proofs.GenAgreeWiring_C06.gen_wiring_Strand_tab_label. Qed.
Print Assumptions C06_wiring_Strand_tab_label.

Theorem C06_wiring_Strand_tab_alias :
  wsrc_Strand_tab_alias = Some (WIf (WCmp "==" (WAttr (WIndex (WAttr (WSelf "_cube") "dimensions")
      [WInt (0)%Z]) "dimension_type") (WAttr (WGlobal "DT") "CA_SUBVAR")) (WAttr (WIndex (WAttr
      (WIndex (WAttr (WSelf "_cube") "dimensions") [WInt (0)%Z]) "valid_elements") [WSelf
      "_slice_idx"]) "alias") (WStr "")).
Proof. exact Proofs.GenAgreeWiring_C06.gen_wiring_Strand_tab_alias. Qed.
Print Assumptions C06_wiring_Strand_tab_alias.

Theorem C06_wiring_Strand__measures :
  wsrc_Strand__measures = Some (WCall (WGlobal "StripeMeasures") [WSelf "_cube"; WSelf
      "_rows_dimension"; WSelf "_ca_as_0th"; WSelf "_slice_idx"] []).
Proof. exact Proofs.GenAgreeWiring_C06.gen_wiring_Strand__measures. Qed.
Print Assumptions C06_wiring_Strand__measures.

Theorem C06_wiring_SecondOrderMeasures__cube_measures :
  wsrc_SecondOrderMeasures__cube_measures = Some (WCall (WGlobal "CubeMeasures") [WSelf "_cube"; WSelf
      "_dimensions"; WSelf "_slice_idx"] []).
Proof. exact Proofs.GenAgreeWiring_C06.gen_wiring_SecondOrderMeasures__cube_measures. Qed.
Print Assumptions C06_wiring_SecondOrderMeasures__cube_measures.

Theorem C06_wiring_StripeMeasures__cube_measures :
  wsrc_StripeMeasures__cube_measures = Some (WCall (WGlobal "CubeMeasures") [WSelf "_cube"; WSelf
      "_rows_dimension"; WSelf "_ca_as_0th"; WSelf "_slice_idx"] []).
Proof. exact Proofs.GenAgreeWiring_C06.gen_wiring_StripeMeasures__cube_measures. Qed.
Print Assumptions C06_wiring_StripeMeasures__cube_measures.

End Wiring_C06.
(* ---- WIRING-APPENDIX:END ---- *)

(*BEGIN GenAgreeCube_C06*)
(* ------------------------------------------------------------------------------------ *)
(* SOURCE TEXT of src/cr/cube/cube.py.  Gen/CubeSrc.v is regenerated on every check by
   harness/translate/x_cube.py (shallow translation: every member of CubeSet / Cube / _Measures / the
   _BaseMeasure family, inheritance flattened, as a Gallina function over the Python-semantics combinators
   of Base/PyList.v + Base/PyJson.v + Model/PyCube.v; [X] = what cube.py calls in other modules -
   Dimensions.from_dicts, json.loads - as parameters; `self.<member>` = the generated function of that
   member).  For ALL inputs each generated function IS the model definition the theorems above are about;
   a statement `match src_f, src_g with Some f, Some g => forall .., g X c = POk v -> ..` reads: whenever
   the member g of the same object evaluates to v.  [None] = the member is outside the translator's
   whitelist (then only the correspondence ties it). *)
From CC Require Proofs.GenAgreeCubeLib Proofs.GenAgreeCubeAugment Proofs.GenAgreeCubeBase Proofs.GenAgreeCubeDims Proofs.GenAgreeCubePartition Proofs.GenAgreeCubeRebuild Proofs.GenAgreeCubeSet.
Section GenAgreeCube_C06.   (* scopes and imports below end with the section *)
Import Coq.Lists.List Coq.ZArith.ZArith Coq.QArith.QArith Coq.Strings.String Coq.Bool.Bool CC.Base.XQ
       CC.Base.PyList CC.Base.PyJson CC.Spec.Survey CC.Model.CubeCounts CC.Model.DimType CC.Model.Population
       CC.Model.Partition CC.Model.PyCube CC.Gen.CubeSrc CC.Proofs.GenAgreeCubeLib CC.Proofs.GenAgreeCubeAugment CC.Proofs.GenAgreeCubeBase CC.Proofs.GenAgreeCubeDims CC.Proofs.GenAgreeCubePartition CC.Proofs.GenAgreeCubeRebuild CC.Proofs.GenAgreeCubeSet.
Import Coq.Lists.List.ListNotations.
Local Close Scope Q_scope.
Local Open Scope Z_scope.
Local Open Scope string_scope.

Theorem C06_cube_aug_fill_model :
  forall summary own n cs,
  option_map float_of
    (to_option (pbind (aug_values (map elem_json own)) (fun values =>
                pbind (aug_positions (map elem_json summary) values) (fun positions =>
                aug_fill (Z.of_nat n) positions (map JFloat cs)))))
  = augment_counts summary own n cs.
Proof. exact cube_aug_fill_model. Qed.
Print Assumptions C06_cube_aug_fill_model.

Theorem C06_cube_inflated_response_spec :
  forall top res dimsj alias name,
  exists top' res',
    inflated_response top res dimsj alias name = JDict top' /\
    dget top' "result" = Some (JDict res') /\
    dget res' "dimensions" = Some (JList (rows_dimension_json alias name :: dimsj)) /\
    (forall k, k <> "result" -> dget top' k = dget top k) /\
    (forall k, k <> "dimensions" -> dget res' k = dget res k).
Proof. exact cube_inflated_response_spec. Qed.
Print Assumptions C06_cube_inflated_response_spec.

Theorem C06_cube_augmented_response_spec :
  forall top res ms cm dim0 ty0 drest data cdata sels,
  exists top' res' ms' cm' dim0' ty0',
    augmented_response top res ms cm dim0 ty0 drest data cdata sels = JDict top' /\
    dget top' "result" = Some (JDict res') /\
    dget res' "counts" = Some (JList data) /\
    dget res' "measures" = Some (JDict ms') /\ dget ms' "count" = Some (JDict cm') /\
    dget cm' "data" = Some (JList cdata) /\
    dget res' "dimensions" = Some (JList (JDict dim0' :: drest)) /\
    dget dim0' "type" = Some (JDict ty0') /\ dget ty0' "elements" = Some (JList sels) /\
    (forall k, k <> "result" -> dget top' k = dget top k) /\
    (forall k, k <> "counts" -> k <> "measures" -> k <> "dimensions" -> dget res' k = dget res k) /\
    (forall k, k <> "count" -> dget ms' k = dget ms k) /\
    (forall k, k <> "data" -> dget cm' k = dget cm k) /\
    (forall k, k <> "type" -> dget dim0' k = dget dim0 k) /\
    (forall k, k <> "elements" -> dget ty0' k = dget ty0 k).
Proof. exact cube_augmented_response_spec. Qed.
Print Assumptions C06_cube_augmented_response_spec.

Theorem C06_gen_cube_Cube___init__ :
  match src_Cube___init__ with
  | Some f => forall resp idx tr pop mask,
      f resp idx tr pop mask
      = mkPyCube resp (if json_is_none tr then JDict [] else tr) idx
                 (if json_is_none pop then JInt 0 else pop) mask
  | None => True end.
Proof. exact gen_cube_Cube___init__. Qed.
Print Assumptions C06_gen_cube_Cube___init__.

Theorem C06_gen_cube_Cube__all_dimensions :
  match src_Cube__all_dimensions, src_Cube__numeric_array_dimension, src_Cube__cube_response with
  | Some f, Some g1, Some g2 => forall X c numdim res dimsj,
      g1 X c = POk numdim -> g2 X c = POk (JDict [("result", JDict res)]) ->
      py_dict_get String.eqb res "dimensions" = Some (JList dimsj) ->
      f X c = x_from_dicts X (JList (if json_truthy numdim then numdim :: dimsj else dimsj))
  | _, _, _ => True end.
Proof. exact gen_cube_Cube__all_dimensions. Qed.
Print Assumptions C06_gen_cube_Cube__all_dimensions.

Theorem C06_gen_cube_Cube__numeric_array_dimension_counts :
  match src_Cube__numeric_array_dimension, src_Cube__cube_response with
  | Some f, Some g => forall X c p more,
      g X c = POk (count_response p more) -> f X c = POk JNull
  | _, _ => True end.
Proof. exact gen_cube_Cube__numeric_array_dimension_counts. Qed.
Print Assumptions C06_gen_cube_Cube__numeric_array_dimension_counts.

Theorem C06_gen_cube_Cube__all_dimensions_counts :
  match src_Cube__all_dimensions, src_Cube__cube_response with
  | Some f, Some g => forall X c p more dimsj,
      g X c = POk (count_response p more) ->
      py_dict_get String.eqb more "dimensions" = Some (JList dimsj) ->
      f X c = x_from_dicts X (JList dimsj)
  | _, _ => True end.
Proof. exact gen_cube_Cube__all_dimensions_counts. Qed.
Print Assumptions C06_gen_cube_Cube__all_dimensions_counts.

Theorem C06_gen_cube_Cube_dimensions :
  match src_Cube_dimensions, src_Cube__all_dimensions with
  | Some f, Some g => forall X c dims, g X c = POk dims -> f X c = POk (pds_apparent dims)
  | _, _ => True end.
Proof. exact gen_cube_Cube_dimensions. Qed.
Print Assumptions C06_gen_cube_Cube_dimensions.

Theorem C06_gen_cube_Cube_dimension_types :
  match src_Cube_dimension_types, src_Cube__all_dimensions with
  | Some f, Some g => forall X c dims, g X c = POk dims ->
      f X c = POk (map pd_dimension_type (pds_apparent dims))
  | _, _ => True end.
Proof. exact gen_cube_Cube_dimension_types. Qed.
Print Assumptions C06_gen_cube_Cube_dimension_types.

Theorem C06_gen_cube_Cube_ndim :
  match src_Cube_ndim, src_Cube__all_dimensions with
  | Some f, Some g => forall X c vs, g X c = POk (pydims_of vs) ->
      f X c = POk (Z.of_nat (cube_ndim (map dimd_of vs)))
  | _, _ => True end.
Proof. exact gen_cube_Cube_ndim. Qed.
Print Assumptions C06_gen_cube_Cube_ndim.

Theorem C06_gen_cube_Cube_is_single_filter_col_cube :
  match src_Cube_is_single_filter_col_cube, src_Cube__cube_response with
  | Some f, Some g => forall X c res, g X c = POk (JDict [("result", JDict res)]) ->
      f X c = POk (match py_dict_get String.eqb res "is_single_col_cube" with Some v => v | None => JBool false end)
  | _, _ => True end.
Proof. exact gen_cube_Cube_is_single_filter_col_cube. Qed.
Print Assumptions C06_gen_cube_Cube_is_single_filter_col_cube.

Theorem C06_gen_cube_Cube__ca_as_0th :
  match src_Cube__ca_as_0th, src_Cube__all_dimensions, src_Cube_is_single_filter_col_cube with
  | Some f, Some g1, Some g2 => forall X c vs single idx,
      g1 X c = POk (pydims_of vs) -> g2 X c = POk single -> pc_cube_idx_arg c = idx_arg idx ->
      f X c = POk (ca_as_0th idx (json_truthy single) (map dimd_of vs))
  | _, _, _ => True end.
Proof. exact gen_cube_Cube__ca_as_0th. Qed.
Print Assumptions C06_gen_cube_Cube__ca_as_0th.

Theorem C06_gen_cube_Cube__slice_idxs :
  match src_Cube__slice_idxs, src_Cube__all_dimensions, src_Cube__ca_as_0th with
  | Some f, Some g1, Some g2 => forall X c vs ca0,
      g1 X c = POk (pydims_of vs) -> g2 X c = POk ca0 ->
      (ca0 = true -> cube_ndim (map dimd_of vs) <> 0%nat) ->
      f X c = POk (map Z.of_nat (slice_idxs (map dimd_of vs) ca0))
  | _, _, _ => True end.
Proof. exact gen_cube_Cube__slice_idxs. Qed.
Print Assumptions C06_gen_cube_Cube__slice_idxs.

Theorem C06_gen_cube_Cube_partitions :
  match src_Cube_partitions, src_Cube__slice_idxs, src_Cube__ca_as_0th with
  | Some f, Some g1, Some g2 => forall X c idxs ca0,
      g1 X c = POk idxs -> g2 X c = POk ca0 ->
      f X c = POk (map (fun k => mkPyFactory c k (pc_transforms_dict c) (pc_population c) (Some ca0)
                                             (pc_mask_size c)) idxs)
  | _, _, _ => True end.
Proof. exact gen_cube_Cube_partitions. Qed.
Print Assumptions C06_gen_cube_Cube_partitions.

Theorem C06_gen_cube_Cube_partitions_model :
  match src_Cube_partitions, src_Cube__all_dimensions, src_Cube_is_single_filter_col_cube with
  | Some f, Some g1, Some g2 => forall X c vs single idx,
      g1 X c = POk (pydims_of vs) -> g2 X c = POk single -> pc_cube_idx_arg c = idx_arg idx ->
      let ds := map dimd_of vs in
      let ca0 := ca_as_0th idx (json_truthy single) ds in
      f X c = POk (map (fun p => mkPyFactory c (Z.of_nat (pt_idx p)) (pc_transforms_dict c) (pc_population c)
                                             (Some ca0) (pc_mask_size c))
                       (partitions ds ca0))
  | _, _, _ => True end.
Proof. exact gen_cube_Cube_partitions_model. Qed.
Print Assumptions C06_gen_cube_Cube_partitions_model.

Theorem C06_gen_cube_Cube_cube_index :
  match src_Cube_cube_index with
  | Some f => forall X c, f X c = POk (match pc_cube_idx_arg c with Some z => z | None => 0 end)
  | None => True end.
Proof. exact gen_cube_Cube_cube_index. Qed.
Print Assumptions C06_gen_cube_Cube_cube_index.

Theorem C06_gen_cube_Cube_n_responses :
  match src_Cube_n_responses, src_Cube__cube_response with
  | Some f, Some g => forall X c res, g X c = POk (JDict [("result", JDict res)]) ->
      f X c = POk (dict_get_or res "n" (JInt 0))
  | _, _ => True end.
Proof. exact gen_cube_Cube_n_responses. Qed.
Print Assumptions C06_gen_cube_Cube_n_responses.

Theorem C06_gen_cube_Cube_title :
  match src_Cube_title, src_Cube__cube_response with
  | Some f, Some g => forall X c res, g X c = POk (JDict [("result", JDict res)]) ->
      f X c = POk (dict_get_or res "title" (JStr "Untitled"))
  | _, _ => True end.
Proof. exact gen_cube_Cube_title. Qed.
Print Assumptions C06_gen_cube_Cube_title.

Theorem C06_gen_cube_Cube_name :
  match src_Cube_name, src_Cube_dimensions with
  | Some f, Some g => forall X c dims, g X c = POk dims ->
      f X c = POk (match dims with d :: _ => pd_name d | [] => JNull end)
  | _, _ => True end.
Proof. exact gen_cube_Cube_name. Qed.
Print Assumptions C06_gen_cube_Cube_name.

Theorem C06_gen_cube_Cube_description :
  match src_Cube_description, src_Cube_dimensions with
  | Some f, Some g => forall X c dims, g X c = POk dims ->
      f X c = POk (match dims with d :: _ => pd_description d | [] => JNull end)
  | _, _ => True end.
Proof. exact gen_cube_Cube_description. Qed.
Print Assumptions C06_gen_cube_Cube_description.

Theorem C06_gen_cube_Cube_inflate :
  match src_Cube_inflate, src_Cube__cube_response, src_Cube__numeric_array_dimension,
        src_Cube__available_numeric_measures, src_Cube__numeric_measure_references with
  | Some f, Some g1, Some g2, Some g3, Some g4 => forall X c top res dimsj numdim nums refs,
      g1 X c = POk (JDict top) -> dget top "result" = Some (JDict res) ->
      dget res "dimensions" = Some (JList dimsj) ->
      g2 X c = POk numdim -> g3 X c = POk nums -> g4 X c = POk (JDict refs) ->
      f X c = match inflate_name refs nums with
              | Some name =>
                  POk (rebuilt_cube c (if json_truthy numdim then JDict top
                                       else inflated_response top res dimsj (inflate_alias refs nums) name))
              | None => PErr EAttr
              end
  | _, _, _, _, _ => True end.
Proof. exact gen_cube_Cube_inflate. Qed.
Print Assumptions C06_gen_cube_Cube_inflate.

Theorem C06_gen_cube_Cube_augment_response :
  match src_Cube_augment_response, src_Cube__cube_response with
  | Some f, Some g => forall X c top res cs dim0 drest ty0 oels ms cm cd stop sres scs sdim0 sdrest sty0 sels,
      g X c = POk (JDict top) -> dget top "result" = Some (JDict res) ->
      dget res "counts" = Some (JList cs) -> dget res "dimensions" = Some (JList (JDict dim0 :: drest)) ->
      dget dim0 "type" = Some (JDict ty0) -> dget ty0 "elements" = Some (JList oels) ->
      dget res "measures" = Some (JDict ms) -> dget ms "count" = Some (JDict cm) ->
      dget cm "data" = Some (JList cd) ->
      dget stop "result" = Some (JDict sres) -> dget sres "counts" = Some (JList scs) ->
      dget sres "dimensions" = Some (JList (JDict sdim0 :: sdrest)) ->
      dget sdim0 "type" = Some (JDict sty0) -> dget sty0 "elements" = Some (JList sels) ->
      f X c (JDict stop) =
      if Z.eqb (py_len cs) (py_len scs) then POk c else
      pbind (aug_values oels) (fun values => pbind (aug_positions sels values) (fun positions =>
      pbind (aug_fill (py_len scs) positions cs) (fun data =>
      pbind (aug_fill (py_len scs) positions cd) (fun cdata =>
      POk (rebuilt_cube c (augmented_response top res ms cm dim0 ty0 drest data cdata sels))))))
  | _, _ => True end.
Proof. exact gen_cube_Cube_augment_response. Qed.
Print Assumptions C06_gen_cube_Cube_augment_response.

Theorem C06_gen_cube_CubeSet___init__ :
  match src_CubeSet___init__ with
  | Some f => forall resps trs pop mb, f resps trs pop mb = mkPyCubeSet resps trs pop mb
  | None => True end.
Proof. exact gen_cube_CubeSet___init__. Qed.
Print Assumptions C06_gen_cube_CubeSet___init__.

Theorem C06_gen_cube_CubeSet__is_multi_cube :
  match src_CubeSet__is_multi_cube with
  | Some f => forall X s, f X s = POk (is_multi_cube (List.length (cs_cube_responses s)))
  | None => True end.
Proof. exact gen_cube_CubeSet__is_multi_cube. Qed.
Print Assumptions C06_gen_cube_CubeSet__is_multi_cube.

Theorem C06_gen_cube_CubeSet__cubes :
  match src_CubeSet__cubes, src_CubeSet__is_multi_cube, src_CubeSet__is_numeric_measure,
        src_Cube__cube_response, src_Cube_is_single_filter_col_cube, src_Cube_augment_response,
        src_Cube_inflate with
  | Some f, Some gm, Some gn, Some gR, Some gS, Some gA, Some gI => forall X s multi numeric,
      gm X s = POk multi -> gn X s = POk numeric ->
      f X s = cubeset_loop (gR X) (gS X) (gA X) (gI X) multi numeric s None 0 (cs_cube_responses s)
  | _, _, _, _, _, _, _ => True end.
Proof. exact gen_cube_CubeSet__cubes. Qed.
Print Assumptions C06_gen_cube_CubeSet__cubes.

Theorem C06_gen_cube_CubeSet__is_numeric_measure :
  match src_CubeSet__is_numeric_measure, src_Cube_ndim with
  | Some f, Some g => forall X s r0 rest, cs_cube_responses s = r0 :: rest ->
      f X s = if is_multi_cube (List.length (cs_cube_responses s))
              then pbind (g X (mkPyCube r0 (JDict []) None (JInt 0) 0)) (fun n => POk (Z.eqb n 0))
              else POk false
  | _, _ => True end.
Proof. exact gen_cube_CubeSet__is_numeric_measure. Qed.
Print Assumptions C06_gen_cube_CubeSet__is_numeric_measure.

Theorem C06_gen_cube_CubeSet_n_responses :
  match src_CubeSet_n_responses, src_CubeSet__cubes, src_Cube_n_responses with
  | Some f, Some g1, Some g2 => forall X s c0 rest, g1 X s = POk (c0 :: rest) -> f X s = g2 X c0
  | _, _, _ => True end.
Proof. exact gen_cube_CubeSet_n_responses. Qed.
Print Assumptions C06_gen_cube_CubeSet_n_responses.

Theorem C06_gen_cube_CubeSet_name :
  match src_CubeSet_name, src_CubeSet__cubes, src_Cube_name with
  | Some f, Some g1, Some g2 => forall X s c0 rest, g1 X s = POk (c0 :: rest) -> f X s = g2 X c0
  | _, _, _ => True end.
Proof. exact gen_cube_CubeSet_name. Qed.
Print Assumptions C06_gen_cube_CubeSet_name.

Theorem C06_gen_cube_CubeSet_description :
  match src_CubeSet_description, src_CubeSet__cubes, src_Cube_description with
  | Some f, Some g1, Some g2 => forall X s c0 rest, g1 X s = POk (c0 :: rest) -> f X s = g2 X c0
  | _, _, _ => True end.
Proof. exact gen_cube_CubeSet_description. Qed.
Print Assumptions C06_gen_cube_CubeSet_description.

Theorem C06_gen_cube_CubeSet_missing_count :
  match src_CubeSet_missing_count, src_CubeSet__cubes, src_Cube_missing with
  | Some f, Some g1, Some g2 => forall X s c0 rest, g1 X s = POk (c0 :: rest) -> f X s = g2 X c0
  | _, _, _ => True end.
Proof. exact gen_cube_CubeSet_missing_count. Qed.
Print Assumptions C06_gen_cube_CubeSet_missing_count.

Theorem C06_gen_cube_CubeSet_partition_sets :
  match src_CubeSet_partition_sets, src_CubeSet__cubes, src_Cube_partitions with
  | Some f, Some g1, Some g2 => forall X s cubes (P : pycube -> list pyfactory),
      g1 X s = POk cubes -> (forall c, In c cubes -> g2 X c = POk (P c)) ->
      f X s = POk (zipn (map P cubes))
  | _, _, _ => True end.
Proof. exact gen_cube_CubeSet_partition_sets. Qed.
Print Assumptions C06_gen_cube_CubeSet_partition_sets.

Theorem C06_gen_cube_CubeSet_is_ca_as_0th :
  match src_CubeSet_is_ca_as_0th, src_CubeSet__cubes, src_Cube_dimension_types with
  | Some f, Some g1, Some g2 => forall X s c0 rest t0 ts,
      g1 X s = POk (c0 :: rest) -> g2 X c0 = POk (t0 :: ts) ->
      f X s = POk (is_multi_cube (List.length (cs_cube_responses s)) && dtype_eqb t0 TCaSubvar)
  | _, _, _ => True end.
Proof. exact gen_cube_CubeSet_is_ca_as_0th. Qed.
Print Assumptions C06_gen_cube_CubeSet_is_ca_as_0th.

Theorem C06_gen_cube_CubeSet_can_show_pairwise :
  match src_CubeSet_can_show_pairwise, src_CubeSet__cubes, src_Cube_dimension_types, src_Cube_ndim with
  | Some f, Some g1, Some g2, Some g3 => forall X s cubes (T : pycube -> list dtype) (N : pycube -> Z),
      g1 X s = POk cubes ->
      (forall c, In c (tl cubes) -> g2 X c = POk (T c) /\ g3 X c = POk (N c)) ->
      f X s = POk (if Z.ltb (py_len cubes) 2 then false
                   else forallb (fun c => forallb (fun t => py_in dtype_eqb t pairwise_types)
                                                  (py_list_slice_from (T c) (-2))
                                          && Z.geb (N c) 2) (tl cubes))
  | _, _, _, _ => True end.
Proof. exact gen_cube_CubeSet_can_show_pairwise. Qed.
Print Assumptions C06_gen_cube_CubeSet_can_show_pairwise.

End GenAgreeCube_C06.
(*END GenAgreeCube_C06*)
