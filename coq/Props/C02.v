(* C02 -- Bases and margins count exactly the respondents eligible for the denominator.

   Only statements ([exact <lemma>] + [Print Assumptions]).  Spec: Spec/Survey.v
   ([in_el] = belongs to the element, MR: selected the item; [ok_el] = eligible: categorical
   = any valid category, MR item = not missing on THAT item).  Model: Model/CubeCounts.v
   (row/column/table bases of the nine class pairs, 1-D margins, scalar table base, public
   2-D fall-backs of cubepart.py, ranges, mask), tied to the code by harness/props/c02.py.
   Proofs: Proofs/CubeCountsProofs.v, Proofs/CubeCountsBases.v.

   The survey-level theorems hold for every survey, every position of missing categories,
   2-D (tv = None) and 3-D (partition k of table variable tv), weighted; the unweighted
   twins are the same theorems applied to [unit_weights S] (C02_unweighted_is_headcount).

   PARTIAL: (1) class pairs with a categorical-array dimension: the model carries the
   degenerate definitions of the code (bases = counts across subvariables) and the collapse
   / defined-ness theorems below cover all NINE pairs, but there is no survey-level theorem
   for them; (2) the subtotal blocks of the base measures (matrix/measure.py _Row/_Column/
   _TableWeightedBases: sum of addends in the additive direction, repeated margin in the
   other, NaN for differences) are not modelled here -- the check compares them with the
   respondent-level oracle (a subtotal is the union of its addend categories). *)
From Coq Require Import QArith ZArith List Bool Lia Arith.
From CC Require Import Base.XQ Base.ListX Spec.Survey Model.CubeCounts
     Proofs.CubeCountsProofs Proofs.CubeCountsBases.
Import ListNotations.
Local Close Scope Q_scope.
Local Open Scope nat_scope.

(* row base of cell (i,j) = members of row element i eligible for column element j *)
Theorem C02_row_bases S tv vr vc kr kc mr mc k i j :
  t_ok tv -> cat_or_mr kr -> cat_or_mr kc -> k < t_n tv -> i < nval mr -> j < nval mc ->
  row_bases_of (slice_of tv vr kr mr vc kc mc S k) (nval mc) (length mrv) (kcls kr) (kcls kc) i j =x=
  Fin (wsum S (fun r => pop_of tv k r && in_el kr mr (ans r vr) i && ok_el kc mc (ans r vc) j)).
Proof. exact (fun Ht Hr Hc Hk => row_bases_of_spec S tv vr vc kr kc mr mc k Ht Hr Hc Hk i j). Qed.
Print Assumptions C02_row_bases.

(* column base = eligible for row element i, members of column element j *)
Theorem C02_column_bases S tv vr vc kr kc mr mc k i j :
  t_ok tv -> cat_or_mr kr -> cat_or_mr kc -> k < t_n tv -> i < nval mr -> j < nval mc ->
  column_bases_of (slice_of tv vr kr mr vc kc mc S k) (nval mr) (length mrv) (kcls kr) (kcls kc) i j =x=
  Fin (wsum S (fun r => pop_of tv k r && ok_el kr mr (ans r vr) i && in_el kc mc (ans r vc) j)).
Proof. exact (fun Ht Hr Hc Hk => column_bases_of_spec S tv vr vc kr kc mr mc k Ht Hr Hc Hk i j). Qed.
Print Assumptions C02_column_bases.

(* table base = eligible on both *)
Theorem C02_table_bases S tv vr vc kr kc mr mc k i j :
  t_ok tv -> cat_or_mr kr -> cat_or_mr kc -> k < t_n tv -> i < nval mr -> j < nval mc ->
  table_bases_of (slice_of tv vr kr mr vc kc mc S k) (nval mr) (nval mc) (length mrv) (length mrv)
                 (kcls kr) (kcls kc) i j =x=
  Fin (wsum S (fun r => pop_of tv k r && ok_el kr mr (ans r vr) i && ok_el kc mc (ans r vc) j)).
Proof. exact (fun Ht Hr Hc Hk => table_bases_of_spec S tv vr vc kr kc mr mc k Ht Hr Hc Hk i j). Qed.
Print Assumptions C02_table_bases.

(* unweighted bases: the same extraction on the unit-weight tensor; a weighted sum with unit
   weights is the NUMBER of respondents with the property *)
Theorem C02_unweighted_is_headcount S (P : resp -> bool) :
  (forall r w, P (mkResp (answers r) w) = P r) ->
  (wsum (unit_weights S) P == inject_Z (Z.of_nat (length (filter P S))))%Q.
Proof. exact (wsum_unit_headcount S P). Qed.
Print Assumptions C02_unweighted_is_headcount.

(* bases are monotone in eligibility: a count never exceeds its bases (non-negative weights) *)
Theorem C02_count_le_base S (P Q : resp -> bool) :
  wf_survey S -> (forall r, In r S -> P r = true -> Q r = true) -> (wsum S P <= wsum S Q)%Q.
Proof. exact (wsum_mono S P Q). Qed.
Print Assumptions C02_count_le_base.

(* the 1-D margins and the scalar table base are the collapsed 2-D bases, for all 9 pairs *)
Theorem C02_margins_are_collapsed_bases V nr nc sr sc rc cc :
  (forall f i j, rows_base_of V nc rc cc = Some f -> f i = row_bases_of V nc sc rc cc i j) /\
  (forall f i j, columns_base_of V nr rc cc = Some f -> f j = column_bases_of V nr sr rc cc i j) /\
  (forall f i j, rows_table_base_of V nr nc sr rc cc = Some f -> f i = table_bases_of V nr nc sr sc rc cc i j) /\
  (forall f i j, columns_table_base_of V nr nc sc rc cc = Some f -> f j = table_bases_of V nr nc sr sc rc cc i j) /\
  (forall x i j, table_base_of V nr nc rc cc = Some x -> x = table_bases_of V nr nc sr sc rc cc i j).
Proof.
  exact (conj (fun f i j => rows_base_collapse V nc sc rc cc f i j)
        (conj (fun f i j => columns_base_collapse V nr sr rc cc f i j)
        (conj (fun f i j => rows_table_base_collapse V nr nc sr sc rc cc f i j)
        (conj (fun f i j => columns_table_base_collapse V nr nc sr sc rc cc f i j)
              (fun x i j => table_base_collapse V nr nc sr sc rc cc x i j))))).
Qed.
Print Assumptions C02_margins_are_collapsed_bases.

(* a margin exists iff the OPPOSING dimension is categorical; the scalar iff both are *)
Theorem C02_margin_definedness V nr nc sr sc rc cc :
  ((exists f, rows_base_of V nc rc cc = Some f) <-> cc = CCat) /\
  ((exists f, columns_base_of V nr rc cc = Some f) <-> rc = CCat) /\
  ((exists f, rows_table_base_of V nr nc sr rc cc = Some f) <-> cc = CCat) /\
  ((exists f, columns_table_base_of V nr nc sc rc cc = Some f) <-> rc = CCat) /\
  ((exists x, table_base_of V nr nc rc cc = Some x) <-> rc = CCat /\ cc = CCat).
Proof.
  exact (conj (rows_base_defined V nc rc cc) (conj (columns_base_defined V nr rc cc)
        (conj (rows_table_base_defined V nr nc sr rc cc)
        (conj (columns_table_base_defined V nr nc sc rc cc) (table_base_defined V nr nc rc cc))))).
Qed.
Print Assumptions C02_margin_definedness.

(* public API (cubepart.py): the 2-D fall-backs are exactly the undefined cases *)
Theorem C02_public_rows_margin so :
  (exists v, so_rows_base so = Some v /\ public_rows_margin so = PVector v)
  \/ (so_rows_base so = None /\ public_rows_margin so = PMatrix (so_row_bases so)).
Proof. exact (public_rows_margin_cases so). Qed.
Print Assumptions C02_public_rows_margin.

Theorem C02_public_columns_margin so :
  (exists v, so_columns_base so = Some v /\ public_columns_margin so = PVector v)
  \/ (so_columns_base so = None /\ public_columns_margin so = PMatrix (so_column_bases so)).
Proof. exact (public_columns_margin_cases so). Qed.
Print Assumptions C02_public_columns_margin.

Theorem C02_public_table_base so :
  (exists x, so_table_base so = Some x /\ public_table_base so = PScalar x)
  \/ (so_table_base so = None /\ exists v, so_columns_table_base so = Some v /\ public_table_base so = PVector v)
  \/ (so_table_base so = None /\ so_columns_table_base so = None /\
      exists v, so_rows_table_base so = Some v /\ public_table_base so = PVector v)
  \/ (so_table_base so = None /\ so_columns_table_base so = None /\ so_rows_table_base so = None /\
      public_table_base so = PMatrix (so_table_bases so)).
Proof. exact (public_table_base_cases so). Qed.
Print Assumptions C02_public_table_base.

(* the margins at the survey level *)
Theorem C02_rows_margin S tv vr vc mr mc k kr i :
  t_ok tv -> k < t_n tv -> cat_or_mr kr -> i < nval mr ->
  exists f, rows_base_of (slice_of tv vr kr mr vc KCat mc S k) (nval mc) (kcls kr) CCat = Some f /\
    f i =x= Fin (wsum S (fun r => pop_of tv k r && in_el kr mr (ans r vr) i && ok_cat mc (ans r vc))).
Proof. exact (fun Ht Hk => rows_base_spec S tv vr vc mr mc k Ht Hk kr i). Qed.
Print Assumptions C02_rows_margin.

Theorem C02_columns_margin S tv vr vc mr mc k kc j :
  t_ok tv -> k < t_n tv -> cat_or_mr kc -> j < nval mc ->
  exists f, columns_base_of (slice_of tv vr KCat mr vc kc mc S k) (nval mr) CCat (kcls kc) = Some f /\
    f j =x= Fin (wsum S (fun r => pop_of tv k r && ok_cat mr (ans r vr) && in_el kc mc (ans r vc) j)).
Proof. exact (fun Ht Hk => columns_base_spec S tv vr vc mr mc k Ht Hk kc j). Qed.
Print Assumptions C02_columns_margin.

Theorem C02_table_base_scalar S tv vr vc mr mc k :
  t_ok tv -> k < t_n tv ->
  exists x, table_base_of (slice_of tv vr KCat mr vc KCat mc S k) (nval mr) (nval mc) CCat CCat = Some x /\
    x =x= Fin (wsum S (fun r => pop_of tv k r && ok_cat mr (ans r vr) && ok_cat mc (ans r vc))).
Proof. exact (fun Ht Hk => table_base_spec S tv vr vc mr mc k Ht Hk). Qed.
Print Assumptions C02_table_base_scalar.

(* strands *)
Theorem C02_strand_cat_table_base S v ms :
  sc_table_base (take_valid (dims_of KCat ms) (raw_of [(v, KCat)] S)) (nval ms) =x=
  Fin (wsum S (fun r => ok_cat ms (ans r v))).
Proof. exact (strand_cat_table_base_spec S v ms). Qed.
Print Assumptions C02_strand_cat_table_base.

Theorem C02_strand_mr_bases S v ms i :
  sm_bases (take_valid (dims_of KMr ms) (raw_of [(v, KMr)] S)) (length mrv) i =x=
  Fin (wsum S (fun r => ok_mr ms (ans r v) i)).
Proof. exact (strand_mr_bases_spec S v ms i). Qed.
Print Assumptions C02_strand_mr_bases.

(* [min, max] ranges: the reported ends are the least and the greatest base cell *)
Theorem C02_range_min l : l <> [] -> all_fin l ->
  exists q, xmin_list l = Fin q /\ In (Fin q) l /\ forall q', In (Fin q') l -> (q <= q')%Q.
Proof. exact (xmin_list_least l). Qed.
Print Assumptions C02_range_min.

Theorem C02_range_max l : l <> [] -> all_fin l ->
  exists q, xmax_list l = Fin q /\ In (Fin q) l /\ forall q', In (Fin q') l -> (q' <= q)%Q.
Proof. exact (xmax_list_greatest l). Qed.
Print Assumptions C02_range_max.

(* minimum-base mask: true exactly where the (unweighted) base is below the threshold *)
Theorem C02_mask b s : mask_cell (Fin b) (Fin s) = true <-> (b < s)%Q.
Proof. exact (mask_cell_fin b s). Qed.
Print Assumptions C02_mask.

(* ---- the masks as functions of the RESPONSE (Model/MinBaseMask.v) --------------------------
   _Strand.min_base_size_mask and MinBaseSizeMask.{row,column,table}_mask: each cell is the
   strict comparison of the UNWEIGHTED base of that cell (the bases the theorems above are
   about, on the unweighted payload) with the threshold; equality is not masked; the weighted
   measure of the response is irrelevant.  Checked on the implementation for thresholds just
   below / at / just above every unweighted AND weighted base that occurs (c02.py leg (d)). *)
From CC Require Import Model.MinBaseMask Proofs.MinBaseMaskProofs.

Theorem C02_strand_mask ds p ca0 k st m i b s :
  strand_counts ds (unweighted_counts_payload p) ca0 k = Some st ->
  strand_mask ds p ca0 k (Fin s) = Some m ->
  vnth (st_bases st) i = Fin b ->
  (bnth m i = true <-> (b < s)%Q).
Proof. exact (strand_mask_below_threshold ds p ca0 k st m i b s). Qed.
Print Assumptions C02_strand_mask.

Theorem C02_slice_masks ds p k so m i j s :
  slice_counts ds (unweighted_counts_payload p) k = Some so ->
  slice_mask ds p k (Fin s) = Some m ->
  (forall b, mnth (so_row_bases so) i j = Fin b -> (bmnth (km_row m) i j = true <-> (b < s)%Q)) /\
  (forall b, mnth (so_column_bases so) i j = Fin b -> (bmnth (km_column m) i j = true <-> (b < s)%Q)) /\
  (forall b, mnth (so_table_bases so) i j = Fin b -> (bmnth (km_table m) i j = true <-> (b < s)%Q)).
Proof. exact (slice_mask_below_threshold ds p k so m i j s). Qed.
Print Assumptions C02_slice_masks.

Theorem C02_mask_boundary b : mask_cell (Fin b) (Fin b) = false.
Proof. exact (mask_cell_boundary b). Qed.
Print Assumptions C02_mask_boundary.

Theorem C02_mask_monotone b s s' :
  (s <= s')%Q -> mask_cell (Fin b) (Fin s) = true -> mask_cell (Fin b) (Fin s') = true.
Proof. exact (mask_cell_mono b s s'). Qed.
Print Assumptions C02_mask_monotone.

Theorem C02_strand_mask_ignores_weights ds p p' ca0 k size :
  p_counts p = p_counts p' -> p_vcu p = p_vcu p' ->
  strand_mask ds p ca0 k size = strand_mask ds p' ca0 k size.
Proof. exact (strand_mask_ignores_weights ds p p' ca0 k size). Qed.
Print Assumptions C02_strand_mask_ignores_weights.

Theorem C02_slice_mask_ignores_weights ds p p' k size :
  p_counts p = p_counts p' -> p_vcu p = p_vcu p' ->
  slice_mask ds p k size = slice_mask ds p' k size.
Proof. exact (slice_mask_ignores_weights ds p p' k size). Qed.
Print Assumptions C02_slice_mask_ignores_weights.

(* Non-vacuity: a weighted CAT strand, 5 respondents with a valid answer (unweighted base 5),
   weighted base 1.  A threshold between the two (3) and the unweighted base itself (5) mask
   nothing; 5 + 1/8 masks all. *)
Example C02_strand_mask_example :
  let ds := [mkDim DCat [false; false; true]] in
  let p := mkPayload [Fin 3; Fin 2; Fin 1] (Some [Fin 1; Fin 0; Fin 0]) None None in
  option_map st_bases (strand_counts ds (unweighted_counts_payload p) false 0) = Some [Fin 5; Fin 5] /\
  option_map st_bases (strand_counts ds (weighted_counts_payload p) false 0)
    = Some [Fin 1; Fin 1] /\
  strand_mask ds p false 0 (Fin 3) = Some [false; false] /\
  strand_mask ds p false 0 (Fin 5) = Some [false; false] /\
  strand_mask ds p false 0 (Fin (41#8)) = Some [true; true].
Proof. vm_compute. repeat split; reflexivity. Qed.

(* Non-vacuity: MR x CAT with per-item missingness and a missing column category first in the
   payload.  Respondent 2 was not shown item 0; respondent 3 has a missing column answer. *)
Example C02_example :
  let S := [ mkResp [AMr [Sel; Oth]; ACat 1] 2;
             mkResp [AMr [Oth; Sel]; ACat 2] (1 # 2);
             mkResp [AMr [Mis; Sel]; ACat 1] 4;
             mkResp [AMr [Sel; Sel]; ACat 0] 8 ] in
  let mr := [false; false] in
  let mc := [true; false; false] in
  let ds := cube_dims None KMr mr KCat mc in
  let payload := flatten (raw_shape ds) (raw_of (cube_vars None 0 KMr 1 KCat) S) in
  t_ok None /\ cat_or_mr KMr /\ cat_or_mr KCat /\ wf_survey S /\ nval mr = 2 /\ nval mc = 2 /\
  option_map (fun so => (map (map xred) (so_row_bases so), map (map xred) (so_column_bases so),
                         map (map xred) (so_table_bases so), so_table_base so))
             (slice_counts ds payload 0)
   = Some ([[Fin 2; Fin 2]; [Fin (9 # 2); Fin (9 # 2)]],
           [[Fin 2; Fin (1 # 2)]; [Fin 6; Fin (1 # 2)]],
           [[Fin (5 # 2); Fin (5 # 2)]; [Fin (13 # 2); Fin (13 # 2)]], None) /\
  (wsum S (fun r => ok_el KMr mr (ans r 0) 0 && in_el KCat mc (ans r 1) 0) == 2)%Q.
Proof.
  cbv zeta. repeat split; try (left; reflexivity); try (right; reflexivity); try lia;
    try (repeat constructor; discriminate); try (vm_compute; reflexivity).
Qed.

(* ------------------------------------------------------------------------------------ *)
(* THE TIE TO THE SOURCE TEXT (DESIGN 2.4 (a)).  Gen/*.v is rewritten from
   /repo/src/cr/cube/{matrix,stripe}/cubemeasure.py on every check by the ast translator; the
   theorems below say that what the source SAYS NOW ([teval] of the translated term,
   Base/Tensor.v), for the class the factory picks for a (rows, columns) pair, IS the extractor
   the theorems above are about -- result shape and every in-range cell (or "None" exactly
   where the model says the margin is undefined), for all tensors and sizes.  [None] on the
   left = the translator could not read the method (then only the correspondence ties it).
   A change of meaning in the source breaks these obligations (Proofs/GenAgree.v fails). *)
From Coq Require Import String.
From CC Require Import Base.Tensor Gen.CubeCountsSrc Gen.StripeCountsSrc Gen.Tables
     Proofs.GenAgreeTac Proofs.GenAgreeBases.

Theorem C02_gen_row_bases :
  match src_CubeCounts_dispatch with
  | Some D => forall rc cc,
      meth src_methods (dict_pick (tag rc, tag cc) (fst D) (snd D)) "row_bases"
        (fun e => forall V nr nc sr sc,
           agrees2 (teval (envC (shape_of rc cc nr nc sr sc) V) e) nr nc (row_bases_of V nc sc rc cc))
  | None => True
  end.
Proof. exact gen_dispatch_row_bases. Qed.
Print Assumptions C02_gen_row_bases.

Theorem C02_gen_column_bases :
  match src_CubeCounts_dispatch with
  | Some D => forall rc cc,
      meth src_methods (dict_pick (tag rc, tag cc) (fst D) (snd D)) "column_bases"
        (fun e => forall V nr nc sr sc,
           agrees2 (teval (envC (shape_of rc cc nr nc sr sc) V) e) nr nc (column_bases_of V nr sr rc cc))
  | None => True
  end.
Proof. exact gen_dispatch_column_bases. Qed.
Print Assumptions C02_gen_column_bases.

Theorem C02_gen_table_bases :
  match src_CubeCounts_dispatch with
  | Some D => forall rc cc,
      meth src_methods (dict_pick (tag rc, tag cc) (fst D) (snd D)) "table_bases"
        (fun e => forall V nr nc sr sc,
           agrees2 (teval (envC (shape_of rc cc nr nc sr sc) V) e) nr nc (table_bases_of V nr nc sr sc rc cc))
  | None => True
  end.
Proof. exact gen_dispatch_table_bases. Qed.
Print Assumptions C02_gen_table_bases.

Theorem C02_gen_rows_base :
  match src_CubeCounts_dispatch with
  | Some D => forall rc cc,
      meth src_methods (dict_pick (tag rc, tag cc) (fst D) (snd D)) "rows_base"
        (fun e => forall V nr nc sr sc,
           agrees_opt1 (teval (envC (shape_of rc cc nr nc sr sc) V) e) nr (rows_base_of V nc rc cc))
  | None => True
  end.
Proof. exact gen_dispatch_rows_base. Qed.
Print Assumptions C02_gen_rows_base.

Theorem C02_gen_columns_base :
  match src_CubeCounts_dispatch with
  | Some D => forall rc cc,
      meth src_methods (dict_pick (tag rc, tag cc) (fst D) (snd D)) "columns_base"
        (fun e => forall V nr nc sr sc,
           agrees_opt1 (teval (envC (shape_of rc cc nr nc sr sc) V) e) nc (columns_base_of V nr rc cc))
  | None => True
  end.
Proof. exact gen_dispatch_columns_base. Qed.
Print Assumptions C02_gen_columns_base.

Theorem C02_gen_rows_table_base :
  match src_CubeCounts_dispatch with
  | Some D => forall rc cc,
      meth src_methods (dict_pick (tag rc, tag cc) (fst D) (snd D)) "rows_table_base"
        (fun e => forall V nr nc sr sc,
           agrees_opt1 (teval (envC (shape_of rc cc nr nc sr sc) V) e) nr (rows_table_base_of V nr nc sr rc cc))
  | None => True
  end.
Proof. exact gen_dispatch_rows_table_base. Qed.
Print Assumptions C02_gen_rows_table_base.

Theorem C02_gen_columns_table_base :
  match src_CubeCounts_dispatch with
  | Some D => forall rc cc,
      meth src_methods (dict_pick (tag rc, tag cc) (fst D) (snd D)) "columns_table_base"
        (fun e => forall V nr nc sr sc,
           agrees_opt1 (teval (envC (shape_of rc cc nr nc sr sc) V) e) nc (columns_table_base_of V nr nc sc rc cc))
  | None => True
  end.
Proof. exact gen_dispatch_columns_table_base. Qed.
Print Assumptions C02_gen_columns_table_base.

Theorem C02_gen_table_base :
  match src_CubeCounts_dispatch with
  | Some D => forall rc cc,
      meth src_methods (dict_pick (tag rc, tag cc) (fst D) (snd D)) "table_base"
        (fun e => forall V nr nc sr sc,
           agrees_opt0 (teval (envC (shape_of rc cc nr nc sr sc) V) e) (table_base_of V nr nc rc cc))
  | None => True
  end.
Proof. exact gen_dispatch_table_base. Qed.
Print Assumptions C02_gen_table_base.

(* strands: bases and scalar table base of the three stripe classes *)
Theorem C02_gen_strand_bases :
  match ssrc_CatCubeCounts_bases with
  | Some e => forall V n s, agrees1 (teval (envS [n] V) e) n (stripe_bases V n s CCat)
  | None => True
  end /\
  match ssrc_MrCubeCounts_bases with
  | Some e => forall V n s, agrees1 (teval (envS [n; s] V) e) n (stripe_bases V n s CMr)
  | None => True
  end /\
  match ssrc_NumArrCubeCounts_bases with
  | Some e => forall V n s, agrees1 (teval (envS [n] V) e) n (stripe_bases V n s CArr)
  | None => True
  end.
Proof.
  exact (conj gen_stripe_CatCubeCounts_bases
        (conj gen_stripe_MrCubeCounts_bases gen_stripe_NumArrCubeCounts_bases)).
Qed.
Print Assumptions C02_gen_strand_bases.

Theorem C02_gen_strand_table_base :
  match ssrc_CatCubeCounts_table_base with
  | Some e => forall V n, agrees0 (teval (envS [n] V) e) (sc_table_base V n)
  | None => True
  end /\
  match ssrc_MrCubeCounts_table_base with
  | Some e => forall V n s, agrees_none (teval (envS [n; s] V) e)
  | None => True
  end /\
  match ssrc_NumArrCubeCounts_table_base with
  | Some e => forall V n, agrees_none (teval (envS [n] V) e)
  | None => True
  end.
Proof.
  exact (conj gen_stripe_CatCubeCounts_table_base
        (conj gen_stripe_MrCubeCounts_table_base gen_stripe_NumArrCubeCounts_table_base)).
Qed.
Print Assumptions C02_gen_strand_table_base.
