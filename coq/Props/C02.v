(* C02 -- Bases and margins count exactly the respondents eligible for the denominator.

   Only statements ([exact <lemma>] + [Print Assumptions]).  Spec: Spec/Survey.v
   ([in_el] = belongs to the element, MR: selected the item; [ok_el] = eligible: categorical
   = any valid category, MR item = not missing on THAT item).  Model: Model/CubeCounts.v
   (row/column/table bases of the nine class pairs, 1-D margins, scalar table base, public
   2-D fall-backs of cubepart.py, ranges, mask), tied to the code by harness/props/c02.py.
   Proofs: Proofs/CubeCountsProofs.v, Proofs/CubeCountsBases.v.

   The survey-level theorems hold for every survey, every position of missing categories,
   2-D (tv = None) and 3-D (partition k of table variable tv), weighted; the unweighted
   twins are the same theorems applied to [unit_weights S] (C02_unweighted_is_headcount).

   PARTIAL: (1) class pairs with a categorical-array dimension: the model carries the
   degenerate definitions of the code (bases = counts across subvariables) and the collapse
   / defined-ness theorems below cover all NINE pairs, but there is no survey-level theorem
   for them; (2) the subtotal blocks of the base measures (matrix/measure.py _Row/_Column/
   _TableWeightedBases: sum of addends in the additive direction, repeated margin in the
   other, NaN for differences) are not modelled here -- the check compares them with the
   respondent-level oracle (a subtotal is the union of its addend categories). *)
From Coq Require Import QArith ZArith List Bool Lia Arith.
From CC Require Import Base.XQ Base.ListX Spec.Survey Model.CubeCounts
     Proofs.CubeCountsProofs Proofs.CubeCountsBases.
Import ListNotations.
Local Close Scope Q_scope.
Local Open Scope nat_scope.

(* row base of cell (i,j) = members of row element i eligible for column element j *)
Theorem C02_row_bases S tv vr vc kr kc mr mc k i j :
  t_ok tv -> cat_or_mr kr -> cat_or_mr kc -> k < t_n tv -> i < nval mr -> j < nval mc ->
  row_bases_of (slice_of tv vr kr mr vc kc mc S k) (nval mc) (length mrv) (kcls kr) (kcls kc) i j =x=
  Fin (wsum S (fun r => pop_of tv k r && in_el kr mr (ans r vr) i && ok_el kc mc (ans r vc) j)).
Proof. exact (fun Ht Hr Hc Hk => row_bases_of_spec S tv vr vc kr kc mr mc k Ht Hr Hc Hk i j). Qed.
Print Assumptions C02_row_bases.

(* column base = eligible for row element i, members of column element j *)
Theorem C02_column_bases S tv vr vc kr kc mr mc k i j :
  t_ok tv -> cat_or_mr kr -> cat_or_mr kc -> k < t_n tv -> i < nval mr -> j < nval mc ->
  column_bases_of (slice_of tv vr kr mr vc kc mc S k) (nval mr) (length mrv) (kcls kr) (kcls kc) i j =x=
  Fin (wsum S (fun r => pop_of tv k r && ok_el kr mr (ans r vr) i && in_el kc mc (ans r vc) j)).
Proof. exact (fun Ht Hr Hc Hk => column_bases_of_spec S tv vr vc kr kc mr mc k Ht Hr Hc Hk i j). Qed.
Print Assumptions C02_column_bases.

(* table base = eligible on both *)
Theorem C02_table_bases S tv vr vc kr kc mr mc k i j :
  t_ok tv -> cat_or_mr kr -> cat_or_mr kc -> k < t_n tv -> i < nval mr -> j < nval mc ->
  table_bases_of (slice_of tv vr kr mr vc kc mc S k) (nval mr) (nval mc) (length mrv) (length mrv)
                 (kcls kr) (kcls kc) i j =x=
  Fin (wsum S (fun r => pop_of tv k r && ok_el kr mr (ans r vr) i && ok_el kc mc (ans r vc) j)).
Proof. exact (fun Ht Hr Hc Hk => table_bases_of_spec S tv vr vc kr kc mr mc k Ht Hr Hc Hk i j). Qed.
Print Assumptions C02_table_bases.

(* unweighted bases: the same extraction on the unit-weight tensor; a weighted sum with unit
   weights is the NUMBER of respondents with the property *)
Theorem C02_unweighted_is_headcount S (P : resp -> bool) :
  (forall r w, P (mkResp (answers r) w) = P r) ->
  (wsum (unit_weights S) P == inject_Z (Z.of_nat (length (filter P S))))%Q.
Proof. exact (wsum_unit_headcount S P). Qed.
Print Assumptions C02_unweighted_is_headcount.

(* bases are monotone in eligibility: a count never exceeds its bases (non-negative weights) *)
Theorem C02_count_le_base S (P Q : resp -> bool) :
  wf_survey S -> (forall r, In r S -> P r = true -> Q r = true) -> (wsum S P <= wsum S Q)%Q.
Proof. exact (wsum_mono S P Q). Qed.
Print Assumptions C02_count_le_base.

(* the 1-D margins and the scalar table base are the collapsed 2-D bases, for all 9 pairs *)
Theorem C02_margins_are_collapsed_bases V nr nc sr sc rc cc :
  (forall f i j, rows_base_of V nc rc cc = Some f -> f i = row_bases_of V nc sc rc cc i j) /\
  (forall f i j, columns_base_of V nr rc cc = Some f -> f j = column_bases_of V nr sr rc cc i j) /\
  (forall f i j, rows_table_base_of V nr nc sr rc cc = Some f -> f i = table_bases_of V nr nc sr sc rc cc i j) /\
  (forall f i j, columns_table_base_of V nr nc sc rc cc = Some f -> f j = table_bases_of V nr nc sr sc rc cc i j) /\
  (forall x i j, table_base_of V nr nc rc cc = Some x -> x = table_bases_of V nr nc sr sc rc cc i j).
Proof.
  exact (conj (fun f i j => rows_base_collapse V nc sc rc cc f i j)
        (conj (fun f i j => columns_base_collapse V nr sr rc cc f i j)
        (conj (fun f i j => rows_table_base_collapse V nr nc sr sc rc cc f i j)
        (conj (fun f i j => columns_table_base_collapse V nr nc sr sc rc cc f i j)
              (fun x i j => table_base_collapse V nr nc sr sc rc cc x i j))))).
Qed.
Print Assumptions C02_margins_are_collapsed_bases.

(* a margin exists iff the OPPOSING dimension is categorical; the scalar iff both are *)
Theorem C02_margin_definedness V nr nc sr sc rc cc :
  ((exists f, rows_base_of V nc rc cc = Some f) <-> cc = CCat) /\
  ((exists f, columns_base_of V nr rc cc = Some f) <-> rc = CCat) /\
  ((exists f, rows_table_base_of V nr nc sr rc cc = Some f) <-> cc = CCat) /\
  ((exists f, columns_table_base_of V nr nc sc rc cc = Some f) <-> rc = CCat) /\
  ((exists x, table_base_of V nr nc rc cc = Some x) <-> rc = CCat /\ cc = CCat).
Proof.
  exact (conj (rows_base_defined V nc rc cc) (conj (columns_base_defined V nr rc cc)
        (conj (rows_table_base_defined V nr nc sr rc cc)
        (conj (columns_table_base_defined V nr nc sc rc cc) (table_base_defined V nr nc rc cc))))).
Qed.
Print Assumptions C02_margin_definedness.

(* public API (cubepart.py): the 2-D fall-backs are exactly the undefined cases *)
Theorem C02_public_rows_margin so :
  (exists v, so_rows_base so = Some v /\ public_rows_margin so = PVector v)
  \/ (so_rows_base so = None /\ public_rows_margin so = PMatrix (so_row_bases so)).
Proof. exact (public_rows_margin_cases so). Qed.
Print Assumptions C02_public_rows_margin.

Theorem C02_public_columns_margin so :
  (exists v, so_columns_base so = Some v /\ public_columns_margin so = PVector v)
  \/ (so_columns_base so = None /\ public_columns_margin so = PMatrix (so_column_bases so)).
Proof. exact (public_columns_margin_cases so). Qed.
Print Assumptions C02_public_columns_margin.

Theorem C02_public_table_base so :
  (exists x, so_table_base so = Some x /\ public_table_base so = PScalar x)
  \/ (so_table_base so = None /\ exists v, so_columns_table_base so = Some v /\ public_table_base so = PVector v)
  \/ (so_table_base so = None /\ so_columns_table_base so = None /\
      exists v, so_rows_table_base so = Some v /\ public_table_base so = PVector v)
  \/ (so_table_base so = None /\ so_columns_table_base so = None /\ so_rows_table_base so = None /\
      public_table_base so = PMatrix (so_table_bases so)).
Proof. exact (public_table_base_cases so). Qed.
Print Assumptions C02_public_table_base.

(* the margins at the survey level *)
Theorem C02_rows_margin S tv vr vc mr mc k kr i :
  t_ok tv -> k < t_n tv -> cat_or_mr kr -> i < nval mr ->
  exists f, rows_base_of (slice_of tv vr kr mr vc KCat mc S k) (nval mc) (kcls kr) CCat = Some f /\
    f i =x= Fin (wsum S (fun r => pop_of tv k r && in_el kr mr (ans r vr) i && ok_cat mc (ans r vc))).
Proof. exact (fun Ht Hk => rows_base_spec S tv vr vc mr mc k Ht Hk kr i). Qed.
Print Assumptions C02_rows_margin.

Theorem C02_columns_margin S tv vr vc mr mc k kc j :
  t_ok tv -> k < t_n tv -> cat_or_mr kc -> j < nval mc ->
  exists f, columns_base_of (slice_of tv vr KCat mr vc kc mc S k) (nval mr) CCat (kcls kc) = Some f /\
    f j =x= Fin (wsum S (fun r => pop_of tv k r && ok_cat mr (ans r vr) && in_el kc mc (ans r vc) j)).
Proof. exact (fun Ht Hk => columns_base_spec S tv vr vc mr mc k Ht Hk kc j). Qed.
Print Assumptions C02_columns_margin.

Theorem C02_table_base_scalar S tv vr vc mr mc k :
  t_ok tv -> k < t_n tv ->
  exists x, table_base_of (slice_of tv vr KCat mr vc KCat mc S k) (nval mr) (nval mc) CCat CCat = Some x /\
    x =x= Fin (wsum S (fun r => pop_of tv k r && ok_cat mr (ans r vr) && ok_cat mc (ans r vc))).
Proof. exact (fun Ht Hk => table_base_spec S tv vr vc mr mc k Ht Hk). Qed.
Print Assumptions C02_table_base_scalar.

(* strands *)
Theorem C02_strand_cat_table_base S v ms :
  sc_table_base (take_valid (dims_of KCat ms) (raw_of [(v, KCat)] S)) (nval ms) =x=
  Fin (wsum S (fun r => ok_cat ms (ans r v))).
Proof. exact (strand_cat_table_base_spec S v ms). Qed.
Print Assumptions C02_strand_cat_table_base.

Theorem C02_strand_mr_bases S v ms i :
  sm_bases (take_valid (dims_of KMr ms) (raw_of [(v, KMr)] S)) (length mrv) i =x=
  Fin (wsum S (fun r => ok_mr ms (ans r v) i)).
Proof. exact (strand_mr_bases_spec S v ms i). Qed.
Print Assumptions C02_strand_mr_bases.

(* [min, max] ranges: the reported ends are the least and the greatest base cell *)
Theorem C02_range_min l : l <> [] -> all_fin l ->
  exists q, xmin_list l = Fin q /\ In (Fin q) l /\ forall q', In (Fin q') l -> (q <= q')%Q.
Proof. exact (xmin_list_least l). Qed.
Print Assumptions C02_range_min.

Theorem C02_range_max l : l <> [] -> all_fin l ->
  exists q, xmax_list l = Fin q /\ In (Fin q) l /\ forall q', In (Fin q') l -> (q' <= q)%Q.
Proof. exact (xmax_list_greatest l). Qed.
Print Assumptions C02_range_max.

(* minimum-base mask: true exactly where the (unweighted) base is below the threshold *)
Theorem C02_mask b s : mask_cell (Fin b) (Fin s) = true <-> (b < s)%Q.
Proof. exact (mask_cell_fin b s). Qed.
Print Assumptions C02_mask.

(* ---- the masks as functions of the RESPONSE (Model/MinBaseMask.v) --------------------------
   _Strand.min_base_size_mask and MinBaseSizeMask.{row,column,table}_mask: each cell is the
   strict comparison of the UNWEIGHTED base of that cell (the bases the theorems above are
   about, on the unweighted payload) with the threshold; equality is not masked; the weighted
   measure of the response is irrelevant.  Checked on the implementation for thresholds just
   below / at / just above every unweighted AND weighted base that occurs (c02.py leg (d)). *)
From CC Require Import Model.MinBaseMask Proofs.MinBaseMaskProofs.

Theorem C02_strand_mask ds p ca0 k st m i b s :
  strand_counts ds (unweighted_counts_payload p) ca0 k = Some st ->
  strand_mask ds p ca0 k (Fin s) = Some m ->
  vnth (st_bases st) i = Fin b ->
  (bnth m i = true <-> (b < s)%Q).
Proof. exact (strand_mask_below_threshold ds p ca0 k st m i b s). Qed.
Print Assumptions C02_strand_mask.

Theorem C02_slice_masks ds p k so m i j s :
  slice_counts ds (unweighted_counts_payload p) k = Some so ->
  slice_mask ds p k (Fin s) = Some m ->
  (forall b, mnth (so_row_bases so) i j = Fin b -> (bmnth (km_row m) i j = true <-> (b < s)%Q)) /\
  (forall b, mnth (so_column_bases so) i j = Fin b -> (bmnth (km_column m) i j = true <-> (b < s)%Q)) /\
  (forall b, mnth (so_table_bases so) i j = Fin b -> (bmnth (km_table m) i j = true <-> (b < s)%Q)).
Proof. exact (slice_mask_below_threshold ds p k so m i j s). Qed.
Print Assumptions C02_slice_masks.

Theorem C02_mask_boundary b : mask_cell (Fin b) (Fin b) = false.
Proof. exact (mask_cell_boundary b). Qed.
Print Assumptions C02_mask_boundary.

Theorem C02_mask_monotone b s s' :
  (s <= s')%Q -> mask_cell (Fin b) (Fin s) = true -> mask_cell (Fin b) (Fin s') = true.
Proof. exact (mask_cell_mono b s s'). Qed.
Print Assumptions C02_mask_monotone.

Theorem C02_strand_mask_ignores_weights ds p p' ca0 k size :
  p_counts p = p_counts p' -> p_vcu p = p_vcu p' ->
  strand_mask ds p ca0 k size = strand_mask ds p' ca0 k size.
Proof. exact (strand_mask_ignores_weights ds p p' ca0 k size). Qed.
Print Assumptions C02_strand_mask_ignores_weights.

Theorem C02_slice_mask_ignores_weights ds p p' k size :
  p_counts p = p_counts p' -> p_vcu p = p_vcu p' ->
  slice_mask ds p k size = slice_mask ds p' k size.
Proof. exact (slice_mask_ignores_weights ds p p' k size). Qed.
Print Assumptions C02_slice_mask_ignores_weights.

(* Non-vacuity: a weighted CAT strand, 5 respondents with a valid answer (unweighted base 5),
   weighted base 1.  A threshold between the two (3) and the unweighted base itself (5) mask
   nothing; 5 + 1/8 masks all. *)
Example C02_strand_mask_example :
  let ds := [mkDim DCat [false; false; true]] in
  let p := mkPayload [Fin 3; Fin 2; Fin 1] (Some [Fin 1; Fin 0; Fin 0]) None None in
  option_map st_bases (strand_counts ds (unweighted_counts_payload p) false 0) = Some [Fin 5; Fin 5] /\
  option_map st_bases (strand_counts ds (weighted_counts_payload p) false 0)
    = Some [Fin 1; Fin 1] /\
  strand_mask ds p false 0 (Fin 3) = Some [false; false] /\
  strand_mask ds p false 0 (Fin 5) = Some [false; false] /\
  strand_mask ds p false 0 (Fin (41#8)) = Some [true; true].
Proof. vm_compute. repeat split; reflexivity. Qed.

(* Non-vacuity: MR x CAT with per-item missingness and a missing column category first in the
   payload.  Respondent 2 was not shown item 0; respondent 3 has a missing column answer. *)
Example C02_example :
  let S := [ mkResp [AMr [Sel; Oth]; ACat 1] 2;
             mkResp [AMr [Oth; Sel]; ACat 2] (1 # 2);
             mkResp [AMr [Mis; Sel]; ACat 1] 4;
             mkResp [AMr [Sel; Sel]; ACat 0] 8 ] in
  let mr := [false; false] in
  let mc := [true; false; false] in
  let ds := cube_dims None KMr mr KCat mc in
  let payload := flatten (raw_shape ds) (raw_of (cube_vars None 0 KMr 1 KCat) S) in
  t_ok None /\ cat_or_mr KMr /\ cat_or_mr KCat /\ wf_survey S /\ nval mr = 2 /\ nval mc = 2 /\
  option_map (fun so => (map (map xred) (so_row_bases so), map (map xred) (so_column_bases so),
                         map (map xred) (so_table_bases so), so_table_base so))
             (slice_counts ds payload 0)
   = Some ([[Fin 2; Fin 2]; [Fin (9 # 2); Fin (9 # 2)]],
           [[Fin 2; Fin (1 # 2)]; [Fin 6; Fin (1 # 2)]],
           [[Fin (5 # 2); Fin (5 # 2)]; [Fin (13 # 2); Fin (13 # 2)]], None) /\
  (wsum S (fun r => ok_el KMr mr (ans r 0) 0 && in_el KCat mc (ans r 1) 0) == 2)%Q.
Proof.
  cbv zeta. repeat split; try (left; reflexivity); try (right; reflexivity); try lia;
    try (repeat constructor; discriminate); try (vm_compute; reflexivity).
Qed.

(* ------------------------------------------------------------------------------------ *)
(* THE TIE TO THE SOURCE TEXT (DESIGN 2.4 (a)).  Gen/*.v is rewritten from
   /repo/src/cr/cube/{matrix,stripe}/cubemeasure.py on every check by the ast translator; the
   theorems below say that what the source SAYS NOW ([teval] of the translated term,
   Base/Tensor.v), for the class the factory picks for a (rows, columns) pair, IS the extractor
   the theorems above are about -- result shape and every in-range cell (or "None" exactly
   where the model says the margin is undefined), for all tensors and sizes.  [None] on the
   left = the translator could not read the method (then only the correspondence ties it).
   A change of meaning in the source breaks these obligations (Proofs/GenAgree.v fails). *)
From Coq Require Import String.
From CC Require Import Base.Tensor Gen.CubeCountsSrc Gen.StripeCountsSrc Gen.Tables
     Proofs.GenAgreeTac Proofs.GenAgreeBases.

Theorem C02_gen_row_bases :
  match src_CubeCounts_dispatch with
  | Some D => forall rc cc,
      meth src_methods (dict_pick (tag rc, tag cc) (fst D) (snd D)) "row_bases"
        (fun e => forall V nr nc sr sc,
           agrees2 (teval (envC (shape_of rc cc nr nc sr sc) V) e) nr nc (row_bases_of V nc sc rc cc))
  | None => True
  end.
Proof. exact gen_dispatch_row_bases. Qed.
Print Assumptions C02_gen_row_bases.

Theorem C02_gen_column_bases :
  match src_CubeCounts_dispatch with
  | Some D => forall rc cc,
      meth src_methods (dict_pick (tag rc, tag cc) (fst D) (snd D)) "column_bases"
        (fun e => forall V nr nc sr sc,
           agrees2 (teval (envC (shape_of rc cc nr nc sr sc) V) e) nr nc (column_bases_of V nr sr rc cc))
  | None => True
  end.
Proof. exact gen_dispatch_column_bases. Qed.
Print Assumptions C02_gen_column_bases.

Theorem C02_gen_table_bases :
  match src_CubeCounts_dispatch with
  | Some D => forall rc cc,
      meth src_methods (dict_pick (tag rc, tag cc) (fst D) (snd D)) "table_bases"
        (fun e => forall V nr nc sr sc,
           agrees2 (teval (envC (shape_of rc cc nr nc sr sc) V) e) nr nc (table_bases_of V nr nc sr sc rc cc))
  | None => True
  end.
Proof. exact gen_dispatch_table_bases. Qed.
Print Assumptions C02_gen_table_bases.

Theorem C02_gen_rows_base :
  match src_CubeCounts_dispatch with
  | Some D => forall rc cc,
      meth src_methods (dict_pick (tag rc, tag cc) (fst D) (snd D)) "rows_base"
        (fun e => forall V nr nc sr sc,
           agrees_opt1 (teval (envC (shape_of rc cc nr nc sr sc) V) e) nr (rows_base_of V nc rc cc))
  | None => True
  end.
Proof. exact gen_dispatch_rows_base. Qed.
Print Assumptions C02_gen_rows_base.

Theorem C02_gen_columns_base :
  match src_CubeCounts_dispatch with
  | Some D => forall rc cc,
      meth src_methods (dict_pick (tag rc, tag cc) (fst D) (snd D)) "columns_base"
        (fun e => forall V nr nc sr sc,
           agrees_opt1 (teval (envC (shape_of rc cc nr nc sr sc) V) e) nc (columns_base_of V nr rc cc))
  | None => True
  end.
Proof. exact gen_dispatch_columns_base. Qed.
Print Assumptions C02_gen_columns_base.

Theorem C02_gen_rows_table_base :
  match src_CubeCounts_dispatch with
  | Some D => forall rc cc,
      meth src_methods (dict_pick (tag rc, tag cc) (fst D) (snd D)) "rows_table_base"
        (fun e => forall V nr nc sr sc,
           agrees_opt1 (teval (envC (shape_of rc cc nr nc sr sc) V) e) nr (rows_table_base_of V nr nc sr rc cc))
  | None => True
  end.
Proof. exact gen_dispatch_rows_table_base. Qed.
Print Assumptions C02_gen_rows_table_base.

Theorem C02_gen_columns_table_base :
  match src_CubeCounts_dispatch with
  | Some D => forall rc cc,
      meth src_methods (dict_pick (tag rc, tag cc) (fst D) (snd D)) "columns_table_base"
        (fun e => forall V nr nc sr sc,
           agrees_opt1 (teval (envC (shape_of rc cc nr nc sr sc) V) e) nc (columns_table_base_of V nr nc sc rc cc))
  | None => True
  end.
Proof. exact gen_dispatch_columns_table_base. Qed.
Print Assumptions C02_gen_columns_table_base.

Theorem C02_gen_table_base :
  match src_CubeCounts_dispatch with
  | Some D => forall rc cc,
      meth src_methods (dict_pick (tag rc, tag cc) (fst D) (snd D)) "table_base"
        (fun e => forall V nr nc sr sc,
           agrees_opt0 (teval (envC (shape_of rc cc nr nc sr sc) V) e) (table_base_of V nr nc rc cc))
  | None => True
  end.
Proof. exact gen_dispatch_table_base. Qed.
Print Assumptions C02_gen_table_base.

(* strands: bases and scalar table base of the three stripe classes *)
Theorem C02_gen_strand_bases :
  match ssrc_CatCubeCounts_bases with
  | Some e => forall V n s, agrees1 (teval (envS [n] V) e) n (stripe_bases V n s CCat)
  | None => True
  end /\
  match ssrc_MrCubeCounts_bases with
  | Some e => forall V n s, agrees1 (teval (envS [n; s] V) e) n (stripe_bases V n s CMr)
  | None => True
  end /\
  match ssrc_NumArrCubeCounts_bases with
  | Some e => forall V n s, agrees1 (teval (envS [n] V) e) n (stripe_bases V n s CArr)
  | None => True
  end.
Proof.
  exact (conj gen_stripe_CatCubeCounts_bases
        (conj gen_stripe_MrCubeCounts_bases gen_stripe_NumArrCubeCounts_bases)).
Qed.
Print Assumptions C02_gen_strand_bases.

Theorem C02_gen_strand_table_base :
  match ssrc_CatCubeCounts_table_base with
  | Some e => forall V n, agrees0 (teval (envS [n] V) e) (sc_table_base V n)
  | None => True
  end /\
  match ssrc_MrCubeCounts_table_base with
  | Some e => forall V n s, agrees_none (teval (envS [n; s] V) e)
  | None => True
  end /\
  match ssrc_NumArrCubeCounts_table_base with
  | Some e => forall V n, agrees_none (teval (envS [n] V) e)
  | None => True
  end.
Proof.
  exact (conj gen_stripe_CatCubeCounts_table_base
        (conj gen_stripe_MrCubeCounts_table_base gen_stripe_NumArrCubeCounts_table_base)).
Qed.
Print Assumptions C02_gen_strand_table_base.

(* ------------------------------------------------------------------------------------ *)
(* CATEGORICAL ARRAYS (Spec/SurveyArray.v, Proofs/ArrayCountsProofs.v, ArrayBasesProofs.v).
   Notation as in Props/C01.v: an array brings the dimensions S (items, class "ARR") and C
   (categories, class "CAT"); [ca_slice l .. S k] is what the count class of partition k gets
   for the response laid out as l.  [in_arr mi mc a i c] = gave the c-th valid category on the
   i-th valid item; [ok_arr mi mc a i] = ELIGIBLE on item i = gave THAT item a non-missing
   category (per item: a respondent valid on another item only does not count).
   The property's definition, read for an array: in the direction that runs over the array's
   ITEMS nothing can be added up, the respondents of the opposing element who are valid on that
   particular item and in the cell are exactly the counted ones -- base = count (the code's
   "bases are equal to counts"); in the direction that runs over the array's CATEGORIES the
   base is "valid on that item"; over another variable X it is X's eligibility [ok_el]; the
   table base is the base of the non-item direction. *)
From CC Require Import Spec.SurveyArray Proofs.ArrayCountsProofs Proofs.ArrayBasesProofs.

(* ARR x CAT: the array alone (L_SC) or partition k of a table variable X (L_XSC) *)
Theorem C02_arr_x_cat_bases S l v w kw mi mc mw k sr sc i c :
  cat_or_mr kw -> k < lay_nt l mi mc mw -> rows_items l -> i < nval mi -> c < nval mc ->
  let V := ca_slice l v mi mc w kw mw S k in
  row_bases_of V (nval mc) sc CArr CCat i c =x=
    Fin (wsum S (fun r => lay_pop l kw mw (ans r w) k && ok_arr mi mc (ans r v) i)) /\
  column_bases_of V (nval mi) sr CArr CCat i c =x=
    Fin (wsum S (fun r => lay_pop l kw mw (ans r w) k && in_arr mi mc (ans r v) i c)) /\
  table_bases_of V (nval mi) (nval mc) sr sc CArr CCat i c =x=
    Fin (wsum S (fun r => lay_pop l kw mw (ans r w) k && ok_arr mi mc (ans r v) i)).
Proof. exact (fun Hw Hk => arr_rows_bases S l v w kw mi mc mw k Hw Hk sr sc i c). Qed.
Print Assumptions C02_arr_x_cat_bases.

(* CAT x ARR: the same cubes with the two array dimensions exchanged (L_CS, L_XCS) *)
Theorem C02_cat_x_arr_bases S l v w kw mi mc mw k sr sc c i :
  cat_or_mr kw -> k < lay_nt l mi mc mw -> cols_items l -> c < nval mc -> i < nval mi ->
  let V := ca_slice l v mi mc w kw mw S k in
  row_bases_of V (nval mi) sc CCat CArr c i =x=
    Fin (wsum S (fun r => lay_pop l kw mw (ans r w) k && in_arr mi mc (ans r v) i c)) /\
  column_bases_of V (nval mc) sr CCat CArr c i =x=
    Fin (wsum S (fun r => lay_pop l kw mw (ans r w) k && ok_arr mi mc (ans r v) i)) /\
  table_bases_of V (nval mc) (nval mi) sr sc CCat CArr c i =x=
    Fin (wsum S (fun r => lay_pop l kw mw (ans r w) k && ok_arr mi mc (ans r v) i)).
Proof. exact (fun Hw Hk => arr_cols_bases S l v w kw mi mc mw k Hw Hk sr sc c i). Qed.
Print Assumptions C02_cat_x_arr_bases.

(* ARR x CAT and ARR x MR (C S X): table of category k, rows = items i, columns = elements j
   of X.  Row base = gave category k on item i and eligible for j (MR: not missing on THAT
   item); column base = members of j who gave category k on item i; table base = row base *)
Theorem C02_arr_x_other_bases S v w kw mi mc mw k i j :
  cat_or_mr kw -> k < nval mc -> i < nval mi -> j < nval mw ->
  let V := ca_slice L_CSX v mi mc w kw mw S k in
  row_bases_of V (nval mw) (List.length mrv) CArr (kcls kw) i j =x=
    Fin (wsum S (fun r => in_arr mi mc (ans r v) i k && ok_el kw mw (ans r w) j)) /\
  column_bases_of V (nval mi) (List.length mrv) CArr (kcls kw) i j =x=
    Fin (wsum S (fun r => in_arr mi mc (ans r v) i k && in_el kw mw (ans r w) j)) /\
  table_bases_of V (nval mi) (nval mw) (List.length mrv) (List.length mrv) CArr (kcls kw) i j =x=
    Fin (wsum S (fun r => in_arr mi mc (ans r v) i k && ok_el kw mw (ans r w) j)).
Proof. exact (fun Hw Hk => csx_bases S v w kw mi mc mw k Hw Hk i j). Qed.
Print Assumptions C02_arr_x_other_bases.

(* CAT x ARR and MR x ARR (C X S): the mirror image *)
Theorem C02_other_x_arr_bases S v w kw mi mc mw k i j :
  cat_or_mr kw -> k < nval mc -> i < nval mw -> j < nval mi ->
  let V := ca_slice L_CXS v mi mc w kw mw S k in
  row_bases_of V (nval mi) (List.length mrv) (kcls kw) CArr i j =x=
    Fin (wsum S (fun r => in_arr mi mc (ans r v) j k && in_el kw mw (ans r w) i)) /\
  column_bases_of V (nval mw) (List.length mrv) (kcls kw) CArr i j =x=
    Fin (wsum S (fun r => in_arr mi mc (ans r v) j k && ok_el kw mw (ans r w) i)) /\
  table_bases_of V (nval mw) (nval mi) (List.length mrv) (List.length mrv) (kcls kw) CArr i j =x=
    Fin (wsum S (fun r => in_arr mi mc (ans r v) j k && ok_el kw mw (ans r w) i)).
Proof. exact (fun Hw Hk => cxs_bases S v w kw mi mc mw k Hw Hk i j). Qed.
Print Assumptions C02_other_x_arr_bases.

(* the array's items are the table dimension (S C X / S X C): the Cat / MR class pairs of the
   table of item k; eligibility on the array side is "valid on item k" *)
Theorem C02_array_item_tables_bases S v w kw mi mc mw k c j :
  cat_or_mr kw -> k < nval mi -> c < nval mc -> j < nval mw ->
  (let V := ca_slice L_SCX v mi mc w kw mw S k in
   row_bases_of V (nval mw) (List.length mrv) CCat (kcls kw) c j =x=
     Fin (wsum S (fun r => in_arr mi mc (ans r v) k c && ok_el kw mw (ans r w) j)) /\
   column_bases_of V (nval mc) (List.length mrv) CCat (kcls kw) c j =x=
     Fin (wsum S (fun r => ok_arr mi mc (ans r v) k && in_el kw mw (ans r w) j)) /\
   table_bases_of V (nval mc) (nval mw) (List.length mrv) (List.length mrv) CCat (kcls kw) c j =x=
     Fin (wsum S (fun r => ok_arr mi mc (ans r v) k && ok_el kw mw (ans r w) j))) /\
  (let V := ca_slice L_SXC v mi mc w kw mw S k in
   row_bases_of V (nval mc) (List.length mrv) (kcls kw) CCat j c =x=
     Fin (wsum S (fun r => in_el kw mw (ans r w) j && ok_arr mi mc (ans r v) k)) /\
   column_bases_of V (nval mw) (List.length mrv) (kcls kw) CCat j c =x=
     Fin (wsum S (fun r => ok_el kw mw (ans r w) j && in_arr mi mc (ans r v) k c)) /\
   table_bases_of V (nval mw) (nval mc) (List.length mrv) (List.length mrv) (kcls kw) CCat j c =x=
     Fin (wsum S (fun r => ok_el kw mw (ans r w) j && ok_arr mi mc (ans r v) k))).
Proof.
  exact (fun Hw Hk Hc Hj => conj (scx_bases S v w kw mi mc mw k c j Hw Hk Hc Hj)
                                 (sxc_bases S v w kw mi mc mw k j c Hw Hk Hj Hc)).
Qed.
Print Assumptions C02_array_item_tables_bases.

(* unweighted twins (head counts) for the two array families *)
Theorem C02_arr_x_cat_unweighted_bases S l v w kw mi mc mw k sr sc i c :
  cat_or_mr kw -> k < lay_nt l mi mc mw -> rows_items l -> i < nval mi -> c < nval mc ->
  let V := ca_slice l v mi mc w kw mw (unit_weights S) k in
  row_bases_of V (nval mc) sc CArr CCat i c =x=
    Fin (inject_Z (Z.of_nat (List.length (filter
          (fun r => lay_pop l kw mw (ans r w) k && ok_arr mi mc (ans r v) i) S)))) /\
  column_bases_of V (nval mi) sr CArr CCat i c =x=
    Fin (inject_Z (Z.of_nat (List.length (filter
          (fun r => lay_pop l kw mw (ans r w) k && in_arr mi mc (ans r v) i c) S)))) /\
  table_bases_of V (nval mi) (nval mc) sr sc CArr CCat i c =x=
    Fin (inject_Z (Z.of_nat (List.length (filter
          (fun r => lay_pop l kw mw (ans r w) k && ok_arr mi mc (ans r v) i) S)))).
Proof. exact (arr_rows_bases_headcount S l v w kw mi mc mw k sr sc i c). Qed.
Print Assumptions C02_arr_x_cat_unweighted_bases.

Theorem C02_arr_x_other_unweighted_bases S v w kw mi mc mw k i j :
  cat_or_mr kw -> k < nval mc -> i < nval mi -> j < nval mw ->
  let V := ca_slice L_CSX v mi mc w kw mw (unit_weights S) k in
  row_bases_of V (nval mw) (List.length mrv) CArr (kcls kw) i j =x=
    Fin (inject_Z (Z.of_nat (List.length (filter
          (fun r => in_arr mi mc (ans r v) i k && ok_el kw mw (ans r w) j) S)))) /\
  column_bases_of V (nval mi) (List.length mrv) CArr (kcls kw) i j =x=
    Fin (inject_Z (Z.of_nat (List.length (filter
          (fun r => in_arr mi mc (ans r v) i k && in_el kw mw (ans r w) j) S)))) /\
  table_bases_of V (nval mi) (nval mw) (List.length mrv) (List.length mrv) CArr (kcls kw) i j =x=
    Fin (inject_Z (Z.of_nat (List.length (filter
          (fun r => in_arr mi mc (ans r v) i k && ok_el kw mw (ans r w) j) S)))).
Proof. exact (csx_bases_headcount S v w kw mi mc mw k i j). Qed.
Print Assumptions C02_arr_x_other_unweighted_bases.

(* a count never exceeds its bases (non-negative weights) *)
Theorem C02_arr_x_cat_count_le_bases S l v w kw mi mc mw k sr sc i c :
  wf_survey S -> cat_or_mr kw -> k < lay_nt l mi mc mw -> rows_items l -> i < nval mi -> c < nval mc ->
  let V := ca_slice l v mi mc w kw mw S k in
  exists n rb cb tb,
    counts_of V CArr CCat i c =x= Fin n /\
    row_bases_of V (nval mc) sc CArr CCat i c =x= Fin rb /\
    column_bases_of V (nval mi) sr CArr CCat i c =x= Fin cb /\
    table_bases_of V (nval mi) (nval mc) sr sc CArr CCat i c =x= Fin tb /\
    (n <= rb)%Q /\ (n <= cb)%Q /\ (n <= tb)%Q.
Proof. exact (arr_rows_count_le_bases S l v w kw mi mc mw k sr sc i c). Qed.
Print Assumptions C02_arr_x_cat_count_le_bases.

Theorem C02_cat_x_arr_count_le_bases S l v w kw mi mc mw k sr sc c i :
  wf_survey S -> cat_or_mr kw -> k < lay_nt l mi mc mw -> cols_items l -> c < nval mc -> i < nval mi ->
  let V := ca_slice l v mi mc w kw mw S k in
  exists n rb cb tb,
    counts_of V CCat CArr c i =x= Fin n /\
    row_bases_of V (nval mi) sc CCat CArr c i =x= Fin rb /\
    column_bases_of V (nval mc) sr CCat CArr c i =x= Fin cb /\
    table_bases_of V (nval mc) (nval mi) sr sc CCat CArr c i =x= Fin tb /\
    (n <= rb)%Q /\ (n <= cb)%Q /\ (n <= tb)%Q.
Proof. exact (arr_cols_count_le_bases S l v w kw mi mc mw k sr sc c i). Qed.
Print Assumptions C02_cat_x_arr_count_le_bases.

Theorem C02_arr_x_other_count_le_bases S v w kw mi mc mw k i j :
  wf_survey S -> cat_or_mr kw -> k < nval mc -> i < nval mi -> j < nval mw ->
  let V := ca_slice L_CSX v mi mc w kw mw S k in
  exists n rb cb tb,
    counts_of V CArr (kcls kw) i j =x= Fin n /\
    row_bases_of V (nval mw) (List.length mrv) CArr (kcls kw) i j =x= Fin rb /\
    column_bases_of V (nval mi) (List.length mrv) CArr (kcls kw) i j =x= Fin cb /\
    table_bases_of V (nval mi) (nval mw) (List.length mrv) (List.length mrv) CArr (kcls kw) i j =x= Fin tb /\
    (n <= rb)%Q /\ (n <= cb)%Q /\ (n <= tb)%Q.
Proof. exact (csx_count_le_bases S v w kw mi mc mw k i j). Qed.
Print Assumptions C02_arr_x_other_count_le_bases.

Theorem C02_other_x_arr_count_le_bases S v w kw mi mc mw k i j :
  wf_survey S -> cat_or_mr kw -> k < nval mc -> i < nval mw -> j < nval mi ->
  let V := ca_slice L_CXS v mi mc w kw mw S k in
  exists n rb cb tb,
    counts_of V (kcls kw) CArr i j =x= Fin n /\
    row_bases_of V (nval mi) (List.length mrv) (kcls kw) CArr i j =x= Fin rb /\
    column_bases_of V (nval mw) (List.length mrv) (kcls kw) CArr i j =x= Fin cb /\
    table_bases_of V (nval mw) (nval mi) (List.length mrv) (List.length mrv) (kcls kw) CArr i j =x= Fin tb /\
    (n <= rb)%Q /\ (n <= cb)%Q /\ (n <= tb)%Q.
Proof. exact (cxs_count_le_bases S v w kw mi mc mw k i j). Qed.
Print Assumptions C02_other_x_arr_count_le_bases.

(* WHICH MARGINS EXIST across an array (any tensor): Arr x Cat has the rows margin (= rows
   table base) only, Cat x Arr the columns margin only, Arr x Mr / Mr x Arr / Arr x Arr none;
   never a scalar table base *)
Theorem C02_array_margins_defined V nr nc sr sc :
  (rows_base_of V nc CArr CCat = Some (ac_rows_base V nc) /\
   rows_table_base_of V nr nc sr CArr CCat = Some (ac_rows_base V nc) /\
   columns_base_of V nr CArr CCat = None /\ columns_table_base_of V nr nc sc CArr CCat = None /\
   table_base_of V nr nc CArr CCat = None) /\
  (columns_base_of V nr CCat CArr = Some (ca_columns_base V nr) /\
   columns_table_base_of V nr nc sc CCat CArr = Some (ca_columns_base V nr) /\
   rows_base_of V nc CCat CArr = None /\ rows_table_base_of V nr nc sr CCat CArr = None /\
   table_base_of V nr nc CCat CArr = None) /\
  (forall rc cc, (rc, cc) = (CArr, CMr) \/ (rc, cc) = (CMr, CArr) \/ (rc, cc) = (CArr, CArr) ->
     rows_base_of V nc rc cc = None /\ columns_base_of V nr rc cc = None /\
     rows_table_base_of V nr nc sr rc cc = None /\ columns_table_base_of V nr nc sc rc cc = None /\
     table_base_of V nr nc rc cc = None).
Proof. exact (arr_margins_defined V nr nc sr sc). Qed.
Print Assumptions C02_array_margins_defined.

(* ... and what the public API (cubepart.py) then hands out: the 2-D fall-backs wherever the
   opposing dimension is not categorical; for Arr x Cat / Cat x Arr the table base is the one
   existing margin, as a vector *)
Theorem C02_array_public_margins ds data k so si :
  slice_counts ds data k = Some so -> slice_info_of ds = Some si ->
  let rc := cls_of (si_row si) in
  let cc := cls_of (si_col si) in
  so_table_base so = table_base_of (slice_tensor ds data si k) (nvalid (si_row si)) (nvalid (si_col si)) rc cc /\
  (cc <> CCat -> public_rows_margin so = PMatrix (so_row_bases so)) /\
  (rc <> CCat -> public_columns_margin so = PMatrix (so_column_bases so)) /\
  (rc <> CCat -> cc <> CCat -> public_table_base so = PMatrix (so_table_bases so)) /\
  (rc = CArr -> cc = CCat ->
     exists vct, so_rows_base so = Some vct /\ public_rows_margin so = PVector vct /\
                 public_table_base so = PVector vct) /\
  (rc = CCat -> cc = CArr ->
     exists vct, so_columns_base so = Some vct /\ public_columns_margin so = PVector vct /\
                 public_table_base so = PVector vct).
Proof. exact (arr_public_margins ds data k so si). Qed.
Print Assumptions C02_array_public_margins.

(* the survey-level value of the margins that exist: one number per item = valid on it *)
Theorem C02_arr_x_cat_rows_margin S l v w kw mi mc mw k sr sc i :
  cat_or_mr kw -> k < lay_nt l mi mc mw -> rows_items l -> i < nval mi ->
  let V := ca_slice l v mi mc w kw mw S k in
  exists f, rows_base_of V (nval mc) CArr CCat = Some f /\
    rows_table_base_of V (nval mi) (nval mc) sr CArr CCat = Some f /\
    f i =x= Fin (wsum S (fun r => lay_pop l kw mw (ans r w) k && ok_arr mi mc (ans r v) i)) /\
    columns_base_of V (nval mi) CArr CCat = None /\
    columns_table_base_of V (nval mi) (nval mc) sc CArr CCat = None /\
    table_base_of V (nval mi) (nval mc) CArr CCat = None.
Proof. exact (fun Hw Hk => arr_rows_margin S l v w kw mi mc mw k Hw Hk sr sc i). Qed.
Print Assumptions C02_arr_x_cat_rows_margin.

Theorem C02_cat_x_arr_columns_margin S l v w kw mi mc mw k sr sc i :
  cat_or_mr kw -> k < lay_nt l mi mc mw -> cols_items l -> i < nval mi ->
  let V := ca_slice l v mi mc w kw mw S k in
  exists f, columns_base_of V (nval mc) CCat CArr = Some f /\
    columns_table_base_of V (nval mc) (nval mi) sc CCat CArr = Some f /\
    f i =x= Fin (wsum S (fun r => lay_pop l kw mw (ans r w) k && ok_arr mi mc (ans r v) i)) /\
    rows_base_of V (nval mi) CCat CArr = None /\
    rows_table_base_of V (nval mc) (nval mi) sr CCat CArr = None /\
    table_base_of V (nval mc) (nval mi) CCat CArr = None.
Proof. exact (fun Hw Hk => arr_cols_margin S l v w kw mi mc mw k Hw Hk sr sc i). Qed.
Print Assumptions C02_cat_x_arr_columns_margin.

(* table of category k against a CATEGORICAL X: per item, gave k on it and valid on X *)
Theorem C02_arr_x_other_margins S v w mi mc mw k i :
  k < nval mc -> i < nval mi ->
  (let V := ca_slice L_CSX v mi mc w KCat mw S k in
   exists f, rows_base_of V (nval mw) CArr CCat = Some f /\
     rows_table_base_of V (nval mi) (nval mw) (List.length mrv) CArr CCat = Some f /\
     f i =x= Fin (wsum S (fun r => in_arr mi mc (ans r v) i k && ok_cat mw (ans r w)))) /\
  (let V := ca_slice L_CXS v mi mc w KCat mw S k in
   exists f, columns_base_of V (nval mw) CCat CArr = Some f /\
     columns_table_base_of V (nval mw) (nval mi) (List.length mrv) CCat CArr = Some f /\
     f i =x= Fin (wsum S (fun r => in_arr mi mc (ans r v) i k && ok_cat mw (ans r w)))).
Proof.
  exact (fun Hk Hi => conj (csx_margin S v w mi mc mw k i Hk Hi) (cxs_margin S v w mi mc mw k i Hk Hi)).
Qed.
Print Assumptions C02_arr_x_other_margins.

(* tables of item k: the margin across the array's categories always exists; the scalar
   table base when X is categorical: valid on item k and on X *)
Theorem C02_array_item_tables_margins S v w kw mi mc mw k j :
  cat_or_mr kw -> k < nval mi -> j < nval mw ->
  (exists f, columns_base_of (ca_slice L_SCX v mi mc w kw mw S k) (nval mc) CCat (kcls kw) = Some f /\
     f j =x= Fin (wsum S (fun r => ok_arr mi mc (ans r v) k && in_el kw mw (ans r w) j))) /\
  (exists f, rows_base_of (ca_slice L_SXC v mi mc w kw mw S k) (nval mc) (kcls kw) CCat = Some f /\
     f j =x= Fin (wsum S (fun r => in_el kw mw (ans r w) j && ok_arr mi mc (ans r v) k))).
Proof.
  exact (fun Hw Hk Hj => conj (scx_columns_margin S v w kw mi mc mw k j Hw Hk Hj)
                              (sxc_rows_margin S v w kw mi mc mw k j Hw Hk Hj)).
Qed.
Print Assumptions C02_array_item_tables_margins.

Theorem C02_array_item_table_base_scalar S v w mi mc mw k :
  k < nval mi ->
  exists x, table_base_of (ca_slice L_SCX v mi mc w KCat mw S k) (nval mc) (nval mw) CCat CCat = Some x /\
    x =x= Fin (wsum S (fun r => ok_arr mi mc (ans r v) k && ok_cat mw (ans r w))).
Proof. exact (scx_table_base_scalar S v w mi mc mw k). Qed.
Print Assumptions C02_array_item_table_base_scalar.

(* ARR x ARR: see Props/C01.v (C01_arr_x_arr_counts_partial, C01_arr_x_arr_needs_four_dimensions):
   no response of at most three dimensions reaches the class; for any slice tensor with the
   two-array meaning all three bases equal the count (stated there with the counts). *)

(* Non-vacuity: the survey of C01_array_example (2 items x 3 categories, the MIDDLE category
   missing; respondent 2 gave the missing category on item 0, respondent 1 on item 1,
   respondent 4 did not answer item 1 and is missing on MR item 0), cut by [slice_counts]:
   (a) the array alone: row base = valid on the item (19/4, 27/4 -- NOT the same for both
   items), column base = count, rows margin exists, no columns margin, no scalar;
   (b) categories x items x MR, table of the last category: row base adds selected + other on
   THAT MR item (13/2 for item 1), column base = count, no margin at all;
   (c) categories x MR x items: the mirror image;
   (d) categorical x items x categories, table 1. *)
Example C02_array_example :
  let S := [ mkResp [AArr [0; 2]; ACat 0; AMr [Sel; Oth]] (3 # 2);
             mkResp [AArr [2; 1]; ACat 1; AMr [Sel; Mis]] 2;
             mkResp [AArr [1; 2]; ACat 0; AMr [Oth; Sel]] 5;
             mkResp [AArr [0; 0]; ACat 1; AMr [Sel; Sel]] (1 # 4);
             mkResp [AArr [2];    ACat 2; AMr [Mis; Sel]] 1 ] in
  let mi := [false; false] in
  let mc := [false; true; false] in
  let mwc := [false; false; true] in
  let mwm := [false; false] in
  let run l w kw mw k :=
    let ds := lay_dims l mi mc kw mw in
    option_map (fun so => (map (map xred) (so_row_bases so), map (map xred) (so_column_bases so),
                           map (map xred) (so_table_bases so),
                           option_map (map xred) (so_rows_base so),
                           option_map (map xred) (so_columns_base so), so_table_base so))
               (slice_counts ds (flatten (raw_shape ds) (ca_raw l 0 w kw S)) k) in
  cat_or_mr KCat /\ cat_or_mr KMr /\ wf_survey S /\
  nval mi = 2 /\ nval mc = 2 /\ nval mwc = 2 /\ nval mwm = 2 /\
  rows_items L_SC /\ rows_items L_XSC /\ cols_items L_CS /\
  0 < lay_nt L_SC mi mc mwc /\ 1 < lay_nt L_XSC mi mc mwc /\
  run L_SC 1 KCat mwc 0 =
    Some ([[Fin (19 # 4); Fin (19 # 4)]; [Fin (27 # 4); Fin (27 # 4)]],
          [[Fin (7 # 4); Fin 3]; [Fin (1 # 4); Fin (13 # 2)]],
          [[Fin (19 # 4); Fin (19 # 4)]; [Fin (27 # 4); Fin (27 # 4)]],
          Some [Fin (19 # 4); Fin (27 # 4)], None, None) /\
  run L_CSX 2 KMr mwm 1 =
    Some ([[Fin 2; Fin 1]; [Fin (13 # 2); Fin (13 # 2)]],
          [[Fin 2; Fin 1]; [Fin (3 # 2); Fin 5]],
          [[Fin 2; Fin 1]; [Fin (13 # 2); Fin (13 # 2)]], None, None, None) /\
  run L_CXS 2 KMr mwm 1 =
    Some ([[Fin 2; Fin (3 # 2)]; [Fin 1; Fin 5]],
          [[Fin 2; Fin (13 # 2)]; [Fin 1; Fin (13 # 2)]],
          [[Fin 2; Fin (13 # 2)]; [Fin 1; Fin (13 # 2)]], None, None, None) /\
  run L_XSC 1 KCat mwc 1 =
    Some ([[Fin (9 # 4); Fin (9 # 4)]; [Fin (1 # 4); Fin (1 # 4)]],
          [[Fin (1 # 4); Fin 2]; [Fin (1 # 4); Fin 0]],
          [[Fin (9 # 4); Fin (9 # 4)]; [Fin (1 # 4); Fin (1 # 4)]],
          Some [Fin (9 # 4); Fin (1 # 4)], None, None) /\
  option_map (fun so => (public_columns_margin so, public_table_base so))
             (slice_counts (lay_dims L_CSX mi mc KMr mwm)
                (flatten (raw_shape (lay_dims L_CSX mi mc KMr mwm)) (ca_raw L_CSX 0 2 KMr S)) 1)
    = option_map (fun so => (PMatrix (so_column_bases so), PMatrix (so_table_bases so)))
             (slice_counts (lay_dims L_CSX mi mc KMr mwm)
                (flatten (raw_shape (lay_dims L_CSX mi mc KMr mwm)) (ca_raw L_CSX 0 2 KMr S)) 1) /\
  (wsum S (fun r => ok_arr mi mc (ans r 0) 0) == 19 # 4)%Q /\
  (wsum S (fun r => ok_arr mi mc (ans r 0) 1) == 27 # 4)%Q /\
  (wsum S (fun r => in_arr mi mc (ans r 0) 1 1 && ok_el KMr mwm (ans r 2) 0) == 13 # 2)%Q.
Proof.
  cbv zeta. repeat split; try (left; reflexivity); try (right; reflexivity);
    try lia; try (repeat constructor; discriminate); try (vm_compute; reflexivity).
Qed.

(* COMPOSED, FROM THE FLAT PAYLOAD (Proofs/ArrayPayloadProofs.v): [ca_payload l ..] is the
   row-major payload of the survey's cube laid out as l, [slice_counts] the function the
   correspondence check evaluates on the JSON payload.  For every survey, every position of
   missing items / categories, X categorical or MR and every partition k, each cell of the four
   matrices it returns is the respondent-level number -- one theorem from the payload to the
   survey, counts and bases together. *)
From CC Require Import Proofs.ArrayPayloadProofs.

(* ARR x CAT: the array alone (L_SC) or under a table variable (L_XSC) *)
Theorem C02_arr_x_cat_from_payload S l v w kw mi mc mw k :
  cat_or_mr kw -> k < lay_nt l mi mc mw -> rows_items l ->
  exists so, slice_counts (lay_dims l mi mc kw mw) (ca_payload l v mi mc w kw mw S) k = Some so /\
    forall i c, i < nval mi -> c < nval mc ->
      mnth (so_counts so) i c =x=
        Fin (wsum S (fun r => lay_pop l kw mw (ans r w) k && in_arr mi mc (ans r v) i c)) /\
      mnth (so_row_bases so) i c =x=
        Fin (wsum S (fun r => lay_pop l kw mw (ans r w) k && ok_arr mi mc (ans r v) i)) /\
      mnth (so_column_bases so) i c =x=
        Fin (wsum S (fun r => lay_pop l kw mw (ans r w) k && in_arr mi mc (ans r v) i c)) /\
      mnth (so_table_bases so) i c =x=
        Fin (wsum S (fun r => lay_pop l kw mw (ans r w) k && ok_arr mi mc (ans r v) i)).
Proof. exact (arr_rows_from_payload S l v w kw mi mc mw k). Qed.
Print Assumptions C02_arr_x_cat_from_payload.

(* CAT x ARR (L_CS, L_XCS) *)
Theorem C02_cat_x_arr_from_payload S l v w kw mi mc mw k :
  cat_or_mr kw -> k < lay_nt l mi mc mw -> cols_items l ->
  exists so, slice_counts (lay_dims l mi mc kw mw) (ca_payload l v mi mc w kw mw S) k = Some so /\
    forall c i, c < nval mc -> i < nval mi ->
      mnth (so_counts so) c i =x=
        Fin (wsum S (fun r => lay_pop l kw mw (ans r w) k && in_arr mi mc (ans r v) i c)) /\
      mnth (so_row_bases so) c i =x=
        Fin (wsum S (fun r => lay_pop l kw mw (ans r w) k && in_arr mi mc (ans r v) i c)) /\
      mnth (so_column_bases so) c i =x=
        Fin (wsum S (fun r => lay_pop l kw mw (ans r w) k && ok_arr mi mc (ans r v) i)) /\
      mnth (so_table_bases so) c i =x=
        Fin (wsum S (fun r => lay_pop l kw mw (ans r w) k && ok_arr mi mc (ans r v) i)).
Proof. exact (arr_cols_from_payload S l v w kw mi mc mw k). Qed.
Print Assumptions C02_cat_x_arr_from_payload.

(* ARR x CAT / ARR x MR: categories x items x X, the table of category k *)
Theorem C02_arr_x_other_from_payload S v w kw mi mc mw k :
  cat_or_mr kw -> k < nval mc ->
  exists so, slice_counts (lay_dims L_CSX mi mc kw mw) (ca_payload L_CSX v mi mc w kw mw S) k = Some so /\
    forall i j, i < nval mi -> j < nval mw ->
      mnth (so_counts so) i j =x=
        Fin (wsum S (fun r => in_arr mi mc (ans r v) i k && in_el kw mw (ans r w) j)) /\
      mnth (so_row_bases so) i j =x=
        Fin (wsum S (fun r => in_arr mi mc (ans r v) i k && ok_el kw mw (ans r w) j)) /\
      mnth (so_column_bases so) i j =x=
        Fin (wsum S (fun r => in_arr mi mc (ans r v) i k && in_el kw mw (ans r w) j)) /\
      mnth (so_table_bases so) i j =x=
        Fin (wsum S (fun r => in_arr mi mc (ans r v) i k && ok_el kw mw (ans r w) j)).
Proof. exact (csx_from_payload S v w kw mi mc mw k). Qed.
Print Assumptions C02_arr_x_other_from_payload.

(* CAT x ARR / MR x ARR: categories x X x items *)
Theorem C02_other_x_arr_from_payload S v w kw mi mc mw k :
  cat_or_mr kw -> k < nval mc ->
  exists so, slice_counts (lay_dims L_CXS mi mc kw mw) (ca_payload L_CXS v mi mc w kw mw S) k = Some so /\
    forall i j, i < nval mw -> j < nval mi ->
      mnth (so_counts so) i j =x=
        Fin (wsum S (fun r => in_arr mi mc (ans r v) j k && in_el kw mw (ans r w) i)) /\
      mnth (so_row_bases so) i j =x=
        Fin (wsum S (fun r => in_arr mi mc (ans r v) j k && in_el kw mw (ans r w) i)) /\
      mnth (so_column_bases so) i j =x=
        Fin (wsum S (fun r => in_arr mi mc (ans r v) j k && ok_el kw mw (ans r w) i)) /\
      mnth (so_table_bases so) i j =x=
        Fin (wsum S (fun r => in_arr mi mc (ans r v) j k && ok_el kw mw (ans r w) i)).
Proof. exact (cxs_from_payload S v w kw mi mc mw k). Qed.
Print Assumptions C02_other_x_arr_from_payload.

(* the tables of item k: items x categories x X and items x X x categories *)
Theorem C02_array_item_tables_from_payload S v w kw mi mc mw k :
  cat_or_mr kw -> k < nval mi ->
  (exists so, slice_counts (lay_dims L_SCX mi mc kw mw) (ca_payload L_SCX v mi mc w kw mw S) k = Some so /\
    forall c j, c < nval mc -> j < nval mw ->
      mnth (so_counts so) c j =x=
        Fin (wsum S (fun r => in_arr mi mc (ans r v) k c && in_el kw mw (ans r w) j)) /\
      mnth (so_row_bases so) c j =x=
        Fin (wsum S (fun r => in_arr mi mc (ans r v) k c && ok_el kw mw (ans r w) j)) /\
      mnth (so_column_bases so) c j =x=
        Fin (wsum S (fun r => ok_arr mi mc (ans r v) k && in_el kw mw (ans r w) j)) /\
      mnth (so_table_bases so) c j =x=
        Fin (wsum S (fun r => ok_arr mi mc (ans r v) k && ok_el kw mw (ans r w) j))) /\
  (exists so, slice_counts (lay_dims L_SXC mi mc kw mw) (ca_payload L_SXC v mi mc w kw mw S) k = Some so /\
    forall j c, j < nval mw -> c < nval mc ->
      mnth (so_counts so) j c =x=
        Fin (wsum S (fun r => in_el kw mw (ans r w) j && in_arr mi mc (ans r v) k c)) /\
      mnth (so_row_bases so) j c =x=
        Fin (wsum S (fun r => in_el kw mw (ans r w) j && ok_arr mi mc (ans r v) k)) /\
      mnth (so_column_bases so) j c =x=
        Fin (wsum S (fun r => ok_el kw mw (ans r w) j && in_arr mi mc (ans r v) k c)) /\
      mnth (so_table_bases so) j c =x=
        Fin (wsum S (fun r => ok_el kw mw (ans r w) j && ok_arr mi mc (ans r v) k))).
Proof.
  exact (fun Hw Hk => conj (scx_from_payload S v w kw mi mc mw k Hw Hk)
                           (sxc_from_payload S v w kw mi mc mw k Hw Hk)).
Qed.
Print Assumptions C02_array_item_tables_from_payload.
