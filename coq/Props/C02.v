(* C02 -- Bases and margins count exactly the respondents eligible for the denominator.

   Only statements ([exact <lemma>] + [Print Assumptions]).  Spec: Spec/Survey.v
   ([in_el] = belongs to the element, MR: selected the item; [ok_el] = eligible: categorical
   = any valid category, MR item = not missing on THAT item).  Model: Model/CubeCounts.v
   (row/column/table bases of the nine class pairs, 1-D margins, scalar table base, public
   2-D fall-backs of cubepart.py, ranges, mask), tied to the code by harness/props/c02.py.
   Proofs: Proofs/CubeCountsProofs.v, Proofs/CubeCountsBases.v.

   The survey-level theorems hold for every survey, every position of missing categories,
   2-D (tv = None) and 3-D (partition k of table variable tv), weighted; the unweighted
   twins are the same theorems applied to [unit_weights S] (C02_unweighted_is_headcount).

   PARTIAL: (1) class pairs with a categorical-array dimension: the model carries the
   degenerate definitions of the code (bases = counts across subvariables) and the collapse
   / defined-ness theorems below cover all NINE pairs, but there is no survey-level theorem
   for them; (2) the subtotal blocks of the base measures (matrix/measure.py _Row/_Column/
   _TableWeightedBases: sum of addends in the additive direction, repeated margin in the
   other, NaN for differences) are not modelled here -- the check compares them with the
   respondent-level oracle (a subtotal is the union of its addend categories). *)
From Coq Require Import QArith ZArith List Bool Lia Arith.
From CC Require Import Base.XQ Base.ListX Spec.Survey Model.CubeCounts
     Proofs.CubeCountsProofs Proofs.CubeCountsBases.
Import ListNotations.
Local Close Scope Q_scope.
Local Open Scope nat_scope.

(* row base of cell (i,j) = members of row element i eligible for column element j *)
Theorem C02_row_bases S tv vr vc kr kc mr mc k i j :
  t_ok tv -> cat_or_mr kr -> cat_or_mr kc -> k < t_n tv -> i < nval mr -> j < nval mc ->
  row_bases_of (slice_of tv vr kr mr vc kc mc S k) (nval mc) (length mrv) (kcls kr) (kcls kc) i j =x=
  Fin (wsum S (fun r => pop_of tv k r && in_el kr mr (ans r vr) i && ok_el kc mc (ans r vc) j)).
Proof. exact (fun Ht Hr Hc Hk => row_bases_of_spec S tv vr vc kr kc mr mc k Ht Hr Hc Hk i j). Qed.
Print Assumptions C02_row_bases.

(* column base = eligible for row element i, members of column element j *)
Theorem C02_column_bases S tv vr vc kr kc mr mc k i j :
  t_ok tv -> cat_or_mr kr -> cat_or_mr kc -> k < t_n tv -> i < nval mr -> j < nval mc ->
  column_bases_of (slice_of tv vr kr mr vc kc mc S k) (nval mr) (length mrv) (kcls kr) (kcls kc) i j =x=
  Fin (wsum S (fun r => pop_of tv k r && ok_el kr mr (ans r vr) i && in_el kc mc (ans r vc) j)).
Proof. exact (fun Ht Hr Hc Hk => column_bases_of_spec S tv vr vc kr kc mr mc k Ht Hr Hc Hk i j). Qed.
Print Assumptions C02_column_bases.

(* table base = eligible on both *)
Theorem C02_table_bases S tv vr vc kr kc mr mc k i j :
  t_ok tv -> cat_or_mr kr -> cat_or_mr kc -> k < t_n tv -> i < nval mr -> j < nval mc ->
  table_bases_of (slice_of tv vr kr mr vc kc mc S k) (nval mr) (nval mc) (length mrv) (length mrv)
                 (kcls kr) (kcls kc) i j =x=
  Fin (wsum S (fun r => pop_of tv k r && ok_el kr mr (ans r vr) i && ok_el kc mc (ans r vc) j)).
Proof. exact (fun Ht Hr Hc Hk => table_bases_of_spec S tv vr vc kr kc mr mc k Ht Hr Hc Hk i j). Qed.
Print Assumptions C02_table_bases.

(* unweighted bases: the same extraction on the unit-weight tensor; a weighted sum with unit
   weights is the NUMBER of respondents with the property *)
Theorem C02_unweighted_is_headcount S (P : resp -> bool) :
  (forall r w, P (mkResp (answers r) w) = P r) ->
  (wsum (unit_weights S) P == inject_Z (Z.of_nat (length (filter P S))))%Q.
Proof. exact (wsum_unit_headcount S P). Qed.
Print Assumptions C02_unweighted_is_headcount.

(* bases are monotone in eligibility: a count never exceeds its bases (non-negative weights) *)
Theorem C02_count_le_base S (P Q : resp -> bool) :
  wf_survey S -> (forall r, In r S -> P r = true -> Q r = true) -> (wsum S P <= wsum S Q)%Q.
Proof. exact (wsum_mono S P Q). Qed.
Print Assumptions C02_count_le_base.

(* the 1-D margins and the scalar table base are the collapsed 2-D bases, for all 9 pairs *)
Theorem C02_margins_are_collapsed_bases V nr nc sr sc rc cc :
  (forall f i j, rows_base_of V nc rc cc = Some f -> f i = row_bases_of V nc sc rc cc i j) /\
  (forall f i j, columns_base_of V nr rc cc = Some f -> f j = column_bases_of V nr sr rc cc i j) /\
  (forall f i j, rows_table_base_of V nr nc sr rc cc = Some f -> f i = table_bases_of V nr nc sr sc rc cc i j) /\
  (forall f i j, columns_table_base_of V nr nc sc rc cc = Some f -> f j = table_bases_of V nr nc sr sc rc cc i j) /\
  (forall x i j, table_base_of V nr nc rc cc = Some x -> x = table_bases_of V nr nc sr sc rc cc i j).
Proof.
  exact (conj (fun f i j => rows_base_collapse V nc sc rc cc f i j)
        (conj (fun f i j => columns_base_collapse V nr sr rc cc f i j)
        (conj (fun f i j => rows_table_base_collapse V nr nc sr sc rc cc f i j)
        (conj (fun f i j => columns_table_base_collapse V nr nc sr sc rc cc f i j)
              (fun x i j => table_base_collapse V nr nc sr sc rc cc x i j))))).
Qed.
Print Assumptions C02_margins_are_collapsed_bases.

(* a margin exists iff the OPPOSING dimension is categorical; the scalar iff both are *)
Theorem C02_margin_definedness V nr nc sr sc rc cc :
  ((exists f, rows_base_of V nc rc cc = Some f) <-> cc = CCat) /\
  ((exists f, columns_base_of V nr rc cc = Some f) <-> rc = CCat) /\
  ((exists f, rows_table_base_of V nr nc sr rc cc = Some f) <-> cc = CCat) /\
  ((exists f, columns_table_base_of V nr nc sc rc cc = Some f) <-> rc = CCat) /\
  ((exists x, table_base_of V nr nc rc cc = Some x) <-> rc = CCat /\ cc = CCat).
Proof.
  exact (conj (rows_base_defined V nc rc cc) (conj (columns_base_defined V nr rc cc)
        (conj (rows_table_base_defined V nr nc sr rc cc)
        (conj (columns_table_base_defined V nr nc sc rc cc) (table_base_defined V nr nc rc cc))))).
Qed.
Print Assumptions C02_margin_definedness.

(* public API (cubepart.py): the 2-D fall-backs are exactly the undefined cases *)
Theorem C02_public_rows_margin so :
  (exists v, so_rows_base so = Some v /\ public_rows_margin so = PVector v)
  \/ (so_rows_base so = None /\ public_rows_margin so = PMatrix (so_row_bases so)).
Proof. exact (public_rows_margin_cases so). Qed.
Print Assumptions C02_public_rows_margin.

Theorem C02_public_columns_margin so :
  (exists v, so_columns_base so = Some v /\ public_columns_margin so = PVector v)
  \/ (so_columns_base so = None /\ public_columns_margin so = PMatrix (so_column_bases so)).
Proof. exact (public_columns_margin_cases so). Qed.
Print Assumptions C02_public_columns_margin.

Theorem C02_public_table_base so :
  (exists x, so_table_base so = Some x /\ public_table_base so = PScalar x)
  \/ (so_table_base so = None /\ exists v, so_columns_table_base so = Some v /\ public_table_base so = PVector v)
  \/ (so_table_base so = None /\ so_columns_table_base so = None /\
      exists v, so_rows_table_base so = Some v /\ public_table_base so = PVector v)
  \/ (so_table_base so = None /\ so_columns_table_base so = None /\ so_rows_table_base so = None /\
      public_table_base so = PMatrix (so_table_bases so)).
Proof. exact (public_table_base_cases so). Qed.
Print Assumptions C02_public_table_base.

(* the margins at the survey level *)
Theorem C02_rows_margin S tv vr vc mr mc k kr i :
  t_ok tv -> k < t_n tv -> cat_or_mr kr -> i < nval mr ->
  exists f, rows_base_of (slice_of tv vr kr mr vc KCat mc S k) (nval mc) (kcls kr) CCat = Some f /\
    f i =x= Fin (wsum S (fun r => pop_of tv k r && in_el kr mr (ans r vr) i && ok_cat mc (ans r vc))).
Proof. exact (fun Ht Hk => rows_base_spec S tv vr vc mr mc k Ht Hk kr i). Qed.
Print Assumptions C02_rows_margin.

Theorem C02_columns_margin S tv vr vc mr mc k kc j :
  t_ok tv -> k < t_n tv -> cat_or_mr kc -> j < nval mc ->
  exists f, columns_base_of (slice_of tv vr KCat mr vc kc mc S k) (nval mr) CCat (kcls kc) = Some f /\
    f j =x= Fin (wsum S (fun r => pop_of tv k r && ok_cat mr (ans r vr) && in_el kc mc (ans r vc) j)).
Proof. exact (fun Ht Hk => columns_base_spec S tv vr vc mr mc k Ht Hk kc j). Qed.
Print Assumptions C02_columns_margin.

Theorem C02_table_base_scalar S tv vr vc mr mc k :
  t_ok tv -> k < t_n tv ->
  exists x, table_base_of (slice_of tv vr KCat mr vc KCat mc S k) (nval mr) (nval mc) CCat CCat = Some x /\
    x =x= Fin (wsum S (fun r => pop_of tv k r && ok_cat mr (ans r vr) && ok_cat mc (ans r vc))).
Proof. exact (fun Ht Hk => table_base_spec S tv vr vc mr mc k Ht Hk). Qed.
Print Assumptions C02_table_base_scalar.

(* strands *)
Theorem C02_strand_cat_table_base S v ms :
  sc_table_base (take_valid (dims_of KCat ms) (raw_of [(v, KCat)] S)) (nval ms) =x=
  Fin (wsum S (fun r => ok_cat ms (ans r v))).
Proof. exact (strand_cat_table_base_spec S v ms). Qed.
Print Assumptions C02_strand_cat_table_base.

Theorem C02_strand_mr_bases S v ms i :
  sm_bases (take_valid (dims_of KMr ms) (raw_of [(v, KMr)] S)) (length mrv) i =x=
  Fin (wsum S (fun r => ok_mr ms (ans r v) i)).
Proof. exact (strand_mr_bases_spec S v ms i). Qed.
Print Assumptions C02_strand_mr_bases.

(* [min, max] ranges: the reported ends are the least and the greatest base cell *)
Theorem C02_range_min l : l <> [] -> all_fin l ->
  exists q, xmin_list l = Fin q /\ In (Fin q) l /\ forall q', In (Fin q') l -> (q <= q')%Q.
Proof. exact (xmin_list_least l). Qed.
Print Assumptions C02_range_min.

Theorem C02_range_max l : l <> [] -> all_fin l ->
  exists q, xmax_list l = Fin q /\ In (Fin q) l /\ forall q', In (Fin q') l -> (q' <= q)%Q.
Proof. exact (xmax_list_greatest l). Qed.
Print Assumptions C02_range_max.

(* minimum-base mask: true exactly where the (unweighted) base is below the threshold *)
Theorem C02_mask b s : mask_cell (Fin b) (Fin s) = true <-> (b < s)%Q.
Proof. exact (mask_cell_fin b s). Qed.
Print Assumptions C02_mask.

(* ---- the masks as functions of the RESPONSE (Model/MinBaseMask.v) --------------------------
   _Strand.min_base_size_mask and MinBaseSizeMask.{row,column,table}_mask: each cell is the
   strict comparison of the UNWEIGHTED base of that cell (the bases the theorems above are
   about, on the unweighted payload) with the threshold; equality is not masked; the weighted
   measure of the response is irrelevant.  Checked on the implementation for thresholds just
   below / at / just above every unweighted AND weighted base that occurs (c02.py leg (d)). *)
From CC Require Import Model.MinBaseMask Proofs.MinBaseMaskProofs.

Theorem C02_strand_mask ds p ca0 k st m i b s :
  strand_counts ds (unweighted_counts_payload p) ca0 k = Some st ->
  strand_mask ds p ca0 k (Fin s) = Some m ->
  vnth (st_bases st) i = Fin b ->
  (bnth m i = true <-> (b < s)%Q).
Proof. exact (strand_mask_below_threshold ds p ca0 k st m i b s). Qed.
Print Assumptions C02_strand_mask.

Theorem C02_slice_masks ds p k so m i j s :
  slice_counts ds (unweighted_counts_payload p) k = Some so ->
  slice_mask ds p k (Fin s) = Some m ->
  (forall b, mnth (so_row_bases so) i j = Fin b -> (bmnth (km_row m) i j = true <-> (b < s)%Q)) /\
  (forall b, mnth (so_column_bases so) i j = Fin b -> (bmnth (km_column m) i j = true <-> (b < s)%Q)) /\
  (forall b, mnth (so_table_bases so) i j = Fin b -> (bmnth (km_table m) i j = true <-> (b < s)%Q)).
Proof. exact (slice_mask_below_threshold ds p k so m i j s). Qed.
Print Assumptions C02_slice_masks.

Theorem C02_mask_boundary b : mask_cell (Fin b) (Fin b) = false.
Proof. exact (mask_cell_boundary b). Qed.
Print Assumptions C02_mask_boundary.

Theorem C02_mask_monotone b s s' :
  (s <= s')%Q -> mask_cell (Fin b) (Fin s) = true -> mask_cell (Fin b) (Fin s') = true.
Proof. exact (mask_cell_mono b s s'). Qed.
Print Assumptions C02_mask_monotone.

Theorem C02_strand_mask_ignores_weights ds p p' ca0 k size :
  p_counts p = p_counts p' -> p_vcu p = p_vcu p' ->
  strand_mask ds p ca0 k size = strand_mask ds p' ca0 k size.
Proof. exact (strand_mask_ignores_weights ds p p' ca0 k size). Qed.
Print Assumptions C02_strand_mask_ignores_weights.

Theorem C02_slice_mask_ignores_weights ds p p' k size :
  p_counts p = p_counts p' -> p_vcu p = p_vcu p' ->
  slice_mask ds p k size = slice_mask ds p' k size.
Proof. exact (slice_mask_ignores_weights ds p p' k size). Qed.
Print Assumptions C02_slice_mask_ignores_weights.

(* Non-vacuity: a weighted CAT strand, 5 respondents with a valid answer (unweighted base 5),
   weighted base 1.  A threshold between the two (3) and the unweighted base itself (5) mask
   nothing; 5 + 1/8 masks all. *)
Example C02_strand_mask_example :
  let ds := [mkDim DCat [false; false; true]] in
  let p := mkPayload [Fin 3; Fin 2; Fin 1] (Some [Fin 1; Fin 0; Fin 0]) None None in
  option_map st_bases (strand_counts ds (unweighted_counts_payload p) false 0) = Some [Fin 5; Fin 5] /\
  option_map st_bases (strand_counts ds (weighted_counts_payload p) false 0)
    = Some [Fin 1; Fin 1] /\
  strand_mask ds p false 0 (Fin 3) = Some [false; false] /\
  strand_mask ds p false 0 (Fin 5) = Some [false; false] /\
  strand_mask ds p false 0 (Fin (41#8)) = Some [true; true].
Proof. vm_compute. repeat split; reflexivity. Qed.

(* Non-vacuity: MR x CAT with per-item missingness and a missing column category first in the
   payload.  Respondent 2 was not shown item 0; respondent 3 has a missing column answer. *)
Example C02_example :
  let S := [ mkResp [AMr [Sel; Oth]; ACat 1] 2;
             mkResp [AMr [Oth; Sel]; ACat 2] (1 # 2);
             mkResp [AMr [Mis; Sel]; ACat 1] 4;
             mkResp [AMr [Sel; Sel]; ACat 0] 8 ] in
  let mr := [false; false] in
  let mc := [true; false; false] in
  let ds := cube_dims None KMr mr KCat mc in
  let payload := flatten (raw_shape ds) (raw_of (cube_vars None 0 KMr 1 KCat) S) in
  t_ok None /\ cat_or_mr KMr /\ cat_or_mr KCat /\ wf_survey S /\ nval mr = 2 /\ nval mc = 2 /\
  option_map (fun so => (map (map xred) (so_row_bases so), map (map xred) (so_column_bases so),
                         map (map xred) (so_table_bases so), so_table_base so))
             (slice_counts ds payload 0)
   = Some ([[Fin 2; Fin 2]; [Fin (9 # 2); Fin (9 # 2)]],
           [[Fin 2; Fin (1 # 2)]; [Fin 6; Fin (1 # 2)]],
           [[Fin (5 # 2); Fin (5 # 2)]; [Fin (13 # 2); Fin (13 # 2)]], None) /\
  (wsum S (fun r => ok_el KMr mr (ans r 0) 0 && in_el KCat mc (ans r 1) 0) == 2)%Q.
Proof.
  cbv zeta. repeat split; try (left; reflexivity); try (right; reflexivity); try lia;
    try (repeat constructor; discriminate); try (vm_compute; reflexivity).
Qed.

(* ------------------------------------------------------------------------------------ *)
(* THE TIE TO THE SOURCE TEXT (DESIGN 2.4 (a)).  Gen/*.v is rewritten from
   /repo/src/cr/cube/{matrix,stripe}/cubemeasure.py on every check by the ast translator; the
   theorems below say that what the source SAYS NOW ([teval] of the translated term,
   Base/Tensor.v), for the class the factory picks for a (rows, columns) pair, IS the extractor
   the theorems above are about -- result shape and every in-range cell (or "None" exactly
   where the model says the margin is undefined), for all tensors and sizes.  [None] on the
   left = the translator could not read the method (then only the correspondence ties it).
   A change of meaning in the source breaks these obligations (Proofs/GenAgree.v fails). *)
From Coq Require Import String.
From CC Require Import Base.Tensor Gen.CubeCountsSrc Gen.StripeCountsSrc Gen.Tables
     Proofs.GenAgreeTac Proofs.GenAgreeBases.

Theorem C02_gen_row_bases :
  match src_CubeCounts_dispatch with
  | Some D => forall rc cc,
      meth src_methods (dict_pick (tag rc, tag cc) (fst D) (snd D)) "row_bases"
        (fun e => forall V nr nc sr sc,
           agrees2 (teval (envC (shape_of rc cc nr nc sr sc) V) e) nr nc (row_bases_of V nc sc rc cc))
  | None => True
  end.
Proof. exact gen_dispatch_row_bases. Qed.
Print Assumptions C02_gen_row_bases.

Theorem C02_gen_column_bases :
  match src_CubeCounts_dispatch with
  | Some D => forall rc cc,
      meth src_methods (dict_pick (tag rc, tag cc) (fst D) (snd D)) "column_bases"
        (fun e => forall V nr nc sr sc,
           agrees2 (teval (envC (shape_of rc cc nr nc sr sc) V) e) nr nc (column_bases_of V nr sr rc cc))
  | None => True
  end.
Proof. exact gen_dispatch_column_bases. Qed.
Print Assumptions C02_gen_column_bases.

Theorem C02_gen_table_bases :
  match src_CubeCounts_dispatch with
  | Some D => forall rc cc,
      meth src_methods (dict_pick (tag rc, tag cc) (fst D) (snd D)) "table_bases"
        (fun e => forall V nr nc sr sc,
           agrees2 (teval (envC (shape_of rc cc nr nc sr sc) V) e) nr nc (table_bases_of V nr nc sr sc rc cc))
  | None => True
  end.
Proof. exact gen_dispatch_table_bases. Qed.
Print Assumptions C02_gen_table_bases.

Theorem C02_gen_rows_base :
  match src_CubeCounts_dispatch with
  | Some D => forall rc cc,
      meth src_methods (dict_pick (tag rc, tag cc) (fst D) (snd D)) "rows_base"
        (fun e => forall V nr nc sr sc,
           agrees_opt1 (teval (envC (shape_of rc cc nr nc sr sc) V) e) nr (rows_base_of V nc rc cc))
  | None => True
  end.
Proof. exact gen_dispatch_rows_base. Qed.
Print Assumptions C02_gen_rows_base.

Theorem C02_gen_columns_base :
  match src_CubeCounts_dispatch with
  | Some D => forall rc cc,
      meth src_methods (dict_pick (tag rc, tag cc) (fst D) (snd D)) "columns_base"
        (fun e => forall V nr nc sr sc,
           agrees_opt1 (teval (envC (shape_of rc cc nr nc sr sc) V) e) nc (columns_base_of V nr rc cc))
  | None => True
  end.
Proof. exact gen_dispatch_columns_base. Qed.
Print Assumptions C02_gen_columns_base.

Theorem C02_gen_rows_table_base :
  match src_CubeCounts_dispatch with
  | Some D => forall rc cc,
      meth src_methods (dict_pick (tag rc, tag cc) (fst D) (snd D)) "rows_table_base"
        (fun e => forall V nr nc sr sc,
           agrees_opt1 (teval (envC (shape_of rc cc nr nc sr sc) V) e) nr (rows_table_base_of V nr nc sr rc cc))
  | None => True
  end.
Proof. exact gen_dispatch_rows_table_base. Qed.
Print Assumptions C02_gen_rows_table_base.

Theorem C02_gen_columns_table_base :
  match src_CubeCounts_dispatch with
  | Some D => forall rc cc,
      meth src_methods (dict_pick (tag rc, tag cc) (fst D) (snd D)) "columns_table_base"
        (fun e => forall V nr nc sr sc,
           agrees_opt1 (teval (envC (shape_of rc cc nr nc sr sc) V) e) nc (columns_table_base_of V nr nc sc rc cc))
  | None => True
  end.
Proof. exact gen_dispatch_columns_table_base. Qed.
Print Assumptions C02_gen_columns_table_base.

Theorem C02_gen_table_base :
  match src_CubeCounts_dispatch with
  | Some D => forall rc cc,
      meth src_methods (dict_pick (tag rc, tag cc) (fst D) (snd D)) "table_base"
        (fun e => forall V nr nc sr sc,
           agrees_opt0 (teval (envC (shape_of rc cc nr nc sr sc) V) e) (table_base_of V nr nc rc cc))
  | None => True
  end.
Proof. exact gen_dispatch_table_base. Qed.
Print Assumptions C02_gen_table_base.

(* strands: bases and scalar table base of the three stripe classes *)
Theorem C02_gen_strand_bases :
  match ssrc_CatCubeCounts_bases with
  | Some e => forall V n s, agrees1 (teval (envS [n] V) e) n (stripe_bases V n s CCat)
  | None => True
  end /\
  match ssrc_MrCubeCounts_bases with
  | Some e => forall V n s, agrees1 (teval (envS [n; s] V) e) n (stripe_bases V n s CMr)
  | None => True
  end /\
  match ssrc_NumArrCubeCounts_bases with
  | Some e => forall V n s, agrees1 (teval (envS [n] V) e) n (stripe_bases V n s CArr)
  | None => True
  end.
Proof.
  exact (conj gen_stripe_CatCubeCounts_bases
        (conj gen_stripe_MrCubeCounts_bases gen_stripe_NumArrCubeCounts_bases)).
Qed.
Print Assumptions C02_gen_strand_bases.

Theorem C02_gen_strand_table_base :
  match ssrc_CatCubeCounts_table_base with
  | Some e => forall V n, agrees0 (teval (envS [n] V) e) (sc_table_base V n)
  | None => True
  end /\
  match ssrc_MrCubeCounts_table_base with
  | Some e => forall V n s, agrees_none (teval (envS [n; s] V) e)
  | None => True
  end /\
  match ssrc_NumArrCubeCounts_table_base with
  | Some e => forall V n, agrees_none (teval (envS [n] V) e)
  | None => True
  end.
Proof.
  exact (conj gen_stripe_CatCubeCounts_table_base
        (conj gen_stripe_MrCubeCounts_table_base gen_stripe_NumArrCubeCounts_table_base)).
Qed.
Print Assumptions C02_gen_strand_table_base.

(* ------------------------------------------------------------------------------------ *)
(* CATEGORICAL ARRAYS (Spec/SurveyArray.v, Proofs/ArrayCountsProofs.v, ArrayBasesProofs.v).
   Notation as in Props/C01.v: an array brings the dimensions S (items, class "ARR") and C
   (categories, class "CAT"); [ca_slice l .. S k] is what the count class of partition k gets
   for the response laid out as l.  [in_arr mi mc a i c] = gave the c-th valid category on the
   i-th valid item; [ok_arr mi mc a i] = ELIGIBLE on item i = gave THAT item a non-missing
   category (per item: a respondent valid on another item only does not count).
   The property's definition, read for an array: in the direction that runs over the array's
   ITEMS nothing can be added up, the respondents of the opposing element who are valid on that
   particular item and in the cell are exactly the counted ones -- base = count (the code's
   "bases are equal to counts"); in the direction that runs over the array's CATEGORIES the
   base is "valid on that item"; over another variable X it is X's eligibility [ok_el]; the
   table base is the base of the non-item direction. *)
From CC Require Import Spec.SurveyArray Proofs.ArrayCountsProofs Proofs.ArrayBasesProofs.

(* ARR x CAT: the array alone (L_SC) or partition k of a table variable X (L_XSC) *)
Theorem C02_arr_x_cat_bases S l v w kw mi mc mw k sr sc i c :
  cat_or_mr kw -> k < lay_nt l mi mc mw -> rows_items l -> i < nval mi -> c < nval mc ->
  let V := ca_slice l v mi mc w kw mw S k in
  row_bases_of V (nval mc) sc CArr CCat i c =x=
    Fin (wsum S (fun r => lay_pop l kw mw (ans r w) k && ok_arr mi mc (ans r v) i)) /\
  column_bases_of V (nval mi) sr CArr CCat i c =x=
    Fin (wsum S (fun r => lay_pop l kw mw (ans r w) k && in_arr mi mc (ans r v) i c)) /\
  table_bases_of V (nval mi) (nval mc) sr sc CArr CCat i c =x=
    Fin (wsum S (fun r => lay_pop l kw mw (ans r w) k && ok_arr mi mc (ans r v) i)).
Proof. exact (fun Hw Hk => arr_rows_bases S l v w kw mi mc mw k Hw Hk sr sc i c). Qed.
Print Assumptions C02_arr_x_cat_bases.

(* CAT x ARR: the same cubes with the two array dimensions exchanged (L_CS, L_XCS) *)
Theorem C02_cat_x_arr_bases S l v w kw mi mc mw k sr sc c i :
  cat_or_mr kw -> k < lay_nt l mi mc mw -> cols_items l -> c < nval mc -> i < nval mi ->
  let V := ca_slice l v mi mc w kw mw S k in
  row_bases_of V (nval mi) sc CCat CArr c i =x=
    Fin (wsum S (fun r => lay_pop l kw mw (ans r w) k && in_arr mi mc (ans r v) i c)) /\
  column_bases_of V (nval mc) sr CCat CArr c i =x=
    Fin (wsum S (fun r => lay_pop l kw mw (ans r w) k && ok_arr mi mc (ans r v) i)) /\
  table_bases_of V (nval mc) (nval mi) sr sc CCat CArr c i =x=
    Fin (wsum S (fun r => lay_pop l kw mw (ans r w) k && ok_arr mi mc (ans r v) i)).
Proof. exact (fun Hw Hk => arr_cols_bases S l v w kw mi mc mw k Hw Hk sr sc c i). Qed.
Print Assumptions C02_cat_x_arr_bases.

(* ARR x CAT and ARR x MR (C S X): table of category k, rows = items i, columns = elements j
   of X.  Row base = gave category k on item i and eligible for j (MR: not missing on THAT
   item); column base = members of j who gave category k on item i; table base = row base *)
Theorem C02_arr_x_other_bases S v w kw mi mc mw k i j :
  cat_or_mr kw -> k < nval mc -> i < nval mi -> j < nval mw ->
  let V := ca_slice L_CSX v mi mc w kw mw S k in
  row_bases_of V (nval mw) (List.length mrv) CArr (kcls kw) i j =x=
    Fin (wsum S (fun r => in_arr mi mc (ans r v) i k && ok_el kw mw (ans r w) j)) /\
  column_bases_of V (nval mi) (List.length mrv) CArr (kcls kw) i j =x=
    Fin (wsum S (fun r => in_arr mi mc (ans r v) i k && in_el kw mw (ans r w) j)) /\
  table_bases_of V (nval mi) (nval mw) (List.length mrv) (List.length mrv) CArr (kcls kw) i j =x=
    Fin (wsum S (fun r => in_arr mi mc (ans r v) i k && ok_el kw mw (ans r w) j)).
Proof. exact (fun Hw Hk => csx_bases S v w kw mi mc mw k Hw Hk i j). Qed.
Print Assumptions C02_arr_x_other_bases.

(* CAT x ARR and MR x ARR (C X S): the mirror image *)
Theorem C02_other_x_arr_bases S v w kw mi mc mw k i j :
  cat_or_mr kw -> k < nval mc -> i < nval mw -> j < nval mi ->
  let V := ca_slice L_CXS v mi mc w kw mw S k in
  row_bases_of V (nval mi) (List.length mrv) (kcls kw) CArr i j =x=
    Fin (wsum S (fun r => in_arr mi mc (ans r v) j k && in_el kw mw (ans r w) i)) /\
  column_bases_of V (nval mw) (List.length mrv) (kcls kw) CArr i j =x=
    Fin (wsum S (fun r => in_arr mi mc (ans r v) j k && ok_el kw mw (ans r w) i)) /\
  table_bases_of V (nval mw) (nval mi) (List.length mrv) (List.length mrv) (kcls kw) CArr i j =x=
    Fin (wsum S (fun r => in_arr mi mc (ans r v) j k && ok_el kw mw (ans r w) i)).
Proof. exact (fun Hw Hk => cxs_bases S v w kw mi mc mw k Hw Hk i j). Qed.
Print Assumptions C02_other_x_arr_bases.

(* the array's items are the table dimension (S C X / S X C): the Cat / MR class pairs of the
   table of item k; eligibility on the array side is "valid on item k" *)
Theorem C02_array_item_tables_bases S v w kw mi mc mw k c j :
  cat_or_mr kw -> k < nval mi -> c < nval mc -> j < nval mw ->
  (let V := ca_slice L_SCX v mi mc w kw mw S k in
   row_bases_of V (nval mw) (List.length mrv) CCat (kcls kw) c j =x=
     Fin (wsum S (fun r => in_arr mi mc (ans r v) k c && ok_el kw mw (ans r w) j)) /\
   column_bases_of V (nval mc) (List.length mrv) CCat (kcls kw) c j =x=
     Fin (wsum S (fun r => ok_arr mi mc (ans r v) k && in_el kw mw (ans r w) j)) /\
   table_bases_of V (nval mc) (nval mw) (List.length mrv) (List.length mrv) CCat (kcls kw) c j =x=
     Fin (wsum S (fun r => ok_arr mi mc (ans r v) k && ok_el kw mw (ans r w) j))) /\
  (let V := ca_slice L_SXC v mi mc w kw mw S k in
   row_bases_of V (nval mc) (List.length mrv) (kcls kw) CCat j c =x=
     Fin (wsum S (fun r => in_el kw mw (ans r w) j && ok_arr mi mc (ans r v) k)) /\
   column_bases_of V (nval mw) (List.length mrv) (kcls kw) CCat j c =x=
     Fin (wsum S (fun r => ok_el kw mw (ans r w) j && in_arr mi mc (ans r v) k c)) /\
   table_bases_of V (nval mw) (nval mc) (List.length mrv) (List.length mrv) (kcls kw) CCat j c =x=
     Fin (wsum S (fun r => ok_el kw mw (ans r w) j && ok_arr mi mc (ans r v) k))).
Proof.
  exact (fun Hw Hk Hc Hj => conj (scx_bases S v w kw mi mc mw k c j Hw Hk Hc Hj)
                                 (sxc_bases S v w kw mi mc mw k j c Hw Hk Hj Hc)).
Qed.
Print Assumptions C02_array_item_tables_bases.

(* unweighted twins (head counts) for the two array families *)
Theorem C02_arr_x_cat_unweighted_bases S l v w kw mi mc mw k sr sc i c :
  cat_or_mr kw -> k < lay_nt l mi mc mw -> rows_items l -> i < nval mi -> c < nval mc ->
  let V := ca_slice l v mi mc w kw mw (unit_weights S) k in
  row_bases_of V (nval mc) sc CArr CCat i c =x=
    Fin (inject_Z (Z.of_nat (List.length (filter
          (fun r => lay_pop l kw mw (ans r w) k && ok_arr mi mc (ans r v) i) S)))) /\
  column_bases_of V (nval mi) sr CArr CCat i c =x=
    Fin (inject_Z (Z.of_nat (List.length (filter
          (fun r => lay_pop l kw mw (ans r w) k && in_arr mi mc (ans r v) i c) S)))) /\
  table_bases_of V (nval mi) (nval mc) sr sc CArr CCat i c =x=
    Fin (inject_Z (Z.of_nat (List.length (filter
          (fun r => lay_pop l kw mw (ans r w) k && ok_arr mi mc (ans r v) i) S)))).
Proof. exact (arr_rows_bases_headcount S l v w kw mi mc mw k sr sc i c). Qed.
Print Assumptions C02_arr_x_cat_unweighted_bases.

Theorem C02_arr_x_other_unweighted_bases S v w kw mi mc mw k i j :
  cat_or_mr kw -> k < nval mc -> i < nval mi -> j < nval mw ->
  let V := ca_slice L_CSX v mi mc w kw mw (unit_weights S) k in
  row_bases_of V (nval mw) (List.length mrv) CArr (kcls kw) i j =x=
    Fin (inject_Z (Z.of_nat (List.length (filter
          (fun r => in_arr mi mc (ans r v) i k && ok_el kw mw (ans r w) j) S)))) /\
  column_bases_of V (nval mi) (List.length mrv) CArr (kcls kw) i j =x=
    Fin (inject_Z (Z.of_nat (List.length (filter
          (fun r => in_arr mi mc (ans r v) i k && in_el kw mw (ans r w) j) S)))) /\
  table_bases_of V (nval mi) (nval mw) (List.length mrv) (List.length mrv) CArr (kcls kw) i j =x=
    Fin (inject_Z (Z.of_nat (List.length (filter
          (fun r => in_arr mi mc (ans r v) i k && ok_el kw mw (ans r w) j) S)))).
Proof. exact (csx_bases_headcount S v w kw mi mc mw k i j). Qed.
Print Assumptions C02_arr_x_other_unweighted_bases.

(* a count never exceeds its bases (non-negative weights) *)
Theorem C02_arr_x_cat_count_le_bases S l v w kw mi mc mw k sr sc i c :
  wf_survey S -> cat_or_mr kw -> k < lay_nt l mi mc mw -> rows_items l -> i < nval mi -> c < nval mc ->
  let V := ca_slice l v mi mc w kw mw S k in
  exists n rb cb tb,
    counts_of V CArr CCat i c =x= Fin n /\
    row_bases_of V (nval mc) sc CArr CCat i c =x= Fin rb /\
    column_bases_of V (nval mi) sr CArr CCat i c =x= Fin cb /\
    table_bases_of V (nval mi) (nval mc) sr sc CArr CCat i c =x= Fin tb /\
    (n <= rb)%Q /\ (n <= cb)%Q /\ (n <= tb)%Q.
Proof. exact (arr_rows_count_le_bases S l v w kw mi mc mw k sr sc i c). Qed.
Print Assumptions C02_arr_x_cat_count_le_bases.

Theorem C02_cat_x_arr_count_le_bases S l v w kw mi mc mw k sr sc c i :
  wf_survey S -> cat_or_mr kw -> k < lay_nt l mi mc mw -> cols_items l -> c < nval mc -> i < nval mi ->
  let V := ca_slice l v mi mc w kw mw S k in
  exists n rb cb tb,
    counts_of V CCat CArr c i =x= Fin n /\
    row_bases_of V (nval mi) sc CCat CArr c i =x= Fin rb /\
    column_bases_of V (nval mc) sr CCat CArr c i =x= Fin cb /\
    table_bases_of V (nval mc) (nval mi) sr sc CCat CArr c i =x= Fin tb /\
    (n <= rb)%Q /\ (n <= cb)%Q /\ (n <= tb)%Q.
Proof. exact (arr_cols_count_le_bases S l v w kw mi mc mw k sr sc c i). Qed.
Print Assumptions C02_cat_x_arr_count_le_bases.

Theorem C02_arr_x_other_count_le_bases S v w kw mi mc mw k i j :
  wf_survey S -> cat_or_mr kw -> k < nval mc -> i < nval mi -> j < nval mw ->
  let V := ca_slice L_CSX v mi mc w kw mw S k in
  exists n rb cb tb,
    counts_of V CArr (kcls kw) i j =x= Fin n /\
    row_bases_of V (nval mw) (List.length mrv) CArr (kcls kw) i j =x= Fin rb /\
    column_bases_of V (nval mi) (List.length mrv) CArr (kcls kw) i j =x= Fin cb /\
    table_bases_of V (nval mi) (nval mw) (List.length mrv) (List.length mrv) CArr (kcls kw) i j =x= Fin tb /\
    (n <= rb)%Q /\ (n <= cb)%Q /\ (n <= tb)%Q.
Proof. exact (csx_count_le_bases S v w kw mi mc mw k i j). Qed.
Print Assumptions C02_arr_x_other_count_le_bases.

Theorem C02_other_x_arr_count_le_bases S v w kw mi mc mw k i j :
  wf_survey S -> cat_or_mr kw -> k < nval mc -> i < nval mw -> j < nval mi ->
  let V := ca_slice L_CXS v mi mc w kw mw S k in
  exists n rb cb tb,
    counts_of V (kcls kw) CArr i j =x= Fin n /\
    row_bases_of V (nval mi) (List.length mrv) (kcls kw) CArr i j =x= Fin rb /\
    column_bases_of V (nval mw) (List.length mrv) (kcls kw) CArr i j =x= Fin cb /\
    table_bases_of V (nval mw) (nval mi) (List.length mrv) (List.length mrv) (kcls kw) CArr i j =x= Fin tb /\
    (n <= rb)%Q /\ (n <= cb)%Q /\ (n <= tb)%Q.
Proof. exact (cxs_count_le_bases S v w kw mi mc mw k i j). Qed.
Print Assumptions C02_other_x_arr_count_le_bases.

(* WHICH MARGINS EXIST across an array (any tensor): Arr x Cat has the rows margin (= rows
   table base) only, Cat x Arr the columns margin only, Arr x Mr / Mr x Arr / Arr x Arr none;
   never a scalar table base *)
Theorem C02_array_margins_defined V nr nc sr sc :
  (rows_base_of V nc CArr CCat = Some (ac_rows_base V nc) /\
   rows_table_base_of V nr nc sr CArr CCat = Some (ac_rows_base V nc) /\
   columns_base_of V nr CArr CCat = None /\ columns_table_base_of V nr nc sc CArr CCat = None /\
   table_base_of V nr nc CArr CCat = None) /\
  (columns_base_of V nr CCat CArr = Some (ca_columns_base V nr) /\
   columns_table_base_of V nr nc sc CCat CArr = Some (ca_columns_base V nr) /\
   rows_base_of V nc CCat CArr = None /\ rows_table_base_of V nr nc sr CCat CArr = None /\
   table_base_of V nr nc CCat CArr = None) /\
  (forall rc cc, (rc, cc) = (CArr, CMr) \/ (rc, cc) = (CMr, CArr) \/ (rc, cc) = (CArr, CArr) ->
     rows_base_of V nc rc cc = None /\ columns_base_of V nr rc cc = None /\
     rows_table_base_of V nr nc sr rc cc = None /\ columns_table_base_of V nr nc sc rc cc = None /\
     table_base_of V nr nc rc cc = None).
Proof. exact (arr_margins_defined V nr nc sr sc). Qed.
Print Assumptions C02_array_margins_defined.

(* ... and what the public API (cubepart.py) then hands out: the 2-D fall-backs wherever the
   opposing dimension is not categorical; for Arr x Cat / Cat x Arr the table base is the one
   existing margin, as a vector *)
Theorem C02_array_public_margins ds data k so si :
  slice_counts ds data k = Some so -> slice_info_of ds = Some si ->
  let rc := cls_of (si_row si) in
  let cc := cls_of (si_col si) in
  so_table_base so = table_base_of (slice_tensor ds data si k) (nvalid (si_row si)) (nvalid (si_col si)) rc cc /\
  (cc <> CCat -> public_rows_margin so = PMatrix (so_row_bases so)) /\
  (rc <> CCat -> public_columns_margin so = PMatrix (so_column_bases so)) /\
  (rc <> CCat -> cc <> CCat -> public_table_base so = PMatrix (so_table_bases so)) /\
  (rc = CArr -> cc = CCat ->
     exists vct, so_rows_base so = Some vct /\ public_rows_margin so = PVector vct /\
                 public_table_base so = PVector vct) /\
  (rc = CCat -> cc = CArr ->
     exists vct, so_columns_base so = Some vct /\ public_columns_margin so = PVector vct /\
                 public_table_base so = PVector vct).
Proof. exact (arr_public_margins ds data k so si). Qed.
Print Assumptions C02_array_public_margins.

(* the survey-level value of the margins that exist: one number per item = valid on it *)
Theorem C02_arr_x_cat_rows_margin S l v w kw mi mc mw k sr sc i :
  cat_or_mr kw -> k < lay_nt l mi mc mw -> rows_items l -> i < nval mi ->
  let V := ca_slice l v mi mc w kw mw S k in
  exists f, rows_base_of V (nval mc) CArr CCat = Some f /\
    rows_table_base_of V (nval mi) (nval mc) sr CArr CCat = Some f /\
    f i =x= Fin (wsum S (fun r => lay_pop l kw mw (ans r w) k && ok_arr mi mc (ans r v) i)) /\
    columns_base_of V (nval mi) CArr CCat = None /\
    columns_table_base_of V (nval mi) (nval mc) sc CArr CCat = None /\
    table_base_of V (nval mi) (nval mc) CArr CCat = None.
Proof. exact (fun Hw Hk => arr_rows_margin S l v w kw mi mc mw k Hw Hk sr sc i). Qed.
Print Assumptions C02_arr_x_cat_rows_margin.

Theorem C02_cat_x_arr_columns_margin S l v w kw mi mc mw k sr sc i :
  cat_or_mr kw -> k < lay_nt l mi mc mw -> cols_items l -> i < nval mi ->
  let V := ca_slice l v mi mc w kw mw S k in
  exists f, columns_base_of V (nval mc) CCat CArr = Some f /\
    columns_table_base_of V (nval mc) (nval mi) sc CCat CArr = Some f /\
    f i =x= Fin (wsum S (fun r => lay_pop l kw mw (ans r w) k && ok_arr mi mc (ans r v) i)) /\
    rows_base_of V (nval mi) CCat CArr = None /\
    rows_table_base_of V (nval mc) (nval mi) sr CCat CArr = None /\
    table_base_of V (nval mc) (nval mi) CCat CArr = None.
Proof. exact (fun Hw Hk => arr_cols_margin S l v w kw mi mc mw k Hw Hk sr sc i). Qed.
Print Assumptions C02_cat_x_arr_columns_margin.

(* table of category k against a CATEGORICAL X: per item, gave k on it and valid on X *)
Theorem C02_arr_x_other_margins S v w mi mc mw k i :
  k < nval mc -> i < nval mi ->
  (let V := ca_slice L_CSX v mi mc w KCat mw S k in
   exists f, rows_base_of V (nval mw) CArr CCat = Some f /\
     rows_table_base_of V (nval mi) (nval mw) (List.length mrv) CArr CCat = Some f /\
     f i =x= Fin (wsum S (fun r => in_arr mi mc (ans r v) i k && ok_cat mw (ans r w)))) /\
  (let V := ca_slice L_CXS v mi mc w KCat mw S k in
   exists f, columns_base_of V (nval mw) CCat CArr = Some f /\
     columns_table_base_of V (nval mw) (nval mi) (List.length mrv) CCat CArr = Some f /\
     f i =x= Fin (wsum S (fun r => in_arr mi mc (ans r v) i k && ok_cat mw (ans r w)))).
Proof.
  exact (fun Hk Hi => conj (csx_margin S v w mi mc mw k i Hk Hi) (cxs_margin S v w mi mc mw k i Hk Hi)).
Qed.
Print Assumptions C02_arr_x_other_margins.

(* tables of item k: the margin across the array's categories always exists; the scalar
   table base when X is categorical: valid on item k and on X *)
Theorem C02_array_item_tables_margins S v w kw mi mc mw k j :
  cat_or_mr kw -> k < nval mi -> j < nval mw ->
  (exists f, columns_base_of (ca_slice L_SCX v mi mc w kw mw S k) (nval mc) CCat (kcls kw) = Some f /\
     f j =x= Fin (wsum S (fun r => ok_arr mi mc (ans r v) k && in_el kw mw (ans r w) j))) /\
  (exists f, rows_base_of (ca_slice L_SXC v mi mc w kw mw S k) (nval mc) (kcls kw) CCat = Some f /\
     f j =x= Fin (wsum S (fun r => in_el kw mw (ans r w) j && ok_arr mi mc (ans r v) k))).
Proof.
  exact (fun Hw Hk Hj => conj (scx_columns_margin S v w kw mi mc mw k j Hw Hk Hj)
                              (sxc_rows_margin S v w kw mi mc mw k j Hw Hk Hj)).
Qed.
Print Assumptions C02_array_item_tables_margins.

Theorem C02_array_item_table_base_scalar S v w mi mc mw k :
  k < nval mi ->
  exists x, table_base_of (ca_slice L_SCX v mi mc w KCat mw S k) (nval mc) (nval mw) CCat CCat = Some x /\
    x =x= Fin (wsum S (fun r => ok_arr mi mc (ans r v) k && ok_cat mw (ans r w))).
Proof. exact (scx_table_base_scalar S v w mi mc mw k). Qed.
Print Assumptions C02_array_item_table_base_scalar.

(* ARR x ARR: see Props/C01.v (C01_arr_x_arr_counts_partial, C01_arr_x_arr_needs_four_dimensions):
   no response of at most three dimensions reaches the class; for any slice tensor with the
   two-array meaning all three bases equal the count (stated there with the counts). *)

(* Non-vacuity: the survey of C01_array_example (2 items x 3 categories, the MIDDLE category
   missing; respondent 2 gave the missing category on item 0, respondent 1 on item 1,
   respondent 4 did not answer item 1 and is missing on MR item 0), cut by [slice_counts]:
   (a) the array alone: row base = valid on the item (19/4, 27/4 -- NOT the same for both
   items), column base = count, rows margin exists, no columns margin, no scalar;
   (b) categories x items x MR, table of the last category: row base adds selected + other on
   THAT MR item (13/2 for item 1), column base = count, no margin at all;
   (c) categories x MR x items: the mirror image;
   (d) categorical x items x categories, table 1. *)
Example C02_array_example :
  let S := [ mkResp [AArr [0; 2]; ACat 0; AMr [Sel; Oth]] (3 # 2);
             mkResp [AArr [2; 1]; ACat 1; AMr [Sel; Mis]] 2;
             mkResp [AArr [1; 2]; ACat 0; AMr [Oth; Sel]] 5;
             mkResp [AArr [0; 0]; ACat 1; AMr [Sel; Sel]] (1 # 4);
             mkResp [AArr [2];    ACat 2; AMr [Mis; Sel]] 1 ] in
  let mi := [false; false] in
  let mc := [false; true; false] in
  let mwc := [false; false; true] in
  let mwm := [false; false] in
  let run l w kw mw k :=
    let ds := lay_dims l mi mc kw mw in
    option_map (fun so => (map (map xred) (so_row_bases so), map (map xred) (so_column_bases so),
                           map (map xred) (so_table_bases so),
                           option_map (map xred) (so_rows_base so),
                           option_map (map xred) (so_columns_base so), so_table_base so))
               (slice_counts ds (flatten (raw_shape ds) (ca_raw l 0 w kw S)) k) in
  cat_or_mr KCat /\ cat_or_mr KMr /\ wf_survey S /\
  nval mi = 2 /\ nval mc = 2 /\ nval mwc = 2 /\ nval mwm = 2 /\
  rows_items L_SC /\ rows_items L_XSC /\ cols_items L_CS /\
  0 < lay_nt L_SC mi mc mwc /\ 1 < lay_nt L_XSC mi mc mwc /\
  run L_SC 1 KCat mwc 0 =
    Some ([[Fin (19 # 4); Fin (19 # 4)]; [Fin (27 # 4); Fin (27 # 4)]],
          [[Fin (7 # 4); Fin 3]; [Fin (1 # 4); Fin (13 # 2)]],
          [[Fin (19 # 4); Fin (19 # 4)]; [Fin (27 # 4); Fin (27 # 4)]],
          Some [Fin (19 # 4); Fin (27 # 4)], None, None) /\
  run L_CSX 2 KMr mwm 1 =
    Some ([[Fin 2; Fin 1]; [Fin (13 # 2); Fin (13 # 2)]],
          [[Fin 2; Fin 1]; [Fin (3 # 2); Fin 5]],
          [[Fin 2; Fin 1]; [Fin (13 # 2); Fin (13 # 2)]], None, None, None) /\
  run L_CXS 2 KMr mwm 1 =
    Some ([[Fin 2; Fin (3 # 2)]; [Fin 1; Fin 5]],
          [[Fin 2; Fin (13 # 2)]; [Fin 1; Fin (13 # 2)]],
          [[Fin 2; Fin (13 # 2)]; [Fin 1; Fin (13 # 2)]], None, None, None) /\
  run L_XSC 1 KCat mwc 1 =
    Some ([[Fin (9 # 4); Fin (9 # 4)]; [Fin (1 # 4); Fin (1 # 4)]],
          [[Fin (1 # 4); Fin 2]; [Fin (1 # 4); Fin 0]],
          [[Fin (9 # 4); Fin (9 # 4)]; [Fin (1 # 4); Fin (1 # 4)]],
          Some [Fin (9 # 4); Fin (1 # 4)], None, None) /\
  option_map (fun so => (public_columns_margin so, public_table_base so))
             (slice_counts (lay_dims L_CSX mi mc KMr mwm)
                (flatten (raw_shape (lay_dims L_CSX mi mc KMr mwm)) (ca_raw L_CSX 0 2 KMr S)) 1)
    = option_map (fun so => (PMatrix (so_column_bases so), PMatrix (so_table_bases so)))
             (slice_counts (lay_dims L_CSX mi mc KMr mwm)
                (flatten (raw_shape (lay_dims L_CSX mi mc KMr mwm)) (ca_raw L_CSX 0 2 KMr S)) 1) /\
  (wsum S (fun r => ok_arr mi mc (ans r 0) 0) == 19 # 4)%Q /\
  (wsum S (fun r => ok_arr mi mc (ans r 0) 1) == 27 # 4)%Q /\
  (wsum S (fun r => in_arr mi mc (ans r 0) 1 1 && ok_el KMr mwm (ans r 2) 0) == 13 # 2)%Q.
Proof.
  cbv zeta. repeat split; try (left; reflexivity); try (right; reflexivity);
    try lia; try (repeat constructor; discriminate); try (vm_compute; reflexivity).
Qed.

(* COMPOSED, FROM THE FLAT PAYLOAD (Proofs/ArrayPayloadProofs.v): [ca_payload l ..] is the
   row-major payload of the survey's cube laid out as l, [slice_counts] the function the
   correspondence check evaluates on the JSON payload.  For every survey, every position of
   missing items / categories, X categorical or MR and every partition k, each cell of the four
   matrices it returns is the respondent-level number -- one theorem from the payload to the
   survey, counts and bases together. *)
From CC Require Import Proofs.ArrayPayloadProofs.

(* ARR x CAT: the array alone (L_SC) or under a table variable (L_XSC) *)
Theorem C02_arr_x_cat_from_payload S l v w kw mi mc mw k :
  cat_or_mr kw -> k < lay_nt l mi mc mw -> rows_items l ->
  exists so, slice_counts (lay_dims l mi mc kw mw) (ca_payload l v mi mc w kw mw S) k = Some so /\
    forall i c, i < nval mi -> c < nval mc ->
      mnth (so_counts so) i c =x=
        Fin (wsum S (fun r => lay_pop l kw mw (ans r w) k && in_arr mi mc (ans r v) i c)) /\
      mnth (so_row_bases so) i c =x=
        Fin (wsum S (fun r => lay_pop l kw mw (ans r w) k && ok_arr mi mc (ans r v) i)) /\
      mnth (so_column_bases so) i c =x=
        Fin (wsum S (fun r => lay_pop l kw mw (ans r w) k && in_arr mi mc (ans r v) i c)) /\
      mnth (so_table_bases so) i c =x=
        Fin (wsum S (fun r => lay_pop l kw mw (ans r w) k && ok_arr mi mc (ans r v) i)).
Proof. exact (arr_rows_from_payload S l v w kw mi mc mw k). Qed.
Print Assumptions C02_arr_x_cat_from_payload.

(* CAT x ARR (L_CS, L_XCS) *)
Theorem C02_cat_x_arr_from_payload S l v w kw mi mc mw k :
  cat_or_mr kw -> k < lay_nt l mi mc mw -> cols_items l ->
  exists so, slice_counts (lay_dims l mi mc kw mw) (ca_payload l v mi mc w kw mw S) k = Some so /\
    forall c i, c < nval mc -> i < nval mi ->
      mnth (so_counts so) c i =x=
        Fin (wsum S (fun r => lay_pop l kw mw (ans r w) k && in_arr mi mc (ans r v) i c)) /\
      mnth (so_row_bases so) c i =x=
        Fin (wsum S (fun r => lay_pop l kw mw (ans r w) k && in_arr mi mc (ans r v) i c)) /\
      mnth (so_column_bases so) c i =x=
        Fin (wsum S (fun r => lay_pop l kw mw (ans r w) k && ok_arr mi mc (ans r v) i)) /\
      mnth (so_table_bases so) c i =x=
        Fin (wsum S (fun r => lay_pop l kw mw (ans r w) k && ok_arr mi mc (ans r v) i)).
Proof. exact (arr_cols_from_payload S l v w kw mi mc mw k). Qed.
Print Assumptions C02_cat_x_arr_from_payload.

(* ARR x CAT / ARR x MR: categories x items x X, the table of category k *)
Theorem C02_arr_x_other_from_payload S v w kw mi mc mw k :
  cat_or_mr kw -> k < nval mc ->
  exists so, slice_counts (lay_dims L_CSX mi mc kw mw) (ca_payload L_CSX v mi mc w kw mw S) k = Some so /\
    forall i j, i < nval mi -> j < nval mw ->
      mnth (so_counts so) i j =x=
        Fin (wsum S (fun r => in_arr mi mc (ans r v) i k && in_el kw mw (ans r w) j)) /\
      mnth (so_row_bases so) i j =x=
        Fin (wsum S (fun r => in_arr mi mc (ans r v) i k && ok_el kw mw (ans r w) j)) /\
      mnth (so_column_bases so) i j =x=
        Fin (wsum S (fun r => in_arr mi mc (ans r v) i k && in_el kw mw (ans r w) j)) /\
      mnth (so_table_bases so) i j =x=
        Fin (wsum S (fun r => in_arr mi mc (ans r v) i k && ok_el kw mw (ans r w) j)).
Proof. exact (csx_from_payload S v w kw mi mc mw k). Qed.
Print Assumptions C02_arr_x_other_from_payload.

(* CAT x ARR / MR x ARR: categories x X x items *)
Theorem C02_other_x_arr_from_payload S v w kw mi mc mw k :
  cat_or_mr kw -> k < nval mc ->
  exists so, slice_counts (lay_dims L_CXS mi mc kw mw) (ca_payload L_CXS v mi mc w kw mw S) k = Some so /\
    forall i j, i < nval mw -> j < nval mi ->
      mnth (so_counts so) i j =x=
        Fin (wsum S (fun r => in_arr mi mc (ans r v) j k && in_el kw mw (ans r w) i)) /\
      mnth (so_row_bases so) i j =x=
        Fin (wsum S (fun r => in_arr mi mc (ans r v) j k && in_el kw mw (ans r w) i)) /\
      mnth (so_column_bases so) i j =x=
        Fin (wsum S (fun r => in_arr mi mc (ans r v) j k && ok_el kw mw (ans r w) i)) /\
      mnth (so_table_bases so) i j =x=
        Fin (wsum S (fun r => in_arr mi mc (ans r v) j k && ok_el kw mw (ans r w) i)).
Proof. exact (cxs_from_payload S v w kw mi mc mw k). Qed.
Print Assumptions C02_other_x_arr_from_payload.

(* the tables of item k: items x categories x X and items x X x categories *)
Theorem C02_array_item_tables_from_payload S v w kw mi mc mw k :
  cat_or_mr kw -> k < nval mi ->
  (exists so, slice_counts (lay_dims L_SCX mi mc kw mw) (ca_payload L_SCX v mi mc w kw mw S) k = Some so /\
    forall c j, c < nval mc -> j < nval mw ->
      mnth (so_counts so) c j =x=
        Fin (wsum S (fun r => in_arr mi mc (ans r v) k c && in_el kw mw (ans r w) j)) /\
      mnth (so_row_bases so) c j =x=
        Fin (wsum S (fun r => in_arr mi mc (ans r v) k c && ok_el kw mw (ans r w) j)) /\
      mnth (so_column_bases so) c j =x=
        Fin (wsum S (fun r => ok_arr mi mc (ans r v) k && in_el kw mw (ans r w) j)) /\
      mnth (so_table_bases so) c j =x=
        Fin (wsum S (fun r => ok_arr mi mc (ans r v) k && ok_el kw mw (ans r w) j))) /\
  (exists so, slice_counts (lay_dims L_SXC mi mc kw mw) (ca_payload L_SXC v mi mc w kw mw S) k = Some so /\
    forall j c, j < nval mw -> c < nval mc ->
      mnth (so_counts so) j c =x=
        Fin (wsum S (fun r => in_el kw mw (ans r w) j && in_arr mi mc (ans r v) k c)) /\
      mnth (so_row_bases so) j c =x=
        Fin (wsum S (fun r => in_el kw mw (ans r w) j && ok_arr mi mc (ans r v) k)) /\
      mnth (so_column_bases so) j c =x=
        Fin (wsum S (fun r => ok_el kw mw (ans r w) j && in_arr mi mc (ans r v) k c)) /\
      mnth (so_table_bases so) j c =x=
        Fin (wsum S (fun r => ok_el kw mw (ans r w) j && ok_arr mi mc (ans r v) k))).
Proof.
  exact (fun Hw Hk => conj (scx_from_payload S v w kw mi mc mw k Hw Hk)
                           (sxc_from_payload S v w kw mi mc mw k Hw Hk)).
Qed.
Print Assumptions C02_array_item_tables_from_payload.


(* ---- BASES-APPENDIX:BEGIN (generated by tools/gen_bases_lemmas.py; do not edit) ---- *)
(* ==== GenAgree (base measures and marginals): what matrix/measure.py, stripe/measure.py and
   min_base_size_mask.py SAY NOW ==== *)
(* Appended by tools/gen_bases_lemmas.py (statements generated from the lemmas of Proofs/GenAgreeBaseBlocks.v and
   Proofs/GenAgreeMargins.v by tools/gen_bases_lemmas.py).  Gen/BasesSrc.v, Gen/StripeBasesSrc.v,
   Gen/MaskSrc.v are rewritten from the source on every check by harness/translate/x_bases.py; [beval]
   (Base/BasesExp.v: numpy values with numeric shapes, integer indexing in range, np.broadcast_to) is the
   meaning of a translated member; [None] = the translator could not read the member.  [benv_std]
   reads a cube-measure array from [cubem] by name and gives a recorded SumSubtotals call the meaning
   [strat_std], which C04_gen_SumSubtotals proves matrix/subtotals.py denotes.  The four blocks of the
   seven 2-D base measures ARE [col_base_blocks] / [row_base_blocks] / [table_base_blocks]
   (Model/Proportions.v: the denominators of C03 / C11 / C04 / C10) resp. [col_ubase_blocks] /
   [row_ubase_blocks] (Model/BaseBlocks.v), for ALL sizes, subtotal lists and arrays, under the index
   hypotheses numpy needs (x[0] of an empty axis raises). *)
From Coq Require String.
From CC Require Base.BasesExp Model.Subtotals Model.Proportions Model.BaseBlocks Model.MinBaseMask
     Gen.BasesSrc Gen.StripeBasesSrc Gen.MaskSrc Proofs.GenAgreeMeasTac Proofs.GenAgreeBasesTac
     Proofs.GenAgreeBaseBlocks Proofs.GenAgreeMargins Proofs.BaseBlocksProofs.
Section GenAgreeBases_C02.   (* scopes and imports below end with the section *)
Import Coq.Strings.String CC.Base.BasesExp CC.Model.Subtotals CC.Model.Proportions CC.Model.BaseBlocks
       CC.Gen.BasesSrc CC.Gen.StripeBasesSrc CC.Gen.MaskSrc CC.Proofs.GenAgreeMeasTac
       CC.Proofs.GenAgreeBasesTac CC.Proofs.GenAgreeBaseBlocks CC.Proofs.GenAgreeMargins
       CC.Proofs.BaseBlocksProofs.
Import Coq.Lists.List.ListNotations CC.Base.XQ CC.Base.ListX CC.Model.CubeCounts.
Local Close Scope Q_scope.
Local Open Scope string_scope.
Local Open Scope nat_scope.

(* SecondOrderMeasures.<ColumnUnweightedBases>.blocks: [0][0], [0][1], [1][0], [1][1] *)
Theorem C02_gen_ColumnUnweightedBases :
  (match src_ColumnUnweightedBases_blocks_00 with
  | Some e => forall nr nc rsubs csubs cubem cubeflag blk mblk mflag colbase,
      bagrees_mat (beval (benv_std nr nc rsubs csubs cubem (cv1 "unweighted_cube_counts" "columns_base" (WVec nc (vnth colbase))) cubeflag blk mblk mflag) e) nr nc
        (mnth (b_base (col_ubase_blocks nr nc rsubs csubs (cubem "unweighted_cube_counts" "column_bases") colbase)))
  | None => True
  end) /\
  (match src_ColumnUnweightedBases_blocks_01 with
  | Some e => forall nr nc rsubs csubs cubem cubeflag blk mblk mflag colbase,
      bagrees_mat (beval (benv_std nr nc rsubs csubs cubem (cv1 "unweighted_cube_counts" "columns_base" (WVec nc (vnth colbase))) cubeflag blk mblk mflag) e) nr (List.length csubs)
        (mnth (b_cols (col_ubase_blocks nr nc rsubs csubs (cubem "unweighted_cube_counts" "column_bases") colbase)))
  | None => True
  end) /\
  (match src_ColumnUnweightedBases_blocks_10 with
  | Some e => forall nr nc rsubs csubs cubem cubeflag blk mblk mflag colbase,
      bagrees_mat (beval (benv_std nr nc rsubs csubs cubem (cv1 "unweighted_cube_counts" "columns_base" (WVec nc (vnth colbase))) cubeflag blk mblk mflag) e) (List.length rsubs) nc
        (mnth (b_rows (col_ubase_blocks nr nc rsubs csubs (cubem "unweighted_cube_counts" "column_bases") colbase)))
  | None => True
  end) /\
  (match src_ColumnUnweightedBases_blocks_11 with
  | Some e => forall nr nc rsubs csubs cubem cubeflag blk mblk mflag colbase,
      0 < nr ->
      bagrees_mat (beval (benv_std nr nc rsubs csubs cubem (cv1 "unweighted_cube_counts" "columns_base" (WVec nc (vnth colbase))) cubeflag blk mblk mflag) e) (List.length rsubs) (List.length csubs)
        (mnth (b_inter (col_ubase_blocks nr nc rsubs csubs (cubem "unweighted_cube_counts" "column_bases") colbase)))
  | None => True
  end).
Proof. exact (conj gen_ColumnUnweightedBases_blocks_00 (conj gen_ColumnUnweightedBases_blocks_01 (conj gen_ColumnUnweightedBases_blocks_10 gen_ColumnUnweightedBases_blocks_11))). Qed.
Print Assumptions C02_gen_ColumnUnweightedBases.

(* SecondOrderMeasures.<ColumnWeightedBases>.blocks: [0][0], [0][1], [1][0], [1][1] *)
Theorem C02_gen_ColumnWeightedBases :
  (match src_ColumnWeightedBases_blocks_00 with
  | Some e => forall nr nc rsubs csubs cubem cubeflag blk mblk mflag,
      bagrees_mat (beval (benv_std nr nc rsubs csubs cubem cv0 cubeflag blk mblk mflag) e) nr nc
        (mnth (b_base (col_base_blocks nr nc rsubs csubs (cubem "weighted_cube_counts" "column_bases"))))
  | None => True
  end) /\
  (match src_ColumnWeightedBases_blocks_01 with
  | Some e => forall nr nc rsubs csubs cubem cubeflag blk mblk mflag,
      bagrees_mat (beval (benv_std nr nc rsubs csubs cubem cv0 cubeflag blk mblk mflag) e) nr (List.length csubs)
        (mnth (b_cols (col_base_blocks nr nc rsubs csubs (cubem "weighted_cube_counts" "column_bases"))))
  | None => True
  end) /\
  (match src_ColumnWeightedBases_blocks_10 with
  | Some e => forall nr nc rsubs csubs cubem cubeflag blk mblk mflag,
      (0 < List.length rsubs -> 0 < nr) ->
      bagrees_mat (beval (benv_std nr nc rsubs csubs cubem cv0 cubeflag blk mblk mflag) e) (List.length rsubs) nc
        (mnth (b_rows (col_base_blocks nr nc rsubs csubs (cubem "weighted_cube_counts" "column_bases"))))
  | None => True
  end) /\
  (match src_ColumnWeightedBases_blocks_11 with
  | Some e => forall nr nc rsubs csubs cubem cubeflag blk mblk mflag,
      0 < nr ->
      bagrees_mat (beval (benv_std nr nc rsubs csubs cubem cv0 cubeflag blk mblk mflag) e) (List.length rsubs) (List.length csubs)
        (mnth (b_inter (col_base_blocks nr nc rsubs csubs (cubem "weighted_cube_counts" "column_bases"))))
  | None => True
  end).
Proof. exact (conj gen_ColumnWeightedBases_blocks_00 (conj gen_ColumnWeightedBases_blocks_01 (conj gen_ColumnWeightedBases_blocks_10 gen_ColumnWeightedBases_blocks_11))). Qed.
Print Assumptions C02_gen_ColumnWeightedBases.

(* SecondOrderMeasures.<ColumnSquaredBases>.blocks: [0][0], [0][1], [1][0], [1][1] *)
Theorem C02_gen_ColumnSquaredBases :
  (match src_ColumnSquaredBases_blocks_00 with
  | Some e => forall nr nc rsubs csubs cubem cubeflag blk mblk mflag,
      bagrees_mat (beval (benv_std nr nc rsubs csubs cubem cv0 cubeflag blk mblk mflag) e) nr nc
        (mnth (b_base (col_base_blocks nr nc rsubs csubs (cubem "weighted_squared_cube_counts" "column_bases"))))
  | None => True
  end) /\
  (match src_ColumnSquaredBases_blocks_01 with
  | Some e => forall nr nc rsubs csubs cubem cubeflag blk mblk mflag,
      bagrees_mat (beval (benv_std nr nc rsubs csubs cubem cv0 cubeflag blk mblk mflag) e) nr (List.length csubs)
        (mnth (b_cols (col_base_blocks nr nc rsubs csubs (cubem "weighted_squared_cube_counts" "column_bases"))))
  | None => True
  end) /\
  (match src_ColumnSquaredBases_blocks_10 with
  | Some e => forall nr nc rsubs csubs cubem cubeflag blk mblk mflag,
      (0 < List.length rsubs -> 0 < nr) ->
      bagrees_mat (beval (benv_std nr nc rsubs csubs cubem cv0 cubeflag blk mblk mflag) e) (List.length rsubs) nc
        (mnth (b_rows (col_base_blocks nr nc rsubs csubs (cubem "weighted_squared_cube_counts" "column_bases"))))
  | None => True
  end) /\
  (match src_ColumnSquaredBases_blocks_11 with
  | Some e => forall nr nc rsubs csubs cubem cubeflag blk mblk mflag,
      0 < nr ->
      bagrees_mat (beval (benv_std nr nc rsubs csubs cubem cv0 cubeflag blk mblk mflag) e) (List.length rsubs) (List.length csubs)
        (mnth (b_inter (col_base_blocks nr nc rsubs csubs (cubem "weighted_squared_cube_counts" "column_bases"))))
  | None => True
  end).
Proof. exact (conj gen_ColumnSquaredBases_blocks_00 (conj gen_ColumnSquaredBases_blocks_01 (conj gen_ColumnSquaredBases_blocks_10 gen_ColumnSquaredBases_blocks_11))). Qed.
Print Assumptions C02_gen_ColumnSquaredBases.

(* SecondOrderMeasures.<RowUnweightedBases>.blocks: [0][0], [0][1], [1][0], [1][1] *)
Theorem C02_gen_RowUnweightedBases :
  (match src_RowUnweightedBases_blocks_00 with
  | Some e => forall nr nc rsubs csubs cubem cubeflag blk mblk mflag rowbase,
      bagrees_mat (beval (benv_std nr nc rsubs csubs cubem (cv1 "unweighted_cube_counts" "rows_base" (WVec nr (vnth rowbase))) cubeflag blk mblk mflag) e) nr nc
        (mnth (b_base (row_ubase_blocks nr nc rsubs csubs (cubem "unweighted_cube_counts" "row_bases") rowbase)))
  | None => True
  end) /\
  (match src_RowUnweightedBases_blocks_01 with
  | Some e => forall nr nc rsubs csubs cubem cubeflag blk mblk mflag rowbase,
      bagrees_mat (beval (benv_std nr nc rsubs csubs cubem (cv1 "unweighted_cube_counts" "rows_base" (WVec nr (vnth rowbase))) cubeflag blk mblk mflag) e) nr (List.length csubs)
        (mnth (b_cols (row_ubase_blocks nr nc rsubs csubs (cubem "unweighted_cube_counts" "row_bases") rowbase)))
  | None => True
  end) /\
  (match src_RowUnweightedBases_blocks_10 with
  | Some e => forall nr nc rsubs csubs cubem cubeflag blk mblk mflag rowbase,
      bagrees_mat (beval (benv_std nr nc rsubs csubs cubem (cv1 "unweighted_cube_counts" "rows_base" (WVec nr (vnth rowbase))) cubeflag blk mblk mflag) e) (List.length rsubs) nc
        (mnth (b_rows (row_ubase_blocks nr nc rsubs csubs (cubem "unweighted_cube_counts" "row_bases") rowbase)))
  | None => True
  end) /\
  (match src_RowUnweightedBases_blocks_11 with
  | Some e => forall nr nc rsubs csubs cubem cubeflag blk mblk mflag rowbase,
      0 < nc ->
      bagrees_mat (beval (benv_std nr nc rsubs csubs cubem (cv1 "unweighted_cube_counts" "rows_base" (WVec nr (vnth rowbase))) cubeflag blk mblk mflag) e) (List.length rsubs) (List.length csubs)
        (mnth (b_inter (row_ubase_blocks nr nc rsubs csubs (cubem "unweighted_cube_counts" "row_bases") rowbase)))
  | None => True
  end).
Proof. exact (conj gen_RowUnweightedBases_blocks_00 (conj gen_RowUnweightedBases_blocks_01 (conj gen_RowUnweightedBases_blocks_10 gen_RowUnweightedBases_blocks_11))). Qed.
Print Assumptions C02_gen_RowUnweightedBases.

(* SecondOrderMeasures.<RowWeightedBases>.blocks: [0][0], [0][1], [1][0], [1][1] *)
Theorem C02_gen_RowWeightedBases :
  (match src_RowWeightedBases_blocks_00 with
  | Some e => forall nr nc rsubs csubs cubem cubeflag blk mblk mflag,
      bagrees_mat (beval (benv_std nr nc rsubs csubs cubem cv0 cubeflag blk mblk mflag) e) nr nc
        (mnth (b_base (row_base_blocks nr nc rsubs csubs (cubem "weighted_cube_counts" "row_bases"))))
  | None => True
  end) /\
  (match src_RowWeightedBases_blocks_01 with
  | Some e => forall nr nc rsubs csubs cubem cubeflag blk mblk mflag,
      (0 < List.length csubs -> 0 < nc) ->
      bagrees_mat (beval (benv_std nr nc rsubs csubs cubem cv0 cubeflag blk mblk mflag) e) nr (List.length csubs)
        (mnth (b_cols (row_base_blocks nr nc rsubs csubs (cubem "weighted_cube_counts" "row_bases"))))
  | None => True
  end) /\
  (match src_RowWeightedBases_blocks_10 with
  | Some e => forall nr nc rsubs csubs cubem cubeflag blk mblk mflag,
      bagrees_mat (beval (benv_std nr nc rsubs csubs cubem cv0 cubeflag blk mblk mflag) e) (List.length rsubs) nc
        (mnth (b_rows (row_base_blocks nr nc rsubs csubs (cubem "weighted_cube_counts" "row_bases"))))
  | None => True
  end) /\
  (match src_RowWeightedBases_blocks_11 with
  | Some e => forall nr nc rsubs csubs cubem cubeflag blk mblk mflag,
      0 < nc ->
      bagrees_mat (beval (benv_std nr nc rsubs csubs cubem cv0 cubeflag blk mblk mflag) e) (List.length rsubs) (List.length csubs)
        (mnth (b_inter (row_base_blocks nr nc rsubs csubs (cubem "weighted_cube_counts" "row_bases"))))
  | None => True
  end).
Proof. exact (conj gen_RowWeightedBases_blocks_00 (conj gen_RowWeightedBases_blocks_01 (conj gen_RowWeightedBases_blocks_10 gen_RowWeightedBases_blocks_11))). Qed.
Print Assumptions C02_gen_RowWeightedBases.

(* SecondOrderMeasures.<TableUnweightedBases>.blocks: [0][0], [0][1], [1][0], [1][1] *)
Theorem C02_gen_TableUnweightedBases :
  (match src_TableUnweightedBases_blocks_00 with
  | Some e => forall nr nc rsubs csubs cubem cubeflag blk mblk mflag,
      bagrees_mat (beval (benv_std nr nc rsubs csubs cubem cv0 cubeflag blk mblk mflag) e) nr nc
        (mnth (b_base (table_base_blocks nr nc rsubs csubs (cubem "unweighted_cube_counts" "table_bases"))))
  | None => True
  end) /\
  (match src_TableUnweightedBases_blocks_01 with
  | Some e => forall nr nc rsubs csubs cubem cubeflag blk mblk mflag,
      0 < nc ->
      bagrees_mat (beval (benv_std nr nc rsubs csubs cubem cv0 cubeflag blk mblk mflag) e) nr (List.length csubs)
        (mnth (b_cols (table_base_blocks nr nc rsubs csubs (cubem "unweighted_cube_counts" "table_bases"))))
  | None => True
  end) /\
  (match src_TableUnweightedBases_blocks_10 with
  | Some e => forall nr nc rsubs csubs cubem cubeflag blk mblk mflag,
      0 < nr ->
      bagrees_mat (beval (benv_std nr nc rsubs csubs cubem cv0 cubeflag blk mblk mflag) e) (List.length rsubs) nc
        (mnth (b_rows (table_base_blocks nr nc rsubs csubs (cubem "unweighted_cube_counts" "table_bases"))))
  | None => True
  end) /\
  (match src_TableUnweightedBases_blocks_11 with
  | Some e => forall nr nc rsubs csubs cubem cubeflag blk mblk mflag,
      0 < nr ->
      0 < nc ->
      bagrees_mat (beval (benv_std nr nc rsubs csubs cubem cv0 cubeflag blk mblk mflag) e) (List.length rsubs) (List.length csubs)
        (mnth (b_inter (table_base_blocks nr nc rsubs csubs (cubem "unweighted_cube_counts" "table_bases"))))
  | None => True
  end).
Proof. exact (conj gen_TableUnweightedBases_blocks_00 (conj gen_TableUnweightedBases_blocks_01 (conj gen_TableUnweightedBases_blocks_10 gen_TableUnweightedBases_blocks_11))). Qed.
Print Assumptions C02_gen_TableUnweightedBases.

(* SecondOrderMeasures.<TableWeightedBases>.blocks: [0][0], [0][1], [1][0], [1][1] *)
Theorem C02_gen_TableWeightedBases :
  (match src_TableWeightedBases_blocks_00 with
  | Some e => forall nr nc rsubs csubs cubem cubeflag blk mblk mflag,
      bagrees_mat (beval (benv_std nr nc rsubs csubs cubem cv0 cubeflag blk mblk mflag) e) nr nc
        (mnth (b_base (table_base_blocks nr nc rsubs csubs (cubem "weighted_cube_counts" "table_bases"))))
  | None => True
  end) /\
  (match src_TableWeightedBases_blocks_01 with
  | Some e => forall nr nc rsubs csubs cubem cubeflag blk mblk mflag,
      0 < nc ->
      bagrees_mat (beval (benv_std nr nc rsubs csubs cubem cv0 cubeflag blk mblk mflag) e) nr (List.length csubs)
        (mnth (b_cols (table_base_blocks nr nc rsubs csubs (cubem "weighted_cube_counts" "table_bases"))))
  | None => True
  end) /\
  (match src_TableWeightedBases_blocks_10 with
  | Some e => forall nr nc rsubs csubs cubem cubeflag blk mblk mflag,
      0 < nr ->
      bagrees_mat (beval (benv_std nr nc rsubs csubs cubem cv0 cubeflag blk mblk mflag) e) (List.length rsubs) nc
        (mnth (b_rows (table_base_blocks nr nc rsubs csubs (cubem "weighted_cube_counts" "table_bases"))))
  | None => True
  end) /\
  (match src_TableWeightedBases_blocks_11 with
  | Some e => forall nr nc rsubs csubs cubem cubeflag blk mblk mflag,
      0 < nr ->
      0 < nc ->
      bagrees_mat (beval (benv_std nr nc rsubs csubs cubem cv0 cubeflag blk mblk mflag) e) (List.length rsubs) (List.length csubs)
        (mnth (b_inter (table_base_blocks nr nc rsubs csubs (cubem "weighted_cube_counts" "table_bases"))))
  | None => True
  end).
Proof. exact (conj gen_TableWeightedBases_blocks_00 (conj gen_TableWeightedBases_blocks_01 (conj gen_TableWeightedBases_blocks_10 gen_TableWeightedBases_blocks_11))). Qed.
Print Assumptions C02_gen_TableWeightedBases.

(* rows_weighted_base / columns_weighted_base (_MarginWeightedBase): blocks[0] (base values), blocks[1] (subtotals), is_defined; `raise` = WErr *)
Theorem C02_gen_margin_weighted_base :
  (match src_RowsWeightedBase_blocks_0 with
  | Some e => forall nr nc rsubs csubs cubem cubeflag blk mblk mflag margin,
      (0 < nc ->
       bagrees_vec (beval (benv_std nr nc rsubs csubs cubem (cv1 "weighted_cube_counts" "rows_base" (WVec nr (vnth margin))) cubeflag blk mblk mflag) e) nr
         (vnth (fst (rows_margin_blocks nr rsubs (blocks_of (blk "row_weighted_bases")))))) /\
      beval (benv_std nr nc rsubs csubs cubem (cv1 "weighted_cube_counts" "rows_base" WNone) cubeflag blk mblk mflag) e = WErr
  | None => True
  end) /\
  (match src_RowsWeightedBase_blocks_1 with
  | Some e => forall nr nc rsubs csubs cubem cubeflag blk mblk mflag margin,
      (0 < nc ->
       bagrees_vec (beval (benv_std nr nc rsubs csubs cubem (cv1 "weighted_cube_counts" "rows_base" (WVec nr (vnth margin))) cubeflag blk mblk mflag) e) (List.length rsubs)
         (vnth (snd (rows_margin_blocks nr rsubs (blocks_of (blk "row_weighted_bases")))))) /\
      beval (benv_std nr nc rsubs csubs cubem (cv1 "weighted_cube_counts" "rows_base" WNone) cubeflag blk mblk mflag) e = WErr
  | None => True
  end) /\
  (match src_RowsWeightedBase_is_defined with
  | Some e => forall nr nc rsubs csubs cubem cubeflag blk mblk mflag margin,
      bceval (benv_std nr nc rsubs csubs cubem (cv1 "weighted_cube_counts" "rows_base" (WVec nr (vnth margin))) cubeflag blk mblk mflag) e = Some true /\
      bceval (benv_std nr nc rsubs csubs cubem (cv1 "weighted_cube_counts" "rows_base" WNone) cubeflag blk mblk mflag) e = Some false
  | None => True
  end) /\
  (match src_ColumnsWeightedBase_blocks_0 with
  | Some e => forall nr nc rsubs csubs cubem cubeflag blk mblk mflag margin,
      (0 < nr ->
       bagrees_vec (beval (benv_std nr nc rsubs csubs cubem (cv1 "weighted_cube_counts" "columns_base" (WVec nc (vnth margin))) cubeflag blk mblk mflag) e) nc
         (vnth (fst (cols_margin_blocks nc csubs (blocks_of (blk "column_weighted_bases")))))) /\
      beval (benv_std nr nc rsubs csubs cubem (cv1 "weighted_cube_counts" "columns_base" WNone) cubeflag blk mblk mflag) e = WErr
  | None => True
  end) /\
  (match src_ColumnsWeightedBase_blocks_1 with
  | Some e => forall nr nc rsubs csubs cubem cubeflag blk mblk mflag margin,
      (0 < nr ->
       bagrees_vec (beval (benv_std nr nc rsubs csubs cubem (cv1 "weighted_cube_counts" "columns_base" (WVec nc (vnth margin))) cubeflag blk mblk mflag) e) (List.length csubs)
         (vnth (snd (cols_margin_blocks nc csubs (blocks_of (blk "column_weighted_bases")))))) /\
      beval (benv_std nr nc rsubs csubs cubem (cv1 "weighted_cube_counts" "columns_base" WNone) cubeflag blk mblk mflag) e = WErr
  | None => True
  end) /\
  (match src_ColumnsWeightedBase_is_defined with
  | Some e => forall nr nc rsubs csubs cubem cubeflag blk mblk mflag margin,
      bceval (benv_std nr nc rsubs csubs cubem (cv1 "weighted_cube_counts" "columns_base" (WVec nc (vnth margin))) cubeflag blk mblk mflag) e = Some true /\
      bceval (benv_std nr nc rsubs csubs cubem (cv1 "weighted_cube_counts" "columns_base" WNone) cubeflag blk mblk mflag) e = Some false
  | None => True
  end).
Proof. exact (conj gen_RowsWeightedBase_blocks_0 (conj gen_RowsWeightedBase_blocks_1 (conj gen_RowsWeightedBase_is_defined (conj gen_ColumnsWeightedBase_blocks_0 (conj gen_ColumnsWeightedBase_blocks_1 gen_ColumnsWeightedBase_is_defined))))). Qed.
Print Assumptions C02_gen_margin_weighted_base.

(* rows_unweighted_base / columns_unweighted_base (_MarginUnweightedBase) *)
Theorem C02_gen_margin_unweighted_base :
  (match src_RowsUnweightedBase_blocks_0 with
  | Some e => forall nr nc rsubs csubs cubem cubeflag blk mblk mflag,
      (mflag "column_comparable_counts" "is_defined" = true -> 0 < nc ->
       bagrees_vec (beval (benv_std nr nc rsubs csubs cubem cv0 cubeflag blk mblk mflag) e) nr
         (vnth (fst (rows_margin_blocks nr rsubs (blocks_of (blk "row_unweighted_bases")))))) /\
      (mflag "column_comparable_counts" "is_defined" = false -> beval (benv_std nr nc rsubs csubs cubem cv0 cubeflag blk mblk mflag) e = WErr)
  | None => True
  end) /\
  (match src_RowsUnweightedBase_blocks_1 with
  | Some e => forall nr nc rsubs csubs cubem cubeflag blk mblk mflag,
      (mflag "column_comparable_counts" "is_defined" = true -> 0 < nc ->
       bagrees_vec (beval (benv_std nr nc rsubs csubs cubem cv0 cubeflag blk mblk mflag) e) (List.length rsubs)
         (vnth (snd (rows_margin_blocks nr rsubs (blocks_of (blk "row_unweighted_bases")))))) /\
      (mflag "column_comparable_counts" "is_defined" = false -> beval (benv_std nr nc rsubs csubs cubem cv0 cubeflag blk mblk mflag) e = WErr)
  | None => True
  end) /\
  (match src_RowsUnweightedBase_is_defined with
  | Some e => forall nr nc rsubs csubs cubem cubeflag blk mblk mflag,
      bceval (benv_std nr nc rsubs csubs cubem cv0 cubeflag blk mblk mflag) e = Some (mflag "column_comparable_counts" "is_defined")
  | None => True
  end) /\
  (match src_ColumnsUnweightedBase_blocks_0 with
  | Some e => forall nr nc rsubs csubs cubem cubeflag blk mblk mflag,
      (mflag "row_comparable_counts" "is_defined" = true -> 0 < nr ->
       bagrees_vec (beval (benv_std nr nc rsubs csubs cubem cv0 cubeflag blk mblk mflag) e) nc
         (vnth (fst (cols_margin_blocks nc csubs (blocks_of (blk "column_unweighted_bases")))))) /\
      (mflag "row_comparable_counts" "is_defined" = false -> beval (benv_std nr nc rsubs csubs cubem cv0 cubeflag blk mblk mflag) e = WErr)
  | None => True
  end) /\
  (match src_ColumnsUnweightedBase_blocks_1 with
  | Some e => forall nr nc rsubs csubs cubem cubeflag blk mblk mflag,
      (mflag "row_comparable_counts" "is_defined" = true -> 0 < nr ->
       bagrees_vec (beval (benv_std nr nc rsubs csubs cubem cv0 cubeflag blk mblk mflag) e) (List.length csubs)
         (vnth (snd (cols_margin_blocks nc csubs (blocks_of (blk "column_unweighted_bases")))))) /\
      (mflag "row_comparable_counts" "is_defined" = false -> beval (benv_std nr nc rsubs csubs cubem cv0 cubeflag blk mblk mflag) e = WErr)
  | None => True
  end) /\
  (match src_ColumnsUnweightedBase_is_defined with
  | Some e => forall nr nc rsubs csubs cubem cubeflag blk mblk mflag,
      bceval (benv_std nr nc rsubs csubs cubem cv0 cubeflag blk mblk mflag) e = Some (mflag "row_comparable_counts" "is_defined")
  | None => True
  end).
Proof. exact (conj gen_RowsUnweightedBase_blocks_0 (conj gen_RowsUnweightedBase_blocks_1 (conj gen_RowsUnweightedBase_is_defined (conj gen_ColumnsUnweightedBase_blocks_0 (conj gen_ColumnsUnweightedBase_blocks_1 gen_ColumnsUnweightedBase_is_defined))))). Qed.
Print Assumptions C02_gen_margin_unweighted_base.

(* columns_squared_base (_MarginSquaredBase) *)
Theorem C02_gen_margin_squared_base :
  (match src_ColumnsSquaredBase_blocks_0 with
  | Some e => forall nr nc rsubs csubs cubem cubeflag blk mblk mflag,
      0 < nr ->
      bagrees_vec (beval (benv_std nr nc rsubs csubs cubem cv0 cubeflag blk mblk mflag) e) nc
        (vnth (fst (cols_margin_blocks nc csubs (blocks_of (blk "column_squared_bases")))))
  | None => True
  end) /\
  (match src_ColumnsSquaredBase_blocks_1 with
  | Some e => forall nr nc rsubs csubs cubem cubeflag blk mblk mflag,
      0 < nr ->
      bagrees_vec (beval (benv_std nr nc rsubs csubs cubem cv0 cubeflag blk mblk mflag) e) (List.length csubs)
        (vnth (snd (cols_margin_blocks nc csubs (blocks_of (blk "column_squared_bases")))))
  | None => True
  end) /\
  (match src_ColumnsSquaredBase_is_defined with
  | Some e => forall nr nc rsubs csubs cubem cubeflag blk mblk mflag,
      bceval (benv_std nr nc rsubs csubs cubem cv0 cubeflag blk mblk mflag) e = Some (mflag "column_squared_bases" "is_defined")
  | None => True
  end).
Proof. exact (conj gen_ColumnsSquaredBase_blocks_0 (conj gen_ColumnsSquaredBase_blocks_1 gen_ColumnsSquaredBase_is_defined)). Qed.
Print Assumptions C02_gen_margin_squared_base.

(* rows_/columns_table_(un)weighted_base (_MarginTableBase): the cube measure's 1-D table base, its first value repeated for the subtotals *)
Theorem C02_gen_margin_table_base :
  (match src_RowsTableWeightedBase_blocks_0 with
  | Some e => forall nr nc rsubs csubs cubem cubeflag blk mblk mflag tbase,
      bagrees_vec (beval (benv_std nr nc rsubs csubs cubem (cv1 "weighted_cube_counts" "rows_table_base" (WVec nr (vnth tbase))) cubeflag blk mblk mflag) e) nr
        (vnth (fst (margin_table_blocks tbase (List.length rsubs)))) /\
      beval (benv_std nr nc rsubs csubs cubem (cv1 "weighted_cube_counts" "rows_table_base" WNone) cubeflag blk mblk mflag) e = WErr
  | None => True
  end) /\
  (match src_RowsTableWeightedBase_blocks_1 with
  | Some e => forall nr nc rsubs csubs cubem cubeflag blk mblk mflag tbase,
      (0 < nr ->
       bagrees_vec (beval (benv_std nr nc rsubs csubs cubem (cv1 "weighted_cube_counts" "rows_table_base" (WVec nr (vnth tbase))) cubeflag blk mblk mflag) e) (List.length rsubs)
         (vnth (snd (margin_table_blocks tbase (List.length rsubs))))) /\
      beval (benv_std nr nc rsubs csubs cubem (cv1 "weighted_cube_counts" "rows_table_base" WNone) cubeflag blk mblk mflag) e = WErr
  | None => True
  end) /\
  (match src_RowsTableWeightedBase_is_defined with
  | Some e => forall nr nc rsubs csubs cubem cubeflag blk mblk mflag tbase,
      bceval (benv_std nr nc rsubs csubs cubem (cv1 "weighted_cube_counts" "rows_table_base" (WVec nr (vnth tbase))) cubeflag blk mblk mflag) e = Some true /\
      bceval (benv_std nr nc rsubs csubs cubem (cv1 "weighted_cube_counts" "rows_table_base" WNone) cubeflag blk mblk mflag) e = Some false
  | None => True
  end) /\
  (match src_ColumnsTableWeightedBase_blocks_0 with
  | Some e => forall nr nc rsubs csubs cubem cubeflag blk mblk mflag tbase,
      bagrees_vec (beval (benv_std nr nc rsubs csubs cubem (cv1 "weighted_cube_counts" "columns_table_base" (WVec nc (vnth tbase))) cubeflag blk mblk mflag) e) nc
        (vnth (fst (margin_table_blocks tbase (List.length csubs)))) /\
      beval (benv_std nr nc rsubs csubs cubem (cv1 "weighted_cube_counts" "columns_table_base" WNone) cubeflag blk mblk mflag) e = WErr
  | None => True
  end) /\
  (match src_ColumnsTableWeightedBase_blocks_1 with
  | Some e => forall nr nc rsubs csubs cubem cubeflag blk mblk mflag tbase,
      (0 < nc ->
       bagrees_vec (beval (benv_std nr nc rsubs csubs cubem (cv1 "weighted_cube_counts" "columns_table_base" (WVec nc (vnth tbase))) cubeflag blk mblk mflag) e) (List.length csubs)
         (vnth (snd (margin_table_blocks tbase (List.length csubs))))) /\
      beval (benv_std nr nc rsubs csubs cubem (cv1 "weighted_cube_counts" "columns_table_base" WNone) cubeflag blk mblk mflag) e = WErr
  | None => True
  end) /\
  (match src_ColumnsTableWeightedBase_is_defined with
  | Some e => forall nr nc rsubs csubs cubem cubeflag blk mblk mflag tbase,
      bceval (benv_std nr nc rsubs csubs cubem (cv1 "weighted_cube_counts" "columns_table_base" (WVec nc (vnth tbase))) cubeflag blk mblk mflag) e = Some true /\
      bceval (benv_std nr nc rsubs csubs cubem (cv1 "weighted_cube_counts" "columns_table_base" WNone) cubeflag blk mblk mflag) e = Some false
  | None => True
  end) /\
  (match src_RowsTableUnweightedBase_blocks_0 with
  | Some e => forall nr nc rsubs csubs cubem cubeflag blk mblk mflag tbase,
      bagrees_vec (beval (benv_std nr nc rsubs csubs cubem (cv1 "unweighted_cube_counts" "rows_table_base" (WVec nr (vnth tbase))) cubeflag blk mblk mflag) e) nr
        (vnth (fst (margin_table_blocks tbase (List.length rsubs)))) /\
      beval (benv_std nr nc rsubs csubs cubem (cv1 "unweighted_cube_counts" "rows_table_base" WNone) cubeflag blk mblk mflag) e = WErr
  | None => True
  end) /\
  (match src_RowsTableUnweightedBase_blocks_1 with
  | Some e => forall nr nc rsubs csubs cubem cubeflag blk mblk mflag tbase,
      (0 < nr ->
       bagrees_vec (beval (benv_std nr nc rsubs csubs cubem (cv1 "unweighted_cube_counts" "rows_table_base" (WVec nr (vnth tbase))) cubeflag blk mblk mflag) e) (List.length rsubs)
         (vnth (snd (margin_table_blocks tbase (List.length rsubs))))) /\
      beval (benv_std nr nc rsubs csubs cubem (cv1 "unweighted_cube_counts" "rows_table_base" WNone) cubeflag blk mblk mflag) e = WErr
  | None => True
  end) /\
  (match src_RowsTableUnweightedBase_is_defined with
  | Some e => forall nr nc rsubs csubs cubem cubeflag blk mblk mflag tbase,
      bceval (benv_std nr nc rsubs csubs cubem (cv1 "unweighted_cube_counts" "rows_table_base" (WVec nr (vnth tbase))) cubeflag blk mblk mflag) e = Some true /\
      bceval (benv_std nr nc rsubs csubs cubem (cv1 "unweighted_cube_counts" "rows_table_base" WNone) cubeflag blk mblk mflag) e = Some false
  | None => True
  end) /\
  (match src_ColumnsTableUnweightedBase_blocks_0 with
  | Some e => forall nr nc rsubs csubs cubem cubeflag blk mblk mflag tbase,
      bagrees_vec (beval (benv_std nr nc rsubs csubs cubem (cv1 "unweighted_cube_counts" "columns_table_base" (WVec nc (vnth tbase))) cubeflag blk mblk mflag) e) nc
        (vnth (fst (margin_table_blocks tbase (List.length csubs)))) /\
      beval (benv_std nr nc rsubs csubs cubem (cv1 "unweighted_cube_counts" "columns_table_base" WNone) cubeflag blk mblk mflag) e = WErr
  | None => True
  end) /\
  (match src_ColumnsTableUnweightedBase_blocks_1 with
  | Some e => forall nr nc rsubs csubs cubem cubeflag blk mblk mflag tbase,
      (0 < nc ->
       bagrees_vec (beval (benv_std nr nc rsubs csubs cubem (cv1 "unweighted_cube_counts" "columns_table_base" (WVec nc (vnth tbase))) cubeflag blk mblk mflag) e) (List.length csubs)
         (vnth (snd (margin_table_blocks tbase (List.length csubs))))) /\
      beval (benv_std nr nc rsubs csubs cubem (cv1 "unweighted_cube_counts" "columns_table_base" WNone) cubeflag blk mblk mflag) e = WErr
  | None => True
  end) /\
  (match src_ColumnsTableUnweightedBase_is_defined with
  | Some e => forall nr nc rsubs csubs cubem cubeflag blk mblk mflag tbase,
      bceval (benv_std nr nc rsubs csubs cubem (cv1 "unweighted_cube_counts" "columns_table_base" (WVec nc (vnth tbase))) cubeflag blk mblk mflag) e = Some true /\
      bceval (benv_std nr nc rsubs csubs cubem (cv1 "unweighted_cube_counts" "columns_table_base" WNone) cubeflag blk mblk mflag) e = Some false
  | None => True
  end).
Proof. exact (conj gen_RowsTableWeightedBase_blocks_0 (conj gen_RowsTableWeightedBase_blocks_1 (conj gen_RowsTableWeightedBase_is_defined (conj gen_ColumnsTableWeightedBase_blocks_0 (conj gen_ColumnsTableWeightedBase_blocks_1 (conj gen_ColumnsTableWeightedBase_is_defined (conj gen_RowsTableUnweightedBase_blocks_0 (conj gen_RowsTableUnweightedBase_blocks_1 (conj gen_RowsTableUnweightedBase_is_defined (conj gen_ColumnsTableUnweightedBase_blocks_0 (conj gen_ColumnsTableUnweightedBase_blocks_1 gen_ColumnsTableUnweightedBase_is_defined))))))))))). Qed.
Print Assumptions C02_gen_margin_table_base.

(* rows_/columns_table_proportion (_MarginTableProportion): summed COUNT blocks over the margin table base *)
Theorem C02_gen_margin_table_proportion :
  (match src_RowsTableProportion_blocks_0 with
  | Some e => forall nr nc rsubs csubs cubem cubeflag blk mflag den0 den1,
      bagrees_vec (beval (benv_std nr nc rsubs csubs cubem cv0 cubeflag blk
                           (fun m k => if String.eqb m "rows_table_weighted_base" then match k with 0 => WVec nr (vnth den0) | _ => WVec (List.length rsubs) (vnth den1) end else WErr)
                           mflag) e) nr
        (vnth (fst (rows_table_prop_blocks nr nc rsubs (blocks_of (blk "weighted_counts")) (den0, den1))))
  | None => True
  end) /\
  (match src_RowsTableProportion_blocks_1 with
  | Some e => forall nr nc rsubs csubs cubem cubeflag blk mflag den0 den1,
      bagrees_vec (beval (benv_std nr nc rsubs csubs cubem cv0 cubeflag blk
                           (fun m k => if String.eqb m "rows_table_weighted_base" then match k with 0 => WVec nr (vnth den0) | _ => WVec (List.length rsubs) (vnth den1) end else WErr)
                           mflag) e) (List.length rsubs)
        (vnth (snd (rows_table_prop_blocks nr nc rsubs (blocks_of (blk "weighted_counts")) (den0, den1))))
  | None => True
  end) /\
  (match src_RowsTableProportion_is_defined with
  | Some e => forall nr nc rsubs csubs cubem cubeflag blk mblk mflag,
      bceval (benv_std nr nc rsubs csubs cubem cv0 cubeflag blk mblk mflag) e = Some (mflag "column_comparable_counts" "is_defined")
  | None => True
  end) /\
  (match src_ColumnsTableProportion_blocks_0 with
  | Some e => forall nr nc rsubs csubs cubem cubeflag blk mflag den0 den1,
      bagrees_vec (beval (benv_std nr nc rsubs csubs cubem cv0 cubeflag blk
                           (fun m k => if String.eqb m "columns_table_weighted_base" then match k with 0 => WVec nc (vnth den0) | _ => WVec (List.length csubs) (vnth den1) end else WErr)
                           mflag) e) nc
        (vnth (fst (cols_table_prop_blocks nr nc csubs (blocks_of (blk "weighted_counts")) (den0, den1))))
  | None => True
  end) /\
  (match src_ColumnsTableProportion_blocks_1 with
  | Some e => forall nr nc rsubs csubs cubem cubeflag blk mflag den0 den1,
      bagrees_vec (beval (benv_std nr nc rsubs csubs cubem cv0 cubeflag blk
                           (fun m k => if String.eqb m "columns_table_weighted_base" then match k with 0 => WVec nc (vnth den0) | _ => WVec (List.length csubs) (vnth den1) end else WErr)
                           mflag) e) (List.length csubs)
        (vnth (snd (cols_table_prop_blocks nr nc csubs (blocks_of (blk "weighted_counts")) (den0, den1))))
  | None => True
  end) /\
  (match src_ColumnsTableProportion_is_defined with
  | Some e => forall nr nc rsubs csubs cubem cubeflag blk mblk mflag,
      bceval (benv_std nr nc rsubs csubs cubem cv0 cubeflag blk mblk mflag) e = Some (mflag "row_comparable_counts" "is_defined")
  | None => True
  end).
Proof. exact (conj gen_RowsTableProportion_blocks_0 (conj gen_RowsTableProportion_blocks_1 (conj gen_RowsTableProportion_is_defined (conj gen_ColumnsTableProportion_blocks_0 (conj gen_ColumnsTableProportion_blocks_1 gen_ColumnsTableProportion_is_defined))))). Qed.
Print Assumptions C02_gen_margin_table_proportion.

(* table_(un)weighted_base (_TableBase): value, is_defined *)
Theorem C02_gen_scalar_table_base :
  (match src_TableWeightedBase_value with
  | Some e => forall nr nc rsubs csubs cubem cubeflag blk mblk mflag tb,
      bagrees_scal (beval (benv_std nr nc rsubs csubs cubem (cv1 "weighted_cube_counts" "table_base" (WScal tb)) cubeflag blk mblk mflag) e) tb /\
      beval (benv_std nr nc rsubs csubs cubem (cv1 "weighted_cube_counts" "table_base" WNone) cubeflag blk mblk mflag) e = WErr
  | None => True
  end) /\
  (match src_TableWeightedBase_is_defined with
  | Some e => forall nr nc rsubs csubs cubem cubeflag blk mblk mflag tb,
      bceval (benv_std nr nc rsubs csubs cubem (cv1 "weighted_cube_counts" "table_base" (WScal tb)) cubeflag blk mblk mflag) e = Some true /\
      bceval (benv_std nr nc rsubs csubs cubem (cv1 "weighted_cube_counts" "table_base" WNone) cubeflag blk mblk mflag) e = Some false
  | None => True
  end) /\
  (match src_TableUnweightedBase_value with
  | Some e => forall nr nc rsubs csubs cubem cubeflag blk mblk mflag tb,
      bagrees_scal (beval (benv_std nr nc rsubs csubs cubem (cv1 "unweighted_cube_counts" "table_base" (WScal tb)) cubeflag blk mblk mflag) e) tb /\
      beval (benv_std nr nc rsubs csubs cubem (cv1 "unweighted_cube_counts" "table_base" WNone) cubeflag blk mblk mflag) e = WErr
  | None => True
  end) /\
  (match src_TableUnweightedBase_is_defined with
  | Some e => forall nr nc rsubs csubs cubem cubeflag blk mblk mflag tb,
      bceval (benv_std nr nc rsubs csubs cubem (cv1 "unweighted_cube_counts" "table_base" (WScal tb)) cubeflag blk mblk mflag) e = Some true /\
      bceval (benv_std nr nc rsubs csubs cubem (cv1 "unweighted_cube_counts" "table_base" WNone) cubeflag blk mblk mflag) e = Some false
  | None => True
  end).
Proof. exact (conj gen_TableWeightedBase_value (conj gen_TableWeightedBase_is_defined (conj gen_TableUnweightedBase_value gen_TableUnweightedBase_is_defined))). Qed.
Print Assumptions C02_gen_scalar_table_base.

(* [min, max] of the table bases of the base block (np.min / np.max of an empty array raise) *)
Theorem C02_gen_table_bases_range :
  (match src_TableWeightedBasesRange_value with
  | Some e => forall nr nc rsubs csubs cubem cubeflag blk mblk mflag,
      0 < nr -> 0 < nc ->
      bagrees_vec (beval (benv_std nr nc rsubs csubs cubem cv0 cubeflag blk mblk mflag) e) 2
        (fun k => match k with
                  | 0 => fst (bases_range (tab2 nr nc (mnth (cubem "weighted_cube_counts" "table_bases"))))
                  | _ => snd (bases_range (tab2 nr nc (mnth (cubem "weighted_cube_counts" "table_bases"))))
                  end)
  | None => True
  end) /\
  (match src_TableUnweightedBasesRange_value with
  | Some e => forall nr nc rsubs csubs cubem cubeflag blk mblk mflag,
      0 < nr -> 0 < nc ->
      bagrees_vec (beval (benv_std nr nc rsubs csubs cubem cv0 cubeflag blk mblk mflag) e) 2
        (fun k => match k with
                  | 0 => fst (bases_range (tab2 nr nc (mnth (cubem "unweighted_cube_counts" "table_bases"))))
                  | _ => snd (bases_range (tab2 nr nc (mnth (cubem "unweighted_cube_counts" "table_bases"))))
                  end)
  | None => True
  end).
Proof. exact (conj gen_TableWeightedBasesRange_value gen_TableUnweightedBasesRange_value). Qed.
Print Assumptions C02_gen_table_bases_range.

(* strand unweighted_bases / weighted_bases: base values, subtotal values (the scalar table base, broadcast; the empty sum subtotals when there is none), range *)
Theorem C02_gen_stripe_bases :
  (match ssrc_UnweightedBases_base_values with
  | Some e => forall n subs bases tbv,
      bagrees_vec (beval (benv_strand n subs (fun c a => if String.eqb c "unweighted_cube_counts" then (if String.eqb a "bases" then WVec n (vnth bases) else if String.eqb a "table_base" then tbv else WErr) else WErr)) e) n (vnth bases)
  | None => True
  end) /\
  (match ssrc_UnweightedBases_subtotal_values with
  | Some e => forall n subs bases tbv tb,
      (0 < List.length subs -> tbv = WScal tb) ->
      bagrees_vec (beval (benv_strand n subs (fun c a => if String.eqb c "unweighted_cube_counts" then (if String.eqb a "bases" then WVec n (vnth bases) else if String.eqb a "table_base" then tbv else WErr) else WErr)) e) (List.length subs)
        (vnth (strand_base_subtotals tb subs))
  | None => True
  end) /\
  (match ssrc_UnweightedBases_table_base_range with
  | Some e => forall n subs bases tbv,
      0 < n ->
      bagrees_vec (beval (benv_strand n subs (fun c a => if String.eqb c "unweighted_cube_counts" then (if String.eqb a "bases" then WVec n (vnth bases) else if String.eqb a "table_base" then tbv else WErr) else WErr)) e) 2
        (fun k => match k with 0 => xmin_list (tab n (vnth bases)) | _ => xmax_list (tab n (vnth bases)) end)
  | None => True
  end) /\
  (match ssrc_WeightedBases_base_values with
  | Some e => forall n subs bases tbv,
      bagrees_vec (beval (benv_strand n subs (fun c a => if String.eqb c "weighted_cube_counts" then (if String.eqb a "bases" then WVec n (vnth bases) else if String.eqb a "table_base" then tbv else WErr) else WErr)) e) n (vnth bases)
  | None => True
  end) /\
  (match ssrc_WeightedBases_subtotal_values with
  | Some e => forall n subs bases tbv tb,
      (0 < List.length subs -> tbv = WScal tb) ->
      bagrees_vec (beval (benv_strand n subs (fun c a => if String.eqb c "weighted_cube_counts" then (if String.eqb a "bases" then WVec n (vnth bases) else if String.eqb a "table_base" then tbv else WErr) else WErr)) e) (List.length subs)
        (vnth (strand_base_subtotals tb subs))
  | None => True
  end) /\
  (match ssrc_WeightedBases_table_margin_range with
  | Some e => forall n subs bases tbv,
      0 < n ->
      bagrees_vec (beval (benv_strand n subs (fun c a => if String.eqb c "weighted_cube_counts" then (if String.eqb a "bases" then WVec n (vnth bases) else if String.eqb a "table_base" then tbv else WErr) else WErr)) e) 2
        (fun k => match k with 0 => xmin_list (tab n (vnth bases)) | _ => xmax_list (tab n (vnth bases)) end)
  | None => True
  end).
Proof. exact (conj gen_stripe_UnweightedBases_base_values (conj gen_stripe_UnweightedBases_subtotal_values (conj gen_stripe_UnweightedBases_table_base_range (conj gen_stripe_WeightedBases_base_values (conj gen_stripe_WeightedBases_subtotal_values gen_stripe_WeightedBases_table_margin_range))))). Qed.
Print Assumptions C02_gen_stripe_bases.

(* MinBaseSizeMask.row_mask / column_mask / table_mask: cell = 1 iff [mask_cell] (STRICTLY below the threshold) of the slice's UNWEIGHTED base of that direction *)
Theorem C02_gen_MinBaseSizeMask :
  (match src_MinBaseSizeMask_row_mask with
  | Some e => forall nr nc attr size,
      bagrees_mat (beval (benv_mask nr nc attr size) e) nr nc
        (fun i j => if mask_cell (mnth (attr "row_unweighted_bases") i j) size then Fin 1%Q else Fin 0%Q)
  | None => True
  end) /\
  (match src_MinBaseSizeMask_column_mask with
  | Some e => forall nr nc attr size,
      bagrees_mat (beval (benv_mask nr nc attr size) e) nr nc
        (fun i j => if mask_cell (mnth (attr "column_unweighted_bases") i j) size then Fin 1%Q else Fin 0%Q)
  | None => True
  end) /\
  (match src_MinBaseSizeMask_table_mask with
  | Some e => forall nr nc attr size,
      bagrees_mat (beval (benv_mask nr nc attr size) e) nr nc
        (fun i j => if mask_cell (mnth (attr "table_unweighted_bases") i j) size then Fin 1%Q else Fin 0%Q)
  | None => True
  end).
Proof. exact (conj gen_MinBaseSizeMask_row_mask (conj gen_MinBaseSizeMask_column_mask gen_MinBaseSizeMask_table_mask)). Qed.
Print Assumptions C02_gen_MinBaseSizeMask.


(* ---- what the blocks MEAN (Proofs/BaseBlocksProofs.v), for every base matrix over xq ------------ *)
(* the column base of a cell of a subtotal ROW is the column base of its column ... *)
Theorem C02_subtotal_row_has_column_base nr nc rsubs csubs cb k j i :
  col_constant nr cb -> k < List.length rsubs -> j < nc -> i < nr ->
  mnth (b_rows (col_base_blocks nr nc rsubs csubs cb)) k j = mnth cb i j.
Proof. exact (col_base_subtotal_row nr nc rsubs csubs cb k j i). Qed.
Print Assumptions C02_subtotal_row_has_column_base.

(* ... of a subtotal COLUMN without subtrahends the SUM of the column bases of its addend columns
   (the base of the merged category: C04_merge_col_column_bases), NaN for a difference ... *)
Theorem C02_subtotal_column_adds_column_bases nr nc rsubs csubs cb i l :
  i < nr -> l < List.length csubs ->
  (s_sub (nth l csubs nosub) = [] ->
   mnth (b_cols (col_base_blocks nr nc rsubs csubs cb)) i l
   =x= xsum (map (fun j => mnth cb i j) (s_add (nth l csubs nosub)))) /\
  (s_sub (nth l csubs nosub) <> [] ->
   mnth (b_cols (col_base_blocks nr nc rsubs csubs cb)) i l = NaN).
Proof.
  exact (fun Hi Hl => conj (col_base_subtotal_col_sum nr nc rsubs csubs cb i l Hi Hl)
                           (col_base_subtotal_col_diff nr nc rsubs csubs cb i l Hi Hl)).
Qed.
Print Assumptions C02_subtotal_column_adds_column_bases.

(* ... and an intersection has the column base of its subtotal column *)
Theorem C02_intersection_has_column_base nr nc rsubs csubs cb k l i :
  col_constant nr cb -> k < List.length rsubs -> l < List.length csubs -> i < nr ->
  mnth (b_inter (col_base_blocks nr nc rsubs csubs cb)) k l
  = mnth (b_cols (col_base_blocks nr nc rsubs csubs cb)) i l.
Proof. exact (col_base_intersection nr nc rsubs csubs cb k l i). Qed.
Print Assumptions C02_intersection_has_column_base.

(* mirror image: row bases *)
Theorem C02_subtotal_column_has_row_base nr nc rsubs csubs rb i l j :
  row_constant nc rb -> i < nr -> l < List.length csubs -> j < nc ->
  mnth (b_cols (row_base_blocks nr nc rsubs csubs rb)) i l = mnth rb i j.
Proof. exact (row_base_subtotal_col nr nc rsubs csubs rb i l j). Qed.
Print Assumptions C02_subtotal_column_has_row_base.

Theorem C02_subtotal_row_adds_row_bases nr nc rsubs csubs rb k j :
  k < List.length rsubs -> j < nc ->
  (s_sub (nth k rsubs nosub) = [] ->
   mnth (b_rows (row_base_blocks nr nc rsubs csubs rb)) k j
   =x= xsum (map (fun i => mnth rb i j) (s_add (nth k rsubs nosub)))) /\
  (s_sub (nth k rsubs nosub) <> [] ->
   mnth (b_rows (row_base_blocks nr nc rsubs csubs rb)) k j = NaN).
Proof.
  exact (fun Hk Hj => conj (row_base_subtotal_row_sum nr nc rsubs csubs rb k j Hk Hj)
                           (row_base_subtotal_row_diff nr nc rsubs csubs rb k j Hk Hj)).
Qed.
Print Assumptions C02_subtotal_row_adds_row_bases.

Theorem C02_intersection_has_row_base nr nc rsubs csubs rb k l j :
  row_constant nc rb -> k < List.length rsubs -> l < List.length csubs -> j < nc ->
  mnth (b_inter (row_base_blocks nr nc rsubs csubs rb)) k l
  = mnth (b_rows (row_base_blocks nr nc rsubs csubs rb)) k j.
Proof. exact (row_base_intersection nr nc rsubs csubs rb k l j). Qed.
Print Assumptions C02_intersection_has_row_base.

(* every inserted cell of the table bases has the table base (one number when both dimensions are
   categorical -- the only case in which both can carry subtotals) *)
Theorem C02_inserted_cells_have_table_base nr nc rsubs csubs tb x i j k l :
  (forall i j, i < nr -> j < nc -> mnth tb i j = x) ->
  i < nr -> j < nc -> k < List.length rsubs -> l < List.length csubs ->
  mnth (b_cols (table_base_blocks nr nc rsubs csubs tb)) i l = x /\
  mnth (b_rows (table_base_blocks nr nc rsubs csubs tb)) k j = x /\
  mnth (b_inter (table_base_blocks nr nc rsubs csubs tb)) k l = x.
Proof. exact (table_base_constant nr nc rsubs csubs tb x i j k l). Qed.
Print Assumptions C02_inserted_cells_have_table_base.

(* the UNWEIGHTED column / row bases read the cube measure's 1-D margin: the same blocks as soon as
   that margin is row 0 / column 0 of the 2-D base ... *)
Theorem C02_unweighted_column_bases_blocks nr nc rsubs csubs cb columns_base :
  (0 < List.length rsubs -> forall j, j < nc -> vnth columns_base j = mnth cb 0 j) ->
  b_base (col_ubase_blocks nr nc rsubs csubs cb columns_base) = b_base (col_base_blocks nr nc rsubs csubs cb) /\
  b_cols (col_ubase_blocks nr nc rsubs csubs cb columns_base) = b_cols (col_base_blocks nr nc rsubs csubs cb) /\
  b_inter (col_ubase_blocks nr nc rsubs csubs cb columns_base) = b_inter (col_base_blocks nr nc rsubs csubs cb) /\
  forall k j, k < List.length rsubs -> j < nc ->
    mnth (b_rows (col_ubase_blocks nr nc rsubs csubs cb columns_base)) k j
    = mnth (b_rows (col_base_blocks nr nc rsubs csubs cb)) k j.
Proof. exact (col_ubase_is_col_base nr nc rsubs csubs cb columns_base). Qed.
Print Assumptions C02_unweighted_column_bases_blocks.

Theorem C02_unweighted_row_bases_blocks nr nc rsubs csubs rb rows_base :
  (0 < List.length csubs -> forall i, i < nr -> vnth rows_base i = mnth rb i 0) ->
  b_base (row_ubase_blocks nr nc rsubs csubs rb rows_base) = b_base (row_base_blocks nr nc rsubs csubs rb) /\
  b_rows (row_ubase_blocks nr nc rsubs csubs rb rows_base) = b_rows (row_base_blocks nr nc rsubs csubs rb) /\
  b_inter (row_ubase_blocks nr nc rsubs csubs rb rows_base) = b_inter (row_base_blocks nr nc rsubs csubs rb) /\
  forall i l, i < nr -> l < List.length csubs ->
    mnth (b_cols (row_ubase_blocks nr nc rsubs csubs rb rows_base)) i l
    = mnth (b_cols (row_base_blocks nr nc rsubs csubs rb)) i l.
Proof. exact (row_ubase_is_row_base nr nc rsubs csubs rb rows_base). Qed.
Print Assumptions C02_unweighted_row_bases_blocks.

(* ... which the margins of Model/CubeCounts.v are, and its column (row) bases do not depend on the
   row (column) when the rows (columns) dimension is categorical -- the hypotheses above hold for the
   bases the theorems at the top of this file are about *)
Theorem C02_model_bases_fit V nr nc sr sc rc cc :
  col_constant nr (tab2 nr nc (column_bases_of V nr sr CCat cc)) /\
  row_constant nc (tab2 nr nc (row_bases_of V nc sc rc CCat)) /\
  (forall f j, 0 < nr -> j < nc -> columns_base_of V nr rc cc = Some f ->
     vnth (tab nc f) j = mnth (tab2 nr nc (column_bases_of V nr sr rc cc)) 0 j) /\
  (forall f i, i < nr -> 0 < nc -> rows_base_of V nc rc cc = Some f ->
     vnth (tab nr f) i = mnth (tab2 nr nc (row_bases_of V nc sc rc cc)) i 0).
Proof.
  exact (conj (model_col_constant V nr nc sr cc)
        (conj (model_row_constant V nr nc sc rc)
        (conj (fun f j => model_columns_base_is_row0 V nr nc sr rc cc f j)
              (fun f i => model_rows_base_is_col0 V nr nc sc rc cc f i)))).
Qed.
Print Assumptions C02_model_bases_fit.

(* the subtotal part of a 1-D margin adds the margin over the addends; NaN for a difference *)
Theorem C02_rows_margin_subtotal nr nc rsubs csubs rb k :
  k < List.length rsubs -> 0 < nc -> Forall (fun i => i < nr) (s_add (nth k rsubs nosub)) ->
  (forall i, i < nr ->
     vnth (fst (rows_margin_blocks nr rsubs (row_base_blocks nr nc rsubs csubs rb))) i = mnth rb i 0) /\
  (s_sub (nth k rsubs nosub) = [] ->
     vnth (snd (rows_margin_blocks nr rsubs (row_base_blocks nr nc rsubs csubs rb))) k
     =x= vsum_idx (fst (rows_margin_blocks nr rsubs (row_base_blocks nr nc rsubs csubs rb)))
                  (s_add (nth k rsubs nosub))) /\
  (s_sub (nth k rsubs nosub) <> [] ->
     vnth (snd (rows_margin_blocks nr rsubs (row_base_blocks nr nc rsubs csubs rb))) k = NaN).
Proof. exact (rows_margin_subtotal nr nc rsubs csubs rb k). Qed.
Print Assumptions C02_rows_margin_subtotal.

Theorem C02_columns_margin_subtotal nr nc rsubs csubs cb l :
  l < List.length csubs -> 0 < nr -> Forall (fun j => j < nc) (s_add (nth l csubs nosub)) ->
  (forall j, j < nc ->
     vnth (fst (cols_margin_blocks nc csubs (col_base_blocks nr nc rsubs csubs cb))) j = mnth cb 0 j) /\
  (s_sub (nth l csubs nosub) = [] ->
     vnth (snd (cols_margin_blocks nc csubs (col_base_blocks nr nc rsubs csubs cb))) l
     =x= vsum_idx (fst (cols_margin_blocks nc csubs (col_base_blocks nr nc rsubs csubs cb)))
                  (s_add (nth l csubs nosub))) /\
  (s_sub (nth l csubs nosub) <> [] ->
     vnth (snd (cols_margin_blocks nc csubs (col_base_blocks nr nc rsubs csubs cb))) l = NaN).
Proof. exact (cols_margin_subtotal nr nc rsubs csubs cb l). Qed.
Print Assumptions C02_columns_margin_subtotal.

(* non-vacuity: the TRANSLATED terms run on a 1 x 2 slice, column bases [[3 5]], one row subtotal
   {0}, two column subtotals {0,1} and 1 - 0: subtotal columns [[8 NaN]], the subtotal row repeats
   [3 5], the intersections repeat [8 NaN]; the rows margin of a 2 x 1 slice with row bases
   [[4] [6]] and the row subtotal {0,1} is [4 6] + [10]; without rows the table-base intersection
   RAISES (numpy: index 0 is out of bounds) *)
Example C02_gen_bases_example :
  let cubem := fun (c a : string) =>
                 if String.eqb a "column_bases" then [[Fin 3%Q; Fin 5%Q]] else [[Fin 7%Q; Fin 7%Q]] in
  let E := benv_std 1 2 [mkSub [0] []] [mkSub [0; 1] []; mkSub [1] [0]] cubem cv0
                    (fun _ _ => false) no_blk no_mblk no_mflag in
  let E0 := benv_std 0 2 [] [mkSub [0; 1] []] (fun _ _ => []) cv0 (fun _ _ => false) no_blk no_mblk no_mflag in
  let blk := fun (m : string) (bi bj : nat) =>
               match bi with 0 => [[Fin 4%Q]; [Fin 6%Q]] | _ => [[Fin 10%Q]] end in
  let EM := benv_std 2 1 [mkSub [0; 1] []] [] (fun _ _ => []) (cv1 "weighted_cube_counts" "rows_base" (WVec 2 (fun _ => Fin 1%Q)))
                     (fun _ _ => false) blk no_mblk no_mflag in
  match src_ColumnWeightedBases_blocks_01, src_ColumnWeightedBases_blocks_10, src_ColumnWeightedBases_blocks_11,
        src_TableWeightedBases_blocks_11, src_RowsWeightedBase_blocks_0, src_RowsWeightedBase_blocks_1 with
  | Some e01, Some e10, Some e11, Some t11, Some m0, Some m1 =>
      bshape_of (beval E e01) = [1; 2] /\ bcell (beval E e01) 0 0 =x= Fin 8%Q /\ bcell (beval E e01) 0 1 = NaN /\
      bshape_of (beval E e10) = [1; 2] /\ bcell (beval E e10) 0 0 =x= Fin 3%Q /\ bcell (beval E e10) 0 1 =x= Fin 5%Q /\
      bshape_of (beval E e11) = [1; 2] /\ bcell (beval E e11) 0 0 =x= Fin 8%Q /\ bcell (beval E e11) 0 1 = NaN /\
      bcell (beval E t11) 0 1 =x= Fin 7%Q /\ is_err (beval E0 t11) = true /\
      bshape_of (beval EM m0) = [2] /\ bcell (beval EM m0) 0 1 =x= Fin 6%Q /\
      bshape_of (beval EM m1) = [1] /\ bcell (beval EM m1) 0 0 =x= Fin 10%Q
  | _, _, _, _, _, _ => True
  end.
Proof. vm_compute. first [exact I | repeat split; reflexivity]. Qed.

End GenAgreeBases_C02.
(* ---- BASES-APPENDIX:END ---- *)

(* ---- WIRING-APPENDIX:BEGIN (generated by tools/gen_wiring_props.py; do not edit) ---- *)
From CC Require Proofs.GenAgreeWiring_C02.
Section Wiring_C02.
Import Coq.Lists.List Coq.ZArith.ZArith Coq.Strings.String CC.Base.WiringExp CC.Gen.WiringSrc.
Import ListNotations.
Local Open Scope string_scope.

Theorem C02_wiring_Slice_column_unweighted_bases :
  wsrc_Slice_column_unweighted_bases = Some (w_matrix_of "column_unweighted_bases").
Proof. exact Proofs.GenAgreeWiring_C02.gen_wiring_Slice_column_unweighted_bases. Qed.
Print Assumptions C02_wiring_Slice_column_unweighted_bases.

Theorem C02_wiring_Slice_column_weighted_bases :
  wsrc_Slice_column_weighted_bases = Some (w_matrix_of "column_weighted_bases").
Proof. exact Proofs.GenAgreeWiring_C02.gen_wiring_Slice_column_weighted_bases. Qed.
Print Assumptions C02_wiring_Slice_column_weighted_bases.

Theorem C02_wiring_Slice_columns_base :
  wsrc_Slice_columns_base = Some (WIf (WUn "not" (WAttr (WAttr (WSelf "_measures")
      "columns_unweighted_base") "is_defined")) (WSelf "column_unweighted_bases") (w_marginal_of
      "columns_unweighted_base")).
Proof. exact Proofs.GenAgreeWiring_C02.gen_wiring_Slice_columns_base. Qed.
Print Assumptions C02_wiring_Slice_columns_base.

Theorem C02_wiring_Slice_columns_margin :
  wsrc_Slice_columns_margin = Some (WIf (WUn "not" (WAttr (WAttr (WSelf "_measures")
      "columns_weighted_base") "is_defined")) (WSelf "column_weighted_bases") (w_marginal_of
      "columns_weighted_base")).
Proof. exact Proofs.GenAgreeWiring_C02.gen_wiring_Slice_columns_margin. Qed.
Print Assumptions C02_wiring_Slice_columns_margin.

Theorem C02_wiring_Slice_min_base_size_mask :
  wsrc_Slice_min_base_size_mask = Some (WCall (WGlobal "MinBaseSizeMask") [WVar "self"; WSelf
      "_mask_size"] []).
Proof. exact Proofs.GenAgreeWiring_C02.gen_wiring_Slice_min_base_size_mask. Qed.
Print Assumptions C02_wiring_Slice_min_base_size_mask.

Theorem C02_wiring_Slice_row_unweighted_bases :
  wsrc_Slice_row_unweighted_bases = Some (w_matrix_of "row_unweighted_bases").
Proof. exact Proofs.GenAgreeWiring_C02.gen_wiring_Slice_row_unweighted_bases. Qed.
Print Assumptions C02_wiring_Slice_row_unweighted_bases.

Theorem C02_wiring_Slice_row_weighted_bases :
  wsrc_Slice_row_weighted_bases = Some (w_matrix_of "row_weighted_bases").
Proof. exact Proofs.GenAgreeWiring_C02.gen_wiring_Slice_row_weighted_bases. Qed.
Print Assumptions C02_wiring_Slice_row_weighted_bases.

Theorem C02_wiring_Slice_rows_base :
  wsrc_Slice_rows_base = Some (WIf (WUn "not" (WAttr (WAttr (WSelf "_measures")
      "rows_unweighted_base") "is_defined")) (WSelf "row_unweighted_bases") (w_marginal_of
      "rows_unweighted_base")).
Proof. exact Proofs.GenAgreeWiring_C02.gen_wiring_Slice_rows_base. Qed.
Print Assumptions C02_wiring_Slice_rows_base.

Theorem C02_wiring_Slice_rows_margin :
  wsrc_Slice_rows_margin = Some (WIf (WUn "not" (WAttr (WAttr (WSelf "_measures")
      "rows_weighted_base") "is_defined")) (WSelf "row_weighted_bases") (w_marginal_of
      "rows_weighted_base")).
Proof. exact Proofs.GenAgreeWiring_C02.gen_wiring_Slice_rows_margin. Qed.
Print Assumptions C02_wiring_Slice_rows_margin.

Theorem C02_wiring_Slice_table_base :
  wsrc_Slice_table_base = Some (WIf (WAttr (WAttr (WSelf "_measures") "table_unweighted_base")
      "is_defined") (WAttr (WAttr (WSelf "_measures") "table_unweighted_base") "value") (WIf (WAttr
      (WAttr (WSelf "_measures") "columns_table_unweighted_base") "is_defined") (w_marginal_of
      "columns_table_unweighted_base") (WIf (WAttr (WAttr (WSelf "_measures")
      "rows_table_unweighted_base") "is_defined") (w_marginal_of "rows_table_unweighted_base")
      (WSelf "table_unweighted_bases")))).
Proof. exact Proofs.GenAgreeWiring_C02.gen_wiring_Slice_table_base. Qed.
Print Assumptions C02_wiring_Slice_table_base.

Theorem C02_wiring_Slice_table_margin :
  wsrc_Slice_table_margin = Some (WIf (WAttr (WAttr (WSelf "_measures") "table_weighted_base")
      "is_defined") (WAttr (WAttr (WSelf "_measures") "table_weighted_base") "value") (WIf (WAttr
      (WAttr (WSelf "_measures") "columns_table_weighted_base") "is_defined") (w_marginal_of
      "columns_table_weighted_base") (WIf (WAttr (WAttr (WSelf "_measures")
      "rows_table_weighted_base") "is_defined") (w_marginal_of "rows_table_weighted_base") (WSelf
      "table_weighted_bases")))).
Proof. exact Proofs.GenAgreeWiring_C02.gen_wiring_Slice_table_margin. Qed.
Print Assumptions C02_wiring_Slice_table_margin.

Theorem C02_wiring_Slice_table_unweighted_bases :
  wsrc_Slice_table_unweighted_bases = Some (w_matrix_of "table_unweighted_bases").
Proof. exact Proofs.GenAgreeWiring_C02.gen_wiring_Slice_table_unweighted_bases. Qed.
Print Assumptions C02_wiring_Slice_table_unweighted_bases.

Theorem C02_wiring_Slice_table_weighted_bases :
  wsrc_Slice_table_weighted_bases = Some (w_matrix_of "table_weighted_bases").
Proof. exact Proofs.GenAgreeWiring_C02.gen_wiring_Slice_table_weighted_bases. Qed.
Print Assumptions C02_wiring_Slice_table_weighted_bases.

Theorem C02_wiring_Slice_table_base_range :
  wsrc_Slice_table_base_range = Some (WAttr (WAttr (WSelf "_measures") "table_unweighted_bases_range")
      "value").
Proof. exact Proofs.GenAgreeWiring_C02.gen_wiring_Slice_table_base_range. Qed.
Print Assumptions C02_wiring_Slice_table_base_range.

Theorem C02_wiring_Slice_table_margin_range :
  wsrc_Slice_table_margin_range = Some (WAttr (WAttr (WSelf "_measures") "table_weighted_bases_range")
      "value").
Proof. exact Proofs.GenAgreeWiring_C02.gen_wiring_Slice_table_margin_range. Qed.
Print Assumptions C02_wiring_Slice_table_margin_range.

Theorem C02_wiring_Strand_min_base_size_mask :
  wsrc_Strand_min_base_size_mask = Some (WCmp "<" (WSelf "unweighted_bases") (WSelf "_mask_size")).
Proof. exact Proofs.GenAgreeWiring_C02.gen_wiring_Strand_min_base_size_mask. Qed.
Print Assumptions C02_wiring_Strand_min_base_size_mask.

Theorem C02_wiring_Strand_rows_base :
  wsrc_Strand_rows_base = Some (WSelf "unweighted_counts").
Proof. exact Proofs.GenAgreeWiring_C02.gen_wiring_Strand_rows_base. Qed.
Print Assumptions C02_wiring_Strand_rows_base.

Theorem C02_wiring_Strand_rows_margin :
  wsrc_Strand_rows_margin = Some (WSelf "counts").
Proof. exact Proofs.GenAgreeWiring_C02.gen_wiring_Strand_rows_margin. Qed.
Print Assumptions C02_wiring_Strand_rows_margin.

Theorem C02_wiring_Strand_table_base_range :
  wsrc_Strand_table_base_range = Some (WAttr (WAttr (WSelf "_measures") "unweighted_bases")
      "table_base_range").
Proof. exact Proofs.GenAgreeWiring_C02.gen_wiring_Strand_table_base_range. Qed.
Print Assumptions C02_wiring_Strand_table_base_range.

Theorem C02_wiring_Strand_table_margin_range :
  wsrc_Strand_table_margin_range = Some (WAttr (WAttr (WSelf "_measures") "weighted_bases")
      "table_margin_range").
Proof. exact Proofs.GenAgreeWiring_C02.gen_wiring_Strand_table_margin_range. Qed.
Print Assumptions C02_wiring_Strand_table_margin_range.

Theorem C02_wiring_Strand_unweighted_bases :
  wsrc_Strand_unweighted_bases = Some (w_vector_of "unweighted_bases").
Proof. exact Proofs.GenAgreeWiring_C02.gen_wiring_Strand_unweighted_bases. Qed.
Print Assumptions C02_wiring_Strand_unweighted_bases.

Theorem C02_wiring_Strand_weighted_bases :
  wsrc_Strand_weighted_bases = Some (w_vector_of "weighted_bases").
Proof. exact Proofs.GenAgreeWiring_C02.gen_wiring_Strand_weighted_bases. Qed.
Print Assumptions C02_wiring_Strand_weighted_bases.

Theorem C02_wiring_Nub_table_base :
  wsrc_Nub_table_base = Some (WAttr (WSelf "_scalar") "table_base").
Proof. exact Proofs.GenAgreeWiring_C02.gen_wiring_Nub_table_base. Qed.
Print Assumptions C02_wiring_Nub_table_base.

Theorem C02_wiring_SecondOrderMeasures_column_unweighted_bases :
  wsrc_SecondOrderMeasures_column_unweighted_bases = Some (WCall (WGlobal "_ColumnUnweightedBases")
      [WSelf "_dimensions"; WVar "self"; WSelf "_cube_measures"] []).
Proof. exact Proofs.GenAgreeWiring_C02.gen_wiring_SecondOrderMeasures_column_unweighted_bases. Qed.
Print Assumptions C02_wiring_SecondOrderMeasures_column_unweighted_bases.

Theorem C02_wiring_SecondOrderMeasures_column_weighted_bases :
  wsrc_SecondOrderMeasures_column_weighted_bases = Some (WCall (WGlobal "_ColumnWeightedBases") [WSelf
      "_dimensions"; WVar "self"; WSelf "_cube_measures"] []).
Proof. exact Proofs.GenAgreeWiring_C02.gen_wiring_SecondOrderMeasures_column_weighted_bases. Qed.
Print Assumptions C02_wiring_SecondOrderMeasures_column_weighted_bases.

Theorem C02_wiring_SecondOrderMeasures_columns_table_unweighted_base :
  wsrc_SecondOrderMeasures_columns_table_unweighted_base = Some (WCall (WGlobal "_MarginTableBase")
      [WSelf "_dimensions"; WVar "self"; WSelf "_cube_measures"; WAttr (WGlobal "MO") "COLUMNS";
      WAttr (WSelf "_cube_measures") "unweighted_cube_counts"] []).
Proof. exact Proofs.GenAgreeWiring_C02.gen_wiring_SecondOrderMeasures_columns_table_unweighted_base. Qed.
Print Assumptions C02_wiring_SecondOrderMeasures_columns_table_unweighted_base.

Theorem C02_wiring_SecondOrderMeasures_columns_table_weighted_base :
  wsrc_SecondOrderMeasures_columns_table_weighted_base = Some (WCall (WGlobal "_MarginTableBase")
      [WSelf "_dimensions"; WVar "self"; WSelf "_cube_measures"; WAttr (WGlobal "MO") "COLUMNS";
      WAttr (WSelf "_cube_measures") "weighted_cube_counts"] []).
Proof. exact Proofs.GenAgreeWiring_C02.gen_wiring_SecondOrderMeasures_columns_table_weighted_base. Qed.
Print Assumptions C02_wiring_SecondOrderMeasures_columns_table_weighted_base.

Theorem C02_wiring_SecondOrderMeasures_columns_unweighted_base :
  wsrc_SecondOrderMeasures_columns_unweighted_base = Some (WCall (WGlobal "_MarginUnweightedBase")
      [WSelf "_dimensions"; WVar "self"; WSelf "_cube_measures"; WAttr (WGlobal "MO") "COLUMNS"]
      []).
Proof. exact Proofs.GenAgreeWiring_C02.gen_wiring_SecondOrderMeasures_columns_unweighted_base. Qed.
Print Assumptions C02_wiring_SecondOrderMeasures_columns_unweighted_base.

Theorem C02_wiring_SecondOrderMeasures_columns_weighted_base :
  wsrc_SecondOrderMeasures_columns_weighted_base = Some (WCall (WGlobal "_MarginWeightedBase") [WSelf
      "_dimensions"; WVar "self"; WSelf "_cube_measures"; WAttr (WGlobal "MO") "COLUMNS"] []).
Proof. exact Proofs.GenAgreeWiring_C02.gen_wiring_SecondOrderMeasures_columns_weighted_base. Qed.
Print Assumptions C02_wiring_SecondOrderMeasures_columns_weighted_base.

Theorem C02_wiring_SecondOrderMeasures_row_unweighted_bases :
  wsrc_SecondOrderMeasures_row_unweighted_bases = Some (WCall (WGlobal "_RowUnweightedBases") [WSelf
      "_dimensions"; WVar "self"; WSelf "_cube_measures"] []).
Proof. exact Proofs.GenAgreeWiring_C02.gen_wiring_SecondOrderMeasures_row_unweighted_bases. Qed.
Print Assumptions C02_wiring_SecondOrderMeasures_row_unweighted_bases.

Theorem C02_wiring_SecondOrderMeasures_row_weighted_bases :
  wsrc_SecondOrderMeasures_row_weighted_bases = Some (WCall (WGlobal "_RowWeightedBases") [WSelf
      "_dimensions"; WVar "self"; WSelf "_cube_measures"] []).
Proof. exact Proofs.GenAgreeWiring_C02.gen_wiring_SecondOrderMeasures_row_weighted_bases. Qed.
Print Assumptions C02_wiring_SecondOrderMeasures_row_weighted_bases.

Theorem C02_wiring_SecondOrderMeasures_rows_table_unweighted_base :
  wsrc_SecondOrderMeasures_rows_table_unweighted_base = Some (WCall (WGlobal "_MarginTableBase")
      [WSelf "_dimensions"; WVar "self"; WSelf "_cube_measures"; WAttr (WGlobal "MO") "ROWS"; WAttr
      (WSelf "_cube_measures") "unweighted_cube_counts"] []).
Proof. exact Proofs.GenAgreeWiring_C02.gen_wiring_SecondOrderMeasures_rows_table_unweighted_base. Qed.
Print Assumptions C02_wiring_SecondOrderMeasures_rows_table_unweighted_base.

Theorem C02_wiring_SecondOrderMeasures_rows_table_weighted_base :
  wsrc_SecondOrderMeasures_rows_table_weighted_base = Some (WCall (WGlobal "_MarginTableBase") [WSelf
      "_dimensions"; WVar "self"; WSelf "_cube_measures"; WAttr (WGlobal "MO") "ROWS"; WAttr (WSelf
      "_cube_measures") "weighted_cube_counts"] []).
Proof. exact Proofs.GenAgreeWiring_C02.gen_wiring_SecondOrderMeasures_rows_table_weighted_base. Qed.
Print Assumptions C02_wiring_SecondOrderMeasures_rows_table_weighted_base.

Theorem C02_wiring_SecondOrderMeasures_rows_unweighted_base :
  wsrc_SecondOrderMeasures_rows_unweighted_base = Some (WCall (WGlobal "_MarginUnweightedBase") [WSelf
      "_dimensions"; WVar "self"; WSelf "_cube_measures"; WAttr (WGlobal "MO") "ROWS"] []).
Proof. exact Proofs.GenAgreeWiring_C02.gen_wiring_SecondOrderMeasures_rows_unweighted_base. Qed.
Print Assumptions C02_wiring_SecondOrderMeasures_rows_unweighted_base.

Theorem C02_wiring_SecondOrderMeasures_rows_weighted_base :
  wsrc_SecondOrderMeasures_rows_weighted_base = Some (WCall (WGlobal "_MarginWeightedBase") [WSelf
      "_dimensions"; WVar "self"; WSelf "_cube_measures"; WAttr (WGlobal "MO") "ROWS"] []).
Proof. exact Proofs.GenAgreeWiring_C02.gen_wiring_SecondOrderMeasures_rows_weighted_base. Qed.
Print Assumptions C02_wiring_SecondOrderMeasures_rows_weighted_base.

Theorem C02_wiring_SecondOrderMeasures_table_unweighted_base :
  wsrc_SecondOrderMeasures_table_unweighted_base = Some (WCall (WGlobal "_TableBase") [WSelf
      "_dimensions"; WVar "self"; WSelf "_cube_measures"; WAttr (WSelf "_cube_measures")
      "unweighted_cube_counts"] []).
Proof. exact Proofs.GenAgreeWiring_C02.gen_wiring_SecondOrderMeasures_table_unweighted_base. Qed.
Print Assumptions C02_wiring_SecondOrderMeasures_table_unweighted_base.

Theorem C02_wiring_SecondOrderMeasures_table_unweighted_bases :
  wsrc_SecondOrderMeasures_table_unweighted_bases = Some (WCall (WGlobal "_TableUnweightedBases")
      [WSelf "_dimensions"; WVar "self"; WSelf "_cube_measures"] []).
Proof. exact Proofs.GenAgreeWiring_C02.gen_wiring_SecondOrderMeasures_table_unweighted_bases. Qed.
Print Assumptions C02_wiring_SecondOrderMeasures_table_unweighted_bases.

Theorem C02_wiring_SecondOrderMeasures_table_unweighted_bases_range :
  wsrc_SecondOrderMeasures_table_unweighted_bases_range = Some (WCall (WGlobal "_TableBasesRange")
      [WSelf "_dimensions"; WVar "self"; WSelf "_cube_measures"; WAttr (WSelf "_cube_measures")
      "unweighted_cube_counts"] []).
Proof. exact Proofs.GenAgreeWiring_C02.gen_wiring_SecondOrderMeasures_table_unweighted_bases_range. Qed.
Print Assumptions C02_wiring_SecondOrderMeasures_table_unweighted_bases_range.

Theorem C02_wiring_SecondOrderMeasures_table_weighted_base :
  wsrc_SecondOrderMeasures_table_weighted_base = Some (WCall (WGlobal "_TableBase") [WSelf
      "_dimensions"; WVar "self"; WSelf "_cube_measures"; WAttr (WSelf "_cube_measures")
      "weighted_cube_counts"] []).
Proof. exact Proofs.GenAgreeWiring_C02.gen_wiring_SecondOrderMeasures_table_weighted_base. Qed.
Print Assumptions C02_wiring_SecondOrderMeasures_table_weighted_base.

Theorem C02_wiring_SecondOrderMeasures_table_weighted_bases :
  wsrc_SecondOrderMeasures_table_weighted_bases = Some (WCall (WGlobal "_TableWeightedBases") [WSelf
      "_dimensions"; WVar "self"; WSelf "_cube_measures"] []).
Proof. exact Proofs.GenAgreeWiring_C02.gen_wiring_SecondOrderMeasures_table_weighted_bases. Qed.
Print Assumptions C02_wiring_SecondOrderMeasures_table_weighted_bases.

Theorem C02_wiring_SecondOrderMeasures_table_weighted_bases_range :
  wsrc_SecondOrderMeasures_table_weighted_bases_range = Some (WCall (WGlobal "_TableBasesRange")
      [WSelf "_dimensions"; WVar "self"; WSelf "_cube_measures"; WAttr (WSelf "_cube_measures")
      "weighted_cube_counts"] []).
Proof. exact Proofs.GenAgreeWiring_C02.gen_wiring_SecondOrderMeasures_table_weighted_bases_range. Qed.
Print Assumptions C02_wiring_SecondOrderMeasures_table_weighted_bases_range.

Theorem C02_wiring_StripeMeasures_unweighted_bases :
  wsrc_StripeMeasures_unweighted_bases = Some (WCall (WGlobal "_UnweightedBases") [WSelf
      "_rows_dimension"; WVar "self"; WSelf "_cube_measures"] []).
Proof. exact Proofs.GenAgreeWiring_C02.gen_wiring_StripeMeasures_unweighted_bases. Qed.
Print Assumptions C02_wiring_StripeMeasures_unweighted_bases.

Theorem C02_wiring_StripeMeasures_weighted_bases :
  wsrc_StripeMeasures_weighted_bases = Some (WCall (WGlobal "_WeightedBases") [WSelf
      "_rows_dimension"; WVar "self"; WSelf "_cube_measures"] []).
Proof. exact Proofs.GenAgreeWiring_C02.gen_wiring_StripeMeasures_weighted_bases. Qed.
Print Assumptions C02_wiring_StripeMeasures_weighted_bases.

End Wiring_C02.
(* ---- WIRING-APPENDIX:END ---- *)

(*BEGIN ComposePublic_C02*)
(* ==== COMPOSED PUBLIC THEOREMS (DESIGN 8.1: the composition of the translators' links, proved) ==== *)
(* Generated by tools/gen_compose_appendix.py; do not edit between the markers.
   [public_slice C p] (Proofs/ComposePublicSem.v) is the value of the public member p of cubepart._Slice computed
   by the CHAIN OF GENERATED TERMS: the wiring term of p (Gen/WiringSrc.v, x_wiring) over the evaluation ([aeval]) of
   the generated `_assemble_matrix` term (Gen/AssembleSrc.v, x_assemble) over the evaluations ([meval] / [meval_sq] /
   [beval]) of the generated block terms of the measure (Gen/MeasureSrc.v, Gen/BasesSrc.v) -- each in the environment
   in which the blocks of the measures it mentions are again evaluations of generated terms -- on the context
   [Cs ..]: the four first-order arrays Model/CubeCounts.v::slice_counts extracts from the flat payload of
   `tabulate S` ([survey_payload]), any subtotals / flags, any pair of in-range signed display orders.
   [need b P] = P when every generated term named in b is available ([None] => True, like the GenAgree lemmas);
   Cxx_public_terms_available: on this tree they all are.  The proofs use the GenAgree lemmas of the links as they
   are (never unfolding a generated term) and Proofs/Compose*.v / Merge*.v for the last step to the respondents.
   A change of MEANING of any generated term of a chain breaks the composed theorem of every member above it. *)
From Coq Require String.
From CC Require Spec.Merge Model.Subtotals Model.Proportions Proofs.MergeSurvey Proofs.ComposeBase Proofs.ComposePayload
     Proofs.ComposePublicSem Proofs.ComposePublicLinks Proofs.ComposePublicSlice Proofs.ComposePublicCells Proofs.ComposePublicC02.
Section ComposePublic_C02.   (* scopes and imports below end with the section *)
Import Coq.Strings.String Coq.ZArith.ZArith CC.Spec.Merge CC.Model.Subtotals CC.Model.Proportions CC.Proofs.MergeSurvey
       CC.Proofs.ComposeBase CC.Proofs.ComposePayload CC.Proofs.ComposePublicSem CC.Proofs.ComposePublicLinks
       CC.Proofs.ComposePublicSlice CC.Proofs.ComposePublicCells CC.Proofs.ComposePublicC02.
Import Coq.Lists.List.ListNotations.
Local Close Scope Q_scope.
Local Open Scope string_scope.
Local Open Scope nat_scope.


(* the vocabulary of the statements ([survey_display], [cells_spec], [merge_row_ok], [row_subtotal]:
   C03_public_vocabulary in Props/C03.v) *)
Theorem C02_public_vocabulary :
  forall w S tv vr kr mr vc kc mc k rsubs ro co i j x,
     base_cell_spec w S tv vr kr mr vc kc mc k rsubs ro co i j x =
     (((0 <= nth i ro 0%Z)%Z ->
         x =x= Fin (w tv k vr kr mr vc kc mc S (Z.to_nat (nth i ro 0%Z)) (Z.to_nat (nth j co 0%Z)))) /\
      ((nth i ro 0%Z < 0)%Z -> kr = KCat -> merge_row_ok S tv vr vc mr (row_subtotal rsubs ro i) ->
         x =x= Fin (w tv k vr KCat (merged_flags mr) vc kc mc
                      (merged_rows_survey S vr mr (row_subtotal rsubs ro i)) (nval mr) (Z.to_nat (nth j co 0%Z))))).
Proof. exact (fun _ _ _ _ _ _ _ _ _ _ _ _ _ _ _ _ => eq_refl). Qed.
Print Assumptions C02_public_vocabulary.

(* _Slice.row_weighted_bases, display cell (i, j) of a base column c: base row r: the weighted respondents in row r and eligible for column c; subtotal row: the same for the merged category *)
Theorem C02_public_Slice_row_weighted_bases :
  need terms_public_row_weighted_bases
  (forall S tv vr kr mr vc kc mc k rsubs csubs dn rd cd flag ro co so,
     survey_display S tv vr kr mr vc kc mc k rsubs csubs ro co so ->
     cells_spec (public_slice (Cs mr mc rsubs csubs dn rd cd flag ro co so) "row_weighted_bases") ro co
       (fun i j => base_cell_spec w_rowbase S tv vr kr mr vc kc mc k rsubs ro co i j)).
Proof. exact compose_public_Slice_row_weighted_bases. Qed.
Print Assumptions C02_public_Slice_row_weighted_bases.

(* _Slice.column_weighted_bases, display cell (i, j) of a base column c: base row r: the weighted respondents eligible for row r and in column c; subtotal row: the same for the merged category *)
Theorem C02_public_Slice_column_weighted_bases :
  need terms_public_column_weighted_bases
  (forall S tv vr kr mr vc kc mc k rsubs csubs dn rd cd flag ro co so,
     survey_display S tv vr kr mr vc kc mc k rsubs csubs ro co so ->
     cells_spec (public_slice (Cs mr mc rsubs csubs dn rd cd flag ro co so) "column_weighted_bases") ro co
       (fun i j => base_cell_spec w_colbase S tv vr kr mr vc kc mc k rsubs ro co i j)).
Proof. exact compose_public_Slice_column_weighted_bases. Qed.
Print Assumptions C02_public_Slice_column_weighted_bases.

(* _Slice.table_weighted_bases, display cell (i, j) of a base column c: base row r: the weighted respondents eligible for row r and for column c; subtotal row: the same for the merged category *)
Theorem C02_public_Slice_table_weighted_bases :
  need terms_public_table_weighted_bases
  (forall S tv vr kr mr vc kc mc k rsubs csubs dn rd cd flag ro co so,
     survey_display S tv vr kr mr vc kc mc k rsubs csubs ro co so ->
     cells_spec (public_slice (Cs mr mc rsubs csubs dn rd cd flag ro co so) "table_weighted_bases") ro co
       (fun i j => base_cell_spec w_tabbase S tv vr kr mr vc kc mc k rsubs ro co i j)).
Proof. exact compose_public_Slice_table_weighted_bases. Qed.
Print Assumptions C02_public_Slice_table_weighted_bases.

(* NON-VACUITY of the guards: every generated term the chains need is available on this tree *)
Theorem C02_public_terms_available :
  terms_public_row_weighted_bases = true /\ terms_public_column_weighted_bases = true /\ terms_public_table_weighted_bases = true.
Proof. exact (conj eq_refl (conj eq_refl eq_refl)). Qed.
Print Assumptions C02_public_terms_available.

(* EXAMPLES: the survey, subtotal and display of the C03_public_* examples *)
Example C02_public_Slice_row_weighted_bases_example :
  let S := [ mkResp [ACat 0; AMr [Sel; Oth]; ACat 0] (3 # 2);
             mkResp [ACat 2; AMr [Sel; Mis]; ACat 1] 2;
             mkResp [ACat 1; AMr [Sel; Sel]; ACat 0] 5;
             mkResp [ACat 2; AMr [Oth; Sel]; ACat 1] (1 # 4);
             mkResp [ACat 0; AMr [Oth; Oth]; ACat 2] 1 ] in
  let mr := [false; true; false; false] in
  let mc := [false; false] in
  let rs := [mkSub [0; 2] []] in
  let ro := [1; -1; 0]%Z in
  let co := [1; 0]%Z in
  let S' := merged_rows_survey S 0 mr (row_subtotal rs ro 1) in
  match slice_counts (cube_dims None KCat mr KMr mc) (survey_payload None 0 KCat mr 1 KMr mc S) 0 with
  | Some so =>
      let P := public_slice (Cs mr mc rs [] false false false (fun _ => false) ro co so) "row_weighted_bases" in
      survey_display S None 0 KCat mr 1 KMr mc 0 rs [] ro co so /\
      merge_row_ok S None 0 1 mr (row_subtotal rs ro 1) /\
      cells_spec P ro co (fun i j => base_cell_spec w_rowbase S None 0 KCat mr 1 KMr mc 0 rs ro co i j) /\
      pred P = PMat 3 2 [[Fin (1 # 4); Fin (9 # 4)]; [Fin (5 # 2); Fin (5 # 2)]; [Fin (5 # 2); Fin (5 # 2)]] /\
      (w_rowbase None 0 0 KCat mr 1 KMr mc S 1 0 == 9 # 4)%Q /\
      (w_rowbase None 0 0 KCat (merged_flags mr) 1 KMr mc S' 3 0 == 5 # 2)%Q
  | None => False
  end.
Proof.
  cbv zeta.
  destruct (slice_counts (cube_dims None KCat [false; true; false; false] KMr [false; false])
              (survey_payload None 0 KCat [false; true; false; false] 1 KMr [false; false] _) 0) as [so|] eqn:E;
    [|vm_compute in E; discriminate].
  assert (D : survey_display
                [ mkResp [ACat 0; AMr [Sel; Oth]; ACat 0] (3 # 2); mkResp [ACat 2; AMr [Sel; Mis]; ACat 1] 2;
                  mkResp [ACat 1; AMr [Sel; Sel]; ACat 0] 5; mkResp [ACat 2; AMr [Oth; Sel]; ACat 1] (1 # 4);
                  mkResp [ACat 0; AMr [Oth; Oth]; ACat 2] 1 ]
                None 0 KCat [false; true; false; false] 1 KMr [false; false] 0 [mkSub [0; 2] []] []
                [1; -1; 0]%Z [1; 0]%Z so).
  { split; [exact I|]. split; [left; reflexivity|]. split; [right; reflexivity|]. split; [vm_compute; lia|].
    split; [repeat constructor; discriminate|]. split; [vm_compute; lia|]. split; [vm_compute; lia|].
    split; [exact E|]. split; repeat constructor; vm_compute; discriminate. }
  split; [exact D|].
  split.
  { split; [discriminate|]. split; [exact I|]. split.
    - intros r Hr. repeat (destruct Hr as [<-|Hr]; [vm_compute; discriminate|]). destruct Hr.
    - split; [reflexivity|]. split; [repeat constructor; vm_compute; lia|].
      repeat constructor; simpl; intuition discriminate. }
  split; [exact (need_elim _ _ eq_refl C02_public_Slice_row_weighted_bases _ _ _ _ _ _ _ _ _ _ _ _ _ _ _ _ _ _ D)|].
  vm_compute in E. injection E as <-.
  split; [vm_compute; reflexivity|]. split; [vm_compute; reflexivity|]. vm_compute; reflexivity.
Qed.

Example C02_public_Slice_column_weighted_bases_example :
  let S := [ mkResp [ACat 0; AMr [Sel; Oth]; ACat 0] (3 # 2);
             mkResp [ACat 2; AMr [Sel; Mis]; ACat 1] 2;
             mkResp [ACat 1; AMr [Sel; Sel]; ACat 0] 5;
             mkResp [ACat 2; AMr [Oth; Sel]; ACat 1] (1 # 4);
             mkResp [ACat 0; AMr [Oth; Oth]; ACat 2] 1 ] in
  let mr := [false; true; false; false] in
  let mc := [false; false] in
  let rs := [mkSub [0; 2] []] in
  let ro := [1; -1; 0]%Z in
  let co := [1; 0]%Z in
  let S' := merged_rows_survey S 0 mr (row_subtotal rs ro 1) in
  match slice_counts (cube_dims None KCat mr KMr mc) (survey_payload None 0 KCat mr 1 KMr mc S) 0 with
  | Some so =>
      let P := public_slice (Cs mr mc rs [] false false false (fun _ => false) ro co so) "column_weighted_bases" in
      survey_display S None 0 KCat mr 1 KMr mc 0 rs [] ro co so /\
      merge_row_ok S None 0 1 mr (row_subtotal rs ro 1) /\
      cells_spec P ro co (fun i j => base_cell_spec w_colbase S None 0 KCat mr 1 KMr mc 0 rs ro co i j) /\
      pred P = PMat 3 2 [[Fin (1 # 4); Fin (7 # 2)]; [Fin (1 # 4); Fin (7 # 2)]; [Fin (1 # 4); Fin (7 # 2)]] /\
      (w_colbase None 0 0 KCat mr 1 KMr mc S 1 0 == 7 # 2)%Q /\
      (w_colbase None 0 0 KCat (merged_flags mr) 1 KMr mc S' 3 0 == 7 # 2)%Q
  | None => False
  end.
Proof.
  cbv zeta.
  destruct (slice_counts (cube_dims None KCat [false; true; false; false] KMr [false; false])
              (survey_payload None 0 KCat [false; true; false; false] 1 KMr [false; false] _) 0) as [so|] eqn:E;
    [|vm_compute in E; discriminate].
  assert (D : survey_display
                [ mkResp [ACat 0; AMr [Sel; Oth]; ACat 0] (3 # 2); mkResp [ACat 2; AMr [Sel; Mis]; ACat 1] 2;
                  mkResp [ACat 1; AMr [Sel; Sel]; ACat 0] 5; mkResp [ACat 2; AMr [Oth; Sel]; ACat 1] (1 # 4);
                  mkResp [ACat 0; AMr [Oth; Oth]; ACat 2] 1 ]
                None 0 KCat [false; true; false; false] 1 KMr [false; false] 0 [mkSub [0; 2] []] []
                [1; -1; 0]%Z [1; 0]%Z so).
  { split; [exact I|]. split; [left; reflexivity|]. split; [right; reflexivity|]. split; [vm_compute; lia|].
    split; [repeat constructor; discriminate|]. split; [vm_compute; lia|]. split; [vm_compute; lia|].
    split; [exact E|]. split; repeat constructor; vm_compute; discriminate. }
  split; [exact D|].
  split.
  { split; [discriminate|]. split; [exact I|]. split.
    - intros r Hr. repeat (destruct Hr as [<-|Hr]; [vm_compute; discriminate|]). destruct Hr.
    - split; [reflexivity|]. split; [repeat constructor; vm_compute; lia|].
      repeat constructor; simpl; intuition discriminate. }
  split; [exact (need_elim _ _ eq_refl C02_public_Slice_column_weighted_bases _ _ _ _ _ _ _ _ _ _ _ _ _ _ _ _ _ _ D)|].
  vm_compute in E. injection E as <-.
  split; [vm_compute; reflexivity|]. split; [vm_compute; reflexivity|]. vm_compute; reflexivity.
Qed.

Example C02_public_Slice_table_weighted_bases_example :
  let S := [ mkResp [ACat 0; AMr [Sel; Oth]; ACat 0] (3 # 2);
             mkResp [ACat 2; AMr [Sel; Mis]; ACat 1] 2;
             mkResp [ACat 1; AMr [Sel; Sel]; ACat 0] 5;
             mkResp [ACat 2; AMr [Oth; Sel]; ACat 1] (1 # 4);
             mkResp [ACat 0; AMr [Oth; Oth]; ACat 2] 1 ] in
  let mr := [false; true; false; false] in
  let mc := [false; false] in
  let rs := [mkSub [0; 2] []] in
  let ro := [1; -1; 0]%Z in
  let co := [1; 0]%Z in
  let S' := merged_rows_survey S 0 mr (row_subtotal rs ro 1) in
  match slice_counts (cube_dims None KCat mr KMr mc) (survey_payload None 0 KCat mr 1 KMr mc S) 0 with
  | Some so =>
      let P := public_slice (Cs mr mc rs [] false false false (fun _ => false) ro co so) "table_weighted_bases" in
      survey_display S None 0 KCat mr 1 KMr mc 0 rs [] ro co so /\
      merge_row_ok S None 0 1 mr (row_subtotal rs ro 1) /\
      cells_spec P ro co (fun i j => base_cell_spec w_tabbase S None 0 KCat mr 1 KMr mc 0 rs ro co i j) /\
      pred P = PMat 3 2 [[Fin (11 # 4); Fin (19 # 4)]; [Fin (11 # 4); Fin (19 # 4)]; [Fin (11 # 4); Fin (19 # 4)]] /\
      (w_tabbase None 0 0 KCat mr 1 KMr mc S 1 0 == 19 # 4)%Q /\
      (w_tabbase None 0 0 KCat (merged_flags mr) 1 KMr mc S' 3 0 == 19 # 4)%Q
  | None => False
  end.
Proof.
  cbv zeta.
  destruct (slice_counts (cube_dims None KCat [false; true; false; false] KMr [false; false])
              (survey_payload None 0 KCat [false; true; false; false] 1 KMr [false; false] _) 0) as [so|] eqn:E;
    [|vm_compute in E; discriminate].
  assert (D : survey_display
                [ mkResp [ACat 0; AMr [Sel; Oth]; ACat 0] (3 # 2); mkResp [ACat 2; AMr [Sel; Mis]; ACat 1] 2;
                  mkResp [ACat 1; AMr [Sel; Sel]; ACat 0] 5; mkResp [ACat 2; AMr [Oth; Sel]; ACat 1] (1 # 4);
                  mkResp [ACat 0; AMr [Oth; Oth]; ACat 2] 1 ]
                None 0 KCat [false; true; false; false] 1 KMr [false; false] 0 [mkSub [0; 2] []] []
                [1; -1; 0]%Z [1; 0]%Z so).
  { split; [exact I|]. split; [left; reflexivity|]. split; [right; reflexivity|]. split; [vm_compute; lia|].
    split; [repeat constructor; discriminate|]. split; [vm_compute; lia|]. split; [vm_compute; lia|].
    split; [exact E|]. split; repeat constructor; vm_compute; discriminate. }
  split; [exact D|].
  split.
  { split; [discriminate|]. split; [exact I|]. split.
    - intros r Hr. repeat (destruct Hr as [<-|Hr]; [vm_compute; discriminate|]). destruct Hr.
    - split; [reflexivity|]. split; [repeat constructor; vm_compute; lia|].
      repeat constructor; simpl; intuition discriminate. }
  split; [exact (need_elim _ _ eq_refl C02_public_Slice_table_weighted_bases _ _ _ _ _ _ _ _ _ _ _ _ _ _ _ _ _ _ D)|].
  vm_compute in E. injection E as <-.
  split; [vm_compute; reflexivity|]. split; [vm_compute; reflexivity|]. vm_compute; reflexivity.
Qed.


(* UNWEIGHTED BASES.  [Cs_u .. so su]: the context with both cube measures - `weighted_cube_counts` from the payload of S
   (so), `unweighted_cube_counts` from the payload of the survey with UNIT weights (su; its 1-D rows_base / columns_base are
   the repeated margins of the row / column unweighted bases).  A base cell is the NUMBER of respondents of the base. *)
Theorem C02_public_unweighted_vocabulary :
  (forall w S tv vr kr mr vc kc mc k r c x,
     ubase_cell_spec w S tv vr kr mr vc kc mc k r c x = (x =x= Fin (w tv k vr kr mr vc kc mc (unit_weights S) r c))) /\
  (forall P ro co spec,
     base_cells_spec P ro co spec =
     (pshape P = Some (List.length ro, List.length co) /\
      forall i j, i < List.length ro -> j < List.length co -> (0 <= nth i ro 0%Z)%Z -> (0 <= nth j co 0%Z)%Z ->
        spec (Z.to_nat (nth i ro 0%Z)) (Z.to_nat (nth j co 0%Z)) (pcell P i j))).
Proof. exact (conj (fun _ _ _ _ _ _ _ _ _ _ _ _ _ => eq_refl) (fun _ _ _ _ => eq_refl)). Qed.
Print Assumptions C02_public_unweighted_vocabulary.

Theorem C02_public_Slice_row_unweighted_bases :
  need terms_public_row_unweighted_bases
  (forall S tv vr kr mr vc kc mc k rsubs csubs dn rd cd flag ro co so su,
     survey_display S tv vr kr mr vc kc mc k rsubs csubs ro co so ->
     slice_counts (cube_dims tv kr mr kc mc) (survey_payload tv vr kr mr vc kc mc (unit_weights S)) k = Some su ->
     base_cells_spec (public_slice (Cs_u mr mc rsubs csubs dn rd cd flag ro co so su) "row_unweighted_bases") ro co
       (ubase_cell_spec w_rowbase S tv vr kr mr vc kc mc k)).
Proof. exact compose_public_Slice_row_unweighted_bases. Qed.
Print Assumptions C02_public_Slice_row_unweighted_bases.

Theorem C02_public_Slice_column_unweighted_bases :
  need terms_public_column_unweighted_bases
  (forall S tv vr kr mr vc kc mc k rsubs csubs dn rd cd flag ro co so su,
     survey_display S tv vr kr mr vc kc mc k rsubs csubs ro co so ->
     slice_counts (cube_dims tv kr mr kc mc) (survey_payload tv vr kr mr vc kc mc (unit_weights S)) k = Some su ->
     base_cells_spec (public_slice (Cs_u mr mc rsubs csubs dn rd cd flag ro co so su) "column_unweighted_bases") ro co
       (ubase_cell_spec w_colbase S tv vr kr mr vc kc mc k)).
Proof. exact compose_public_Slice_column_unweighted_bases. Qed.
Print Assumptions C02_public_Slice_column_unweighted_bases.

Theorem C02_public_Slice_table_unweighted_bases :
  need terms_public_table_unweighted_bases
  (forall S tv vr kr mr vc kc mc k rsubs csubs dn rd cd flag ro co so su,
     survey_display S tv vr kr mr vc kc mc k rsubs csubs ro co so ->
     slice_counts (cube_dims tv kr mr kc mc) (survey_payload tv vr kr mr vc kc mc (unit_weights S)) k = Some su ->
     base_cells_spec (public_slice (Cs_u mr mc rsubs csubs dn rd cd flag ro co so su) "table_unweighted_bases") ro co
       (ubase_cell_spec w_tabbase S tv vr kr mr vc kc mc k)).
Proof. exact compose_public_Slice_table_unweighted_bases. Qed.
Print Assumptions C02_public_Slice_table_unweighted_bases.

Theorem C02_public_unweighted_terms_available :
  terms_public_row_unweighted_bases = true /\ terms_public_column_unweighted_bases = true /\
  terms_public_table_unweighted_bases = true.
Proof. exact (conj eq_refl (conj eq_refl eq_refl)). Qed.
Print Assumptions C02_public_unweighted_terms_available.

Example C02_public_Slice_row_unweighted_bases_example :
  let S := [ mkResp [ACat 0; AMr [Sel; Oth]; ACat 0] (3 # 2);
             mkResp [ACat 2; AMr [Sel; Mis]; ACat 1] 2;
             mkResp [ACat 1; AMr [Sel; Sel]; ACat 0] 5;
             mkResp [ACat 2; AMr [Oth; Sel]; ACat 1] (1 # 4);
             mkResp [ACat 0; AMr [Oth; Oth]; ACat 2] 1 ] in
  let mr := [false; true; false; false] in
  let mc := [false; false] in
  let rs := [mkSub [0; 2] []] in
  let ro := [1; -1; 0]%Z in
  let co := [1; 0]%Z in
  match slice_counts (cube_dims None KCat mr KMr mc) (survey_payload None 0 KCat mr 1 KMr mc S) 0,
        slice_counts (cube_dims None KCat mr KMr mc) (survey_payload None 0 KCat mr 1 KMr mc (unit_weights S)) 0 with
  | Some so, Some su =>
      let P := public_slice (Cs_u mr mc rs [] false false false (fun _ => false) ro co so su) "row_unweighted_bases" in
      survey_display S None 0 KCat mr 1 KMr mc 0 rs [] ro co so /\
      base_cells_spec P ro co (ubase_cell_spec w_rowbase S None 0 KCat mr 1 KMr mc 0) /\
      pred P = PMat 3 2 [[Fin 1; Fin 2]; [Fin 2; Fin 2]; [Fin 2; Fin 2]] /\
      (w_rowbase None 0 0 KCat mr 1 KMr mc (unit_weights S) 1 0 == 2)%Q
  | _, _ => False
  end.
Proof.
  cbv zeta.
  destruct (slice_counts (cube_dims None KCat [false; true; false; false] KMr [false; false])
              (survey_payload None 0 KCat [false; true; false; false] 1 KMr [false; false]
                 [ mkResp [ACat 0; AMr [Sel; Oth]; ACat 0] (3 # 2); mkResp [ACat 2; AMr [Sel; Mis]; ACat 1] 2;
                   mkResp [ACat 1; AMr [Sel; Sel]; ACat 0] 5; mkResp [ACat 2; AMr [Oth; Sel]; ACat 1] (1 # 4);
                   mkResp [ACat 0; AMr [Oth; Oth]; ACat 2] 1 ]) 0) as [so|] eqn:E;
    [|vm_compute in E; discriminate].
  destruct (slice_counts (cube_dims None KCat [false; true; false; false] KMr [false; false])
              (survey_payload None 0 KCat [false; true; false; false] 1 KMr [false; false] (unit_weights _)) 0)
    as [su|] eqn:EU; [|vm_compute in EU; discriminate].
  assert (D : survey_display
                [ mkResp [ACat 0; AMr [Sel; Oth]; ACat 0] (3 # 2); mkResp [ACat 2; AMr [Sel; Mis]; ACat 1] 2;
                  mkResp [ACat 1; AMr [Sel; Sel]; ACat 0] 5; mkResp [ACat 2; AMr [Oth; Sel]; ACat 1] (1 # 4);
                  mkResp [ACat 0; AMr [Oth; Oth]; ACat 2] 1 ]
                None 0 KCat [false; true; false; false] 1 KMr [false; false] 0 [mkSub [0; 2] []] []
                [1; -1; 0]%Z [1; 0]%Z so).
  { split; [exact I|]. split; [left; reflexivity|]. split; [right; reflexivity|]. split; [vm_compute; lia|].
    split; [repeat constructor; discriminate|]. split; [vm_compute; lia|]. split; [vm_compute; lia|].
    split; [exact E|]. split; repeat constructor; vm_compute; discriminate. }
  split; [exact D|].
  split; [exact (need_elim _ _ eq_refl C02_public_Slice_row_unweighted_bases _ _ _ _ _ _ _ _ _ _ _ _ _ _ _ _ _ _ _ D EU)|].
  vm_compute in E. injection E as <-. vm_compute in EU. injection EU as <-.
  split; vm_compute; reflexivity.
Qed.

Example C02_public_Slice_column_unweighted_bases_example :
  let S := [ mkResp [ACat 0; AMr [Sel; Oth]; ACat 0] (3 # 2);
             mkResp [ACat 2; AMr [Sel; Mis]; ACat 1] 2;
             mkResp [ACat 1; AMr [Sel; Sel]; ACat 0] 5;
             mkResp [ACat 2; AMr [Oth; Sel]; ACat 1] (1 # 4);
             mkResp [ACat 0; AMr [Oth; Oth]; ACat 2] 1 ] in
  let mr := [false; true; false; false] in
  let mc := [false; false] in
  let rs := [mkSub [0; 2] []] in
  let ro := [1; -1; 0]%Z in
  let co := [1; 0]%Z in
  match slice_counts (cube_dims None KCat mr KMr mc) (survey_payload None 0 KCat mr 1 KMr mc S) 0,
        slice_counts (cube_dims None KCat mr KMr mc) (survey_payload None 0 KCat mr 1 KMr mc (unit_weights S)) 0 with
  | Some so, Some su =>
      let P := public_slice (Cs_u mr mc rs [] false false false (fun _ => false) ro co so su) "column_unweighted_bases" in
      survey_display S None 0 KCat mr 1 KMr mc 0 rs [] ro co so /\
      base_cells_spec P ro co (ubase_cell_spec w_colbase S None 0 KCat mr 1 KMr mc 0) /\
      pred P = PMat 3 2 [[Fin 1; Fin 2]; [Fin 1; Fin 2]; [Fin 1; Fin 2]] /\
      (w_colbase None 0 0 KCat mr 1 KMr mc (unit_weights S) 1 0 == 2)%Q
  | _, _ => False
  end.
Proof.
  cbv zeta.
  destruct (slice_counts (cube_dims None KCat [false; true; false; false] KMr [false; false])
              (survey_payload None 0 KCat [false; true; false; false] 1 KMr [false; false]
                 [ mkResp [ACat 0; AMr [Sel; Oth]; ACat 0] (3 # 2); mkResp [ACat 2; AMr [Sel; Mis]; ACat 1] 2;
                   mkResp [ACat 1; AMr [Sel; Sel]; ACat 0] 5; mkResp [ACat 2; AMr [Oth; Sel]; ACat 1] (1 # 4);
                   mkResp [ACat 0; AMr [Oth; Oth]; ACat 2] 1 ]) 0) as [so|] eqn:E;
    [|vm_compute in E; discriminate].
  destruct (slice_counts (cube_dims None KCat [false; true; false; false] KMr [false; false])
              (survey_payload None 0 KCat [false; true; false; false] 1 KMr [false; false] (unit_weights _)) 0)
    as [su|] eqn:EU; [|vm_compute in EU; discriminate].
  assert (D : survey_display
                [ mkResp [ACat 0; AMr [Sel; Oth]; ACat 0] (3 # 2); mkResp [ACat 2; AMr [Sel; Mis]; ACat 1] 2;
                  mkResp [ACat 1; AMr [Sel; Sel]; ACat 0] 5; mkResp [ACat 2; AMr [Oth; Sel]; ACat 1] (1 # 4);
                  mkResp [ACat 0; AMr [Oth; Oth]; ACat 2] 1 ]
                None 0 KCat [false; true; false; false] 1 KMr [false; false] 0 [mkSub [0; 2] []] []
                [1; -1; 0]%Z [1; 0]%Z so).
  { split; [exact I|]. split; [left; reflexivity|]. split; [right; reflexivity|]. split; [vm_compute; lia|].
    split; [repeat constructor; discriminate|]. split; [vm_compute; lia|]. split; [vm_compute; lia|].
    split; [exact E|]. split; repeat constructor; vm_compute; discriminate. }
  split; [exact D|].
  split; [exact (need_elim _ _ eq_refl C02_public_Slice_column_unweighted_bases _ _ _ _ _ _ _ _ _ _ _ _ _ _ _ _ _ _ _ D EU)|].
  vm_compute in E. injection E as <-. vm_compute in EU. injection EU as <-.
  split; vm_compute; reflexivity.
Qed.

Example C02_public_Slice_table_unweighted_bases_example :
  let S := [ mkResp [ACat 0; AMr [Sel; Oth]; ACat 0] (3 # 2);
             mkResp [ACat 2; AMr [Sel; Mis]; ACat 1] 2;
             mkResp [ACat 1; AMr [Sel; Sel]; ACat 0] 5;
             mkResp [ACat 2; AMr [Oth; Sel]; ACat 1] (1 # 4);
             mkResp [ACat 0; AMr [Oth; Oth]; ACat 2] 1 ] in
  let mr := [false; true; false; false] in
  let mc := [false; false] in
  let rs := [mkSub [0; 2] []] in
  let ro := [1; -1; 0]%Z in
  let co := [1; 0]%Z in
  match slice_counts (cube_dims None KCat mr KMr mc) (survey_payload None 0 KCat mr 1 KMr mc S) 0,
        slice_counts (cube_dims None KCat mr KMr mc) (survey_payload None 0 KCat mr 1 KMr mc (unit_weights S)) 0 with
  | Some so, Some su =>
      let P := public_slice (Cs_u mr mc rs [] false false false (fun _ => false) ro co so su) "table_unweighted_bases" in
      survey_display S None 0 KCat mr 1 KMr mc 0 rs [] ro co so /\
      base_cells_spec P ro co (ubase_cell_spec w_tabbase S None 0 KCat mr 1 KMr mc 0) /\
      pred P = PMat 3 2 [[Fin 3; Fin 4]; [Fin 3; Fin 4]; [Fin 3; Fin 4]] /\
      (w_tabbase None 0 0 KCat mr 1 KMr mc (unit_weights S) 1 0 == 4)%Q
  | _, _ => False
  end.
Proof.
  cbv zeta.
  destruct (slice_counts (cube_dims None KCat [false; true; false; false] KMr [false; false])
              (survey_payload None 0 KCat [false; true; false; false] 1 KMr [false; false]
                 [ mkResp [ACat 0; AMr [Sel; Oth]; ACat 0] (3 # 2); mkResp [ACat 2; AMr [Sel; Mis]; ACat 1] 2;
                   mkResp [ACat 1; AMr [Sel; Sel]; ACat 0] 5; mkResp [ACat 2; AMr [Oth; Sel]; ACat 1] (1 # 4);
                   mkResp [ACat 0; AMr [Oth; Oth]; ACat 2] 1 ]) 0) as [so|] eqn:E;
    [|vm_compute in E; discriminate].
  destruct (slice_counts (cube_dims None KCat [false; true; false; false] KMr [false; false])
              (survey_payload None 0 KCat [false; true; false; false] 1 KMr [false; false] (unit_weights _)) 0)
    as [su|] eqn:EU; [|vm_compute in EU; discriminate].
  assert (D : survey_display
                [ mkResp [ACat 0; AMr [Sel; Oth]; ACat 0] (3 # 2); mkResp [ACat 2; AMr [Sel; Mis]; ACat 1] 2;
                  mkResp [ACat 1; AMr [Sel; Sel]; ACat 0] 5; mkResp [ACat 2; AMr [Oth; Sel]; ACat 1] (1 # 4);
                  mkResp [ACat 0; AMr [Oth; Oth]; ACat 2] 1 ]
                None 0 KCat [false; true; false; false] 1 KMr [false; false] 0 [mkSub [0; 2] []] []
                [1; -1; 0]%Z [1; 0]%Z so).
  { split; [exact I|]. split; [left; reflexivity|]. split; [right; reflexivity|]. split; [vm_compute; lia|].
    split; [repeat constructor; discriminate|]. split; [vm_compute; lia|]. split; [vm_compute; lia|].
    split; [exact E|]. split; repeat constructor; vm_compute; discriminate. }
  split; [exact D|].
  split; [exact (need_elim _ _ eq_refl C02_public_Slice_table_unweighted_bases _ _ _ _ _ _ _ _ _ _ _ _ _ _ _ _ _ _ _ D EU)|].
  vm_compute in E. injection E as <-. vm_compute in EU. injection EU as <-.
  split; vm_compute; reflexivity.
Qed.

End ComposePublic_C02.
(*END ComposePublic_C02*)
