(* C17 - Population estimates scale the right proportion by population and filter share.

   Model: Model/Population.v (tied to cube.py::_Measures.population_fraction,
   matrix/measure.py::_PopulationProportions/_PopulationStandardError, their stripe twins and
   cubepart.py::population_counts / population_counts_moe by harness/props/c17.py).
   Proofs: Proofs/PopulationProofs.v.

   The shapes of the response's filter statistics are values of [fshape]: every key is [Absent],
   [Null] (JSON null) or [Val v].  [pop_fraction_spec] is the decision list of the property text
   (a null counts as "not present"); [pop_fraction] is what the code does ([Raises] = an
   exception escapes). *)
From Coq Require Import QArith ZArith List Bool Lia Arith.
From CC Require Import Base.XQ Base.ListX Model.Population Proofs.PopulationProofs.
Import ListNotations.
Local Close Scope Q_scope.
Local Open Scope nat_scope.

(* ---- the filtered fraction ------------------------------------------------------------------ *)
(* For EVERY shape - JSON nulls included, which count as "not present" - with both complete-case
   numbers when either is given, the code's cascade returns the value of the property's decision
   list; in particular it never raises. *)
Theorem C17_fraction_eq_spec r :
  wf_shape r = true ->
  pop_fraction r = Value (pop_fraction_spec r).
Proof. exact (pop_fraction_eq_spec r). Qed.
Print Assumptions C17_fraction_eq_spec.

(* the decision list rule by rule *)
Theorem C17_fraction_new_style s o fil unf : ~ (s + o == 0)%Q ->
  pop_fraction (new_style s o false fil unf) = Value (Fin (s / (s + o))).
Proof. exact (pf_new_style s o fil unf). Qed.
Print Assumptions C17_fraction_new_style.

Theorem C17_fraction_new_style_zero s o fil unf : (s + o == 0)%Q ->
  pop_fraction (new_style s o false fil unf) = Value NaN.
Proof. exact (pf_new_style_zero s o fil unf). Qed.
Print Assumptions C17_fraction_new_style_zero.

Theorem C17_fraction_cat_date_filter s o fil unf :
  pop_fraction (new_style s o true fil unf) = Value (Fin 1).
Proof. exact (pf_cat_date_filter s o fil unf). Qed.
Print Assumptions C17_fraction_cat_date_filter.

Theorem C17_fraction_old_style fs n d : no_new_style fs -> ~ (d == 0)%Q ->
  pop_fraction {| r_filter_stats := fs; r_filtered := Val (Val n); r_unfiltered := Val (Val d) |}
  = Value (Fin (n / d)).
Proof. exact (pf_old_style fs n d). Qed.
Print Assumptions C17_fraction_old_style.

Theorem C17_fraction_old_style_zero fs n d : no_new_style fs -> (d == 0)%Q ->
  pop_fraction {| r_filter_stats := fs; r_filtered := Val (Val n); r_unfiltered := Val (Val d) |}
  = Value NaN.
Proof. exact (pf_old_style_zero fs n d). Qed.
Print Assumptions C17_fraction_old_style_zero.

Theorem C17_fraction_unspecified fs fil unf : no_new_style fs ->
  no_number fil \/ no_number unf ->
  pop_fraction {| r_filter_stats := fs; r_filtered := fil; r_unfiltered := unf |} = Value (Fin 1).
Proof. exact (pf_unspecified fs fil unf). Qed.
Print Assumptions C17_fraction_unspecified.

Theorem C17_fraction_total r : wf_shape r = true -> pop_fraction r <> Raises.
Proof. exact (pop_fraction_total r). Qed.
Print Assumptions C17_fraction_total.

(* The former witnesses of the repaired defect C17-null-filter-stats-raises ("filter_stats": null,
   "filtered": null, "filtered_complete": null raised AttributeError) now have the property's value. *)
Theorem C17_fraction_null_is_absent :
  pop_fraction {| r_filter_stats := Null; r_filtered := Absent; r_unfiltered := Absent |}
  = Value (Fin 1) /\
  pop_fraction {| r_filter_stats := Absent; r_filtered := Null; r_unfiltered := Val (Val 10%Q) |}
  = Value (Fin 1).
Proof. exact pf_null_is_absent. Qed.
Print Assumptions C17_fraction_null_is_absent.

Theorem C17_fraction_null_complete_old_style n d : ~ (d == 0)%Q ->
  pop_fraction {| r_filter_stats := Val {| fs_complete := Null; fs_is_cat_date := false |};
                  r_filtered := Val (Val n); r_unfiltered := Val (Val d) |} = Value (Fin (n / d)).
Proof. exact (pf_null_complete_old_style n d). Qed.
Print Assumptions C17_fraction_null_complete_old_style.

(* ---- which proportion / standard error --------------------------------------------------------- *)
Theorem C17_choice {A} (rowm colm tabm : A) :
  (forall ccd, pop_choice true ccd rowm colm tabm = rowm) /\
  pop_choice false true rowm colm tabm = colm /\
  pop_choice false false rowm colm tabm = tabm.
Proof.
  exact (conj (fun ccd => pop_choice_rows ccd rowm colm tabm)
              (conj (pop_choice_cols rowm colm tabm) (pop_choice_table rowm colm tabm))).
Qed.
Print Assumptions C17_choice.

(* ---- population counts: P * N * f cell by cell, NaN on subtotal differences ------------------------ *)
Theorem C17_pop_counts_def rcd ccd rowp colp tabp N f dr dc i j :
  let P := pop_choice rcd ccd rowp colp tabp in
  i < nrows P -> j < ncols P ->
  mnth (pop_counts rcd ccd rowp colp tabp N f dr dc) i j =
  if nth i dr false || nth j dc false then NaN else xmul (xmul (mnth P i j) N) f.
Proof. exact (pop_counts_cell rcd ccd rowp colp tabp N f dr dc i j). Qed.
Print Assumptions C17_pop_counts_def.

(* ---- margin of error: 1.959964 * (N f) * the matching standard error --------------------------------- *)
Theorem C17_pop_moe_def rcd ccd rowse colse tabse N f i j :
  let S := pop_choice rcd ccd rowse colse tabse in
  i < nrows S -> j < ncols S ->
  mnth (pop_moe rcd ccd rowse colse tabse N f) i j = xmul (xmul Z975 (xmul N f)) (mnth S i j).
Proof. exact (pop_moe_cell rcd ccd rowse colse tabse N f i j). Qed.
Print Assumptions C17_pop_moe_def.

Theorem C17_moe_sq se N f : not_inf se -> not_inf f ->
  xsq (moe_cell se (Fin N) f) =x= xmul (xmul (xsq Z975) (xsq (xmul (Fin N) f))) (xsq se).
Proof. exact (moe_cell_sq se N f). Qed.
Print Assumptions C17_moe_sq.

(* ---- linear in the population --------------------------------------------------------------------------- *)
Theorem C17_pop_linear p N f d a : not_inf p -> not_inf f ->
  pop_cell p (Fin (a * N)) f d =x= xmul (Fin a) (pop_cell p (Fin N) f d).
Proof. exact (pop_cell_linear p N f d a). Qed.
Print Assumptions C17_pop_linear.

Theorem C17_moe_linear se N f a : not_inf se -> not_inf f ->
  moe_cell se (Fin (a * N)) f =x= xmul (Fin a) (moe_cell se (Fin N) f).
Proof. exact (moe_cell_linear se N f a). Qed.
Print Assumptions C17_moe_linear.

(* ---- strand --------------------------------------------------------------------------------------------- *)
(* P = table proportion, or 1 on a categorical-date strand; NaN on every subtotal difference - for
   every strand and any number of differences (the two raising cases, former findings
   C17-strand-population-two-differences and C17-cat-date-strand-population-difference, are repaired) *)
Theorem C17_strand_pop_counts_def cd tabp N f dr :
  exists v, strand_pop_counts cd tabp N f dr = Some v /\ length v = length tabp /\
    forall i, i < length tabp ->
      vnth v i = if nth i dr false then NaN else xmul (xmul (if cd then Fin 1 else vnth tabp i) N) f.
Proof. exact (strand_pop_counts_total cd tabp N f dr). Qed.
Print Assumptions C17_strand_pop_counts_def.

(* every wave of a categorical-date strand projects the full (filtered) population, with no MoE *)
Theorem C17_strand_cat_date tabp tabse q f dr i :
  i < length tabp -> i < length tabse -> nth i dr false = false ->
  vnth (strand_pop_values true tabp (Fin q) (Fin f) dr) i =x= Fin (q * f) /\
  vnth (strand_pop_moe true tabse (Fin q) (Fin f)) i =x= Fin 0.
Proof.
  intros H1 H2 H3.
  exact (conj (strand_pop_cat_date tabp q f dr i H1 H3) (strand_moe_cat_date tabse q f i H2)).
Qed.
Print Assumptions C17_strand_cat_date.

Theorem C17_strand_pop_moe_def cd tabse N f i : i < length tabse ->
  vnth (strand_pop_moe cd tabse N f) i = xmul (xmul Z975 (xmul N f)) (if cd then Fin 0 else vnth tabse i).
Proof. exact (strand_pop_moe_cell cd tabse N f i). Qed.
Print Assumptions C17_strand_pop_moe_def.

(* ---- non-vacuity ---------------------------------------------------------------------------------------------- *)
Example C17_example_fraction :
  let r := new_style 3 1 false (Val (Val 5%Q)) (Val (Val 10%Q)) in
  wf_shape r = true /\
  pop_fraction r = Value (Fin (3 / (3 + 1))) /\
  pop_fraction {| r_filter_stats := Absent; r_filtered := Val (Val 5%Q); r_unfiltered := Val (Val 10%Q) |}
    = Value (Fin (5 / 10)) /\
  pop_fraction {| r_filter_stats := Absent; r_filtered := Val (Val 0%Q); r_unfiltered := Val (Val 0%Q) |}
    = Value NaN /\
  pop_fraction {| r_filter_stats := Absent; r_filtered := Absent; r_unfiltered := Absent |} = Value (Fin 1).
Proof. cbv zeta. repeat split. Qed.

Example C17_example_counts :
  let rowp := [[Fin (1 # 4); Fin (3 # 4)]; [Fin (1 # 2); Fin (1 # 2)]] in
  let colp := [[Fin (1 # 3); Fin (3 # 5)]; [Fin (2 # 3); Fin (2 # 5)]] in
  let tabp := [[Fin (1 # 8); Fin (3 # 8)]; [Fin (2 # 8); Fin (2 # 8)]] in
  mnth (pop_counts false true rowp colp tabp (Fin 1000) (Fin (1 # 2)) [false; false] [false; false]) 1 0
    =x= Fin (1000 # 3) /\
  mnth (pop_counts false false rowp colp tabp (Fin 1000) (Fin (1 # 2)) [false; true] [false; false]) 0 1
    =x= Fin (375 # 2) /\
  mnth (pop_counts false false rowp colp tabp (Fin 1000) (Fin (1 # 2)) [false; true] [false; false]) 1 1
    = NaN.
Proof. cbv zeta. repeat split; vm_compute; reflexivity. Qed.

Example C17_example_strand :
  strand_pop_counts false [Fin (1 # 4); Fin (1 # 2); Fin (3 # 4)] (Fin 1000) (Fin (1 # 2)) [false; true; false]
  = Some [Fin ((1 # 4) * 1000 * (1 # 2)); NaN; Fin ((3 # 4) * 1000 * (1 # 2))] /\
  strand_pop_counts true [Fin (1 # 4); Fin (1 # 2); Fin (3 # 4)] (Fin 1000) (Fin (1 # 2)) [false; true; true]
  = Some [Fin (1 * 1000 * (1 # 2)); NaN; NaN].
Proof. split; reflexivity. Qed.

(* ==================================================================================== *)
(** * END TO END: population counts of a tabulated survey
      (Proofs/ComposeBase.v, ComposeProportions.v, ComposeVariance.v, ComposePopulation.v)

   Above, the proportion and standard-error matrices are free.  Below the whole pipeline runs on
   one survey S (Spec/Survey.v): [s_pop_counts S tv vr kr mr vc kc mc k rsubs csubs dn rd cd rcd ccd
   N f dr dc] is [pop_counts] applied to the base blocks of the row / column / table proportions
   the model computes from [tabulate S] for partition k of a categorical / multiple-response x
   categorical / multiple-response cube (2-D: tv = None).  [rcd] / [ccd]: the rows / columns
   dimension is categorical-date.  [w_cell], [w_rowbase], [w_colbase], [w_tabbase] are the weighted
   respondent counts of Props/C03.v::C03_survey_numbers. *)
From CC Require Import Spec.Survey Model.CubeCounts Model.Subtotals Model.Variance Proofs.CubeCountsProofs
     Proofs.VarianceProofs Proofs.ComposeBase Proofs.ComposeProportions Proofs.ComposeVariance
     Proofs.ComposePopulation Model.Population.   (* Population last: its Z975 stays the visible one *)
Local Close Scope Q_scope.   (* Proofs/VarianceProofs.v opens it; this file indexes with nat *)

(* population count of base cell (i, j) that is not a subtotal difference:
   w(row i and column j) / B * N * f, B = the base picked by the categorical-date position;
   NaN exactly when B = 0; never infinite *)
Theorem C17_survey_population_counts S tv vr kr mr vc kc mc k rsubs csubs dn rd cd rcd ccd n f dr dc i j :
  t_ok tv -> cat_or_mr kr -> cat_or_mr kc -> k < t_n tv -> wf_survey S ->
  i < nval mr -> j < nval mc -> nth i dr false = false -> nth j dc false = false ->
  let c := w_cell tv k vr kr mr vc kc mc S i j in
  let B := pop_choice rcd ccd (w_rowbase tv k vr kr mr vc kc mc S i j)
                              (w_colbase tv k vr kr mr vc kc mc S i j)
                              (w_tabbase tv k vr kr mr vc kc mc S i j) in
  match mnth (s_pop_counts S tv vr kr mr vc kc mc k rsubs csubs dn rd cd rcd ccd (Fin n) (Fin f) dr dc) i j with
  | NaN => (B == 0)%Q
  | Fin v => ~ (B == 0)%Q /\ (v == c / B * n * f)%Q
  | Inf _ => False
  end.
Proof.
  exact (fun Ht Hr Hc Hk Hwf =>
    population_counts_survey S tv vr kr mr vc kc mc k rsubs csubs dn rd cd rcd ccd Ht Hr Hc Hk Hwf n f dr dc i j).
Qed.
Print Assumptions C17_survey_population_counts.

(* the dispatch, spelled out: rows categorical-date => within each date (row base), else columns
   categorical-date => column base, else the table base *)
Theorem C17_survey_dispatch (r c t : Q) :
  (forall ccd, pop_choice true ccd r c t = r) /\ pop_choice false true r c t = c /\
  pop_choice false false r c t = t.
Proof. exact (conj (fun ccd => eq_refl) (conj eq_refl eq_refl)). Qed.
Print Assumptions C17_survey_dispatch.

Theorem C17_survey_difference_is_nan S tv vr kr mr vc kc mc k rsubs csubs dn rd cd rcd ccd N f dr dc i j :
  i < nval mr -> j < nval mc -> nth i dr false || nth j dc false = true ->
  mnth (s_pop_counts S tv vr kr mr vc kc mc k rsubs csubs dn rd cd rcd ccd N f dr dc) i j = NaN.
Proof. exact (population_counts_difference S tv vr kr mr vc kc mc k rsubs csubs dn rd cd rcd ccd N f dr dc i j). Qed.
Print Assumptions C17_survey_difference_is_nan.

(* margin of error: for ANY se whose square is the model's squared standard error of the picked
   direction (np.sqrt is not modelled), MoE^2 = 1.959964^2 (N f)^2 * indicator variance / B *)
Theorem C17_survey_moe_sq S tv vr kr mr vc kc mc k rsubs csubs dn rd cd rcd ccd se n f i j :
  t_ok tv -> cat_or_mr kr -> cat_or_mr kc -> k < t_n tv -> wf_survey S ->
  i < nval mr -> j < nval mc ->
  xsq se =x= s_chosen_stderr_sq S tv vr kr mr vc kc mc k rsubs csubs dn rd cd rcd ccd i j ->
  let B := pop_choice rcd ccd (w_rowbase tv k vr kr mr vc kc mc S i j)
                              (w_colbase tv k vr kr mr vc kc mc S i j)
                              (w_tabbase tv k vr kr mr vc kc mc S i j) in
  match xsq (moe_cell se (Fin n) (Fin f)) with
  | NaN => (B == 0)%Q
  | Fin m => ~ (B == 0)%Q /\
             (m == (1959964 # 1000000) * (1959964 # 1000000) * ((n * f) * (n * f))
                   * (spec_var (chosen_marks S tv vr kr mr vc kc mc k rcd ccd i j) / B))%Q
  | Inf _ => False
  end.
Proof.
  exact (fun Ht Hr Hc Hk Hwf =>
    population_moe_sq_survey S tv vr kr mr vc kc mc k rsubs csubs dn rd cd rcd ccd Ht Hr Hc Hk Hwf se n f i j).
Qed.
Print Assumptions C17_survey_moe_sq.

Theorem C17_survey_chosen_direction S tv vr kr mr vc kc mc k rsubs csubs dn rd cd rcd ccd i j :
  s_chosen_stderr_sq S tv vr kr mr vc kc mc k rsubs csubs dn rd cd rcd ccd i j =
    pop_choice rcd ccd
      (stderr_sq (mnth (b_base (s_row_var S tv vr kr mr vc kc mc k rsubs csubs dn rd cd)) i j)
                 (mnth (b_base (s_row_bases S tv vr kr mr vc kc mc k rsubs csubs)) i j))
      (stderr_sq (mnth (b_base (s_col_var S tv vr kr mr vc kc mc k rsubs csubs dn rd cd)) i j)
                 (mnth (b_base (s_col_bases S tv vr kr mr vc kc mc k rsubs csubs)) i j))
      (stderr_sq (mnth (b_base (s_tab_var S tv vr kr mr vc kc mc k rsubs csubs dn)) i j)
                 (mnth (b_base (s_tab_bases S tv vr kr mr vc kc mc k rsubs csubs)) i j)) /\
  chosen_marks S tv vr kr mr vc kc mc k rcd ccd i j =
    pop_choice rcd ccd
      (marks S (rowbase_in tv k vr kr mr vc kc mc i j) (cell_in tv k vr kr mr vc kc mc i j))
      (marks S (colbase_in tv k vr kr mr vc kc mc i j) (cell_in tv k vr kr mr vc kc mc i j))
      (marks S (tabbase_in tv k vr kr mr vc kc mc i j) (cell_in tv k vr kr mr vc kc mc i j)).
Proof. exact (conj eq_refl eq_refl). Qed.
Print Assumptions C17_survey_chosen_direction.

(* Non-vacuity.  Five respondents with rational weights; rows categorical (a MISSING category in
   the middle, one valid category nobody chose), columns categorical; N = 1000, f = 1/2.
   Table proportion of cell (1, 1) = 9/4 / 19/4 = 9/19; within the row (rows categorical-date): 1;
   the empty row has no estimate *)
Example C17_survey_example :
  let S := [ mkResp [ACat 0; ACat 0] (3 # 2); mkResp [ACat 2; ACat 1] 2; mkResp [ACat 1; ACat 0] 5;
             mkResp [ACat 2; ACat 1] (1 # 4); mkResp [ACat 0; ACat 1] 1 ] in
  let mr := [false; true; false; false] in
  let mc := [false; false] in
  t_ok None /\ cat_or_mr KCat /\ 0 < t_n None /\ wf_survey S /\ nval mr = 3 /\ nval mc = 2 /\
  map (map xred) (s_pop_counts S None 0 KCat mr 1 KCat mc 0 [] [] false false false false false
                               (Fin 1000) (Fin (1 # 2)) [] [])
    = [[Fin (3000 # 19); Fin (2000 # 19)]; [Fin 0; Fin (4500 # 19)]; [Fin 0; Fin 0]] /\
  map (map xred) (s_pop_counts S None 0 KCat mr 1 KCat mc 0 [] [] false false false true false
                               (Fin 1000) (Fin (1 # 2)) [] [])
    = [[Fin 300; Fin 200]; [Fin 0; Fin 500]; [NaN; NaN]] /\
  (w_cell None 0 0 KCat mr 1 KCat mc S 1 1 / w_tabbase None 0 0 KCat mr 1 KCat mc S 1 1 * 1000 * (1 # 2)
   == 4500 # 19)%Q /\
  ~ (w_tabbase None 0 0 KCat mr 1 KCat mc S 1 1 == 0)%Q /\
  (w_rowbase None 0 0 KCat mr 1 KCat mc S 2 0 == 0)%Q.
Proof.
  cbv zeta. repeat split; try (left; reflexivity); try lia; try (repeat constructor; discriminate);
    try (vm_compute; reflexivity); try (vm_compute; discriminate).
Qed.

(* ==== GenAgree (measures): what matrix/measure.py, stripe/measure.py, cubepart.py SAY NOW ==== *)
(* Gen/MeasureSrc.v, Gen/StripeMeasureSrc.v, Gen/PartMeasureSrc.v are REWRITTEN FROM THE SOURCE on every
   check by harness/translate/measures.py (an `ast` whitelist, fail-closed): one [option mexp] per
   (class, member) -- per block for a `blocks` member -- read through the wiring of the collection class.
   The theorems below say that what the source SAYS NOW ([meval] / the signed-square reading [meval_sq] of
   the translated term, Base/MeasureExp.v), for ALL input blocks, sizes and subtotal lists, IS the
   definition of Model.Population the theorems above are about -- tagged shape and every in-range cell.
   [None] on the left = the translator could not read the member (then only the correspondence ties it).
   A change of meaning in the source breaks these obligations (Proofs/GenAgreePopulation.v fails). *)
From Coq Require String.
From CC Require Base.MeasureExp Model.Subtotals Model.Proportions Gen.MeasureSrc Gen.StripeMeasureSrc Gen.PartMeasureSrc Gen.Tables
     Proofs.GenAgreeMeasTac Proofs.GenAgreePopulation.
Section GenAgreeMeasures_C17.   (* scopes and imports below end with the section *)
Import Coq.Strings.String CC.Base.MeasureExp CC.Model.Subtotals CC.Model.Proportions CC.Gen.MeasureSrc CC.Gen.StripeMeasureSrc
       CC.Gen.PartMeasureSrc CC.Gen.Tables CC.Proofs.GenAgreeMeasTac CC.Proofs.GenAgreePopulation.
Import Coq.Lists.List.ListNotations CC.Base.XQ.
Local Close Scope Q_scope.
Local Open Scope string_scope.
Local Open Scope nat_scope.

Theorem C17_gen_population_proportions :
  (match src_PopulationProportions_blocks_00 with
  | Some e => forall nr nc rsubs csubs rd cd blk cubem cubeflag flag,
      holds_mat (menv_mat nr nc rsubs csubs rd cd blk cubem cubeflag flag) e DR DC
        (pop_props_model rsubs csubs rd cd blk 0 0)
  | None => True
  end) /\
  (match src_PopulationProportions_blocks_01 with
  | Some e => forall nr nc rsubs csubs rd cd blk cubem cubeflag flag,
      holds_mat (menv_mat nr nc rsubs csubs rd cd blk cubem cubeflag flag) e DR DCS
        (pop_props_model rsubs csubs rd cd blk 0 1)
  | None => True
  end) /\
  (match src_PopulationProportions_blocks_10 with
  | Some e => forall nr nc rsubs csubs rd cd blk cubem cubeflag flag,
      holds_mat (menv_mat nr nc rsubs csubs rd cd blk cubem cubeflag flag) e DRS DC
        (pop_props_model rsubs csubs rd cd blk 1 0)
  | None => True
  end) /\
  (match src_PopulationProportions_blocks_11 with
  | Some e => forall nr nc rsubs csubs rd cd blk cubem cubeflag flag,
      holds_mat (menv_mat nr nc rsubs csubs rd cd blk cubem cubeflag flag) e DRS DCS
        (pop_props_model rsubs csubs rd cd blk 1 1)
  | None => True
  end).
Proof. exact (conj gen_PopulationProportions_blocks_00 (conj gen_PopulationProportions_blocks_01 (conj gen_PopulationProportions_blocks_10 gen_PopulationProportions_blocks_11))). Qed.
Print Assumptions C17_gen_population_proportions.

Theorem C17_gen_population_std_err :
  (match src_PopulationStandardError_blocks_00 with
  | Some e => forall nr nc rsubs csubs rd cd blk cubem cubeflag flag,
      holds_mat (menv_mat nr nc rsubs csubs rd cd blk cubem cubeflag flag) e DR DC
        (mnth (pop_choice rd cd (blk "row_std_err" 0 0) (blk "column_std_err" 0 0)
                          (blk "table_std_err" 0 0)))
  | None => True
  end) /\
  (match src_PopulationStandardError_blocks_01 with
  | Some e => forall nr nc rsubs csubs rd cd blk cubem cubeflag flag,
      holds_mat (menv_mat nr nc rsubs csubs rd cd blk cubem cubeflag flag) e DR DCS
        (mnth (pop_choice rd cd (blk "row_std_err" 0 1) (blk "column_std_err" 0 1)
                          (blk "table_std_err" 0 1)))
  | None => True
  end) /\
  (match src_PopulationStandardError_blocks_10 with
  | Some e => forall nr nc rsubs csubs rd cd blk cubem cubeflag flag,
      holds_mat (menv_mat nr nc rsubs csubs rd cd blk cubem cubeflag flag) e DRS DC
        (mnth (pop_choice rd cd (blk "row_std_err" 1 0) (blk "column_std_err" 1 0)
                          (blk "table_std_err" 1 0)))
  | None => True
  end) /\
  (match src_PopulationStandardError_blocks_11 with
  | Some e => forall nr nc rsubs csubs rd cd blk cubem cubeflag flag,
      holds_mat (menv_mat nr nc rsubs csubs rd cd blk cubem cubeflag flag) e DRS DCS
        (mnth (pop_choice rd cd (blk "row_std_err" 1 1) (blk "column_std_err" 1 1)
                          (blk "table_std_err" 1 1)))
  | None => True
  end).
Proof. exact (conj gen_PopulationStandardError_blocks_00 (conj gen_PopulationStandardError_blocks_01 (conj gen_PopulationStandardError_blocks_10 gen_PopulationStandardError_blocks_11))). Qed.
Print Assumptions C17_gen_population_std_err.

Theorem C17_gen_strand_population_proportions :
  (match ssrc_PopulationProportions_base_values with
  | Some e => forall n subs rd vblk,
      holds_vec (senv_std n subs rd vblk no_cube) e DR
        (fun i => if rd then Fin 1%Q else vnth (vblk "table_proportions" 0) i)
  | None => True
  end) /\
  (match ssrc_PopulationProportions_subtotal_values with
  | Some e => forall n subs rd vblk,
      holds_vec (senv_std n subs rd vblk no_cube) e DRS
        (fun k => if has_subs (nth k subs nosub) then NaN
                  else if rd then Fin 1%Q else vnth (vblk "table_proportions" 1) k)
  | None => True
  end).
Proof. exact (conj gen_stripe_PopulationProportions_base_values gen_stripe_PopulationProportions_subtotal_values). Qed.
Print Assumptions C17_gen_strand_population_proportions.

Theorem C17_gen_strand_population_stderrs :
  (match ssrc_PopulationProportionStderrs_base_values with
  | Some e => forall n subs rd vblk,
      holds_vec (senv_std n subs rd vblk no_cube) e DR
        (fun i => if rd then Fin 0%Q else vnth (vblk "table_proportion_stderrs" 0) i)
  | None => True
  end) /\
  (match ssrc_PopulationProportionStderrs_subtotal_values with
  | Some e => forall n subs rd vblk,
      holds_vec (senv_std n subs rd vblk no_cube) e DRS
        (fun i => if rd then Fin 0%Q else vnth (vblk "table_proportion_stderrs" 1) i)
  | None => True
  end).
Proof. exact (conj gen_stripe_PopulationProportionStderrs_base_values gen_stripe_PopulationProportionStderrs_subtotal_values). Qed.
Print Assumptions C17_gen_strand_population_stderrs.

Theorem C17_gen_population_counts :
  (match psrc_Slice_population_counts with
  | Some e => forall nr nc z N f P,
      holds_mat (penv_std nr nc (part_names z) (part_scalars N f) (part_mat "population_proportions" P)) e DR DC
        (fun i j => pop_cell (mnth P i j) N f false)
  | None => True
  end) /\
  (match psrc_Slice_population_counts_moe, tbl_Z_975 with
  | Some e, Some z => forall nr nc N f S,
      holds_mat (penv_std nr nc (part_names z) (part_scalars N f) (part_mat "population_std_err" S)) e DR DC
        (fun i j => moe_cell (mnth S i j) N f)
  | _, _ => True
  end) /\
  (match psrc_Strand_population_counts with
  | Some e => forall n z N f P,
      holds_vec (penv_std n 0 (part_names z) (part_scalars N f) (part_vec "population_proportions" P)) e DR
        (fun i => pop_cell (vnth P i) N f false)
  | None => True
  end) /\
  (match psrc_Strand_population_counts_moe, tbl_Z_975 with
  | Some e, Some z => forall n N f S,
      holds_vec (penv_std n 0 (part_names z) (part_scalars N f) (part_vec "population_proportion_stderrs" S)) e DR
        (fun i => moe_cell (vnth S i) N f)
  | _, _ => True
  end).
Proof. exact (conj gen_Slice_population_counts (conj gen_Slice_population_counts_moe (conj gen_Strand_population_counts gen_Strand_population_counts_moe))). Qed.
Print Assumptions C17_gen_population_counts.

(* non-vacuity: with categorical-date rows the translated population standard error is the row one *)
Example C17_gen_example :
  match src_PopulationStandardError_blocks_00 with
  | Some e =>
      let blk := fun (m : string) (_ _ : nat) =>
        if String.eqb m "row_std_err" then [[Fin 1%Q]]
        else if String.eqb m "column_std_err" then [[Fin 2%Q]] else [[Fin 3%Q]] in
      match meval (menv_mat 1 1 [] [] true true blk (fun _ _ => []) (fun _ _ => false) (fun _ => false)) e with
      | VMat DR DC f => f 0 0 =x= Fin 1%Q
      | _ => False
      end
  | None => True
  end.
Proof. vm_compute. first [exact I | reflexivity]. Qed.

End GenAgreeMeasures_C17.

(* ---- WIRING-APPENDIX:BEGIN (generated by tools/gen_wiring_props.py; do not edit) ---- *)
From CC Require Proofs.GenAgreeWiring_C17.
Section Wiring_C17.
Import Coq.Lists.List Coq.ZArith.ZArith Coq.Strings.String CC.Base.WiringExp CC.Gen.WiringSrc.
Import ListNotations.
Local Open Scope string_scope.

Theorem C17_wiring_CubePartition_population_fraction :
  wsrc_CubePartition_population_fraction = Some (WAttr (WSelf "_cube") "population_fraction").
Proof. exact Proofs.GenAgreeWiring_C17.gen_wiring_CubePartition_population_fraction. Qed.
Print Assumptions C17_wiring_CubePartition_population_fraction.

Theorem C17_wiring_Slice_population_proportions :
  wsrc_Slice_population_proportions = Some (WSetNan (WSetNan (w_matrix_of "population_proportions")
      [WSelf "diff_row_idxs"; WSlice (WNone) (WNone)] (WSelf "diff_row_idxs")) [WSlice (WNone)
      (WNone); WSelf "diff_column_idxs"] (WSelf "diff_column_idxs")).
Proof. exact Proofs.GenAgreeWiring_C17.gen_wiring_Slice_population_proportions. Qed.
Print Assumptions C17_wiring_Slice_population_proportions.

Theorem C17_wiring_Slice_population_counts :
  wsrc_Slice_population_counts = Some (WBin "*" (WBin "*" (WSelf "population_proportions") (WSelf
      "_population")) (WAttr (WSelf "_cube") "population_fraction")).
Proof. exact Proofs.GenAgreeWiring_C17.gen_wiring_Slice_population_counts. Qed.
Print Assumptions C17_wiring_Slice_population_counts.

Theorem C17_wiring_Slice_population_std_err :
  wsrc_Slice_population_std_err = Some (w_matrix_of "population_std_err").
Proof. exact Proofs.GenAgreeWiring_C17.gen_wiring_Slice_population_std_err. Qed.
Print Assumptions C17_wiring_Slice_population_std_err.

Theorem C17_wiring_Slice_population_counts_moe :
  wsrc_Slice_population_counts_moe = Some (WBin "*" (WBin "*" (WGlobal "Z_975") (WBin "*" (WSelf
      "_population") (WAttr (WSelf "_cube") "population_fraction"))) (WSelf "population_std_err")).
Proof. exact Proofs.GenAgreeWiring_C17.gen_wiring_Slice_population_counts_moe. Qed.
Print Assumptions C17_wiring_Slice_population_counts_moe.

Theorem C17_wiring_Strand_population_counts :
  wsrc_Strand_population_counts = Some (WBin "*" (WBin "*" (WSelf "population_proportions") (WSelf
      "_population")) (WAttr (WSelf "_cube") "population_fraction")).
Proof. exact Proofs.GenAgreeWiring_C17.gen_wiring_Strand_population_counts. Qed.
Print Assumptions C17_wiring_Strand_population_counts.

Theorem C17_wiring_Strand_population_counts_moe :
  wsrc_Strand_population_counts_moe = Some (WBin "*" (WBin "*" (WGlobal "Z_975") (WBin "*" (WSelf
      "_population") (WAttr (WSelf "_cube") "population_fraction"))) (WSelf
      "population_proportion_stderrs")).
Proof. exact Proofs.GenAgreeWiring_C17.gen_wiring_Strand_population_counts_moe. Qed.
Print Assumptions C17_wiring_Strand_population_counts_moe.

Theorem C17_wiring_Strand_population_proportions :
  wsrc_Strand_population_proportions = Some (WSetNan (w_vector_of "population_proportions") [WCall
      (WGlobal "list") [WSelf "diff_row_idxs"] []] (WSelf "diff_row_idxs")).
Proof. exact Proofs.GenAgreeWiring_C17.gen_wiring_Strand_population_proportions. Qed.
Print Assumptions C17_wiring_Strand_population_proportions.

Theorem C17_wiring_Strand_population_proportion_stderrs :
  wsrc_Strand_population_proportion_stderrs = Some (w_vector_of "population_proportion_stderrs").
Proof. exact Proofs.GenAgreeWiring_C17.gen_wiring_Strand_population_proportion_stderrs. Qed.
Print Assumptions C17_wiring_Strand_population_proportion_stderrs.

Theorem C17_wiring_SecondOrderMeasures_population_proportions :
  wsrc_SecondOrderMeasures_population_proportions = Some (WCall (WGlobal "_PopulationProportions")
      [WSelf "_dimensions"; WVar "self"; WSelf "_cube_measures"] []).
Proof. exact Proofs.GenAgreeWiring_C17.gen_wiring_SecondOrderMeasures_population_proportions. Qed.
Print Assumptions C17_wiring_SecondOrderMeasures_population_proportions.

Theorem C17_wiring_SecondOrderMeasures_population_std_err :
  wsrc_SecondOrderMeasures_population_std_err = Some (WCall (WGlobal "_PopulationStandardError")
      [WSelf "_dimensions"; WVar "self"; WSelf "_cube_measures"] []).
Proof. exact Proofs.GenAgreeWiring_C17.gen_wiring_SecondOrderMeasures_population_std_err. Qed.
Print Assumptions C17_wiring_SecondOrderMeasures_population_std_err.

Theorem C17_wiring_StripeMeasures_population_proportions :
  wsrc_StripeMeasures_population_proportions = Some (WCall (WGlobal "_PopulationProportions") [WSelf
      "_rows_dimension"; WVar "self"; WSelf "_cube_measures"] []).
Proof. exact Proofs.GenAgreeWiring_C17.gen_wiring_StripeMeasures_population_proportions. Qed.
Print Assumptions C17_wiring_StripeMeasures_population_proportions.

Theorem C17_wiring_StripeMeasures_population_proportion_stderrs :
  wsrc_StripeMeasures_population_proportion_stderrs = Some (WCall (WGlobal
      "_PopulationProportionStderrs") [WSelf "_rows_dimension"; WVar "self"; WSelf "_cube_measures"]
      []).
Proof. exact Proofs.GenAgreeWiring_C17.gen_wiring_StripeMeasures_population_proportion_stderrs. Qed.
Print Assumptions C17_wiring_StripeMeasures_population_proportion_stderrs.

End Wiring_C17.
(* ---- WIRING-APPENDIX:END ---- *)

(*BEGIN GenAgreeCube_C17*)
(* ------------------------------------------------------------------------------------ *)
(* SOURCE TEXT of src/cr/cube/cube.py.  Gen/CubeSrc.v is regenerated on every check by
   harness/translate/x_cube.py (shallow translation: every member of CubeSet / Cube / _Measures / the
   _BaseMeasure family, inheritance flattened, as a Gallina function over the Python-semantics combinators
   of Base/PyList.v + Base/PyJson.v + Model/PyCube.v; [X] = what cube.py calls in other modules -
   Dimensions.from_dicts, json.loads - as parameters; `self.<member>` = the generated function of that
   member).  For ALL inputs each generated function IS the model definition the theorems above are about;
   a statement `match src_f, src_g with Some f, Some g => forall .., g X c = POk v -> ..` reads: whenever
   the member g of the same object evaluates to v.  [None] = the member is outside the translator's
   whitelist (then only the correspondence ties it). *)
From CC Require Proofs.GenAgreeCubeLib Proofs.GenAgreeCubeBase Proofs.GenAgreeCubePopulation Proofs.GenAgreeCubeSet.
Section GenAgreeCube_C17.   (* scopes and imports below end with the section *)
Import Coq.Lists.List Coq.ZArith.ZArith Coq.QArith.QArith Coq.Strings.String Coq.Bool.Bool CC.Base.XQ
       CC.Base.PyList CC.Base.PyJson CC.Spec.Survey CC.Model.CubeCounts CC.Model.DimType CC.Model.Population
       CC.Model.Partition CC.Model.PyCube CC.Gen.CubeSrc CC.Proofs.GenAgreeCubeLib CC.Proofs.GenAgreeCubeBase CC.Proofs.GenAgreeCubePopulation CC.Proofs.GenAgreeCubeSet.
Import Coq.Lists.List.ListNotations.
Local Close Scope Q_scope.
Local Open Scope Z_scope.
Local Open Scope string_scope.

Theorem C17_gen_cube_Measures___init__ :
  match src__Measures___init__ with
  | Some f => forall resp dims idx, f resp dims idx = mkPyMeasures resp dims idx
  | None => True end.
Proof. exact gen_cube_Measures___init__. Qed.
Print Assumptions C17_gen_cube_Measures___init__.

Theorem C17_gen_cube_Cube__cube_response :
  match src_Cube__cube_response with
  | Some f => forall X arg tr idx pop mask,
      f X (mkPyCube arg tr idx pop mask) = parsed_response X arg
  | None => True end.
Proof. exact gen_cube_Cube__cube_response. Qed.
Print Assumptions C17_gen_cube_Cube__cube_response.

Theorem C17_gen_cube_Cube__measures :
  match src_Cube__measures, src_Cube__cube_response, src_Cube__all_dimensions with
  | Some f, Some g1, Some g2 => forall X c resp dims,
      g1 X c = POk resp -> g2 X c = POk dims ->
      f X c = POk (mkPyMeasures resp dims (pc_cube_idx_arg c))
  | _, _, _ => True end.
Proof. exact gen_cube_Cube__measures. Qed.
Print Assumptions C17_gen_cube_Cube__measures.

Theorem C17_gen_cube_Measures_population_fraction :
  match src__Measures_population_fraction with
  | Some f => forall X pre r dims idx, lacks_keys pre filter_keys ->
      outcome_of (f X (mkPyMeasures (fshape_response pre r) dims idx)) = pop_fraction r
  | None => True end.
Proof. exact gen_cube_Measures_population_fraction. Qed.
Print Assumptions C17_gen_cube_Measures_population_fraction.

Theorem C17_gen_cube_Cube_population_fraction :
  match src_Cube_population_fraction, src_Cube__all_dimensions with
  | Some f, Some g => forall X pre r tr idx pop mask dims, lacks_keys pre filter_keys ->
      g X (mkPyCube (fshape_response pre r) tr idx pop mask) = POk dims ->
      outcome_of (f X (mkPyCube (fshape_response pre r) tr idx pop mask)) = pop_fraction r
  | _, _ => True end.
Proof. exact gen_cube_Cube_population_fraction. Qed.
Print Assumptions C17_gen_cube_Cube_population_fraction.

Theorem C17_gen_cube_CubeSet_population_fraction :
  match src_CubeSet_population_fraction, src_CubeSet__cubes, src_Cube_population_fraction with
  | Some f, Some g1, Some g2 => forall X s c0 rest, g1 X s = POk (c0 :: rest) -> f X s = g2 X c0
  | _, _, _ => True end.
Proof. exact gen_cube_CubeSet_population_fraction. Qed.
Print Assumptions C17_gen_cube_CubeSet_population_fraction.

End GenAgreeCube_C17.
(*END GenAgreeCube_C17*)
