(* C17 - Population estimates scale the right proportion by population and filter share.

   Model: Model/Population.v (tied to cube.py::_Measures.population_fraction,
   matrix/measure.py::_PopulationProportions/_PopulationStandardError, their stripe twins and
   cubepart.py::population_counts / population_counts_moe by harness/props/c17.py).
   Proofs: Proofs/PopulationProofs.v.

   The shapes of the response's filter statistics are values of [fshape]: every key is [Absent],
   [Null] (JSON null) or [Val v].  [pop_fraction_spec] is the decision list of the property text
   (a null counts as "not present"); [pop_fraction] is what the code does ([Raises] = an
   exception escapes). *)
From Coq Require Import QArith ZArith List Bool Lia Arith.
From CC Require Import Base.XQ Base.ListX Model.Population Proofs.PopulationProofs.
Import ListNotations.
Local Close Scope Q_scope.
Local Open Scope nat_scope.

(* ---- the filtered fraction ------------------------------------------------------------------ *)
(* For EVERY shape - JSON nulls included, which count as "not present" - with both complete-case
   numbers when either is given, the code's cascade returns the value of the property's decision
   list; in particular it never raises. *)
Theorem C17_fraction_eq_spec r :
  wf_shape r = true ->
  pop_fraction r = Value (pop_fraction_spec r).
Proof. exact (pop_fraction_eq_spec r). Qed.
Print Assumptions C17_fraction_eq_spec.

(* the decision list rule by rule *)
Theorem C17_fraction_new_style s o fil unf : ~ (s + o == 0)%Q ->
  pop_fraction (new_style s o false fil unf) = Value (Fin (s / (s + o))).
Proof. exact (pf_new_style s o fil unf). Qed.
Print Assumptions C17_fraction_new_style.

Theorem C17_fraction_new_style_zero s o fil unf : (s + o == 0)%Q ->
  pop_fraction (new_style s o false fil unf) = Value NaN.
Proof. exact (pf_new_style_zero s o fil unf). Qed.
Print Assumptions C17_fraction_new_style_zero.

Theorem C17_fraction_cat_date_filter s o fil unf :
  pop_fraction (new_style s o true fil unf) = Value (Fin 1).
Proof. exact (pf_cat_date_filter s o fil unf). Qed.
Print Assumptions C17_fraction_cat_date_filter.

Theorem C17_fraction_old_style fs n d : no_new_style fs -> ~ (d == 0)%Q ->
  pop_fraction {| r_filter_stats := fs; r_filtered := Val (Val n); r_unfiltered := Val (Val d) |}
  = Value (Fin (n / d)).
Proof. exact (pf_old_style fs n d). Qed.
Print Assumptions C17_fraction_old_style.

Theorem C17_fraction_old_style_zero fs n d : no_new_style fs -> (d == 0)%Q ->
  pop_fraction {| r_filter_stats := fs; r_filtered := Val (Val n); r_unfiltered := Val (Val d) |}
  = Value NaN.
Proof. exact (pf_old_style_zero fs n d). Qed.
Print Assumptions C17_fraction_old_style_zero.

Theorem C17_fraction_unspecified fs fil unf : no_new_style fs ->
  no_number fil \/ no_number unf ->
  pop_fraction {| r_filter_stats := fs; r_filtered := fil; r_unfiltered := unf |} = Value (Fin 1).
Proof. exact (pf_unspecified fs fil unf). Qed.
Print Assumptions C17_fraction_unspecified.

Theorem C17_fraction_total r : wf_shape r = true -> pop_fraction r <> Raises.
Proof. exact (pop_fraction_total r). Qed.
Print Assumptions C17_fraction_total.

(* The former witnesses of the repaired defect C17-null-filter-stats-raises ("filter_stats": null,
   "filtered": null, "filtered_complete": null raised AttributeError) now have the property's value. *)
Theorem C17_fraction_null_is_absent :
  pop_fraction {| r_filter_stats := Null; r_filtered := Absent; r_unfiltered := Absent |}
  = Value (Fin 1) /\
  pop_fraction {| r_filter_stats := Absent; r_filtered := Null; r_unfiltered := Val (Val 10%Q) |}
  = Value (Fin 1).
Proof. exact pf_null_is_absent. Qed.
Print Assumptions C17_fraction_null_is_absent.

Theorem C17_fraction_null_complete_old_style n d : ~ (d == 0)%Q ->
  pop_fraction {| r_filter_stats := Val {| fs_complete := Null; fs_is_cat_date := false |};
                  r_filtered := Val (Val n); r_unfiltered := Val (Val d) |} = Value (Fin (n / d)).
Proof. exact (pf_null_complete_old_style n d). Qed.
Print Assumptions C17_fraction_null_complete_old_style.

(* ---- which proportion / standard error --------------------------------------------------------- *)
Theorem C17_choice {A} (rowm colm tabm : A) :
  (forall ccd, pop_choice true ccd rowm colm tabm = rowm) /\
  pop_choice false true rowm colm tabm = colm /\
  pop_choice false false rowm colm tabm = tabm.
Proof.
  exact (conj (fun ccd => pop_choice_rows ccd rowm colm tabm)
              (conj (pop_choice_cols rowm colm tabm) (pop_choice_table rowm colm tabm))).
Qed.
Print Assumptions C17_choice.

(* ---- population counts: P * N * f cell by cell, NaN on subtotal differences ------------------------ *)
Theorem C17_pop_counts_def rcd ccd rowp colp tabp N f dr dc i j :
  let P := pop_choice rcd ccd rowp colp tabp in
  i < nrows P -> j < ncols P ->
  mnth (pop_counts rcd ccd rowp colp tabp N f dr dc) i j =
  if nth i dr false || nth j dc false then NaN else xmul (xmul (mnth P i j) N) f.
Proof. exact (pop_counts_cell rcd ccd rowp colp tabp N f dr dc i j). Qed.
Print Assumptions C17_pop_counts_def.

(* ---- margin of error: 1.959964 * (N f) * the matching standard error --------------------------------- *)
Theorem C17_pop_moe_def rcd ccd rowse colse tabse N f i j :
  let S := pop_choice rcd ccd rowse colse tabse in
  i < nrows S -> j < ncols S ->
  mnth (pop_moe rcd ccd rowse colse tabse N f) i j = xmul (xmul Z975 (xmul N f)) (mnth S i j).
Proof. exact (pop_moe_cell rcd ccd rowse colse tabse N f i j). Qed.
Print Assumptions C17_pop_moe_def.

Theorem C17_moe_sq se N f : not_inf se -> not_inf f ->
  xsq (moe_cell se (Fin N) f) =x= xmul (xmul (xsq Z975) (xsq (xmul (Fin N) f))) (xsq se).
Proof. exact (moe_cell_sq se N f). Qed.
Print Assumptions C17_moe_sq.

(* ---- linear in the population --------------------------------------------------------------------------- *)
Theorem C17_pop_linear p N f d a : not_inf p -> not_inf f ->
  pop_cell p (Fin (a * N)) f d =x= xmul (Fin a) (pop_cell p (Fin N) f d).
Proof. exact (pop_cell_linear p N f d a). Qed.
Print Assumptions C17_pop_linear.

Theorem C17_moe_linear se N f a : not_inf se -> not_inf f ->
  moe_cell se (Fin (a * N)) f =x= xmul (Fin a) (moe_cell se (Fin N) f).
Proof. exact (moe_cell_linear se N f a). Qed.
Print Assumptions C17_moe_linear.

(* ---- strand --------------------------------------------------------------------------------------------- *)
(* P = table proportion, or 1 on a categorical-date strand; NaN on every subtotal difference - for
   every strand and any number of differences (the two raising cases, former findings
   C17-strand-population-two-differences and C17-cat-date-strand-population-difference, are repaired) *)
Theorem C17_strand_pop_counts_def cd tabp N f dr :
  exists v, strand_pop_counts cd tabp N f dr = Some v /\ length v = length tabp /\
    forall i, i < length tabp ->
      vnth v i = if nth i dr false then NaN else xmul (xmul (if cd then Fin 1 else vnth tabp i) N) f.
Proof. exact (strand_pop_counts_total cd tabp N f dr). Qed.
Print Assumptions C17_strand_pop_counts_def.

(* every wave of a categorical-date strand projects the full (filtered) population, with no MoE *)
Theorem C17_strand_cat_date tabp tabse q f dr i :
  i < length tabp -> i < length tabse -> nth i dr false = false ->
  vnth (strand_pop_values true tabp (Fin q) (Fin f) dr) i =x= Fin (q * f) /\
  vnth (strand_pop_moe true tabse (Fin q) (Fin f)) i =x= Fin 0.
Proof.
  intros H1 H2 H3.
  exact (conj (strand_pop_cat_date tabp q f dr i H1 H3) (strand_moe_cat_date tabse q f i H2)).
Qed.
Print Assumptions C17_strand_cat_date.

Theorem C17_strand_pop_moe_def cd tabse N f i : i < length tabse ->
  vnth (strand_pop_moe cd tabse N f) i = xmul (xmul Z975 (xmul N f)) (if cd then Fin 0 else vnth tabse i).
Proof. exact (strand_pop_moe_cell cd tabse N f i). Qed.
Print Assumptions C17_strand_pop_moe_def.

(* ---- non-vacuity ---------------------------------------------------------------------------------------------- *)
Example C17_example_fraction :
  let r := new_style 3 1 false (Val (Val 5%Q)) (Val (Val 10%Q)) in
  wf_shape r = true /\
  pop_fraction r = Value (Fin (3 / (3 + 1))) /\
  pop_fraction {| r_filter_stats := Absent; r_filtered := Val (Val 5%Q); r_unfiltered := Val (Val 10%Q) |}
    = Value (Fin (5 / 10)) /\
  pop_fraction {| r_filter_stats := Absent; r_filtered := Val (Val 0%Q); r_unfiltered := Val (Val 0%Q) |}
    = Value NaN /\
  pop_fraction {| r_filter_stats := Absent; r_filtered := Absent; r_unfiltered := Absent |} = Value (Fin 1).
Proof. cbv zeta. repeat split. Qed.

Example C17_example_counts :
  let rowp := [[Fin (1 # 4); Fin (3 # 4)]; [Fin (1 # 2); Fin (1 # 2)]] in
  let colp := [[Fin (1 # 3); Fin (3 # 5)]; [Fin (2 # 3); Fin (2 # 5)]] in
  let tabp := [[Fin (1 # 8); Fin (3 # 8)]; [Fin (2 # 8); Fin (2 # 8)]] in
  mnth (pop_counts false true rowp colp tabp (Fin 1000) (Fin (1 # 2)) [false; false] [false; false]) 1 0
    =x= Fin (1000 # 3) /\
  mnth (pop_counts false false rowp colp tabp (Fin 1000) (Fin (1 # 2)) [false; true] [false; false]) 0 1
    =x= Fin (375 # 2) /\
  mnth (pop_counts false false rowp colp tabp (Fin 1000) (Fin (1 # 2)) [false; true] [false; false]) 1 1
    = NaN.
Proof. cbv zeta. repeat split; vm_compute; reflexivity. Qed.

Example C17_example_strand :
  strand_pop_counts false [Fin (1 # 4); Fin (1 # 2); Fin (3 # 4)] (Fin 1000) (Fin (1 # 2)) [false; true; false]
  = Some [Fin ((1 # 4) * 1000 * (1 # 2)); NaN; Fin ((3 # 4) * 1000 * (1 # 2))] /\
  strand_pop_counts true [Fin (1 # 4); Fin (1 # 2); Fin (3 # 4)] (Fin 1000) (Fin (1 # 2)) [false; true; true]
  = Some [Fin (1 * 1000 * (1 # 2)); NaN; NaN].
Proof. split; reflexivity. Qed.
