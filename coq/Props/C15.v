(* C15 – Share of sum divides by the base-cell total of the row, column or table.
   Statements only; proofs in Proofs/ShareProofs.v; executable model in Model/Share.v
   (over Model/Subtotals.v), tied to matrix/measure.py and stripe/measure.py by the
   correspondence check harness/props/c15.py. *)
From Coq Require Import QArith ZArith List Bool Lia Arith.
From CC Require Import Base.XQ Base.ListX Model.Subtotals Model.Share Proofs.ShareProofs Proofs.ShareScale.
Import ListNotations.
Local Close Scope Q_scope.
Local Open Scope nat_scope.

(* Every cell of every block is its (signed) sum divided by a total taken over BASE rows /
   BASE columns only: [col_total], [row_total], [table_total] range over the nr x nc base
   block; an inserted column / row is divided by ITS total over base rows / columns. *)
Theorem C15_column_share_def sums nr nc rsubs csubs :
  let SB := sb sums nr nc rsubs csubs in
  let CS := col_share sums nr nc rsubs csubs in
  (forall i j, i < nr -> j < nc ->
     mnth (b_base CS) i j = xdiv (mnth sums i j) (col_total sums nr j)) /\
  (forall k j, k < length rsubs -> j < nc ->
     mnth (b_rows CS) k j = xdiv (mnth (b_rows SB) k j) (col_total sums nr j)) /\
  (forall i l, i < nr -> l < length csubs ->
     mnth (b_cols CS) i l = xdiv (mnth (b_cols SB) i l) (subcol_total sums nr nc rsubs csubs l)) /\
  (forall k l, k < length rsubs -> l < length csubs ->
     mnth (b_inter CS) k l = xdiv (mnth (b_inter SB) k l) (subcol_total sums nr nc rsubs csubs l)).
Proof.
  exact (conj (col_share_base sums nr nc rsubs csubs)
        (conj (col_share_rows sums nr nc rsubs csubs)
        (conj (col_share_cols sums nr nc rsubs csubs)
              (col_share_inter sums nr nc rsubs csubs)))).
Qed.
Print Assumptions C15_column_share_def.

Theorem C15_row_share_def sums nr nc rsubs csubs :
  let SB := sb sums nr nc rsubs csubs in
  let RS := row_share sums nr nc rsubs csubs in
  (forall i j, i < nr -> j < nc ->
     mnth (b_base RS) i j = xdiv (mnth sums i j) (row_total sums nc i)) /\
  (forall i l, i < nr -> l < length csubs ->
     mnth (b_cols RS) i l = xdiv (mnth (b_cols SB) i l) (row_total sums nc i)) /\
  (forall k j, k < length rsubs -> j < nc ->
     mnth (b_rows RS) k j = xdiv (mnth (b_rows SB) k j) (subrow_total sums nr nc rsubs csubs k)) /\
  (forall k l, k < length rsubs -> l < length csubs ->
     mnth (b_inter RS) k l = xdiv (mnth (b_inter SB) k l) (subrow_total sums nr nc rsubs csubs k)).
Proof.
  exact (conj (row_share_base sums nr nc rsubs csubs)
        (conj (row_share_cols sums nr nc rsubs csubs)
        (conj (row_share_rows sums nr nc rsubs csubs)
              (row_share_inter sums nr nc rsubs csubs)))).
Qed.
Print Assumptions C15_row_share_def.

Theorem C15_total_share_def sums nr nc rsubs csubs :
  let SB := sb sums nr nc rsubs csubs in
  let TS := total_share sums nr nc rsubs csubs in
  (forall i j, i < nr -> j < nc ->
     mnth (b_base TS) i j = xdiv (mnth sums i j) (table_total sums nr nc)) /\
  (forall i l, i < nr -> l < length csubs ->
     mnth (b_cols TS) i l = xdiv (mnth (b_cols SB) i l) (table_total sums nr nc)) /\
  (forall k j, k < length rsubs -> j < nc ->
     mnth (b_rows TS) k j = xdiv (mnth (b_rows SB) k j) (table_total sums nr nc)) /\
  (forall k l, k < length rsubs -> l < length csubs ->
     mnth (b_inter TS) k l = xdiv (mnth (b_inter SB) k l) (table_total sums nr nc)).
Proof. exact (total_share_all sums nr nc rsubs csubs). Qed.
Print Assumptions C15_total_share_def.

(* the inserted row / column whose share is taken is the sum of its addends' sums (NaN for
   a difference) *)
Theorem C15_inserted_row_sum sums nr nc rsubs csubs k j : k < length rsubs -> j < nc ->
  mnth (b_rows (sb sums nr nc rsubs csubs)) k j =
    let s := nth k rsubs (mkSub [] []) in
    if has_subs s then NaN
    else xsub (xsum (map (fun i => mnth sums i j) (s_add s)))
              (xsum (map (fun i => mnth sums i j) (s_sub s))).
Proof. exact (sb_rows sums nr nc rsubs csubs k j). Qed.
Print Assumptions C15_inserted_row_sum.

(* base-cell shares add up to 1 along their direction (unavailable = NaN cells skipped) *)
Theorem C15_column_shares_sum_to_one sums nr nc rsubs csubs j t : j < nc ->
  (forall i, i < nr -> fin_or_nan (mnth sums i j)) ->
  col_total sums nr j = Fin t -> ~ (t == 0)%Q ->
  nansum (tab nr (fun i => mnth (b_base (col_share sums nr nc rsubs csubs)) i j)) =x= Fin 1.
Proof. exact (col_share_sum_one sums nr nc rsubs csubs j t). Qed.
Print Assumptions C15_column_shares_sum_to_one.

Theorem C15_row_shares_sum_to_one sums nr nc rsubs csubs i t : i < nr ->
  (forall j, j < nc -> fin_or_nan (mnth sums i j)) ->
  row_total sums nc i = Fin t -> ~ (t == 0)%Q ->
  nansum (tab nc (fun j => mnth (b_base (row_share sums nr nc rsubs csubs)) i j)) =x= Fin 1.
Proof. exact (row_share_sum_one sums nr nc rsubs csubs i t). Qed.
Print Assumptions C15_row_shares_sum_to_one.

(* the column share of a row subtotal is the sum of its addends' column shares; twin for
   column subtotals / row shares; and for total shares *)
Theorem C15_column_share_of_row_subtotal_additive sums nr nc rsubs csubs k j t :
  k < length rsubs -> j < nc ->
  let s := nth k rsubs (mkSub [] []) in
  has_subs s = false ->
  (forall i, In i (s_add s) -> i < nr /\ is_finite (mnth sums i j)) ->
  col_total sums nr j = Fin t -> ~ (t == 0)%Q ->
  mnth (b_rows (col_share sums nr nc rsubs csubs)) k j
  =x= xsum (map (fun i => mnth (b_base (col_share sums nr nc rsubs csubs)) i j) (s_add s)).
Proof. exact (col_share_subtotal_additive sums nr nc rsubs csubs k j t). Qed.
Print Assumptions C15_column_share_of_row_subtotal_additive.

Theorem C15_row_share_of_column_subtotal_additive sums nr nc rsubs csubs i l t :
  i < nr -> l < length csubs ->
  let s := nth l csubs (mkSub [] []) in
  has_subs s = false ->
  (forall j, In j (s_add s) -> j < nc /\ is_finite (mnth sums i j)) ->
  row_total sums nc i = Fin t -> ~ (t == 0)%Q ->
  mnth (b_cols (row_share sums nr nc rsubs csubs)) i l
  =x= xsum (map (fun j => mnth (b_base (row_share sums nr nc rsubs csubs)) i j) (s_add s)).
Proof. exact (row_share_subtotal_additive sums nr nc rsubs csubs i l t). Qed.
Print Assumptions C15_row_share_of_column_subtotal_additive.

Theorem C15_total_share_of_row_subtotal_additive sums nr nc rsubs csubs k j t :
  k < length rsubs -> j < nc ->
  let s := nth k rsubs (mkSub [] []) in
  has_subs s = false ->
  (forall i, In i (s_add s) -> i < nr /\ is_finite (mnth sums i j)) ->
  table_total sums nr nc = Fin t -> ~ (t == 0)%Q ->
  mnth (b_rows (total_share sums nr nc rsubs csubs)) k j
  =x= xsum (map (fun i => mnth (b_base (total_share sums nr nc rsubs csubs)) i j) (s_add s)).
Proof. exact (total_share_subtotal_additive sums nr nc rsubs csubs k j t). Qed.
Print Assumptions C15_total_share_of_row_subtotal_additive.

(* strand *)
Theorem C15_strand_share_def sums i : i < length sums ->
  vnth (stripe_share_base sums) i = xdiv (vnth sums i) (nansum sums).
Proof. exact (stripe_share_nth sums i). Qed.
Print Assumptions C15_strand_share_def.

Theorem C15_strand_shares_sum_to_one sums t :
  Forall fin_or_nan sums -> nansum sums = Fin t -> ~ (t == 0)%Q ->
  nansum (stripe_share_base sums) =x= Fin 1.
Proof. exact (stripe_share_sum_one sums t). Qed.
Print Assumptions C15_strand_shares_sum_to_one.

(* UNIT INVARIANCE: a share cannot depend on the unit the summed variable is recorded in - multiplying
   every sum of the strand by one positive factor k (1e-12 .. 1e9 in the C15 check) changes no share,
   including the x/0 = +-inf and 0/0 = NaN cells.  (After seeded change C15-11: an `np.isclose` guard on
   the total made every share NaN when the total was below 1e-8.) *)
Theorem C15_strand_share_unit_invariant k sums i : (0 < k)%Q -> Forall fin_or_nan sums ->
  vnth (stripe_share_base (map (xscale k) sums)) i =x= vnth (stripe_share_base sums) i.
Proof. exact (stripe_share_scale_invariant k sums i). Qed.
Print Assumptions C15_strand_share_unit_invariant.

Example C15_example_unit_invariant :
  let sums := [Fin 3; NaN; Fin 1; Fin 4]%Q in
  let k := (1 # 1000000000000)%Q in
  (0 < k)%Q /\ Forall fin_or_nan sums /\
  vnth (stripe_share_base (map (xscale k) sums)) 0 =x= Fin (3 # 8) /\
  vnth (stripe_share_base (map (xscale k) sums)) 1 =x= NaN /\
  vnth (stripe_share_base sums) 0 =x= Fin (3 # 8).
Proof.
  cbv zeta. split; [reflexivity|]. split; [repeat constructor|].
  repeat split; vm_compute; reflexivity.
Qed.

(* non-vacuity: rows [10;20;NaN] / [30;40;50], row subtotal of rows 0+1: its column share
   is 40/40 = 1 in column 0 and its addends' shares 10/40 + 30/40 add up to it; in the
   column with the unavailable cell the subtotal is NaN *)
Example C15_example :
  let sums := [[Fin 10; Fin 20; NaN]; [Fin 30; Fin 40; Fin 50]] in
  let rs := [mkSub [0; 1] []] in
  let CS := col_share sums 2 3 rs [] in
  col_total sums 2 0 = Fin 40 /\
  mnth (b_rows CS) 0 0 =x= Fin 1 /\
  mnth (b_base CS) 0 0 =x= Fin (1 # 4) /\
  mnth (b_base CS) 1 0 =x= Fin (3 # 4) /\
  mnth (b_rows CS) 0 2 = NaN /\
  mnth (b_base CS) 1 2 =x= Fin 1.
Proof. vm_compute. repeat split; reflexivity. Qed.

(* ------------------------------------------------------------------------------------ *)
(* UNDER DISPLAY TRANSFORMS (hide / explicit order / prune).  The partition selects and
   reorders the blocks above with one signed order vector per dimension (Model/Assemble.v:
   np.concatenate(blocks)[order], np.block(blocks)[np.ix_(rows, cols)]; an index >= 0 is a base
   element, < 0 an inserted subtotal).  [order] / [ro] / [co] are ARBITRARY: whichever base
   elements they leave out (hidden, pruned), a displayed cell is still its sum divided by the
   total over ALL base rows / columns of the table, and a displayed subtotal still adds the
   shares of ALL its addends. *)
From CC Require Import Model.Assemble Proofs.ShareDisplay.

Theorem C15_strand_share_displayed_base sums subs order k :
  k < length order ->
  (0 <= nth k order 0 < Z.of_nat (length sums))%Z ->
  nth k (strand_share_displayed sums subs order) NaN
  = xdiv (vnth sums (Z.to_nat (nth k order 0%Z))) (nansum sums).
Proof. exact (strand_share_displayed_base sums subs order k). Qed.
Print Assumptions C15_strand_share_displayed_base.

Theorem C15_strand_share_displayed_subtotal sums subs order k :
  k < length order ->
  (- Z.of_nat (length subs) <= nth k order 0 < 0)%Z ->
  nth k (strand_share_displayed sums subs order) NaN
  = stripe_sum_subtotal (stripe_share_base sums)
      (nth (Z.to_nat (nth k order 0%Z + Z.of_nat (length subs))) subs (mkSub [] [])).
Proof. exact (strand_share_displayed_subtotal sums subs order k). Qed.
Print Assumptions C15_strand_share_displayed_subtotal.

Theorem C15_slice_share_displayed_base sums nr nc rsubs csubs ro co k l :
  k < length ro -> l < length co ->
  (0 <= nth k ro 0 < Z.of_nat nr)%Z -> (0 <= nth l co 0 < Z.of_nat nc)%Z ->
  let i := Z.to_nat (nth k ro 0%Z) in
  let j := Z.to_nat (nth l co 0%Z) in
  let shown B := slice_share_displayed nr (length rsubs) nc (length csubs) B ro co in
  gnth NaN (shown (col_share sums nr nc rsubs csubs)) k l
    = xdiv (mnth sums i j) (col_total sums nr j)
  /\ gnth NaN (shown (row_share sums nr nc rsubs csubs)) k l
    = xdiv (mnth sums i j) (row_total sums nc i)
  /\ gnth NaN (shown (total_share sums nr nc rsubs csubs)) k l
    = xdiv (mnth sums i j) (table_total sums nr nc).
Proof. exact (slice_share_displayed_base sums nr nc rsubs csubs ro co k l). Qed.
Print Assumptions C15_slice_share_displayed_base.

Theorem C15_slice_col_share_displayed_subtotal_row sums nr nc rsubs csubs ro co k l :
  k < length ro -> l < length co ->
  (- Z.of_nat (length rsubs) <= nth k ro 0 < 0)%Z -> (0 <= nth l co 0 < Z.of_nat nc)%Z ->
  let s := Z.to_nat (nth k ro 0%Z + Z.of_nat (length rsubs)) in
  let j := Z.to_nat (nth l co 0%Z) in
  gnth NaN (slice_share_displayed nr (length rsubs) nc (length csubs)
              (col_share sums nr nc rsubs csubs) ro co) k l
    = xdiv (mnth (Subtotals.b_rows (sb sums nr nc rsubs csubs)) s j) (col_total sums nr j).
Proof. exact (slice_col_share_displayed_subtotal_row sums nr nc rsubs csubs ro co k l). Qed.
Print Assumptions C15_slice_col_share_displayed_subtotal_row.

(* non-vacuity: strand with sums 10 20 30 40, subtotals {0,1} (top) and {2,3} (bottom), the row
   with sum 30 hidden (order -2 0 1 3 -1): the shares are still over 100 - 3/10 1/10 1/5 2/5
   7/10 - so the displayed base rows add up to 7/10, not 1, and the bottom subtotal still
   counts its hidden addend. *)
Example C15_displayed_example :
  let sums := [Fin 10; Fin 20; Fin 30; Fin 40] in
  let subs := [mkSub [0; 1] []; mkSub [2; 3] []] in
  Forall2 xeq (strand_share_displayed sums subs [(-2)%Z; 0%Z; 1%Z; 3%Z; (-1)%Z])
              [Fin (3 # 10); Fin (1 # 10); Fin (1 # 5); Fin (2 # 5); Fin (7 # 10)].
Proof. vm_compute. repeat constructor. Qed.

(* ==== GenAgree (measures): what matrix/measure.py, stripe/measure.py, cubepart.py SAY NOW ==== *)
(* Gen/MeasureSrc.v, Gen/StripeMeasureSrc.v, Gen/PartMeasureSrc.v are REWRITTEN FROM THE SOURCE on every
   check by harness/translate/measures.py (an `ast` whitelist, fail-closed): one [option mexp] per
   (class, member) -- per block for a `blocks` member -- read through the wiring of the collection class.
   The theorems below say that what the source SAYS NOW ([meval] / the signed-square reading [meval_sq] of
   the translated term, Base/MeasureExp.v), for ALL input blocks, sizes and subtotal lists, IS the
   definition of Model.Share the theorems above are about -- tagged shape and every in-range cell.
   [None] on the left = the translator could not read the member (then only the correspondence ties it).
   A change of meaning in the source breaks these obligations (Proofs/GenAgreeShare.v fails). *)
From Coq Require String.
From CC Require Base.MeasureExp Model.Subtotals Model.Proportions Gen.MeasureSrc Gen.StripeMeasureSrc Gen.PartMeasureSrc Gen.Tables
     Proofs.GenAgreeMeasTac Proofs.GenAgreeShare.
Section GenAgreeMeasures_C15.   (* scopes and imports below end with the section *)
Import Coq.Strings.String CC.Base.MeasureExp CC.Model.Subtotals CC.Model.Proportions CC.Gen.MeasureSrc CC.Gen.StripeMeasureSrc
       CC.Gen.PartMeasureSrc CC.Gen.Tables CC.Proofs.GenAgreeMeasTac CC.Proofs.GenAgreeShare.
Import Coq.Lists.List.ListNotations CC.Base.XQ.
Local Close Scope Q_scope.
Local Open Scope string_scope.
Local Open Scope nat_scope.

Theorem C15_gen_row_share_sum :
  (match src_RowShareSum_blocks_00 with
  | Some e => forall nr nc rsubs csubs rd cd blk cubem cubeflag flag,
      holds_mat (menv_mat nr nc rsubs csubs rd cd blk cubem cubeflag flag) e DR DC
        (mnth (b_base (row_share (cubem "cube_sum" "sums") nr nc rsubs csubs)))
  | None => True
  end) /\
  (match src_RowShareSum_blocks_01 with
  | Some e => forall nr nc rsubs csubs rd cd blk cubem cubeflag flag,
      holds_mat (menv_mat nr nc rsubs csubs rd cd blk cubem cubeflag flag) e DR DCS
        (mnth (b_cols (row_share (cubem "cube_sum" "sums") nr nc rsubs csubs)))
  | None => True
  end) /\
  (match src_RowShareSum_blocks_10 with
  | Some e => forall nr nc rsubs csubs rd cd blk cubem cubeflag flag,
      holds_mat (menv_mat nr nc rsubs csubs rd cd blk cubem cubeflag flag) e DRS DC
        (mnth (b_rows (row_share (cubem "cube_sum" "sums") nr nc rsubs csubs)))
  | None => True
  end) /\
  (match src_RowShareSum_blocks_11 with
  | Some e => forall nr nc rsubs csubs rd cd blk cubem cubeflag flag,
      holds_mat (menv_mat nr nc rsubs csubs rd cd blk cubem cubeflag flag) e DRS DCS
        (mnth (b_inter (row_share (cubem "cube_sum" "sums") nr nc rsubs csubs)))
  | None => True
  end).
Proof. exact (conj gen_RowShareSum_blocks_00 (conj gen_RowShareSum_blocks_01 (conj gen_RowShareSum_blocks_10 gen_RowShareSum_blocks_11))). Qed.
Print Assumptions C15_gen_row_share_sum.

Theorem C15_gen_column_share_sum :
  (match src_ColumnShareSum_blocks_00 with
  | Some e => forall nr nc rsubs csubs rd cd blk cubem cubeflag flag,
      holds_mat (menv_mat nr nc rsubs csubs rd cd blk cubem cubeflag flag) e DR DC
        (mnth (b_base (col_share (cubem "cube_sum" "sums") nr nc rsubs csubs)))
  | None => True
  end) /\
  (match src_ColumnShareSum_blocks_01 with
  | Some e => forall nr nc rsubs csubs rd cd blk cubem cubeflag flag,
      holds_mat (menv_mat nr nc rsubs csubs rd cd blk cubem cubeflag flag) e DR DCS
        (mnth (b_cols (col_share (cubem "cube_sum" "sums") nr nc rsubs csubs)))
  | None => True
  end) /\
  (match src_ColumnShareSum_blocks_10 with
  | Some e => forall nr nc rsubs csubs rd cd blk cubem cubeflag flag,
      holds_mat (menv_mat nr nc rsubs csubs rd cd blk cubem cubeflag flag) e DRS DC
        (mnth (b_rows (col_share (cubem "cube_sum" "sums") nr nc rsubs csubs)))
  | None => True
  end) /\
  (match src_ColumnShareSum_blocks_11 with
  | Some e => forall nr nc rsubs csubs rd cd blk cubem cubeflag flag,
      holds_mat (menv_mat nr nc rsubs csubs rd cd blk cubem cubeflag flag) e DRS DCS
        (mnth (b_inter (col_share (cubem "cube_sum" "sums") nr nc rsubs csubs)))
  | None => True
  end).
Proof. exact (conj gen_ColumnShareSum_blocks_00 (conj gen_ColumnShareSum_blocks_01 (conj gen_ColumnShareSum_blocks_10 gen_ColumnShareSum_blocks_11))). Qed.
Print Assumptions C15_gen_column_share_sum.

Theorem C15_gen_total_share_sum :
  (match src_TotalShareSum_blocks_00 with
  | Some e => forall nr nc rsubs csubs rd cd blk cubem cubeflag flag,
      holds_mat (menv_mat nr nc rsubs csubs rd cd blk cubem cubeflag flag) e DR DC
        (mnth (b_base (total_share (cubem "cube_sum" "sums") nr nc rsubs csubs)))
  | None => True
  end) /\
  (match src_TotalShareSum_blocks_01 with
  | Some e => forall nr nc rsubs csubs rd cd blk cubem cubeflag flag,
      holds_mat (menv_mat nr nc rsubs csubs rd cd blk cubem cubeflag flag) e DR DCS
        (mnth (b_cols (total_share (cubem "cube_sum" "sums") nr nc rsubs csubs)))
  | None => True
  end) /\
  (match src_TotalShareSum_blocks_10 with
  | Some e => forall nr nc rsubs csubs rd cd blk cubem cubeflag flag,
      holds_mat (menv_mat nr nc rsubs csubs rd cd blk cubem cubeflag flag) e DRS DC
        (mnth (b_rows (total_share (cubem "cube_sum" "sums") nr nc rsubs csubs)))
  | None => True
  end) /\
  (match src_TotalShareSum_blocks_11 with
  | Some e => forall nr nc rsubs csubs rd cd blk cubem cubeflag flag,
      holds_mat (menv_mat nr nc rsubs csubs rd cd blk cubem cubeflag flag) e DRS DCS
        (mnth (b_inter (total_share (cubem "cube_sum" "sums") nr nc rsubs csubs)))
  | None => True
  end).
Proof. exact (conj gen_TotalShareSum_blocks_00 (conj gen_TotalShareSum_blocks_01 (conj gen_TotalShareSum_blocks_10 gen_TotalShareSum_blocks_11))). Qed.
Print Assumptions C15_gen_total_share_sum.

Theorem C15_gen_strand_share_sum :
  (match ssrc_ShareSum_base_values with
  | Some e => forall subs rd vblk sums,
      holds_vec (senv_std (List.length sums) subs rd vblk (share_cube sums)) e DR
        (vnth (stripe_share_base sums))
  | None => True
  end) /\
  (match ssrc_ShareSum_subtotal_values with
  | Some e => forall subs rd vblk sums,
      holds_vec (senv_std (List.length sums) subs rd vblk (share_cube sums)) e DRS
        (vnth (stripe_share_subtotals sums subs))
  | None => True
  end).
Proof. exact (conj gen_stripe_ShareSum_base_values gen_stripe_ShareSum_subtotal_values). Qed.
Print Assumptions C15_gen_strand_share_sum.

(* non-vacuity: sums 1, 3 in one column: the translated column share of row 1 is 3/4 *)
Example C15_gen_example :
  match src_ColumnShareSum_blocks_00 with
  | Some e =>
      let cubem := fun (_ _ : string) => [[Fin 1%Q]; [Fin 3%Q]] in
      match meval (menv_mat 2 1 [] [] false false (fun _ _ _ => []) cubem (fun _ _ => false) (fun _ => false)) e with
      | VMat DR DC f => f 1 0 =x= Fin (Qmake 3 4)
      | _ => False
      end
  | None => True
  end.
Proof. vm_compute. first [exact I | reflexivity]. Qed.

End GenAgreeMeasures_C15.

(* ---- WIRING-APPENDIX:BEGIN (generated by tools/gen_wiring_props.py; do not edit) ---- *)
From CC Require Proofs.GenAgreeWiring_C15.
Section Wiring_C15.
Import Coq.Lists.List Coq.ZArith.ZArith Coq.Strings.String CC.Base.WiringExp CC.Gen.WiringSrc.
Import ListNotations.
Local Open Scope string_scope.

Theorem C15_wiring_Slice_column_share_sum :
  wsrc_Slice_column_share_sum = Some (WTryValueError (w_matrix_of "column_share_sum") "").
Proof. exact Proofs.GenAgreeWiring_C15.gen_wiring_Slice_column_share_sum. Qed.
Print Assumptions C15_wiring_Slice_column_share_sum.

Theorem C15_wiring_Slice_row_share_sum :
  wsrc_Slice_row_share_sum = Some (WTryValueError (w_matrix_of "row_share_sum") "").
Proof. exact Proofs.GenAgreeWiring_C15.gen_wiring_Slice_row_share_sum. Qed.
Print Assumptions C15_wiring_Slice_row_share_sum.

Theorem C15_wiring_Slice_total_share_sum :
  wsrc_Slice_total_share_sum = Some (WTryValueError (w_matrix_of "total_share_sum") "").
Proof. exact Proofs.GenAgreeWiring_C15.gen_wiring_Slice_total_share_sum. Qed.
Print Assumptions C15_wiring_Slice_total_share_sum.

Theorem C15_wiring_Strand_share_sum :
  wsrc_Strand_share_sum = Some (WTryValueError (w_vector_of "share_sum") "").
Proof. exact Proofs.GenAgreeWiring_C15.gen_wiring_Strand_share_sum. Qed.
Print Assumptions C15_wiring_Strand_share_sum.

Theorem C15_wiring_SecondOrderMeasures_column_share_sum :
  wsrc_SecondOrderMeasures_column_share_sum = Some (WCall (WGlobal "_ColumnShareSum") [WSelf
      "_dimensions"; WVar "self"; WSelf "_cube_measures"] []).
Proof. exact Proofs.GenAgreeWiring_C15.gen_wiring_SecondOrderMeasures_column_share_sum. Qed.
Print Assumptions C15_wiring_SecondOrderMeasures_column_share_sum.

Theorem C15_wiring_SecondOrderMeasures_row_share_sum :
  wsrc_SecondOrderMeasures_row_share_sum = Some (WCall (WGlobal "_RowShareSum") [WSelf "_dimensions";
      WVar "self"; WSelf "_cube_measures"] []).
Proof. exact Proofs.GenAgreeWiring_C15.gen_wiring_SecondOrderMeasures_row_share_sum. Qed.
Print Assumptions C15_wiring_SecondOrderMeasures_row_share_sum.

Theorem C15_wiring_SecondOrderMeasures_total_share_sum :
  wsrc_SecondOrderMeasures_total_share_sum = Some (WCall (WGlobal "_TotalShareSum") [WSelf
      "_dimensions"; WVar "self"; WSelf "_cube_measures"] []).
Proof. exact Proofs.GenAgreeWiring_C15.gen_wiring_SecondOrderMeasures_total_share_sum. Qed.
Print Assumptions C15_wiring_SecondOrderMeasures_total_share_sum.

Theorem C15_wiring_StripeMeasures_share_sum :
  wsrc_StripeMeasures_share_sum = Some (WCall (WGlobal "_ShareSum") [WSelf "_rows_dimension"; WVar
      "self"; WSelf "_cube_measures"] []).
Proof. exact Proofs.GenAgreeWiring_C15.gen_wiring_StripeMeasures_share_sum. Qed.
Print Assumptions C15_wiring_StripeMeasures_share_sum.

End Wiring_C15.
(* ---- WIRING-APPENDIX:END ---- *)
