(* C10 - Transposing the response transposes the result.
   Statements only; proofs in Proofs/Transpose{Algebra,Counts,Blocks,Stats,Payload}.v; the notion of
   transposition (tensor with an MR dimension moving together with its selection axis, dimension
   list, matrices, block quadruples with inserted rows <-> inserted columns) is Model/Transpose.v.

   Every theorem relates two SEPARATELY WRITTEN definitions of the existing models
   (Model/CubeCounts.v, Subtotals.v, Proportions.v, Variance.v, Share.v, Scale.v, Zscore.v,
   Population.v): the row-direction one applied to the transposed input with the two subtotal
   lists exchanged, and the column-direction one applied to the original input (and vice versa);
   direction-free measures are related to themselves.  All sizes, all subtotal lists (differences,
   overlaps, out-of-range offsets), all values incl. NaN / infinities; pointwise, up to Qeq.

   [MT mT m]: mT is a transpose of m cell by cell; [BT nr nc nrs ncs B' B]: the four blocks of B'
   (nc x nr, ncs inserted rows, nrs inserted columns) are the transposes of those of B. *)
From Coq Require Import QArith ZArith List Bool Lia Arith.
From CC Require Import Base.XQ Base.ListX Spec.Survey Model.CubeCounts Model.Subtotals
  Model.Proportions Model.Variance Model.Share Model.Scale Model.Zscore Model.Population
  Model.Transpose
  Proofs.TransposeAlgebra Proofs.TransposeCounts Proofs.TransposeBlocks Proofs.TransposeStats
  Proofs.TransposePayload.
Import ListNotations.
Local Close Scope Q_scope.
Local Open Scope nat_scope.

(* ================================================================================================ *)
(** * 1. Cube counts, bases, margins: all nine class pairs (Cat / Mr / Arr)^2 *)

(* counts are direction-free: cell (j,i) of B x A is cell (i,j) of A x B *)
Theorem C10_counts V rc cc i j :
  counts_of (ttrans (cls_mr cc) V) cc rc j i = counts_of V rc cc i j.
Proof. exact (counts_T V rc cc i j). Qed.
Print Assumptions C10_counts.

(* the ROW bases of B x A are the COLUMN bases of A x B ... *)
Theorem C10_row_bases V nr sr rc cc i j :
  row_bases_of (ttrans (cls_mr cc) V) nr sr cc rc j i = column_bases_of V nr sr rc cc i j.
Proof. exact (row_bases_T V nr sr rc cc i j). Qed.
Print Assumptions C10_row_bases.

(* ... and the COLUMN bases of B x A are the ROW bases of A x B *)
Theorem C10_column_bases V nc sc rc cc i j :
  column_bases_of (ttrans (cls_mr cc) V) nc sc cc rc j i = row_bases_of V nc sc rc cc i j.
Proof. exact (column_bases_T V nc sc rc cc i j). Qed.
Print Assumptions C10_column_bases.

Theorem C10_table_bases V nr nc sr sc rc cc i j :
  table_bases_of (ttrans (cls_mr cc) V) nc nr sc sr cc rc j i
  =x= table_bases_of V nr nc sr sc rc cc i j.
Proof. exact (table_bases_T V nr nc sr sc rc cc i j). Qed.
Print Assumptions C10_table_bases.

(* the 1-D margins: rows margin of B x A is defined exactly when the columns margin of A x B is,
   and equals it element by element; likewise the per-row / per-column table bases and the scalar *)
Theorem C10_margins V nr nc sr sc rc cc :
  orelf eq (rows_base_of (ttrans (cls_mr cc) V) nr cc rc) (columns_base_of V nr rc cc) /\
  orelf eq (columns_base_of (ttrans (cls_mr cc) V) nc cc rc) (rows_base_of V nc rc cc) /\
  orelf xeq (rows_table_base_of (ttrans (cls_mr cc) V) nc nr sc cc rc)
            (columns_table_base_of V nr nc sc rc cc) /\
  orelf xeq (columns_table_base_of (ttrans (cls_mr cc) V) nc nr sr cc rc)
            (rows_table_base_of V nr nc sr rc cc) /\
  orelx (table_base_of (ttrans (cls_mr cc) V) nc nr cc rc) (table_base_of V nr nc rc cc).
Proof.
  exact (conj (rows_base_T V nr rc cc) (conj (columns_base_T V nc rc cc)
        (conj (rows_table_base_T V nr nc sc rc cc) (conj (columns_table_base_T V nr nc sr rc cc)
              (table_base_T V nr nc rc cc))))).
Qed.
Print Assumptions C10_margins.

(* means / sums / stddev / medians of the response: direction-free *)
Theorem C10_passthrough V rmr cmr i j :
  passthrough_of (ttrans cmr V) cmr rmr j i = passthrough_of V rmr cmr i j.
Proof. exact (passthrough_T V rmr cmr i j). Qed.
Print Assumptions C10_passthrough.

(* everything a slice's count measure offers at once (the record of Model/CubeCounts.v) *)
Theorem C10_slice_out V nr nc sr sc rc cc :
  slice_out_T nr nc (slice_out_of (ttrans (cls_mr cc) V) nc nr sc sr cc rc)
                    (slice_out_of V nr nc sr sc rc cc).
Proof. exact (slice_out_of_T V nr nc sr sc rc cc). Qed.
Print Assumptions C10_slice_out.

(* slice_out_of is what Model/CubeCounts.v computes for a partition *)
Theorem C10_slice_counts_is_slice_out_of ds data k :
  slice_counts ds data k =
  match slice_info_of ds with
  | None => None
  | Some si => Some (slice_out_of (slice_tensor ds data si k)
                                  (nvalid (si_row si)) (nvalid (si_col si)) (si_sr si) (si_sc si)
                                  (cls_of (si_row si)) (cls_of (si_col si)))
  end.
Proof. exact (slice_counts_is_slice_out_of ds data k). Qed.
Print Assumptions C10_slice_counts_is_slice_out_of.

(* removing the missing elements commutes with the exchange of the dimensions: gr / gc are the
   dimension groups (an MR dimension with its selection axis) of rows / columns, T the raw tensor *)
Theorem C10_valid_selection_commutes (gr gc : list dimd) T ic ir :
  length ic = length gc -> length ir = length gr ->
  take_valid (gc ++ gr) (trot (length gc) T) (ic ++ ir)
  = trot (length gc) (take_valid (gr ++ gc) T) (ic ++ ir).
Proof. exact (take_valid_trot gr gc T ic ir). Qed.
Print Assumptions C10_valid_selection_commutes.

(* END TO END, from the payload: for every 2-D response whose two dimensions are plain (CAT-like,
   CA items, CA categories) or multiple-response (items followed by the selection axis), every
   layout of missing elements and every data list, the analysis of the TRANSPOSED PAYLOAD
   ([tpayload]: row-major flattening of the tensor with the dimension groups exchanged) under the
   exchanged dimension list is (a) what [slice_counts_T] computes from the original payload and
   (b) the transpose of the analysis of the original payload: counts, row <-> column bases, table
   bases, margins. *)
Theorem C10_payload_end_to_end gr gc data :
  dgroup gr -> dgroup gc ->
  exists S S',
    slice_counts (gr ++ gc) data 0 = Some S /\
    slice_counts (gc ++ gr) (tpayload (gr ++ gc) data) 0 = Some S' /\
    slice_counts_T (gr ++ gc) data = Some S' /\
    slice_out_T (nvalid (g_dim gr)) (nvalid (g_dim gc)) S' S.
Proof. exact (slice_counts_transposed_payload gr gc data). Qed.
Print Assumptions C10_payload_end_to_end.

(* ================================================================================================ *)
(** * 2. Subtotal blocks: inserted rows <-> inserted columns, intersections *)

Theorem C10_subtotal_blocks m mT nr nc rsubs csubs dcn drn :
  MT mT m ->
  BT nr nc (length rsubs) (length csubs)
     (sum_blocks mT nc nr csubs rsubs drn dcn) (sum_blocks m nr nc rsubs csubs dcn drn).
Proof. exact (sum_blocks_T m mT nr nc rsubs csubs dcn drn). Qed.
Print Assumptions C10_subtotal_blocks.

(* the code accumulates an intersection row-first; column-first gives the same cell *)
Theorem C10_intersection_order_irrelevant m dcn drn rs cs :
  inter_cell_colfirst m dcn drn rs cs =x= inter_cell m dcn drn rs cs.
Proof. exact (inter_colfirst_eq m dcn drn rs cs). Qed.
Print Assumptions C10_intersection_order_irrelevant.

(* row bases (weighted / unweighted) of B x A <-> column bases of A x B, all four blocks *)
Theorem C10_base_blocks b bT nr nc rsubs csubs :
  MT bT b ->
  BT nr nc (length rsubs) (length csubs)
     (col_base_blocks nc nr csubs rsubs bT) (row_base_blocks nr nc rsubs csubs b) /\
  BT nr nc (length rsubs) (length csubs)
     (row_base_blocks nc nr csubs rsubs bT) (col_base_blocks nr nc rsubs csubs b) /\
  BT nr nc (length rsubs) (length csubs)
     (table_base_blocks nc nr csubs rsubs bT) (table_base_blocks nr nc rsubs csubs b).
Proof.
  intros H.
  exact (conj (row_base_blocks_T b bT nr nc rsubs csubs H)
        (conj (col_base_blocks_T b bT nr nc rsubs csubs H)
              (table_base_blocks_T b bT nr nc rsubs csubs H))).
Qed.
Print Assumptions C10_base_blocks.

(* ================================================================================================ *)
(** * 3. Proportions, variances, standard errors (incl. the categorical-date difference rule) *)

Theorem C10_row_proportions nr nc rsubs csubs counts countsT dn rd cd cb cbT :
  MT countsT counts -> MT cbT cb ->
  BT nr nc (length rsubs) (length csubs)
     (row_proportions nc nr csubs rsubs countsT dn cd rd cbT)
     (col_proportions nr nc rsubs csubs counts dn rd cd cb).
Proof. exact (row_proportions_T nr nc rsubs csubs counts countsT dn rd cd cb cbT). Qed.
Print Assumptions C10_row_proportions.

Theorem C10_column_proportions nr nc rsubs csubs counts countsT dn rd cd rb rbT :
  MT countsT counts -> MT rbT rb ->
  BT nr nc (length rsubs) (length csubs)
     (col_proportions nc nr csubs rsubs countsT dn cd rd rbT)
     (row_proportions nr nc rsubs csubs counts dn rd cd rb).
Proof. exact (col_proportions_T nr nc rsubs csubs counts countsT dn rd cd rb rbT). Qed.
Print Assumptions C10_column_proportions.

Theorem C10_table_proportions nr nc rsubs csubs counts countsT dn tb tbT :
  MT countsT counts -> MT tbT tb ->
  BT nr nc (length rsubs) (length csubs)
     (table_proportions nc nr csubs rsubs countsT dn tbT)
     (table_proportions nr nc rsubs csubs counts dn tb).
Proof. exact (table_proportions_T nr nc rsubs csubs counts countsT dn tb tbT). Qed.
Print Assumptions C10_table_proportions.

(* variances of any proportion blocks P over base blocks T (positive / negative term blocks) *)
Theorem C10_variance_blocks c cT nr nc rsubs csubs P P' T T' :
  MT cT c ->
  BT nr nc (length rsubs) (length csubs) P' P ->
  BT nr nc (length rsubs) (length csubs) T' T ->
  BT nr nc (length rsubs) (length csubs)
     (variance_blocks cT nc nr csubs rsubs P' T') (variance_blocks c nr nc rsubs csubs P T).
Proof. exact (variance_blocks_T c cT nr nc rsubs csubs P P' T T'). Qed.
Print Assumptions C10_variance_blocks.

(* row_proportion_variances / column_... / table_... and the squared standard errors *)
Theorem C10_variances_and_stderrs nr nc rsubs csubs c cT dn rd cd b bT :
  MT cT c -> MT bT b ->
  let NRS := length rsubs in let NCS := length csubs in
  BT nr nc NRS NCS (row_var dn nc nr csubs rsubs cT cd rd bT) (col_var dn nr nc rsubs csubs c rd cd b) /\
  BT nr nc NRS NCS (col_var dn nc nr csubs rsubs cT cd rd bT) (row_var dn nr nc rsubs csubs c rd cd b) /\
  BT nr nc NRS NCS (tab_var dn nc nr csubs rsubs cT bT) (tab_var dn nr nc rsubs csubs c b) /\
  BT nr nc NRS NCS (row_se dn nc nr csubs rsubs cT cd rd bT) (col_se dn nr nc rsubs csubs c rd cd b) /\
  BT nr nc NRS NCS (col_se dn nc nr csubs rsubs cT cd rd bT) (row_se dn nr nc rsubs csubs c rd cd b) /\
  BT nr nc NRS NCS (tab_se dn nc nr csubs rsubs cT bT) (tab_se dn nr nc rsubs csubs c b).
Proof.
  intros Hc Hb.
  exact (conj (row_var_T nr nc rsubs csubs c cT dn rd cd Hc b bT Hb)
        (conj (col_var_T nr nc rsubs csubs c cT dn rd cd Hc b bT Hb)
        (conj (tab_var_T nr nc rsubs csubs c cT dn Hc b bT Hb)
        (conj (row_se_T nr nc rsubs csubs c cT dn rd cd Hc b bT Hb)
        (conj (col_se_T nr nc rsubs csubs c cT dn rd cd Hc b bT Hb)
              (tab_se_T nr nc rsubs csubs c cT dn Hc b bT Hb)))))).
Qed.
Print Assumptions C10_variances_and_stderrs.

(* ================================================================================================ *)
(** * 4. Share of sum: 3 directions x 4 blocks *)

Theorem C10_share_of_sum s sT nr nc rsubs csubs :
  MT sT s ->
  BT nr nc (length rsubs) (length csubs)
     (row_share sT nc nr csubs rsubs) (col_share s nr nc rsubs csubs) /\
  BT nr nc (length rsubs) (length csubs)
     (col_share sT nc nr csubs rsubs) (row_share s nr nc rsubs csubs) /\
  BT nr nc (length rsubs) (length csubs)
     (total_share sT nc nr csubs rsubs) (total_share s nr nc rsubs csubs).
Proof.
  intros H.
  exact (conj (row_share_T s sT nr nc rsubs csubs H)
        (conj (col_share_T s sT nr nc rsubs csubs H)
              (total_share_T s sT nr nc rsubs csubs H))).
Qed.
Print Assumptions C10_share_of_sum.

(* ================================================================================================ *)
(** * 5. Scale statistics and margin proportions *)

(* any per-vector statistic: over the rows of B x A = over the columns of A x B, and vice versa *)
Theorem C10_vector_stats f nr nc counts bases :
  shape counts nr nc -> shape bases nr nc ->
  rows_stat f nc (mtranspose nr nc counts) (mtranspose nr nc bases) = cols_stat f nc counts bases /\
  cols_stat f nr (mtranspose nr nc counts) (mtranspose nr nc bases) = rows_stat f nr counts bases.
Proof.
  intros Hc Hb.
  exact (conj (rows_stat_T f nr nc counts bases (proj1 Hc) (proj1 Hb))
              (cols_stat_T f nr nc counts bases Hc Hb)).
Qed.
Print Assumptions C10_vector_stats.

(* rows_scale_mean / _stddev^2 / _stderr^2 / _median of B x A = columns_... of A x B
   (Model/Scale.v has ONE definition per statistic, used for both directions: the content of this
   theorem is the choice of the vectors and of the opposing dimension's values - see _partial note) *)
Theorem C10_scale_statistics_partial vals ord diff margin nr nc counts bases :
  shape counts nr nc -> shape bases nr nc ->
  let cT := mtranspose nr nc counts in let bT := mtranspose nr nc bases in
  rows_stat (f_scale_mean vals) nc cT bT = cols_stat (f_scale_mean vals) nc counts bases /\
  rows_stat (f_scale_var vals diff) nc cT bT = cols_stat (f_scale_var vals diff) nc counts bases /\
  rows_stat (f_scale_stderr vals diff margin) nc cT bT
    = cols_stat (f_scale_stderr vals diff margin) nc counts bases /\
  rows_stat (f_scale_median vals ord diff) nc cT bT
    = cols_stat (f_scale_median vals ord diff) nc counts bases.
Proof.
  intros Hc Hb.
  exact (conj (rows_stat_T _ nr nc counts bases (proj1 Hc) (proj1 Hb))
        (conj (rows_stat_T _ nr nc counts bases (proj1 Hc) (proj1 Hb))
        (conj (rows_stat_T _ nr nc counts bases (proj1 Hc) (proj1 Hb))
              (rows_stat_T _ nr nc counts bases (proj1 Hc) (proj1 Hb))))).
Qed.
Print Assumptions C10_scale_statistics_partial.

Theorem C10_margin_proportion nr nc margin marginT tb tbT i j :
  MT marginT margin -> MT tbT tb -> i < nr -> j < nc ->
  mnth (margin_proportion nc nr marginT tbT) j i =x= mnth (margin_proportion nr nc margin tb) i j.
Proof. exact (margin_proportion_T nr nc margin marginT tb tbT i j). Qed.
Print Assumptions C10_margin_proportion.

(* ================================================================================================ *)
(** * 6. Residual z-scores (p-values are a function of z) *)

Theorem C10_zscore_cell c r k t :
  z_zabs c (Fin k) (Fin r) (Fin t) =x= z_zabs c (Fin r) (Fin k) (Fin t).
Proof. exact (z_zabs_sym c r k t). Qed.
Print Assumptions C10_zscore_cell.

(* a whole block, with the rank test on the base counts and the all(t==r) / all(t==k) guards;
   bases finite (they are sums of counts) *)
Theorem C10_zscores_block n0 m0 nr nc bc bcT c cT t tT r rT k kT :
  0 < n0 -> 0 < m0 -> shape bc n0 m0 -> shape bcT m0 n0 -> MT bcT bc ->
  0 < nr -> 0 < nc ->
  shape c nr nc -> shape cT nc nr -> shape t nr nc -> shape tT nc nr ->
  MT cT c -> MT tT t -> MT rT r -> MT kT k ->
  all_fin_mat t nr nc -> all_fin_mat r nr nc -> all_fin_mat k nr nc ->
  all_fin_mat tT nc nr -> all_fin_mat rT nc nr -> all_fin_mat kT nc nr ->
  forall i j, i < nr -> j < nc ->
    mnth (zscores_block bcT cT tT kT rT) j i =x= mnth (zscores_block bc c t r k) i j.
Proof. exact (zscores_block_T n0 m0 nr nc bc bcT c cT t tT r rT k kT). Qed.
Print Assumptions C10_zscores_block.

(* ================================================================================================ *)
(** * 7. Population estimates *)

(* unless BOTH dimensions are categorical dates *)
Theorem C10_population_counts nr nc rcd ccd rowp colp tabp N f dr dc :
  rcd && ccd = false -> 0 < nr -> 0 < nc ->
  shape rowp nr nc -> shape colp nr nc -> shape tabp nr nc ->
  forall i j, i < nr -> j < nc ->
    mnth (pop_counts ccd rcd (mtranspose nr nc colp) (mtranspose nr nc rowp) (mtranspose nr nc tabp)
                     N f dc dr) j i
    = mnth (pop_counts rcd ccd rowp colp tabp N f dr dc) i j.
Proof. exact (pop_counts_T nr nc rcd ccd rowp colp tabp N f dr dc). Qed.
Print Assumptions C10_population_counts.

Theorem C10_population_moe nr nc rcd ccd rowse colse tabse N f :
  rcd && ccd = false -> 0 < nr -> 0 < nc ->
  shape rowse nr nc -> shape colse nr nc -> shape tabse nr nc ->
  forall i j, i < nr -> j < nc ->
    mnth (pop_moe ccd rcd (mtranspose nr nc colse) (mtranspose nr nc rowse) (mtranspose nr nc tabse) N f) j i
    = mnth (pop_moe rcd ccd rowse colse tabse N f) i j.
Proof. exact (pop_moe_T nr nc rcd ccd rowse colse tabse N f). Qed.
Print Assumptions C10_population_moe.

(* both dimensions categorical-date: the code projects the ROW proportion in either order, so
   the two estimates are not transposes of each other (known finding C10-population-both-cat-date) *)
Theorem C10_population_both_dates_refuted :
  exists rowp colp tabp,
    shape rowp 1 2 /\ shape colp 1 2 /\ shape tabp 1 2 /\
    ~ (mnth (pop_counts true true (mtranspose 1 2 colp) (mtranspose 1 2 rowp) (mtranspose 1 2 tabp)
                        (Fin 1000) (Fin 1) [] []) 0 0
       =x= mnth (pop_counts true true rowp colp tabp (Fin 1000) (Fin 1) [] []) 0 0).
Proof. exact pop_counts_both_dates_refuted. Qed.
Print Assumptions C10_population_both_dates_refuted.

(* ================================================================================================ *)
(** * Examples: the hypotheses are inhabited, the statements are not vacuous *)

Definition ex_m : mat := [[Fin 1; Fin 2; Fin 3]; [Fin 4; NaN; Fin 6]].
Definition ex_rs : list subtotal := [mkSub [0; 1] []; mkSub [1] [0]].
Definition ex_cs : list subtotal := [mkSub [0; 2] [1]; mkSub [2; 1] []].

Example ex_shape : shape ex_m 2 3.
Proof. split; [reflexivity|]. intros [|[|]] H; try reflexivity; lia. Qed.

Example ex_MT : MT (mtranspose 2 3 ex_m) ex_m.
Proof. exact (mtranspose_MT 2 3 ex_m ex_shape). Qed.

(* inserted row 1 (a difference) x base column 2 of A x B is base row 2 x inserted column 1 of
   B x A; the intersection (difference x sum) as well *)
Example ex_blocks :
  let B := sum_blocks ex_m 2 3 ex_rs ex_cs false false in
  let B' := sum_blocks (mtranspose 2 3 ex_m) 3 2 ex_cs ex_rs false false in
  mnth (b_rows B) 1 2 = Fin 3 /\ mnth (b_cols B') 2 1 = Fin 3 /\
  mnth (b_inter B) 0 1 = NaN /\ mnth (b_inter B') 1 0 = NaN /\
  mnth (b_cols B) 0 0 = Fin 2 /\ mnth (b_rows B') 0 0 = Fin 2.
Proof. vm_compute. repeat split; reflexivity. Qed.

(* MR x CAT against CAT x MR on a concrete tensor: V [i; s; j] = 100 i + 10 s + j *)
Definition ex_V : tensor :=
  fun idx => match idx with
             | [i; s; j] => Fin (inject_Z (Z.of_nat (100 * i + 10 * s + j)))
             | _ => NaN
             end.
Example ex_mr_cat :
  column_bases_of ex_V 2 2 CMr CCat 1 2 = row_bases_of (ttrans false ex_V) 2 2 CCat CMr 2 1 /\
  xeqb (column_bases_of ex_V 2 2 CMr CCat 1 2) (Fin 214) = true.
Proof. split; vm_compute; reflexivity. Qed.

(* an MR x CAT response with a missing category: both hypotheses of the end-to-end theorem hold,
   and the transposed payload is the CAT x MR payload *)
Definition ex_gr : list dimd := [mkDim DMrSubvar [false; false]; mkDim DMrCat mr_cat_missing].
Definition ex_gc : list dimd := [mkDim DCat [false; true; false]].
Example ex_groups : dgroup ex_gr /\ dgroup ex_gc.
Proof. split; [apply dg_mr; reflexivity | apply dg_plain; reflexivity]. Qed.
Example ex_tpayload :
  tpayload (ex_gr ++ ex_gc) (map (fun z => Fin (inject_Z z)) [1; 2; 3; 4; 5; 6; 7; 8; 9; 10; 11; 12; 13; 14; 15; 16; 17; 18]%Z)
  = map (fun z => Fin (inject_Z z)) [1; 4; 7; 10; 13; 16; 2; 5; 8; 11; 14; 17; 3; 6; 9; 12; 15; 18]%Z.
Proof. vm_compute. reflexivity. Qed.

Example ex_population_hypothesis : (true && false = false) /\ (false && false = false).
Proof. split; reflexivity. Qed.

(* ================================================================================================ *)
(** * 8. Scale statistics as a TWIN statement between the two orientations of matrix/measure.py

   Supersedes [C10_scale_statistics_partial].  Model/ScaleOrient.v models the ROWS orientation
   (one statistic per row: counts / ROW bases, `_rows_weighted_mean_stddev`, margin = row bases [:, 0],
   count.take(order, axis=1), numeric values of dimensions[1]) and the COLUMNS orientation (one
   statistic per column: counts / COLUMN bases, `_columns_weighted_mean_stddev`, margin = column bases
   [0, :], take along axis 0, numeric values of dimensions[0]) separately, for the base vectors AND the
   subtotal vectors (comparable counts: a difference is all NaN in its own direction), with the
   `is_defined` guards.  [marginal_eq]: defined together, then base vectors and subtotal vectors agree
   cell by cell up to Qeq; the median is EQUAL.  All sizes (empty blocks included), all values. *)
From CC Require Import Model.ScaleOrient Proofs.ScaleCongr Proofs.TransposeScale Proofs.TransposeZscoreAll.

(* rows_scale_mean of B x A = columns_scale_mean of A x B.  [cb]: per-cell column weighted bases of
   A x B, [cbT] per-cell row weighted bases of B x A, [avals]: numeric values of A's elements *)
Theorem C10_scale_mean nr nc rsubs csubs counts countsT dn cb cbT avals :
  MT countsT counts -> MT cbT cb ->
  marginal_eq (rows_scale_mean nc nr csubs rsubs countsT dn cbT avals)
              (columns_scale_mean nr nc rsubs csubs counts dn cb avals).
Proof. exact (rows_scale_mean_T nr nc rsubs csubs counts countsT dn cb cbT avals). Qed.
Print Assumptions C10_scale_mean.

(* rows_scale_mean_stddev ^ 2 *)
Theorem C10_scale_stddev_sq nr nc rsubs csubs counts countsT dn cb cbT avals :
  MT countsT counts -> MT cbT cb -> length avals = nr ->
  marginal_eq (rows_scale_stddev_sq nc nr csubs rsubs countsT dn cbT avals)
              (columns_scale_stddev_sq nr nc rsubs csubs counts dn cb avals).
Proof. exact (rows_scale_stddev_sq_T nr nc rsubs csubs counts countsT dn cb cbT avals). Qed.
Print Assumptions C10_scale_stddev_sq.

(* rows_scale_mean_stderr ^ 2; [mdef]: the margin is defined (the opposing dimension is no array) *)
Theorem C10_scale_stderr_sq nr nc rsubs csubs counts countsT dn cb cbT avals mdef :
  MT countsT counts -> MT cbT cb -> length avals = nr ->
  marginal_eq (rows_scale_stderr_sq nc nr csubs rsubs countsT dn cbT avals mdef)
              (columns_scale_stderr_sq nr nc rsubs csubs counts dn cb avals mdef).
Proof. exact (rows_scale_stderr_sq_T nr nc rsubs csubs counts countsT dn cb cbT avals mdef). Qed.
Print Assumptions C10_scale_stderr_sq.

(* rows_scale_median; [ord]: numpy's sort order of the valued elements (any list of row offsets) *)
Theorem C10_scale_median nr nc rsubs csubs counts countsT avals :
  MT countsT counts ->
  forall ord, Forall (fun i => i < nr) ord ->
  rows_scale_median nc nr csubs rsubs countsT avals ord
  = columns_scale_median nr nc rsubs csubs counts avals ord.
Proof. exact (rows_scale_median_T nr nc rsubs csubs counts countsT avals). Qed.
Print Assumptions C10_scale_median.

(* the other direction: columns_scale_X of B x A = rows_scale_X of A x B ([rb]: per-cell row bases of
   A x B, [bvals]: numeric values of B's elements) *)
Theorem C10_scale_columns_of_transpose nr nc rsubs csubs counts countsT dn rb rbT bvals mdef :
  MT countsT counts -> MT rbT rb -> length bvals = nc ->
  marginal_eq (rows_scale_mean nr nc rsubs csubs counts dn rb bvals)
              (columns_scale_mean nc nr csubs rsubs countsT dn rbT bvals) /\
  marginal_eq (rows_scale_stddev_sq nr nc rsubs csubs counts dn rb bvals)
              (columns_scale_stddev_sq nc nr csubs rsubs countsT dn rbT bvals) /\
  marginal_eq (rows_scale_stderr_sq nr nc rsubs csubs counts dn rb bvals mdef)
              (columns_scale_stderr_sq nc nr csubs rsubs countsT dn rbT bvals mdef) /\
  (forall ord, Forall (fun j => j < nc) ord ->
     rows_scale_median nr nc rsubs csubs counts bvals ord
     = columns_scale_median nc nr csubs rsubs countsT bvals ord).
Proof. exact (columns_scale_T nr nc rsubs csubs counts countsT dn rb rbT bvals mdef). Qed.
Print Assumptions C10_scale_columns_of_transpose.

(* the two margin scalars of cubepart.py: rows_scale_mean_margin / rows_scale_median_margin of B x A
   (first ROW of its per-cell column bases [rbT]) = columns_scale_*_margin of A x B (first COLUMN of its
   per-cell row bases [rb]); None together *)
Theorem C10_scale_margins rb rbT avals n :
  MT rbT rb -> length (mrow rbT 0) = n -> length rb = n ->
  oxeq (rows_scale_mean_margin rbT avals) (columns_scale_mean_margin rb avals) /\
  rows_scale_median_margin rbT avals = columns_scale_median_margin rb avals.
Proof.
  exact (fun H H1 H2 => conj (rows_scale_mean_margin_T rb rbT avals n H H1 H2)
                             (rows_scale_median_margin_T rb rbT avals n H H1 H2)).
Qed.
Print Assumptions C10_scale_margins.

(* the matrix-level orientations are, vector by vector, the per-vector statistics of Model/Scale.v
   (which C14 ties to the code): row i of a block in the ROWS orientation, column j in the COLUMNS one *)
Theorem C10_scale_orientations_are_per_vector n m vals counts bases ccounts means ord :
  (forall i, i < n -> length (mrow counts i) = m -> length (mrow bases i) = m ->
     vnth (rows_mean_block n m vals counts bases) i = scale_mean_vec (mrow counts i) (mrow bases i) vals) /\
  (forall i, i < n -> length (mrow ccounts i) = length vals ->
     vnth (rows_var_block n vals ccounts means) i = sqrt_arg (scale_var (mrow ccounts i) vals (vnth means i))) /\
  (forall i, i < n ->
     vnth (rows_median_block n vals ord ccounts) i = scale_median_vec ord false (mrow ccounts i) vals) /\
  (forall j, j < m -> length counts = n -> length bases = n ->
     vnth (columns_mean_block n m vals counts bases) j = scale_mean_vec (mcol counts j) (mcol bases j) vals) /\
  (forall j, j < m -> length ccounts = length vals ->
     vnth (columns_var_block m vals ccounts means) j = sqrt_arg (scale_var (mcol ccounts j) vals (vnth means j))) /\
  (forall j, j < m ->
     vnth (columns_median_block m vals ord ccounts) j = scale_median_vec ord false (mcol ccounts j) vals).
Proof.
  exact (conj (rows_mean_block_vec n m vals counts bases)
        (conj (rows_var_block_vec n vals ccounts means)
        (conj (rows_median_block_vec n vals ord ccounts)
        (conj (columns_mean_block_vec n m vals counts bases)
        (conj (columns_var_block_vec m vals ccounts means)
              (columns_median_block_vec m vals ord ccounts)))))).
Qed.
Print Assumptions C10_scale_orientations_are_per_vector.

(* ================================================================================================ *)
(** * 9. Residual z-scores without side conditions (supersedes the hypotheses of C10_zscores_block:
      no non-emptiness of the base block or of the block, no finiteness of the bases) *)

Theorem C10_zscore_cell_all c r k t : z_zabs c k r t =x= z_zabs c r k t.
Proof. exact (z_zabs_sym_all c r k t). Qed.
Print Assumptions C10_zscore_cell_all.

Theorem C10_zscores_block_all n0 m0 nr nc bc bcT c cT t tT r rT k kT :
  shape bc n0 m0 -> shape bcT m0 n0 -> MT bcT bc ->
  shape c nr nc -> shape cT nc nr -> shape t nr nc -> shape tT nc nr ->
  MT cT c -> MT tT t -> MT rT r -> MT kT k ->
  forall i j, i < nr -> j < nc ->
    mnth (zscores_block bcT cT tT kT rT) j i =x= mnth (zscores_block bc c t r k) i j.
Proof. exact (zscores_block_T_all n0 m0 nr nc bc bcT c cT t tT r rT k kT). Qed.
Print Assumptions C10_zscores_block_all.

(* ---- examples: a 2 x 3 table, column subtotals (0 + 2) and the difference 1 - 0, values 1 and 3 on the
   two rows: both orientations on the two responses give the same vectors; an EMPTY base block ---- *)
Definition ex_sc : mat := [[Fin 1; Fin 2; Fin 3]; [Fin 4; Fin 5; Fin 6]].
Definition ex_scb : mat := [[Fin 5; Fin 7; Fin 9]; [Fin 5; Fin 7; Fin 9]].
Definition ex_scs : list subtotal := [mkSub [0; 2] []; mkSub [1] [0]].
Definition ex_av : list xq := [Fin 1; Fin 3].
Definition ex_red (m : marginal) : marginal :=
  option_map (fun uv => (map xred (fst uv), map xred (snd uv))) m.

Example ex_scale_hypotheses :
  MT (mtranspose 2 3 ex_sc) ex_sc /\ MT (mtranspose 2 3 ex_scb) ex_scb /\ length ex_av = 2 /\
  Forall (fun i => i < 2) [0; 1].
Proof.
  assert (S1 : shape ex_sc 2 3) by (split; [reflexivity|]; intros [|[|]] H; try reflexivity; lia).
  assert (S2 : shape ex_scb 2 3) by (split; [reflexivity|]; intros [|[|]] H; try reflexivity; lia).
  repeat split; [exact (mtranspose_MT 2 3 ex_sc S1)| exact (mtranspose_MT 2 3 ex_scb S2)|].
  repeat constructor.
Qed.

Example ex_scale_twins :
  let cT := mtranspose 2 3 ex_sc in let bT := mtranspose 2 3 ex_scb in
  ex_red (columns_scale_mean 2 3 [] ex_scs ex_sc false ex_scb ex_av)
    = Some ([Fin (13 # 5); Fin (17 # 7); Fin (7 # 3)], [Fin (17 # 7); NaN]) /\
  ex_red (rows_scale_mean 3 2 ex_scs [] cT false bT ex_av)
    = Some ([Fin (13 # 5); Fin (17 # 7); Fin (7 # 3)], [Fin (17 # 7); NaN]) /\
  ex_red (columns_scale_stderr_sq 2 3 [] ex_scs ex_sc false ex_scb ex_av true)
    = Some ([Fin (16 # 125); Fin (40 # 343); Fin (8 # 81)], [Fin (20 # 343); NaN]) /\
  ex_red (rows_scale_stderr_sq 3 2 ex_scs [] cT false bT ex_av true)
    = Some ([Fin (16 # 125); Fin (40 # 343); Fin (8 # 81)], [Fin (20 # 343); NaN]) /\
  columns_scale_median 2 3 [] ex_scs ex_sc ex_av [0; 1] = Some ([Fin 3; Fin 3; Fin 3], [Fin 3; NaN]) /\
  rows_scale_median 3 2 ex_scs [] cT ex_av [0; 1] = Some ([Fin 3; Fin 3; Fin 3], [Fin 3; NaN]) /\
  rows_scale_mean 3 2 ex_scs [] cT false bT [NaN; NaN] = None /\
  columns_scale_mean 2 3 [] ex_scs ex_sc false ex_scb [NaN; NaN] = None.
Proof. vm_compute. repeat split; reflexivity. Qed.

(* z-scores with an EMPTY base block (0 x 3) and a block holding an infinite base: the hypotheses of
   C10_zscores_block_all are inhabited where those of C10_zscores_block are not *)
Example ex_zscore_empty_base :
  shape ([] : mat) 0 3 /\ shape (mtranspose 0 3 []) 3 0 /\ MT (mtranspose 0 3 []) [] /\
  mnth (zscores_block [] [[Fin 1]] [[Fin 4]] [[Inf false]] [[Fin 2]]) 0 0 = NaN /\
  mnth (zscores_block (mtranspose 0 3 []) [[Fin 1]] [[Fin 4]] [[Fin 2]] [[Inf false]]) 0 0 = NaN.
Proof.
  assert (S0 : shape ([] : mat) 0 3) by (split; [reflexivity| intros i H; lia]).
  repeat split; try (intros i H; simpl in H; lia); try exact (mtranspose_shape 0 3 []);
    try exact (mtranspose_MT 0 3 [] S0); try (vm_compute; reflexivity).
  - intros [|[|[|]]] H; try reflexivity; lia.
Qed.

(* ================================================================================================ *)
(** * 10. Labels, codes, aliases, fills, index lists, marginals, assembled measures; display orders *)
From CC Require Base.Ident Base.SortX Spec.OrderSpec Model.Assemble Model.TransposeView Model.Collator
     Model.SortKeys Model.OrderOrient Proofs.AssembleProofs Proofs.TransposeLabels Proofs.TransposeOrder.

Section C10_view.   (* Model/Assemble.v has its own [blocks]: keep the import local *)
Import CC.Model.Assemble CC.Model.TransposeView CC.Proofs.AssembleProofs CC.Proofs.TransposeLabels.

(* the view of the exchanged raw slice ([raw_T]: attributes and marginals of the two dimensions
   exchanged, every measure block transposed with inserted rows <-> inserted columns) under the
   exchanged orders: shape swapped, row lists = column lists, scalars unchanged - for EVERY input *)
Theorem C10_view_lists R ro co :
  let V := slice_view R ro co in
  let V' := slice_view (raw_T R) co ro in
  v_shape V' = (snd (v_shape V), fst (v_shape V)) /\
  v_row_labels V' = v_col_labels V /\ v_col_labels V' = v_row_labels V /\
  v_row_marginals V' = v_col_marginals V /\ v_col_marginals V' = v_row_marginals V /\
  v_inserted_rows V' = v_inserted_cols V /\ v_inserted_cols V' = v_inserted_rows V /\
  v_scalars V' = v_scalars V /\
  length (v_measures V') = length (v_measures V).
Proof. exact (slice_view_T_lists R ro co). Qed.
Print Assumptions C10_view_lists.

(* every assembled matrix measure of B x A is the transpose of that of A x B, cell by cell *)
Theorem C10_view_measures R ro co k i j :
  Forall (wf_blocks (r_n R) (r_m R) (r_p R) (r_q R)) (r_measures R) ->
  Forall (in_range (r_m R) (r_n R)) ro -> Forall (in_range (r_q R) (r_p R)) co ->
  k < length (r_measures R) -> i < length ro -> j < length co ->
  gnth NaN (nth k (v_measures (slice_view (raw_T R) co ro)) []) j i
  = gnth NaN (nth k (v_measures (slice_view R ro co)) []) i j.
Proof. exact (slice_view_T_measures R ro co k i j). Qed.
Print Assumptions C10_view_measures.

(* label / code / alias / fill lists and inserted / derived / difference position lists: the ROWS
   lists of B x A are the COLUMNS lists of A x B and vice versa *)
Theorem C10_dimension_lists A_dim B_dim ro co :
  fst (slice_lists B_dim A_dim co ro) = snd (slice_lists A_dim B_dim ro co) /\
  snd (slice_lists B_dim A_dim co ro) = fst (slice_lists A_dim B_dim ro co).
Proof. exact (slice_lists_T A_dim B_dim ro co). Qed.
Print Assumptions C10_dimension_lists.

Definition ex_raw : raw_slice :=
  mkRaw 2 1 3 1
        [mkBlocks [[Fin 1; Fin 2; Fin 3]; [Fin 4; Fin 5; Fin 6]] [[Fin 10]; [Fin 11]] [[Fin 7; Fin 8; Fin 9]] [[Fin 12]]]
        [([Fin 6; Fin 15], [Fin 24])] [([Fin 5; Fin 7; Fin 9], [Fin 21])]
        ([101; 102], [199])%Z ([201; 202; 203], [299])%Z [Fin 45].
Example ex_view :
  let ro := [(-1); 1; 0]%Z in let co := [2; (-1); 0]%Z in
  Forall (wf_blocks 2 1 3 1) (r_measures ex_raw) /\
  Forall (in_range 1 2) ro /\ Forall (in_range 1 3) co /\
  v_measures (slice_view ex_raw ro co) = [[[Fin 9; Fin 12; Fin 7]; [Fin 6; Fin 11; Fin 4]; [Fin 3; Fin 10; Fin 1]]] /\
  v_measures (slice_view (raw_T ex_raw) co ro) = [[[Fin 9; Fin 6; Fin 3]; [Fin 12; Fin 11; Fin 10]; [Fin 7; Fin 4; Fin 1]]] /\
  v_row_labels (slice_view (raw_T ex_raw) co ro) = [203; 299; 201]%Z /\
  v_inserted_rows (slice_view (raw_T ex_raw) co ro) = [1].
Proof.
  cbv zeta. split; [|split; [|split]].
  - repeat constructor.
  - repeat constructor; unfold in_range; simpl; lia.
  - repeat constructor; unfold in_range; simpl; lia.
  - vm_compute. repeat split; reflexivity.
Qed.
End C10_view.

Section C10_order.
Import Coq.Strings.String CC.Base.Ident CC.Base.SortX CC.Spec.OrderSpec CC.Model.Collator CC.Model.SortKeys
       CC.Model.OrderOrient CC.Proofs.TransposeOrder.
Local Open Scope string_scope.

(* anchored collators (payload / explicit order and every `type` that falls back to them): the order of
   a dimension is the same whether it is the rows or the columns dimension - whatever the opposing
   dimension, the measures and the labels are *)
Theorem C10_anchored_order d o opp opp' env env' marg labels sublabels labels' sublabels' empties psub :
  is_value_method (method_of PRows (o_type o)) = false ->
  rows_order d o opp env marg labels sublabels empties psub
  = columns_order d o opp' env' labels' sublabels' empties psub.
Proof. exact (anchored_order_T d o opp opp' env env' marg labels sublabels labels' sublabels' empties psub). Qed.
Print Assumptions C10_anchored_order.

(* sort by value (label, opposing element, opposing insertion), "the key is the transposed key":
   A x B has n base rows (the opposing dimension [opp]), m row subtotals, p base columns, q column
   subtotals; [kw']: the measure keyword as written for B x A.  Rows-only kinds are excluded: a
   `marginal` sort, and an opposing-insertion sort against an array dimension (derived element) *)
Theorem C10_value_order n m p q o kw' opp env env' marg labels sublabels d empties psub :
  List.length (p_ids opp) = n -> List.length (p_ins_ids opp) = m ->
  key_T n m p q (matrix_measure env' kw') (matrix_measure env (o_measure o)) ->
  method_of PRows (o_type o) <> MMarginal ->
  (method_of PRows (o_type o) = MOppInsertion -> p_array opp = false) ->
  rows_order d (with_measure o kw') opp env' marg labels sublabels empties psub
  = columns_order d o opp env labels sublabels empties psub.
Proof. exact (fun Hn Hm Hk => value_order_T n m p q o kw' opp env env' marg labels sublabels Hn Hm Hk d empties psub). Qed.
Print Assumptions C10_value_order.

(* the key IS the transposed key for every measure keyword but `col_index`, with the direction of the
   keyword mirrored, when the measures object of B x A is property-wise the transposed twin *)
Theorem C10_measure_key_mirror n m p q env env' kw :
  (forall prop, prop <> "column_index" -> env' prop = env_T n m p q env prop) ->
  (forall prop b, env prop = Some b -> mb_wf n m p q b) ->
  kw <> Some "col_index" ->
  key_T n m p q (matrix_measure env' (option_map mirror_kw kw)) (matrix_measure env kw).
Proof. exact (fun He Hw => matrix_measure_mirror n m p q env env' He Hw kw). Qed.
Print Assumptions C10_measure_key_mirror.

(* a slice: the ROW order of B x A ([dims_T]: dimensions, order requests with the measure keyword
   mirrored, empty-vector lists, labels exchanged; subtotal pruning read from the opposing side as
   _RowOrderHelper / _ColumnOrderHelper do) is the COLUMN order of A x B *)
Theorem C10_slice_order sd env env' marg p q :
  let n := List.length (d_ids (sd_rows sd)) in
  let m := List.length (subtotals (sd_rows sd)) in
  let t := o_type (sd_col_req sd) in
  method_of PRows t <> MMarginal ->
  (method_of PRows t = MOppInsertion -> d_array (sd_rows sd) = false) ->
  o_measure (sd_col_req sd) <> Some "col_index" ->
  (forall prop, prop <> "column_index" -> env' prop = env_T n m p q env prop) ->
  (forall prop b, env prop = Some b -> mb_wf n m p q b) ->
  slice_row_order (dims_T sd) env' marg = slice_column_order sd env.
Proof. exact (slice_order_T sd env env' marg p q). Qed.
Print Assumptions C10_slice_order.

(* A (ids 1 2) x B (ids 1 2 3); the columns are sorted ascending by `col_percent` of row id 2; on B x A
   the rows are sorted by `row_percent` of column id 2: the same signed order [2; 1; 0] *)
Definition ex_el (z : Z) : elem := mkElem (IInt z) false DNone.
Definition ex_dA : dimension := mkDim [ex_el 1; ex_el 2] false [] None [] false.
Definition ex_dB : dimension := mkDim [ex_el 1; ex_el 2; ex_el 3] false [] None [] false.
Definition ex_reqB : order_req :=
  mkOrd (Some "opposing_element") (Some "col_percent") None (Some (IInt 2)) None (mkSort false [] []) [].
Definition ex_reqA : order_req := mkOrd None None None None None (mkSort false [] []) [].
Definition ex_sd : slice_dims :=
  mkSliceDims ex_dA ex_dB ex_reqA ex_reqB [] [] (["a1"; "a2"], []) (["b1"; "b2"; "b3"], []).
Definition ex_colp : mblocks :=
  SortKeys.mkBlocks [[Fin (1 # 5); Fin (2 # 7); Fin (1 # 3)]; [Fin (4 # 5); Fin (5 # 7); Fin (2 # 3)]] [[]; []] [] [].
Definition ex_env : menv := fun p => if String.eqb p "column_proportions" then Some ex_colp else None.

Example ex_slice_order :
  method_of PRows (o_type (sd_col_req ex_sd)) = MOppElement /\
  o_measure (sd_col_req ex_sd) <> Some "col_index" /\
  (forall prop b, ex_env prop = Some b -> mb_wf 2 0 3 0 b) /\
  o_measure (sd_row_req (dims_T ex_sd)) = Some "row_percent" /\
  slice_column_order ex_sd ex_env = Ok [2; 1; 0]%Z /\
  slice_row_order (dims_T ex_sd) (env_T 2 0 3 0 ex_env) (fun _ => None) = Ok [2; 1; 0]%Z.
Proof.
  split; [reflexivity|]. split; [discriminate|]. split.
  - intros prop b H. unfold ex_env in H. destruct (String.eqb prop "column_proportions"); [|discriminate].
    inversion H; subst b. unfold mb_wf, mb_rect. simpl. repeat split; repeat constructor.
  - split; [reflexivity|]. split; vm_compute; reflexivity.
Qed.
End C10_order.

(* =======================================================================================
   Source-translator obligations (round 3, harness/translate/x_assemble.py): the two ORIENTATIONS of the
   assembly and of the order helpers are read from the source text on every check and proved to denote the
   row / column twins of the models the transposition theorems above relate (C10_order: [slice_row_order],
   [slice_column_order] of Model/OrderOrient.v; Model/TransposeView.v's [rows_lists] / [columns_lists] are
   built from [assemble_vec], [inserted_idxs], [derived_idxs_slice], [diff_idxs]):
     matrix/assembler.py  row_display_order    = [slice_row_order]:   rows dimension, row mask, subtotal pruning
                                                  by the COLUMNS, keys = columns of the blocks
                          column_display_order = [slice_column_order]: the mirror image, keys = rows of the
                                                  blocks with inserted rows <-> inserted columns exchanged
     cubepart.py          row_* lists from dimension 0 with the row order, column_* lists from dimension 1 with
                          the column order; a ROWS marginal takes the row order, any other the column order;
                          np.ix_(row order, column order) - not the other way round.
   (Proofs/GenAgreeAssemble.v, GenAgreeOrderHelpers.v; statements shared with C05 / C08.)
   ======================================================================================= *)
From Coq Require String.
From CC Require Base.AsmExp Base.OrderExp Model.Assemble Model.Collator Model.SortKeys Model.OrderOrient
     Gen.AssembleSrc Gen.SortTablesSrc Gen.OrderHelperSrc Proofs.AssembleProofs Proofs.GenAgreeAssemble Proofs.GenAgreeSortTables Proofs.GenAgreeOrderTac
     Proofs.GenAgreeOrderHelpers.
Section GenAgreeAssemble_C10.   (* scopes and imports below end with the section *)
Import Coq.Strings.String CC.Base.AsmExp CC.Base.OrderExp CC.Model.Assemble CC.Model.Collator
       CC.Model.SortKeys CC.Model.OrderOrient CC.Gen.AssembleSrc
       CC.Gen.SortTablesSrc CC.Gen.OrderHelperSrc CC.Proofs.AssembleProofs CC.Proofs.GenAgreeAssemble
       CC.Proofs.GenAgreeSortTables CC.Proofs.GenAgreeOrderTac CC.Proofs.GenAgreeOrderHelpers.
Local Open Scope string_scope.

Theorem C10_gen_row_display_order :
  with_tables (fun cm me ma t1 t2 _ =>
    match ord_matrix_row_display_order with
    | Some e => forall rows cols rreq creq rmask cmask rl cl tr env marg,
        names_apart env marg ->
        heval' (henv_slice cm me ma t1 t2 rows cols rreq creq rmask cmask rl cl tr env marg) e
        = to_hres (slice_row_order (sl_sd rows cols rreq creq rmask cmask rl cl tr) env marg)
    | None => True
    end).
Proof. exact gen_matrix_row_display_order. Qed.
Print Assumptions C10_gen_row_display_order.

Theorem C10_gen_column_display_order :
  with_tables (fun cm me ma t1 t2 _ =>
    match ord_matrix_column_display_order with
    | Some e => forall rows cols rreq creq rmask cmask rl cl tr env marg,
        names_apart env marg ->
        heval' (henv_slice cm me ma t1 t2 rows cols rreq creq rmask cmask rl cl tr env marg) e
        = to_hres (slice_column_order (sl_sd rows cols rreq creq rmask cmask rl cl tr) env)
    | None => True
    end).
Proof. exact gen_matrix_column_display_order. Qed.
Print Assumptions C10_gen_column_display_order.

(* the helper classes of the two orientations, class by class: column j of blocks (0,0)/(1,0) vs row i of
   blocks (0,0)/(0,1); inserted column l of (0,1)/(1,1) vs inserted row k of (1,0)/(1,1) *)
Theorem C10_gen_oriented_helpers :
  rows_class ord_matrix__SortRowsByBaseColumnHelper__display_order MOppElement any_dims /\
  cols_class ord_matrix__SortColumnsByBaseRowHelper__display_order MOppElement /\
  rows_class ord_matrix__SortRowsByInsertedColumnHelper__display_order MOppInsertion
             (fun _ cols => d_array cols = false) /\
  cols_class ord_matrix__SortColumnsByInsertedRowHelper__display_order MOppInsertion /\
  rows_class ord_matrix__SortRowsByLabelHelper__display_order MLabel any_dims /\
  cols_class ord_matrix__SortColumnsByLabelHelper__display_order MLabel.
Proof.
  exact (conj gen_matrix_SortRowsByBaseColumnHelper (conj gen_matrix_SortColumnsByBaseRowHelper
        (conj gen_matrix_SortRowsByInsertedColumnHelper (conj gen_matrix_SortColumnsByInsertedRowHelper
        (conj gen_matrix_SortRowsByLabelHelper gen_matrix_SortColumnsByLabelHelper))))).
Qed.
Print Assumptions C10_gen_oriented_helpers.

(* the assembled matrix takes the ROW order on axis 0 and the COLUMN order on axis 1 *)
Theorem C10_gen_Slice__assemble_matrix :
  match asm_Slice__assemble_matrix with
  | Some e => forall (A : Type) (d : A) lit truthy n m p q (B : blocks A) ro co,
      wf_blocks n m p q B -> Forall (in_range m n) ro -> Forall (in_range q p) co ->
      aeval A d lit truthy (env_slice [("blocks", blocks_val n m p q B)] ro co) e
      = VMat (List.length ro) (List.length co) (assemble d n m p q B ro co)
  | None => True
  end.
Proof. exact gen_Slice__assemble_matrix. Qed.
Print Assumptions C10_gen_Slice__assemble_matrix.

Theorem C10_gen_Slice__assemble_marginal :
  match asm_Slice__assemble_marginal with
  | Some e => forall (A : Type) (d : A) lit truthy (defined rows : bool) base subs ro co,
      Forall (in_range (List.length subs) (List.length base)) (if rows then ro else co) ->
      aeval A d lit truthy (env_marginal defined rows base subs ro co) e
      = if defined then VVec (assemble_vec d base subs (if rows then ro else co)) else VNone
  | None => True
  end.
Proof. exact gen_Slice__assemble_marginal. Qed.
Print Assumptions C10_gen_Slice__assemble_marginal.

(* the per-dimension public lists of Model/TransposeView.v: rows from dimension 0 / the row order, columns
   from dimension 1 / the column order *)
Theorem C10_gen_dimension_lists :
  labels_agree asm_Slice_row_labels "dim0" "element_labels" "subtotal_labels" true /\
  labels_agree asm_Slice_column_labels "dim1" "element_labels" "subtotal_labels" false /\
  labels_agree asm_Slice_row_codes "dim0" "element_ids" "insertion_ids" true /\
  labels_agree asm_Slice_column_codes "dim1" "element_ids" "insertion_ids" false /\
  labels_agree asm_Slice_row_aliases "dim0" "element_aliases" "subtotal_aliases" true /\
  labels_agree asm_Slice_column_aliases "dim1" "element_aliases" "subtotal_aliases" false /\
  inserted_agree_slice asm_Slice_inserted_row_idxs true /\
  inserted_agree_slice asm_Slice_inserted_column_idxs false /\
  derived_agree_slice asm_Slice_derived_row_idxs "dim0" true /\
  derived_agree_slice asm_Slice_derived_column_idxs "dim1" false /\
  diff_agree_slice asm_Slice_diff_row_idxs "dim0" true /\
  diff_agree_slice asm_Slice_diff_column_idxs "dim1" false.
Proof.
  exact (conj gen_Slice_row_labels (conj gen_Slice_column_labels (conj gen_Slice_row_codes
        (conj gen_Slice_column_codes (conj gen_Slice_row_aliases (conj gen_Slice_column_aliases
        (conj gen_Slice_inserted_row_idxs (conj gen_Slice_inserted_column_idxs
        (conj gen_Slice_derived_row_idxs (conj gen_Slice_derived_column_idxs
        (conj gen_Slice_diff_row_idxs gen_Slice_diff_column_idxs))))))))))).
Qed.
Print Assumptions C10_gen_dimension_lists.
End GenAgreeAssemble_C10.

(* ---- WIRING-APPENDIX:BEGIN (generated by tools/gen_wiring_props.py; do not edit) ---- *)
From CC Require Proofs.GenAgreeWiring_C10.
Section Wiring_C10.
Import Coq.Lists.List Coq.ZArith.ZArith Coq.Strings.String CC.Base.WiringExp CC.Gen.WiringSrc.
Import ListNotations.
Local Open Scope string_scope.

Theorem C10_wiring_CubePartition_dimension_types :
  wsrc_CubePartition_dimension_types = Some (WCall (WGlobal "tuple") [WComp "gen" (WAttr (WVar "d")
      "dimension_type") [(["d"], WSelf "_dimensions", [])]] []).
Proof. exact Proofs.GenAgreeWiring_C10.gen_wiring_CubePartition_dimension_types. Qed.
Print Assumptions C10_wiring_CubePartition_dimension_types.

Theorem C10_wiring_Slice_column_aliases :
  wsrc_Slice_column_aliases = Some (WIndex (WCall (WAttr (WGlobal "np") "array") [WBin "+" (WAttr
      (WIndex (WSelf "_dimensions") [WInt (1)%Z]) "element_aliases") (WAttr (WIndex (WSelf
      "_dimensions") [WInt (1)%Z]) "subtotal_aliases")] []) [WSelf "_column_order_signed_indexes"]).
Proof. exact Proofs.GenAgreeWiring_C10.gen_wiring_Slice_column_aliases. Qed.
Print Assumptions C10_wiring_Slice_column_aliases.

Theorem C10_wiring_Slice_column_codes :
  wsrc_Slice_column_codes = Some (WIndex (WCall (WAttr (WGlobal "np") "array") [WBin "+" (WAttr
      (WIndex (WSelf "_dimensions") [WInt (1)%Z]) "element_ids") (WAttr (WIndex (WSelf
      "_dimensions") [WInt (1)%Z]) "insertion_ids")] []) [WSelf "_column_order_signed_indexes"]).
Proof. exact Proofs.GenAgreeWiring_C10.gen_wiring_Slice_column_codes. Qed.
Print Assumptions C10_wiring_Slice_column_codes.

Theorem C10_wiring_Slice_column_labels :
  wsrc_Slice_column_labels = Some (WIndex (WCall (WAttr (WGlobal "np") "array") [WBin "+" (WAttr
      (WIndex (WSelf "_dimensions") [WInt (1)%Z]) "element_labels") (WAttr (WIndex (WSelf
      "_dimensions") [WInt (1)%Z]) "subtotal_labels")] []) [WSelf "_column_order_signed_indexes"]).
Proof. exact Proofs.GenAgreeWiring_C10.gen_wiring_Slice_column_labels. Qed.
Print Assumptions C10_wiring_Slice_column_labels.

Theorem C10_wiring_Slice_row_aliases :
  wsrc_Slice_row_aliases = Some (WIndex (WCall (WAttr (WGlobal "np") "array") [WBin "+" (WAttr (WIndex
      (WSelf "_dimensions") [WInt (0)%Z]) "element_aliases") (WAttr (WIndex (WSelf "_dimensions")
      [WInt (0)%Z]) "subtotal_aliases")] []) [WSelf "_row_order_signed_indexes"]).
Proof. exact Proofs.GenAgreeWiring_C10.gen_wiring_Slice_row_aliases. Qed.
Print Assumptions C10_wiring_Slice_row_aliases.

Theorem C10_wiring_Slice_row_codes :
  wsrc_Slice_row_codes = Some (WIndex (WCall (WAttr (WGlobal "np") "array") [WBin "+" (WAttr (WIndex
      (WSelf "_dimensions") [WInt (0)%Z]) "element_ids") (WAttr (WIndex (WSelf "_dimensions") [WInt
      (0)%Z]) "insertion_ids")] []) [WSelf "_row_order_signed_indexes"]).
Proof. exact Proofs.GenAgreeWiring_C10.gen_wiring_Slice_row_codes. Qed.
Print Assumptions C10_wiring_Slice_row_codes.

Theorem C10_wiring_Slice_row_labels :
  wsrc_Slice_row_labels = Some (WIndex (WCall (WAttr (WGlobal "np") "array") [WBin "+" (WAttr (WIndex
      (WSelf "_dimensions") [WInt (0)%Z]) "element_labels") (WAttr (WIndex (WSelf "_dimensions")
      [WInt (0)%Z]) "subtotal_labels")] []) [WSelf "_row_order_signed_indexes"]).
Proof. exact Proofs.GenAgreeWiring_C10.gen_wiring_Slice_row_labels. Qed.
Print Assumptions C10_wiring_Slice_row_labels.

Theorem C10_wiring_Strand_row_aliases :
  wsrc_Strand_row_aliases = Some (WIndex (WCall (WAttr (WGlobal "np") "array") [WBin "+" (WAttr (WSelf
      "_rows_dimension") "element_aliases") (WAttr (WSelf "_rows_dimension") "subtotal_aliases")]
      []) [WSelf "_row_order_signed_indexes"]).
Proof. exact Proofs.GenAgreeWiring_C10.gen_wiring_Strand_row_aliases. Qed.
Print Assumptions C10_wiring_Strand_row_aliases.

Theorem C10_wiring_Strand_row_codes :
  wsrc_Strand_row_codes = Some (WIndex (WCall (WAttr (WGlobal "np") "array") [WBin "+" (WAttr (WSelf
      "_rows_dimension") "element_ids") (WAttr (WSelf "_rows_dimension") "insertion_ids")] [])
      [WSelf "_row_order_signed_indexes"]).
Proof. exact Proofs.GenAgreeWiring_C10.gen_wiring_Strand_row_codes. Qed.
Print Assumptions C10_wiring_Strand_row_codes.

Theorem C10_wiring_Strand_row_labels :
  wsrc_Strand_row_labels = Some (WIndex (WCall (WAttr (WGlobal "np") "array") [WBin "+" (WAttr (WSelf
      "_rows_dimension") "element_labels") (WAttr (WSelf "_rows_dimension") "subtotal_labels")] [])
      [WSelf "_row_order_signed_indexes"]).
Proof. exact Proofs.GenAgreeWiring_C10.gen_wiring_Strand_row_labels. Qed.
Print Assumptions C10_wiring_Strand_row_labels.

End Wiring_C10.
(* ---- WIRING-APPENDIX:END ---- *)
