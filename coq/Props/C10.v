(* C10 - Transposing the response transposes the result.
   Statements only; proofs in Proofs/Transpose{Algebra,Counts,Blocks,Stats,Payload}.v; the notion of
   transposition (tensor with an MR dimension moving together with its selection axis, dimension
   list, matrices, block quadruples with inserted rows <-> inserted columns) is Model/Transpose.v.

   Every theorem relates two SEPARATELY WRITTEN definitions of the existing models
   (Model/CubeCounts.v, Subtotals.v, Proportions.v, Variance.v, Share.v, Scale.v, Zscore.v,
   Population.v): the row-direction one applied to the transposed input with the two subtotal
   lists exchanged, and the column-direction one applied to the original input (and vice versa);
   direction-free measures are related to themselves.  All sizes, all subtotal lists (differences,
   overlaps, out-of-range offsets), all values incl. NaN / infinities; pointwise, up to Qeq.

   [MT mT m]: mT is a transpose of m cell by cell; [BT nr nc nrs ncs B' B]: the four blocks of B'
   (nc x nr, ncs inserted rows, nrs inserted columns) are the transposes of those of B. *)
From Coq Require Import QArith ZArith List Bool Lia Arith.
From CC Require Import Base.XQ Base.ListX Spec.Survey Model.CubeCounts Model.Subtotals
  Model.Proportions Model.Variance Model.Share Model.Scale Model.Zscore Model.Population
  Model.Transpose
  Proofs.TransposeAlgebra Proofs.TransposeCounts Proofs.TransposeBlocks Proofs.TransposeStats
  Proofs.TransposePayload.
Import ListNotations.
Local Close Scope Q_scope.
Local Open Scope nat_scope.

(* ================================================================================================ *)
(** * 1. Cube counts, bases, margins: all nine class pairs (Cat / Mr / Arr)^2 *)

(* counts are direction-free: cell (j,i) of B x A is cell (i,j) of A x B *)
Theorem C10_counts V rc cc i j :
  counts_of (ttrans (cls_mr cc) V) cc rc j i = counts_of V rc cc i j.
Proof. exact (counts_T V rc cc i j). Qed.
Print Assumptions C10_counts.

(* the ROW bases of B x A are the COLUMN bases of A x B ... *)
Theorem C10_row_bases V nr sr rc cc i j :
  row_bases_of (ttrans (cls_mr cc) V) nr sr cc rc j i = column_bases_of V nr sr rc cc i j.
Proof. exact (row_bases_T V nr sr rc cc i j). Qed.
Print Assumptions C10_row_bases.

(* ... and the COLUMN bases of B x A are the ROW bases of A x B *)
Theorem C10_column_bases V nc sc rc cc i j :
  column_bases_of (ttrans (cls_mr cc) V) nc sc cc rc j i = row_bases_of V nc sc rc cc i j.
Proof. exact (column_bases_T V nc sc rc cc i j). Qed.
Print Assumptions C10_column_bases.

Theorem C10_table_bases V nr nc sr sc rc cc i j :
  table_bases_of (ttrans (cls_mr cc) V) nc nr sc sr cc rc j i
  =x= table_bases_of V nr nc sr sc rc cc i j.
Proof. exact (table_bases_T V nr nc sr sc rc cc i j). Qed.
Print Assumptions C10_table_bases.

(* the 1-D margins: rows margin of B x A is defined exactly when the columns margin of A x B is,
   and equals it element by element; likewise the per-row / per-column table bases and the scalar *)
Theorem C10_margins V nr nc sr sc rc cc :
  orelf eq (rows_base_of (ttrans (cls_mr cc) V) nr cc rc) (columns_base_of V nr rc cc) /\
  orelf eq (columns_base_of (ttrans (cls_mr cc) V) nc cc rc) (rows_base_of V nc rc cc) /\
  orelf xeq (rows_table_base_of (ttrans (cls_mr cc) V) nc nr sc cc rc)
            (columns_table_base_of V nr nc sc rc cc) /\
  orelf xeq (columns_table_base_of (ttrans (cls_mr cc) V) nc nr sr cc rc)
            (rows_table_base_of V nr nc sr rc cc) /\
  orelx (table_base_of (ttrans (cls_mr cc) V) nc nr cc rc) (table_base_of V nr nc rc cc).
Proof.
  exact (conj (rows_base_T V nr rc cc) (conj (columns_base_T V nc rc cc)
        (conj (rows_table_base_T V nr nc sc rc cc) (conj (columns_table_base_T V nr nc sr rc cc)
              (table_base_T V nr nc rc cc))))).
Qed.
Print Assumptions C10_margins.

(* means / sums / stddev / medians of the response: direction-free *)
Theorem C10_passthrough V rmr cmr i j :
  passthrough_of (ttrans cmr V) cmr rmr j i = passthrough_of V rmr cmr i j.
Proof. exact (passthrough_T V rmr cmr i j). Qed.
Print Assumptions C10_passthrough.

(* everything a slice's count measure offers at once (the record of Model/CubeCounts.v) *)
Theorem C10_slice_out V nr nc sr sc rc cc :
  slice_out_T nr nc (slice_out_of (ttrans (cls_mr cc) V) nc nr sc sr cc rc)
                    (slice_out_of V nr nc sr sc rc cc).
Proof. exact (slice_out_of_T V nr nc sr sc rc cc). Qed.
Print Assumptions C10_slice_out.

(* slice_out_of is what Model/CubeCounts.v computes for a partition *)
Theorem C10_slice_counts_is_slice_out_of ds data k :
  slice_counts ds data k =
  match slice_info_of ds with
  | None => None
  | Some si => Some (slice_out_of (slice_tensor ds data si k)
                                  (nvalid (si_row si)) (nvalid (si_col si)) (si_sr si) (si_sc si)
                                  (cls_of (si_row si)) (cls_of (si_col si)))
  end.
Proof. exact (slice_counts_is_slice_out_of ds data k). Qed.
Print Assumptions C10_slice_counts_is_slice_out_of.

(* removing the missing elements commutes with the exchange of the dimensions: gr / gc are the
   dimension groups (an MR dimension with its selection axis) of rows / columns, T the raw tensor *)
Theorem C10_valid_selection_commutes (gr gc : list dimd) T ic ir :
  length ic = length gc -> length ir = length gr ->
  take_valid (gc ++ gr) (trot (length gc) T) (ic ++ ir)
  = trot (length gc) (take_valid (gr ++ gc) T) (ic ++ ir).
Proof. exact (take_valid_trot gr gc T ic ir). Qed.
Print Assumptions C10_valid_selection_commutes.

(* END TO END, from the payload: for every 2-D response whose two dimensions are plain (CAT-like,
   CA items, CA categories) or multiple-response (items followed by the selection axis), every
   layout of missing elements and every data list, the analysis of the TRANSPOSED PAYLOAD
   ([tpayload]: row-major flattening of the tensor with the dimension groups exchanged) under the
   exchanged dimension list is (a) what [slice_counts_T] computes from the original payload and
   (b) the transpose of the analysis of the original payload: counts, row <-> column bases, table
   bases, margins. *)
Theorem C10_payload_end_to_end gr gc data :
  dgroup gr -> dgroup gc ->
  exists S S',
    slice_counts (gr ++ gc) data 0 = Some S /\
    slice_counts (gc ++ gr) (tpayload (gr ++ gc) data) 0 = Some S' /\
    slice_counts_T (gr ++ gc) data = Some S' /\
    slice_out_T (nvalid (g_dim gr)) (nvalid (g_dim gc)) S' S.
Proof. exact (slice_counts_transposed_payload gr gc data). Qed.
Print Assumptions C10_payload_end_to_end.

(* ================================================================================================ *)
(** * 2. Subtotal blocks: inserted rows <-> inserted columns, intersections *)

Theorem C10_subtotal_blocks m mT nr nc rsubs csubs dcn drn :
  MT mT m ->
  BT nr nc (length rsubs) (length csubs)
     (sum_blocks mT nc nr csubs rsubs drn dcn) (sum_blocks m nr nc rsubs csubs dcn drn).
Proof. exact (sum_blocks_T m mT nr nc rsubs csubs dcn drn). Qed.
Print Assumptions C10_subtotal_blocks.

(* the code accumulates an intersection row-first; column-first gives the same cell *)
Theorem C10_intersection_order_irrelevant m dcn drn rs cs :
  inter_cell_colfirst m dcn drn rs cs =x= inter_cell m dcn drn rs cs.
Proof. exact (inter_colfirst_eq m dcn drn rs cs). Qed.
Print Assumptions C10_intersection_order_irrelevant.

(* row bases (weighted / unweighted) of B x A <-> column bases of A x B, all four blocks *)
Theorem C10_base_blocks b bT nr nc rsubs csubs :
  MT bT b ->
  BT nr nc (length rsubs) (length csubs)
     (col_base_blocks nc nr csubs rsubs bT) (row_base_blocks nr nc rsubs csubs b) /\
  BT nr nc (length rsubs) (length csubs)
     (row_base_blocks nc nr csubs rsubs bT) (col_base_blocks nr nc rsubs csubs b) /\
  BT nr nc (length rsubs) (length csubs)
     (table_base_blocks nc nr csubs rsubs bT) (table_base_blocks nr nc rsubs csubs b).
Proof.
  intros H.
  exact (conj (row_base_blocks_T b bT nr nc rsubs csubs H)
        (conj (col_base_blocks_T b bT nr nc rsubs csubs H)
              (table_base_blocks_T b bT nr nc rsubs csubs H))).
Qed.
Print Assumptions C10_base_blocks.

(* ================================================================================================ *)
(** * 3. Proportions, variances, standard errors (incl. the categorical-date difference rule) *)

Theorem C10_row_proportions nr nc rsubs csubs counts countsT dn rd cd cb cbT :
  MT countsT counts -> MT cbT cb ->
  BT nr nc (length rsubs) (length csubs)
     (row_proportions nc nr csubs rsubs countsT dn cd rd cbT)
     (col_proportions nr nc rsubs csubs counts dn rd cd cb).
Proof. exact (row_proportions_T nr nc rsubs csubs counts countsT dn rd cd cb cbT). Qed.
Print Assumptions C10_row_proportions.

Theorem C10_column_proportions nr nc rsubs csubs counts countsT dn rd cd rb rbT :
  MT countsT counts -> MT rbT rb ->
  BT nr nc (length rsubs) (length csubs)
     (col_proportions nc nr csubs rsubs countsT dn cd rd rbT)
     (row_proportions nr nc rsubs csubs counts dn rd cd rb).
Proof. exact (col_proportions_T nr nc rsubs csubs counts countsT dn rd cd rb rbT). Qed.
Print Assumptions C10_column_proportions.

Theorem C10_table_proportions nr nc rsubs csubs counts countsT dn tb tbT :
  MT countsT counts -> MT tbT tb ->
  BT nr nc (length rsubs) (length csubs)
     (table_proportions nc nr csubs rsubs countsT dn tbT)
     (table_proportions nr nc rsubs csubs counts dn tb).
Proof. exact (table_proportions_T nr nc rsubs csubs counts countsT dn tb tbT). Qed.
Print Assumptions C10_table_proportions.

(* variances of any proportion blocks P over base blocks T (positive / negative term blocks) *)
Theorem C10_variance_blocks c cT nr nc rsubs csubs P P' T T' :
  MT cT c ->
  BT nr nc (length rsubs) (length csubs) P' P ->
  BT nr nc (length rsubs) (length csubs) T' T ->
  BT nr nc (length rsubs) (length csubs)
     (variance_blocks cT nc nr csubs rsubs P' T') (variance_blocks c nr nc rsubs csubs P T).
Proof. exact (variance_blocks_T c cT nr nc rsubs csubs P P' T T'). Qed.
Print Assumptions C10_variance_blocks.

(* row_proportion_variances / column_... / table_... and the squared standard errors *)
Theorem C10_variances_and_stderrs nr nc rsubs csubs c cT dn rd cd b bT :
  MT cT c -> MT bT b ->
  let NRS := length rsubs in let NCS := length csubs in
  BT nr nc NRS NCS (row_var dn nc nr csubs rsubs cT cd rd bT) (col_var dn nr nc rsubs csubs c rd cd b) /\
  BT nr nc NRS NCS (col_var dn nc nr csubs rsubs cT cd rd bT) (row_var dn nr nc rsubs csubs c rd cd b) /\
  BT nr nc NRS NCS (tab_var dn nc nr csubs rsubs cT bT) (tab_var dn nr nc rsubs csubs c b) /\
  BT nr nc NRS NCS (row_se dn nc nr csubs rsubs cT cd rd bT) (col_se dn nr nc rsubs csubs c rd cd b) /\
  BT nr nc NRS NCS (col_se dn nc nr csubs rsubs cT cd rd bT) (row_se dn nr nc rsubs csubs c rd cd b) /\
  BT nr nc NRS NCS (tab_se dn nc nr csubs rsubs cT bT) (tab_se dn nr nc rsubs csubs c b).
Proof.
  intros Hc Hb.
  exact (conj (row_var_T nr nc rsubs csubs c cT dn rd cd Hc b bT Hb)
        (conj (col_var_T nr nc rsubs csubs c cT dn rd cd Hc b bT Hb)
        (conj (tab_var_T nr nc rsubs csubs c cT dn Hc b bT Hb)
        (conj (row_se_T nr nc rsubs csubs c cT dn rd cd Hc b bT Hb)
        (conj (col_se_T nr nc rsubs csubs c cT dn rd cd Hc b bT Hb)
              (tab_se_T nr nc rsubs csubs c cT dn Hc b bT Hb)))))).
Qed.
Print Assumptions C10_variances_and_stderrs.

(* ================================================================================================ *)
(** * 4. Share of sum: 3 directions x 4 blocks *)

Theorem C10_share_of_sum s sT nr nc rsubs csubs :
  MT sT s ->
  BT nr nc (length rsubs) (length csubs)
     (row_share sT nc nr csubs rsubs) (col_share s nr nc rsubs csubs) /\
  BT nr nc (length rsubs) (length csubs)
     (col_share sT nc nr csubs rsubs) (row_share s nr nc rsubs csubs) /\
  BT nr nc (length rsubs) (length csubs)
     (total_share sT nc nr csubs rsubs) (total_share s nr nc rsubs csubs).
Proof.
  intros H.
  exact (conj (row_share_T s sT nr nc rsubs csubs H)
        (conj (col_share_T s sT nr nc rsubs csubs H)
              (total_share_T s sT nr nc rsubs csubs H))).
Qed.
Print Assumptions C10_share_of_sum.

(* ================================================================================================ *)
(** * 5. Scale statistics and margin proportions *)

(* any per-vector statistic: over the rows of B x A = over the columns of A x B, and vice versa *)
Theorem C10_vector_stats f nr nc counts bases :
  shape counts nr nc -> shape bases nr nc ->
  rows_stat f nc (mtranspose nr nc counts) (mtranspose nr nc bases) = cols_stat f nc counts bases /\
  cols_stat f nr (mtranspose nr nc counts) (mtranspose nr nc bases) = rows_stat f nr counts bases.
Proof.
  intros Hc Hb.
  exact (conj (rows_stat_T f nr nc counts bases (proj1 Hc) (proj1 Hb))
              (cols_stat_T f nr nc counts bases Hc Hb)).
Qed.
Print Assumptions C10_vector_stats.

(* rows_scale_mean / _stddev^2 / _stderr^2 / _median of B x A = columns_... of A x B
   (Model/Scale.v has ONE definition per statistic, used for both directions: the content of this
   theorem is the choice of the vectors and of the opposing dimension's values - see _partial note) *)
Theorem C10_scale_statistics_partial vals ord diff margin nr nc counts bases :
  shape counts nr nc -> shape bases nr nc ->
  let cT := mtranspose nr nc counts in let bT := mtranspose nr nc bases in
  rows_stat (f_scale_mean vals) nc cT bT = cols_stat (f_scale_mean vals) nc counts bases /\
  rows_stat (f_scale_var vals diff) nc cT bT = cols_stat (f_scale_var vals diff) nc counts bases /\
  rows_stat (f_scale_stderr vals diff margin) nc cT bT
    = cols_stat (f_scale_stderr vals diff margin) nc counts bases /\
  rows_stat (f_scale_median vals ord diff) nc cT bT
    = cols_stat (f_scale_median vals ord diff) nc counts bases.
Proof.
  intros Hc Hb.
  exact (conj (rows_stat_T _ nr nc counts bases (proj1 Hc) (proj1 Hb))
        (conj (rows_stat_T _ nr nc counts bases (proj1 Hc) (proj1 Hb))
        (conj (rows_stat_T _ nr nc counts bases (proj1 Hc) (proj1 Hb))
              (rows_stat_T _ nr nc counts bases (proj1 Hc) (proj1 Hb))))).
Qed.
Print Assumptions C10_scale_statistics_partial.

Theorem C10_margin_proportion nr nc margin marginT tb tbT i j :
  MT marginT margin -> MT tbT tb -> i < nr -> j < nc ->
  mnth (margin_proportion nc nr marginT tbT) j i =x= mnth (margin_proportion nr nc margin tb) i j.
Proof. exact (margin_proportion_T nr nc margin marginT tb tbT i j). Qed.
Print Assumptions C10_margin_proportion.

(* ================================================================================================ *)
(** * 6. Residual z-scores (p-values are a function of z) *)

Theorem C10_zscore_cell c r k t :
  z_zabs c (Fin k) (Fin r) (Fin t) =x= z_zabs c (Fin r) (Fin k) (Fin t).
Proof. exact (z_zabs_sym c r k t). Qed.
Print Assumptions C10_zscore_cell.

(* a whole block, with the rank test on the base counts and the all(t==r) / all(t==k) guards;
   bases finite (they are sums of counts) *)
Theorem C10_zscores_block n0 m0 nr nc bc bcT c cT t tT r rT k kT :
  0 < n0 -> 0 < m0 -> shape bc n0 m0 -> shape bcT m0 n0 -> MT bcT bc ->
  0 < nr -> 0 < nc ->
  shape c nr nc -> shape cT nc nr -> shape t nr nc -> shape tT nc nr ->
  MT cT c -> MT tT t -> MT rT r -> MT kT k ->
  all_fin_mat t nr nc -> all_fin_mat r nr nc -> all_fin_mat k nr nc ->
  all_fin_mat tT nc nr -> all_fin_mat rT nc nr -> all_fin_mat kT nc nr ->
  forall i j, i < nr -> j < nc ->
    mnth (zscores_block bcT cT tT kT rT) j i =x= mnth (zscores_block bc c t r k) i j.
Proof. exact (zscores_block_T n0 m0 nr nc bc bcT c cT t tT r rT k kT). Qed.
Print Assumptions C10_zscores_block.

(* ================================================================================================ *)
(** * 7. Population estimates *)

(* unless BOTH dimensions are categorical dates *)
Theorem C10_population_counts nr nc rcd ccd rowp colp tabp N f dr dc :
  rcd && ccd = false -> 0 < nr -> 0 < nc ->
  shape rowp nr nc -> shape colp nr nc -> shape tabp nr nc ->
  forall i j, i < nr -> j < nc ->
    mnth (pop_counts ccd rcd (mtranspose nr nc colp) (mtranspose nr nc rowp) (mtranspose nr nc tabp)
                     N f dc dr) j i
    = mnth (pop_counts rcd ccd rowp colp tabp N f dr dc) i j.
Proof. exact (pop_counts_T nr nc rcd ccd rowp colp tabp N f dr dc). Qed.
Print Assumptions C10_population_counts.

Theorem C10_population_moe nr nc rcd ccd rowse colse tabse N f :
  rcd && ccd = false -> 0 < nr -> 0 < nc ->
  shape rowse nr nc -> shape colse nr nc -> shape tabse nr nc ->
  forall i j, i < nr -> j < nc ->
    mnth (pop_moe ccd rcd (mtranspose nr nc colse) (mtranspose nr nc rowse) (mtranspose nr nc tabse) N f) j i
    = mnth (pop_moe rcd ccd rowse colse tabse N f) i j.
Proof. exact (pop_moe_T nr nc rcd ccd rowse colse tabse N f). Qed.
Print Assumptions C10_population_moe.

(* both dimensions categorical-date: the code projects the ROW proportion in either order, so
   the two estimates are not transposes of each other (known finding C10-population-both-cat-date) *)
Theorem C10_population_both_dates_refuted :
  exists rowp colp tabp,
    shape rowp 1 2 /\ shape colp 1 2 /\ shape tabp 1 2 /\
    ~ (mnth (pop_counts true true (mtranspose 1 2 colp) (mtranspose 1 2 rowp) (mtranspose 1 2 tabp)
                        (Fin 1000) (Fin 1) [] []) 0 0
       =x= mnth (pop_counts true true rowp colp tabp (Fin 1000) (Fin 1) [] []) 0 0).
Proof. exact pop_counts_both_dates_refuted. Qed.
Print Assumptions C10_population_both_dates_refuted.

(* ================================================================================================ *)
(** * Examples: the hypotheses are inhabited, the statements are not vacuous *)

Definition ex_m : mat := [[Fin 1; Fin 2; Fin 3]; [Fin 4; NaN; Fin 6]].
Definition ex_rs : list subtotal := [mkSub [0; 1] []; mkSub [1] [0]].
Definition ex_cs : list subtotal := [mkSub [0; 2] [1]; mkSub [2; 1] []].

Example ex_shape : shape ex_m 2 3.
Proof. split; [reflexivity|]. intros [|[|]] H; try reflexivity; lia. Qed.

Example ex_MT : MT (mtranspose 2 3 ex_m) ex_m.
Proof. exact (mtranspose_MT 2 3 ex_m ex_shape). Qed.

(* inserted row 1 (a difference) x base column 2 of A x B is base row 2 x inserted column 1 of
   B x A; the intersection (difference x sum) as well *)
Example ex_blocks :
  let B := sum_blocks ex_m 2 3 ex_rs ex_cs false false in
  let B' := sum_blocks (mtranspose 2 3 ex_m) 3 2 ex_cs ex_rs false false in
  mnth (b_rows B) 1 2 = Fin 3 /\ mnth (b_cols B') 2 1 = Fin 3 /\
  mnth (b_inter B) 0 1 = NaN /\ mnth (b_inter B') 1 0 = NaN /\
  mnth (b_cols B) 0 0 = Fin 2 /\ mnth (b_rows B') 0 0 = Fin 2.
Proof. vm_compute. repeat split; reflexivity. Qed.

(* MR x CAT against CAT x MR on a concrete tensor: V [i; s; j] = 100 i + 10 s + j *)
Definition ex_V : tensor :=
  fun idx => match idx with
             | [i; s; j] => Fin (inject_Z (Z.of_nat (100 * i + 10 * s + j)))
             | _ => NaN
             end.
Example ex_mr_cat :
  column_bases_of ex_V 2 2 CMr CCat 1 2 = row_bases_of (ttrans false ex_V) 2 2 CCat CMr 2 1 /\
  xeqb (column_bases_of ex_V 2 2 CMr CCat 1 2) (Fin 214) = true.
Proof. split; vm_compute; reflexivity. Qed.

(* an MR x CAT response with a missing category: both hypotheses of the end-to-end theorem hold,
   and the transposed payload is the CAT x MR payload *)
Definition ex_gr : list dimd := [mkDim DMrSubvar [false; false]; mkDim DMrCat mr_cat_missing].
Definition ex_gc : list dimd := [mkDim DCat [false; true; false]].
Example ex_groups : dgroup ex_gr /\ dgroup ex_gc.
Proof. split; [apply dg_mr; reflexivity | apply dg_plain; reflexivity]. Qed.
Example ex_tpayload :
  tpayload (ex_gr ++ ex_gc) (map (fun z => Fin (inject_Z z)) [1; 2; 3; 4; 5; 6; 7; 8; 9; 10; 11; 12; 13; 14; 15; 16; 17; 18]%Z)
  = map (fun z => Fin (inject_Z z)) [1; 4; 7; 10; 13; 16; 2; 5; 8; 11; 14; 17; 3; 6; 9; 12; 15; 18]%Z.
Proof. vm_compute. reflexivity. Qed.

Example ex_population_hypothesis : (true && false = false) /\ (false && false = false).
Proof. split; reflexivity. Qed.
