(* C20 – Smoothing is a trailing moving average over categorical-date periods.
   Only statements here: each is closed by [exact <lemma>] and followed by
   [Print Assumptions]; the proofs live in Proofs/SmoothingProofs.v, the executable
   model (tied to src/cr/cube/smoothing.py by the correspondence check) in
   Model/Smoothing.v. *)
From Coq Require Import QArith ZArith List Bool Lia Arith.
From CC Require Import Base.XQ Base.ListX Model.Smoothing Proofs.SmoothingProofs.
Import ListNotations.
Local Close Scope Q_scope.
Local Open Scope nat_scope.

(* 2-D measures (column proportions, column index, means): for EVERY matrix, row i,
   period t and window: NaN for the first w-1 periods, afterwards the mean of the w
   values at periods t-w+1 .. t of the same row (the window is exactly those w cells). *)
Theorem C20_smooth_window_2d cd raw m i t :
  can_smooth cd (window_of raw) (msize m) (ncols m) = true ->
  all_rows_length m (ncols m) ->
  i < length m -> t < ncols m ->
  let w := Z.to_nat (window_of raw) in
  let row := nth i m [] in
  (t + 1 < w -> mnth (smooth2 cd raw m) i t = NaN) /\
  (w <= t + 1 ->
     mnth (smooth2 cd raw m) i t = xdiv (xsum (slice (t + 1 - w) w row)) (xofnat w)
     /\ length (slice (t + 1 - w) w row) = w
     /\ forall k, k < w -> nth k (slice (t + 1 - w) w row) NaN = mnth m i (t + 1 - w + k)).
Proof. exact (smooth2_window cd raw m i t). Qed.
Print Assumptions C20_smooth_window_2d.

(* 1-D measures (strand means along the rows dimension) *)
Theorem C20_smooth_window_1d cd raw v t :
  can_smooth cd (window_of raw) (length v) (length v) = true ->
  t < length v ->
  let w := Z.to_nat (window_of raw) in
  (t + 1 < w -> vnth (smooth1 cd raw v) t = NaN) /\
  (w <= t + 1 ->
     vnth (smooth1 cd raw v) t = xdiv (xsum (slice (t + 1 - w) w v)) (xofnat w)
     /\ length (slice (t + 1 - w) w v) = w
     /\ forall k, k < w -> nth k (slice (t + 1 - w) w v) NaN = vnth v (t + 1 - w + k)).
Proof. exact (smooth1_window cd raw v t). Qed.
Print Assumptions C20_smooth_window_1d.

(* for finite values the window value is the arithmetic mean; a NaN in the window gives NaN *)
Theorem C20_window_mean_fin w (qs : list Q) :
  0 < w -> xdiv (xsum (map Fin qs)) (xofnat w) =x= Fin (qsum qs / inject_Z (Z.of_nat w)).
Proof. exact (window_mean_fin w qs). Qed.
Print Assumptions C20_window_mean_fin.

Theorem C20_window_nan w l : In NaN l -> xdiv (xsum l) (xofnat w) = NaN.
Proof. exact (window_nan w l). Qed.
Print Assumptions C20_window_nan.

(* guard: not categorical-date, w < 2, w > number of periods, or empty => unchanged *)
Theorem C20_guard_iff cd w size n :
  can_smooth cd w size n = false <->
  (size = 0 \/ cd = false \/ (Z.of_nat n < w)%Z \/ (w < 2)%Z).
Proof. exact (can_smooth_false_iff cd w size n). Qed.
Print Assumptions C20_guard_iff.

Theorem C20_guard_2d cd raw m :
  can_smooth cd (window_of raw) (msize m) (ncols m) = false -> smooth2 cd raw m = m.
Proof. exact (smooth2_guard cd raw m). Qed.
Print Assumptions C20_guard_2d.

Theorem C20_guard_1d cd raw v :
  can_smooth cd (window_of raw) (length v) (length v) = false -> smooth1 cd raw v = v.
Proof. exact (smooth1_guard cd raw v). Qed.
Print Assumptions C20_guard_1d.

(* window parsing: unspecified means 2, any given integer is used as is (so that 0, 1
   and negative windows fall under the guard above) *)
Theorem C20_window_parse : window_of None = 2%Z /\ forall w, window_of (Some w) = w.
Proof. exact (conj window_default window_given). Qed.
Print Assumptions C20_window_parse.

(* non-vacuity: a concrete 2x4 matrix, window 3 *)
Example C20_example :
  let m := [[Fin 1; Fin 3; Fin 2; Fin 3]; [Fin 2; Fin 3; Fin 3; Fin 2]] in
  can_smooth true (window_of (Some 3%Z)) (msize m) (ncols m) = true /\
  all_rows_length m (ncols m) /\
  mnth (smooth2 true (Some 3%Z) m) 0 1 = NaN /\
  mnth (smooth2 true (Some 3%Z) m) 1 3 =x= Fin (8 # 3).
Proof.
  cbv zeta. split; [reflexivity|]. split; [repeat constructor|]. split; [reflexivity|].
  vm_compute. reflexivity.
Qed.
