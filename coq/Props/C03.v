(* C03 – Proportions are count over base, bounded, and sum to one.
   Statements only; proofs in Proofs/ProportionsProofs.v; executable model in
   Model/Proportions.v, tied to matrix/measure.py, stripe/measure.py and cubepart.py by the
   correspondence check harness/props/c03.py. *)
From Coq Require Import QArith ZArith List Bool Lia Arith.
From CC Require Import Base.XQ Base.ListX Model.Subtotals Model.Proportions
  Proofs.ProportionsProofs.
Import ListNotations.
Local Close Scope Q_scope.
Local Open Scope nat_scope.

(* Every cell of every block of a row / column proportion is the count block over the base
   block, except a subtotal DIFFERENCE on a categorical-date dimension (difference of the two
   percentages for one-minus-one, NaN for several terms).  ([props_of] with the row bases
   is row_proportions, with the column bases column_proportions; table proportions are
   [div_blocks] throughout.) *)
Theorem C03_proportion_def nr nc rsubs csubs cnt bb bases counts rows_date cols_date :
  let P := props_of nr nc rsubs csubs cnt bb bases counts rows_date cols_date in
  (forall i j, i < nr -> j < nc ->
     mnth (b_base P) i j = xdiv (mnth (b_base cnt) i j) (mnth (b_base bb) i j)) /\
  (forall k l, k < length rsubs -> l < length csubs ->
     mnth (b_inter P) k l = xdiv (mnth (b_inter cnt) k l) (mnth (b_inter bb) k l)) /\
  (forall i l, i < nr -> l < length csubs ->
     let s := nth l csubs nosub in
     mnth (b_cols P) i l =
       if cols_date && has_subs s then
         if multiple_terms s then NaN
         else xsub (xdiv (sum_cols counts i (s_add s)) (sum_cols bases i (s_add s)))
                   (xdiv (sum_cols counts i (s_sub s)) (sum_cols bases i (s_sub s)))
       else xdiv (mnth (b_cols cnt) i l) (mnth (b_cols bb) i l)) /\
  (forall k j, k < length rsubs -> j < nc ->
     let s := nth k rsubs nosub in
     mnth (b_rows P) k j =
       if rows_date && has_subs s then
         if multiple_terms s then NaN
         else xsub (xdiv (sum_rows counts (s_add s) j) (sum_rows bases (s_add s) j))
                   (xdiv (sum_rows counts (s_sub s) j) (sum_rows bases (s_sub s) j))
       else xdiv (mnth (b_rows cnt) k j) (mnth (b_rows bb) k j)).
Proof.
  exact (conj (props_base nr nc rsubs csubs cnt bb bases counts rows_date cols_date)
        (conj (props_inter nr nc rsubs csubs cnt bb bases counts rows_date cols_date)
        (conj (props_cols nr nc rsubs csubs cnt bb bases counts rows_date cols_date)
              (props_rows nr nc rsubs csubs cnt bb bases counts rows_date cols_date)))).
Qed.
Print Assumptions C03_proportion_def.

(* A proportion whose count is a part of its base (0 <= count <= base, which C01/C02 give
   for every cell that is not a subtotal difference when weights are non-negative) lies in
   [0, 1], is never infinite, and is NaN exactly when the base is zero. *)
Theorem C03_bounds_and_nan (c b : Q) : (0 <= c)%Q -> (c <= b)%Q ->
  match xdiv (Fin c) (Fin b) with
  | NaN => (b == 0)%Q
  | Fin p => (0 <= p)%Q /\ (p <= 1)%Q /\ ~ (b == 0)%Q
  | Inf _ => False
  end.
Proof. exact (prop_bounds c b). Qed.
Print Assumptions C03_bounds_and_nan.

Theorem C03_nan_iff_zero_base (c b : Q) : (0 <= c)%Q -> (c <= b)%Q ->
  (xdiv (Fin c) (Fin b) = NaN <-> (b == 0)%Q).
Proof. exact (prop_nan_iff c b). Qed.
Print Assumptions C03_nan_iff_zero_base.

(* Along a categorical dimension the counts of ALL base elements add up to the base, hence
   their proportions add up to 1 whenever the base is non-zero. *)
Theorem C03_sum_to_one (l : list Q) (b : Q) :
  (qsum l == b)%Q -> ~ (b == 0)%Q ->
  xsum (map (fun c => xdiv (Fin c) (Fin b)) l) =x= Fin 1.
Proof. exact (props_sum_one l b). Qed.
Print Assumptions C03_sum_to_one.

(* percentages are exactly 100 times the proportions *)
Theorem C03_percentages : (forall p, pct (Fin p) = Fin (p * 100)) /\ pct NaN = NaN.
Proof. exact (conj pct_fin pct_nan). Qed.
Print Assumptions C03_percentages.

(* strand *)
Theorem C03_strand_proportion_def counts bases i : i < length counts ->
  vnth (strand_props_base counts bases) i = xdiv (vnth counts i) (vnth bases i).
Proof. exact (strand_props_base_nth counts bases i). Qed.
Print Assumptions C03_strand_proportion_def.

Example C03_example :
  (* counts 3, 1, 0 on a base of 4: proportions 3/4, 1/4, 0 add up to 1; on base 0: NaN *)
  xsum (map (fun c => xdiv (Fin c) (Fin 4)) [3; 1; 0]%Q) =x= Fin 1 /\
  xdiv (Fin 0) (Fin 0) = NaN /\
  (qsum [3; 1; 0] == 4)%Q.
Proof. vm_compute. repeat split; reflexivity. Qed.
