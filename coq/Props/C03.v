(* C03 – Proportions are count over base, bounded, and sum to one.
   Statements only; proofs in Proofs/ProportionsProofs.v; executable model in
   Model/Proportions.v, tied to matrix/measure.py, stripe/measure.py and cubepart.py by the
   correspondence check harness/props/c03.py. *)
From Coq Require Import QArith ZArith List Bool Lia Arith.
From CC Require Import Base.XQ Base.ListX Model.Subtotals Model.Proportions
  Proofs.ProportionsProofs.
Import ListNotations.
Local Close Scope Q_scope.
Local Open Scope nat_scope.

(* Every cell of every block of a row / column proportion is the count block over the base
   block, except a subtotal DIFFERENCE on a categorical-date dimension (difference of the two
   percentages for one-minus-one, NaN for several terms).  ([props_of] with the row bases
   is row_proportions, with the column bases column_proportions; table proportions are
   [div_blocks] throughout.) *)
Theorem C03_proportion_def nr nc rsubs csubs cnt bb bases counts rows_date cols_date :
  let P := props_of nr nc rsubs csubs cnt bb bases counts rows_date cols_date in
  (forall i j, i < nr -> j < nc ->
     mnth (b_base P) i j = xdiv (mnth (b_base cnt) i j) (mnth (b_base bb) i j)) /\
  (forall k l, k < length rsubs -> l < length csubs ->
     mnth (b_inter P) k l = xdiv (mnth (b_inter cnt) k l) (mnth (b_inter bb) k l)) /\
  (forall i l, i < nr -> l < length csubs ->
     let s := nth l csubs nosub in
     mnth (b_cols P) i l =
       if cols_date && has_subs s then
         if multiple_terms s then NaN
         else xsub (xdiv (sum_cols counts i (s_add s)) (sum_cols bases i (s_add s)))
                   (xdiv (sum_cols counts i (s_sub s)) (sum_cols bases i (s_sub s)))
       else xdiv (mnth (b_cols cnt) i l) (mnth (b_cols bb) i l)) /\
  (forall k j, k < length rsubs -> j < nc ->
     let s := nth k rsubs nosub in
     mnth (b_rows P) k j =
       if rows_date && has_subs s then
         if multiple_terms s then NaN
         else xsub (xdiv (sum_rows counts (s_add s) j) (sum_rows bases (s_add s) j))
                   (xdiv (sum_rows counts (s_sub s) j) (sum_rows bases (s_sub s) j))
       else xdiv (mnth (b_rows cnt) k j) (mnth (b_rows bb) k j)).
Proof.
  exact (conj (props_base nr nc rsubs csubs cnt bb bases counts rows_date cols_date)
        (conj (props_inter nr nc rsubs csubs cnt bb bases counts rows_date cols_date)
        (conj (props_cols nr nc rsubs csubs cnt bb bases counts rows_date cols_date)
              (props_rows nr nc rsubs csubs cnt bb bases counts rows_date cols_date)))).
Qed.
Print Assumptions C03_proportion_def.

(* A proportion whose count is a part of its base (0 <= count <= base, which C01/C02 give
   for every cell that is not a subtotal difference when weights are non-negative) lies in
   [0, 1], is never infinite, and is NaN exactly when the base is zero. *)
Theorem C03_bounds_and_nan (c b : Q) : (0 <= c)%Q -> (c <= b)%Q ->
  match xdiv (Fin c) (Fin b) with
  | NaN => (b == 0)%Q
  | Fin p => (0 <= p)%Q /\ (p <= 1)%Q /\ ~ (b == 0)%Q
  | Inf _ => False
  end.
Proof. exact (prop_bounds c b). Qed.
Print Assumptions C03_bounds_and_nan.

Theorem C03_nan_iff_zero_base (c b : Q) : (0 <= c)%Q -> (c <= b)%Q ->
  (xdiv (Fin c) (Fin b) = NaN <-> (b == 0)%Q).
Proof. exact (prop_nan_iff c b). Qed.
Print Assumptions C03_nan_iff_zero_base.

(* Along a categorical dimension the counts of ALL base elements add up to the base, hence
   their proportions add up to 1 whenever the base is non-zero. *)
Theorem C03_sum_to_one (l : list Q) (b : Q) :
  (qsum l == b)%Q -> ~ (b == 0)%Q ->
  xsum (map (fun c => xdiv (Fin c) (Fin b)) l) =x= Fin 1.
Proof. exact (props_sum_one l b). Qed.
Print Assumptions C03_sum_to_one.

(* percentages are exactly 100 times the proportions *)
Theorem C03_percentages : (forall p, pct (Fin p) = Fin (p * 100)) /\ pct NaN = NaN.
Proof. exact (conj pct_fin pct_nan). Qed.
Print Assumptions C03_percentages.

(* strand *)
Theorem C03_strand_proportion_def counts bases i : i < length counts ->
  vnth (strand_props_base counts bases) i = xdiv (vnth counts i) (vnth bases i).
Proof. exact (strand_props_base_nth counts bases i). Qed.
Print Assumptions C03_strand_proportion_def.

Example C03_example :
  (* counts 3, 1, 0 on a base of 4: proportions 3/4, 1/4, 0 add up to 1; on base 0: NaN *)
  xsum (map (fun c => xdiv (Fin c) (Fin 4)) [3; 1; 0]%Q) =x= Fin 1 /\
  xdiv (Fin 0) (Fin 0) = NaN /\
  (qsum [3; 1; 0] == 4)%Q.
Proof. vm_compute. repeat split; reflexivity. Qed.

(* ==================================================================================== *)
(** * END TO END: the property against the respondents (Proofs/ComposeBase.v, ComposeProportions.v)

   Everything above is a LOCAL step (any count block over any base block).  Below, the whole
   pipeline runs on one survey: [s_row_props S tv vr kr mr vc kc mc k rsubs csubs dn rd cd] is
   Model/Proportions.v::row_proportions applied to the count and row-base blocks that
   Model/CubeCounts.v extracts from [tabulate S] for partition k ([t_counts], [t_rb] = the fields
   so_counts / so_row_bases of slice_counts; C01 / C02), with ANY inserted subtotals and flags;
   rows / columns categorical (KCat: also datetime / text / binned) or multiple response (KMr),
   2-D (tv = None) or a partition of a 3-D cube.  [C03_survey_numbers] spells out the four
   respondent-level numbers.  NOTHING is assumed about counts and bases: 0 <= count <= base is
   derived from the survey (the counted respondents are a subset of the base's). *)
From CC Require Import Spec.Survey Model.CubeCounts Proofs.CubeCountsProofs
     Proofs.ComposeBase Proofs.ComposeProportions.

Theorem C03_survey_numbers S tv k vr kr mr vc kc mc i j :
  w_cell tv k vr kr mr vc kc mc S i j
    = wsum S (fun r => pop_of tv k r && in_el kr mr (ans r vr) i && in_el kc mc (ans r vc) j) /\
  w_rowbase tv k vr kr mr vc kc mc S i j
    = wsum S (fun r => pop_of tv k r && in_el kr mr (ans r vr) i && ok_el kc mc (ans r vc) j) /\
  w_colbase tv k vr kr mr vc kc mc S i j
    = wsum S (fun r => pop_of tv k r && ok_el kr mr (ans r vr) i && in_el kc mc (ans r vc) j) /\
  w_tabbase tv k vr kr mr vc kc mc S i j
    = wsum S (fun r => pop_of tv k r && ok_el kr mr (ans r vr) i && ok_el kc mc (ans r vc) j).
Proof. exact (conj eq_refl (conj eq_refl (conj eq_refl eq_refl))). Qed.
Print Assumptions C03_survey_numbers.

(* the blocks the proportions are computed from ARE the respondent counts (C01 / C02 restated on
   the matrices) *)
Theorem C03_survey_blocks S tv vr kr mr vc kc mc k i j :
  t_ok tv -> cat_or_mr kr -> cat_or_mr kc -> k < t_n tv -> i < nval mr -> j < nval mc ->
  mnth (t_counts S tv vr kr mr vc kc mc k) i j =x= Fin (w_cell tv k vr kr mr vc kc mc S i j) /\
  mnth (t_rb S tv vr kr mr vc kc mc k) i j =x= Fin (w_rowbase tv k vr kr mr vc kc mc S i j) /\
  mnth (t_cb S tv vr kr mr vc kc mc k) i j =x= Fin (w_colbase tv k vr kr mr vc kc mc S i j) /\
  mnth (t_tb S tv vr kr mr vc kc mc k) i j =x= Fin (w_tabbase tv k vr kr mr vc kc mc S i j).
Proof.
  exact (fun Ht Hr Hc Hk Hi Hj =>
    conj (t_counts_cell S tv vr kr mr vc kc mc k Ht Hr Hc Hk i j Hi Hj)
   (conj (t_rb_cell S tv vr kr mr vc kc mc k Ht Hr Hc Hk i j Hi Hj)
   (conj (t_cb_cell S tv vr kr mr vc kc mc k Ht Hr Hc Hk i j Hi Hj)
         (t_tb_cell S tv vr kr mr vc kc mc k Ht Hr Hc Hk i j Hi Hj)))).
Qed.
Print Assumptions C03_survey_blocks.

(* derived, not assumed: 0 <= count <= row / column base <= table base *)
Theorem C03_survey_count_le_base S tv k vr kr mr vc kc mc i j : wf_survey S ->
  (0 <= w_cell tv k vr kr mr vc kc mc S i j)%Q /\
  (w_cell tv k vr kr mr vc kc mc S i j <= w_rowbase tv k vr kr mr vc kc mc S i j)%Q /\
  (w_cell tv k vr kr mr vc kc mc S i j <= w_colbase tv k vr kr mr vc kc mc S i j)%Q /\
  (w_rowbase tv k vr kr mr vc kc mc S i j <= w_tabbase tv k vr kr mr vc kc mc S i j)%Q /\
  (w_colbase tv k vr kr mr vc kc mc S i j <= w_tabbase tv k vr kr mr vc kc mc S i j)%Q.
Proof.
  exact (fun Hwf =>
    conj (w_cell_nonneg S tv k vr kr mr vc kc mc Hwf i j)
   (conj (w_cell_le_rowbase S tv k vr kr mr vc kc mc Hwf i j)
   (conj (w_cell_le_colbase S tv k vr kr mr vc kc mc Hwf i j)
   (conj (w_rowbase_le_tabbase S tv k vr kr mr vc kc mc Hwf i j)
         (w_colbase_le_tabbase S tv k vr kr mr vc kc mc Hwf i j))))).
Qed.
Print Assumptions C03_survey_count_le_base.

(* prop_def + prop_bounds + prop_nan_iff, ROW proportion of base cell (i, j): it is
   w(row i and column j) / w(row i and eligible for column j); NaN exactly when that base is 0;
   otherwise a number in [0, 1]; never infinite *)
Theorem C03_survey_row_proportion S tv vr kr mr vc kc mc k rsubs csubs dn rd cd i j :
  t_ok tv -> cat_or_mr kr -> cat_or_mr kc -> k < t_n tv -> wf_survey S ->
  i < nval mr -> j < nval mc ->
  match mnth (b_base (s_row_props S tv vr kr mr vc kc mc k rsubs csubs dn rd cd)) i j with
  | NaN => (w_rowbase tv k vr kr mr vc kc mc S i j == 0)%Q
  | Fin p => ~ (w_rowbase tv k vr kr mr vc kc mc S i j == 0)%Q /\
             (p == w_cell tv k vr kr mr vc kc mc S i j / w_rowbase tv k vr kr mr vc kc mc S i j)%Q /\
             (0 <= p)%Q /\ (p <= 1)%Q
  | Inf _ => False
  end.
Proof.
  exact (fun Ht Hr Hc Hk Hwf =>
           row_proportion_cases S tv vr kr mr vc kc mc k rsubs csubs dn rd cd Ht Hr Hc Hk Hwf i j).
Qed.
Print Assumptions C03_survey_row_proportion.

Theorem C03_survey_column_proportion S tv vr kr mr vc kc mc k rsubs csubs dn rd cd i j :
  t_ok tv -> cat_or_mr kr -> cat_or_mr kc -> k < t_n tv -> wf_survey S ->
  i < nval mr -> j < nval mc ->
  match mnth (b_base (s_col_props S tv vr kr mr vc kc mc k rsubs csubs dn rd cd)) i j with
  | NaN => (w_colbase tv k vr kr mr vc kc mc S i j == 0)%Q
  | Fin p => ~ (w_colbase tv k vr kr mr vc kc mc S i j == 0)%Q /\
             (p == w_cell tv k vr kr mr vc kc mc S i j / w_colbase tv k vr kr mr vc kc mc S i j)%Q /\
             (0 <= p)%Q /\ (p <= 1)%Q
  | Inf _ => False
  end.
Proof.
  exact (fun Ht Hr Hc Hk Hwf =>
           column_proportion_cases S tv vr kr mr vc kc mc k rsubs csubs dn rd cd Ht Hr Hc Hk Hwf i j).
Qed.
Print Assumptions C03_survey_column_proportion.

Theorem C03_survey_table_proportion S tv vr kr mr vc kc mc k rsubs csubs dn i j :
  t_ok tv -> cat_or_mr kr -> cat_or_mr kc -> k < t_n tv -> wf_survey S ->
  i < nval mr -> j < nval mc ->
  match mnth (b_base (s_tab_props S tv vr kr mr vc kc mc k rsubs csubs dn)) i j with
  | NaN => (w_tabbase tv k vr kr mr vc kc mc S i j == 0)%Q
  | Fin p => ~ (w_tabbase tv k vr kr mr vc kc mc S i j == 0)%Q /\
             (p == w_cell tv k vr kr mr vc kc mc S i j / w_tabbase tv k vr kr mr vc kc mc S i j)%Q /\
             (0 <= p)%Q /\ (p <= 1)%Q
  | Inf _ => False
  end.
Proof.
  exact (fun Ht Hr Hc Hk Hwf =>
           table_proportion_cases S tv vr kr mr vc kc mc k rsubs csubs dn Ht Hr Hc Hk Hwf i j).
Qed.
Print Assumptions C03_survey_table_proportion.

(* the NaN clause on its own *)
Theorem C03_survey_nan_iff_empty_base S tv vr kr mr vc kc mc k rsubs csubs dn rd cd i j :
  t_ok tv -> cat_or_mr kr -> cat_or_mr kc -> k < t_n tv -> wf_survey S ->
  i < nval mr -> j < nval mc ->
  (mnth (b_base (s_row_props S tv vr kr mr vc kc mc k rsubs csubs dn rd cd)) i j = NaN
     <-> (w_rowbase tv k vr kr mr vc kc mc S i j == 0)%Q) /\
  (mnth (b_base (s_col_props S tv vr kr mr vc kc mc k rsubs csubs dn rd cd)) i j = NaN
     <-> (w_colbase tv k vr kr mr vc kc mc S i j == 0)%Q) /\
  (mnth (b_base (s_tab_props S tv vr kr mr vc kc mc k rsubs csubs dn)) i j = NaN
     <-> (w_tabbase tv k vr kr mr vc kc mc S i j == 0)%Q).
Proof.
  exact (fun Ht Hr Hc Hk Hwf Hi Hj =>
    conj (row_proportion_nan_iff S tv vr kr mr vc kc mc k rsubs csubs dn rd cd Ht Hr Hc Hk Hwf i j Hi Hj)
   (conj (column_proportion_nan_iff S tv vr kr mr vc kc mc k rsubs csubs dn rd cd Ht Hr Hc Hk Hwf i j Hi Hj)
         (table_proportion_nan_iff S tv vr kr mr vc kc mc k rsubs csubs dn Ht Hr Hc Hk Hwf i j Hi Hj))).
Qed.
Print Assumptions C03_survey_nan_iff_empty_base.

(* prop_sum_one.  COLUMNS categorical: row i of the model's row-proportion matrix (all valid
   columns) adds up to 1 whenever somebody is in row i with a valid column answer ... *)
Theorem C03_survey_row_proportions_sum_to_one S tv vr kr mr vc mc k rsubs csubs dn rd cd i :
  t_ok tv -> cat_or_mr kr -> k < t_n tv -> i < nval mr ->
  ~ (w_rowbase tv k vr kr mr vc KCat mc S i 0 == 0)%Q ->
  xsum (nth i (b_base (s_row_props S tv vr kr mr vc KCat mc k rsubs csubs dn rd cd)) []) =x= Fin 1.
Proof. exact (fun Ht Hr Hk => row_proportions_sum_one S tv vr kr mr vc mc k rsubs csubs dn rd cd Ht Hr Hk i). Qed.
Print Assumptions C03_survey_row_proportions_sum_to_one.

(* ... ROWS categorical: column j of the column proportions over all valid rows ... *)
Theorem C03_survey_column_proportions_sum_to_one S tv vr mr vc kc mc k rsubs csubs dn rd cd j :
  t_ok tv -> cat_or_mr kc -> k < t_n tv -> j < nval mc ->
  ~ (w_colbase tv k vr KCat mr vc kc mc S 0 j == 0)%Q ->
  xsum (tab (nval mr) (fun i =>
          mnth (b_base (s_col_props S tv vr KCat mr vc kc mc k rsubs csubs dn rd cd)) i j)) =x= Fin 1.
Proof. exact (fun Ht Hc Hk => column_proportions_sum_one S tv vr mr vc kc mc k rsubs csubs dn rd cd Ht Hc Hk j). Qed.
Print Assumptions C03_survey_column_proportions_sum_to_one.

(* ... both categorical: all table proportions *)
Theorem C03_survey_table_proportions_sum_to_one S tv vr vc mr mc k rsubs csubs dn :
  t_ok tv -> k < t_n tv ->
  ~ (w_tabbase tv k vr KCat mr vc KCat mc S 0 0 == 0)%Q ->
  xsum (map xsum (b_base (s_tab_props S tv vr KCat mr vc KCat mc k rsubs csubs dn))) =x= Fin 1.
Proof. exact (table_proportions_sum_one S tv vr vc mr mc k rsubs csubs dn). Qed.
Print Assumptions C03_survey_table_proportions_sum_to_one.

(* the sums behind it: along a categorical dimension the cells of all valid elements make up
   the base (a corollary of C01 / C02) *)
Theorem C03_survey_cells_sum_to_base S tv k vr vc mr mc :
  (forall kr i j0, (qsumn (nval mc) (fun j => w_cell tv k vr kr mr vc KCat mc S i j)
                    == w_rowbase tv k vr kr mr vc KCat mc S i j0)%Q) /\
  (forall kc i0 j, (qsumn (nval mr) (fun i => w_cell tv k vr KCat mr vc kc mc S i j)
                    == w_colbase tv k vr KCat mr vc kc mc S i0 j)%Q) /\
  (forall i0 j0, (qsumn (nval mr) (fun i => qsumn (nval mc) (fun j => w_cell tv k vr KCat mr vc KCat mc S i j))
                  == w_tabbase tv k vr KCat mr vc KCat mc S i0 j0)%Q).
Proof.
  exact (conj (fun kr => cells_sum_to_rowbase S tv k vr kr mr vc mc)
        (conj (fun kc => cells_sum_to_colbase S tv k vr mr vc kc mc)
              (cells_sum_to_tabbase S tv k vr vc mr mc))).
Qed.
Print Assumptions C03_survey_cells_sum_to_base.

(* Non-vacuity.  Five respondents, rational weights; rows categorical with a MISSING category in
   the middle of the payload and a valid category nobody chose (row 2: empty base -> NaN);
   columns multiple response with per-item missingness.  Model value computed from the tabulated
   blocks vs the respondent-level ratio; a categorical x categorical table for the sums. *)
Example C03_survey_example :
  let S := [ mkResp [ACat 0; AMr [Sel; Oth]; ACat 0] (3 # 2);
             mkResp [ACat 2; AMr [Sel; Mis]; ACat 1] 2;
             mkResp [ACat 1; AMr [Sel; Sel]; ACat 0] 5;        (* missing row category *)
             mkResp [ACat 2; AMr [Oth; Sel]; ACat 1] (1 # 4);
             mkResp [ACat 0; AMr [Oth; Oth]; ACat 2] 1 ] in    (* third answer: missing category *)
  let mr := [false; true; false; false] in
  let mc := [false; false] in
  let m3 := [false; false; true] in
  t_ok None /\ cat_or_mr KCat /\ cat_or_mr KMr /\ 0 < t_n None /\ wf_survey S /\
  nval mr = 3 /\ nval mc = 2 /\ nval m3 = 2 /\
  (* row proportions, CAT x MR: row 1 (category 2), item 0: 2 / (2 + 1/4); item 1: (1/4)/(1/4) *)
  map (map xred) (b_base (s_row_props S None 0 KCat mr 1 KMr mc 0 [] [] false false false))
    = [[Fin (3 # 5); Fin 0]; [Fin (8 # 9); Fin 1]; [NaN; NaN]] /\
  (w_cell None 0 0 KCat mr 1 KMr mc S 1 0 / w_rowbase None 0 0 KCat mr 1 KMr mc S 1 0 == 8 # 9)%Q /\
  (w_rowbase None 0 0 KCat mr 1 KMr mc S 2 0 == 0)%Q /\
  ~ (w_rowbase None 0 0 KCat mr 1 KMr mc S 1 0 == 0)%Q /\
  (* CAT x CAT (variable 2 as columns, its third category missing): rows sum to 1 *)
  map (map xred) (b_base (s_row_props S None 0 KCat mr 2 KCat m3 0 [] [] false false false))
    = [[Fin 1; Fin 0]; [Fin 0; Fin 1]; [NaN; NaN]] /\
  ~ (w_rowbase None 0 0 KCat mr 2 KCat m3 S 0 0 == 0)%Q /\
  ~ (w_tabbase None 0 0 KCat mr 2 KCat m3 S 0 0 == 0)%Q /\
  map (map xred) (b_base (s_tab_props S None 0 KCat mr 2 KCat m3 0 [] [] false))
    = [[Fin (2 # 5); Fin 0]; [Fin 0; Fin (3 # 5)]; [Fin 0; Fin 0]].
Proof.
  cbv zeta. repeat split; try (left; reflexivity); try (right; reflexivity); try lia;
    try (repeat constructor; discriminate); try (vm_compute; reflexivity);
    try (vm_compute; discriminate).
Qed.

(* ==================================================================================== *)
(** * END TO END, continued: FROM THE FLAT PAYLOAD, and strands
      (Proofs/ComposePayload.v, ComposeStrand.v, ComposePayloadStrand.v)

   [survey_payload tv vr kr mr vc kc mc S] is the response of the cube query for the survey S: the
   row-major flattening of [tabulate S] over ALL dimensions (missing elements and the full MR
   selection axis included).  [slice_counts] is the function of Model/CubeCounts.v that the
   correspondence checks evaluate on the JSON payload (reshape -> Cube._valid_idxs -> dimension
   order -> _slice_idx_expr -> count class).  Its four base blocks ARE the matrices [t_counts],
   [t_rb], [t_cb], [t_tb] the theorems above (and the END TO END theorems of Props/C11.v, C12.v,
   C17.v) are stated on: they are theorems about what the model computes from the payload. *)
From CC Require Import Proofs.ComposePayload Proofs.ComposeStrand Proofs.ComposePayloadStrand.

Theorem C03_survey_blocks_from_payload S tv vr kr mr vc kc mc k :
  t_ok tv -> cat_or_mr kr -> cat_or_mr kc -> k < t_n tv ->
  exists so,
    slice_counts (cube_dims tv kr mr kc mc) (survey_payload tv vr kr mr vc kc mc S) k = Some so /\
    so_counts so = t_counts S tv vr kr mr vc kc mc k /\
    so_row_bases so = t_rb S tv vr kr mr vc kc mc k /\
    so_column_bases so = t_cb S tv vr kr mr vc kc mc k /\
    so_table_bases so = t_tb S tv vr kr mr vc kc mc k.
Proof. exact (slice_counts_of_survey S tv vr kr mr vc kc mc k). Qed.
Print Assumptions C03_survey_blocks_from_payload.

Theorem C03_survey_payload_def tv vr kr mr vc kc mc S :
  survey_payload tv vr kr mr vc kc mc S
  = flatten (raw_shape (cube_dims tv kr mr kc mc))
            (fun idx => Fin (tabulate (cube_vars tv vr kr vc kc) S idx)).
Proof. exact eq_refl. Qed.
Print Assumptions C03_survey_payload_def.

(* STRANDS (1-D cubes).  Categorical: p_i = w(category i) / w(any valid category), NaN iff nobody
   has a valid answer, in [0, 1], and the proportions of all valid categories add up to 1 ... *)
Theorem C03_survey_strand_cat S v ms i : wf_survey S -> i < nval ms ->
  match vnth (st_cat_props S v ms) i with
  | NaN => (wsum S (fun r => ok_cat ms (ans r v)) == 0)%Q
  | Fin p => ~ (wsum S (fun r => ok_cat ms (ans r v)) == 0)%Q /\
             (p == wsum S (fun r => in_cat ms (ans r v) i) / wsum S (fun r => ok_cat ms (ans r v)))%Q /\
             (0 <= p)%Q /\ (p <= 1)%Q
  | Inf _ => False
  end.
Proof. exact (fun Hwf => strand_cat_proportion_cases S v ms Hwf i). Qed.
Print Assumptions C03_survey_strand_cat.

Theorem C03_survey_strand_cat_sum_to_one S v ms :
  ~ (wsum S (fun r => ok_cat ms (ans r v)) == 0)%Q -> xsum (st_cat_props S v ms) =x= Fin 1.
Proof. exact (strand_cat_proportions_sum_one S v ms). Qed.
Print Assumptions C03_survey_strand_cat_sum_to_one.

(* ... multiple response: p_i = w(selected item i) / w(item i not missing) *)
Theorem C03_survey_strand_mr S v ms i : wf_survey S -> i < nval ms ->
  match vnth (st_mr_props S v ms) i with
  | NaN => (wsum S (fun r => ok_mr ms (ans r v) i) == 0)%Q
  | Fin p => ~ (wsum S (fun r => ok_mr ms (ans r v) i) == 0)%Q /\
             (p == wsum S (fun r => in_mr ms (ans r v) i) / wsum S (fun r => ok_mr ms (ans r v) i))%Q /\
             (0 <= p)%Q /\ (p <= 1)%Q
  | Inf _ => False
  end.
Proof. exact (fun Hwf => strand_mr_proportion_cases S v ms Hwf i). Qed.
Print Assumptions C03_survey_strand_mr.

(* the strand vectors are what [strand_counts] extracts from the flat payload *)
Theorem C03_survey_strand_from_payload S v ms :
  (exists st, strand_counts (dims_of KCat ms) (strand_payload v KCat ms S) false 0 = Some st /\
     st_counts st = st_cat_counts S v ms /\ st_bases st = st_cat_bases S v ms /\
     st_cat_props S v ms = strand_props_base (st_counts st) (st_bases st)) /\
  (exists st, strand_counts (dims_of KMr ms) (strand_payload v KMr ms S) false 0 = Some st /\
     st_counts st = st_mr_counts S v ms /\ st_bases st = st_mr_bases S v ms /\
     st_mr_props S v ms = strand_props_base (st_counts st) (st_bases st)).
Proof. exact (conj (strand_cat_from_payload S v ms) (strand_mr_from_payload S v ms)). Qed.
Print Assumptions C03_survey_strand_from_payload.

(* Non-vacuity: the survey of C03_survey_example through the payload (24 payload cells: 4 row
   categories x 2 items x 3 selection states), and its variable 0 / variable 1 as strands *)
Example C03_survey_payload_example :
  let S := [ mkResp [ACat 0; AMr [Sel; Oth]; ACat 0] (3 # 2);
             mkResp [ACat 2; AMr [Sel; Mis]; ACat 1] 2;
             mkResp [ACat 1; AMr [Sel; Sel]; ACat 0] 5;
             mkResp [ACat 2; AMr [Oth; Sel]; ACat 1] (1 # 4);
             mkResp [ACat 0; AMr [Oth; Oth]; ACat 2] 1 ] in
  let mr := [false; true; false; false] in
  let mc := [false; false] in
  wf_survey S /\ nval mr = 3 /\ nval mc = 2 /\
  length (survey_payload None 0 KCat mr 1 KMr mc S) = 24 /\
  option_map (fun so => map (map xred) (so_row_bases so))
             (slice_counts (cube_dims None KCat mr KMr mc) (survey_payload None 0 KCat mr 1 KMr mc S) 0)
    = Some [[Fin (5 # 2); Fin (5 # 2)]; [Fin (9 # 4); Fin (1 # 4)]; [Fin 0; Fin 0]] /\
  map xred (st_cat_props S 0 mr) = [Fin (10 # 19); Fin (9 # 19); Fin 0] /\
  map xred (st_mr_props S 1 mc) = [Fin (34 # 39); Fin (21 # 31)] /\
  ~ (wsum S (fun r => ok_cat mr (ans r 0)) == 0)%Q.
Proof.
  cbv zeta. repeat split; try lia; try (repeat constructor; discriminate);
    try (vm_compute; reflexivity); try (vm_compute; discriminate).
Qed.

(* ==== GenAgree (measures): what matrix/measure.py, stripe/measure.py, cubepart.py SAY NOW ==== *)
(* Gen/MeasureSrc.v, Gen/StripeMeasureSrc.v, Gen/PartMeasureSrc.v are REWRITTEN FROM THE SOURCE on every
   check by harness/translate/measures.py (an `ast` whitelist, fail-closed): one [option mexp] per
   (class, member) -- per block for a `blocks` member -- read through the wiring of the collection class.
   The theorems below say that what the source SAYS NOW ([meval] / the signed-square reading [meval_sq] of
   the translated term, Base/MeasureExp.v), for ALL input blocks, sizes and subtotal lists, IS the
   definition of Model.Proportions the theorems above are about -- tagged shape and every in-range cell.
   [None] on the left = the translator could not read the member (then only the correspondence ties it).
   A change of meaning in the source breaks these obligations (Proofs/GenAgreeProportions.v fails). *)
From Coq Require String.
From CC Require Base.MeasureExp Model.Subtotals Model.Proportions Gen.MeasureSrc Gen.StripeMeasureSrc Gen.PartMeasureSrc Gen.Tables
     Proofs.GenAgreeMeasTac Proofs.GenAgreeProportions.
Section GenAgreeMeasures_C03.   (* scopes and imports below end with the section *)
Import Coq.Strings.String CC.Base.MeasureExp CC.Model.Subtotals CC.Model.Proportions CC.Gen.MeasureSrc CC.Gen.StripeMeasureSrc
       CC.Gen.PartMeasureSrc CC.Gen.Tables CC.Proofs.GenAgreeMeasTac CC.Proofs.GenAgreeProportions.
Import Coq.Lists.List.ListNotations CC.Base.XQ.
Local Close Scope Q_scope.
Local Open Scope string_scope.
Local Open Scope nat_scope.

Theorem C03_gen_weighted_counts :
  (match src_WeightedCounts_blocks_00 with
  | Some e => forall nr nc rsubs csubs rd cd blk cubem cubeflag flag,
      holds_mat (menv_mat nr nc rsubs csubs rd cd blk cubem cubeflag flag) e DR DC
        (mnth (b_base (counts_model nr nc rsubs csubs cubem cubeflag)))
  | None => True
  end) /\
  (match src_WeightedCounts_blocks_01 with
  | Some e => forall nr nc rsubs csubs rd cd blk cubem cubeflag flag,
      holds_mat (menv_mat nr nc rsubs csubs rd cd blk cubem cubeflag flag) e DR DCS
        (mnth (b_cols (counts_model nr nc rsubs csubs cubem cubeflag)))
  | None => True
  end) /\
  (match src_WeightedCounts_blocks_10 with
  | Some e => forall nr nc rsubs csubs rd cd blk cubem cubeflag flag,
      holds_mat (menv_mat nr nc rsubs csubs rd cd blk cubem cubeflag flag) e DRS DC
        (mnth (b_rows (counts_model nr nc rsubs csubs cubem cubeflag)))
  | None => True
  end) /\
  (match src_WeightedCounts_blocks_11 with
  | Some e => forall nr nc rsubs csubs rd cd blk cubem cubeflag flag,
      holds_mat (menv_mat nr nc rsubs csubs rd cd blk cubem cubeflag flag) e DRS DCS
        (mnth (b_inter (counts_model nr nc rsubs csubs cubem cubeflag)))
  | None => True
  end).
Proof. exact (conj gen_WeightedCounts_blocks_00 (conj gen_WeightedCounts_blocks_01 (conj gen_WeightedCounts_blocks_10 gen_WeightedCounts_blocks_11))). Qed.
Print Assumptions C03_gen_weighted_counts.

Theorem C03_gen_row_proportions :
  (match src_RowProportions_blocks_00 with
  | Some e => forall nr nc rsubs csubs rd cd blk cubem cubeflag flag,
      holds_mat (menv_mat nr nc rsubs csubs rd cd blk cubem cubeflag flag) e DR DC
        (mnth (b_base (row_props_model nr nc rsubs csubs rd cd blk cubem)))
  | None => True
  end) /\
  (match src_RowProportions_blocks_01 with
  | Some e => forall nr nc rsubs csubs rd cd blk cubem cubeflag flag,
      holds_mat (menv_mat nr nc rsubs csubs rd cd blk cubem cubeflag flag) e DR DCS
        (mnth (b_cols (row_props_model nr nc rsubs csubs rd cd blk cubem)))
  | None => True
  end) /\
  (match src_RowProportions_blocks_10 with
  | Some e => forall nr nc rsubs csubs rd cd blk cubem cubeflag flag,
      holds_mat (menv_mat nr nc rsubs csubs rd cd blk cubem cubeflag flag) e DRS DC
        (mnth (b_rows (row_props_model nr nc rsubs csubs rd cd blk cubem)))
  | None => True
  end) /\
  (match src_RowProportions_blocks_11 with
  | Some e => forall nr nc rsubs csubs rd cd blk cubem cubeflag flag,
      holds_mat (menv_mat nr nc rsubs csubs rd cd blk cubem cubeflag flag) e DRS DCS
        (mnth (b_inter (row_props_model nr nc rsubs csubs rd cd blk cubem)))
  | None => True
  end).
Proof. exact (conj gen_RowProportions_blocks_00 (conj gen_RowProportions_blocks_01 (conj gen_RowProportions_blocks_10 gen_RowProportions_blocks_11))). Qed.
Print Assumptions C03_gen_row_proportions.

Theorem C03_gen_column_proportions :
  (match src_ColumnProportions_blocks_00 with
  | Some e => forall nr nc rsubs csubs rd cd blk cubem cubeflag flag,
      holds_mat (menv_mat nr nc rsubs csubs rd cd blk cubem cubeflag flag) e DR DC
        (mnth (b_base (col_props_model nr nc rsubs csubs rd cd blk cubem)))
  | None => True
  end) /\
  (match src_ColumnProportions_blocks_01 with
  | Some e => forall nr nc rsubs csubs rd cd blk cubem cubeflag flag,
      holds_mat (menv_mat nr nc rsubs csubs rd cd blk cubem cubeflag flag) e DR DCS
        (mnth (b_cols (col_props_model nr nc rsubs csubs rd cd blk cubem)))
  | None => True
  end) /\
  (match src_ColumnProportions_blocks_10 with
  | Some e => forall nr nc rsubs csubs rd cd blk cubem cubeflag flag,
      holds_mat (menv_mat nr nc rsubs csubs rd cd blk cubem cubeflag flag) e DRS DC
        (mnth (b_rows (col_props_model nr nc rsubs csubs rd cd blk cubem)))
  | None => True
  end) /\
  (match src_ColumnProportions_blocks_11 with
  | Some e => forall nr nc rsubs csubs rd cd blk cubem cubeflag flag,
      holds_mat (menv_mat nr nc rsubs csubs rd cd blk cubem cubeflag flag) e DRS DCS
        (mnth (b_inter (col_props_model nr nc rsubs csubs rd cd blk cubem)))
  | None => True
  end).
Proof. exact (conj gen_ColumnProportions_blocks_00 (conj gen_ColumnProportions_blocks_01 (conj gen_ColumnProportions_blocks_10 gen_ColumnProportions_blocks_11))). Qed.
Print Assumptions C03_gen_column_proportions.

Theorem C03_gen_table_proportions :
  (match src_TableProportions_blocks_00 with
  | Some e => forall nr nc rsubs csubs rd cd blk cubem cubeflag flag,
      holds_mat (menv_mat nr nc rsubs csubs rd cd blk cubem cubeflag flag) e DR DC
        (mnth (b_base (table_props_model nr nc rsubs csubs blk)))
  | None => True
  end) /\
  (match src_TableProportions_blocks_01 with
  | Some e => forall nr nc rsubs csubs rd cd blk cubem cubeflag flag,
      holds_mat (menv_mat nr nc rsubs csubs rd cd blk cubem cubeflag flag) e DR DCS
        (mnth (b_cols (table_props_model nr nc rsubs csubs blk)))
  | None => True
  end) /\
  (match src_TableProportions_blocks_10 with
  | Some e => forall nr nc rsubs csubs rd cd blk cubem cubeflag flag,
      holds_mat (menv_mat nr nc rsubs csubs rd cd blk cubem cubeflag flag) e DRS DC
        (mnth (b_rows (table_props_model nr nc rsubs csubs blk)))
  | None => True
  end) /\
  (match src_TableProportions_blocks_11 with
  | Some e => forall nr nc rsubs csubs rd cd blk cubem cubeflag flag,
      holds_mat (menv_mat nr nc rsubs csubs rd cd blk cubem cubeflag flag) e DRS DCS
        (mnth (b_inter (table_props_model nr nc rsubs csubs blk)))
  | None => True
  end).
Proof. exact (conj gen_TableProportions_blocks_00 (conj gen_TableProportions_blocks_01 (conj gen_TableProportions_blocks_10 gen_TableProportions_blocks_11))). Qed.
Print Assumptions C03_gen_table_proportions.

Theorem C03_gen_strand_table_proportions :
  (match ssrc_TableProportions_base_values with
  | Some e => forall subs rd vblk bases,
      holds_vec (senv_std (List.length (vblk "weighted_counts" 0)) subs rd vblk (strand_cube bases)) e DR
        (vnth (strand_props_base (vblk "weighted_counts" 0) bases))
  | None => True
  end) /\
  (match ssrc_TableProportions_subtotal_values with
  | Some e => forall n subs rd vblk counts bases tb,
      holds_vec (senv_full n subs rd vblk (strand_cube_sub bases tb) (strand_cubel counts bases)) e DRS
        (fun k => strand_wave_value counts bases rd (nth k subs nosub)
                    (xdiv (vnth (vblk "weighted_counts" 1) k) tb))
  | None => True
  end).
Proof. exact (conj gen_stripe_TableProportions_base_values gen_stripe_TableProportions_subtotal_values). Qed.
Print Assumptions C03_gen_strand_table_proportions.

(* non-vacuity: on counts 3, 1 with row base 4 the translated base block of the row proportions
   evaluates to 1/4 in cell (0, 1) *)
Example C03_gen_example :
  match src_RowProportions_blocks_00 with
  | Some e =>
      let blk := fun (m : string) (_ _ : nat) =>
        if String.eqb m "weighted_counts" then [[Fin 3%Q; Fin 1%Q]] else [[Fin 4%Q; Fin 4%Q]] in
      match meval (menv_mat 1 2 [] [] false false blk (fun _ _ => []) (fun _ _ => false) (fun _ => false)) e with
      | VMat DR DC f => f 0 1 =x= Fin (Qmake 1 4)
      | _ => False
      end
  | None => True
  end.
Proof. vm_compute. first [exact I | reflexivity]. Qed.

End GenAgreeMeasures_C03.

(* ==== GenAgree (subtotal strategies): what matrix/subtotals.py and stripe/insertion.py SAY NOW ==== *)
(* Appended by work/translator3 (statements generated from the lemmas of Proofs/GenAgreeSubtotalsWave.v by
   work/translator3/gen_lemmas.py).  Gen/SubtotalsSrc.v / Gen/StripeInsertionSrc.v are rewritten from the
   source on every check; [seval] (Base/SubtotalExp.v) is the meaning of a translated member;
   [None] = the translator could not read the member (tied by the correspondence only). *)
From Coq Require String.
From CC Require Base.SubtotalExp Base.MeasureExp Model.Subtotals Model.Proportions Model.Variance
     Gen.SubtotalsSrc Gen.StripeInsertionSrc Proofs.GenAgreeMeasTac Proofs.GenAgreeSubTac Proofs.GenAgreeSubtotalsWave.
Section GenAgreeSubtotals_C03.   (* scopes and imports below end with the section *)
Import Coq.Strings.String CC.Base.SubtotalExp CC.Base.MeasureExp CC.Model.Subtotals CC.Model.Proportions
       CC.Model.Variance CC.Gen.SubtotalsSrc CC.Gen.StripeInsertionSrc CC.Proofs.GenAgreeMeasTac
       CC.Proofs.GenAgreeSubTac CC.Proofs.GenAgreeSubtotalsWave.
Import Coq.Lists.List.ListNotations CC.Base.XQ CC.Base.ListX.
Local Close Scope Q_scope.
Local Open Scope string_scope.
Local Open Scope nat_scope.

(* matrix WaveDiffSubtotal: the categorical-date rule for one subtotal column / row ([wave_col_cell] /
   [wave_row_cell]: one wave minus one wave = difference of the two percentages, several terms = NaN,
   otherwise the default), the zip with the default insertions, and the classmethods = [wave_std] *)
Theorem C03_gen_WaveDiffSubtotal :
  (match src_WaveDiffSubtotal__multiple_subtrahends_or_addends with
  | Some e => forall bases counts nr nc dflts rsubs csubs rd cd s dflt,
      keval (senv_wave bases counts nr nc dflts rsubs csubs rd cd s dflt) e = multiple_terms s
  | None => True
  end) /\
  (match src_WaveDiffSubtotal__subtotal_column with
  | Some e => forall bases counts nr nc dflts rsubs csubs rd cd s d,
      sub_in nc s ->
      sagrees_vec (seval (senv_wave bases counts nr nc dflts rsubs csubs rd cd s (SVV (ARange nr) d)) e) nr (fun i => wave_col_cell bases counts cd s (d i) i)
  | None => True
  end) /\
  (match src_WaveDiffSubtotal__subtotal_row with
  | Some e => forall bases counts nr nc dflts rsubs csubs rd cd s d,
      sub_in nr s ->
      sagrees_vec (seval (senv_wave bases counts nr nc dflts rsubs csubs rd cd s (SVV (ARange nc) d)) e) nc (fun j => wave_row_cell bases counts rd s (d j) j)
  | None => True
  end) /\
  (match src_WaveDiffSubtotal__subtotal_columns with
  | Some e => forall bases counts nr nc rsubs csubs rd cd D,
      subs_in nc csubs ->
      sagrees_mat (seval (senv_wave bases counts nr nc (SVM (ARange nr) (ARange (List.length csubs)) D) rsubs csubs rd cd nosub SVErr) e) nr (List.length csubs)
        (fun i l => wave_col_cell bases counts cd (nth l csubs nosub) (D i l) i)
  | None => True
  end) /\
  (match src_WaveDiffSubtotal__subtotal_rows with
  | Some e => forall bases counts nr nc rsubs csubs rd cd D,
      subs_in nr rsubs ->
      sagrees_mat (seval (senv_wave bases counts nr nc (SVM (ARange (List.length rsubs)) (ARange nc) D) rsubs csubs rd cd nosub SVErr) e) (List.length rsubs) nc
        (fun k j => wave_row_cell bases counts rd (nth k rsubs nosub) (D k j) j)
  | None => True
  end) /\
  (match src_WaveDiffSubtotal_subtotal_columns with
  | Some e => forall cubem nr nc rsubs csubs rd cd bc ba cc ca D,
      subs_in nc csubs ->
      sagrees_mat (seval (senv_wave (cubem bc ba) (cubem cc ca) nr nc (SVM (ARange nr) (ARange (List.length csubs)) D) rsubs csubs rd cd nosub SVErr) e) nr (List.length csubs)
        (wave_std cubem rsubs csubs rd cd AxCols bc ba cc ca D)
  | None => True
  end) /\
  (match src_WaveDiffSubtotal_subtotal_rows with
  | Some e => forall cubem nr nc rsubs csubs rd cd bc ba cc ca D,
      subs_in nr rsubs ->
      sagrees_mat (seval (senv_wave (cubem bc ba) (cubem cc ca) nr nc (SVM (ARange (List.length rsubs)) (ARange nc) D) rsubs csubs rd cd nosub SVErr) e) (List.length rsubs) nc
        (wave_std cubem rsubs csubs rd cd AxRows bc ba cc ca D)
  | None => True
  end).
Proof. exact (conj gen_WaveDiffSubtotal__multiple_subtrahends_or_addends (conj gen_WaveDiffSubtotal__subtotal_column (conj gen_WaveDiffSubtotal__subtotal_row (conj gen_WaveDiffSubtotal__subtotal_columns (conj gen_WaveDiffSubtotal__subtotal_rows (conj gen_WaveDiffSubtotal_subtotal_columns (gen_WaveDiffSubtotal_subtotal_rows))))))). Qed.
Print Assumptions C03_gen_WaveDiffSubtotal.

(* stripe WaveDiffSubtotals = [strand_wave_value] = [vwave_std] *)
Theorem C03_gen_stripe_WaveDiffSubtotals :
  (match ssrc_WaveDiffSubtotals__multiple_subtrahends_or_addends with
  | Some e => forall bases counts n dflts subs rd s dflt,
      keval (senv_swave bases counts n dflts subs rd s dflt) e = multiple_terms s
  | None => True
  end) /\
  (match ssrc_WaveDiffSubtotals__subtotal_value with
  | Some e => forall bases counts n dflts subs rd s d,
      sub_in n s ->
      sagrees_scal (seval (senv_swave bases counts n dflts subs rd s (SVS d)) e) (strand_wave_value counts bases true s d)
  | None => True
  end) /\
  (match ssrc_WaveDiffSubtotals__subtotal_values with
  | Some e => forall bases counts n subs rd D,
      subs_in n subs ->
      sagrees_vec (seval (senv_swave bases counts n (SVV (ARange (List.length subs)) D) subs rd nosub SVErr) e) (List.length subs)
        (fun k => strand_wave_value counts bases rd (nth k subs nosub) (D k))
  | None => True
  end) /\
  (match ssrc_WaveDiffSubtotals_subtotal_values with
  | Some e => forall cubel n subs rd bc ba cc ca D,
      subs_in n subs ->
      sagrees_vec (seval (senv_swave (cubel bc ba) (cubel cc ca) n (SVV (ARange (List.length subs)) D) subs rd nosub SVErr) e) (List.length subs)
        (vwave_std cubel subs rd bc ba cc ca D)
  | None => True
  end).
Proof. exact (conj gen_stripe_WaveDiffSubtotals__multiple_subtrahends_or_addends (conj gen_stripe_WaveDiffSubtotals__subtotal_value (conj gen_stripe_WaveDiffSubtotals__subtotal_values (gen_stripe_WaveDiffSubtotals_subtotal_values)))). Qed.
Print Assumptions C03_gen_stripe_WaveDiffSubtotals.

(* non-vacuity: counts [[1 3]], bases [[2 4]] on a categorical-date columns dimension, one
   difference column 1 - 0: the translated WaveDiffSubtotal.subtotal_columns gives 3/4 - 1/2 = 1/4 *)
Example C03_gen_sub_example :
  match src_WaveDiffSubtotal_subtotal_columns with
  | Some e =>
      match seval (senv_wave [[Fin 2%Q; Fin 4%Q]] [[Fin 1%Q; Fin 3%Q]] 1 2
                             (SVM (ARange 1) (ARange 1) (fun _ _ => Fin 7%Q))
                             [] [mkSub [1] [0]] false true nosub SVErr) e with
      | SVM (ARange 1) (ARange 1) f => f 0 0 =x= Fin (Qmake 1 4)
      | _ => False
      end
  | None => True
  end.
Proof. vm_compute. first [exact I | reflexivity]. Qed.

End GenAgreeSubtotals_C03.

(* ---- WIRING-APPENDIX:BEGIN (generated by tools/gen_wiring_props.py; do not edit) ---- *)
From CC Require Proofs.GenAgreeWiring_C03.
Section Wiring_C03.
Import Coq.Lists.List Coq.ZArith.ZArith Coq.Strings.String CC.Base.WiringExp CC.Gen.WiringSrc.
Import ListNotations.
Local Open Scope string_scope.

Theorem C03_wiring_Slice_column_percentages :
  wsrc_Slice_column_percentages = Some (WBin "*" (WSelf "column_proportions") (WInt (100)%Z)).
Proof. exact Proofs.GenAgreeWiring_C03.gen_wiring_Slice_column_percentages. Qed.
Print Assumptions C03_wiring_Slice_column_percentages.

Theorem C03_wiring_Slice_column_proportions :
  wsrc_Slice_column_proportions = Some (w_matrix_of "column_proportions").
Proof. exact Proofs.GenAgreeWiring_C03.gen_wiring_Slice_column_proportions. Qed.
Print Assumptions C03_wiring_Slice_column_proportions.

Theorem C03_wiring_Slice_columns_margin_proportion :
  wsrc_Slice_columns_margin_proportion = Some (WIf (WUn "not" (WAttr (WAttr (WSelf "_measures")
      "columns_table_proportion") "is_defined")) (WCall (WSelf "_assemble_matrix") [WCall (WAttr
      (WGlobal "SumSubtotals") "blocks") [WBin "/" (WSelf "columns_margin") (WSelf
      "table_weighted_bases"); WSelf "_dimensions"] []] []) (w_marginal_of
      "columns_table_proportion")).
Proof. exact Proofs.GenAgreeWiring_C03.gen_wiring_Slice_columns_margin_proportion. Qed.
Print Assumptions C03_wiring_Slice_columns_margin_proportion.

Theorem C03_wiring_Slice_row_percentages :
  wsrc_Slice_row_percentages = Some (WBin "*" (WSelf "row_proportions") (WInt (100)%Z)).
Proof. exact Proofs.GenAgreeWiring_C03.gen_wiring_Slice_row_percentages. Qed.
Print Assumptions C03_wiring_Slice_row_percentages.

Theorem C03_wiring_Slice_row_proportions :
  wsrc_Slice_row_proportions = Some (w_matrix_of "row_proportions").
Proof. exact Proofs.GenAgreeWiring_C03.gen_wiring_Slice_row_proportions. Qed.
Print Assumptions C03_wiring_Slice_row_proportions.

Theorem C03_wiring_Slice_rows_margin_proportion :
  wsrc_Slice_rows_margin_proportion = Some (WIf (WUn "not" (WAttr (WAttr (WSelf "_measures")
      "rows_table_proportion") "is_defined")) (WCall (WSelf "_assemble_matrix") [WCall (WAttr
      (WGlobal "SumSubtotals") "blocks") [WBin "/" (WSelf "rows_margin") (WSelf
      "table_weighted_bases"); WSelf "_dimensions"] []] []) (w_marginal_of
      "rows_table_proportion")).
Proof. exact Proofs.GenAgreeWiring_C03.gen_wiring_Slice_rows_margin_proportion. Qed.
Print Assumptions C03_wiring_Slice_rows_margin_proportion.

Theorem C03_wiring_Slice_table_percentages :
  wsrc_Slice_table_percentages = Some (WBin "*" (WSelf "table_proportions") (WInt (100)%Z)).
Proof. exact Proofs.GenAgreeWiring_C03.gen_wiring_Slice_table_percentages. Qed.
Print Assumptions C03_wiring_Slice_table_percentages.

Theorem C03_wiring_Slice_table_proportions :
  wsrc_Slice_table_proportions = Some (w_matrix_of "table_proportions").
Proof. exact Proofs.GenAgreeWiring_C03.gen_wiring_Slice_table_proportions. Qed.
Print Assumptions C03_wiring_Slice_table_proportions.

Theorem C03_wiring_Strand_table_percentages :
  wsrc_Strand_table_percentages = Some (WBin "*" (WSelf "table_proportions") (WInt (100)%Z)).
Proof. exact Proofs.GenAgreeWiring_C03.gen_wiring_Strand_table_percentages. Qed.
Print Assumptions C03_wiring_Strand_table_percentages.

Theorem C03_wiring_Strand_table_proportions :
  wsrc_Strand_table_proportions = Some (w_vector_of "table_proportions").
Proof. exact Proofs.GenAgreeWiring_C03.gen_wiring_Strand_table_proportions. Qed.
Print Assumptions C03_wiring_Strand_table_proportions.

Theorem C03_wiring_SecondOrderMeasures_column_comparable_counts :
  wsrc_SecondOrderMeasures_column_comparable_counts = Some (WCall (WGlobal "_ColumnComparableCounts")
      [WSelf "_dimensions"; WVar "self"; WSelf "_cube_measures"] []).
Proof. exact Proofs.GenAgreeWiring_C03.gen_wiring_SecondOrderMeasures_column_comparable_counts. Qed.
Print Assumptions C03_wiring_SecondOrderMeasures_column_comparable_counts.

Theorem C03_wiring_SecondOrderMeasures_column_proportions :
  wsrc_SecondOrderMeasures_column_proportions = Some (WCall (WGlobal "_ColumnProportions") [WSelf
      "_dimensions"; WVar "self"; WSelf "_cube_measures"] []).
Proof. exact Proofs.GenAgreeWiring_C03.gen_wiring_SecondOrderMeasures_column_proportions. Qed.
Print Assumptions C03_wiring_SecondOrderMeasures_column_proportions.

Theorem C03_wiring_SecondOrderMeasures_columns_table_proportion :
  wsrc_SecondOrderMeasures_columns_table_proportion = Some (WCall (WGlobal "_MarginTableProportion")
      [WSelf "_dimensions"; WVar "self"; WSelf "_cube_measures"; WAttr (WGlobal "MO") "COLUMNS"]
      []).
Proof. exact Proofs.GenAgreeWiring_C03.gen_wiring_SecondOrderMeasures_columns_table_proportion. Qed.
Print Assumptions C03_wiring_SecondOrderMeasures_columns_table_proportion.

Theorem C03_wiring_SecondOrderMeasures_row_comparable_counts :
  wsrc_SecondOrderMeasures_row_comparable_counts = Some (WCall (WGlobal "_RowComparableCounts") [WSelf
      "_dimensions"; WVar "self"; WSelf "_cube_measures"] []).
Proof. exact Proofs.GenAgreeWiring_C03.gen_wiring_SecondOrderMeasures_row_comparable_counts. Qed.
Print Assumptions C03_wiring_SecondOrderMeasures_row_comparable_counts.

Theorem C03_wiring_SecondOrderMeasures_row_proportions :
  wsrc_SecondOrderMeasures_row_proportions = Some (WCall (WGlobal "_RowProportions") [WSelf
      "_dimensions"; WVar "self"; WSelf "_cube_measures"] []).
Proof. exact Proofs.GenAgreeWiring_C03.gen_wiring_SecondOrderMeasures_row_proportions. Qed.
Print Assumptions C03_wiring_SecondOrderMeasures_row_proportions.

Theorem C03_wiring_SecondOrderMeasures_rows_table_proportion :
  wsrc_SecondOrderMeasures_rows_table_proportion = Some (WCall (WGlobal "_MarginTableProportion")
      [WSelf "_dimensions"; WVar "self"; WSelf "_cube_measures"; WAttr (WGlobal "MO") "ROWS"] []).
Proof. exact Proofs.GenAgreeWiring_C03.gen_wiring_SecondOrderMeasures_rows_table_proportion. Qed.
Print Assumptions C03_wiring_SecondOrderMeasures_rows_table_proportion.

Theorem C03_wiring_SecondOrderMeasures_table_proportions :
  wsrc_SecondOrderMeasures_table_proportions = Some (WCall (WGlobal "_TableProportions") [WSelf
      "_dimensions"; WVar "self"; WSelf "_cube_measures"] []).
Proof. exact Proofs.GenAgreeWiring_C03.gen_wiring_SecondOrderMeasures_table_proportions. Qed.
Print Assumptions C03_wiring_SecondOrderMeasures_table_proportions.

Theorem C03_wiring_StripeMeasures_table_proportions :
  wsrc_StripeMeasures_table_proportions = Some (WCall (WGlobal "_TableProportions") [WSelf
      "_rows_dimension"; WVar "self"; WSelf "_cube_measures"] []).
Proof. exact Proofs.GenAgreeWiring_C03.gen_wiring_StripeMeasures_table_proportions. Qed.
Print Assumptions C03_wiring_StripeMeasures_table_proportions.

End Wiring_C03.
(* ---- WIRING-APPENDIX:END ---- *)

(* ---- COMPARABLE-APPENDIX:BEGIN (generated by tools/gen_bases_lemmas.py; do not edit) ---- *)
(* ==== GenAgree (comparable counts): what matrix/measure.py SAYS NOW ==== *)
(* Appended by tools/gen_bases_lemmas.py (statements generated from the lemmas of Proofs/GenAgreeComparable.v).
   SecondOrderMeasures.column_comparable_counts / row_comparable_counts are the count blocks that may be summed
   across the rows / across the columns: the numerators of the margin proportions and the scale medians read
   them, and their `is_defined` decides whether a 1-D margin exists.  Gen/BasesSrc.v is rewritten from the source
   on every check by harness/translate/x_bases.py ([beval], Base/BasesExp.v); DT.ARRAY_TYPES is read from
   enums.py (Gen/Tables.v [tbl_DT_sets]).  Defined iff the type of the COLUMNS (resp. ROWS) dimension is not an
   array type; then the four blocks are [sum_blocks] of the weighted counts with diff_rows_nan (resp.
   diff_cols_nan), otherwise `blocks` raises ([WErr]). *)
From Coq Require String.
From CC Require Base.BasesExp Model.Subtotals Model.Proportions Gen.BasesSrc Gen.Tables
     Proofs.GenAgreeMeasTac Proofs.GenAgreeBasesTac Proofs.GenAgreeComparable.
Section GenAgreeComparable_C03.   (* scopes and imports below end with the section *)
Import Coq.Strings.String CC.Base.BasesExp CC.Model.Subtotals CC.Model.Proportions CC.Gen.BasesSrc CC.Gen.Tables
       CC.Proofs.GenAgreeMeasTac CC.Proofs.GenAgreeBasesTac CC.Proofs.GenAgreeComparable.
Import Coq.Lists.List.ListNotations CC.Base.XQ CC.Base.ListX.
Local Close Scope Q_scope.
Local Open Scope string_scope.
Local Open Scope nat_scope.

(* column_comparable_counts: blocks [0][0] [0][1] [1][0] [1][1], is_defined *)
Theorem C03_gen_ColumnComparableCounts :
  (match src_ColumnComparableCounts_blocks_00, tbl_DT_sets with
  | Some e, Some sets => forall nr nc rsubs csubs cubem cubeflag dt,
      (is_array_type (dt 1) = false ->
       bagrees_mat (beval (benv_dims nr nc rsubs csubs cubem cubeflag dt sets) e) nr nc
         (mnth (b_base (sum_blocks (cubem "weighted_cube_counts" "counts") nr nc rsubs csubs false true)))) /\
      (is_array_type (dt 1) = true -> beval (benv_dims nr nc rsubs csubs cubem cubeflag dt sets) e = WErr)
  | _, _ => True
  end) /\
  (match src_ColumnComparableCounts_blocks_01, tbl_DT_sets with
  | Some e, Some sets => forall nr nc rsubs csubs cubem cubeflag dt,
      (is_array_type (dt 1) = false ->
       bagrees_mat (beval (benv_dims nr nc rsubs csubs cubem cubeflag dt sets) e) nr (List.length csubs)
         (mnth (b_cols (sum_blocks (cubem "weighted_cube_counts" "counts") nr nc rsubs csubs false true)))) /\
      (is_array_type (dt 1) = true -> beval (benv_dims nr nc rsubs csubs cubem cubeflag dt sets) e = WErr)
  | _, _ => True
  end) /\
  (match src_ColumnComparableCounts_blocks_10, tbl_DT_sets with
  | Some e, Some sets => forall nr nc rsubs csubs cubem cubeflag dt,
      (is_array_type (dt 1) = false ->
       bagrees_mat (beval (benv_dims nr nc rsubs csubs cubem cubeflag dt sets) e) (List.length rsubs) nc
         (mnth (b_rows (sum_blocks (cubem "weighted_cube_counts" "counts") nr nc rsubs csubs false true)))) /\
      (is_array_type (dt 1) = true -> beval (benv_dims nr nc rsubs csubs cubem cubeflag dt sets) e = WErr)
  | _, _ => True
  end) /\
  (match src_ColumnComparableCounts_blocks_11, tbl_DT_sets with
  | Some e, Some sets => forall nr nc rsubs csubs cubem cubeflag dt,
      (is_array_type (dt 1) = false ->
       bagrees_mat (beval (benv_dims nr nc rsubs csubs cubem cubeflag dt sets) e) (List.length rsubs) (List.length csubs)
         (mnth (b_inter (sum_blocks (cubem "weighted_cube_counts" "counts") nr nc rsubs csubs false true)))) /\
      (is_array_type (dt 1) = true -> beval (benv_dims nr nc rsubs csubs cubem cubeflag dt sets) e = WErr)
  | _, _ => True
  end) /\
  (match src_ColumnComparableCounts_is_defined, tbl_DT_sets with
  | Some e, Some sets => forall nr nc rsubs csubs cubem cubeflag dt,
      bceval (benv_dims nr nc rsubs csubs cubem cubeflag dt sets) e = Some (negb (is_array_type (dt 1)))
  | _, _ => True
  end).
Proof. exact (conj gen_ColumnComparableCounts_blocks_00 (conj gen_ColumnComparableCounts_blocks_01 (conj gen_ColumnComparableCounts_blocks_10 (conj gen_ColumnComparableCounts_blocks_11 gen_ColumnComparableCounts_is_defined)))). Qed.
Print Assumptions C03_gen_ColumnComparableCounts.

(* row_comparable_counts: blocks [0][0] [0][1] [1][0] [1][1], is_defined *)
Theorem C03_gen_RowComparableCounts :
  (match src_RowComparableCounts_blocks_00, tbl_DT_sets with
  | Some e, Some sets => forall nr nc rsubs csubs cubem cubeflag dt,
      (is_array_type (dt 0) = false ->
       bagrees_mat (beval (benv_dims nr nc rsubs csubs cubem cubeflag dt sets) e) nr nc
         (mnth (b_base (sum_blocks (cubem "weighted_cube_counts" "counts") nr nc rsubs csubs true false)))) /\
      (is_array_type (dt 0) = true -> beval (benv_dims nr nc rsubs csubs cubem cubeflag dt sets) e = WErr)
  | _, _ => True
  end) /\
  (match src_RowComparableCounts_blocks_01, tbl_DT_sets with
  | Some e, Some sets => forall nr nc rsubs csubs cubem cubeflag dt,
      (is_array_type (dt 0) = false ->
       bagrees_mat (beval (benv_dims nr nc rsubs csubs cubem cubeflag dt sets) e) nr (List.length csubs)
         (mnth (b_cols (sum_blocks (cubem "weighted_cube_counts" "counts") nr nc rsubs csubs true false)))) /\
      (is_array_type (dt 0) = true -> beval (benv_dims nr nc rsubs csubs cubem cubeflag dt sets) e = WErr)
  | _, _ => True
  end) /\
  (match src_RowComparableCounts_blocks_10, tbl_DT_sets with
  | Some e, Some sets => forall nr nc rsubs csubs cubem cubeflag dt,
      (is_array_type (dt 0) = false ->
       bagrees_mat (beval (benv_dims nr nc rsubs csubs cubem cubeflag dt sets) e) (List.length rsubs) nc
         (mnth (b_rows (sum_blocks (cubem "weighted_cube_counts" "counts") nr nc rsubs csubs true false)))) /\
      (is_array_type (dt 0) = true -> beval (benv_dims nr nc rsubs csubs cubem cubeflag dt sets) e = WErr)
  | _, _ => True
  end) /\
  (match src_RowComparableCounts_blocks_11, tbl_DT_sets with
  | Some e, Some sets => forall nr nc rsubs csubs cubem cubeflag dt,
      (is_array_type (dt 0) = false ->
       bagrees_mat (beval (benv_dims nr nc rsubs csubs cubem cubeflag dt sets) e) (List.length rsubs) (List.length csubs)
         (mnth (b_inter (sum_blocks (cubem "weighted_cube_counts" "counts") nr nc rsubs csubs true false)))) /\
      (is_array_type (dt 0) = true -> beval (benv_dims nr nc rsubs csubs cubem cubeflag dt sets) e = WErr)
  | _, _ => True
  end) /\
  (match src_RowComparableCounts_is_defined, tbl_DT_sets with
  | Some e, Some sets => forall nr nc rsubs csubs cubem cubeflag dt,
      bceval (benv_dims nr nc rsubs csubs cubem cubeflag dt sets) e = Some (negb (is_array_type (dt 0)))
  | _, _ => True
  end).
Proof. exact (conj gen_RowComparableCounts_blocks_00 (conj gen_RowComparableCounts_blocks_01 (conj gen_RowComparableCounts_blocks_10 (conj gen_RowComparableCounts_blocks_11 gen_RowComparableCounts_is_defined)))). Qed.
Print Assumptions C03_gen_RowComparableCounts.

(* non-vacuity: counts [[1 2]], the column difference 1 - 0: comparable ACROSS THE ROWS (column-comparable)
   it is the number 1; the row-comparable block is NaN there; with an MR columns dimension the
   column-comparable blocks raise *)
Example C03_gen_comparable_example :
  let cubem := fun (c a : string) => [[Fin 1%Q; Fin 2%Q]] in
  let E dt := benv_dims 1 2 [] [mkSub [1] [0]] cubem (fun _ _ => false) dt
                        (match tbl_DT_sets with Some s => s | None => [] end) in
  match src_ColumnComparableCounts_blocks_01, src_RowComparableCounts_blocks_01, tbl_DT_sets with
  | Some c, Some r, Some _ =>
      bshape_of (beval (E (fun _ => "CAT")) c) = [1; 1] /\ bcell (beval (E (fun _ => "CAT")) c) 0 0 =x= Fin 1%Q /\
      bcell (beval (E (fun _ => "CAT")) r) 0 0 = NaN /\
      is_err (beval (E (fun d => match d with 1 => "MR_SUBVAR" | _ => "CAT" end)) c) = true
  | _, _, _ => True
  end.
Proof. vm_compute. first [exact I | repeat split; reflexivity]. Qed.

End GenAgreeComparable_C03.
(* ---- COMPARABLE-APPENDIX:END ---- *)

(*BEGIN ComposePublic_C03*)
(* ==== COMPOSED PUBLIC THEOREMS (DESIGN 8.1: the composition of the translators' links, proved) ==== *)
(* Generated by tools/gen_compose_appendix.py; do not edit between the markers.
   [public_slice C p] (Proofs/ComposePublicSem.v) is the value of the public member p of cubepart._Slice computed
   by the CHAIN OF GENERATED TERMS: the wiring term of p (Gen/WiringSrc.v, x_wiring) over the evaluation ([aeval]) of
   the generated `_assemble_matrix` term (Gen/AssembleSrc.v, x_assemble) over the evaluations ([meval] / [meval_sq] /
   [beval]) of the generated block terms of the measure (Gen/MeasureSrc.v, Gen/BasesSrc.v) -- each in the environment
   in which the blocks of the measures it mentions are again evaluations of generated terms -- on the context
   [Cs ..]: the four first-order arrays Model/CubeCounts.v::slice_counts extracts from the flat payload of
   `tabulate S` ([survey_payload]), any subtotals / flags, any pair of in-range signed display orders.
   [need b P] = P when every generated term named in b is available ([None] => True, like the GenAgree lemmas);
   Cxx_public_terms_available: on this tree they all are.  The proofs use the GenAgree lemmas of the links as they
   are (never unfolding a generated term) and Proofs/Compose*.v / Merge*.v for the last step to the respondents.
   A change of MEANING of any generated term of a chain breaks the composed theorem of every member above it. *)
From Coq Require String.
From CC Require Spec.Merge Proofs.MergeSurvey Proofs.ComposePublicSem Proofs.ComposePublicLinks Proofs.ComposePublicChain
     Proofs.ComposePublicSlice Proofs.ComposePublicCells Proofs.ComposePublicC03 Proofs.ComposePublicStrand.
Section ComposePublic_C03.   (* scopes and imports below end with the section *)
Import Coq.Strings.String Coq.ZArith.ZArith CC.Spec.Merge CC.Proofs.MergeSurvey CC.Proofs.ComposePublicSem
       CC.Proofs.ComposePublicLinks CC.Proofs.ComposePublicChain CC.Proofs.ComposePublicSlice CC.Proofs.ComposePublicCells
       CC.Proofs.ComposePublicC03 CC.Proofs.ComposePublicStrand.
Import Coq.Lists.List.ListNotations.
Local Close Scope Q_scope.
Local Open Scope string_scope.
Local Open Scope nat_scope.

(* the vocabulary of the statements, spelled out *)
Theorem C03_public_vocabulary :
  (forall S tv vr kr mr vc kc mc k rsubs csubs ro co so,
     survey_display S tv vr kr mr vc kc mc k rsubs csubs ro co so =
     (t_ok tv /\ cat_or_mr kr /\ cat_or_mr kc /\ k < t_n tv /\ wf_survey S /\ 0 < nval mr /\ 0 < nval mc /\
      slice_counts (cube_dims tv kr mr kc mc) (survey_payload tv vr kr mr vc kc mc S) k = Some so /\
      (Forall (fun z => (- Z.of_nat (List.length rsubs) <= z < Z.of_nat (nval mr))%Z) ro /\
       Forall (fun z => (- Z.of_nat (List.length csubs) <= z < Z.of_nat (nval mc))%Z) co))) /\
  (forall P ro co spec,
     cells_spec P ro co spec =
     (pshape P = Some (List.length ro, List.length co) /\
      forall i j, i < List.length ro -> j < List.length co -> (0 <= nth j co 0%Z)%Z -> spec i j (pcell P i j))) /\
  (forall S tv vr kr mr vc kc mc k rsubs ro co i j wb x,
     ratio_cell_spec S tv vr kr mr vc kc mc k rsubs ro co i j wb x =
     (((0 <= nth i ro 0%Z)%Z ->
         ratio_spec x (w_cell tv k vr kr mr vc kc mc S (Z.to_nat (nth i ro 0%Z)) (Z.to_nat (nth j co 0%Z)))
                      (wb tv k vr kr mr vc kc mc S (Z.to_nat (nth i ro 0%Z)) (Z.to_nat (nth j co 0%Z)))) /\
      ((nth i ro 0%Z < 0)%Z -> kr = KCat -> merge_row_ok S tv vr vc mr (row_subtotal rsubs ro i) ->
         ratio_spec x (w_cell tv k vr KCat (merged_flags mr) vc kc mc
                              (merged_rows_survey S vr mr (row_subtotal rsubs ro i)) (nval mr) (Z.to_nat (nth j co 0%Z)))
                      (wb tv k vr KCat (merged_flags mr) vc kc mc
                          (merged_rows_survey S vr mr (row_subtotal rsubs ro i)) (nval mr) (Z.to_nat (nth j co 0%Z)))))) /\
  (forall x c b,
     ratio_spec x c b =
     match x with
     | NaN => (b == 0)%Q
     | Fin p => ~ (b == 0)%Q /\ (p == c / b)%Q /\ (0 <= p)%Q /\ (p <= 1)%Q
     | Inf _ => False
     end) /\
  (forall S tv vr vc mr s,
     merge_row_ok S tv vr vc mr s =
     (vc <> vr /\ tv_other tv vr /\ fresh_for vr mr S /\
      s_sub s = [] /\ Forall (fun a => a < n_valid mr) (s_add s) /\ NoDup (s_add s))) /\
  (forall rsubs ro i,
     row_subtotal rsubs ro i = nth (Z.to_nat (nth i ro 0%Z + Z.of_nat (List.length rsubs))) rsubs nosub).
Proof. exact (conj (fun _ _ _ _ _ _ _ _ _ _ _ _ _ _ => eq_refl) (conj (fun _ _ _ _ => eq_refl)
       (conj (fun _ _ _ _ _ _ _ _ _ _ _ _ _ _ _ _ => eq_refl) (conj (fun _ _ _ => eq_refl)
       (conj (fun _ _ _ _ _ _ => eq_refl) (fun _ _ _ => eq_refl)))))). Qed.
Print Assumptions C03_public_vocabulary.

(* the vocabulary of the statement ([survey_display], [cells_spec], [merge_row_ok], [row_subtotal]: see
   C03_public_vocabulary in Props/C03.v) *)
Theorem C03_public_count_vocabulary :
  forall S tv vr kr mr vc kc mc k rsubs ro co i j x,
     count_cell_spec S tv vr kr mr vc kc mc k rsubs ro co i j x =
     (((0 <= nth i ro 0%Z)%Z ->
         x =x= Fin (w_cell tv k vr kr mr vc kc mc S (Z.to_nat (nth i ro 0%Z)) (Z.to_nat (nth j co 0%Z)))) /\
      ((nth i ro 0%Z < 0)%Z -> kr = KCat -> merge_row_ok S tv vr vc mr (row_subtotal rsubs ro i) ->
         x =x= Fin (w_cell tv k vr KCat (merged_flags mr) vc kc mc
                           (merged_rows_survey S vr mr (row_subtotal rsubs ro i)) (nval mr) (Z.to_nat (nth j co 0%Z))))).
Proof. exact (fun _ _ _ _ _ _ _ _ _ _ _ _ _ _ _ => eq_refl). Qed.
Print Assumptions C03_public_count_vocabulary.

(* _Slice.counts: display cell (i, j), base column c = co[j]:
     base row r = ro[i]:     the weighted number of respondents in row element r and column element c
     subtotal row ro[i] < 0: the weighted number of respondents in the merged category and column element c *)
Theorem C03_public_Slice_counts :
  need terms_public_counts
  (forall S tv vr kr mr vc kc mc k rsubs csubs dn rd cd flag ro co so,
     survey_display S tv vr kr mr vc kc mc k rsubs csubs ro co so ->
     cells_spec (public_slice (Cs mr mc rsubs csubs dn rd cd flag ro co so) "counts") ro co
       (fun i j => count_cell_spec S tv vr kr mr vc kc mc k rsubs ro co i j)).
Proof. exact compose_public_Slice_counts. Qed.
Print Assumptions C03_public_Slice_counts.

(* EXAMPLE: the survey, subtotal and display of the C03_public_* examples *)
Example C03_public_Slice_counts_example :
  let S := [ mkResp [ACat 0; AMr [Sel; Oth]; ACat 0] (3 # 2);
             mkResp [ACat 2; AMr [Sel; Mis]; ACat 1] 2;
             mkResp [ACat 1; AMr [Sel; Sel]; ACat 0] 5;
             mkResp [ACat 2; AMr [Oth; Sel]; ACat 1] (1 # 4);
             mkResp [ACat 0; AMr [Oth; Oth]; ACat 2] 1 ] in
  let mr := [false; true; false; false] in
  let mc := [false; false] in
  let rs := [mkSub [0; 2] []] in
  let ro := [1; -1; 0]%Z in
  let co := [1; 0]%Z in
  let S' := merged_rows_survey S 0 mr (row_subtotal rs ro 1) in
  match slice_counts (cube_dims None KCat mr KMr mc) (survey_payload None 0 KCat mr 1 KMr mc S) 0 with
  | Some so =>
      let P := public_slice (Cs mr mc rs [] false false false (fun _ => false) ro co so) "counts" in
      survey_display S None 0 KCat mr 1 KMr mc 0 rs [] ro co so /\
      merge_row_ok S None 0 1 mr (row_subtotal rs ro 1) /\
      cells_spec P ro co (fun i j => count_cell_spec S None 0 KCat mr 1 KMr mc 0 rs ro co i j) /\
      pred P = PMat 3 2 [[Fin (1 # 4); Fin 2]; [Fin 0; Fin (3 # 2)]; [Fin 0; Fin (3 # 2)]] /\
      (w_cell None 0 0 KCat mr 1 KMr mc S 1 0 == 2)%Q /\
      (w_cell None 0 0 KCat (merged_flags mr) 1 KMr mc S' 3 0 == 3 # 2)%Q
  | None => False
  end.
Proof.
  cbv zeta.
  destruct (slice_counts (cube_dims None KCat [false; true; false; false] KMr [false; false])
              (survey_payload None 0 KCat [false; true; false; false] 1 KMr [false; false] _) 0) as [so|] eqn:E;
    [|vm_compute in E; discriminate].
  assert (D : survey_display
                [ mkResp [ACat 0; AMr [Sel; Oth]; ACat 0] (3 # 2); mkResp [ACat 2; AMr [Sel; Mis]; ACat 1] 2;
                  mkResp [ACat 1; AMr [Sel; Sel]; ACat 0] 5; mkResp [ACat 2; AMr [Oth; Sel]; ACat 1] (1 # 4);
                  mkResp [ACat 0; AMr [Oth; Oth]; ACat 2] 1 ]
                None 0 KCat [false; true; false; false] 1 KMr [false; false] 0 [mkSub [0; 2] []] []
                [1; -1; 0]%Z [1; 0]%Z so).
  { split; [exact I|]. split; [left; reflexivity|]. split; [right; reflexivity|]. split; [vm_compute; lia|].
    split; [repeat constructor; discriminate|]. split; [vm_compute; lia|]. split; [vm_compute; lia|].
    split; [exact E|]. split; repeat constructor; vm_compute; discriminate. }
  split; [exact D|].
  split.
  { split; [discriminate|]. split; [exact I|]. split.
    - intros r Hr. repeat (destruct Hr as [<-|Hr]; [vm_compute; discriminate|]). destruct Hr.
    - split; [reflexivity|]. split; [repeat constructor; vm_compute; lia|].
      repeat constructor; simpl; intuition discriminate. }
  split; [exact (need_elim _ _ eq_refl C03_public_Slice_counts _ _ _ _ _ _ _ _ _ _ _ _ _ _ _ _ _ _ D)|].
  vm_compute in E. injection E as <-.
  split; [vm_compute; reflexivity|]. split; vm_compute; reflexivity.
Qed.

(* _Slice.row_proportions: display cell (i, j), base column c = co[j]:
     base row r = ro[i]:     w(row r and column c) / w(row r, eligible for column c); NaN iff that base is 0, else in [0, 1]
     subtotal row ro[i] < 0: the same for the merged category (rows categorical, no subtrahends) *)
Theorem C03_public_Slice_row_proportions :
  need terms_public_row_proportions
  (forall S tv vr kr mr vc kc mc k rsubs csubs dn rd cd flag ro co so,
     survey_display S tv vr kr mr vc kc mc k rsubs csubs ro co so ->
     cells_spec (public_slice (Cs mr mc rsubs csubs dn rd cd flag ro co so) "row_proportions") ro co
       (fun i j => ratio_cell_spec S tv vr kr mr vc kc mc k rsubs ro co i j w_rowbase)).
Proof. exact compose_public_Slice_row_proportions. Qed.
Print Assumptions C03_public_Slice_row_proportions.

(* _Slice.column_proportions: w(row r and column c) / w(eligible for row r, column c) *)
Theorem C03_public_Slice_column_proportions :
  need terms_public_column_proportions
  (forall S tv vr kr mr vc kc mc k rsubs csubs dn rd cd flag ro co so,
     survey_display S tv vr kr mr vc kc mc k rsubs csubs ro co so ->
     cells_spec (public_slice (Cs mr mc rsubs csubs dn rd cd flag ro co so) "column_proportions") ro co
       (fun i j => ratio_cell_spec S tv vr kr mr vc kc mc k rsubs ro co i j w_colbase)).
Proof. exact compose_public_Slice_column_proportions. Qed.
Print Assumptions C03_public_Slice_column_proportions.

(* _Slice.table_proportions: w(row r and column c) / w(eligible for both) *)
Theorem C03_public_Slice_table_proportions :
  need terms_public_table_proportions
  (forall S tv vr kr mr vc kc mc k rsubs csubs dn rd cd flag ro co so,
     survey_display S tv vr kr mr vc kc mc k rsubs csubs ro co so ->
     cells_spec (public_slice (Cs mr mc rsubs csubs dn rd cd flag ro co so) "table_proportions") ro co
       (fun i j => ratio_cell_spec S tv vr kr mr vc kc mc k rsubs ro co i j w_tabbase)).
Proof. exact compose_public_Slice_table_proportions. Qed.
Print Assumptions C03_public_Slice_table_proportions.

(* the percentages: `self.<x>_proportions * 100` -- every cell is 100 times a number x with the proportion's spec *)
Theorem C03_public_Slice_row_percentages :
  need terms_public_row_percentages
  (forall S tv vr kr mr vc kc mc k rsubs csubs dn rd cd flag ro co so,
     survey_display S tv vr kr mr vc kc mc k rsubs csubs ro co so ->
     cells_spec (public_slice (Cs mr mc rsubs csubs dn rd cd flag ro co so) "row_percentages") ro co
       (fun i j y => exists x, y = xmul x (Fin 100%Q) /\
                               ratio_cell_spec S tv vr kr mr vc kc mc k rsubs ro co i j w_rowbase x)).
Proof. exact compose_public_Slice_row_percentages. Qed.
Print Assumptions C03_public_Slice_row_percentages.

Theorem C03_public_Slice_column_percentages :
  need terms_public_column_percentages
  (forall S tv vr kr mr vc kc mc k rsubs csubs dn rd cd flag ro co so,
     survey_display S tv vr kr mr vc kc mc k rsubs csubs ro co so ->
     cells_spec (public_slice (Cs mr mc rsubs csubs dn rd cd flag ro co so) "column_percentages") ro co
       (fun i j y => exists x, y = xmul x (Fin 100%Q) /\
                               ratio_cell_spec S tv vr kr mr vc kc mc k rsubs ro co i j w_colbase x)).
Proof. exact compose_public_Slice_column_percentages. Qed.
Print Assumptions C03_public_Slice_column_percentages.

Theorem C03_public_Slice_table_percentages :
  need terms_public_table_percentages
  (forall S tv vr kr mr vc kc mc k rsubs csubs dn rd cd flag ro co so,
     survey_display S tv vr kr mr vc kc mc k rsubs csubs ro co so ->
     cells_spec (public_slice (Cs mr mc rsubs csubs dn rd cd flag ro co so) "table_percentages") ro co
       (fun i j y => exists x, y = xmul x (Fin 100%Q) /\
                               ratio_cell_spec S tv vr kr mr vc kc mc k rsubs ro co i j w_tabbase x)).
Proof. exact compose_public_Slice_table_percentages. Qed.
Print Assumptions C03_public_Slice_table_percentages.

(* NON-VACUITY of the guards: every generated term the chains need is available on this tree
   (a [None] would also be reported by core.unavailable_obligations) *)
Theorem C03_public_terms_available :
  terms_public_counts = true /\ terms_public_row_proportions = true /\ terms_public_column_proportions = true /\
  terms_public_table_proportions = true /\ terms_public_row_percentages = true /\
  terms_public_column_percentages = true /\ terms_public_table_percentages = true.
Proof. exact (conj eq_refl (conj eq_refl (conj eq_refl (conj eq_refl (conj eq_refl (conj eq_refl eq_refl)))))). Qed.
Print Assumptions C03_public_terms_available.

(* EXAMPLES.  The survey of C03_survey_example (5 respondents, rational weights; rows = variable 0, categorical with a
   MISSING category at payload position 1; columns = variable 1, multiple response with per-item missingness), one
   subtotal that merges the valid row elements 0 and 2, display rows [element 1; the subtotal; element 0] (element 2 hidden),
   display columns reversed.  For each member: the hypotheses hold, the theorem applies, the value the chain of generated
   terms computes, and the respondent-level quotients of display cells (0, 1) and (1, 1). *)
Example C03_public_row_proportions_example :
  let S := [ mkResp [ACat 0; AMr [Sel; Oth]; ACat 0] (3 # 2);
             mkResp [ACat 2; AMr [Sel; Mis]; ACat 1] 2;
             mkResp [ACat 1; AMr [Sel; Sel]; ACat 0] 5;
             mkResp [ACat 2; AMr [Oth; Sel]; ACat 1] (1 # 4);
             mkResp [ACat 0; AMr [Oth; Oth]; ACat 2] 1 ] in
  let mr := [false; true; false; false] in
  let mc := [false; false] in
  let rs := [mkSub [0; 2] []] in
  let ro := [1; -1; 0]%Z in
  let co := [1; 0]%Z in
  let S' := merged_rows_survey S 0 mr (row_subtotal rs ro 1) in
  match slice_counts (cube_dims None KCat mr KMr mc) (survey_payload None 0 KCat mr 1 KMr mc S) 0 with
  | Some so =>
      let P := public_slice (Cs mr mc rs [] false false false (fun _ => false) ro co so) "row_proportions" in
      survey_display S None 0 KCat mr 1 KMr mc 0 rs [] ro co so /\
      merge_row_ok S None 0 1 mr (row_subtotal rs ro 1) /\
      cells_spec P ro co (fun i j => ratio_cell_spec S None 0 KCat mr 1 KMr mc 0 rs ro co i j w_rowbase) /\
      pred P = PMat 3 2 [[Fin 1; Fin (8 # 9)]; [Fin 0; Fin (3 # 5)]; [Fin 0; Fin (3 # 5)]] /\
      (w_cell None 0 0 KCat mr 1 KMr mc S 1 0 / w_rowbase None 0 0 KCat mr 1 KMr mc S 1 0 == 8 # 9)%Q /\
      (w_cell None 0 0 KCat (merged_flags mr) 1 KMr mc S' 3 0 / w_rowbase None 0 0 KCat (merged_flags mr) 1 KMr mc S' 3 0 == 3 # 5)%Q
  | None => False
  end.
Proof.
  cbv zeta.
  destruct (slice_counts (cube_dims None KCat [false; true; false; false] KMr [false; false])
              (survey_payload None 0 KCat [false; true; false; false] 1 KMr [false; false] _) 0) as [so|] eqn:E;
    [|vm_compute in E; discriminate].
  assert (D : survey_display
                [ mkResp [ACat 0; AMr [Sel; Oth]; ACat 0] (3 # 2); mkResp [ACat 2; AMr [Sel; Mis]; ACat 1] 2;
                  mkResp [ACat 1; AMr [Sel; Sel]; ACat 0] 5; mkResp [ACat 2; AMr [Oth; Sel]; ACat 1] (1 # 4);
                  mkResp [ACat 0; AMr [Oth; Oth]; ACat 2] 1 ]
                None 0 KCat [false; true; false; false] 1 KMr [false; false] 0 [mkSub [0; 2] []] []
                [1; -1; 0]%Z [1; 0]%Z so).
  { split; [exact I|]. split; [left; reflexivity|]. split; [right; reflexivity|]. split; [vm_compute; lia|].
    split; [repeat constructor; discriminate|]. split; [vm_compute; lia|]. split; [vm_compute; lia|].
    split; [exact E|]. split; repeat constructor; vm_compute; discriminate. }
  split; [exact D|].
  split.
  { split; [discriminate|]. split; [exact I|]. split.
    - intros r Hr. repeat (destruct Hr as [<-|Hr]; [vm_compute; discriminate|]). destruct Hr.
    - split; [reflexivity|]. split; [repeat constructor; vm_compute; lia|].
      repeat constructor; simpl; intuition discriminate. }
  split; [exact (need_elim _ _ eq_refl C03_public_Slice_row_proportions _ _ _ _ _ _ _ _ _ _ _ _ _ _ _ _ _ _ D)|].
  vm_compute in E. injection E as <-.
  split; [vm_compute; reflexivity|]. split; vm_compute; reflexivity.
Qed.

Example C03_public_column_proportions_example :
  let S := [ mkResp [ACat 0; AMr [Sel; Oth]; ACat 0] (3 # 2);
             mkResp [ACat 2; AMr [Sel; Mis]; ACat 1] 2;
             mkResp [ACat 1; AMr [Sel; Sel]; ACat 0] 5;
             mkResp [ACat 2; AMr [Oth; Sel]; ACat 1] (1 # 4);
             mkResp [ACat 0; AMr [Oth; Oth]; ACat 2] 1 ] in
  let mr := [false; true; false; false] in
  let mc := [false; false] in
  let rs := [mkSub [0; 2] []] in
  let ro := [1; -1; 0]%Z in
  let co := [1; 0]%Z in
  let S' := merged_rows_survey S 0 mr (row_subtotal rs ro 1) in
  match slice_counts (cube_dims None KCat mr KMr mc) (survey_payload None 0 KCat mr 1 KMr mc S) 0 with
  | Some so =>
      let P := public_slice (Cs mr mc rs [] false false false (fun _ => false) ro co so) "column_proportions" in
      survey_display S None 0 KCat mr 1 KMr mc 0 rs [] ro co so /\
      merge_row_ok S None 0 1 mr (row_subtotal rs ro 1) /\
      cells_spec P ro co (fun i j => ratio_cell_spec S None 0 KCat mr 1 KMr mc 0 rs ro co i j w_colbase) /\
      pred P = PMat 3 2 [[Fin 1; Fin (4 # 7)]; [Fin 0; Fin (3 # 7)]; [Fin 0; Fin (3 # 7)]] /\
      (w_cell None 0 0 KCat mr 1 KMr mc S 1 0 / w_colbase None 0 0 KCat mr 1 KMr mc S 1 0 == 4 # 7)%Q /\
      (w_cell None 0 0 KCat (merged_flags mr) 1 KMr mc S' 3 0 / w_colbase None 0 0 KCat (merged_flags mr) 1 KMr mc S' 3 0 == 3 # 7)%Q
  | None => False
  end.
Proof.
  cbv zeta.
  destruct (slice_counts (cube_dims None KCat [false; true; false; false] KMr [false; false])
              (survey_payload None 0 KCat [false; true; false; false] 1 KMr [false; false] _) 0) as [so|] eqn:E;
    [|vm_compute in E; discriminate].
  assert (D : survey_display
                [ mkResp [ACat 0; AMr [Sel; Oth]; ACat 0] (3 # 2); mkResp [ACat 2; AMr [Sel; Mis]; ACat 1] 2;
                  mkResp [ACat 1; AMr [Sel; Sel]; ACat 0] 5; mkResp [ACat 2; AMr [Oth; Sel]; ACat 1] (1 # 4);
                  mkResp [ACat 0; AMr [Oth; Oth]; ACat 2] 1 ]
                None 0 KCat [false; true; false; false] 1 KMr [false; false] 0 [mkSub [0; 2] []] []
                [1; -1; 0]%Z [1; 0]%Z so).
  { split; [exact I|]. split; [left; reflexivity|]. split; [right; reflexivity|]. split; [vm_compute; lia|].
    split; [repeat constructor; discriminate|]. split; [vm_compute; lia|]. split; [vm_compute; lia|].
    split; [exact E|]. split; repeat constructor; vm_compute; discriminate. }
  split; [exact D|].
  split.
  { split; [discriminate|]. split; [exact I|]. split.
    - intros r Hr. repeat (destruct Hr as [<-|Hr]; [vm_compute; discriminate|]). destruct Hr.
    - split; [reflexivity|]. split; [repeat constructor; vm_compute; lia|].
      repeat constructor; simpl; intuition discriminate. }
  split; [exact (need_elim _ _ eq_refl C03_public_Slice_column_proportions _ _ _ _ _ _ _ _ _ _ _ _ _ _ _ _ _ _ D)|].
  vm_compute in E. injection E as <-.
  split; [vm_compute; reflexivity|]. split; vm_compute; reflexivity.
Qed.

Example C03_public_table_proportions_example :
  let S := [ mkResp [ACat 0; AMr [Sel; Oth]; ACat 0] (3 # 2);
             mkResp [ACat 2; AMr [Sel; Mis]; ACat 1] 2;
             mkResp [ACat 1; AMr [Sel; Sel]; ACat 0] 5;
             mkResp [ACat 2; AMr [Oth; Sel]; ACat 1] (1 # 4);
             mkResp [ACat 0; AMr [Oth; Oth]; ACat 2] 1 ] in
  let mr := [false; true; false; false] in
  let mc := [false; false] in
  let rs := [mkSub [0; 2] []] in
  let ro := [1; -1; 0]%Z in
  let co := [1; 0]%Z in
  let S' := merged_rows_survey S 0 mr (row_subtotal rs ro 1) in
  match slice_counts (cube_dims None KCat mr KMr mc) (survey_payload None 0 KCat mr 1 KMr mc S) 0 with
  | Some so =>
      let P := public_slice (Cs mr mc rs [] false false false (fun _ => false) ro co so) "table_proportions" in
      survey_display S None 0 KCat mr 1 KMr mc 0 rs [] ro co so /\
      merge_row_ok S None 0 1 mr (row_subtotal rs ro 1) /\
      cells_spec P ro co (fun i j => ratio_cell_spec S None 0 KCat mr 1 KMr mc 0 rs ro co i j w_tabbase) /\
      pred P = PMat 3 2 [[Fin (1 # 11); Fin (8 # 19)]; [Fin 0; Fin (6 # 19)]; [Fin 0; Fin (6 # 19)]] /\
      (w_cell None 0 0 KCat mr 1 KMr mc S 1 0 / w_tabbase None 0 0 KCat mr 1 KMr mc S 1 0 == 8 # 19)%Q /\
      (w_cell None 0 0 KCat (merged_flags mr) 1 KMr mc S' 3 0 / w_tabbase None 0 0 KCat (merged_flags mr) 1 KMr mc S' 3 0 == 6 # 19)%Q
  | None => False
  end.
Proof.
  cbv zeta.
  destruct (slice_counts (cube_dims None KCat [false; true; false; false] KMr [false; false])
              (survey_payload None 0 KCat [false; true; false; false] 1 KMr [false; false] _) 0) as [so|] eqn:E;
    [|vm_compute in E; discriminate].
  assert (D : survey_display
                [ mkResp [ACat 0; AMr [Sel; Oth]; ACat 0] (3 # 2); mkResp [ACat 2; AMr [Sel; Mis]; ACat 1] 2;
                  mkResp [ACat 1; AMr [Sel; Sel]; ACat 0] 5; mkResp [ACat 2; AMr [Oth; Sel]; ACat 1] (1 # 4);
                  mkResp [ACat 0; AMr [Oth; Oth]; ACat 2] 1 ]
                None 0 KCat [false; true; false; false] 1 KMr [false; false] 0 [mkSub [0; 2] []] []
                [1; -1; 0]%Z [1; 0]%Z so).
  { split; [exact I|]. split; [left; reflexivity|]. split; [right; reflexivity|]. split; [vm_compute; lia|].
    split; [repeat constructor; discriminate|]. split; [vm_compute; lia|]. split; [vm_compute; lia|].
    split; [exact E|]. split; repeat constructor; vm_compute; discriminate. }
  split; [exact D|].
  split.
  { split; [discriminate|]. split; [exact I|]. split.
    - intros r Hr. repeat (destruct Hr as [<-|Hr]; [vm_compute; discriminate|]). destruct Hr.
    - split; [reflexivity|]. split; [repeat constructor; vm_compute; lia|].
      repeat constructor; simpl; intuition discriminate. }
  split; [exact (need_elim _ _ eq_refl C03_public_Slice_table_proportions _ _ _ _ _ _ _ _ _ _ _ _ _ _ _ _ _ _ D)|].
  vm_compute in E. injection E as <-.
  split; [vm_compute; reflexivity|]. split; vm_compute; reflexivity.
Qed.

Example C03_public_row_percentages_example :
  let S := [ mkResp [ACat 0; AMr [Sel; Oth]; ACat 0] (3 # 2);
             mkResp [ACat 2; AMr [Sel; Mis]; ACat 1] 2;
             mkResp [ACat 1; AMr [Sel; Sel]; ACat 0] 5;
             mkResp [ACat 2; AMr [Oth; Sel]; ACat 1] (1 # 4);
             mkResp [ACat 0; AMr [Oth; Oth]; ACat 2] 1 ] in
  let mr := [false; true; false; false] in
  let mc := [false; false] in
  let rs := [mkSub [0; 2] []] in
  let ro := [1; -1; 0]%Z in
  let co := [1; 0]%Z in
  let S' := merged_rows_survey S 0 mr (row_subtotal rs ro 1) in
  match slice_counts (cube_dims None KCat mr KMr mc) (survey_payload None 0 KCat mr 1 KMr mc S) 0 with
  | Some so =>
      let P := public_slice (Cs mr mc rs [] false false false (fun _ => false) ro co so) "row_percentages" in
      survey_display S None 0 KCat mr 1 KMr mc 0 rs [] ro co so /\
      merge_row_ok S None 0 1 mr (row_subtotal rs ro 1) /\
      cells_spec P ro co (fun i j y => exists x, y = xmul x (Fin 100%Q) /\ ratio_cell_spec S None 0 KCat mr 1 KMr mc 0 rs ro co i j w_rowbase x) /\
      pred P = PMat 3 2 [[Fin 100; Fin (800 # 9)]; [Fin 0; Fin 60]; [Fin 0; Fin 60]] /\
      (100 * (w_cell None 0 0 KCat mr 1 KMr mc S 1 0 / w_rowbase None 0 0 KCat mr 1 KMr mc S 1 0) == 800 # 9)%Q /\
      (100 * (w_cell None 0 0 KCat (merged_flags mr) 1 KMr mc S' 3 0 / w_rowbase None 0 0 KCat (merged_flags mr) 1 KMr mc S' 3 0) == 60)%Q
  | None => False
  end.
Proof.
  cbv zeta.
  destruct (slice_counts (cube_dims None KCat [false; true; false; false] KMr [false; false])
              (survey_payload None 0 KCat [false; true; false; false] 1 KMr [false; false] _) 0) as [so|] eqn:E;
    [|vm_compute in E; discriminate].
  assert (D : survey_display
                [ mkResp [ACat 0; AMr [Sel; Oth]; ACat 0] (3 # 2); mkResp [ACat 2; AMr [Sel; Mis]; ACat 1] 2;
                  mkResp [ACat 1; AMr [Sel; Sel]; ACat 0] 5; mkResp [ACat 2; AMr [Oth; Sel]; ACat 1] (1 # 4);
                  mkResp [ACat 0; AMr [Oth; Oth]; ACat 2] 1 ]
                None 0 KCat [false; true; false; false] 1 KMr [false; false] 0 [mkSub [0; 2] []] []
                [1; -1; 0]%Z [1; 0]%Z so).
  { split; [exact I|]. split; [left; reflexivity|]. split; [right; reflexivity|]. split; [vm_compute; lia|].
    split; [repeat constructor; discriminate|]. split; [vm_compute; lia|]. split; [vm_compute; lia|].
    split; [exact E|]. split; repeat constructor; vm_compute; discriminate. }
  split; [exact D|].
  split.
  { split; [discriminate|]. split; [exact I|]. split.
    - intros r Hr. repeat (destruct Hr as [<-|Hr]; [vm_compute; discriminate|]). destruct Hr.
    - split; [reflexivity|]. split; [repeat constructor; vm_compute; lia|].
      repeat constructor; simpl; intuition discriminate. }
  split; [exact (need_elim _ _ eq_refl C03_public_Slice_row_percentages _ _ _ _ _ _ _ _ _ _ _ _ _ _ _ _ _ _ D)|].
  vm_compute in E. injection E as <-.
  split; [vm_compute; reflexivity|]. split; vm_compute; reflexivity.
Qed.

Example C03_public_column_percentages_example :
  let S := [ mkResp [ACat 0; AMr [Sel; Oth]; ACat 0] (3 # 2);
             mkResp [ACat 2; AMr [Sel; Mis]; ACat 1] 2;
             mkResp [ACat 1; AMr [Sel; Sel]; ACat 0] 5;
             mkResp [ACat 2; AMr [Oth; Sel]; ACat 1] (1 # 4);
             mkResp [ACat 0; AMr [Oth; Oth]; ACat 2] 1 ] in
  let mr := [false; true; false; false] in
  let mc := [false; false] in
  let rs := [mkSub [0; 2] []] in
  let ro := [1; -1; 0]%Z in
  let co := [1; 0]%Z in
  let S' := merged_rows_survey S 0 mr (row_subtotal rs ro 1) in
  match slice_counts (cube_dims None KCat mr KMr mc) (survey_payload None 0 KCat mr 1 KMr mc S) 0 with
  | Some so =>
      let P := public_slice (Cs mr mc rs [] false false false (fun _ => false) ro co so) "column_percentages" in
      survey_display S None 0 KCat mr 1 KMr mc 0 rs [] ro co so /\
      merge_row_ok S None 0 1 mr (row_subtotal rs ro 1) /\
      cells_spec P ro co (fun i j y => exists x, y = xmul x (Fin 100%Q) /\ ratio_cell_spec S None 0 KCat mr 1 KMr mc 0 rs ro co i j w_colbase x) /\
      pred P = PMat 3 2 [[Fin 100; Fin (400 # 7)]; [Fin 0; Fin (300 # 7)]; [Fin 0; Fin (300 # 7)]] /\
      (100 * (w_cell None 0 0 KCat mr 1 KMr mc S 1 0 / w_colbase None 0 0 KCat mr 1 KMr mc S 1 0) == 400 # 7)%Q /\
      (100 * (w_cell None 0 0 KCat (merged_flags mr) 1 KMr mc S' 3 0 / w_colbase None 0 0 KCat (merged_flags mr) 1 KMr mc S' 3 0) == 300 # 7)%Q
  | None => False
  end.
Proof.
  cbv zeta.
  destruct (slice_counts (cube_dims None KCat [false; true; false; false] KMr [false; false])
              (survey_payload None 0 KCat [false; true; false; false] 1 KMr [false; false] _) 0) as [so|] eqn:E;
    [|vm_compute in E; discriminate].
  assert (D : survey_display
                [ mkResp [ACat 0; AMr [Sel; Oth]; ACat 0] (3 # 2); mkResp [ACat 2; AMr [Sel; Mis]; ACat 1] 2;
                  mkResp [ACat 1; AMr [Sel; Sel]; ACat 0] 5; mkResp [ACat 2; AMr [Oth; Sel]; ACat 1] (1 # 4);
                  mkResp [ACat 0; AMr [Oth; Oth]; ACat 2] 1 ]
                None 0 KCat [false; true; false; false] 1 KMr [false; false] 0 [mkSub [0; 2] []] []
                [1; -1; 0]%Z [1; 0]%Z so).
  { split; [exact I|]. split; [left; reflexivity|]. split; [right; reflexivity|]. split; [vm_compute; lia|].
    split; [repeat constructor; discriminate|]. split; [vm_compute; lia|]. split; [vm_compute; lia|].
    split; [exact E|]. split; repeat constructor; vm_compute; discriminate. }
  split; [exact D|].
  split.
  { split; [discriminate|]. split; [exact I|]. split.
    - intros r Hr. repeat (destruct Hr as [<-|Hr]; [vm_compute; discriminate|]). destruct Hr.
    - split; [reflexivity|]. split; [repeat constructor; vm_compute; lia|].
      repeat constructor; simpl; intuition discriminate. }
  split; [exact (need_elim _ _ eq_refl C03_public_Slice_column_percentages _ _ _ _ _ _ _ _ _ _ _ _ _ _ _ _ _ _ D)|].
  vm_compute in E. injection E as <-.
  split; [vm_compute; reflexivity|]. split; vm_compute; reflexivity.
Qed.

Example C03_public_table_percentages_example :
  let S := [ mkResp [ACat 0; AMr [Sel; Oth]; ACat 0] (3 # 2);
             mkResp [ACat 2; AMr [Sel; Mis]; ACat 1] 2;
             mkResp [ACat 1; AMr [Sel; Sel]; ACat 0] 5;
             mkResp [ACat 2; AMr [Oth; Sel]; ACat 1] (1 # 4);
             mkResp [ACat 0; AMr [Oth; Oth]; ACat 2] 1 ] in
  let mr := [false; true; false; false] in
  let mc := [false; false] in
  let rs := [mkSub [0; 2] []] in
  let ro := [1; -1; 0]%Z in
  let co := [1; 0]%Z in
  let S' := merged_rows_survey S 0 mr (row_subtotal rs ro 1) in
  match slice_counts (cube_dims None KCat mr KMr mc) (survey_payload None 0 KCat mr 1 KMr mc S) 0 with
  | Some so =>
      let P := public_slice (Cs mr mc rs [] false false false (fun _ => false) ro co so) "table_percentages" in
      survey_display S None 0 KCat mr 1 KMr mc 0 rs [] ro co so /\
      merge_row_ok S None 0 1 mr (row_subtotal rs ro 1) /\
      cells_spec P ro co (fun i j y => exists x, y = xmul x (Fin 100%Q) /\ ratio_cell_spec S None 0 KCat mr 1 KMr mc 0 rs ro co i j w_tabbase x) /\
      pred P = PMat 3 2 [[Fin (100 # 11); Fin (800 # 19)]; [Fin 0; Fin (600 # 19)]; [Fin 0; Fin (600 # 19)]] /\
      (100 * (w_cell None 0 0 KCat mr 1 KMr mc S 1 0 / w_tabbase None 0 0 KCat mr 1 KMr mc S 1 0) == 800 # 19)%Q /\
      (100 * (w_cell None 0 0 KCat (merged_flags mr) 1 KMr mc S' 3 0 / w_tabbase None 0 0 KCat (merged_flags mr) 1 KMr mc S' 3 0) == 600 # 19)%Q
  | None => False
  end.
Proof.
  cbv zeta.
  destruct (slice_counts (cube_dims None KCat [false; true; false; false] KMr [false; false])
              (survey_payload None 0 KCat [false; true; false; false] 1 KMr [false; false] _) 0) as [so|] eqn:E;
    [|vm_compute in E; discriminate].
  assert (D : survey_display
                [ mkResp [ACat 0; AMr [Sel; Oth]; ACat 0] (3 # 2); mkResp [ACat 2; AMr [Sel; Mis]; ACat 1] 2;
                  mkResp [ACat 1; AMr [Sel; Sel]; ACat 0] 5; mkResp [ACat 2; AMr [Oth; Sel]; ACat 1] (1 # 4);
                  mkResp [ACat 0; AMr [Oth; Oth]; ACat 2] 1 ]
                None 0 KCat [false; true; false; false] 1 KMr [false; false] 0 [mkSub [0; 2] []] []
                [1; -1; 0]%Z [1; 0]%Z so).
  { split; [exact I|]. split; [left; reflexivity|]. split; [right; reflexivity|]. split; [vm_compute; lia|].
    split; [repeat constructor; discriminate|]. split; [vm_compute; lia|]. split; [vm_compute; lia|].
    split; [exact E|]. split; repeat constructor; vm_compute; discriminate. }
  split; [exact D|].
  split.
  { split; [discriminate|]. split; [exact I|]. split.
    - intros r Hr. repeat (destruct Hr as [<-|Hr]; [vm_compute; discriminate|]). destruct Hr.
    - split; [reflexivity|]. split; [repeat constructor; vm_compute; lia|].
      repeat constructor; simpl; intuition discriminate. }
  split; [exact (need_elim _ _ eq_refl C03_public_Slice_table_percentages _ _ _ _ _ _ _ _ _ _ _ _ _ _ _ _ _ _ D)|].
  vm_compute in E. injection E as <-.
  split; [vm_compute; reflexivity|]. split; vm_compute; reflexivity.
Qed.

(* STRANDS.  [public_strand C p] (Proofs/ComposePublicStrand.v): the wiring term of _Strand.<p> over the evaluation of the
   generated `_assemble_vector` term (asm_Strand__assemble_vector) over the evaluations of the generated stripe block terms
   (ssrc_TableProportions_base_values / _subtotal_values on the EVALUATED ssrc_WeightedCounts terms), on the vectors
   Model/CubeCounts.v::strand_counts extracts from the flat payload of `tabulate S`.  A display row that shows base
   element r: categorical strand  w(category r) / w(any valid category);  MR strand  w(selected r) / w(r not missing). *)
Theorem C03_public_strand_vocabulary :
  (forall P order spec,
     strand_rows_spec P order spec =
     (pvlen P = Some (List.length order) /\
      forall i, i < List.length order -> (0 <= nth i order 0%Z)%Z -> spec (Z.to_nat (nth i order 0%Z)) (pvcell P i))) /\
  (forall ms subs order,
     strand_display_ok ms subs order =
     Forall (fun z => (- Z.of_nat (List.length subs) <= z < Z.of_nat (nval ms))%Z) order) /\
  (forall n subs rd st order,
     sctx_of n subs rd st order =
     mkSctx n subs rd (st_counts st) (st_bases st) (match st_table_base st with Some x => x | None => NaN end) order).
Proof. exact (conj (fun _ _ _ => eq_refl) (conj (fun _ _ _ => eq_refl) (fun _ _ _ _ _ => eq_refl))). Qed.
Print Assumptions C03_public_strand_vocabulary.

Theorem C03_public_Strand_table_proportions_cat :
  need terms_public_strand_table_proportions
  (forall S v ms subs rd order st,
     wf_survey S ->
     strand_counts (dims_of KCat ms) (strand_payload v KCat ms S) false 0 = Some st ->
     strand_display_ok ms subs order ->
     strand_rows_spec (public_strand (sctx_of (nval ms) subs rd st order) "table_proportions") order
       (fun r x => ratio_spec x (wsum S (fun p => in_cat ms (ans p v) r)) (wsum S (fun p => ok_cat ms (ans p v))))).
Proof. exact compose_public_Strand_table_proportions_cat. Qed.
Print Assumptions C03_public_Strand_table_proportions_cat.

Theorem C03_public_Strand_table_proportions_mr :
  need terms_public_strand_table_proportions
  (forall S v ms rd order st,
     wf_survey S ->
     strand_counts (dims_of KMr ms) (strand_payload v KMr ms S) false 0 = Some st ->
     strand_display_ok ms [] order ->
     strand_rows_spec (public_strand (sctx_of (nval ms) [] rd st order) "table_proportions") order
       (fun r x => ratio_spec x (wsum S (fun p => in_mr ms (ans p v) r)) (wsum S (fun p => ok_mr ms (ans p v) r)))).
Proof. exact compose_public_Strand_table_proportions_mr. Qed.
Print Assumptions C03_public_Strand_table_proportions_mr.

Theorem C03_public_strand_terms_available : terms_public_strand_table_proportions = true.
Proof. exact eq_refl. Qed.
Print Assumptions C03_public_strand_terms_available.

(* EXAMPLES: variable 0 (categorical, one missing category; a subtotal of the valid elements 0 and 1; display
   [element 1; the subtotal; element 0]) and variable 1 (multiple response, items reversed) of the survey above *)
Example C03_public_Strand_table_proportions_cat_example :
  let S := [ mkResp [ACat 0; AMr [Sel; Oth]; ACat 0] (3 # 2);
             mkResp [ACat 2; AMr [Sel; Mis]; ACat 1] 2;
             mkResp [ACat 1; AMr [Sel; Sel]; ACat 0] 5;
             mkResp [ACat 2; AMr [Oth; Sel]; ACat 1] (1 # 4);
             mkResp [ACat 0; AMr [Oth; Oth]; ACat 2] 1 ] in
  let ms := [false; true; false; false] in
  let subs := [mkSub [0; 1] []] in
  let order := [1; -1; 0]%Z in
  match strand_counts (dims_of KCat ms) (strand_payload 0 KCat ms S) false 0 with
  | Some st =>
      let P := public_strand (sctx_of (nval ms) subs false st order) "table_proportions" in
      wf_survey S /\ strand_display_ok ms subs order /\
      strand_rows_spec P order
        (fun r x => ratio_spec x (wsum S (fun p => in_cat ms (ans p 0) r)) (wsum S (fun p => ok_cat ms (ans p 0)))) /\
      pred P = PVec [Fin (9 # 19); Fin 1; Fin (10 # 19)] /\
      (wsum S (fun p => in_cat ms (ans p 0) 1) / wsum S (fun p => ok_cat ms (ans p 0)) == 9 # 19)%Q
  | None => False
  end.
Proof.
  cbv zeta.
  destruct (strand_counts (dims_of KCat [false; true; false; false]) (strand_payload 0 KCat [false; true; false; false] _) false 0)
    as [st|] eqn:E; [|vm_compute in E; discriminate].
  assert (W : wf_survey [ mkResp [ACat 0; AMr [Sel; Oth]; ACat 0] (3 # 2); mkResp [ACat 2; AMr [Sel; Mis]; ACat 1] 2;
                          mkResp [ACat 1; AMr [Sel; Sel]; ACat 0] 5; mkResp [ACat 2; AMr [Oth; Sel]; ACat 1] (1 # 4);
                          mkResp [ACat 0; AMr [Oth; Oth]; ACat 2] 1 ]) by (repeat constructor; discriminate).
  assert (O : strand_display_ok [false; true; false; false] [mkSub [0; 1] []] [1; -1; 0]%Z)
    by (repeat constructor; vm_compute; discriminate).
  split; [exact W|]. split; [exact O|].
  split; [exact (need_elim _ _ eq_refl C03_public_Strand_table_proportions_cat _ _ _ _ _ _ _ W E O)|].
  vm_compute in E. injection E as <-. split; vm_compute; reflexivity.
Qed.

Example C03_public_Strand_table_proportions_mr_example :
  let S := [ mkResp [ACat 0; AMr [Sel; Oth]; ACat 0] (3 # 2);
             mkResp [ACat 2; AMr [Sel; Mis]; ACat 1] 2;
             mkResp [ACat 1; AMr [Sel; Sel]; ACat 0] 5;
             mkResp [ACat 2; AMr [Oth; Sel]; ACat 1] (1 # 4);
             mkResp [ACat 0; AMr [Oth; Oth]; ACat 2] 1 ] in
  let ms := [false; false] in
  let order := [1; 0]%Z in
  match strand_counts (dims_of KMr ms) (strand_payload 1 KMr ms S) false 0 with
  | Some st =>
      let P := public_strand (sctx_of (nval ms) [] false st order) "table_proportions" in
      wf_survey S /\ strand_display_ok ms [] order /\
      strand_rows_spec P order
        (fun r x => ratio_spec x (wsum S (fun p => in_mr ms (ans p 1) r)) (wsum S (fun p => ok_mr ms (ans p 1) r))) /\
      pred P = PVec [Fin (21 # 31); Fin (34 # 39)] /\
      (wsum S (fun p => in_mr ms (ans p 1) 1) / wsum S (fun p => ok_mr ms (ans p 1) 1) == 21 # 31)%Q
  | None => False
  end.
Proof.
  cbv zeta.
  destruct (strand_counts (dims_of KMr [false; false]) (strand_payload 1 KMr [false; false] _) false 0)
    as [st|] eqn:E; [|vm_compute in E; discriminate].
  assert (W : wf_survey [ mkResp [ACat 0; AMr [Sel; Oth]; ACat 0] (3 # 2); mkResp [ACat 2; AMr [Sel; Mis]; ACat 1] 2;
                          mkResp [ACat 1; AMr [Sel; Sel]; ACat 0] 5; mkResp [ACat 2; AMr [Oth; Sel]; ACat 1] (1 # 4);
                          mkResp [ACat 0; AMr [Oth; Oth]; ACat 2] 1 ]) by (repeat constructor; discriminate).
  assert (O : strand_display_ok [false; false] [] [1; 0]%Z) by (repeat constructor; vm_compute; discriminate).
  split; [exact W|]. split; [exact O|].
  split; [exact (need_elim _ _ eq_refl C03_public_Strand_table_proportions_mr _ _ _ _ _ _ W E O)|].
  vm_compute in E. injection E as <-. split; vm_compute; reflexivity.
Qed.

End ComposePublic_C03.
(*END ComposePublic_C03*)
