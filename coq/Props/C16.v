(* C16 -- Column index compares column share with the unconditional row share.

   Only statements ([exact <lemma>] + [Print Assumptions]).  Spec: Spec/Survey.v.  Model:
   Model/CubeCounts.v ([baseline_of] = the four _*UnconditionalCubeCounts.baseline variants,
   applied to counts_with_missings[_slice_idx_expr]; [column_index_cell] =
   _ColumnIndex._column_index), tied to the code by harness/props/c16.py.
   Proofs: Proofs/CubeCountsIndex.v.

   Scope: categorical (incl. enum) / multiple-response pairings, 2-D and 3-D.
   The model is faithful to the CODE; for 3-D cubes the code cuts counts_with_missings at the
   payload offset of the k-th valid table element (since the repair of finding
   C16-3d-baseline-wrong-table; it used the rank k itself), so the theorems hold wherever
   missing table elements sit, and [C16_former_witness] records the survey on which the
   unrepaired code reported inf instead of 100.  NaN on inserted subtotals is checked on the
   implementation by the harness (NanSubtotals is not modelled here). *)
From Coq Require Import QArith ZArith List Bool Lia Arith.
From CC Require Import Base.XQ Base.ListX Spec.Survey Model.CubeCounts
     Proofs.CubeCountsProofs Proofs.CubeCountsIndex.
Import ListNotations.
Local Close Scope Q_scope.
Local Open Scope nat_scope.

(* The baseline of row i (and column j, where the code produces a 2-D baseline) is the row
   element's unconditional share: weighted members of the row element over weighted
   respondents eligible for it -- no condition on the column answer at all. *)
Theorem C16_baseline_is_unconditional_row_share S tv vr vc kr kc mr mc k i j :
  t_ok tv -> cat_or_mr kr -> cat_or_mr kc -> k < t_n tv ->
  (kc = KCat -> col_total S vc (length mc)) ->
  (kr = KMr -> kc = KMr -> forall i, i < nval mr -> nth i (valid_idxs mr) 0 = i) ->
  i < nval mr ->
  baseline_of (raw_slice_of tv vr kr mr vc kc mc S k) (valid_idxs mr) (length mc) 3 (kmr kr) (kmr kc) i j
  =x= xdiv (Fin (wsum S (fun r => pop_of tv k r && in_el kr mr (ans r vr) i)))
           (Fin (wsum S (fun r => pop_of tv k r && ok_el kr mr (ans r vr) i))).
Proof.
  exact (fun Ht Hr Hc Hk Hcol Hit =>
           baseline_of_spec S tv vr vc kr kc mr mc k Ht Hr Hc Hk Hcol Hit i j).
Qed.
Print Assumptions C16_baseline_is_unconditional_row_share.

(* column index = 100 * column proportion / unconditional row share *)
Theorem C16_column_index S tv vr vc kr kc mr mc k i j :
  t_ok tv -> cat_or_mr kr -> cat_or_mr kc -> k < t_n tv ->
  (kc = KCat -> col_total S vc (length mc)) ->
  (kr = KMr -> kc = KMr -> forall i, i < nval mr -> nth i (valid_idxs mr) 0 = i) ->
  i < nval mr -> j < nval mc ->
  let V := slice_of tv vr kr mr vc kc mc S k in
  column_index_cell
    (counts_of V (kcls kr) (kcls kc) i j)
    (column_bases_of V (nval mr) (length mrv) (kcls kr) (kcls kc) i j)
    (baseline_of (raw_slice_of tv vr kr mr vc kc mc S k) (valid_idxs mr) (length mc) 3 (kmr kr) (kmr kc) i j)
  =x=
  xmul (Fin 100%Q)
    (xdiv (xdiv (Fin (wsum S (fun r => pop_of tv k r && in_el kr mr (ans r vr) i && in_el kc mc (ans r vc) j)))
                (Fin (wsum S (fun r => pop_of tv k r && ok_el kr mr (ans r vr) i && in_el kc mc (ans r vc) j))))
          (xdiv (Fin (wsum S (fun r => pop_of tv k r && in_el kr mr (ans r vr) i)))
                (Fin (wsum S (fun r => pop_of tv k r && ok_el kr mr (ans r vr) i))))).
Proof.
  exact (fun Ht Hr Hc Hk Hcol Hit =>
           column_index_spec S tv vr vc kr kc mr mc k Ht Hr Hc Hk Hcol Hit i j).
Qed.
Print Assumptions C16_column_index.

(* undefined shares give NaN *)
Theorem C16_nan_when_column_share_undefined bl : column_index_cell (Fin 0) (Fin 0) bl = NaN.
Proof. exact (column_index_nan_colprop bl). Qed.
Print Assumptions C16_nan_when_column_share_undefined.

Theorem C16_nan_when_row_share_undefined c b : column_index_cell c b NaN = NaN.
Proof. exact (column_index_nan_baseline c b). Qed.
Print Assumptions C16_nan_when_row_share_undefined.

Theorem C16_nan_when_both_shares_zero b : ~ (b == 0)%Q ->
  column_index_cell (Fin 0) (Fin b) (Fin 0) = NaN.
Proof. exact (column_index_zero_over_zero b). Qed.
Print Assumptions C16_nan_when_both_shares_zero.

(* The former witness of the repaired defect: table variable with categories [missing, valid]; in
   the valid table the row shares are 1/4 and 3/4 and equal the column proportions, so every index
   is 100 (the unrepaired code took the baseline from the MISSING category's table: inf). *)
Theorem C16_former_witness :
  let S := c16_witness in
  let tv : tvar := Some (0, KCat, [true; false]) in
  let mr := [false; false] in
  let mc := [false; false] in
  t_ok tv /\ 0 < t_n tv /\ wf_survey S /\ col_total S 2 (length mc) /\
  toffset tv 0 <> 0 /\
  (let V := slice_of tv 1 KCat mr 2 KCat mc S 0 in
   column_index_cell (counts_of V CCat CCat 1 0)
                     (column_bases_of V (nval mr) (length mrv) CCat CCat 1 0)
                     (baseline_of (raw_slice_of tv 1 KCat mr 2 KCat mc S 0) (valid_idxs mr) (length mc) 3
                                  false false 1 0)
   =x= Fin 100%Q).
Proof. exact c16_former_witness. Qed.
Print Assumptions C16_former_witness.

(* Non-vacuity of the positive theorems: CAT x MR, many missing column answers unevenly over
   rows; the flat payload goes through [slice_column_index] (what the check evaluates). *)
Example C16_example :
  let S := [ mkResp [ACat 0; AMr [Sel; Mis]] 2;
             mkResp [ACat 0; AMr [Mis; Mis]] 6;
             mkResp [ACat 2; AMr [Sel; Oth]] 1;
             mkResp [ACat 2; AMr [Oth; Sel]] 1;
             mkResp [ACat 1; AMr [Sel; Sel]] 4 ] in
  let mr := [false; true; false] in
  let mc := [false; false] in
  let ds := cube_dims None KCat mr KMr mc in
  let payload := flatten (raw_shape ds) (raw_of (cube_vars None 0 KCat 1 KMr) S) in
  t_ok None /\ cat_or_mr KCat /\ cat_or_mr KMr /\ wf_survey S /\
  option_map (map (map xred)) (slice_column_index ds payload payload 0)
    = Some [[Fin (250 # 3); Fin 0]; [Fin (500 # 3); Fin 500]] /\
  xmul (Fin 100%Q)
    (xdiv (xdiv (Fin (wsum S (fun r => in_el KCat mr (ans r 0) 0 && in_el KMr mc (ans r 1) 0)))
                (Fin (wsum S (fun r => ok_el KCat mr (ans r 0) 0 && in_el KMr mc (ans r 1) 0))))
          (xdiv (Fin (wsum S (fun r => in_el KCat mr (ans r 0) 0)))
                (Fin (wsum S (fun r => ok_el KCat mr (ans r 0) 0)))))
  =x= Fin (250 # 3).
Proof.
  cbv zeta. repeat split; try (left; reflexivity); try (right; reflexivity);
    try (repeat constructor; discriminate); try (vm_compute; reflexivity).
Qed.

(* ------------------------------------------------------------------------------------ *)
(* THE TIE TO THE SOURCE TEXT (DESIGN 2.4 (a)).  Gen/*.v is rewritten from
   /repo/src/cr/cube/{matrix,stripe}/cubemeasure.py on every check by the ast translator; the
   theorems below say that what the source SAYS NOW ([teval] of the translated term,
   Base/Tensor.v), for the class the factory picks for a (rows, columns) pair, IS the baseline
   [baseline_of] the theorems above are about -- result shape and every in-range cell (or "None" exactly
   where the model says the margin is undefined), for all tensors and sizes.  [None] on the
   left = the translator could not read the method (then only the correspondence ties it).
   A change of meaning in the source breaks these obligations (Proofs/GenAgree.v fails). *)
From Coq Require Import String.
From CC Require Import Base.Tensor Gen.CubeCountsSrc Gen.StripeCountsSrc Gen.Tables
     Proofs.GenAgreeTac Proofs.GenAgreeCounts Proofs.GenAgreeBaseline.

(* the four _*UnconditionalCubeCounts.baseline variants, through the factory's own dispatch.
   W = counts_with_missings[_slice_idx_expr] (raw shape: all rows nar, all columns nac, raw
   selection axes sa); vr / vc = valid offsets of the rows / columns dimension *)
Theorem C16_gen_baseline :
  match src_UnconditionalCubeCounts_dispatch with
  | Some D => forall rmr cmr,
      meth src_methods (cond_pick rmr cmr (fst D) (snd D)) "baseline"
        (fun e => forall W vr vc nar nac sa,
           agrees2 (teval (envW (bl_shape rmr cmr nar nac sa) W vr vc) e)
                   (bl_rows rmr cmr vr nar) (bl_cols cmr nac) (baseline_of W vr nac sa rmr cmr))
  | None => True
  end.
Proof. exact gen_dispatch_baseline. Qed.
Print Assumptions C16_gen_baseline.

(* the baseline classes get counts_with_missings cut by _slice_idx_expr, which is [slice_at] *)
Theorem C16_gen_baseline_input :
  binds_to src_UnconditionalCubeCounts_binds "_counts_with_missings"
           (FSliced (FCube "counts_with_missings")) /\
  match src_slice_idx_expr with
  | Some R => forall ndim table_mr k (T : tensor) idx, idx <> [] ->
      slice_rule_apply R ndim table_mr k T idx = slice_at ndim table_mr k T idx
  | None => True
  end.
Proof.
  exact (conj (proj2 (proj2 (proj2 (proj2 (proj2 gen_factory_binds))))) gen_slice_idx_expr).
Qed.
Print Assumptions C16_gen_baseline_input.

Theorem C16_gen_counts :
  match src_CubeCounts_dispatch with
  | Some D => forall rc cc,
      meth src_methods (dict_pick (tag rc, tag cc) (fst D) (snd D)) "counts"
        (fun e => forall V nr nc sr sc,
           agrees2 (teval (envC (shape_of rc cc nr nc sr sc) V) e) nr nc (counts_of V rc cc))
  | None => True
  end.
Proof. exact gen_dispatch_counts. Qed.
Print Assumptions C16_gen_counts.

(* ==== GenAgree (measures): what matrix/measure.py, stripe/measure.py, cubepart.py SAY NOW ==== *)
(* Gen/MeasureSrc.v, Gen/StripeMeasureSrc.v, Gen/PartMeasureSrc.v are REWRITTEN FROM THE SOURCE on every
   check by harness/translate/measures.py (an `ast` whitelist, fail-closed): one [option mexp] per
   (class, member) -- per block for a `blocks` member -- read through the wiring of the collection class.
   The theorems below say that what the source SAYS NOW ([meval] / the signed-square reading [meval_sq] of
   the translated term, Base/MeasureExp.v), for ALL input blocks, sizes and subtotal lists, IS the
   definition of Model.CubeCounts the theorems above are about -- tagged shape and every in-range cell.
   [None] on the left = the translator could not read the member (then only the correspondence ties it).
   A change of meaning in the source breaks these obligations (Proofs/GenAgreeIndex.v fails). *)
From Coq Require String.
From CC Require Base.MeasureExp Model.Subtotals Model.Proportions Gen.MeasureSrc Gen.StripeMeasureSrc Gen.PartMeasureSrc Gen.Tables
     Proofs.GenAgreeMeasTac Proofs.GenAgreeIndex.
Section GenAgreeMeasures_C16.   (* scopes and imports below end with the section *)
Import Coq.Strings.String CC.Base.MeasureExp CC.Model.Subtotals CC.Model.Proportions CC.Gen.MeasureSrc CC.Gen.StripeMeasureSrc
       CC.Gen.PartMeasureSrc CC.Gen.Tables CC.Proofs.GenAgreeMeasTac CC.Proofs.GenAgreeIndex.
Import Coq.Lists.List.ListNotations CC.Base.XQ.
Local Close Scope Q_scope.
Local Open Scope string_scope.
Local Open Scope nat_scope.

Theorem C16_gen_column_index_formula :
  match src_ColumnIndex__column_index with
  | Some e => forall nr nc rsubs csubs rd cd blk cubem cubeflag flag (cmr : bool) bl,
      holds_mat (menv_std nr nc rsubs csubs rd cd blk cubem (index_cube cmr bl) cubeflag flag) e DR DC
        (index_model blk cmr bl)
  | None => True
  end.
Proof. exact gen_ColumnIndex__column_index. Qed.
Print Assumptions C16_gen_column_index_formula.

Theorem C16_gen_column_index_blocks :
  (match src_ColumnIndex_blocks_00 with
  | Some e => forall nr nc rsubs csubs rd cd blk cubem cubeflag flag (cmr : bool) bl,
      holds_mat (menv_std nr nc rsubs csubs rd cd blk cubem (index_cube cmr bl) cubeflag flag) e DR DC
        (mnth (b_base (nan_blocks (tab2 nr nc (index_model blk cmr bl)) nr nc rsubs csubs)))
  | None => True
  end) /\
  (match src_ColumnIndex_blocks_01 with
  | Some e => forall nr nc rsubs csubs rd cd blk cubem cubeflag flag (cmr : bool) bl,
      holds_mat (menv_std nr nc rsubs csubs rd cd blk cubem (index_cube cmr bl) cubeflag flag) e DR DCS
        (mnth (b_cols (nan_blocks (tab2 nr nc (index_model blk cmr bl)) nr nc rsubs csubs)))
  | None => True
  end) /\
  (match src_ColumnIndex_blocks_10 with
  | Some e => forall nr nc rsubs csubs rd cd blk cubem cubeflag flag (cmr : bool) bl,
      holds_mat (menv_std nr nc rsubs csubs rd cd blk cubem (index_cube cmr bl) cubeflag flag) e DRS DC
        (mnth (b_rows (nan_blocks (tab2 nr nc (index_model blk cmr bl)) nr nc rsubs csubs)))
  | None => True
  end) /\
  (match src_ColumnIndex_blocks_11 with
  | Some e => forall nr nc rsubs csubs rd cd blk cubem cubeflag flag (cmr : bool) bl,
      holds_mat (menv_std nr nc rsubs csubs rd cd blk cubem (index_cube cmr bl) cubeflag flag) e DRS DCS
        (mnth (b_inter (nan_blocks (tab2 nr nc (index_model blk cmr bl)) nr nc rsubs csubs)))
  | None => True
  end).
Proof. exact (conj gen_ColumnIndex_blocks_00 (conj gen_ColumnIndex_blocks_01 (conj gen_ColumnIndex_blocks_10 gen_ColumnIndex_blocks_11))). Qed.
Print Assumptions C16_gen_column_index_blocks.

(* non-vacuity: count 1 of column base 2 against a baseline of 1/4: the translated index is 200 *)
Example C16_gen_example :
  match src_ColumnIndex__column_index with
  | Some e =>
      let blk := fun (m : string) (_ _ : nat) =>
        if String.eqb m "weighted_counts" then [[Fin 1%Q]] else [[Fin 2%Q]] in
      match meval (menv_std 1 1 [] [] false false blk (fun _ _ => []) (index_cube false (fun _ _ => Fin (Qmake 1 4)))
                            (fun _ _ => false) (fun _ => false)) e with
      | VMat DR DC f => f 0 0 =x= Fin 200%Q
      | _ => False
      end
  | None => True
  end.
Proof. vm_compute. first [exact I | reflexivity]. Qed.

End GenAgreeMeasures_C16.

(* ---- WIRING-APPENDIX:BEGIN (generated by tools/gen_wiring_props.py; do not edit) ---- *)
From CC Require Proofs.GenAgreeWiring_C16.
Section Wiring_C16.
Import Coq.Lists.List Coq.ZArith.ZArith Coq.Strings.String CC.Base.WiringExp CC.Gen.WiringSrc.
Import ListNotations.
Local Open Scope string_scope.

Theorem C16_wiring_Slice_column_index :
  wsrc_Slice_column_index = Some (w_matrix_of "column_index").
Proof. exact Proofs.GenAgreeWiring_C16.gen_wiring_Slice_column_index. Qed.
Print Assumptions C16_wiring_Slice_column_index.

Theorem C16_wiring_SecondOrderMeasures_column_index :
  wsrc_SecondOrderMeasures_column_index = Some (WCall (WGlobal "_ColumnIndex") [WSelf "_dimensions";
      WVar "self"; WSelf "_cube_measures"] []).
Proof. exact Proofs.GenAgreeWiring_C16.gen_wiring_SecondOrderMeasures_column_index. Qed.
Print Assumptions C16_wiring_SecondOrderMeasures_column_index.

Theorem C16_wiring_MatrixCubeMeasures_unconditional_cube_counts :
  wsrc_MatrixCubeMeasures_unconditional_cube_counts = Some (WCall (WAttr (WGlobal
      "_BaseUnconditionalCubeCounts") "factory") [WSelf "_cube"; WSelf "_dimensions"; WIf (WCmp ">"
      (WAttr (WSelf "_cube") "ndim") (WInt (2)%Z)) (WIndex (WAttr (WAttr (WIndex (WAttr (WSelf
      "_cube") "dimensions") [WInt (0)%Z]) "valid_elements") "element_idxs") [WSelf "_slice_idx"])
      (WSelf "_slice_idx")] []).
Proof. exact Proofs.GenAgreeWiring_C16.gen_wiring_MatrixCubeMeasures_unconditional_cube_counts. Qed.
Print Assumptions C16_wiring_MatrixCubeMeasures_unconditional_cube_counts.

End Wiring_C16.
(* ---- WIRING-APPENDIX:END ---- *)

(*BEGIN ComposePublic_C16*)
(* ==== COMPOSED PUBLIC THEOREMS (DESIGN 8.1: the composition of the translators' links, proved) ==== *)
(* Generated by tools/gen_compose_appendix.py; do not edit between the markers.
   [public_slice C p] (Proofs/ComposePublicSem.v) is the value of the public member p of cubepart._Slice computed
   by the CHAIN OF GENERATED TERMS: the wiring term of p (Gen/WiringSrc.v, x_wiring) over the evaluation ([aeval]) of
   the generated `_assemble_matrix` term (Gen/AssembleSrc.v, x_assemble) over the evaluations ([meval] / [meval_sq] /
   [beval]) of the generated block terms of the measure (Gen/MeasureSrc.v, Gen/BasesSrc.v) -- each in the environment
   in which the blocks of the measures it mentions are again evaluations of generated terms -- on the context
   [Cs ..]: the four first-order arrays Model/CubeCounts.v::slice_counts extracts from the flat payload of
   `tabulate S` ([survey_payload]), any subtotals / flags, any pair of in-range signed display orders.
   [need b P] = P when every generated term named in b is available ([None] => True, like the GenAgree lemmas);
   Cxx_public_terms_available: on this tree they all are.  The proofs use the GenAgree lemmas of the links as they
   are (never unfolding a generated term) and Proofs/Compose*.v / Merge*.v for the last step to the respondents.
   A change of MEANING of any generated term of a chain breaks the composed theorem of every member above it. *)
From Coq Require String.
From CC Require Spec.Merge Model.Subtotals Model.Proportions Proofs.MergeSurvey Proofs.ComposeBase Proofs.ComposePayload
     Proofs.ComposePublicSem Proofs.ComposePublicLinks Proofs.ComposePublicSlice Proofs.ComposePublicCells Proofs.CubeCountsIndex Proofs.ComposePublicChain3 Proofs.ComposePublicC16.
Section ComposePublic_C16.   (* scopes and imports below end with the section *)
Import Coq.Strings.String Coq.ZArith.ZArith CC.Spec.Merge CC.Model.Subtotals CC.Model.Proportions CC.Proofs.MergeSurvey
       CC.Proofs.ComposeBase CC.Proofs.ComposePayload CC.Proofs.ComposePublicSem CC.Proofs.ComposePublicLinks
       CC.Proofs.ComposePublicSlice CC.Proofs.ComposePublicCells CC.Proofs.CubeCountsIndex CC.Proofs.ComposePublicChain3 CC.Proofs.ComposePublicC16.
Import Coq.Lists.List.ListNotations.
Local Close Scope Q_scope.
Local Open Scope string_scope.
Local Open Scope nat_scope.


(* the vocabulary of the statement ([survey_display]: C03_public_vocabulary, [base_cells_spec]: C11_public_vocabulary).
   [Cs_index ..] is the context [Cs ..] with the baseline of the unconditional cube counts: the array
   Model/CubeCounts.v::baseline_of extracts from the raw (missing-including) tensor of `tabulate S`, of shape
   (rows, columns) for MR columns and (rows, 1) otherwise. *)
Theorem C16_public_vocabulary :
  (forall S tv vr kr mr vc kc mc k r c x,
     index_cell_spec S tv vr kr mr vc kc mc k r c x =
     (x =x= xmul (Fin 100%Q)
              (xdiv (xdiv (Fin (w_cell tv k vr kr mr vc kc mc S r c)) (Fin (w_colbase tv k vr kr mr vc kc mc S r c)))
                    (xdiv (Fin (wsum S (fun p => pop_of tv k p && in_el kr mr (ans p vr) r)))
                          (Fin (wsum S (fun p => pop_of tv k p && ok_el kr mr (ans p vr) r))))))) /\
  (forall S vr kr mr vc kc mc,
     baseline_ok S vr kr mr vc kc mc =
     ((kc = KCat -> col_total S vc (List.length mc)) /\
      (kr = KMr -> kc = KMr -> forall i, i < nval mr -> nth i (valid_idxs mr) 0 = i))) /\
  (forall S tv vr kr mr vc kc mc k rsubs csubs dn rd cd flag ro co so,
     Cs_index S tv vr kr mr vc kc mc k rsubs csubs dn rd cd flag ro co so =
     with_baseline (Cs mr mc rsubs csubs dn rd cd flag ro co so) (kmr kc)
       (baseline_of (raw_slice_of tv vr kr mr vc kc mc S k) (valid_idxs mr) (List.length mc) 3 (kmr kr) (kmr kc))).
Proof. exact (conj (fun _ _ _ _ _ _ _ _ _ _ _ _ => eq_refl) (conj (fun _ _ _ _ _ _ _ => eq_refl)
                   (fun _ _ _ _ _ _ _ _ _ _ _ _ _ _ _ _ _ _ => eq_refl))). Qed.
Print Assumptions C16_public_vocabulary.

(* _Slice.column_index at a display cell showing base row r, base column c: 100 * column proportion / unconditional share of row r *)
Theorem C16_public_Slice_column_index :
  need terms_public_column_index
  (forall S tv vr kr mr vc kc mc k rsubs csubs dn rd cd flag ro co so,
     survey_display S tv vr kr mr vc kc mc k rsubs csubs ro co so ->
     baseline_ok S vr kr mr vc kc mc ->
     base_cells_spec (public_slice (Cs_index S tv vr kr mr vc kc mc k rsubs csubs dn rd cd flag ro co so) "column_index") ro co
       (index_cell_spec S tv vr kr mr vc kc mc k)).
Proof. exact compose_public_Slice_column_index. Qed.
Print Assumptions C16_public_Slice_column_index.

(* NON-VACUITY of the guards: every generated term the chains need is available on this tree *)
Theorem C16_public_terms_available :
  terms_public_column_index = true.
Proof. exact eq_refl. Qed.
Print Assumptions C16_public_terms_available.

(* EXAMPLE: the survey, subtotal and display of the C03_public_* examples (an inserted row is NaN) *)
Example C16_public_Slice_column_index_example :
  let S := [ mkResp [ACat 0; AMr [Sel; Oth]; ACat 0] (3 # 2);
             mkResp [ACat 2; AMr [Sel; Mis]; ACat 1] 2;
             mkResp [ACat 1; AMr [Sel; Sel]; ACat 0] 5;
             mkResp [ACat 2; AMr [Oth; Sel]; ACat 1] (1 # 4);
             mkResp [ACat 0; AMr [Oth; Oth]; ACat 2] 1 ] in
  let mr := [false; true; false; false] in
  let mc := [false; false] in
  let rs := [mkSub [0; 2] []] in
  let ro := [1; -1; 0]%Z in
  let co := [1; 0]%Z in
  match slice_counts (cube_dims None KCat mr KMr mc) (survey_payload None 0 KCat mr 1 KMr mc S) 0 with
  | Some so =>
      let P := public_slice (Cs_index S None 0 KCat mr 1 KMr mc 0 rs [] false false false (fun _ => false) ro co so) "column_index" in
      survey_display S None 0 KCat mr 1 KMr mc 0 rs [] ro co so /\
      baseline_ok S 0 KCat mr 1 KMr mc /\
      base_cells_spec P ro co (index_cell_spec S None 0 KCat mr 1 KMr mc 0) /\
      pred P = PMat 3 2 [[Fin (1900 # 9); Fin (7600 # 63)]; [NaN; NaN]; [Fin 0; Fin (570 # 7)]] /\
      (100 * ((w_cell None 0 0 KCat mr 1 KMr mc S 1 0 / w_colbase None 0 0 KCat mr 1 KMr mc S 1 0) / (wsum S (fun p => pop_of None 0 p && in_el KCat mr (ans p 0) 1) / wsum S (fun p => pop_of None 0 p && ok_el KCat mr (ans p 0) 1))) == 7600 # 63)%Q
  | None => False
  end.
Proof.
  cbv zeta.
  destruct (slice_counts (cube_dims None KCat [false; true; false; false] KMr [false; false])
              (survey_payload None 0 KCat [false; true; false; false] 1 KMr [false; false] _) 0) as [so|] eqn:E;
    [|vm_compute in E; discriminate].
  assert (D : survey_display
                [ mkResp [ACat 0; AMr [Sel; Oth]; ACat 0] (3 # 2); mkResp [ACat 2; AMr [Sel; Mis]; ACat 1] 2;
                  mkResp [ACat 1; AMr [Sel; Sel]; ACat 0] 5; mkResp [ACat 2; AMr [Oth; Sel]; ACat 1] (1 # 4);
                  mkResp [ACat 0; AMr [Oth; Oth]; ACat 2] 1 ]
                None 0 KCat [false; true; false; false] 1 KMr [false; false] 0 [mkSub [0; 2] []] []
                [1; -1; 0]%Z [1; 0]%Z so).
  { split; [exact I|]. split; [left; reflexivity|]. split; [right; reflexivity|]. split; [vm_compute; lia|].
    split; [repeat constructor; discriminate|]. split; [vm_compute; lia|]. split; [vm_compute; lia|].
    split; [exact E|]. split; repeat constructor; vm_compute; discriminate. }
  split; [exact D|].
  assert (HX : baseline_ok [ mkResp [ACat 0; AMr [Sel; Oth]; ACat 0] (3 # 2); mkResp [ACat 2; AMr [Sel; Mis]; ACat 1] 2;
                  mkResp [ACat 1; AMr [Sel; Sel]; ACat 0] 5; mkResp [ACat 2; AMr [Oth; Sel]; ACat 1] (1 # 4);
                  mkResp [ACat 0; AMr [Oth; Oth]; ACat 2] 1 ] 0 KCat [false; true; false; false] 1 KMr [false; false])
    by (split; intros; discriminate).
  split; [exact HX|].
  split; [exact (need_elim _ _ eq_refl C16_public_Slice_column_index _ _ _ _ _ _ _ _ _ _ _ _ _ _ _ _ _ _ D HX)|].
  vm_compute in E. injection E as <-.
  split; [vm_compute; reflexivity|]. vm_compute; reflexivity.
Qed.

End ComposePublic_C16.
(*END ComposePublic_C16*)
