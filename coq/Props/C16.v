(* C16 -- Column index compares column share with the unconditional row share.

   Only statements ([exact <lemma>] + [Print Assumptions]).  Spec: Spec/Survey.v.  Model:
   Model/CubeCounts.v ([baseline_of] = the four _*UnconditionalCubeCounts.baseline variants,
   applied to counts_with_missings[_slice_idx_expr]; [column_index_cell] =
   _ColumnIndex._column_index), tied to the code by harness/props/c16.py.
   Proofs: Proofs/CubeCountsIndex.v.

   Scope: categorical (incl. enum) / multiple-response pairings, 2-D and 3-D.
   The model is faithful to the CODE; for 3-D cubes the code cuts counts_with_missings at the
   RANK of the table element among the valid ones instead of its raw offset, so the theorems
   carry the hypothesis [rank_is_offset] (no missing table element before the k-th valid one)
   and [C16_rank_vs_offset_refuted] exhibits a survey on which the statement fails without it
   (finding C16-3d-baseline-wrong-table).  NaN on inserted subtotals is checked on the
   implementation by the harness (NanSubtotals is not modelled here). *)
From Coq Require Import QArith ZArith List Bool Lia Arith.
From CC Require Import Base.XQ Base.ListX Spec.Survey Model.CubeCounts
     Proofs.CubeCountsProofs Proofs.CubeCountsIndex.
Import ListNotations.
Local Close Scope Q_scope.
Local Open Scope nat_scope.

(* The baseline of row i (and column j, where the code produces a 2-D baseline) is the row
   element's unconditional share: weighted members of the row element over weighted
   respondents eligible for it -- no condition on the column answer at all. *)
Theorem C16_baseline_is_unconditional_row_share S tv vr vc kr kc mr mc k i j :
  t_ok tv -> cat_or_mr kr -> cat_or_mr kc -> k < t_n tv ->
  rank_is_offset tv k ->
  (kc = KCat -> col_total S vc (length mc)) ->
  (kr = KMr -> kc = KMr -> forall i, i < nval mr -> nth i (valid_idxs mr) 0 = i) ->
  i < nval mr ->
  baseline_of (raw_slice_of tv vr kr mr vc kc mc S k) (valid_idxs mr) (length mc) 3 (kmr kr) (kmr kc) i j
  =x= xdiv (Fin (wsum S (fun r => pop_of tv k r && in_el kr mr (ans r vr) i)))
           (Fin (wsum S (fun r => pop_of tv k r && ok_el kr mr (ans r vr) i))).
Proof.
  exact (fun Ht Hr Hc Hk Hrank Hcol Hit =>
           baseline_of_spec S tv vr vc kr kc mr mc k Ht Hr Hc Hk Hrank Hcol Hit i j).
Qed.
Print Assumptions C16_baseline_is_unconditional_row_share.

(* column index = 100 * column proportion / unconditional row share *)
Theorem C16_column_index S tv vr vc kr kc mr mc k i j :
  t_ok tv -> cat_or_mr kr -> cat_or_mr kc -> k < t_n tv ->
  rank_is_offset tv k ->
  (kc = KCat -> col_total S vc (length mc)) ->
  (kr = KMr -> kc = KMr -> forall i, i < nval mr -> nth i (valid_idxs mr) 0 = i) ->
  i < nval mr -> j < nval mc ->
  let V := slice_of tv vr kr mr vc kc mc S k in
  column_index_cell
    (counts_of V (kcls kr) (kcls kc) i j)
    (column_bases_of V (nval mr) (length mrv) (kcls kr) (kcls kc) i j)
    (baseline_of (raw_slice_of tv vr kr mr vc kc mc S k) (valid_idxs mr) (length mc) 3 (kmr kr) (kmr kc) i j)
  =x=
  xmul (Fin 100%Q)
    (xdiv (xdiv (Fin (wsum S (fun r => pop_of tv k r && in_el kr mr (ans r vr) i && in_el kc mc (ans r vc) j)))
                (Fin (wsum S (fun r => pop_of tv k r && ok_el kr mr (ans r vr) i && in_el kc mc (ans r vc) j))))
          (xdiv (Fin (wsum S (fun r => pop_of tv k r && in_el kr mr (ans r vr) i)))
                (Fin (wsum S (fun r => pop_of tv k r && ok_el kr mr (ans r vr) i))))).
Proof.
  exact (fun Ht Hr Hc Hk Hrank Hcol Hit =>
           column_index_spec S tv vr vc kr kc mr mc k Ht Hr Hc Hk Hrank Hcol Hit i j).
Qed.
Print Assumptions C16_column_index.

(* 2-D cubes need no rank hypothesis *)
Theorem C16_rank_hypothesis_is_void_in_2d k : rank_is_offset None k.
Proof. exact I. Qed.
Print Assumptions C16_rank_hypothesis_is_void_in_2d.

(* undefined shares give NaN *)
Theorem C16_nan_when_column_share_undefined bl : column_index_cell (Fin 0) (Fin 0) bl = NaN.
Proof. exact (column_index_nan_colprop bl). Qed.
Print Assumptions C16_nan_when_column_share_undefined.

Theorem C16_nan_when_row_share_undefined c b : column_index_cell c b NaN = NaN.
Proof. exact (column_index_nan_baseline c b). Qed.
Print Assumptions C16_nan_when_row_share_undefined.

Theorem C16_nan_when_both_shares_zero b : ~ (b == 0)%Q ->
  column_index_cell (Fin 0) (Fin b) (Fin 0) = NaN.
Proof. exact (column_index_zero_over_zero b). Qed.
Print Assumptions C16_nan_when_both_shares_zero.

(* The witness: table variable with categories [missing, valid]; in the valid table the row
   shares are 1/4 and 3/4 and equal the column proportions, so every index should be 100.
   The code takes the baseline from the MISSING category's table (everybody in row 0). *)
Theorem C16_rank_vs_offset_refuted :
  exists (S : survey) (tv : tvar) (mr mc : list bool),
    t_ok tv /\ 0 < t_n tv /\ wf_survey S /\ col_total S 2 (length mc) /\
    ~ rank_is_offset tv 0 /\
    (let V := slice_of tv 1 KCat mr 2 KCat mc S 0 in
     column_index_cell (counts_of V CCat CCat 1 0)
                       (column_bases_of V (nval mr) (length mrv) CCat CCat 1 0)
                       (baseline_of (raw_slice_of tv 1 KCat mr 2 KCat mc S 0) (valid_idxs mr) (length mc) 3
                                    false false 1 0)
     = Inf false) /\
    xmul (Fin 100%Q)
      (xdiv (xdiv (Fin (wsum S (fun r => pop_of tv 0 r && in_el KCat mr (ans r 1) 1 && in_el KCat mc (ans r 2) 0)))
                  (Fin (wsum S (fun r => pop_of tv 0 r && ok_el KCat mr (ans r 1) 1 && in_el KCat mc (ans r 2) 0))))
            (xdiv (Fin (wsum S (fun r => pop_of tv 0 r && in_el KCat mr (ans r 1) 1)))
                  (Fin (wsum S (fun r => pop_of tv 0 r && ok_el KCat mr (ans r 1) 1)))))
    =x= Fin 100%Q.
Proof. exact c16_refuted_witness. Qed.
Print Assumptions C16_rank_vs_offset_refuted.

(* Non-vacuity of the positive theorems: CAT x MR, many missing column answers unevenly over
   rows; the flat payload goes through [slice_column_index] (what the check evaluates). *)
Example C16_example :
  let S := [ mkResp [ACat 0; AMr [Sel; Mis]] 2;
             mkResp [ACat 0; AMr [Mis; Mis]] 6;
             mkResp [ACat 2; AMr [Sel; Oth]] 1;
             mkResp [ACat 2; AMr [Oth; Sel]] 1;
             mkResp [ACat 1; AMr [Sel; Sel]] 4 ] in
  let mr := [false; true; false] in
  let mc := [false; false] in
  let ds := cube_dims None KCat mr KMr mc in
  let payload := flatten (raw_shape ds) (raw_of (cube_vars None 0 KCat 1 KMr) S) in
  t_ok None /\ cat_or_mr KCat /\ cat_or_mr KMr /\ rank_is_offset None 0 /\ wf_survey S /\
  option_map (map (map xred)) (slice_column_index ds payload payload 0)
    = Some [[Fin (250 # 3); Fin 0]; [Fin (500 # 3); Fin 500]] /\
  xmul (Fin 100%Q)
    (xdiv (xdiv (Fin (wsum S (fun r => in_el KCat mr (ans r 0) 0 && in_el KMr mc (ans r 1) 0)))
                (Fin (wsum S (fun r => ok_el KCat mr (ans r 0) 0 && in_el KMr mc (ans r 1) 0))))
          (xdiv (Fin (wsum S (fun r => in_el KCat mr (ans r 0) 0)))
                (Fin (wsum S (fun r => ok_el KCat mr (ans r 0) 0)))))
  =x= Fin (250 # 3).
Proof.
  cbv zeta. repeat split; try (left; reflexivity); try (right; reflexivity);
    try (repeat constructor; discriminate); try (vm_compute; reflexivity).
Qed.
